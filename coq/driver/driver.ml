(* Generic correspondence driver: reads one case per line
     <engine> <val> <val> ...
   with val ::= i<decimal> | x<hex> | e<code> | [ val* ]
   calls the extracted Model.dispatch and prints the resulting val on one line.
   No property-specific logic lives here. *)
(* no `open Model`: extracted modules may define types named string, list, ... *)

let byte_of_int (i : int) : Model.byte = Obj.magic i
let int_of_byte (b : Model.byte) : int = Obj.magic b

let hexval c = match c with
  | '0'..'9' -> Char.code c - 48 | 'a'..'f' -> Char.code c - 87
  | 'A'..'F' -> Char.code c - 55 | _ -> failwith "hex"

let bytes_of_hex (s : string) (off : int) : Model.byte list =
  let n = (String.length s - off) / 2 in
  let rec go i acc = if i < 0 then acc else
    go (i-1) (byte_of_int (hexval s.[off+2*i] * 16 + hexval s.[off+2*i+1]) :: acc) in
  go (n-1) []

let rec parse (toks : string list) : Model.val0 list * string list =
  match toks with
  | [] -> ([], [])
  | "]" :: rest -> ([], rest)
  | "[" :: rest ->
      let (inner, rest') = parse rest in
      let (more, rest'') = parse rest' in
      (Model.VList inner :: more, rest'')
  | t :: rest ->
      let v = match t.[0] with
        | 'i' -> Model.VInt (Big_int_Z.big_int_of_string (String.sub t 1 (String.length t - 1)))
        | 'e' -> Model.VErr (Big_int_Z.big_int_of_string (String.sub t 1 (String.length t - 1)))
        | 'x' -> Model.VBytes (bytes_of_hex t 1)
        | _ -> failwith ("token " ^ t) in
      let (more, rest') = parse rest in
      (v :: more, rest')

let rec print_val (b : Buffer.t) (v : Model.val0) : unit =
  match v with
  | Model.VInt z -> Buffer.add_char b 'i'; Buffer.add_string b (Big_int_Z.string_of_big_int z)
  | Model.VErr z -> Buffer.add_char b 'e'; Buffer.add_string b (Big_int_Z.string_of_big_int z)
  | Model.VBytes l -> Buffer.add_char b 'x';
      List.iter (fun c -> Buffer.add_string b (Printf.sprintf "%02x" (int_of_byte c))) l
  | Model.VList l -> Buffer.add_char b '[';
      List.iter (fun x -> Buffer.add_char b ' '; print_val b x) l; Buffer.add_string b " ]"

let () =
  (* self-check of the byte representation trick against the extracted b2z *)
  for i = 0 to 255 do
    if Big_int_Z.int_of_big_int (Model.b2z (byte_of_int i)) <> i then failwith "byte repr"
  done;
  let buf = Buffer.create 65536 in
  (try
    while true do
      let line = input_line stdin in
      let toks = List.filter (fun s -> s <> "") (String.split_on_char ' ' line) in
      (match toks with
       | [] -> print_endline ""
       | e :: args ->
         let (vals, _) = parse args in
         Buffer.clear buf;
         (try print_val buf (Model.dispatch (Big_int_Z.big_int_of_string e) vals)
          with Stack_overflow -> Buffer.clear buf; Buffer.add_string buf "e999");
         print_endline (Buffer.contents buf))
    done
  with End_of_file -> ())
