(* Tie/C17.v – translator tie: the definitions regenerated from bitcoin/core/serialize.py
   by tools/py2coq.py are (up to conversion) the hand-written MODEL.  If a rewrite of the
   Python changes the shape this file stops compiling; the check then relies on the
   correspondence run alone for the MODEL <-> code link (reported in the evidence). *)
From BV Require Import Common.Base Model.Compact Gen.Compact.

Lemma tie_from_compact : forall c, Gen.Compact.uint256_from_compact c = Model.Compact.from_compact c.
Proof. intros c. reflexivity. Qed.
Lemma tie_to_compact : forall v, 0 <= v -> Gen.Compact.compact_from_uint256 v = Model.Compact.to_compact v.
Proof.
  intros v H. unfold compact_from_uint256, to_compact, py_bit_length, bit_length.
  rewrite Z.abs_eq by exact H. reflexivity.
Qed.
Lemma tie_from_str : (uint256_from_str_words, uint256_from_str_wordbits, uint256_from_str_slice) = (8, 32, 32).
Proof. reflexivity. Qed.
