(* Model/Secp256k1.v – executable secp256k1 (SEC2 2.4.1) over Z: the concrete [curve] used
   by the correspondence run in place of OpenSSL's group arithmetic.  Jacobian coordinates
   (a = 0 formulas), one field inversion per scalar multiplication / addition.
   NOT PROVED: that this structure satisfies [curve_laws] (no elliptic-curve library is
   installed; associativity from scratch is out of reach).  That statement,
   [curve_laws secp256k1], is the explicit assumption linking the abstract theorems of
   C13 / C14 to this instance; it is exercised against OpenSSL by the correspondence run. *)
From BV Require Import Common.Base Spec.Ecdsa.

Definition secp_p : Z := 0xFFFFFFFFFFFFFFFFFFFFFFFFFFFFFFFFFFFFFFFFFFFFFFFFFFFFFFFEFFFFFC2F.
Definition secp_n : Z := 0xFFFFFFFFFFFFFFFFFFFFFFFFFFFFFFFEBAAEDCE6AF48A03BBFD25E8CD0364141.
Definition secp_b : Z := 7.
Definition secp_gx : Z := 0x79BE667EF9DCBBAC55A06295CE870B07029BFCDB2DCE28D959F2815B16F81798.
Definition secp_gy : Z := 0x483ADA7726A3C4655DA4FBFC0E1108A8FD17B448A68554199C47D08FFB10D4B8.

Definition fmul (a b : Z) : Z := (a * b) mod secp_p.
Definition fsub (a b : Z) : Z := (a - b) mod secp_p.
Definition fadd (a b : Z) : Z := (a + b) mod secp_p.
Definition fsqr (a : Z) : Z := (a * a) mod secp_p.

(* square-and-multiply, a ^ e mod m *)
Fixpoint pow_mod_pos (a : Z) (e : positive) (m : Z) : Z :=
  match e with
  | xH => a mod m
  | xO e' => let t := pow_mod_pos a e' m in (t * t) mod m
  | xI e' => let t := pow_mod_pos a e' m in ((t * t) mod m * a) mod m
  end.
Definition pow_mod (a e m : Z) : Z :=
  match e with Z0 => 1 mod m | Zpos p => pow_mod_pos a p m | Zneg _ => 0 end.

(* affine points; None = point at infinity *)
Definition apoint := option (Z * Z).
Definition on_curve (x y : Z) : bool :=
  (0 <=? x) && (x <? secp_p) && (0 <=? y) && (y <? secp_p) &&
  (fsqr y =? fadd (fmul (fsqr x) x) secp_b).

(* Jacobian (X, Y, Z) ~ (X / Z^2, Y / Z^3); Z = 0: infinity *)
Definition jac := (Z * Z * Z)%type.
Definition jac_inf : jac := (1, 1, 0).
Definition jac_of (P : apoint) : jac :=
  match P with Some (x, y) => (x, y, 1) | None => jac_inf end.
Definition jac_to (J : jac) : apoint :=
  let '(X, Y, Z1) := J in
  if Z1 =? 0 then None else
  let zi := inv_mod Z1 secp_p in
  let zi2 := fsqr zi in
  Some (fmul X zi2, fmul Y (fmul zi2 zi)).
Definition jac_double (J : jac) : jac :=
  let '(X1, Y1, Z1) := J in
  if (Z1 =? 0) || (Y1 =? 0) then jac_inf else
  let A := fsqr X1 in
  let B := fsqr Y1 in
  let C := fsqr B in
  let D := fmul 2 (fsub (fsub (fsqr (fadd X1 B)) A) C) in
  let E := fmul 3 A in
  let F := fsqr E in
  let X3 := fsub F (fmul 2 D) in
  let Y3 := fsub (fmul E (fsub D X3)) (fmul 8 C) in
  let Z3 := fmul 2 (fmul Y1 Z1) in
  (X3, Y3, Z3).
Definition jac_add (J1 J2 : jac) : jac :=
  let '(X1, Y1, Z1) := J1 in
  let '(X2, Y2, Z2) := J2 in
  if Z1 =? 0 then J2 else if Z2 =? 0 then J1 else
  let Z1Z1 := fsqr Z1 in
  let Z2Z2 := fsqr Z2 in
  let U1 := fmul X1 Z2Z2 in
  let U2 := fmul X2 Z1Z1 in
  let S1 := fmul Y1 (fmul Z2 Z2Z2) in
  let S2 := fmul Y2 (fmul Z1 Z1Z1) in
  if U1 =? U2 then (if S1 =? S2 then jac_double J1 else jac_inf) else
  let H := fsub U2 U1 in
  let R := fsub S2 S1 in
  let H2 := fsqr H in
  let H3 := fmul H H2 in
  let V := fmul U1 H2 in
  let X3 := fsub (fsub (fsqr R) H3) (fmul 2 V) in
  let Y3 := fsub (fmul R (fsub V X3)) (fmul S1 H3) in
  let Z3 := fmul H (fmul Z1 Z2) in
  (X3, Y3, Z3).
(* k P = 2 (k/2 P) [+ P] *)
Fixpoint jac_mul_pos (k : positive) (J : jac) : jac :=
  match k with
  | xH => J
  | xO k' => jac_double (jac_mul_pos k' J)
  | xI k' => jac_add (jac_double (jac_mul_pos k' J)) J
  end.

Definition secp_add (P Q : apoint) : apoint := jac_to (jac_add (jac_of P) (jac_of Q)).
Definition secp_mul (k : Z) (P : apoint) : apoint :=
  match k mod secp_n with
  | Zpos p => jac_to (jac_mul_pos p (jac_of P))
  | _ => None
  end.
Definition secp_eqb (P Q : apoint) : bool :=
  match P, Q with
  | None, None => true
  | Some (x1, y1), Some (x2, y2) => (x1 =? x2) && (y1 =? y2)
  | _, _ => false
  end.
(* the point with abscissa x whose ordinate has the given parity (p = 3 mod 4:
   square root by one exponentiation) *)
Definition secp_lift (x : Z) (odd : bool) : option apoint :=
  if (0 <=? x) && (x <? secp_p) then
    let y2 := fadd (fmul (fsqr x) x) secp_b in
    let y := pow_mod y2 ((secp_p + 1) / 4) secp_p in
    if fsqr y =? y2 then
      let y := if Bool.eqb (Z.odd y) odd then y else secp_p - y in
      if on_curve x y then Some (Some (x, y)) else None
    else None
  else None.
Definition secp_affine (x y : Z) : option apoint := if on_curve x y then Some (Some (x, y)) else None.

Definition secp256k1 : curve := {|
  pt := apoint;
  c_zero := None;
  c_add := secp_add;
  c_mul := secp_mul;
  c_gen := Some (secp_gx, secp_gy);
  c_n := secp_n;
  c_p := secp_p;
  c_is_zero := fun P => match P with None => true | Some _ => false end;
  c_eqb := secp_eqb;
  c_x := fun P => match P with Some (x, _) => x | None => 0 end;
  c_y := fun P => match P with Some (_, y) => y | None => 0 end;
  c_lift := secp_lift;
  c_affine := secp_affine
|}.
