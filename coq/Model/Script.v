(* Model/Script.v – the shared script MODEL (C08; C03, C06, C07, C16 build on it).
   Code-style transcription of
     bitcoin/core/script.py : CScriptOp.{encode_op_pushdata, encode_op_n, decode_op_n, is_small_int, __new__},
                              CScript.{__coerce_instance, __new__, __add__, raw_iter, __iter__, is_p2sh,
                              is_witness_scriptpubkey, witness_version, is_witness_v0_*, is_push_only,
                              has_canonical_pushes, is_unspendable, is_valid, GetSigOpCount}
     bitcoin/core/_bignum.py: bn_bytes, bn2bin, bin2bn, bn2mpi, mpi2bn, mpi2vch, bn2vch, vch2mpi, vch2bn
   as the tree is AFTER the fix of F1 (GetSigOpCount).  Definitions only – no proofs live here, so
   this file always compiles.  Opcode numbers, limits and the function-local literals of
   encode_op_pushdata / GetSigOpCount come from the regenerated Gen/ScriptConsts.v.

   A script is its byte string.  Python integers are Z; every partial Python operation
   (index, struct.pack range, bytes([n]) range, assert) is an explicit Err branch. *)
From BV Require Import Common.Base.
From BV Require Export Gen.ScriptConsts.

Definition script := bytes.

(* ---------- Python primitives ---------- *)
(* b[i] on bytes / a list, negative indices included *)
Definition py_index (s : bytes) (i : Z) : res Z :=
  let n := lenZ s in
  let j := if i <? 0 then i + n else i in
  if (j <? 0) || (n <=? j) then Err IndexError
  else match nth_error s (Z.to_nat j) with Some b => Ok (b2z b) | None => Err IndexError end.
(* b[lo:hi] for 0 <= lo (all uses); both bounds are clamped to len(b) first, like Python
   (so a declared push length of 2^32-1 never becomes a unary number) *)
Definition py_slice (s : bytes) (lo hi : Z) : bytes :=
  let n := lenZ s in
  let lo := Z.min lo n in let hi := Z.min hi n in
  firstn (Z.to_nat (hi - lo)) (skipn (Z.to_nat lo) s).
(* bytes([n]) *)
Definition bytes1 (n : Z) : res bytes :=
  if (0 <=? n) && (n <? 256) then Ok [z2b n] else Err ValueError.
(* struct.pack('<H' / '<I' / '>I', n) *)
Definition pack_le (w : nat) (n : Z) : res bytes :=
  if (0 <=? n) && (n <? 256 ^ Z.of_nat w) then Ok (le_enc w n) else Err StructError.
Definition pack_be32 (n : Z) : res bytes :=
  if (0 <=? n) && (n <? 2^32) then Ok (be_enc 4 n) else Err StructError.
(* int.bit_length (of the absolute value, as Python defines it) *)
Definition py_bit_length (v : Z) : Z := if v =? 0 then 0 else Z.log2 (Z.abs v) + 1.

(* the two script exceptions: CScriptInvalidError and its subclass CScriptTruncatedPushDataError *)
Definition is_script_err (e : exn) : bool :=
  match e with InvalidScript | TruncatedPush => true | _ => false end.

(* ---------- _bignum.py ---------- *)
Definition bn_bytes (v : Z) (have_ext : bool) : Z :=
  (py_bit_length v + 7) / 8 + (if have_ext then 1 else 0).
(* bn2bin: i = bn_bytes(v); while i > 0: s.append((v >> ((i-1)*8)) & 0xff); i -= 1   (a bytearray, kept as ints) *)
Fixpoint bn2bin_loop (i : nat) (v : Z) : list Z :=
  match i with O => [] | S k => Z.land (Z.shiftr v (Z.of_nat k * 8)) 0xff :: bn2bin_loop k v end.
Definition bn2bin (v : Z) : list Z := bn2bin_loop (Z.to_nat (bn_bytes v false)) v.
(* bin2bn: l = 0; for ch in s: l = (l << 8) | ch *)
Definition bin2bn (s : list Z) : Z := fold_left (fun l ch => Z.lor (Z.shiftl l 8) ch) s 0.
(* ba[0] |= m  on a bytearray *)
Definition or_first (l : list Z) (m : Z) : res (list Z) :=
  match l with [] => Err IndexError | x :: t => Ok (Z.lor x m :: t) end.
Definition ints_to_bytes (l : list Z) : bytes := map z2b l.
Definition bytes_to_ints (b : bytes) : list Z := map b2z b.

Definition bn2mpi (v : Z) : res bytes :=
  let have_ext := if py_bit_length v >? 0 then Z.land (py_bit_length v) 0x07 =? 0 else false in
  let neg := v <? 0 in
  let v := if neg then - v else v in
  do s <- pack_be32 (bn_bytes v have_ext);
  let ext := if have_ext then [0] else [] in
  let v_bin := bn2bin v in
  do ev <- (if neg then
              if have_ext then do ext' <- or_first ext 0x80; Ok (ext', v_bin)
              else do v_bin' <- or_first v_bin 0x80; Ok (ext, v_bin')
            else Ok (ext, v_bin));
  Ok (s ++ ints_to_bytes (fst ev) ++ ints_to_bytes (snd ev)).

(* returns None (not an exception) on a malformed MPI *)
Definition mpi2bn (s : bytes) : res (option Z) :=
  if lenZ s <? 4 then Ok None else
  let v_len := be_dec (py_slice s 0 4) in
  if negb (lenZ s =? v_len + 4) then Ok None else
  if v_len =? 0 then Ok (Some 0) else
  let v_str := bytes_to_ints (skipn 4 s) in
  match v_str with
  | [] => Err IndexError
  | i :: rest =>
      let neg := negb (Z.land i 0x80 =? 0) in
      let v_str := if neg then Z.land i (Z.lnot 0x80) :: rest else v_str in
      let v := bin2bn v_str in
      Ok (Some (if neg then - v else v))
  end.

Definition mpi2vch (s : bytes) : bytes := rev (skipn 4 s).
Definition bn2vch (v : Z) : res bytes := do m <- bn2mpi v; Ok (mpi2vch m).
Definition vch2mpi (s : bytes) : res bytes := do r <- pack_be32 (lenZ s); Ok (r ++ rev s).
(* mpi2bn's None would surface as a TypeError in every caller; Proofs/ScriptNum.v shows that
   vch2bn never takes that branch *)
Definition vch2bn (s : bytes) : res Z :=
  do m <- vch2mpi s; do r <- mpi2bn m;
  match r with Some v => Ok v | None => Err TypeError end.

(* ---------- CScriptOp ---------- *)
(* CScriptOp(n): _opcode_instances[n] (a Python list index: negative n wraps); an IndexError
   falls into `assert len(_opcode_instances) == n` and then appends *)
Definition cscriptop_new (n : Z) : res Z :=
  let j := if n <? 0 then n + OPCODE_INSTANCES else n in
  if (0 <=? j) && (j <? OPCODE_INSTANCES) then Ok j
  else if n =? OPCODE_INSTANCES then Ok n else Err AssertionError.

Definition encode_op_pushdata (d : bytes) : res bytes :=
  let n := lenZ d in
  if n <? PUSH_T0 then do h <- bytes1 n; Ok (h ++ d)
  else if n <=? PUSH_T1 then do h <- bytes1 n; Ok (z2b PUSH_PREFIX1 :: h ++ d)
  else if n <=? PUSH_T2 then do h <- pack_le PUSH_LEN_WIDTH2 n; Ok (z2b PUSH_PREFIX2 :: h ++ d)
  else if n <=? PUSH_T4 then do h <- pack_le PUSH_LEN_WIDTH4 n; Ok (z2b PUSH_PREFIX4 :: h ++ d)
  else Err ValueError.

Definition encode_op_n (n : Z) : res Z :=
  if negb ((0 <=? n) && (n <=? 16)) then Err ValueError
  else if n =? 0 then Ok OP_0 else cscriptop_new (OP_1 + n - 1).

Definition decode_op_n (op : Z) : res Z :=
  if op =? OP_0 then Ok 0
  else if negb ((op =? OP_0) || ((OP_1 <=? op) && (op <=? OP_16))) then Err ValueError
  else Ok (op - OP_1 + 1).

Definition is_small_int (op : Z) : bool := ((0x51 <=? op) && (op <=? 0x60)) || (op =? 0).

(* ---------- building: CScript(iterable), script + token ---------- *)
(* what a script is built from: a CScriptOp instance, a Python int, a bytes/bytearray object *)
Inductive tok := TOp (n : Z) | TInt (v : Z) | TBytes (b : bytes).

Definition coerce_instance (t : tok) : res bytes :=
  match t with
  | TOp n => bytes1 n
  | TInt v =>
      if (0 <=? v) && (v <=? 16) then do o <- encode_op_n v; bytes1 o
      else if v =? -1 then bytes1 OP_1NEGATE
      else do d <- bn2vch v; encode_op_pushdata d
  | TBytes b => encode_op_pushdata b
  end.

(* b''.join(coerce_iterable(value)) *)
Fixpoint build (toks : list tok) : res script :=
  match toks with
  | [] => Ok []
  | t :: r => do b <- coerce_instance t; do s <- build r; Ok (b ++ s)
  end.
Definition script_add (s : script) (t : tok) : res script :=
  do b <- coerce_instance t; Ok (s ++ b).

(* ---------- raw_iter ---------- *)
(* one yielded tuple (opcode, data, sop_idx); data = None for opcode > OP_PUSHDATA4 *)
Record sop := mk_sop { sop_opcode : Z; sop_data : option bytes; sop_idx : Z }.

Definition cons_op (o : sop) (r : list sop * option exn) : list sop * option exn :=
  (o :: fst r, snd r).

(* The generator is lazy: a consumer sees every operation yielded before the point where
   the exception is raised.  The model returns exactly that: the operations yielded, and the
   exception (None = StopIteration).  InvalidScript = CScriptInvalidError ("missing data
   length"), TruncatedPush = CScriptTruncatedPushDataError ("truncated data"; its .data
   attribute, only used by __repr__, is not modelled). *)
Fixpoint raw_iter_from (fuel : nat) (s : script) (i : Z) : list sop * option exn :=
  if negb (i <? lenZ s) then ([], None) else
  match fuel with
  | O => ([], Some OutOfFuel)
  | S fuel' =>
      let sop_idx := i in
      match py_index s i with
      | Err e => ([], Some e)
      | Ok opcode =>
          let i := i + 1 in
          if opcode >? OP_PUSHDATA4 then
            cons_op (mk_sop opcode None sop_idx) (raw_iter_from fuel' s i)
          else
            let hdr : res (Z * Z) :=          (* (datasize, i after the length field) *)
              if opcode <? OP_PUSHDATA1 then Ok (opcode, i)
              else if opcode =? OP_PUSHDATA1 then
                if i >=? lenZ s then Err InvalidScript
                else do b0 <- py_index s i; Ok (b0, i + 1)
              else if opcode =? OP_PUSHDATA2 then
                if i + 1 >=? lenZ s then Err InvalidScript
                else do b0 <- py_index s i; do b1 <- py_index s (i + 1);
                     Ok (b0 + Z.shiftl b1 8, i + 2)
              else if opcode =? OP_PUSHDATA4 then
                if i + 3 >=? lenZ s then Err InvalidScript
                else do b0 <- py_index s i; do b1 <- py_index s (i + 1);
                     do b2 <- py_index s (i + 2); do b3 <- py_index s (i + 3);
                     Ok (b0 + Z.shiftl b1 8 + Z.shiftl b2 16 + Z.shiftl b3 24, i + 4)
              else Err AssertionError in
            match hdr with
            | Err e => ([], Some e)
            | Ok (datasize, i) =>
                let data := py_slice s i (i + datasize) in
                if lenZ data <? datasize then ([], Some TruncatedPush)
                else cons_op (mk_sop opcode (Some data) sop_idx)
                             (raw_iter_from fuel' s (i + datasize))
            end
      end
  end.
(* every iteration advances i by at least one: length s iterations suffice *)
Definition raw_iter (s : script) : list sop * option exn := raw_iter_from (length s) s 0.

(* ---------- __iter__ ("cooked" iteration) ---------- *)
Definition cook (o : sop) : res tok :=
  if sop_opcode o =? 0 then Ok (TInt 0)
  else match sop_data o with
       | Some d => Ok (TBytes d)
       | None =>
           do op <- cscriptop_new (sop_opcode o);
           if is_small_int op then do n <- decode_op_n op; Ok (TInt n)
           else do op' <- cscriptop_new op; Ok (TOp op')
       end.
Fixpoint cook_all (ops : list sop) (err : option exn) : list tok * option exn :=
  match ops with
  | [] => ([], err)
  | o :: r => match cook o with
              | Ok t => let re := cook_all r err in (t :: fst re, snd re)
              | Err e => ([], Some e)
              end
  end.
(* tokens yielded, then the exception (None = exhausted) *)
Definition script_iter (s : script) : list tok * option exn :=
  let r := raw_iter s in cook_all (fst r) (snd r).

(* witness_version: next(iter(self)); 27 = StopIteration is not in the enum -> OtherErr *)
Definition witness_version (s : script) : res tok :=
  match script_iter s with
  | (t :: _, _) => Ok t
  | ([], Some e) => Err e
  | ([], None) => Err OtherErr
  end.

(* ---------- predicates ---------- *)
Definition is_p2sh (s : script) : res bool :=
  if negb (lenZ s =? 23) then Ok false else
  do b0 <- py_index s 0; if negb (b0 =? OP_HASH160) then Ok false else
  do b1 <- py_index s 1; if negb (b1 =? 0x14) then Ok false else
  do b22 <- py_index s 22; Ok (b22 =? OP_EQUAL).

(* struct.unpack('<bb', self[:2]) *)
Definition unpack_bb (b : bytes) : res (Z * Z) :=
  match b with
  | [x; y] => Ok (le_dec_signed [x], le_dec_signed [y])
  | _ => Err StructError
  end.
Definition is_witness_scriptpubkey (s : script) : res bool :=
  let size := lenZ s in
  if (size <? 4) || (size >? 42) then Ok false else
  do head <- unpack_bb (py_slice s 0 2);
  do op <- cscriptop_new (fst head);
  if negb (is_small_int op) then Ok false else
  if negb (snd head + 2 =? size) then Ok false else Ok true.

Definition is_witness_v0_keyhash (s : script) : bool :=
  (lenZ s =? 22) && bytes_eqb (py_slice s 0 2) [x00; x14].
Definition is_witness_v0_nested_keyhash (s : script) : bool :=
  (lenZ s =? 23) && bytes_eqb (py_slice s 0 3) [x16; x00; x14].
Definition is_witness_v0_scripthash (s : script) : bool :=
  (lenZ s =? 34) && bytes_eqb (py_slice s 0 2) [x00; x20].
Definition is_witness_v0_nested_scripthash (s : script) : bool :=
  (lenZ s =? 35) && bytes_eqb (py_slice s 0 3) [x22; x00; x20].

(* `try: for ... in self.raw_iter(): ... except CScriptInvalidError: return False` –
   any other exception propagates *)
Definition on_script_err (err : option exn) (otherwise : bool) : res bool :=
  match err with
  | None => Ok otherwise
  | Some e => if is_script_err e then Ok false else Err e
  end.

Fixpoint push_only_loop (ops : list sop) (err : option exn) : res bool :=
  match ops with
  | [] => on_script_err err true
  | o :: r => if sop_opcode o >? OP_16 then Ok false else push_only_loop r err
  end.
Definition is_push_only (s : script) : res bool :=
  let r := raw_iter s in push_only_loop (fst r) (snd r).

(* len(data) / data[0] on the data of an operation (data is None above OP_PUSHDATA4) *)
Definition data_len (d : option bytes) : res Z :=
  match d with Some b => Ok (lenZ b) | None => Err TypeError end.
Definition data_first (d : option bytes) : res Z :=
  match d with Some b => py_index b 0 | None => Err TypeError end.
(* lazy `a and b` over results *)
Definition andr (a : bool) (b : res bool) : res bool := if a then b else Ok false.

Fixpoint canonical_loop (ops : list sop) (err : option exn) : res bool :=
  match ops with
  | [] => on_script_err err true
  | o :: r =>
      let op := sop_opcode o in let data := sop_data o in
      if op >? OP_16 then canonical_loop r err else
      do c1 <- andr ((op <? OP_PUSHDATA1) && (op >? OP_0))
                 (do l <- data_len data; andr (l =? 1) (do x <- data_first data; Ok (x <=? 16)));
      if c1 then Ok false else
      do c2 <- andr (op =? OP_PUSHDATA1) (do l <- data_len data; Ok (l <? OP_PUSHDATA1));
      if c2 then Ok false else
      do c3 <- andr (op =? OP_PUSHDATA2) (do l <- data_len data; Ok (l <=? 0xFF));
      if c3 then Ok false else
      do c4 <- andr (op =? OP_PUSHDATA4) (do l <- data_len data; Ok (l <=? 0xFFFF));
      if c4 then Ok false else canonical_loop r err
  end.
Definition has_canonical_pushes (s : script) : res bool :=
  let r := raw_iter s in canonical_loop (fst r) (snd r).

Definition is_unspendable (s : script) : res bool :=
  if negb (lenZ s >? 0) then Ok false else do b0 <- py_index s 0; Ok (b0 =? OP_RETURN).

(* try: list(self) except CScriptInvalidError: return False *)
Definition is_valid (s : script) : res bool := on_script_err (snd (script_iter s)) true.

(* ---------- GetSigOpCount (after the fix of F1) ---------- *)
Fixpoint sigops_loop (fAccurate : bool) (ops : list sop) (n lastOpcode : Z) : res Z :=
  match ops with
  | [] => Ok n
  | o :: r =>
      let opcode := sop_opcode o in
      do n' <- (if (opcode =? OP_CHECKSIG) || (opcode =? OP_CHECKSIGVERIFY)
                then Ok (n + SIGOPS_PER_CHECKSIG)
                else if (opcode =? OP_CHECKMULTISIG) || (opcode =? OP_CHECKMULTISIGVERIFY) then
                  if fAccurate && ((OP_1 <=? lastOpcode) && (lastOpcode <=? OP_16))
                  then do c <- cscriptop_new lastOpcode; do k <- decode_op_n c; Ok (n + k)
                  else Ok (n + SIGOPS_PER_MULTISIG_DEFAULT)
                else Ok n);
      sigops_loop fAccurate r n' opcode
  end.
Definition get_sigop_count (fAccurate : bool) (s : script) : res Z :=
  let r := raw_iter s in
  do n <- sigops_loop fAccurate (fst r) 0 OP_INVALIDOPCODE;
  match snd r with
  | None => Ok n
  | Some e => if is_script_err e then Ok n else Err e
  end.
