(* Model/Sighash.v – bitcoin/core/script.py RawSignatureHash and the legacy
   (sigversion == SIGVERSION_BASE) path of SignatureHash, statement by statement:

     if inIdx >= len(txTo.vin): return (HASH_ONE, "...")
     txtmp = CMutableTransaction.from_tx(txTo)          deep copy of vin / vout (core/__init__.py)
     for txin in txtmp.vin: txin.scriptSig = b''
     txtmp.vin[inIdx].scriptSig = FindAndDelete(script, CScript([OP_CODESEPARATOR]))
     if (hashtype & 0x1f) == SIGHASH_NONE: ...          outputs dropped, other sequences zeroed
     elif (hashtype & 0x1f) == SIGHASH_SINGLE: ...      (HASH_ONE, "...") or CTxOut() fillers, sequences
     if hashtype & SIGHASH_ANYONECANPAY: ...            only vin[inIdx] kept
     txtmp.wit = CTxWitness(); s = txtmp.serialize(); s += struct.pack("<i", hashtype)
     return (Hash(s), None)

   The scratch transaction is a VALUE here (the heap-level statement that the argument is
   not mutated is C09's); every Python partial operation is an explicit Err: list indexing
   (negative indices included), the CScriptInvalidError that FindAndDelete propagates from
   raw_iter for a subscript that does not parse, struct.error for a hash type outside int32.
   The second component of the result is the error indication (`err is not None`).
   Masks, formats, HASH_ONE, SIGHASH_* and the CTxOut() defaults come from the regenerated
   Gen/Sighash.v.  Serialisation is Model/Wire.v's ser_tx (C01). *)
From BV Require Import Common.Base Common.Codec Common.PyList Common.Tx Model.Wire Model.Script
  Model.FindAndDelete Model.Bip143 Gen.Sighash.

(* attribute assignments on the scratch copy *)
Definition with_script (x : txin) (s : bytes) : txin :=
  {| ti_prevout := ti_prevout x; ti_script := s; ti_seq := ti_seq x |}.
Definition with_seq (x : txin) (q : Z) : txin :=
  {| ti_prevout := ti_prevout x; ti_script := ti_script x; ti_seq := q |}.
Definition with_vin (t : tx) (v : list txin) : tx :=
  {| tx_version := tx_version t; tx_vin := v; tx_vout := tx_vout t; tx_wit := tx_wit t; tx_lock := tx_lock t |}.
Definition with_vout (t : tx) (v : list txout) : tx :=
  {| tx_version := tx_version t; tx_vin := tx_vin t; tx_vout := v; tx_wit := tx_wit t; tx_lock := tx_lock t |}.

(* function-local literals of RawSignatureHash, located by tools/extract_C03.py as "the literal
   operand of & in the test against SIGHASH_NONE / SIGHASH_SINGLE" (RSH_mask_none, RSH_mask_single:
   today both 0x1f) and "the literal assigned to .nSequence in that branch" (RSH_seq_none,
   RSH_seq_single: today both 0) *)
(* bitcoin.core.CTxOut(): nValue=-1, scriptPubKey=CScript() *)
Definition filler : txout := {| to_value := SINGLE_filler_nValue; to_script := SINGLE_filler_script |}.

(* for i in range(len(txtmp.vin)): if i != inIdx: txtmp.vin[i].nSequence = 0 *)
Fixpoint zero_other_seqs (z : Z) (vin : list txin) (i inIdx : Z) : list txin :=
  match vin with
  | [] => []
  | x :: r => (if negb (i =? inIdx) then with_seq x z else x) :: zero_other_seqs z r (i + 1) inIdx
  end.

Section M.
Variable H : bytes -> bytes.   (* bitcoin.core.Hash *)

Definition raw_sighash (script : bytes) (txTo : tx) (inIdx hashtype : Z) : res (bytes * bool) :=
  if inIdx >=? len (tx_vin txTo) then Ok (HASH_ONE, true) else
  let txtmp := txTo in                                           (* from_tx: a copy, as a value *)
  let txtmp := with_vin txtmp (map (fun txin => with_script txin []) (tx_vin txtmp)) in
  do sep <- build [TOp OP_CODESEPARATOR];                        (* CScript([OP_CODESEPARATOR]) *)
  do sub <- find_and_delete script sep;
  do txin <- py_nth (tx_vin txtmp) inIdx;
  do vin <- py_set (tx_vin txtmp) inIdx (with_script txin sub);
  let txtmp := with_vin txtmp vin in
  (* None = the early `return (HASH_ONE, "outIdx ... out of range")` *)
  do pruned <-
    (if Z.land hashtype RSH_mask_none =? SIGHASH_NONE then
       let txtmp := with_vout txtmp [] in
       Ok (Some (with_vin txtmp (zero_other_seqs RSH_seq_none (tx_vin txtmp) 0 inIdx)))
     else if Z.land hashtype RSH_mask_single =? SIGHASH_SINGLE then
       let outIdx := inIdx in
       if outIdx >=? len (tx_vout txtmp) then Ok None
       else
         do tmp <- py_nth (tx_vout txtmp) outIdx;
         (* vout = []; range(outIdx) appends of CTxOut(); append(tmp) *)
         let txtmp := with_vout txtmp (repeat filler (Z.to_nat outIdx) ++ [tmp]) in
         Ok (Some (with_vin txtmp (zero_other_seqs RSH_seq_single (tx_vin txtmp) 0 inIdx)))
     else Ok (Some txtmp));
  match pruned with
  | None => Ok (HASH_ONE, true)
  | Some txtmp =>
      do txtmp <- (if negb (Z.land hashtype SIGHASH_ANYONECANPAY =? 0)
                   then do tmp <- py_nth (tx_vin txtmp) inIdx; Ok (with_vin txtmp [tmp])
                   else Ok txtmp);
      let txtmp := set_wit txtmp [] in                           (* txtmp.wit = CTxWitness() *)
      do s <- ser_tx true txtmp;                                 (* txtmp.serialize() *)
      do ht <- pack (nth_fmt 0 fmt_RawSignatureHash) hashtype;   (* struct.pack("<i", hashtype) *)
      Ok (H (s ++ ht), false)
  end.

(* SignatureHash(script, txTo, inIdx, hashtype) with the default sigversion=SIGVERSION_BASE:
   the `if sigversion == SIGVERSION_WITNESS_V0` block (Model/Bip143.v) is skipped *)
Definition signature_hash (script : bytes) (txTo : tx) (inIdx hashtype : Z) : res bytes :=
  do w <- is_witness_scriptpubkey script;
  if w then Err AssertionError else             (* assert not script.is_witness_scriptpubkey() *)
  do r <- raw_sighash script txTo inIdx hashtype;
  if snd r then Err ValueError else Ok (fst r).
End M.
