(* Model/Heap.v – Python object identity, mutation and aliasing for the transaction classes
   of bitcoin/core/__init__.py and bitcoin/core/serialize.py (property C09, DESIGN.md 3.6).

   A heap is a store  loc -> object.  Objects are COutPoint / CTxIn / CTxOut / CTransaction
   instances (class flag [o_mut]: the CMutable* subclass or the immutable base class) and
   Python lists (the vin / vout of a mutable transaction).  Tuples, bytes, ints and the
   (deeply immutable, tuple-built) CTxWitness are values.  Every object carries the two
   slots of ImmutableSerializable (_cached_GetHash, _cached__hash__); __make_mutable
   replaces GetHash/__hash__ of the mutable classes, so the slots are used by class dispatch.

   [step] is the small-step semantics of the operations C09 quantifies over, written the
   way the Python behaves (exceptions included).  Operations outside that alphabet (ill-typed
   assignments, deleting an attribute of a *mutable* object, dangling locations) leave the
   heap unchanged and answer [ObsExn OtherErr].
   A failing constructor leaves garbage objects behind in CPython; they are unreachable, so
   the model returns the heap unchanged in that case.

   Value-level functions (serialisation, Hash, Python hash(), GetTxid, FindAndDelete,
   is_witness_scriptpubkey) are Section variables: the heap model does not depend on the wire
   format; Run/C09.v instantiates them with Model/Wire.v, Model/Ident.v and Common/Hash.v. *)
From stdpp Require Import gmap.
From BV Require Import Common.Base Common.Tx.

Notation loc := nat (only parsing).

Inductive seqref := STuple (ls : list loc) | SList (l : loc).
Inductive body :=
| BOutPoint (hash : bytes) (n : Z)
| BTxIn (prevout : loc) (script : bytes) (nseq : Z)
| BTxOut (value : Z) (script : bytes)
| BTx (version : Z) (vin vout : seqref) (wit : list (list bytes)) (lock : Z)
| BList (items : list loc).
Record obj := { o_mut : bool; o_body : body; o_ghash : option bytes; o_phash : option Z }.
Record heap := Heap { h_objs : gmap loc obj; h_next : loc }.

Definition get (h : heap) (l : loc) : option obj := h_objs h !! l.
Definition body_at (h : heap) (l : loc) : option body := o_body <$> get h l.
Definition empty_heap : heap := Heap ∅ 0%nat.

(* ---------- primitive heap updates ---------- *)
Definition mk (m : bool) (b : body) : obj := {| o_mut := m; o_body := b; o_ghash := None; o_phash := None |}.
Definition alloc (h : heap) (o : obj) : heap * loc :=
  (Heap (<[h_next h := o]> (h_objs h)) (S (h_next h)), h_next h).
Definition set_body (h : heap) (l : loc) (b : body) : heap :=
  match get h l with
  | Some o => Heap (<[l := {| o_mut := o_mut o; o_body := b; o_ghash := o_ghash o; o_phash := o_phash o |}]> (h_objs h)) (h_next h)
  | None => h end.
Definition set_ghash (h : heap) (l : loc) (g : bytes) : heap :=
  match get h l with
  | Some o => Heap (<[l := {| o_mut := o_mut o; o_body := o_body o; o_ghash := Some g; o_phash := o_phash o |}]> (h_objs h)) (h_next h)
  | None => h end.
Definition set_phash (h : heap) (l : loc) (z : Z) : heap :=
  match get h l with
  | Some o => Heap (<[l := {| o_mut := o_mut o; o_body := o_body o; o_ghash := o_ghash o; o_phash := Some z |}]> (h_objs h)) (h_next h)
  | None => h end.

(* ---------- abstraction: read an object deeply ---------- *)
Inductive aval := AOutPoint (o : outpoint) | ATxIn (i : txin) | ATxOut (o : txout) | ATx (t : tx).

Fixpoint opt_all {A B} (f : A -> option B) (l : list A) : option (list B) :=
  match l with
  | [] => Some []
  | a :: t => match f a, opt_all f t with Some b, Some r => Some (b :: r) | _, _ => None end
  end.

Definition abs_outpoint (h : heap) (l : loc) : option outpoint :=
  match body_at h l with Some (BOutPoint hs n) => Some {| op_hash := hs; op_n := n |} | _ => None end.
Definition abs_txin (h : heap) (l : loc) : option txin :=
  match body_at h l with
  | Some (BTxIn p s q) =>
      match abs_outpoint h p with Some o => Some {| ti_prevout := o; ti_script := s; ti_seq := q |} | None => None end
  | _ => None end.
Definition abs_txout (h : heap) (l : loc) : option txout :=
  match body_at h l with Some (BTxOut a s) => Some {| to_value := a; to_script := s |} | _ => None end.
(* the items of a tuple (value) or of a list object *)
Definition seq_items (h : heap) (s : seqref) : option (list loc) :=
  match s with
  | STuple ls => Some ls
  | SList l => match body_at h l with Some (BList ls) => Some ls | _ => None end
  end.
Definition abs_tx (h : heap) (l : loc) : option tx :=
  match body_at h l with
  | Some (BTx ver vi vo w lk) =>
      match seq_items h vi, seq_items h vo with
      | Some li, Some lo =>
          match opt_all (abs_txin h) li, opt_all (abs_txout h) lo with
          | Some i, Some o => Some {| tx_version := ver; tx_vin := i; tx_vout := o; tx_wit := w; tx_lock := lk |}
          | _, _ => None end
      | _, _ => None end
  | _ => None end.
Definition abs (h : heap) (l : loc) : option aval :=
  match body_at h l with
  | Some (BOutPoint _ _) => AOutPoint <$> abs_outpoint h l
  | Some (BTxIn _ _ _) => ATxIn <$> abs_txin h l
  | Some (BTxOut _ _) => ATxOut <$> abs_txout h l
  | Some (BTx _ _ _ _ _) => ATx <$> abs_tx h l
  | Some (BList _) => None
  | None => None
  end.

(* ---------- the alphabet ---------- *)
Inductive fld := FHash | FN | FPrevout | FScriptSig | FSeq | FValue | FScriptPubKey
               | FVersion | FVin | FVout | FWit | FLock.
Inductive rhs := RInt (z : Z) | RBytes (b : bytes) | RObj (l : loc) | RWit (w : list (list bytes)) | RNewList.
Inductive op :=
| OSetAttr (l : loc) (f : fld) (v : rhs)          (* l.f = v *)
| ODelAttr (l : loc) (f : fld)                    (* del l.f *)
| OAppend (t : loc) (out : bool) (x : loc)        (* t.vin.append(x) / t.vout.append(x) *)
| OSetItem (t : loc) (out : bool) (i : Z) (x : loc)   (* t.vin[i] = x *)
| ODelItem (t : loc) (out : bool) (i : Z)         (* del t.vin[i] *)
| ONewOutPoint (mut : bool) (v : outpoint)        (* COutPoint(..) / CMutableOutPoint(..) *)
| ONewTxIn (mut : bool) (v : txin)                (* CTxIn(COutPoint(..),..) / CMutableTxIn(CMutableOutPoint(..),..) *)
| ONewTxOut (mut : bool) (v : txout)
| ONewTx (mut : bool) (v : tx)                    (* CTransaction(ins, outs, ..) / CMutableTransaction([ins], [outs], ..) *)
| OFromOutPoint (mut : bool) (l : loc)            (* COutPoint.from_outpoint / CMutableOutPoint.from_outpoint *)
| OFromTxIn (mut : bool) (l : loc)
| OFromTxOut (mut : bool) (l : loc)
| OFromTx (mut : bool) (l : loc)                  (* CTransaction.from_tx / CMutableTransaction.from_tx *)
| OSerialize (l : loc) | OGetHash (l : loc) | OGetTxid (l : loc) | OPyHash (l : loc) | OEq (a b : loc)
| OSigHash (l : loc) (script : bytes) (idx : nat) (hashtype : Z)   (* SignatureHash(script, l, idx, hashtype) *)
| OVerify (l : loc) (script : bytes) (idx : nat) (hashtype : Z).   (* VerifyScript reaching one OP_CHECKSIG *)
Inductive obs := ObsNone | ObsExn (e : exn) | ObsLoc (l : loc) | ObsBytes (b : bytes) | ObsInt (z : Z) | ObsBool (b : bool).

Definition outside : obs := ObsExn OtherErr.
Definition obs_res {A} (f : A -> obs) (r : res A) : obs := match r with Ok a => f a | Err e => ObsExn e end.

Definition has_field (b : body) (f : fld) : bool :=
  match b, f with
  | BOutPoint _ _, (FHash | FN) => true
  | BTxIn _ _ _, (FPrevout | FScriptSig | FSeq) => true
  | BTxOut _ _, (FValue | FScriptPubKey) => true
  | BTx _ _ _ _ _, (FVersion | FVin | FVout | FWit | FLock) => true
  | _, _ => false
  end.
Definition is_outpoint (h : heap) (l : loc) : bool := match body_at h l with Some (BOutPoint _ _) => true | _ => false end.
Definition is_txin (h : heap) (l : loc) : bool := match body_at h l with Some (BTxIn _ _ _) => true | _ => false end.
Definition is_txout (h : heap) (l : loc) : bool := match body_at h l with Some (BTxOut _ _) => true | _ => false end.

(* Python sequence index: -len <= i < len *)
Definition py_idx (len : nat) (i : Z) : res nat :=
  if (0 <=? i) && (i <? Z.of_nat len) then Ok (Z.to_nat i)
  else if (- Z.of_nat len <=? i) && (i <? 0) then Ok (Z.to_nat (Z.of_nat len + i))
  else Err IndexError.
Fixpoint list_set {A} (l : list A) (k : nat) (x : A) : list A :=
  match l, k with
  | [], _ => []
  | _ :: t, O => x :: t
  | a :: t, S k' => a :: list_set t k' x
  end.
Fixpoint list_del {A} (l : list A) (k : nat) : list A :=
  match l, k with
  | [], _ => []
  | _ :: t, O => t
  | a :: t, S k' => a :: list_del t k'
  end.

(* the constructors' range checks (ValueError) *)
Definition u32ok (z : Z) : bool := (0 <=? z) && (z <=? 0xffffffff).

Definition new_outpoint (mut : bool) (h : heap) (v : outpoint) : res (heap * loc) :=
  if negb (length (op_hash v) =? 32)%nat then Err ValueError
  else if negb (u32ok (op_n v)) then Err ValueError
  else Ok (alloc h (mk mut (BOutPoint (op_hash v) (op_n v)))).
Definition new_txin (mut : bool) (h : heap) (v : txin) : res (heap * loc) :=
  do hp <- new_outpoint mut h (ti_prevout v);
  if u32ok (ti_seq v) then Ok (alloc (fst hp) (mk mut (BTxIn (snd hp) (ti_script v) (ti_seq v)))) else Err ValueError.
Definition new_txout (mut : bool) (h : heap) (v : txout) : res (heap * loc) :=
  Ok (alloc h (mk mut (BTxOut (to_value v) (to_script v)))).
Fixpoint alloc_all {A} (f : heap -> A -> res (heap * loc)) (h : heap) (l : list A) : res (heap * list loc) :=
  match l with
  | [] => Ok (h, [])
  | a :: t => do hx <- f h a; do hr <- alloc_all f (fst hx) t; Ok (fst hr, snd hx :: snd hr)
  end.
(* the transaction object itself: CTransaction.__init__ freezes into tuples (its parts are
   already of the immutable classes here), CMutableTransaction.__init__ stores the lists *)
Definition build_tx (mut : bool) (h : heap) (ver : Z) (li lo : list loc) (w : list (list bytes)) (lk : Z) : heap * loc :=
  if mut then
    let hv := alloc h (mk true (BList li)) in
    let ho := alloc (fst hv) (mk true (BList lo)) in
    alloc (fst ho) (mk true (BTx ver (SList (snd hv)) (SList (snd ho)) w lk))
  else alloc h (mk false (BTx ver (STuple li) (STuple lo) w lk)).
Definition new_tx (mut : bool) (h : heap) (v : tx) : res (heap * loc) :=
  do hi <- alloc_all (new_txin mut) h (tx_vin v);
  do ho <- alloc_all (new_txout mut) (fst hi) (tx_vout v);
  if u32ok (tx_lock v) then Ok (build_tx mut (fst ho) (tx_version v) (snd hi) (snd ho) (tx_wit v) (tx_lock v))
  else Err ValueError.

(* from_outpoint / from_txin / from_txout / from_tx, [mut] = the class they are called on.
   The immutable classes return their argument when its class is exactly the immutable one. *)
Definition from_outpoint (mut : bool) (h : heap) (x : loc) : res (heap * loc) :=
  match get h x with
  | Some o =>
      match o_body o with
      | BOutPoint hs n =>
          if negb mut && negb (o_mut o) then Ok (h, x)
          else new_outpoint mut h {| op_hash := hs; op_n := n |}
      | _ => Err OtherErr end
  | None => Err OtherErr end.
Definition from_txin (mut : bool) (h : heap) (x : loc) : res (heap * loc) :=
  match get h x with
  | Some o =>
      match o_body o with
      | BTxIn p s q =>
          if negb mut && negb (o_mut o) then Ok (h, x)
          else do hp <- from_outpoint mut h p;
               if u32ok q then Ok (alloc (fst hp) (mk mut (BTxIn (snd hp) s q))) else Err ValueError
      | _ => Err OtherErr end
  | None => Err OtherErr end.
Definition from_txout (mut : bool) (h : heap) (x : loc) : res (heap * loc) :=
  match get h x with
  | Some o =>
      match o_body o with
      | BTxOut a s => if negb mut && negb (o_mut o) then Ok (h, x) else Ok (alloc h (mk mut (BTxOut a s)))
      | _ => Err OtherErr end
  | None => Err OtherErr end.
Definition from_tx (mut : bool) (h : heap) (x : loc) : res (heap * loc) :=
  match get h x with
  | Some o =>
      match o_body o with
      | BTx ver vi vo w lk =>
          if negb mut && negb (o_mut o) then Ok (h, x)
          else match seq_items h vi, seq_items h vo with
               | Some li, Some lo =>
                   if mut then
                     (* vin = [CMutableTxIn.from_txin(..)..]; vout = [..]; cls(vin, vout, nLockTime, nVersion, tx.wit) *)
                     do hi <- alloc_all (from_txin true) h li;
                     do ho <- alloc_all (from_txout true) (fst hi) lo;
                     if u32ok lk then Ok (build_tx true (fst ho) ver (snd hi) (snd ho) w lk) else Err ValueError
                   else
                     (* CTransaction.__init__: nLockTime check, then the tuples of from_txin / from_txout, wit shared *)
                     if u32ok lk then
                       do hi <- alloc_all (from_txin false) h li;
                       do ho <- alloc_all (from_txout false) (fst hi) lo;
                       Ok (build_tx false (fst ho) ver (snd hi) (snd ho) w lk)
                     else Err ValueError
               | _, _ => Err OtherErr end
      | _ => Err OtherErr end
  | None => Err OtherErr end.

Definition ret_loc (h : heap) (r : res (heap * loc)) : heap * obs :=
  match r with Ok hl => (fst hl, ObsLoc (snd hl)) | Err e => (h, ObsExn e) end.

(* ---------- attribute assignment / deletion (class dispatched) ---------- *)
Definition set_attr (h : heap) (l : loc) (f : fld) (v : rhs) : heap * obs :=
  match get h l with
  | None => (h, outside)
  | Some o =>
      match o_body o with
      | BList _ => (h, outside)
      | b =>
          if negb (o_mut o) then (h, ObsExn AttributeError)            (* ImmutableSerializable.__setattr__ *)
          else if negb (has_field b f) then (h, ObsExn AttributeError)  (* object.__setattr__, no such slot *)
          else
            match b, f, v with
            | BOutPoint _ n, FHash, RBytes x => (set_body h l (BOutPoint x n), ObsNone)
            | BOutPoint hs _, FN, RInt z => (set_body h l (BOutPoint hs z), ObsNone)
            | BTxIn _ s q, FPrevout, RObj p => if is_outpoint h p then (set_body h l (BTxIn p s q), ObsNone) else (h, outside)
            | BTxIn p _ q, FScriptSig, RBytes x => (set_body h l (BTxIn p x q), ObsNone)
            | BTxIn p s _, FSeq, RInt z => (set_body h l (BTxIn p s z), ObsNone)
            | BTxOut _ s, FValue, RInt z => (set_body h l (BTxOut z s), ObsNone)
            | BTxOut a _, FScriptPubKey, RBytes x => (set_body h l (BTxOut a x), ObsNone)
            | BTx _ vi vo w lk, FVersion, RInt z => (set_body h l (BTx z vi vo w lk), ObsNone)
            | BTx ver vi vo w _, FLock, RInt z => (set_body h l (BTx ver vi vo w z), ObsNone)
            | BTx ver vi vo _ lk, FWit, RWit w => (set_body h l (BTx ver vi vo w lk), ObsNone)
            | BTx ver _ vo w lk, FVin, RNewList =>          (* t.vin = [] *)
                let hn := alloc h (mk true (BList [])) in (set_body (fst hn) l (BTx ver (SList (snd hn)) vo w lk), ObsNone)
            | BTx ver vi _ w lk, FVout, RNewList =>
                let hn := alloc h (mk true (BList [])) in (set_body (fst hn) l (BTx ver vi (SList (snd hn)) w lk), ObsNone)
            | _, _, _ => (h, outside)
            end
      end
  end.
Definition del_attr (h : heap) (l : loc) (f : fld) : heap * obs :=
  match get h l with
  | None => (h, outside)
  | Some o =>
      match o_body o with
      | BList _ => (h, outside)
      | b => if negb (o_mut o) then (h, ObsExn AttributeError)          (* ImmutableSerializable.__delattr__ *)
             else if negb (has_field b f) then (h, ObsExn AttributeError)
             else (h, outside)                                          (* deleting a slot of a mutable object: not in the alphabet *)
      end
  end.

(* ---------- edits of t.vin / t.vout ---------- *)
Definition tx_seq (b : body) (out : bool) : option seqref :=
  match b with BTx _ vi vo _ _ => Some (if out then vo else vi) | _ => None end.
Definition list_op (h : heap) (t : loc) (out : bool) (tuple_exn : exn) (k : list loc -> res (list loc)) : heap * obs :=
  match body_at h t with
  | Some b =>
      match tx_seq b out with
      | Some (STuple _) => (h, ObsExn tuple_exn)
      | Some (SList ll) =>
          match body_at h ll with
          | Some (BList items) =>
              match k items with Ok items' => (set_body h ll (BList items'), ObsNone) | Err e => (h, ObsExn e) end
          | _ => (h, outside) end
      | None => (h, outside) end
  | None => (h, outside) end.
Definition item_ok (h : heap) (out : bool) (x : loc) : bool := if out then is_txout h x else is_txin h x.

Section Step.
Variable ser : aval -> res bytes.        (* Serializable.serialize of the value (Model/Wire.v) *)
Variable H : bytes -> bytes.             (* serialize.Hash *)
Variable pyh : bytes -> Z.               (* Python hash() of a bytes object *)
Variable txid : tx -> res bytes.         (* CTransaction.GetTxid of the value (Model/Ident.v) *)
Variable fad : bytes -> bytes.           (* FindAndDelete(script, CScript([OP_CODESEPARATOR])) *)
Variable is_wspk : bytes -> bool.        (* CScript.is_witness_scriptpubkey *)

(* value-level observations *)
Definition v_hash (v : aval) : res bytes := do s <- ser v; Ok (H s).
Definition v_pyhash (v : aval) : res Z := do s <- ser v; Ok (pyh s).
Definition v_txid (v : aval) : res bytes := match v with ATx t => txid t | _ => Err AttributeError end.
Definition same_kind (a b : aval) : bool :=
  match a, b with
  | AOutPoint _, AOutPoint _ | ATxIn _, ATxIn _ | ATxOut _, ATxOut _ | ATx _, ATx _ => true
  | _, _ => false end.
(* Serializable.__eq__: related classes compare serialisations; unrelated ones fall back to identity *)
Definition v_eq (a b : aval) : res bool :=
  if same_kind a b then do x <- ser a; do y <- ser b; Ok (bytes_eqb x y) else Ok false.
Definition on_abs {A} (h : heap) (l : loc) (f : aval -> res A) : res A :=
  match abs h l with Some v => f v | None => Err OtherErr end.

Definition ser_at (h : heap) (l : loc) : res bytes := on_abs h l ser.

(* GetHash: Serializable.GetHash on the mutable classes, the caching one on the immutable classes *)
Definition get_hash_step (h : heap) (l : loc) : heap * obs :=
  match get h l with
  | Some o =>
      if o_mut o then (h, obs_res ObsBytes (on_abs h l v_hash))
      else match o_ghash o with
           | Some g => (h, ObsBytes g)
           | None => match on_abs h l v_hash with
                     | Ok g => (set_ghash h l g, ObsBytes g)
                     | Err e => (h, ObsExn e) end
           end
  | None => (h, outside) end.
Definition py_hash_step (h : heap) (l : loc) : heap * obs :=
  match get h l with
  | Some o =>
      if o_mut o then (h, obs_res ObsInt (on_abs h l v_pyhash))
      else match o_phash o with
           | Some z => (h, ObsInt z)
           | None => match on_abs h l v_pyhash with
                     | Ok z => (set_phash h l z, ObsInt z)
                     | Err e => (h, ObsExn e) end
           end
  | None => (h, outside) end.
Definition eq_step (h : heap) (a b : loc) : obs :=
  match abs h a, abs h b with
  | Some va, Some vb => obs_res ObsBool (v_eq va vb)
  | _, _ => outside end.

(* ---------- RawSignatureHash on the heap: private mutable copy, edits of the copy ---------- *)
Definition upd_txin (f : loc -> bytes -> Z -> body) (h : heap) (l : loc) : heap :=
  match body_at h l with Some (BTxIn p s q) => set_body h l (f p s q) | _ => h end.
Definition upd_tx (f : Z -> seqref -> seqref -> list (list bytes) -> Z -> body) (h : heap) (l : loc) : heap :=
  match body_at h l with Some (BTx ver vi vo w lk) => set_body h l (f ver vi vo w lk) | _ => h end.
(* for i in range(len(vin)): if i != inIdx: vin[i].nSequence = 0 *)
Fixpoint zero_seqs (h : heap) (ins : list loc) (i idx : nat) : heap :=
  match ins with
  | [] => h
  | x :: r => zero_seqs (if (i =? idx)%nat then h else upd_txin (fun p s _ => BTxIn p s 0) h x) r (S i) idx
  end.
(* txtmp.vout = [] followed by appends: the final list object *)
Definition set_vout_list (h : heap) (c : loc) (items : list loc) : heap :=
  let hn := alloc h (mk true (BList items)) in
  upd_tx (fun ver vi _ w lk => BTx ver vi (SList (snd hn)) w lk) (fst hn) c.
Definition set_vin_list (h : heap) (c : loc) (items : list loc) : heap :=
  let hn := alloc h (mk true (BList items)) in
  upd_tx (fun ver _ vo w lk => BTx ver (SList (snd hn)) vo w lk) (fst hn) c.
(* idx default outputs CTxOut() *)
Fixpoint blank_outs (h : heap) (k : nat) : heap * list loc :=
  match k with
  | O => (h, [])
  | S k' => let hx := alloc h (mk false (BTxOut (-1) [])) in
            let hr := blank_outs (fst hx) k' in (fst hr, snd hx :: snd hr)
  end.
Definition pack_i32 (z : Z) : res bytes :=
  if (- 2^31 <=? z) && (z <? 2^31) then Ok (le_enc_signed 4 z) else Err StructError.

(* result: None = the (HASH_ONE, err) answer *)
Definition raw_sighash (h : heap) (l : loc) (script : bytes) (idx : nat) (ht : Z) : heap * res (option bytes) :=
  match body_at h l with
  | Some (BTx _ vi0 _ _ _) =>
      match seq_items h vi0 with
      | Some li0 =>
          if (length li0 <=? idx)%nat then (h, Ok None) else
          match from_tx true h l with                       (* txtmp = CMutableTransaction.from_tx(txTo) *)
          | Err e => (h, Err e)
          | Ok (h1, c) =>
              match body_at h1 c with
              | Some (BTx _ (SList lv) (SList lo) _ _) =>
                  match body_at h1 lv, body_at h1 lo with
                  | Some (BList ins), Some (BList outs) =>
                      match ins !! idx with
                      | Some tin =>
                          let h2 := fold_left (upd_txin (fun p _ q => BTxIn p [] q)) ins h1 in
                          let h3 := upd_txin (fun p _ q => BTxIn p (fad script) q) h2 tin in
                          let mode := Z.land ht 0x1f in
                          let r4 : heap * bool :=        (* bool: outIdx out of range *)
                            if mode =? 2 then (zero_seqs (set_vout_list h3 c []) ins 0 idx, false)
                            else if mode =? 3 then
                              match outs !! idx with
                              | None => (h3, true)
                              | Some tmp =>
                                  let hb := blank_outs h3 idx in
                                  (zero_seqs (set_vout_list (fst hb) c (snd hb ++ [tmp])) ins 0 idx, false)
                              end
                            else (h3, false) in
                          if snd r4 then (fst r4, Ok None) else
                          let h5 := if Z.land ht 0x80 =? 0 then fst r4 else set_vin_list (fst r4) c [tin] in
                          let h6 := upd_tx (fun ver vi vo _ lk => BTx ver vi vo [] lk) h5 c in
                          (h6, do s <- ser_at h6 c; do t <- pack_i32 ht; Ok (Some (H (s ++ t))))
                      | None => (h, Err OtherErr) end
                  | _, _ => (h, Err OtherErr) end
              | _ => (h, Err OtherErr) end
          end
      | None => (h, Err OtherErr) end
  | _ => (h, Err OtherErr) end.

(* SignatureHash(script, txTo, inIdx, hashtype), sigversion BASE *)
Definition sighash_step (h : heap) (l : loc) (script : bytes) (idx : nat) (ht : Z) : heap * obs :=
  if is_wspk script then (h, ObsExn AssertionError) else
  let r := raw_sighash h l script idx ht in
  (fst r, match snd r with Ok (Some d) => ObsBytes d | Ok None => ObsExn ValueError | Err e => ObsExn e end).
(* VerifyScript only reads txTo; an OP_CHECKSIG calls RawSignatureHash and ignores its error answer.
   The verdict of the script is not part of this property. *)
Definition verify_step (h : heap) (l : loc) (script : bytes) (idx : nat) (ht : Z) : heap * obs :=
  let r := raw_sighash h l script idx ht in
  (fst r, match snd r with Ok _ => ObsNone | Err e => ObsExn e end).

Definition step (h : heap) (o : op) : heap * obs :=
  match o with
  | OSetAttr l f v => set_attr h l f v
  | ODelAttr l f => del_attr h l f
  | OAppend t out x =>
      if item_ok h out x then list_op h t out AttributeError (fun items => Ok (items ++ [x])) else (h, outside)
  | OSetItem t out i x =>
      if item_ok h out x then
        list_op h t out TypeError (fun items => do k <- py_idx (length items) i; Ok (list_set items k x))
      else (h, outside)
  | ODelItem t out i =>
      list_op h t out TypeError (fun items => do k <- py_idx (length items) i; Ok (list_del items k))
  | ONewOutPoint mut v => ret_loc h (new_outpoint mut h v)
  | ONewTxIn mut v => ret_loc h (new_txin mut h v)
  | ONewTxOut mut v => ret_loc h (new_txout mut h v)
  | ONewTx mut v => ret_loc h (new_tx mut h v)
  | OFromOutPoint mut l => ret_loc h (from_outpoint mut h l)
  | OFromTxIn mut l => ret_loc h (from_txin mut h l)
  | OFromTxOut mut l => ret_loc h (from_txout mut h l)
  | OFromTx mut l => ret_loc h (from_tx mut h l)
  | OSerialize l => (h, obs_res ObsBytes (ser_at h l))
  | OGetHash l => get_hash_step h l
  | OGetTxid l => (h, obs_res ObsBytes (on_abs h l v_txid))
  | OPyHash l => py_hash_step h l
  | OEq a b => (h, eq_step h a b)
  | OSigHash l script idx ht => sighash_step h l script idx ht
  | OVerify l script idx ht => verify_step h l script idx ht
  end.

Fixpoint run (h : heap) (ops : list op) : heap * list obs :=
  match ops with
  | [] => (h, [])
  | o :: r => let s := step h o in let t := run (fst s) r in (fst t, snd s :: snd t)
  end.
End Step.
