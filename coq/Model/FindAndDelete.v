(* Model/FindAndDelete.v – bitcoin/core/script.py FindAndDelete as written (operation-granular,
   over raw_iter; the generator's exception propagates), and CScript([x]) for one byte string.
   Shared by the interpreter model (C06/C07) and the signature-hash model (C03). *)
From BV Require Import Common.Base Common.PyList Common.Tx Gen.ScriptConsts Model.Script.

(* ---------- script.py: FindAndDelete ---------- *)
Fixpoint fad_loop (script sig : bytes) (ops : list sop) (r : bytes) (last : Z) (skip : bool) : bytes * Z * bool :=
  match ops with
  | [] => (r, last, skip)
  | o :: rest =>
      let r := if negb skip then r ++ py_slice script last (sop_idx o) else r in
      let last := sop_idx o in
      let skip := bytes_eqb (py_slice script (sop_idx o) (sop_idx o + lenZ sig)) sig in
      fad_loop script sig rest r last skip
  end.
Definition find_and_delete (script sig : bytes) : res bytes :=
  let '(ops, err) := raw_iter script in
  let '(r, last, skip) := fad_loop script sig ops [] 0 true in
  match err with
  | Some e => Err e                     (* the generator raises inside the for loop *)
  | None => Ok (if negb skip then r ++ py_slice script last (lenZ script) else r)
  end.
(* CScript([x]) for a byte string x: one push operation *)
Definition push_of (x : bytes) : res bytes := encode_op_pushdata x.


