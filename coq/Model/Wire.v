(* Model/Wire.v – bitcoin/core/__init__.py stream_serialize / stream_deserialize of
   COutPoint, CTxIn, CTxOut, CScriptWitness, CTransaction (marker/flag look-ahead with
   seek-back), CBlockHeader, CBlock, and Serializable.serialize / deserialize.
   Struct formats come from the regenerated Gen/Layouts.v (write-side and read-side
   separately), MAX_SIZE from Gen/Core.v. *)
From BV Require Import Common.Base Common.Codec Common.Tx Gen.Core Gen.Layouts.

Definition bytes_c : codec bytes := varbytes MAX_SIZE.     (* BytesSerializer *)

Definition outpoint_c : codec outpoint :=
  map_iso (fun p => {| op_hash := fst p; op_n := snd p |}) (fun o => (op_hash o, op_n o))
    (seq (raw 32) (field (nth_fmt 0 fmt_COutPoint_ser) (nth_fmt 0 fmt_COutPoint_deser))).
Definition txin_c : codec txin :=
  map_iso (fun p => {| ti_prevout := fst p; ti_script := fst (snd p); ti_seq := snd (snd p) |})
          (fun x => (ti_prevout x, (ti_script x, ti_seq x)))
    (seq outpoint_c (seq bytes_c (field (nth_fmt 0 fmt_CTxIn_ser) (nth_fmt 0 fmt_CTxIn_deser)))).
Definition txout_c : codec txout :=
  map_iso (fun p => {| to_value := fst p; to_script := snd p |}) (fun o => (to_value o, to_script o))
    (seq (field (nth_fmt 0 fmt_CTxOut_ser) (nth_fmt 0 fmt_CTxOut_deser)) bytes_c).
Definition stack_c : codec (list bytes) := vector bytes_c.    (* CScriptWitness *)

(* CTransaction: nVersion, then either 00 01 vin vout <one stack per input> nLockTime
   or (after seeking back) vin vout nLockTime *)
Definition tx_version_c := field (nth_fmt 0 fmt_CTransaction_ser) (nth_fmt 0 fmt_CTransaction_deser).
Definition tx_lock_w_c := field (nth_fmt 1 fmt_CTransaction_ser) (nth_fmt 3 fmt_CTransaction_deser).
Definition tx_lock_n_c := field (nth_fmt 1 fmt_CTransaction_ser) (nth_fmt 4 fmt_CTransaction_deser).
Definition body_w_c : codec ((list txin * list txout) * list (list bytes) * Z) :=
  seq (dep_rep (seq (vector txin_c) (vector txout_c)) (fun io => length (fst io)) stack_c) tx_lock_w_c.
Definition body_n_c : codec (list txin * (list txout * Z)) :=
  seq (vector txin_c) (seq (vector txout_c) tx_lock_n_c).

Definition tx_to_sum (t : tx) : Z * ((list txin * list txout) * list (list bytes) * Z + list txin * (list txout * Z)) :=
  (tx_version t,
   if has_witness t then inl ((tx_vin t, tx_vout t), tx_wit t, tx_lock t)
   else inr (tx_vin t, (tx_vout t, tx_lock t))).
Definition tx_of_sum (p : Z * ((list txin * list txout) * list (list bytes) * Z + list txin * (list txout * Z))) : tx :=
  match snd p with
  | inl (io, w, l) => {| tx_version := fst p; tx_vin := fst io; tx_vout := snd io; tx_wit := w; tx_lock := l |}
  | inr (vi, (vo, l)) => {| tx_version := fst p; tx_vin := vi; tx_vout := vo; tx_wit := []; tx_lock := l |}
  end.
Definition tx_c : codec tx :=
  map_iso tx_of_sum tx_to_sum (seq tx_version_c (peek2 x00 x01 body_w_c body_n_c)).

(* stream_serialize(include_witness=...): the assert on the witness count is explicit *)
Definition ser_tx (include_witness : bool) (t : tx) : res bytes :=
  if include_witness && has_witness t then
    if (length (tx_vin t) <? length (tx_wit t))%nat then Err AssertionError
    else Ok (enc tx_c t)
  else Ok (enc tx_c (set_wit t [])).
Definition deser_tx : bytes -> res (tx * bytes) := decode tx_c.

Definition header_c : codec header :=
  map_iso (fun p => {| h_version := fst p; h_prev := fst (snd p); h_merkle := fst (snd (snd p));
                       h_time := fst (snd (snd (snd p))); h_bits := fst (snd (snd (snd (snd p))));
                       h_nonce := snd (snd (snd (snd (snd p)))) |})
          (fun h => (h_version h, (h_prev h, (h_merkle h, (h_time h, (h_bits h, h_nonce h))))))
    (seq (field (nth_fmt 0 fmt_CBlockHeader_ser) (nth_fmt 0 fmt_CBlockHeader_deser))
      (seq (raw 32) (seq (raw 32)
        (seq (field (nth_fmt 1 fmt_CBlockHeader_ser) (nth_fmt 1 fmt_CBlockHeader_deser))
          (seq (field (nth_fmt 2 fmt_CBlockHeader_ser) (nth_fmt 2 fmt_CBlockHeader_deser))
               (field (nth_fmt 3 fmt_CBlockHeader_ser) (nth_fmt 3 fmt_CBlockHeader_deser))))))).
Definition block_c : codec block :=
  map_iso (fun p => {| b_hdr := fst p; b_vtx := snd p |}) (fun b => (b_hdr b, b_vtx b))
    (seq header_c (vector tx_c)).
(* CBlock.serialize(dict(include_witness=False)) *)
Definition ser_block_stripped (b : block) : bytes :=
  enc header_c (b_hdr b) ++ varint_enc (lenZ (b_vtx b)) ++ concat (map (fun t => enc tx_c (set_wit t [])) (b_vtx b)).
