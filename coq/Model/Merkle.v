(* Model/Merkle.v – bitcoin/core/__init__.py, code style:
     CBlock.build_merkle_tree_from_txids / build_merkle_tree_from_txs / calc_merkle_root,
     build_witness_merkle_tree_from_txs / calc_witness_merkle_root,
     CBlock.__init__ (vMerkleTree / vWitnessMerkleTree, fill-in or refusal of the root),
     get_witness_commitment_index, CTransaction.calc_weight, CBlock.GetWeight.
   Transactions are seen through what these functions read of them: GetTxid(), GetHash(),
   has_witness() (record [txv]); the weight part is parametric in the serialised sizes
   (Section variables, instantiated by the wire model Model/Wire.v later).
   Lengths and list indices are [nat]: every index the loop computes is a sum of
   non-negative Python ints (j, i, min(i+1,size-1) with size > 1), so Python's negative
   index wrap-around cannot occur; an index past the end is [Err IndexError]. *)
From BV Require Import Common.Base.

(* the library's NoWitnessData(Exception): not in the ValidationError family; the harness
   maps any exception class outside its table to OtherErr *)
Definition NoWitnessData : exn := OtherErr.
Definition is_NoWitnessData (e : exn) : bool := match e with OtherErr => true | _ => false end.

(* merkle_tree[k], k >= 0 *)
Definition get (tree : list bytes) (k : nat) : res bytes :=
  match nth_error tree k with Some x => Ok x | None => Err IndexError end.
(* l[-1] *)
Definition py_last (l : list bytes) : res bytes :=
  match l with [] => Err IndexError | _ => Ok (last l []) end.
(* l[0] = v *)
Definition set0 (l : list bytes) (v : bytes) : res (list bytes) :=
  match l with [] => Err IndexError | _ :: r => Ok (v :: r) end.

Section MerkleModel.
Variable H : bytes -> bytes.     (* bitcoin.core.serialize.Hash = sha256d *)

(* for i in range(0, size, 2):            -- [cnt] = len(range(0,size,2)) iterations left
       i2 = min(i+1, size-1)
       merkle_tree.append(Hash(merkle_tree[j+i] + merkle_tree[j+i2])) *)
Fixpoint inner (tree : list bytes) (j size i : nat) (cnt : nat) : res (list bytes) :=
  match cnt with
  | O => Ok tree
  | S c =>
      let i2 := Nat.min (i + 1) (size - 1) in
      do a <- get tree (j + i);
      do b <- get tree (j + i2);
      inner (tree ++ [H (a ++ b)]) j size (i + 2) c
  end.
Definition range2_len (size : nat) : nat := ((size + 1) / 2)%nat.   (* len(range(0,size,2)) *)

(* while size > 1: <for loop>; j += size; size = (size + 1) // 2 *)
Fixpoint outer (fuel : nat) (tree : list bytes) (j size : nat) : res (list bytes) :=
  if (1 <? size)%nat then
    match fuel with
    | O => Err OutOfFuel
    | S f =>
        do tree' <- inner tree j size 0 (range2_len size);
        outer f tree' (j + size) ((size + 1) / 2)%nat
    end
  else Ok tree.

(* merkle_tree = list(txids); size = len(txids); j = 0; ...; return merkle_tree *)
Definition build_merkle_tree_from_txids (txids : list bytes) : res (list bytes) :=
  outer (length txids) txids 0 (length txids).

(* CBlock.build_merkle_tree_from_txids(txids)[-1] *)
Definition merkle_root_of_txids (txids : list bytes) : res bytes :=
  do t <- build_merkle_tree_from_txids txids; py_last t.

(* what the merkle code reads of a transaction *)
Record txv := { tv_txid : bytes;      (* tx.GetTxid() *)
                tv_hash : bytes;      (* tx.GetHash() – the wtxid *)
                tv_haswit : bool }.   (* tx.has_witness() *)

Definition build_merkle_tree_from_txs (txs : list txv) : res (list bytes) :=
  build_merkle_tree_from_txids (map tv_txid txs).

(* if not len(self.vtx): raise ValueError; return build_merkle_tree_from_txs(self.vtx)[-1] *)
Definition calc_merkle_root (vtx : list txv) : res bytes :=
  if (length vtx =? 0)%nat then Err ValueError
  else do t <- build_merkle_tree_from_txs vtx; py_last t.

(* for tx in txs: hashes.append(tx.GetHash()); has_witness |= tx.has_witness() *)
Fixpoint wit_collect (txs : list txv) (hashes : list bytes) (has_witness : bool)
  : list bytes * bool :=
  match txs with
  | [] => (hashes, has_witness)
  | t :: r => wit_collect r (hashes ++ [tv_hash t]) (has_witness || tv_haswit t)
  end.

(* if not has_witness: raise NoWitnessData; hashes[0] = b'\x00'*32; build tree *)
Definition build_witness_merkle_tree_from_txs (txs : list txv) : res (list bytes) :=
  let '(hashes, has_witness) := wit_collect txs [] false in
  if negb has_witness then Err NoWitnessData
  else do hashes' <- set0 hashes (zeros 32);
       build_merkle_tree_from_txids hashes'.

Definition calc_witness_merkle_root (vtx : list txv) : res bytes :=
  if (length vtx =? 0)%nat then Err ValueError
  else do t <- build_witness_merkle_tree_from_txs vtx; py_last t.

(* CBlockHeader.__init__: assert len(hashPrevBlock) == 32; assert len(hashMerkleRoot) == 32 *)
Definition header_init (prev root : bytes) : res unit :=
  if negb (length prev =? 32)%nat then Err AssertionError
  else if negb (length root =? 32)%nat then Err AssertionError
  else Ok tt.

Record cblock := { cb_hashPrevBlock : bytes; cb_hashMerkleRoot : bytes;
                   cb_vMerkleTree : list bytes; cb_vWitnessMerkleTree : list bytes;
                   cb_vtx : list txv }.

(* CBlock.__init__(…, hashPrevBlock, hashMerkleRoot, …, vtx) *)
Definition cblock_init (prev root : bytes) (vtx : list txv) : res cblock :=
  do (root', vMerkleTree) <-
     (match vtx with
      | [] => Ok (root, [])                                      (* else: vMerkleTree = () *)
      | _ =>
          do mt <- build_merkle_tree_from_txs vtx;
          do last_ <- py_last mt;                                (* vMerkleTree[-1] *)
          if bytes_eqb root (zeros 32) then Ok (last_, mt)       (* filled in *)
          else if negb (bytes_eqb root last_) then Err CheckBlockErr
          else Ok (root, mt)
      end);
  do _ <- header_init prev root';
  do wt <- (match build_witness_merkle_tree_from_txs vtx with
            | Ok t => Ok t
            | Err e => if is_NoWitnessData e then Ok [] else Err e   (* except NoWitnessData *)
            end);
  Ok {| cb_hashPrevBlock := prev; cb_hashMerkleRoot := root';
        cb_vMerkleTree := vMerkleTree; cb_vWitnessMerkleTree := wt; cb_vtx := vtx |}.
End MerkleModel.

(* ---------- get_witness_commitment_index ---------- *)
(* for index, out in enumerate(self.vtx[0].vout):
       if len(script) >= 38 and script[:6] == MAGIC: commit_pos = index *)
Fixpoint commit_scan (magic : bytes) (outs : list bytes) (index : nat) (commit_pos : option nat)
  : option nat :=
  match outs with
  | [] => commit_pos
  | script :: r =>
      commit_scan magic r (S index)
        (if (38 <=? length script)%nat && bytes_eqb (firstn 6 script) magic
         then Some index else commit_pos)
  end.
(* [vtx_outs]: for every transaction of the block the scriptPubKeys of its outputs *)
Definition get_witness_commitment_index (magic : bytes) (vtx_outs : list (list bytes)) : res nat :=
  match vtx_outs with
  | [] => Err ValueError                       (* 'Block contains no transactions' *)
  | coinbase_outs :: _ =>
      match commit_scan magic coinbase_outs 0 None with
      | None => Err ValueError                 (* 'The witness commitment is missed' *)
      | Some i => Ok i
      end
  end.

(* ---------- weights (parametric in the serialised sizes) ---------- *)
Section WeightModel.
Variable tx : Type.
Variable n_vin n_vout : tx -> nat.      (* len(self.vin), len(self.vout) *)
Variable wit_is_null : tx -> bool.      (* self.wit.is_null() *)
Variable strip : tx -> tx.              (* CTransaction(self.vin, self.vout, self.nLockTime, self.nVersion) *)
Variable size_full : tx -> Z.           (* len(t.serialize())                          *)
Variable size_stripped : tx -> Z.       (* len(t.serialize(dict(include_witness=False))) *)

(* CTransaction.calc_weight: two asserts, then the no-witness shortcut or two serialisations *)
Definition calc_weight (t : tx) : res Z :=
  if negb (0 <? n_vin t)%nat then Err AssertionError
  else if negb (0 <? n_vout t)%nat then Err AssertionError
  else if wit_is_null t then Ok (size_full t * 4)
  else let stripped := strip t in Ok (size_full stripped * 3 + size_full t).

(* VarIntSerializer.stream_serialize(len(objs)): number of bytes written *)
Definition varint_len (i : Z) : Z :=
  if i <? 0xfd then 1 else if i <=? 0xffff then 3 else if i <=? 0xffffffff then 5 else 9.
(* CBlockHeader.stream_serialize: "<i", 32, 32, "<I", "<I", "<I" *)
Definition header_len : Z := 4 + 32 + 32 + 4 + 4 + 4.
(* CBlock.stream_serialize(f, include_witness): header, then
   VectorSerializer.stream_serialize(CTransaction, vtx, f, dict(include_witness=…)) *)
Fixpoint vtx_len (include_witness : bool) (vtx : list tx) : Z :=
  match vtx with
  | [] => 0
  | t :: r => (if include_witness then size_full t else size_stripped t) + vtx_len include_witness r
  end.
Definition block_len (include_witness : bool) (vtx : list tx) : Z :=
  header_len + (varint_len (lenZ vtx) + vtx_len include_witness vtx).
(* len(self.serialize(dict(include_witness=False))) * 3 + len(self.serialize()) *)
Definition get_weight (vtx : list tx) : Z :=
  block_len false vtx * 3 + block_len true vtx.
End WeightModel.
