(* Model/Bech32.v – bitcoin/segwit_addr.py (bech32_polymod, bech32_hrp_expand,
   bech32_verify_checksum, bech32_create_checksum, bech32_encode, bech32_decode,
   convertbits, decode, encode) and bitcoin/bech32.py (CBech32Data.__new__, from_bytes,
   __str__).  Code style: the same shifts, masks, loops, index arithmetic and early
   returns as the Python; Python ints are Z; every partial operation is an Err branch.

   Text (Python str) is the list of its code points (list Z).
   str.lower / str.upper are modelled on ASCII ONLY ('A'..'Z' <-> 'a'..'z', every other
   code point unchanged).  This is exact where the code uses them: bech32_decode evaluates
   bech.lower()/bech.upper() only after `any(ord(x) < 33 or ord(x) > 126 ...)` was false
   (Python's `or` short-circuits), i.e. on pure-ASCII strings; when that test is true the
   result is (None, None) whatever lower/upper would return.

   The checksum constants (generator words, shifts, masks, CHARSET) are not written here:
   they come from Gen/Bech32.v, regenerated from /repo on every run. *)
From BV Require Import Common.Base Gen.Bech32.

Definition text := list Z.

(* ---------- Python helpers ---------- *)
(* range(n) *)
Definition zrange (n : Z) : list Z := map Z.of_nat (seq 0 (Z.to_nat n)).

(* l[i] for list/str, negative indices count from the end *)
Definition py_index {A} (l : list A) (i : Z) : res A :=
  let n := lenZ l in
  let j := if i <? 0 then i + n else i in
  if (j <? 0) || (n <=? j) then Err IndexError
  else match nth_error l (Z.to_nat j) with Some a => Ok a | None => Err IndexError end.

(* a << n, a >> n : negative shift count raises ValueError *)
Definition py_shl (a n : Z) : res Z := if n <? 0 then Err ValueError else Ok (Z.shiftl a n).
Definition py_shr (a n : Z) : res Z := if n <? 0 then Err ValueError else Ok (Z.shiftr a n).

Fixpoint zlist_eqb (a b : list Z) : bool :=
  match a, b with
  | [], [] => true
  | x :: a', y :: b' => (x =? y) && zlist_eqb a' b'
  | _, _ => false
  end.

Fixpoint mapM {A B} (f : A -> res B) (l : list A) : res (list B) :=
  match l with
  | [] => Ok []
  | a :: t => do b <- f a; do r <- mapM f t; Ok (b :: r)
  end.

(* str.lower / str.upper, ASCII only (see header) *)
Definition lower_char (c : Z) : Z := if (65 <=? c) && (c <=? 90) then c + 32 else c.
Definition upper_char (c : Z) : Z := if (97 <=? c) && (c <=? 122) then c - 32 else c.
Definition lower (s : text) : text := map lower_char s.
Definition upper (s : text) : text := map upper_char s.

(* s.rfind(c) for a one-character c: highest index, -1 if absent *)
Fixpoint rfind_from (c : Z) (s : text) (i best : Z) : Z :=
  match s with
  | [] => best
  | x :: t => rfind_from c t (i + 1) (if x =? c then i else best)
  end.
Definition rfind (c : Z) (s : text) : Z := rfind_from c s 0 (-1).

(* s.find(c) for a one-character c: lowest index, -1 if absent;  c in s *)
Fixpoint find_from (c : Z) (s : text) (i : Z) : Z :=
  match s with
  | [] => -1
  | x :: t => if x =? c then i else find_from c t (i + 1)
  end.
Definition str_find (s : text) (c : Z) : Z := find_from c s 0.
Definition str_in (c : Z) (s : text) : bool := existsb (fun x => x =? c) s.

(* ---------- bech32_polymod ---------- *)
(* one iteration of `for value in values` (generator[i] cannot raise: the extractor pins
   len(generator) = 5 = the range of the inner loop) *)
Definition polymod_step (chk value : Z) : Z :=
  let top := Z.shiftr chk bech32_top_shift in
  let chk := Z.lxor (Z.shiftl (Z.land chk bech32_mask) bech32_shift) value in
  fold_left (fun chk i =>
               Z.lxor chk (if negb (Z.land (Z.shiftr top i) bech32_bit_mask =? 0)
                           then nth (Z.to_nat i) bech32_generator 0 else 0))
            (zrange bech32_gen_range) chk.
Definition polymod_from (chk : Z) (values : list Z) : Z := fold_left polymod_step values chk.
Definition bech32_polymod (values : list Z) : Z := polymod_from bech32_polymod_init values.

Definition bech32_hrp_expand (hrp : text) : list Z :=
  map (fun x => Z.shiftr x bech32_hrp_shift) hrp ++ [0] ++ map (fun x => Z.land x bech32_hrp_mask) hrp.

Definition bech32_verify_checksum (hrp : text) (data : list Z) : bool :=
  bech32_polymod (bech32_hrp_expand hrp ++ data) =? bech32_verify_target.

Definition bech32_create_checksum (hrp : text) (data : list Z) : list Z :=
  let values := bech32_hrp_expand hrp ++ data in
  let polymod := Z.lxor (bech32_polymod (values ++ repeat 0 (Z.to_nat bech32_chk_zeros))) bech32_chk_target in
  map (fun i => Z.land (Z.shiftr polymod (bech32_chk_width * (bech32_chk_last - i))) bech32_chk_mask)
      (zrange bech32_chk_syms).

(* hrp + '1' + ''.join([CHARSET[d] for d in combined]) *)
Definition bech32_encode (hrp : text) (data : list Z) : res text :=
  let combined := data ++ bech32_create_checksum hrp data in
  do chars <- mapM (fun d => py_index bech32_charset d) combined;
  Ok (hrp ++ [49] ++ chars).

(* (None, None) is None; (hrp, data[:-6]) is Some *)
Definition bech32_decode (bech : text) : option (text * list Z) :=
  if existsb (fun x => (x <? 33) || (x >? 126)) bech
     || (negb (zlist_eqb (lower bech) bech) && negb (zlist_eqb (upper bech) bech))
  then None else
  let bech := lower bech in
  let pos := rfind 49 bech in
  if (pos <? 1) || (pos + 7 >? lenZ bech) || (lenZ bech >? 90) then None else
  let tail := skipn (Z.to_nat (pos + 1)) bech in
  if negb (forallb (fun x => str_in x bech32_charset) tail) then None else
  let hrp := firstn (Z.to_nat pos) bech in
  let data := map (str_find bech32_charset) tail in
  if negb (bech32_verify_checksum hrp data) then None else
  Some (hrp, firstn (length data - 6) data).

(* ---------- convertbits ---------- *)
(* while bits >= tobits: bits -= tobits; ret.append((acc >> bits) & maxv)
   fuel = the value of bits on entry: enough whenever tobits >= 1; with tobits = 0 the
   Python loop does not terminate and the model answers OutOfFuel *)
Fixpoint cb_while (fuel : nat) (acc bits tobits maxv : Z) (ret : list Z) : res (Z * list Z) :=
  if bits >=? tobits then
    match fuel with
    | O => Err OutOfFuel
    | S k => let bits := bits - tobits in
             cb_while k acc bits tobits maxv (ret ++ [Z.land (Z.shiftr acc bits) maxv])
    end
  else Ok (bits, ret).

(* for value in data: ...   None = the early `return None` *)
Fixpoint cb_loop (data : list Z) (frombits tobits maxv max_acc acc bits : Z) (ret : list Z)
  : res (option (Z * Z * list Z)) :=
  match data with
  | [] => Ok (Some (acc, bits, ret))
  | value :: rest =>
      if value <? 0 then Ok None else
      do hi <- py_shr value frombits;
      if negb (hi =? 0) then Ok None else
      do a <- py_shl acc frombits;
      let acc := Z.land (Z.lor a value) max_acc in
      let bits := bits + frombits in
      do br <- cb_while (Z.to_nat bits) acc bits tobits maxv ret;
      let '(bits, ret) := br in
      cb_loop rest frombits tobits maxv max_acc acc bits ret
  end.

Definition convertbits (data : list Z) (frombits tobits : Z) (pad : bool) : res (option (list Z)) :=
  do one_t <- py_shl 1 tobits;
  let maxv := one_t - 1 in
  do one_a <- py_shl 1 (frombits + tobits - 1);
  let max_acc := one_a - 1 in
  do r <- cb_loop data frombits tobits maxv max_acc 0 0 [];
  match r with
  | None => Ok None
  | Some (acc, bits, ret) =>
      if pad then
        if negb (bits =? 0) then
          do s <- py_shl acc (tobits - bits); Ok (Some (ret ++ [Z.land s maxv]))
        else Ok (Some ret)
      else
        if bits >=? frombits then Ok None else
        do s <- py_shl acc (tobits - bits);
        if negb (Z.land s maxv =? 0) then Ok None else Ok (Some ret)
  end.

(* ---------- segwit address decode / encode ---------- *)
Definition decode (hrp addr : text) : res (option (Z * list Z)) :=
  match bech32_decode addr with
  | None => Ok None                                   (* hrpgot = None != hrp *)
  | Some (hrpgot, data) =>
      if negb (zlist_eqb hrpgot hrp) then Ok None else
      do dec <- convertbits (skipn 1 data) 5 8 false;
      match dec with
      | None => Ok None
      | Some decoded =>
          if (lenZ decoded <? 2) || (lenZ decoded >? 40) then Ok None else
          do d0 <- py_index data 0;
          if d0 >? 16 then Ok None else
          if (d0 =? 0) && negb (lenZ decoded =? 20) && negb (lenZ decoded =? 32) then Ok None else
          Ok (Some (d0, decoded))
      end
  end.

(* [witver] + convertbits(...) raises TypeError when convertbits returned None *)
Definition encode (hrp : text) (witver : Z) (witprog : list Z) : res (option text) :=
  do cb <- convertbits witprog 8 5 true;
  match cb with
  | None => Err TypeError
  | Some c =>
      do ret <- bech32_encode hrp (witver :: c);
      do d <- decode hrp ret;
      match d with None => Ok None | Some _ => Ok (Some ret) end
  end.

(* ---------- bitcoin/bech32.py: CBech32Data ---------- *)
(* the object is observed as (witver, payload bytes); bytes.__new__(cls, list of ints)
   raises ValueError for an element outside 0..255 *)
Definition cb_from_bytes (witver : Z) (witprog : list Z) : res (Z * bytes) :=
  if negb ((0 <=? witver) && (witver <=? 16)) then Err ValueError else
  if forallb (fun v => (0 <=? v) && (v <? 256)) witprog then Ok (witver, map z2b witprog)
  else Err ValueError.

(* CBech32Data(s) under the selected chain's BECH32_HRP *)
Definition cb_new (hrp s : text) : res (Z * bytes) :=
  do d <- decode hrp s;
  match d with
  | None => Err Bech32Err
  | Some (witver, data) => cb_from_bytes witver data
  end.

(* str(obj): encode(hrp, self.witver, self); __str__ returning None is a TypeError *)
Definition cb_str (hrp : text) (obj : Z * bytes) : res text :=
  do r <- encode hrp (fst obj) (map b2z (snd obj));
  match r with None => Err TypeError | Some s => Ok s end.
