(* Model/Bip143.v – bitcoin/core/script.py SignatureHash, branch
   sigversion == SIGVERSION_WITNESS_V0, as written: three conditional intermediate hashes,
   then the ten writes.  struct.pack range errors and the list indexing are explicit.
   Formats and constants are regenerated (Gen/Sighash.v). *)
From BV Require Import Common.Base Common.Codec Common.PyList Common.Tx Model.Wire Gen.Sighash.

(* struct.pack(fmt, v): struct.error outside the format's range *)
Definition in_fmt (f : fmt) (v : Z) : bool :=
  if f_signed f then (- (256 ^ Z.of_nat (f_width f) / 2) <=? v) && (v <? 256 ^ Z.of_nat (f_width f) / 2)
  else (0 <=? v) && (v <? 256 ^ Z.of_nat (f_width f)).
Definition pack (f : fmt) (v : Z) : res bytes :=
  if in_fmt f v then Ok (enc (fmt_codec f) v) else Err StructError.
Fixpoint concat_res (l : list (res bytes)) : res bytes :=
  match l with [] => Ok [] | r :: t => do a <- r; do b <- concat_res t; Ok (a ++ b) end.

Section M.
Variable H : bytes -> bytes.   (* bitcoin.core.Hash *)

Definition mask_1f : Z := nth 0 lits_bip143 0.   (* the literal 0x1f *)

Definition bip143 (script : bytes) (t : tx) (inIdx : Z) (hashtype : Z) (amount : Z) : res bytes :=
  let anyone := negb (Z.land hashtype SIGHASH_ANYONECANPAY =? 0) in
  let base := Z.land hashtype mask_1f in
  do hashPrevouts <-
    (if negb anyone then Ok (H (concat (map (fun i => enc outpoint_c (ti_prevout i)) (tx_vin t))))
     else Ok (zeros 32));
  do hashSequence <-
    (if negb anyone && negb (base =? SIGHASH_SINGLE) && negb (base =? SIGHASH_NONE)
     then do s <- concat_res (map (fun i => pack (nth_fmt 0 fmt_bip143) (ti_seq i)) (tx_vin t)); Ok (H s)
     else Ok (zeros 32));
  do hashOutputs <-
    (if negb (base =? SIGHASH_SINGLE) && negb (base =? SIGHASH_NONE)
     then Ok (H (concat (map (enc txout_c) (tx_vout t))))
     else if (base =? SIGHASH_SINGLE) && (inIdx <? len (tx_vout t))
     then do o <- py_nth (tx_vout t) inIdx; Ok (H (enc txout_c o))
     else Ok (zeros 32));
  do ver <- pack (nth_fmt 1 fmt_bip143) (tx_version t);
  do txin <- py_nth (tx_vin t) inIdx;
  do amt <- pack (nth_fmt 2 fmt_bip143) amount;
  do sq <- pack (nth_fmt 3 fmt_bip143) (ti_seq txin);
  do lock <- pack (nth_fmt 4 fmt_bip143) (tx_lock t);
  do ht <- pack (nth_fmt 5 fmt_bip143) hashtype;
  Ok (H (ver ++ hashPrevouts ++ hashSequence ++ enc outpoint_c (ti_prevout txin)
         ++ (varint_enc (lenZ script) ++ script) ++ amt ++ sq ++ hashOutputs ++ lock ++ ht)).
End M.
