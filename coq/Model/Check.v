(* Model/Check.v – bitcoin/core/__init__.py, code style, as the tree is AFTER the fixes of
   F10 (coinbase checked and counted), F11 (explicit coinbase-witness checks) and F12 (no
   upper bound on the commitment script length):
     MoneyRange, COutPoint.is_null, CTransaction.is_coinbase, CheckTransaction,
     CheckBlockHeader (-> CheckProofOfWork, Model/Compact.v), GetLegacySigOpCount
     (-> CScript.GetSigOpCount, Model/Script.v), CheckBlock (-> GetTxid / GetHash,
     Model/Ident.v; calc_merkle_root / vWitnessMerkleTree / get_witness_commitment_index,
     Model/Merkle.v; serialize / GetWeight, Model/Wire.v, Model/Weight.v).
   Every partial Python operation is an explicit Err branch: l[i] (IndexError), the
   CTransaction constructor (ValueError on nLockTime), the CBlockHeader constructor
   (AssertionError on the hash lengths), the serialisation assert on the witness count.
   struct.pack range errors of the serialisers are NOT modelled (Model/Wire.v's encoders are
   total): the model is faithful for objects whose fields are in wire range, which is what
   the theorems assume (Spec/Check.v [tx_in_range], Spec/Wire.v [wf_header]).
   `x in s` / `s.add(x)` on a Python set of Serializable objects or of bytes is membership in
   the list of the elements added so far, under the objects' __eq__ (equality of
   serialisations for COutPoint, byte equality for txids).
   MAX_BLOCK_SIGOPS is the float MAX_BLOCK_SIZE/50 in the Python; Gen/Core.v is only emitted
   when it is integral, so `nSigOps > MAX_BLOCK_SIGOPS` (int against float) is the exact
   integer comparison.  Hash = serialize.Hash is the Section variable H. *)
From BV Require Import Common.Base Common.PyList Common.Codec Common.Tx Gen.Core.
From BV Require Import Model.Wire Model.Ident Model.Merkle Model.Weight Model.Compact Model.Script.

(* MoneyRange(nValue): 0 <= nValue <= params.MAX_MONEY   (params = the selected coreparams) *)
Definition money_range (cp : chain_params) (nValue : Z) : bool :=
  (0 <=? nValue) && (nValue <=? cp_max_money cp).

(* COutPoint.is_null: (self.hash == b'\x00'*32) and (self.n == 0xffffffff) *)
Definition outpoint_is_null (o : outpoint) : bool :=
  bytes_eqb (op_hash o) (zeros 32) && (op_n o =? 0xffffffff).

(* Serializable.__eq__ on two COutPoint objects: self.serialize() == other.serialize() *)
Definition outpoint_eq (a b : outpoint) : bool := bytes_eqb (enc outpoint_c a) (enc outpoint_c b).

(* CTransaction.is_coinbase: len(self.vin) == 1 and self.vin[0].prevout.is_null() *)
Definition is_coinbase (t : tx) : res bool :=
  if negb (lenZ (tx_vin t) =? 1) then Ok false
  else do txin0 <- py_nth (tx_vin t) 0; Ok (outpoint_is_null (ti_prevout txin0)).

(* nValueOut = 0
   for txout in tx.vout:
       if txout.nValue < 0: raise; if txout.nValue > coreparams.MAX_MONEY: raise
       nValueOut += txout.nValue
       if not MoneyRange(nValueOut): raise *)
Fixpoint check_values (cp : chain_params) (vout : list txout) (nValueOut : Z) : res unit :=
  match vout with
  | [] => Ok tt
  | txout :: r =>
      if to_value txout <? 0 then Err CheckTxErr
      else if to_value txout >? cp_max_money cp then Err CheckTxErr
      else let nValueOut := nValueOut + to_value txout in
           if negb (money_range cp nValueOut) then Err CheckTxErr
           else check_values cp r nValueOut
  end.

(* vin_outpoints = set()
   for txin in tx.vin:
       if txin.prevout in vin_outpoints: raise
       vin_outpoints.add(txin.prevout) *)
Fixpoint check_dup_inputs (vin : list txin) (vin_outpoints : list outpoint) : res unit :=
  match vin with
  | [] => Ok tt
  | txin :: r =>
      if existsb (outpoint_eq (ti_prevout txin)) vin_outpoints then Err CheckTxErr
      else check_dup_inputs r (ti_prevout txin :: vin_outpoints)
  end.

(* for txin in tx.vin: if txin.prevout.is_null(): raise *)
Fixpoint check_no_null (vin : list txin) : res unit :=
  match vin with
  | [] => Ok tt
  | txin :: r => if outpoint_is_null (ti_prevout txin) then Err CheckTxErr else check_no_null r
  end.

(* CheckTransaction(tx) with coreparams = cp *)
Definition check_tx (cp : chain_params) (t : tx) : res unit :=
  if is_nil (tx_vin t) then Err CheckTxErr                      (* vin empty *)
  else if is_nil (tx_vout t) then Err CheckTxErr                (* vout empty *)
  else
    (* base_tx = CTransaction(tx.vin, tx.vout, tx.nLockTime, tx.nVersion): the constructor
       refuses an nLockTime outside 0..0xffffffff *)
    do _ <- (if (0 <=? tx_lock t) && (tx_lock t <=? 0xffffffff) then Ok tt else Err ValueError);
    do s <- ser_tx true (set_wit t []);                         (* base_tx.serialize() *)
    if lenZ s >? MAX_BLOCK_SIZE then Err CheckTxErr             (* size limits failed *)
    else
      do _ <- check_values cp (tx_vout t) 0;
      do _ <- check_dup_inputs (tx_vin t) [];
      do cb <- is_coinbase t;
      if cb then
        do txin0 <- py_nth (tx_vin t) 0;                        (* tx.vin[0].scriptSig *)
        let n := lenZ (ti_script txin0) in
        if negb ((2 <=? n) && (n <=? 100)) then Err CheckTxErr  (* coinbase script size *)
        else Ok tt
      else check_no_null (tx_vin t).

(* GetLegacySigOpCount: nSigOps += script.GetSigOpCount(False) over the inputs' scriptSigs,
   then over the outputs' scriptPubKeys *)
Fixpoint add_sigops (scripts : list bytes) (nSigOps : Z) : res Z :=
  match scripts with
  | [] => Ok nSigOps
  | s :: r => do k <- get_sigop_count false s; add_sigops r (nSigOps + k)
  end.
Definition get_legacy_sigop_count (t : tx) : res Z :=
  do n <- add_sigops (map ti_script (tx_vin t)) 0;
  add_sigops (map to_script (tx_vout t)) n.

Section CheckModel.
Variable H : bytes -> bytes.     (* bitcoin.core.serialize.Hash = sha256d *)

(* CheckBlockHeader(block_header, fCheckPoW, cur_time) with an explicit cur_time (an int) *)
Definition check_block_header (cp : chain_params) (h : header) (fCheckPoW : bool) (cur_time : Z)
  : res unit :=
  do _ <- (if fCheckPoW
           then check_pow (cp_pow_limit cp) (H (enc header_c h)) (h_bits h)   (* GetHash(), nBits *)
           else Ok tt);
  if h_time h >? cur_time + 2 * 60 * 60 then Err CheckHeaderErr
  else Ok tt.

(* for i, tx in enumerate(block.vtx):
       if i > 0 and tx.is_coinbase(): raise CheckBlockError        -- [first] = (i == 0)
       CheckTransaction(tx)
       txid = tx.GetTxid()
       if txid in unique_txids: raise CheckBlockError
       unique_txids.add(txid)
       nSigOps += GetLegacySigOpCount(tx)
       if nSigOps > MAX_BLOCK_SIGOPS: raise CheckBlockError *)
Fixpoint check_txs (cp : chain_params) (vtx : list tx) (first : bool)
                   (unique_txids : list bytes) (nSigOps : Z) : res unit :=
  match vtx with
  | [] => Ok tt
  | t :: r =>
      do cb <- (if first then Ok false else is_coinbase t);
      if cb then Err CheckBlockErr                                (* more than one coinbase *)
      else
        do _ <- check_tx cp t;
        do txid <- get_txid H t;
        if existsb (bytes_eqb txid) unique_txids then Err CheckBlockErr   (* duplicate transaction *)
        else
          do k <- get_legacy_sigop_count t;
          let nSigOps := nSigOps + k in
          if nSigOps >? MAX_BLOCK_SIGOPS then Err CheckBlockErr   (* out-of-bounds SigOpCount *)
          else check_txs cp r false (txid :: unique_txids) nSigOps
  end.

(* What the block object holds besides its fields.  CBlock.__init__ and
   CBlock.stream_deserialize evaluate GetTxid() and GetHash() of every transaction (for
   vMerkleTree and vWitnessMerkleTree) when the object is built; the block is immutable, so
   CheckBlock sees exactly these values.  An error here is raised by the construction of
   the block, not by CheckBlock. *)
Definition to_txv (t : tx) : res txv :=
  do txid <- get_txid H t;
  do wtxid <- get_hash H t;
  Ok {| tv_txid := txid; tv_hash := wtxid; tv_haswit := has_witness t |}.
Fixpoint block_txvs (vtx : list tx) : res (list txv) :=
  match vtx with
  | [] => Ok []
  | t :: r => do v <- to_txv t; do vs <- block_txvs r; Ok (v :: vs)
  end.
(* try: vWitnessMerkleTree = tuple(build_witness_merkle_tree_from_txs(vtx))
   except NoWitnessData: vWitnessMerkleTree = () *)
Definition witness_merkle_tree (txvs : list txv) : res (list bytes) :=
  match build_witness_merkle_tree_from_txs H txvs with
  | Ok t => Ok t
  | Err e => if is_NoWitnessData e then Ok [] else Err e
  end.

(* CheckBlock(block, fCheckPoW, fCheckMerkleRoot, cur_time) with coreparams = cp *)
Definition check_block (cp : chain_params) (b : block) (fCheckPoW fCheckMerkleRoot : bool)
                       (cur_time : Z) : res unit :=
  let hdr := b_hdr b in
  let vtx := b_vtx b in
  do txvs <- block_txvs vtx;                       (* the built object: see above *)
  do vWitnessMerkleTree <- witness_merkle_tree txvs;
  (* block.get_header(): CBlockHeader(...) asserts the two hash lengths *)
  do _ <- header_init (h_prev hdr) (h_merkle hdr);
  do _ <- check_block_header cp hdr fCheckPoW cur_time;
  if is_nil vtx then Err CheckBlockErr                                        (* vtx empty *)
  else if lenZ (ser_block_stripped b) >? MAX_BLOCK_SIZE then Err CheckBlockErr
  else if block_get_weight b >? MAX_BLOCK_WEIGHT then Err CheckBlockErr
  else
    do coinbase <- py_nth vtx 0;                                              (* block.vtx[0] *)
    do cb <- is_coinbase coinbase;
    if negb cb then Err CheckBlockErr                                         (* first tx is not coinbase *)
    else
      do _ <- check_txs cp vtx true [] 0;
      if negb fCheckMerkleRoot then Ok tt
      else
        do root <- calc_merkle_root H txvs;
        if negb (bytes_eqb (h_merkle hdr) root) then Err CheckBlockErr        (* hashMerkleRoot mismatch *)
        else if lenZ vWitnessMerkleTree =? 0 then Ok tt
        else
          do wroot <- py_last vWitnessMerkleTree;                             (* vWitnessMerkleTree[-1] *)
          if lenZ (tx_wit coinbase) <? 1 then Err CheckBlockErr               (* coinbase has no witness *)
          else
            do stack <- py_nth (tx_wit coinbase) 0;                           (* vtxinwit[0].scriptWitness.stack *)
            if negb (lenZ stack =? 1) then Err CheckBlockErr                  (* invalid coinbase witnessScript *)
            else
              do nonce <- py_nth stack 0;
              if negb (lenZ nonce =? 32) then Err CheckBlockErr
              else
                (* try: index = block.get_witness_commitment_index()
                   except ValueError as e: raise CheckBlockError *)
                do index <- (match get_witness_commitment_index WITNESS_COINBASE_SCRIPTPUBKEY_MAGIC
                                     (map (fun t => map to_script (tx_vout t)) vtx) with
                             | Ok i => Ok i
                             | Err ValueError => Err CheckBlockErr
                             | Err e => Err e
                             end);
                do out <- py_nth (tx_vout coinbase) (Z.of_nat index);         (* vtx[0].vout[index] *)
                let commit_script := to_script out in
                if negb (6 + 32 <=? lenZ commit_script) then Err CheckBlockErr   (* commitment length *)
                else
                  let commit := firstn 32 (skipn 6 commit_script) in          (* commit_script[6:6+32] *)
                  if negb (bytes_eqb commit (H (wroot ++ nonce))) then Err CheckBlockErr
                  else Ok tt.
End CheckModel.
