(* Model/Key.v – the Python-side logic of bitcoin/core/key.py (CECKey, CPubKey),
   bitcoin/core/script.py (IsLowDERSignature, CompareBigEndian), bitcoin/signature.py
   (DERSignature), bitcoin/wallet.py (CKey, CBitcoinSecret) and bitcoin/signmessage.py,
   code style.  OpenSSL calls made through ctypes are represented by the reference
   definitions of Spec/Ecdsa.v and Spec/Der.v over an arbitrary [curve] E:
     BN_bin2bn = be_dec, BN_* = arithmetic on Z, BN_mod_inverse = inv_mod,
     EC_POINT_mul(group, Q, a, R, b) = a G + b R, EC_POINT_set_compressed_coordinates = c_lift,
     i2o_ECPublicKey = sec1_enc, o2i_ECPublicKey = sec1_dec, ECDSA_sign = sign_raw with
     the nonce as an explicit argument followed by i2d_ECDSA_SIG = enc_der,
     d2i_ECDSA_SIG = parse_der (strict DER only: lax encodings accepted by OpenSSL are
     outside the model), ECDSA_verify = verify_ref.
   Function-local literals (the half-order table, offsets, 27 / 4, masks, slice bounds, the
   recovery-id range, the default magic) come from Gen/Key.v, regenerated from /repo. *)
From BV Require Import Common.Base Common.Codec Gen.Core Gen.Key Model.Base58 Spec.Ecdsa Spec.Der.

(* ---------- bitcoin/core/script.py ---------- *)
(* while len(c1) > len(c2): if c1.pop(0) > 0: return 1      (k = len(c1) - len(c2)) *)
Fixpoint pop_while_longer (k : nat) (c : list Z) : option (list Z) :=
  match k with
  | O => Some c
  | S k' => match c with
            | x :: t => if x >? 0 then None else pop_while_longer k' t
            | [] => Some []
            end
  end.
(* while len(c1) > 0: diff = c1.pop(0) - c2.pop(0); if diff != 0: return diff *)
Fixpoint diff_loop (c1 c2 : list Z) : Z :=
  match c1, c2 with
  | x :: t1, y :: t2 => let diff := x - y in if negb (diff =? 0) then diff else diff_loop t1 t2
  | _, _ => 0
  end.
Definition compare_big_endian (c1 c2 : list Z) : Z :=
  match pop_while_longer (length c1 - length c2) c1 with
  | None => 1
  | Some c1' =>
      match pop_while_longer (length c2 - length c1') c2 with
      | None => -1
      | Some c2' => diff_loop c1' c2'
      end
  end.

Definition is_low_der_with (table : list Z) (sig : bytes) : res bool :=
  do lr <- py_getitem sig lowder_off_len_r;
  let length_r := b2z lr in
  do ls <- py_getitem sig (lowder_off_len_s + length_r);
  let length_s := b2z ls in
  let sl := py_slice sig (Some (lowder_off_s + length_r)) (Some (lowder_off_s + length_r + length_s)) in
  (* struct.unpack(str(length_s) + 'B', ...) needs exactly length_s bytes *)
  if negb (lenZ sl =? length_s) then Err StructError else
  let s_val := map b2z sl in
  Ok ((compare_big_endian s_val [0] >? 0) && (compare_big_endian s_val table <=? 0)).
Definition is_low_der : bytes -> res bool := is_low_der_with max_mod_half_order.

(* ---------- bitcoin/signature.py: DERSignature.deserialize ---------- *)
Definition bytes_ser := varbytes MAX_SIZE.         (* BytesSerializer *)
Definition expect_byte (b : byte) (f : bytes) : res bytes :=
  do t <- take_n 1 f;                              (* ser_read(f, 1) *)
  if bytes_eqb (fst t) [b] then Ok (snd t) else Err AssertionError.
Definition der_sig_deserialize (buf : bytes) : res (bytes * bytes) :=
  do f <- expect_byte x30 buf;
  do rs <- Codec.decode bytes_ser f;
  let inner := fst rs in                           (* f = BytesIO(rs) *)
  do f1 <- expect_byte x02 inner;
  do r <- Codec.decode bytes_ser f1;
  do f2 <- expect_byte x02 (snd r);
  do s <- Codec.decode bytes_ser f2;
  (* Serializable.deserialize: the outer buffer must be consumed *)
  match snd rs with [] => Ok (fst r, fst s) | _ => Err ExtraData end.

Section Key.
Variable E : curve.
Notation n := (c_n E).
Notation g := (@c_gen E).

(* ---------- CPubKey flags ---------- *)
Definition pk_is_valid (b : bytes) : bool := lenZ b >? 0.
Definition pk_is_compressed (b : bytes) : bool := lenZ b =? pubkey_compressed_len.
(* set_pubkey(self) is not None *)
Definition pk_is_fullyvalid (b : bytes) : bool :=
  match sec1_dec E b with Some _ => true | None => false end.

(* ---------- CECKey ---------- *)
Definition form_of (compressed : bool) : pform := if compressed then Compressed else Uncompressed.
(* set_secretbytes / set_compressed / get_pubkey *)
Definition cec_pubkey (secret : bytes) (compressed : bool) : res bytes :=
  if negb (lenZ secret =? 32) then Err ValueError
  else Ok (sec1_enc E (form_of compressed) (pub E (be_dec secret))).

(* ECDSA_sign(0, hash, 32, ...) with the nonce k, then i2d *)
Definition ossl_sign (d : Z) (hash : bytes) (k : Z) : bytes :=
  let '(r, s) := sign_raw E d (be_dec hash) k in enc_der r s.

Definition signature_to_low_s (sig : bytes) : res bytes :=
  match parse_der sig with                         (* d2i_ECDSA_SIG *)
  | None => Err OtherErr
  | Some (r, s) =>
      let order := n in
      let halforder := Z.shiftr order 1 in          (* BN_rshift1 *)
      let s := if s >? halforder then order - s else s in   (* BN_cmp(...) > 0: BN_sub *)
      Ok (enc_der r s)                             (* i2d_ECDSA_SIG *)
  end.

Definition cec_sign (d : Z) (hash : bytes) (k : Z) : res bytes :=
  if negb (lenZ hash =? 32) then Err ValueError else
  let sig := ossl_sign d hash k in
  do low <- is_low_der sig;
  if low then Ok sig else signature_to_low_s sig.

Definition cec_verify (Q : option (pt E)) (hash sig : bytes) : bool :=
  match sig with
  | [] => false                                    (* if not sig: return False *)
  | _ => match parse_der sig, Q with
         | Some (r, s), Some Q => verify_ref E Q (be_dec hash) r s
         | _, _ => false
         end
  end.

(* recover(sigR, sigS, msg, msglen, recid, check): (return code, key that was set) *)
Definition degree : Z := Z.log2 (c_p E) + 1.       (* EC_GROUP_get_degree *)
Definition cec_recover (sigR sigS msg : bytes) (recid : Z) (check : bool) : res (Z * option (pt E)) :=
  let i := Z.quot recid 2 in                        (* int(recid / 2) *)
  if negb (lenZ sigR =? 32) then Err AssertionError else
  if negb (lenZ sigS =? 32) then Err AssertionError else
  let r := be_dec sigR in
  let s := be_dec sigS in
  let order := n in
  let x := order * i + r in                         (* BN_copy, BN_mul_word, BN_add *)
  let field := c_p E in
  if x >=? field then Ok (0, None) else
  match c_lift E x (recid mod 2 =? 1) with
  | None => Ok (0, None)
  | Some R =>
      if check && negb (c_is_zero E (c_mul E order R)) then Ok (0, None) else
      let e := be_dec msg in
      let e := if 8 * lenZ msg >? degree then Z.shiftr e (8 - Z.land degree 7) else e in
      let e := (0 - e) mod order in                 (* BN_mod_sub(e, zero, e, order) *)
      let rr := inv_mod r order in                  (* BN_mod_inverse *)
      if rr =? 0 then Ok (-1, None) else
      let sor := (s * rr) mod order in
      let eor := (e * rr) mod order in
      Ok (1, Some (c_add E (c_mul E eor g) (c_mul E sor R)))
  end.

(* for i in range(lo, hi): ... if result == 1 and keys equal: return i *)
Fixpoint recid_search (fuel : nat) (i hi : Z) (r_val s_val hash mine : bytes) : res Z :=
  match fuel with
  | O => Err ValueError
  | S f =>
      if hi <=? i then Err ValueError else
      do rc <- cec_recover r_val s_val hash i true;
      match rc with
      | (result, Some Q) =>                          (* cec_key now holds Q *)
          if (result =? 1) && bytes_eqb (sec1_enc E Compressed Q) mine then Ok i
          else recid_search f (i + 1) hi r_val s_val hash mine
      | (_, None) => recid_search f (i + 1) hi r_val s_val hash mine
      end
  end.

(* ((b'\x00' * 32) + v)[-32:] after the assert on the length *)
Definition pad32 (v : bytes) : res bytes :=
  if (lenZ v <=? 32) || bytes_eqb (py_slice v (Some 0) (Some (-32))) [x00]
  then Ok (py_slice (zeros 32 ++ v) (Some (-32)) None)
  else Err AssertionError.

Definition cec_sign_compact (d : Z) (hash : bytes) (k : Z) : res (bytes * Z) :=
  if negb (lenZ hash =? 32) then Err ValueError else
  let sig0 := ossl_sign d hash k in
  do low <- is_low_der sig0;
  do sig <- (if low then Ok sig0 else signature_to_low_s sig0);
  do rs <- der_sig_deserialize sig;
  do r_val <- pad32 (fst rs);
  do s_val <- pad32 (snd rs);
  let mine := sec1_enc E Compressed (pub E d) in
  do i <- recid_search (Z.to_nat (sc_recid_hi - sc_recid_lo)) sc_recid_lo sc_recid_hi r_val s_val hash mine;
  Ok (r_val ++ s_val, i).

(* CPubKey.recover_compact: None = "return False" *)
Definition recover_compact (hash sig : bytes) : res (option (bool * pt E)) :=
  if negb (lenZ sig =? rc_sig_len) then Err ValueError else
  do b0 <- py_getitem sig 0;
  let recid := Z.land (b2z b0 - rc_base) rc_recid_mask in
  let compressed := negb (Z.land (b2z b0 - rc_base) rc_comp_mask =? 0) in
  let sigR := py_slice sig (Some rc_r_lo) (Some rc_r_hi) in
  let sigS := py_slice sig (Some rc_s_lo) (Some rc_s_hi) in
  do rc <- cec_recover sigR sigS hash recid false;
  match rc with
  | (code, Some Q) => if code <? 1 then Ok None else Ok (Some (compressed, Q))
  | (_, None) => Ok None
  end.

(* ---------- bitcoin/wallet.py: CKey / CBitcoinSecret ---------- *)
Variable H : bytes -> bytes.                        (* bitcoin.core.Hash *)
(* CBitcoinSecret.__init__ on the object (nVersion, payload): (secret, compressed) *)
Definition secret_init (prefix : Z) (obj : Z * bytes) : res (bytes * bool) :=
  let '(nVersion, payload) := obj in
  if negb (nVersion =? prefix) then Err SecretErr else
  let secret := py_slice payload (Some 0) (Some 32) in
  let compressed := (lenZ payload >? 32) &&
                    match py_getitem payload 32 with Ok b => b2z b =? 1 | Err _ => false end in
  if negb (lenZ secret =? 32) then Err ValueError    (* CECKey.set_secretbytes *)
  else Ok (secret, compressed).
(* CBitcoinSecret(s) *)
Definition secret_parse (prefix : Z) (s : text) : res (bytes * bool) :=
  do obj <- check_decode H s; secret_init prefix obj.
(* str(CBitcoinSecret.from_secret_bytes(secret, compressed)) *)
Definition secret_text (prefix : Z) (secret : bytes) (compressed : bool) : res text :=
  do obj <- from_bytes (secret ++ (if compressed then [x01] else [])) prefix;
  do _ <- secret_init prefix obj;
  to_str H obj.

(* ---------- bitcoin/signmessage.py ---------- *)
(* BitcoinMessage.serialize(); magic and message are the utf-8 encodings made in __init__ *)
Definition message_serialize (magic message : bytes) : bytes :=
  Codec.enc bytes_ser magic ++ Codec.enc bytes_ser message.
Definition message_hash (magic message : bytes) : bytes := H (message_serialize magic message).

(* SignMessage before base64: bytes([meta]) + sig *)
Definition sign_message (d : Z) (compressed : bool) (hash : bytes) (k : Z) : res bytes :=
  do sc <- cec_sign_compact d hash k;
  let '(sig, i) := sc in
  let meta := signmsg_base + i in
  let is_compressed := pk_is_compressed (sec1_enc E (form_of compressed) (pub E d)) in
  let meta := if is_compressed then meta + signmsg_compressed_add else meta in
  if (0 <=? meta) && (meta <? 256) then Ok (z2b meta :: sig) else Err ValueError.

(* VerifyMessage after base64; H160 = bitcoin.core.Hash160, address = str(address) *)
Variable H160 : bytes -> bytes.
Fixpoint text_eqb (a b : text) : bool :=
  match a, b with
  | [], [] => true
  | x :: a', y :: b' => (x =? y) && text_eqb a' b'
  | _, _ => false
  end.
Definition verify_message (pubkey_addr : Z) (address : text) (hash sig : bytes) : res bool :=
  do rc <- recover_compact hash sig;
  match rc with
  | None => Err TypeError                           (* P2PKHBitcoinAddress.from_pubkey(False) *)
  | Some (compressed, Q) =>
      let pubkey := sec1_enc E (form_of compressed) Q in
      do s <- to_text H pubkey_addr (H160 pubkey);
      Ok (text_eqb s address)
  end.
End Key.
