(* Model/Bloom.v – bitcoin/bloom.py (tree after the F17 fix): _ROTL32, MurmurHash3,
   CBloomFilter.__init__ / bloom_hash / insert / contains / stream_(de)serialize, and the
   VarInt / Bytes serialisers of bitcoin/core/serialize.py it uses.
   Code style: the same control flow, unbounded Python integers with masks exactly where the
   code masks, every partial operation (assert, index, struct, %, int()) an explicit Err.
   Every numeric literal of the hash / schedule comes from Gen/Bloom.v (regenerated). *)
From Coq Require Import QArith.
From BV Require Import Common.Base Gen.Core Gen.Bloom.
Open Scope Z_scope.

(* ---------- Python sequence primitives ---------- *)
(* index normalisation of seq[i] (negative indices count from the end) *)
Definition py_norm (n i : Z) : res Z :=
  let i' := if i <? 0 then i + n else i in
  if (0 <=? i') && (i' <? n) then Ok i' else Err IndexError.
(* bytes[i] / bytearray[i] -> int *)
Definition ba_get (d : bytes) (i : Z) : res Z :=
  do k <- py_norm (lenZ d) i;
  match nth_error d (Z.to_nat k) with Some b => Ok (b2z b) | None => Err IndexError end.
(* table[i] for a bytearray given as its list of ints *)
Definition tbl_get (t : list Z) (i : Z) : res Z :=
  do k <- py_norm (lenZ t) i;
  match nth_error t (Z.to_nat k) with Some v => Ok v | None => Err IndexError end.
Fixpoint upd (d : bytes) (k : nat) (b : byte) : bytes :=
  match d, k with
  | [], _ => []
  | _ :: t, O => b :: t
  | x :: t, S k' => x :: upd t k' b
  end.
(* bytearray[i] = v : IndexError first, then ValueError unless v in range(256) *)
Definition ba_set (d : bytes) (i v : Z) : res bytes :=
  do k <- py_norm (lenZ d) i;
  if (0 <=? v) && (v <? 256) then Ok (upd d (Z.to_nat k) (z2b v)) else Err ValueError.
(* s[a:b] for 0 <= a <= b (clamped at len(s) like Python) *)
Definition slice (d : bytes) (a b : Z) : bytes := firstn (Z.to_nat (b - a)) (skipn (Z.to_nat a) d).
(* struct.unpack("<L", s)[0] *)
Definition unpack_block (s : bytes) : res Z :=
  if lenZ s =? murmur_block_bytes then Ok (le_dec s) else Err StructError.

(* ---------- _ROTL32 ---------- *)
Definition ROTL32 (x r : Z) : res Z :=
  if x <=? rotl_assert_max
  then Ok (Z.lor (Z.land (Z.shiftl x r) rotl_mask) (Z.shiftr x (rotl_width - r)))
  else Err AssertionError.

(* ---------- MurmurHash3 ---------- *)
(* the `while` loop; fuel = an upper bound of the number of iterations *)
Fixpoint murmur_body (fuel : nat) (d : bytes) (i h1 : Z) : res Z :=
  match fuel with
  | O => Err OutOfFuel
  | S fuel' =>
      if (i <? lenZ d - lenZ d mod 4) && (lenZ d - i >=? 4) then
        do k1 <- unpack_block (slice d i (i + 4));
        let k1 := Z.land (k1 * murmur_c1) murmur_mask in
        do k1 <- ROTL32 k1 murmur_rot_k_body;
        let k1 := Z.land (k1 * murmur_c2) murmur_mask in
        let h1 := Z.lxor h1 k1 in
        do h1 <- ROTL32 h1 murmur_rot_h_body;
        let h1 := Z.land (Z.land (h1 * murmur_h_mult) murmur_mask + murmur_h_add) murmur_mask in
        murmur_body fuel' d (i + 4) h1
      else Ok h1
  end.

(* the three `if len & 3 >= n` statements *)
Definition murmur_tail (d : bytes) : res Z :=
  let k1 := 0 in
  let j := (lenZ d / 4) * 4 in
  do k1 <- (if Z.land (lenZ d) 3 >=? 3
            then do b <- ba_get d (j + 2); Ok (Z.lxor k1 (Z.shiftl b murmur_tail_shift2)) else Ok k1);
  do k1 <- (if Z.land (lenZ d) 3 >=? 2
            then do b <- ba_get d (j + 1); Ok (Z.lxor k1 (Z.shiftl b murmur_tail_shift1)) else Ok k1);
  do k1 <- (if Z.land (lenZ d) 3 >=? 1
            then do b <- ba_get d j; Ok (Z.lxor k1 b) else Ok k1);
  Ok k1.

Definition MurmurHash3 (nHashSeed : Z) (d : bytes) : res Z :=
  if nHashSeed <=? murmur_seed_max then
    let h1 := nHashSeed in
    do h1 <- murmur_body (S (length d)) d 0 h1;
    do k1 <- murmur_tail d;
    let k1 := Z.land k1 murmur_mask in
    let k1 := Z.land (k1 * murmur_c1) murmur_mask in
    do k1 <- ROTL32 k1 murmur_rot_k_tail;
    let k1 := Z.land (k1 * murmur_c2) murmur_mask in
    let h1 := Z.lxor h1 k1 in
    (* finalisation: only the shifted operand is masked, the products grow unboundedly *)
    let h1 := Z.lxor h1 (Z.land (lenZ d) murmur_mask) in
    let h1 := Z.lxor h1 (Z.shiftr (Z.land h1 murmur_mask) murmur_fmix_shift1) in
    let h1 := h1 * murmur_fmix_mul1 in
    let h1 := Z.lxor h1 (Z.shiftr (Z.land h1 murmur_mask) murmur_fmix_shift2) in
    let h1 := h1 * murmur_fmix_mul2 in
    let h1 := Z.lxor h1 (Z.shiftr (Z.land h1 murmur_mask) murmur_fmix_shift3) in
    Ok (Z.land h1 murmur_mask)
  else Err AssertionError.

(* ---------- CBloomFilter ---------- *)
Record filter := mkFilter { vData : bytes; nHashFuncs : Z; nTweak : Z; nFlags : Z }.
Definition with_data (f : filter) (d : bytes) : filter :=
  mkFilter d (nHashFuncs f) (nTweak f) (nFlags f).

(* elements: bytes, or a COutPoint (insert/contains call elem.serialize() on it).
   COutPoint.__init__ raises ValueError unless len(hash) == 32 and 0 <= n <= 0xffffffff;
   serialisation is hash ++ "<I" n *)
Inductive elem := EBytes (b : bytes) | EOutPoint (h : bytes) (n : Z).
Definition elem_bytes (e : elem) : res bytes :=
  match e with
  | EBytes b => Ok b
  | EOutPoint h n =>
      if negb (length h =? 32)%nat then Err ValueError
      else if negb ((0 <=? n) && (n <=? 0xffffffff)) then Err ValueError
      else Ok (h ++ le_enc 4 n)
  end.

Definition bloom_hash (f : filter) (nHashNum : Z) (e : bytes) : res Z :=
  do h <- MurmurHash3 (Z.land (nHashNum * bloom_hash_mult + nTweak f) bloom_hash_mask) e;
  let m := lenZ (vData f) * bloom_bits_per_byte in
  if m =? 0 then Err ZeroDivision else Ok (h mod m).

(* for i in range(0, nHashFuncs): n iterations left, current i *)
Fixpoint insert_loop (n : nat) (i : Z) (f : filter) (e : bytes) : res filter :=
  match n with
  | O => Ok f
  | S n' =>
      do nIndex <- bloom_hash f i e;
      do old <- ba_get (vData f) (Z.shiftr nIndex insert_index_shift);
      do m <- tbl_get bit_mask_table (Z.land insert_bit_and nIndex);
      do d' <- ba_set (vData f) (Z.shiftr nIndex insert_index_shift) (Z.lor old m);
      insert_loop n' (i + 1) (with_data f d') e
  end.

Definition is_full (f : filter) : res bool :=
  if lenZ (vData f) =? 1 then do b <- ba_get (vData f) 0; Ok (b =? 0xff) else Ok false.

Definition insert (f : filter) (e : bytes) : res filter :=
  if lenZ (vData f) =? 0 then Ok f                         (* `if not self.vData: return` (F17 fix) *)
  else do full <- is_full f;
       if full then Ok f
       else insert_loop (Z.to_nat (nHashFuncs f)) 0 f e.

Fixpoint contains_loop (n : nat) (i : Z) (f : filter) (e : bytes) : res bool :=
  match n with
  | O => Ok true
  | S n' =>
      do nIndex <- bloom_hash f i e;
      do b <- ba_get (vData f) (Z.shiftr nIndex contains_index_shift);
      do m <- tbl_get bit_mask_table (Z.land contains_bit_and nIndex);
      if Z.land b m =? 0 then Ok false else contains_loop n' (i + 1) f e
  end.

Definition contains (f : filter) (e : bytes) : res bool :=
  if lenZ (vData f) =? 0 then Ok true                      (* `if not self.vData: return True` (F17 fix) *)
  else do full <- is_full f;
       if full then Ok true
       else contains_loop (Z.to_nat (nHashFuncs f)) 0 f e.

Definition insert_elem (f : filter) (e : elem) : res filter := do b <- elem_bytes e; insert f b.
Definition contains_elem (f : filter) (e : elem) : res bool := do b <- elem_bytes e; contains f b.

(* ---------- __init__: sizing ----------
   The two float expressions
       -1 / LN2SQUARED * nElements * math.log(nFPRate)       and
       len(self.vData) * 8 / nElements * LN2
   are not computed here: their values are inputs (math.log has no Coq counterpart; the
   caps are proved for EVERY value they can take).  A Python float is a rational, +-inf or
   nan.  What is modelled is what the code does with them: min(x, CAP), `/ 8`, int(),
   bytearray(n). *)
Inductive fval := FFin (q : Q) | FPosInf | FNegInf | FNaN.
(* min(x, cap) with cap an int: Python returns x unless cap < x *)
Definition py_min_cap (x : fval) (cap : Z) : fval :=
  match x with
  | FFin q => if Qle_bool q (inject_Z cap) then x else FFin (inject_Z cap)
  | FPosInf => FFin (inject_Z cap)
  | FNegInf => FNegInf
  | FNaN => FNaN
  end.
(* x / 8 (exact on binary floats up to underflow, which truncates to 0 either way) *)
Definition fdiv8 (x : fval) : fval :=
  match x with FFin q => FFin (Qmake (Qnum q) (Qden q * 8)) | _ => x end.
(* int(x): truncation toward zero; ValueError on nan, OverflowError (OtherErr) on inf *)
Definition py_int (x : fval) : res Z :=
  match x with
  | FFin q => Ok (Z.quot (Qnum q) (Zpos (Qden q)))
  | FNaN => Err ValueError
  | _ => Err OtherErr
  end.

Section Ctor.
  (* value of the first expression (Err: math.log raised / int too large for a float) *)
  Variable fsize : res fval.
  (* value of the second expression as a function of len(self.vData)
     (Err ZeroDivision when nElements = 0) *)
  Variable fhash : Z -> res fval.

  Definition ctor (tweak flags : Z) : res filter :=
    do x <- fsize;
    do n <- py_int (fdiv8 (py_min_cap x (MAX_BLOOM_FILTER_SIZE * 8)));
    if n <? 0 then Err ValueError                           (* bytearray(negative) *)
    else
      let d := zeros (Z.to_nat n) in
      do y <- fhash (lenZ d);
      do k <- py_int (py_min_cap y MAX_HASH_FUNCS);
      Ok (mkFilter d k tweak flags).
End Ctor.

(* ---------- serialisation ---------- *)
(* struct.pack of one unsigned little-endian field of w bytes *)
Definition pack_u (w : nat) (v : Z) : res bytes :=
  if (0 <=? v) && (v <? 256 ^ Z.of_nat w) then Ok (le_enc w v) else Err StructError.
Fixpoint pack_fields (ws : list nat) (vs : list Z) : res bytes :=
  match ws, vs with
  | [], [] => Ok []
  | w :: ws', v :: vs' => do a <- pack_u w v; do b <- pack_fields ws' vs'; Ok (a ++ b)
  | _, _ => Err StructError
  end.
Fixpoint unpack_fields (ws : list nat) (s : bytes) : list Z :=
  match ws with
  | [] => []
  | w :: ws' => le_dec (firstn w s) :: unpack_fields ws' (skipn w s)
  end.

(* ser_read(f, n) on the unread rest of the stream *)
Definition ser_read (s : bytes) (n : Z) : res (bytes * bytes) :=
  if n >? MAX_SIZE then Err SerErr
  else let r := firstn (Z.to_nat n) s in
       if lenZ r <? n then Err Trunc else Ok (r, skipn (Z.to_nat n) s).

Definition varint_ser (i : Z) : res bytes :=
  if i <? 0 then Err ValueError
  else if i <? 0xfd then Ok [z2b i]
  else if i <=? 0xffff then do b <- pack_u 2 i; Ok (xfd :: b)
  else if i <=? 0xffffffff then do b <- pack_u 4 i; Ok (xfe :: b)
  else do b <- pack_u 8 i; Ok (xff :: b).

Definition varint_deser (s : bytes) : res (Z * bytes) :=
  do (b, s1) <- ser_read s 1;
  do r <- ba_get b 0;
  if r <? 0xfd then Ok (r, s1)
  else if r =? 0xfd then do (w, s2) <- ser_read s1 2; Ok (le_dec w, s2)
  else if r =? 0xfe then do (w, s2) <- ser_read s1 4; Ok (le_dec w, s2)
  else do (w, s2) <- ser_read s1 8; Ok (le_dec w, s2).

Definition bytes_ser (b : bytes) : res bytes := do l <- varint_ser (lenZ b); Ok (l ++ b).
Definition bytes_deser (s : bytes) : res (bytes * bytes) :=
  do (l, s1) <- varint_deser s; ser_read s1 l.

(* CBloomFilter.stream_serialize, then Serializable.serialize *)
Definition filter_serialize (f : filter) : res bytes :=
  do a <- bytes_ser (vData f);
  do b <- pack_fields bloom_struct_widths [nHashFuncs f; nTweak f; nFlags f];
  Ok (a ++ b).

(* CBloomFilter.stream_deserialize (the throw-away `cls(1, 0.01, 0, UPDATE_ALL)` always
   succeeds and all four of its fields are overwritten) *)
Definition filter_stream_deserialize (s : bytes) : res (filter * bytes) :=
  do (d, s1) <- bytes_deser s;
  do (t, s2) <- ser_read s1 bloom_struct_size;
  match unpack_fields bloom_struct_widths t with
  | [h; tw; fl] => Ok (mkFilter d h tw fl, s2)
  | _ => Err StructError
  end.
(* Serializable.deserialize(buf): extra data is an error *)
Definition filter_deserialize (s : bytes) : res filter :=
  do (f, rest) <- filter_stream_deserialize s;
  match rest with [] => Ok f | _ => Err ExtraData end.

(* ---------- histories ---------- *)
Inductive op := OInsert (e : elem) | OContains (e : elem) | ORoundTrip.
(* one operation: the new filter object and the observable answer
   (insert: None -> 0, contains: bool, round trip: 0); an exception leaves the filter as it was.
   (In Python an exception raised in the middle of insert's loop would leave the bytearray
   partially updated; insert is proved never to raise – Proofs/Bloom.v insert_total – so that
   case does not exist for the code as it is.) *)
Definition step (f : filter) (o : op) : filter * res Z :=
  match o with
  | OInsert e => match insert_elem f e with Ok f' => (f', Ok 0) | Err x => (f, Err x) end
  | OContains e => (f, match contains_elem f e with Ok b => Ok (if b then 1 else 0) | Err x => Err x end)
  | ORoundTrip =>
      match filter_serialize f with
      | Ok w => match filter_deserialize w with Ok f' => (f', Ok 0) | Err x => (f, Err x) end
      | Err x => (f, Err x)
      end
  end.
Fixpoint run_ops (f : filter) (ops : list op) : filter * list (res Z) :=
  match ops with
  | [] => (f, [])
  | o :: r => let '(f1, a) := step f o in let '(f2, l) := run_ops f1 r in (f2, a :: l)
  end.
