(* Model/Compact.v – bitcoin/core/serialize.py: uint256_from_compact, compact_from_uint256,
   uint256_from_str; bitcoin/core/__init__.py: CheckProofOfWork.  Code style: the same
   masks, shifts and branches as the Python. *)
From BV Require Import Common.Base.

(* Python int.bit_length (for v >= 0) *)
Definition bit_length (v : Z) : Z := if v =? 0 then 0 else Z.log2 v + 1.

Definition from_compact (c : Z) : Z :=
  let nbytes := Z.land (Z.shiftr c 24) 0xFF in
  if nbytes <=? 3 then Z.shiftr (Z.land c 0xFFFFFF) (8 * (3 - nbytes))
  else Z.shiftl (Z.land c 0xFFFFFF) (8 * (nbytes - 3)).

Definition to_compact (v : Z) : Z :=
  let nbytes := Z.shiftr (bit_length v + 7) 3 in
  let compact := if nbytes <=? 3 then Z.shiftl (Z.land v 0xFFFFFF) (8 * (3 - nbytes))
                 else Z.land (Z.shiftr v (8 * (nbytes - 3))) 0xFFFFFF in
  let '(compact, nbytes) := if negb (Z.land compact 0x800000 =? 0)
                            then (Z.shiftr compact 8, nbytes + 1) else (compact, nbytes) in
  Z.lor compact (Z.shiftl nbytes 24).

(* struct.unpack("<IIIIIIII", s[:32]) then sum of t[i] << 32 i *)
Definition uint256_from_str (s : bytes) : res Z :=
  let s32 := firstn 32 s in
  if (length s32 =? 32)%nat then Ok (le_dec s32) else Err StructError.

(* CheckProofOfWork(hash, nBits) under coreparams.PROOF_OF_WORK_LIMIT = limit *)
Definition check_pow (limit : Z) (hash : bytes) (nBits : Z) : res unit :=
  let target := from_compact nBits in
  if negb (Z.land nBits 0x800000 =? 0) || negb ((0 <? target) && (target <=? limit))
  then Err CheckPowErr
  else do h <- uint256_from_str hash;
       if h >? target then Err CheckPowErr else Ok tt.
