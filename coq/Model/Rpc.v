(* Model/Rpc.v – bitcoin/rpc.py (BaseProxy.__init__/_call/_batch/_get_response,
   JSONRPCError.__new__, the Proxy wrappers that convert amounts, hashes and serialised
   objects) and x / b2x / lx / b2lx of bitcoin/core/__init__.py.  Code style: what the
   Python does, step by step, including what CPython's json, decimal and float do on the
   way (scanner of the JSON number grammar, Decimal(text), Decimal * int under the default
   28-digit ROUND_HALF_EVEN context, int() truncation, float(int), binary64 division,
   shortest round-trip repr).

   Conventions: a Python `str` is the list of its UTF-8 bytes ([text]); a JSON value on the
   wire is a tree whose numbers are the literal number texts; a reply is what the injected
   connection object does when asked.  The registry of error classes, the literal codes
   -342..-345 and COIN come from the regenerated Gen/Rpc.v. *)
From BV Require Import Common.Base Gen.Rpc.
Require Coq.Strings.String.
Import String.StringSyntax.
Delimit Scope string_scope with string.

Definition text := bytes.
Notation T s := (String.list_byte_of_string s%string) (only parsing).
Definition is_nil {A} (l : list A) : bool := match l with [] => true | _ => false end.

(* ====================================================================================
   1. hex and byte order   (binascii.hexlify / unhexlify, [::-1])
   ==================================================================================== *)
Definition hexval (c : byte) : option Z :=
  let v := b2z c in
  if (48 <=? v) && (v <=? 57) then Some (v - 48)
  else if (97 <=? v) && (v <=? 102) then Some (v - 87)
  else if (65 <=? v) && (v <=? 70) then Some (v - 55)
  else None.

(* binascii.unhexlify: odd length or a non-hex character -> binascii.Error (a ValueError) *)
Fixpoint unhexlify (t : text) : res bytes :=
  match t with
  | [] => Ok []
  | [_] => Err ValueError
  | h :: l :: r =>
      match hexval h, hexval l with
      | Some a, Some b => do rest <- unhexlify r; Ok (z2b (16 * a + b) :: rest)
      | _, _ => Err ValueError
      end
  end.

Definition hexdigit (v : Z) : byte := z2b (if v <? 10 then 48 + v else 87 + v).
Fixpoint hexlify (b : bytes) : text :=
  match b with
  | [] => []
  | c :: r => hexdigit (b2z c / 16) :: hexdigit (b2z c mod 16) :: hexlify r
  end.

Definition py_x (h : text) : res bytes := unhexlify h.
Definition py_b2x (b : bytes) : text := hexlify b.
Definition py_lx (h : text) : res bytes := do b <- unhexlify h; Ok (rev b).
Definition py_b2lx (b : bytes) : text := hexlify (rev b).

(* ====================================================================================
   2. JSON numbers as CPython reads them
   ==================================================================================== *)
Definition is_digit (c : byte) : bool := let v := b2z c in (48 <=? v) && (v <=? 57).
Fixpoint span_digits (t : text) : text * text :=
  match t with
  | c :: r => if is_digit c then let (d, r') := span_digits r in (c :: d, r') else ([], t)
  | [] => ([], [])
  end.
(* int("digits") *)
Definition digits_val (ds : text) : Z := fold_left (fun acc c => 10 * acc + (b2z c - 48)) ds 0.

(* a Python number produced by json.loads(..., parse_float=decimal.Decimal):
   int, or Decimal with sign, coefficient and exponent (value = +-coef * 10^exp) *)
Inductive pynum := PInt (z : Z) | PDec (neg : bool) (coef exp : Z).

(* json.scanner NUMBER_RE: optional '-', then '0' or a non-zero digit followed by digits,
   then optionally '.' and one or more digits, then optionally 'e' or 'E', an optional
   sign and one or more digits; the token must be
   matched completely (what follows a number inside a document is never one of the
   characters 0-9 + - . e E, so a text over these characters that is not matched
   completely makes the whole document invalid) *)
Definition scan_sign (t : text) : bool * text :=
  match t with c :: r => if b2z c =? 45 then (true, r) else (false, t) | [] => (false, t) end.
Definition scan_frac (t : text) : option (option text * text) :=
  match t with
  | c :: r => if b2z c =? 46
              then match span_digits r with ([], _) => None | (f, r') => Some (Some f, r') end
              else Some (None, t)
  | [] => Some (None, [])
  end.
Definition scan_exp (t : text) : option (option Z * text) :=
  match t with
  | c :: r =>
      if (b2z c =? 101) || (b2z c =? 69) then
        let (sg, r1) := match r with
                        | s :: r' => if b2z s =? 45 then (true, r') else if b2z s =? 43 then (false, r') else (false, r)
                        | [] => (false, r) end in
        match span_digits r1 with
        | ([], _) => None
        | (ds, r2) => Some (Some (if sg then - digits_val ds else digits_val ds), r2)
        end
      else Some (None, t)
  | [] => Some (None, [])
  end.

Definition scan_number (t : text) : option pynum :=
  let (neg, t1) := scan_sign t in
  let (ip, t2) := span_digits t1 in
  match ip with
  | [] => None
  | d0 :: ip' =>
      if (b2z d0 =? 48) && negb (is_nil ip') then None else
      match scan_frac t2 with
      | None => None
      | Some (fp, t3) =>
          match scan_exp t3 with
          | None => None
          | Some (ex, t4) =>
              if negb (is_nil t4) then None else
              match fp, ex with
              | None, None => Some (PInt (if neg then - digits_val ip else digits_val ip))   (* int(text) *)
              | _, _ =>                                                                     (* Decimal(text) *)
                  let f := match fp with Some f => f | None => [] end in
                  let e := match ex with Some e => e | None => 0 end in
                  Some (PDec neg (digits_val (ip ++ f)) (e - lenZ f))
              end
          end
      end
  end.

(* ---------- decimal arithmetic: Decimal * int, context prec=28 ROUND_HALF_EVEN, int() ---- *)
Fixpoint ndigits_f (fuel : nat) (c : Z) : Z :=
  match fuel with
  | O => 0
  | S f => if c <? 10 then 1 else 1 + ndigits_f f (c / 10)
  end.
(* number of decimal digits of c > 0 (0 for c <= 0) *)
Definition ndigits (c : Z) : Z := if c <=? 0 then 0 else ndigits_f (S (Z.to_nat (Z.log2 c))) c.

Definition DEC_PREC : Z := 28.
Definition DEC_EMAX : Z := 999999.

(* Context rounding of a positive coefficient to DEC_PREC digits, half-even; a carry out of
   99..9 is renormalised *)
Definition dec_round (coef exp : Z) : Z * Z :=
  let n := ndigits coef in
  if n <=? DEC_PREC then (coef, exp) else
  let k := n - DEC_PREC in
  let p := 10 ^ k in
  let q := coef / p in
  let r := coef mod p in
  let q' := if (2 * r >? p) || ((2 * r =? p) && Z.odd q) then q + 1 else q in
  if q' =? 10 ^ DEC_PREC then (10 ^ (DEC_PREC - 1), exp + k + 1) else (q', exp + k).

(* int(Decimal(neg, coef, exp) * n) for an int n.  decimal.Overflow (trap enabled in the
   default context) when the adjusted exponent exceeds Emax; underflow is not trapped and
   can only produce values that truncate to 0. *)
Definition dec_mul_int_to_int (neg : bool) (coef exp : Z) (n : Z) : res Z :=
  let neg' := xorb neg (n <? 0) in
  let '(c, e) := dec_round (coef * Z.abs n) exp in
  if c =? 0 then Ok 0 else
  if e + ndigits c - 1 >? DEC_EMAX then Err OtherErr else
  let v := if 0 <=? e then c * 10 ^ e else c / 10 ^ (- e) in
  Ok (if neg' then - v else v).

(* Decimal == int / int == int, as dict lookup compares keys (numerically exact) *)
Definition pynum_eq_int (p : pynum) (k : Z) : bool :=
  match p with
  | PInt z => z =? k
  | PDec neg c e => let s := if neg then - c else c in
                    if 0 <=? e then s * 10 ^ e =? k else s =? k * 10 ^ (- e)
  end.

(* ====================================================================================
   3. JSON values received, replies of the connection
   ==================================================================================== *)
Inductive json :=
| JNull | JBool (b : bool) | JNum (t : text) | JStr (s : text)
| JArr (l : list json) | JObj (l : list (text * json)).

(* every number token of the document matches the grammar (otherwise json.loads raises) *)
Fixpoint json_ok (j : json) : bool :=
  match j with
  | JNum t => match scan_number t with Some _ => true | None => false end
  | JArr l => forallb json_ok l
  | JObj l => forallb (fun kv => match kv with (_, v) => json_ok v end) l
  | _ => true
  end.

(* dict built by json.loads from an object: the last binding of a key wins *)
Fixpoint obj_get (k : text) (l : list (text * json)) : option json :=
  match l with
  | [] => None
  | (k', v) :: r =>
      match obj_get k r with
      | Some x => Some x
      | None => if bytes_eqb k k' then Some v else None
      end
  end.

(* bytes.decode('utf8') succeeds (strict decoder: no overlong forms, no surrogates, <= U+10FFFF) *)
Definition cont (c : byte) : bool := let v := b2z c in (128 <=? v) && (v <=? 191).
Fixpoint utf8_valid_f (fuel : nat) (b : bytes) : bool :=
  match fuel with
  | O => is_nil b
  | S f =>
      match b with
      | [] => true
      | c :: r =>
          let v := b2z c in
          if v <? 128 then utf8_valid_f f r
          else if (194 <=? v) && (v <=? 223) then
            match r with c1 :: r' => cont c1 && utf8_valid_f f r' | _ => false end
          else if (224 <=? v) && (v <=? 239) then
            match r with
            | c1 :: c2 :: r' =>
                let v1 := b2z c1 in
                cont c1 && cont c2 &&
                (if v =? 224 then 160 <=? v1 else if v =? 237 then v1 <=? 159 else true) &&
                utf8_valid_f f r'
            | _ => false end
          else if (240 <=? v) && (v <=? 244) then
            match r with
            | c1 :: c2 :: c3 :: r' =>
                let v1 := b2z c1 in
                cont c1 && cont c2 && cont c3 &&
                (if v =? 240 then 144 <=? v1 else if v =? 244 then v1 <=? 143 else true) &&
                utf8_valid_f f r'
            | _ => false end
          else false
      end
  end.
Definition utf8_valid (b : bytes) : bool := utf8_valid_f (length b) b.

(* what the injected connection does for one call *)
Inductive reply :=
| RequestFails                 (* connection.request(...) raises (OSError family) *)
| ResponseFails                (* connection.getresponse() raises *)
| NoResponse                   (* getresponse() returns None *)
| NonJsonBody (b : bytes)      (* a body on which json.loads raises (not a JSON document) *)
| JsonBody (j : json).         (* a body that is the rendering of j (strings valid UTF-8) *)

(* ====================================================================================
   4. JSONRPCError.__new__ : dispatch through SUBCLS_BY_CODE
   ==================================================================================== *)
(* the value stored as error['code'] (hashable Python values a code can be) *)
Inductive codeval := CNum (p : pynum) | CBool (b : bool) | CStr (s : text) | CNull.

(* SUBCLS_BY_CODE.get(code, cls): dict lookup = first key equal to the code; keys are ints.
   None = the base class JSONRPCError, Some c = the class registered under c. *)
Definition code_matches (code : codeval) (k : Z) : bool :=
  match code with
  | CNum p => pynum_eq_int p k
  | CBool b => (if b then 1 else 0) =? k      (* True == 1, False == 0 and equal hashes *)
  | CStr _ | CNull => false
  end.
Definition class_of (table : list Z) (code : codeval) : option Z := find (code_matches code) table.

Inductive outcome (A : Type) :=
| Result (a : A)                               (* the call returns a *)
| Raised (cls : option Z) (code : codeval)     (* JSONRPCError family: class, .error['code'] *)
| Failed (e : exn).                            (* any other exception *)
Arguments Result {A}. Arguments Raised {A}. Arguments Failed {A}.

Definition raise_rpc {A} (code : codeval) : outcome A := Raised (class_of RPC_SUBCLS_CODES code) code.
Definition raise_int {A} (c : Z) : outcome A := raise_rpc (CNum (PInt c)).
(* the code taken from the reply: a list / dict is unhashable -> TypeError out of dict.get *)
Definition raise_json {A} (c : json) : outcome A :=
  match c with
  | JNum t => match scan_number t with Some p => raise_rpc (CNum p) | None => Failed OtherErr end
  | JBool b => raise_rpc (CBool b)
  | JStr s => raise_rpc (CStr s)
  | JNull => raise_rpc CNull
  | JArr _ | JObj _ => Failed TypeError
  end.

(* BaseProxy._get_response followed by the error handling of BaseProxy._call *)
Definition call_outcome (r : reply) : outcome json :=
  match r with
  | RequestFails | ResponseFails => Failed OtherErr
  | NoResponse => raise_int RPC_ERR_NO_RESPONSE
  | NonJsonBody b => if utf8_valid b then raise_int RPC_ERR_NON_JSON else Failed ValueError
  | JsonBody j =>
      if negb (json_ok j) then raise_int RPC_ERR_NON_JSON else
      match j with
      | JObj fields =>
          match obj_get (T "error") fields with
          | None | Some JNull =>
              match obj_get (T "result") fields with
              | Some v => Result v
              | None => raise_int RPC_ERR_MISSING_RESULT
              end
          | Some (JObj ef) =>
              match obj_get (T "code") ef with
              | Some c => raise_json c
              | None => raise_int RPC_ERR_MISSING_CODE
              end
          | Some _ => raise_int RPC_ERR_NON_DICT
          end
      | _ => Failed AttributeError          (* response.get on a non-dict *)
      end
  end.

(* ====================================================================================
   5. amounts
   ==================================================================================== *)
(* receiving: int(r * COIN) for the Python value r of a JSON result *)
Definition amount_of_pynum (p : pynum) : res Z :=
  match p with
  | PInt z => Ok (z * RPC_COIN)
  | PDec neg c e => dec_mul_int_to_int neg c e RPC_COIN
  end.
Definition amount_of_json (v : json) : res Z :=
  match v with
  | JNum t => match scan_number t with Some p => amount_of_pynum p | None => Err OtherErr end
  | JBool b => Ok (if b then RPC_COIN else 0)        (* bool is an int *)
  | JStr _ => Err ValueError                         (* int('ssss...') *)
  | JNull | JArr _ | JObj _ => Err TypeError
  end.

(* sending: float(amount) / COIN.  A finite non-zero binary64 is (neg, m, e) with value
   m * 2^e and 2^52 <= m < 2^53; zero is m = 0.  Only the normal range is modelled
   (quotients of an integer below 2^1024 by COIN never leave it). *)
(* round-to-nearest-even of the positive rational n/d to 53 significant bits *)
(* numerator and denominator of n / (d * 2^e) *)
Definition scale2 (n d e : Z) : Z * Z := (n * 2 ^ Z.max 0 (- e), d * 2 ^ Z.max 0 e).
Definition rn53 (n d : Z) : Z * Z :=
  let e0 := Z.log2 n - Z.log2 d - 52 in            (* 2^51 < n / (d 2^e0) < 2^53 *)
  let e := let (n', d') := scale2 n d e0 in if n' <? d' * 2 ^ 52 then e0 - 1 else e0 in
  let (n', d') := scale2 n d e in                  (* 2^52 <= n'/d' < 2^53 *)
  let q := n' / d' in
  let r := n' mod d' in
  let m := if (2 * r >? d') || ((2 * r =? d') && Z.odd q) then q + 1 else q in
  if m =? 2 ^ 53 then (2 ^ 52, e + 1) else (m, e).

Record f64 := { f_neg : bool; f_m : Z; f_e : Z }.
Definition f64_zero : f64 := {| f_neg := false; f_m := 0; f_e := 0 |}.

(* float(a) for an int a: exact below 2^53, otherwise correctly rounded; OverflowError
   beyond the binary64 range.  Returned as the fraction num/den it denotes. *)
Definition float_of_int_mag (a : Z) : res Z :=
  if a <? 2 ^ 53 then Ok a else
  let (m, e) := rn53 a 1 in
  if e + 53 >? 1024 then Err OtherErr else Ok (m * 2 ^ e).
(* float(a) / COIN *)
Definition float_div_coin (a : Z) : res f64 :=
  if a =? 0 then Ok f64_zero else
  do fa <- float_of_int_mag (Z.abs a);
  let (m, e) := rn53 fa RPC_COIN in
  Ok {| f_neg := a <? 0; f_m := m; f_e := e |}.

(* float.__repr__ (what json.dumps writes): the shortest decimal c * 10^q that rounds back to
   the same binary64, the closest one if there are several of that length. *)
Definition rounds_to (m e c q : Z) : bool :=
  (0 <? c) &&
  let (n, d) := if 0 <=? q then (c * 10 ^ q, 1) else (c, 10 ^ (- q)) in
  let (m', e') := rn53 n d in (m' =? m) && (e' =? e).
(* both neighbours lo*10^q and (lo+1)*10^q of the value round back: the closer one, the even
   one on a tie (dtoa's round-half-even on the last digit) *)
Definition pick_closer (m e q lo : Z) : Z :=
  let (vn, vd) := if 0 <=? e then (m * 2 ^ e, 1) else (m, 2 ^ (- e)) in
  let (l, r) := if 0 <=? q then (2 * vn, (lo + (lo + 1)) * 10 ^ q * vd)
                else (2 * vn * 10 ^ (- q), (lo + (lo + 1)) * vd) in
  if l <? r then lo else if r <? l then lo + 1 else if Z.even lo then lo else lo + 1.
Fixpoint shortest_f (fuel : nat) (m e q : Z) : Z * Z :=
  match fuel with
  | O => (0, 0)
  | S f =>
      let (vn, vd) := if 0 <=? e then (m * 2 ^ e, 1) else (m, 2 ^ (- e)) in
      let lo := if 0 <=? q then vn / (vd * 10 ^ q) else (vn * 10 ^ (- q)) / vd in
      let ok_lo := rounds_to m e lo q in
      let ok_hi := rounds_to m e (lo + 1) q in
      if ok_lo && ok_hi then (pick_closer m e q lo, q)
      else if ok_lo then (lo, q)
      else if ok_hi then (lo + 1, q)
      else shortest_f f m e (q - 1)
  end.
Definition shortest_dec (m e : Z) : Z * Z :=
  let v := if 0 <=? e then m * 2 ^ e else m / 2 ^ (- e) in
  let q0 := ndigits v + 1 in
  shortest_f (Z.to_nat (q0 - Z.min e 0 + 1)) m e q0.

(* the decimal (c, q), value c * 10^q, denoted by the JSON text of float(a)/COIN *)
Definition sent_amount (a : Z) : res (Z * Z) :=
  do f <- float_div_coin a;
  if f_m f =? 0 then Ok (0, 0) else
  let (c, q) := shortest_dec (f_m f) (f_e f) in
  Ok ((if f_neg f then - c else c), q).

(* ====================================================================================
   6. requests, the proxy state, the wrappers
   ==================================================================================== *)
(* JSON values the client sends; a float is carried as the amount it was computed from *)
Inductive jsend :=
| SNull | SBool (b : bool) | SInt (z : Z) | SAmount (a : Z)      (* float(a)/COIN *)
| SStr (s : text) | SArr (l : list jsend) | SObj (l : list (text * jsend)).

Record request := { rq_id : Z; rq_method : text; rq_params : list jsend }.

(* (de)serialisation of transactions, headers and blocks is C01's subject; here an object is
   identified with the bytes it serialises to, and o_x b is "deserialize b, then serialize" *)
Record objs := { o_tx : bytes -> res bytes; o_hdr : bytes -> res bytes; o_blk : bytes -> res bytes }.

Inductive mcall :=
| MCall (name : text) (args : list Z)                   (* Proxy.call(name, *ints) *)
| MBatch (n : Z)                                        (* BaseProxy._batch of n calls *)
| MGetBalance (account : text) (minconf : Z) (watch : bool)
| MGetReceivedByAddress (addr : text) (minconf : Z)
| MGetTxOut (hash : bytes) (n : Z) (mempool : bool)
| MListUnspent (minconf maxconf : Z)
| MSendToAddress (addr : text) (amount : Z)
| MSendMany (from : text) (payments : list (text * Z))
| MGetBlockHash (height : Z)
| MGetBestBlockHash
| MGetBlock (hash : bytes)
| MGetBlockHeader (hash : bytes) (verbose : bool)
| MGetRawTransaction (txid : bytes) (verbose : bool) (block_hash : option bytes)
| MSendRawTransaction (tx : bytes) (allowhighfees : bool)
| MFundRawTransaction (tx : bytes) (include_watching : bool)
| MGetRawMempool.

(* what a wrapper returns, reduced to the converted parts *)
Inductive rval :=
| RJson (j : json)                                        (* returned as parsed *)
| RAmount (z : Z)
| RHash (b : bytes)
| RHashes (l : list bytes)
| RObject (b : bytes)                                     (* CTransaction / CBlockHeader / CBlock *)
| RTxOut (value : Z) (script : bytes) (bestblock : bytes)
| RUnspent (l : list (bytes * Z * bytes * Z))             (* outpoint hash, n, scriptPubKey, amount *)
| RHeaderInfo (nextblockhash : option bytes) (chainwork : bytes)
| RRawTxInfo (tx : bytes) (blockhash : option bytes)
| RFunded (tx : bytes) (fee : Z).

(* method name and positional parameters each wrapper passes to _call *)
Definition request_of (m : mcall) : option (text * list jsend) :=
  match m with
  | MCall name args => Some (name, map SInt args)
  | MBatch _ => None
  | MGetBalance acc mc w => Some (T "getbalance", [SStr acc; SInt mc; SBool w])
  | MGetReceivedByAddress a mc => Some (T "getreceivedbyaddress", [SStr a; SInt mc])
  | MGetTxOut h n mp => Some (T "gettxout", [SStr (py_b2lx h); SInt n; SBool mp])
  | MListUnspent a b => Some (T "listunspent", [SInt a; SInt b])
  | MSendToAddress addr a => Some (T "sendtoaddress", [SStr addr; SAmount a; SStr []; SStr []; SBool false])
  | MSendMany from ps =>
      Some (T "sendmany", [SStr from; SObj (map (fun p => (fst p, SAmount (snd p))) ps); SInt 1; SStr []; SArr []])
  | MGetBlockHash h => Some (T "getblockhash", [SInt h])
  | MGetBestBlockHash => Some (T "getbestblockhash", [])
  | MGetBlock h => Some (T "getblock", [SStr (py_b2lx h); SBool false])
  | MGetBlockHeader h v => Some (T "getblockheader", [SStr (py_b2lx h); SBool v])
  | MGetRawTransaction t v bh =>
      Some (T "getrawtransaction",
            [SStr (py_b2lx t); SInt (if v then 1 else 0)] ++
            match bh with Some b => [SStr (py_b2lx b)] | None => [] end)
  | MSendRawTransaction tx hf =>
      Some (T "sendrawtransaction", [SStr (py_b2x tx)] ++ if hf then [SBool true] else [])
  | MFundRawTransaction tx w => Some (T "fundrawtransaction", [SStr (py_b2x tx); SBool w])
  | MGetRawMempool => Some (T "getrawmempool", [])
  end.

(* helpers for picking apart results *)
Definition lift {A} (r : res A) : outcome A := match r with Ok a => Result a | Err e => Failed e end.
Definition obind {A B} (o : outcome A) (f : A -> outcome B) : outcome B :=
  match o with Result a => f a | Raised c k => Raised c k | Failed e => Failed e end.
(* r[key] *)
Definition subscript (r : json) (k : text) : res json :=
  match r with
  | JObj l => match obj_get k l with Some v => Ok v | None => Err KeyError end
  | _ => Err TypeError
  end.
(* h.encode(...) then unhexlify: a non-str has no .encode *)
Definition str_of (j : json) : res text := match j with JStr s => Ok s | _ => Err AttributeError end.
Definition lx_json (j : json) : res bytes := do s <- str_of j; py_lx s.
Definition x_json (j : json) : res bytes := do s <- str_of j; py_x s.

Fixpoint mapM {A B} (f : A -> res B) (l : list A) : res (list B) :=
  match l with [] => Ok [] | a :: r => do b <- f a; do r' <- mapM f r; Ok (b :: r') end.

(* `except <Cls> as ex: raise IndexError` around _call *)
Definition catch_index {A} (code : Z) (o : outcome A) : outcome A :=
  match o with
  | Raised (Some c) _ => if c =? code then Failed IndexError else o
  | _ => o
  end.

(* one entry of listunspent *)
Definition unspent_entry (u : json) : res (bytes * Z * bytes * Z) :=
  do txid <- subscript u (T "txid");
  do h <- lx_json txid;
  do vout <- subscript u (T "vout");
  do n <- match vout with
          | JNum t => match scan_number t with Some (PInt z) => Ok z | _ => Err OtherErr end
          | _ => Err OtherErr            (* outside the modelled domain: vout is a JSON integer *)
          end;
  if negb (length h =? 32)%nat then Err ValueError else          (* COutPoint.__init__ *)
  if negb ((0 <=? n) && (n <=? 4294967295)) then Err ValueError else
  do _a <- match u with
           | JObj l => match obj_get (T "address") l with
                       | Some _ => Err OtherErr       (* CBitcoinAddress(...): C12, not modelled *)
                       | None => Ok tt end
           | _ => Ok tt end;
  do spk <- subscript u (T "scriptPubKey");
  do script <- x_json spk;
  do amt <- subscript u (T "amount");
  do a <- amount_of_json amt;
  Ok (h, n, script, a).

(* `for unspent in r`: a list; an empty str / dict iterates zero times; other iterables
   yield str items whose subscription raises TypeError; non-iterables raise TypeError *)
Definition unspent_list (r : json) : res (list (bytes * Z * bytes * Z)) :=
  match r with
  | JArr l => mapM unspent_entry l
  | JStr [] | JObj [] => Ok []
  | _ => Err TypeError
  end.

(* `for h in r` with lx(h) (getrawmempool) *)
Definition hash_list (r : json) : res (list bytes) :=
  match r with
  | JArr l => mapM lx_json l
  | JStr [] | JObj [] => Ok []
  | JStr (_ :: _) => Err ValueError        (* lx of a one-character str: odd length *)
  | JObj (_ :: _) => Err OtherErr          (* lx of the keys: outside the modelled domain *)
  | _ => Err TypeError
  end.

(* conversion of the value returned by _call, per wrapper *)
Definition convert (o : objs) (m : mcall) (r : json) : outcome rval :=
  match m with
  | MCall _ _ | MBatch _ => Result (RJson r)
  | MGetBalance _ _ _ | MGetReceivedByAddress _ _ => lift (do a <- amount_of_json r; Ok (RAmount a))
  | MGetTxOut _ _ _ =>
      match r with
      | JNull => Failed IndexError
      | _ => lift (do v <- subscript r (T "value");
                   do a <- amount_of_json v;
                   do spk <- subscript r (T "scriptPubKey");
                   do hx <- subscript spk (T "hex");
                   do script <- x_json hx;
                   do bb <- subscript r (T "bestblock");
                   do best <- lx_json bb;
                   Ok (RTxOut a script best))
      end
  | MListUnspent _ _ => lift (do l <- unspent_list r; Ok (RUnspent l))
  | MSendToAddress _ _ | MSendMany _ _ | MGetBlockHash _ | MGetBestBlockHash | MSendRawTransaction _ _ =>
      lift (do h <- lx_json r; Ok (RHash h))
  | MGetBlock _ => lift (do b <- x_json r; do s <- o_blk o b; Ok (RObject s))
  | MGetBlockHeader _ false => lift (do b <- x_json r; do s <- o_hdr o b; Ok (RObject s))
  | MGetBlockHeader _ true =>
      lift (do nb <- match r with
                     | JObj l => match obj_get (T "nextblockhash") l with
                                 | Some v => do h <- lx_json v; Ok (Some h)
                                 | None => Ok None end
                     | _ => Err TypeError end;
            do _c <- subscript r (T "confirmations");
            do _h <- subscript r (T "height");
            do _m <- subscript r (T "mediantime");
            do cw <- subscript r (T "chainwork");
            do w <- x_json cw;
            Ok (RHeaderInfo nb w))
  | MGetRawTransaction _ false _ => lift (do b <- x_json r; do s <- o_tx o b; Ok (RObject s))
  | MGetRawTransaction _ true _ =>
      lift (do hx <- subscript r (T "hex");
            do b <- x_json hx;
            do s <- o_tx o b;
            do _1 <- subscript r (T "txid");
            do _2 <- subscript r (T "version");
            do _3 <- subscript r (T "locktime");
            do _4 <- subscript r (T "vin");
            do _5 <- subscript r (T "vout");
            do bh <- match r with
                     | JObj l => match obj_get (T "blockhash") l with
                                 | Some v => do h <- lx_json v; Ok (Some h)
                                 | None => Ok None end
                     | _ => Err TypeError end;
            Ok (RRawTxInfo s bh))
  | MFundRawTransaction _ _ =>
      lift (do hx <- subscript r (T "hex");
            do b <- x_json hx;
            do s <- o_tx o b;
            do fee <- subscript r (T "fee");
            do f <- amount_of_json fee;
            Ok (RFunded s f))
  | MGetRawMempool => lift (do l <- hash_list r; Ok (RHashes l))
  end.

(* the IndexError translation each wrapper applies to _call *)
Definition translate (m : mcall) (o : outcome json) : outcome json :=
  match m with
  | MGetBlockHash _ => o                      (* lx(...) sits inside the try: see wrapper *)
  | MGetBlock _ => catch_index RPC_CATCH_getblock o
  | MGetBlockHeader _ _ => catch_index RPC_CATCH_getblockheader o
  | MGetRawTransaction _ _ _ => catch_index RPC_CATCH_getrawtransaction o
  | _ => o
  end.

(* ---------- the proxy ---------- *)
Record proxy := { id_count : Z }.
Definition new_proxy : proxy := {| id_count := 0 |}.     (* BaseProxy.__init__ *)

Record event := { ev_sent : option request; ev_out : outcome rval }.

(* what a wrapper computes before it reaches _call and that can fail: float(amount) *)
Definition precheck (m : mcall) : res unit :=
  match m with
  | MSendToAddress _ a => do _f <- float_div_coin a; Ok tt
  | MSendMany _ ps => do _l <- mapM (fun p => float_div_coin (snd p)) ps; Ok tt
  | _ => Ok tt
  end.

(* one wrapper call on proxy p answered by reply rp *)
Definition step (o : objs) (p : proxy) (m : mcall) (rp : reply) : proxy * event :=
  match request_of m with
  | None =>
      (* _batch: the caller's list is posted, the id counter is not touched, the parsed
         response is returned without any error handling *)
      (p, {| ev_sent := None;
             ev_out := match rp with
                       | JsonBody j => if json_ok j then Result (RJson j) else raise_int RPC_ERR_NON_JSON
                       | _ => obind (call_outcome rp) (fun j => Result (RJson j))
                       end |})
  | Some (name, params) =>
      match precheck m with
      | Err e => (p, {| ev_sent := None; ev_out := Failed e |})   (* raised before _call: no id used *)
      | Ok _ =>
      let id := id_count p + 1 in                               (* self.__id_count += 1 *)
      let p' := {| id_count := id |} in
      let sent := {| rq_id := id; rq_method := name; rq_params := params |} in
      let out :=
        match m with
        | MGetBlockHash _ =>
            (* try: return lx(self._call(...)) except InvalidParameterError: raise IndexError *)
            catch_index RPC_CATCH_getblockhash (obind (call_outcome rp) (convert o m))
        | _ => obind (translate m (call_outcome rp)) (convert o m)
        end in
      (p', {| ev_sent := Some sent; ev_out := out |})
      end
  end.

Fixpoint run (o : objs) (p : proxy) (ops : list (mcall * reply)) : list event :=
  match ops with
  | [] => []
  | (m, rp) :: rest => let (p', ev) := step o p m rp in ev :: run o p' rest
  end.
