(* Model/ScriptEvalSt.v – the interpreter of Model/ScriptEval.v INSTRUMENTED with the state an
   EvalScriptError captures (bitcoin/core/scripteval.py).

   Inside the `for (sop, sop_data, sop_pc) in scriptIn.raw_iter()` loop every failure is raised
   through the closure

       def err_raiser(cls, *args):
           raise cls( *args, sop=sop, sop_data=sop_data, sop_pc=sop_pc,
                     stack=stack, scriptIn=scriptIn, txTo=txTo, inIdx=inIdx, flags=flags,
                     altstack=altstack, vfExec=vfExec, pbegincodehash=pbegincodehash,
                     nOpCount=nOpCount[0])

   `stack` and `altstack` are the (mutable) Python lists, `nOpCount` a one-element list and
   `pbegincodehash` a closure variable: the exception sees their values AT THE MOMENT OF THE
   RAISE, and nothing mutates them afterwards (the exception leaves EvalScript / VerifyScript
   at once).  [XFail c] is such an exception; c records
       (len(e.stack), len(e.altstack), e.nOpCount, e.pbegincodehash, e.sop_pc, len(e.scriptIn)).
   The code below is Model/ScriptEval.v line by line with every `fail` replaced by the
   [XFail] of the state in force at that raise – where each raise sits relative to the state
   updates is the content of this file:
     * disabled opcode            : before nOpCount is incremented;
     * MaxOpCountError (loop)     : AFTER `nOpCount[0] += 1`              (captures 202);
     * PUSHDATA > 520 bytes       : before the append;
     * check_args / _CastToBigNum / VERIFY-type failures inside an opcode: before any pop or
       append of that opcode, EXCEPT OP_PICK / OP_ROLL which have already popped n
       (`n = _CastToBigNum(stack.pop(), err_raiser)`), and _CheckMultiSig's NULLDUMMY failure
       which comes after the `while i > 1: stack.pop()` loop;
     * _CheckMultiSig             : `nOpCount[0] += keys_count` precedes its MaxOpCountError,
       so that error (and every later one of the opcode) captures nOpCount + keys_count;
     * 'max stack items'          : at the END of the iteration, after the opcode's appends.
   Three EvalScriptErrors are NOT raised through err_raiser – 'script too large', 'Unterminated
   IF/ELSE block', and EvalScript's wrapper of CScriptInvalidError.  They are constructed with
   stack= and scriptIn= only: altstack, nOpCount, pbegincodehash, sop_pc are None.  They are
   [XErr EvalErr] here (no captured interpreter state; tools/impl/C07.py reports es = []).

   Erasure (Proofs/ScriptBounds.v): [erase (eval_script_st …) = eval_script …]. *)
From BV Require Import Common.Base Common.PyList Common.Tx Common.ScriptFlags Gen.ScriptConsts Gen.EvalConsts Model.Script Model.FindAndDelete Model.ScriptEval.

Record cap := { c_stack : Z; c_alt : Z; c_nop : Z; c_pb : Z; c_pc : Z; c_len : Z }.

Inductive xres (A : Type) := XOk (a : A) | XFail (c : cap) | XErr (e : exn).
Arguments XOk {A}. Arguments XFail {A}. Arguments XErr {A}.
Definition xbind {A B} (r : xres A) (f : A -> xres B) : xres B :=
  match r with XOk a => f a | XFail c => XFail c | XErr e => XErr e end.
(* an operation that raises no EvalScriptError of its own (list indexing, bn2vch, FindAndDelete …) *)
Definition lift {A} (r : res A) : xres A := match r with Ok a => XOk a | Err e => XErr e end.
(* forgetting the captured state *)
Definition erase {A} (r : xres A) : res A :=
  match r with XOk a => Ok a | XFail _ => Err EvalErr | XErr e => Err e end.

Declare Scope x_scope.
Delimit Scope x_scope with x.
Notation "'do' x <- r ; k" := (xbind r (fun x => k)) (at level 200, x pattern, r at level 100, k at level 200) : x_scope.

Section EvalSt.
Variable checksig : bytes -> bytes -> bytes -> bool.
Variable ripemd160 sha1 sha256 : bytes -> bytes.
Variable fl : flags.
Local Notation check_sig := (check_sig checksig).

Local Open Scope x_scope.

(* err_raiser: scriptIn and the current (sop, sop_data, sop_pc) are fixed for one iteration;
   the four mutable components are read when it is called *)
Definition capture (scriptIn : bytes) (o : sop) (st alt : list bytes) (pb nop : Z) : cap :=
  {| c_stack := len st; c_alt := len alt; c_nop := nop; c_pb := pb; c_pc := sop_idx o; c_len := lenZ scriptIn |}.

(* _CastToBigNum(s, err_raiser) *)
Definition cast_to_bignum_st (c : cap) (s : bytes) : xres Z :=
  do v <- lift (vch2bn s);
  if lenZ s >? MAX_NUM_SIZE then XFail c else XOk v.
(* check_args(n) / `if len(stack) < n: err_raiser(MissingOpArgumentsError …)` *)
Definition check_args_st (c : cap) (st : list bytes) (n : Z) : xres unit := if len st <? n then XFail c else XOk tt.
Definition guard (c : cap) (b : bool) : xres unit := if b then XFail c else XOk tt.

(* ---- _CheckMultiSig ---- *)
Fixpoint ms_loop_st (c : cap) (fuel : nat) (verify_op : bool) (st : list bytes) (script : bytes)
         (isig ikey sigs_count keys_count : Z) : xres bool :=
  if negb (sigs_count >? 0) then XOk true else
  match fuel with
  | O => XErr OutOfFuel
  | S f =>
      do sig <- lift (py_nth st (- isig)); do pubkey <- lift (py_nth st (- ikey));
      do ok <- lift (check_sig sig pubkey script);
      let '(isig, sigs_count) := if ok then (isig + 1, sigs_count - 1) else (isig, sigs_count) in
      let ikey := ikey + 1 in let keys_count := keys_count - 1 in
      if sigs_count >? keys_count then (if verify_op then XFail c else XOk false)
      else ms_loop_st c f verify_op st script isig ikey sigs_count keys_count
  end.
Definition check_multisig_st (scriptIn : bytes) (o : sop) (vfy : bool) (script : bytes) (s : state) : xres state :=
  let st := stack s in
  let raise0 := capture scriptIn o st (altstack s) (pbegincodehash s) (nOpCount s) in
  let i := 1 in
  do _ <- guard raise0 (len st <? i);
  do top <- lift (py_nth st (- i));
  do keys_count <- cast_to_bignum_st raise0 top;
  do _ <- guard raise0 ((keys_count <? 0) || (keys_count >? 20));
  let i := i + 1 in let ikey := i in let i := i + keys_count in
  let nop := nOpCount s + keys_count in                                  (* nOpCount[0] += keys_count *)
  let raise1 := capture scriptIn o st (altstack s) (pbegincodehash s) nop in
  do _ <- guard raise1 (nop >? MAX_SCRIPT_OPCODES);
  do _ <- guard raise1 (len st <? i);
  do sc <- lift (py_nth st (- i));
  do sigs_count <- cast_to_bignum_st raise1 sc;
  do _ <- guard raise1 ((sigs_count <? 0) || (sigs_count >? keys_count));
  let i := i + 1 in let isig := i in let i := i + sigs_count in
  do _ <- (if len st <? i - 1 then XFail raise1 else if len st <? i then XFail raise1 else XOk tt);
  do script' <- lift (ms_fad (Z.to_nat sigs_count) isig st script 0);
  do success <- ms_loop_st raise1 (S (Z.to_nat keys_count)) vfy st script'
                           isig ikey sigs_count keys_count;
  do st1 <- lift (pop_n (Z.to_nat (i - 1)) st);                          (* while i > 1: stack.pop() *)
  do _ <- (if negb (is_nil st1) && f_nulldummy fl
           then do d <- lift (py_nth st1 (-1));
                if negb (bytes_eqb d []) then XFail (capture scriptIn o st1 (altstack s) (pbegincodehash s) nop) else XOk tt
           else XOk tt);
  do dr <- lift (py_pop st1);
  let st2 := snd dr in
  let st3 := if negb vfy then (if success then push st2 [x01] else push st2 [])
             else st2 in
  XOk {| stack := st3; altstack := altstack s; vfExec := vfExec s; pbegincodehash := pbegincodehash s; nOpCount := nop |}.

(* ---- _UnaryOp / _BinOp: every raise precedes the pops ---- *)
Definition unary_op_st (c : cap) (opcode : Z) (st : list bytes) : xres (list bytes) :=
  do _ <- guard c (len st <? 1);
  do top <- lift (py_nth st (-1));
  do bn <- cast_to_bignum_st c top;
  do pr <- lift (py_pop st); let st := snd pr in
  do bn' <- lift (if opcode =? OP_1ADD then Ok (bn + 1)
             else if opcode =? OP_1SUB then Ok (bn - 1)
             else if opcode =? OP_NEGATE then Ok (- bn)
             else if opcode =? OP_ABS then Ok (if bn <? 0 then - bn else bn)
             else if opcode =? OP_NOT then Ok (b2i (bn =? 0))
             else if opcode =? OP_0NOTEQUAL then Ok (b2i (negb (bn =? 0)))
             else Err AssertionError);
  do v <- lift (bn2vch bn'); XOk (push st v).
Definition bin_op_st (c : cap) (opcode : Z) (st : list bytes) : xres (list bytes) :=
  do _ <- guard c (len st <? 2);
  do x2 <- lift (py_nth st (-1)); do bn2 <- cast_to_bignum_st c x2;
  do x1 <- lift (py_nth st (-2)); do bn1 <- cast_to_bignum_st c x1;
  if opcode =? OP_NUMEQUALVERIFY then
    (if negb (bn1 =? bn2) then XFail c else lift (pop_n 2 st))
  else
  do bn <- lift (if opcode =? OP_ADD then Ok (bn1 + bn2)
            else if opcode =? OP_SUB then Ok (bn1 - bn2)
            else if opcode =? OP_BOOLAND then Ok (b2i (negb (bn1 =? 0) && negb (bn2 =? 0)))
            else if opcode =? OP_BOOLOR then Ok (b2i (negb (bn1 =? 0) || negb (bn2 =? 0)))
            else if opcode =? OP_NUMEQUAL then Ok (b2i (bn1 =? bn2))
            else if opcode =? OP_NUMNOTEQUAL then Ok (b2i (negb (bn1 =? bn2)))
            else if opcode =? OP_LESSTHAN then Ok (b2i (bn1 <? bn2))
            else if opcode =? OP_GREATERTHAN then Ok (b2i (bn1 >? bn2))
            else if opcode =? OP_LESSTHANOREQUAL then Ok (b2i (bn1 <=? bn2))
            else if opcode =? OP_GREATERTHANOREQUAL then Ok (b2i (bn1 >=? bn2))
            else if opcode =? OP_MIN then Ok (if bn1 <? bn2 then bn1 else bn2)
            else if opcode =? OP_MAX then Ok (if bn1 >? bn2 then bn1 else bn2)
            else Err AssertionError);
  do st' <- lift (pop_n 2 st);
  do v <- lift (bn2vch bn); XOk (push st' v).

(* the body of the selected branch *)
Definition exec_st (scriptIn : bytes) (s : state) (o : sop) (k : kind) : xres state :=
  let sop := sop_opcode o in
  let fExec := check_exec (vfExec s) in
  let st := stack s in
  (* err_raiser while this opcode has not touched the stacks yet *)
  let c0 := capture scriptIn o st (altstack s) (pbegincodehash s) (nOpCount s) in
  let check_args := check_args_st c0 in
  let ret (st' : list bytes) : xres state := XOk (set_stack s st') in
  let rets (r : xres (list bytes)) : xres state := do st' <- r; ret st' in
  match k with
  | KSmall => do v <- lift (bn2vch (sop - (OP_1 - 1))); ret (push st v)
  | KBin => rets (bin_op_st c0 sop st)
  | KUn => rets (unary_op_st c0 sop st)
  | K2Drop => do _ <- check_args st 2; rets (lift (pop_n 2 st))
  | K2Dup => do _ <- check_args st 2; do v1 <- lift (py_nth st (-2)); do v2 <- lift (py_nth st (-1)); ret (push (push st v1) v2)
  | K2Over => do _ <- check_args st 4; do v1 <- lift (py_nth st (-4)); do v2 <- lift (py_nth st (-3)); ret (push (push st v1) v2)
  | K2Rot =>
      do _ <- check_args st 6; do v1 <- lift (py_nth st (-6)); do v2 <- lift (py_nth st (-5));
      do st1 <- lift (py_del st (-6)); do st2 <- lift (py_del st1 (-5)); ret (push (push st2 v1) v2)
  | K2Swap =>
      do _ <- check_args st 4;
      do tmp <- lift (py_nth st (-4)); do a <- lift (py_nth st (-2)); do st1 <- lift (py_set st (-4) a); do st2 <- lift (py_set st1 (-2) tmp);
      do tmp' <- lift (py_nth st2 (-3)); do b <- lift (py_nth st2 (-1)); do st3 <- lift (py_set st2 (-3) b); do st4 <- lift (py_set st3 (-1) tmp');
      ret st4
  | K3Dup =>
      do _ <- check_args st 3; do v1 <- lift (py_nth st (-3)); do v2 <- lift (py_nth st (-2)); do v3 <- lift (py_nth st (-1));
      ret (push (push (push st v1) v2) v3)
  | KMultisig vfy => check_multisig_st scriptIn o vfy (py_slice scriptIn (pbegincodehash s) (lenZ scriptIn)) s
  | KChecksig vfy =>
      do _ <- check_args st 2;
      do vchPubKey <- lift (py_nth st (-1)); do vchSig <- lift (py_nth st (-2));
      let tmpScript := py_slice scriptIn (pbegincodehash s) (lenZ scriptIn) in
      do p <- lift (push_of vchSig);
      do tmpScript' <- lift (find_and_delete tmpScript p);
      do ok <- lift (check_sig vchSig vchPubKey tmpScript');
      if negb ok && vfy then XFail c0                                    (* before the two pops *)
      else do st' <- lift (pop_n 2 st);
           if ok then (if negb vfy then ret (push st' [x01]) else ret st')
           else ret (push st' [])
  | KCodesep =>
      XOk {| stack := st; altstack := altstack s; vfExec := vfExec s; pbegincodehash := sop_idx o; nOpCount := nOpCount s |}
  | KDepth => do v <- lift (bn2vch (len st)); ret (push st v)
  | KDrop => do _ <- check_args st 1; rets (lift (pop_n 1 st))
  | KDup => do _ <- check_args st 1; do v <- lift (py_nth st (-1)); ret (push st v)
  | KElse =>
      if len (vfExec s) =? 0 then XFail c0
      else do b <- lift (py_nth (vfExec s) (-1)); do vf <- lift (py_set (vfExec s) (-1) (negb b));
           XOk {| stack := st; altstack := altstack s; vfExec := vf; pbegincodehash := pbegincodehash s; nOpCount := nOpCount s |}
  | KEndif =>
      if len (vfExec s) =? 0 then XFail c0
      else do pr <- lift (py_pop (vfExec s));
           XOk {| stack := st; altstack := altstack s; vfExec := snd pr; pbegincodehash := pbegincodehash s; nOpCount := nOpCount s |}
  | KEqual =>
      do _ <- check_args st 2; do p1 <- lift (py_pop st); do p2 <- lift (py_pop (snd p1));
      ret (push (snd p2) (if bytes_eqb (fst p1) (fst p2) then [x01] else []))
  | KEqualVerify =>
      do _ <- check_args st 2; do v1 <- lift (py_nth st (-1)); do v2 <- lift (py_nth st (-2));
      if bytes_eqb v1 v2 then rets (lift (pop_n 2 st)) else XFail c0     (* the items are still there *)
  | KFromAlt =>
      if len (altstack s) <? 1 then XFail c0
      else do pr <- lift (py_pop (altstack s));
           XOk {| stack := push st (fst pr); altstack := snd pr; vfExec := vfExec s; pbegincodehash := pbegincodehash s; nOpCount := nOpCount s |}
  | KHash160 => do _ <- check_args st 1; do pr <- lift (py_pop st); ret (push (snd pr) (ripemd160 (sha256 (fst pr))))
  | KHash256 => do _ <- check_args st 1; do pr <- lift (py_pop st); ret (push (snd pr) (sha256 (sha256 (fst pr))))
  | KIf neg =>
      do r <- (if fExec then
                 do _ <- check_args st 1; do pr <- lift (py_pop st);
                 let v := cast_to_bool (fst pr) in
                 XOk (snd pr, if neg then negb v else v)
               else XOk (st, false));
      XOk {| stack := fst r; altstack := altstack s; vfExec := vfExec s ++ [snd r]; pbegincodehash := pbegincodehash s; nOpCount := nOpCount s |}
  | KIfdup => do _ <- check_args st 1; do vch <- lift (py_nth st (-1)); if cast_to_bool vch then ret (push st vch) else ret st
  | KNip => do _ <- check_args st 2; rets (lift (py_del st (-2)))
  | KNop => ret st
  | KNopN => if f_discourage_nops fl then XFail c0 else ret st
  | KOver => do _ <- check_args st 2; do vch <- lift (py_nth st (-2)); ret (push st vch)
  | KPickRoll roll =>
      do _ <- check_args st 2; do pr <- lift (py_pop st); let st1 := snd pr in
      (* n = _CastToBigNum(stack.pop(), err_raiser): from here on the captured stack lacks n *)
      let c1 := capture scriptIn o st1 (altstack s) (pbegincodehash s) (nOpCount s) in
      do n <- cast_to_bignum_st c1 (fst pr);
      if (n <? 0) || (n >=? len st1) then XFail c1
      else do vch <- lift (py_nth st1 (- n - 1));
           do st2 <- lift (if roll then py_del st1 (- n - 1) else Ok st1);
           ret (push st2 vch)
  | KReturn => XFail c0
  | KRipemd => do _ <- check_args st 1; do pr <- lift (py_pop st); ret (push (snd pr) (ripemd160 (fst pr)))
  | KRot =>
      do _ <- check_args st 3;
      do tmp <- lift (py_nth st (-3)); do a <- lift (py_nth st (-2)); do st1 <- lift (py_set st (-3) a); do st2 <- lift (py_set st1 (-2) tmp);
      do tmp' <- lift (py_nth st2 (-2)); do b <- lift (py_nth st2 (-1)); do st3 <- lift (py_set st2 (-2) b); do st4 <- lift (py_set st3 (-1) tmp');
      ret st4
  | KSize => do _ <- check_args st 1; do x <- lift (py_nth st (-1)); do v <- lift (bn2vch (lenZ x)); ret (push st v)
  | KSha1 => do _ <- check_args st 1; do pr <- lift (py_pop st); ret (push (snd pr) (sha1 (fst pr)))
  | KSha256 => do _ <- check_args st 1; do pr <- lift (py_pop st); ret (push (snd pr) (sha256 (fst pr)))
  | KSwap =>
      do _ <- check_args st 2;
      do tmp <- lift (py_nth st (-2)); do a <- lift (py_nth st (-1)); do st1 <- lift (py_set st (-2) a); do st2 <- lift (py_set st1 (-1) tmp); ret st2
  | KToAlt =>
      do _ <- check_args st 1; do pr <- lift (py_pop st);
      XOk {| stack := snd pr; altstack := altstack s ++ [fst pr]; vfExec := vfExec s; pbegincodehash := pbegincodehash s; nOpCount := nOpCount s |}
  | KTuck => do _ <- check_args st 2; do vch <- lift (py_nth st (-1)); ret (py_insert st (len st - 2) vch)
  | KVerify => do _ <- check_args st 1; do x <- lift (py_nth st (-1)); if cast_to_bool x then rets (lift (pop_n 1 st)) else XFail c0
  | KWithin =>
      do _ <- check_args st 3;
      do x3 <- lift (py_nth st (-1)); do bn3 <- cast_to_bignum_st c0 x3;
      do x2 <- lift (py_nth st (-2)); do bn2 <- cast_to_bignum_st c0 x2;
      do x1 <- lift (py_nth st (-3)); do bn1 <- cast_to_bignum_st c0 x1;
      do st' <- lift (pop_n 3 st);
      ret (push st' (if (bn2 <=? bn1) && (bn1 <? bn3) then [x01] else []))
  | KBad => XFail c0
  end.

(* one iteration of the loop *)
Definition step_st (scriptIn : bytes) (s : state) (o : sop) : xres state :=
  let sop := sop_opcode o in
  let fExec := check_exec (vfExec s) in
  let cap_of (s : state) := capture scriptIn o (stack s) (altstack s) (pbegincodehash s) (nOpCount s) in
  do _ <- guard (cap_of s) (mem sop DISABLED_OPCODES);                   (* nOpCount not yet incremented *)
  do s <- (if sop >? OP_16 then
             let n := nOpCount s + 1 in                                   (* nOpCount[0] += 1, THEN the check *)
             if n >? MAX_SCRIPT_OPCODES then XFail (capture scriptIn o (stack s) (altstack s) (pbegincodehash s) n)
             else XOk {| stack := stack s; altstack := altstack s; vfExec := vfExec s;
                         pbegincodehash := pbegincodehash s; nOpCount := n |}
           else XOk s);
  do s' <-
   (if sop <=? OP_PUSHDATA4 then
      match sop_data o with
      | None => XErr TypeError
      | Some d =>
          if lenZ d >? MAX_SCRIPT_ELEMENT_SIZE then XFail (cap_of s)      (* before the append *)
          else if fExec then XOk (set_stack s (push (stack s) d))
          else XOk s
      end
    else if fExec || ((OP_IF <=? sop) && (sop <=? OP_ENDIF)) then exec_st scriptIn s o (kind_of sop)
    else XOk s);
  (* size limits: after the opcode's effect *)
  if len (stack s') + len (altstack s') >? MAX_STACK_ITEMS then XFail (cap_of s') else XOk s'.

Fixpoint run_ops_st (scriptIn : bytes) (s : state) (ops : list sop) : xres state :=
  match ops with [] => XOk s | o :: r => do s' <- step_st scriptIn s o; run_ops_st scriptIn s' r end.

(* _EvalScript, then EvalScript's `except CScriptInvalidError`.  The three raises outside the
   loop do not go through err_raiser: no interpreter state is captured. *)
Definition eval_script_raw_st (st : list bytes) (scriptIn : bytes) : xres (list bytes) :=
  if lenZ scriptIn >? MAX_SCRIPT_SIZE then XErr EvalErr else
  let '(ops, err) := raw_iter scriptIn in
  do s <- run_ops_st scriptIn {| stack := st; altstack := []; vfExec := []; pbegincodehash := 0; nOpCount := 0 |} ops;
  match err with
  | Some e => XErr e
  | None => if negb (len (vfExec s) =? 0) then XErr EvalErr else XOk (stack s)
  end.
Definition eval_script_st (st : list bytes) (scriptIn : bytes) : xres (list bytes) :=
  match eval_script_raw_st st scriptIn with
  | XErr e => if is_script_err e then XErr EvalErr else XErr e
  | r => r
  end.

(* VerifyScript: the EvalScriptError of whichever of the (up to) three evaluations raised
   propagates unchanged; VerifyScriptError carries no state *)
Definition verify_script_st (scriptSig scriptPubKey : bytes) : xres unit :=
  do stack1 <- eval_script_st [] scriptSig;
  let stackCopy := stack1 in
  do stack2 <- eval_script_st stack1 scriptPubKey;
  do _ <- lift (if len stack2 =? 0 then vfail else Ok tt);
  do top <- lift (py_nth stack2 (-1));
  do _ <- lift (if negb (cast_to_bool top) then vfail else Ok tt);
  do p2sh <- lift (if f_p2sh fl then is_p2sh scriptPubKey else Ok false);
  do stack3 <-
    (if p2sh then
       do po <- lift (is_push_only scriptSig);
       do _ <- lift (if negb po then vfail else Ok tt);
       let st := stackCopy in
       do _ <- lift (if len st =? 0 then Err AssertionError else Ok tt);
       do pr <- lift (py_pop st);
       do st' <- eval_script_st (snd pr) (fst pr);
       do _ <- lift (if len st' =? 0 then vfail else Ok tt);
       do top' <- lift (py_nth st' (-1));
       do _ <- lift (if negb (cast_to_bool top') then vfail else Ok tt);
       XOk st'
     else XOk stack2);
  lift (if f_cleanstack fl then
          (if negb (f_p2sh fl) then Err AssertionError
           else if negb (len stack3 =? 1) then vfail else Ok tt)
        else Ok tt).
End EvalSt.
