(* Model/Base58.v – bitcoin/base58.py: encode, decode, CBase58Data.__new__ / from_bytes /
   __str__ (tree after the F6 fix: __new__ requires len(k) >= 5).
   Code style: the same detours as the Python (hexlify -> int(.., 16), divmod loop,
   '%x' -> odd-length pad -> unhexlify, '1' count over s[:-1], the three slices with
   Python slice semantics).  Text is a list of code points; bytes are list byte.
   Every function that mentions the global B58_DIGITS takes it as the argument D; the
   entry points at the end instantiate D with the constant regenerated from /repo. *)
From BV Require Import Common.Base Gen.B58.

Definition text := list Z.

(* ---------- Python sequence operations ---------- *)
(* l[i] *)
Definition py_getitem {A} (l : list A) (i : Z) : res A :=
  let n := lenZ l in
  let j := if i <? 0 then i + n else i in
  if (0 <=? j) && (j <? n)
  then match nth_error l (Z.to_nat j) with Some a => Ok a | None => Err IndexError end
  else Err IndexError.
(* slice bound normalisation (PySlice_AdjustIndices, step 1) *)
Definition clamp (n i : Z) : Z :=
  let j := if i <? 0 then i + n else i in
  if j <? 0 then 0 else if n <? j then n else j.
(* l[lo:hi]; None = omitted bound *)
Definition py_slice {A} (l : list A) (lo hi : option Z) : list A :=
  let n := lenZ l in
  let a := match lo with Some i => clamp n i | None => 0 end in
  let b := match hi with Some i => clamp n i | None => n end in
  firstn (Z.to_nat (b - a)) (skipn (Z.to_nat a) l).
(* c in D (c a one-character string), D.index(c) *)
Definition py_in (c : Z) (D : text) : bool := existsb (Z.eqb c) D.
Fixpoint str_find (c : Z) (D : text) : option nat :=
  match D with
  | [] => None
  | x :: t => if c =? x then Some O else option_map S (str_find c t)
  end.
Definition py_index (D : text) (c : Z) : res Z :=
  match str_find c D with Some i => Ok (Z.of_nat i) | None => Err ValueError end.

(* ---------- hex helpers (binascii.hexlify / unhexlify, int(s, 16), '%x') ---------- *)
Definition hexchar (n : Z) : Z := if n <? 10 then 48 + n else 87 + n.   (* '0'..'9','a'..'f' *)
Definition hexval (c : Z) : res Z :=
  if (48 <=? c) && (c <=? 57) then Ok (c - 48)
  else if (97 <=? c) && (c <=? 102) then Ok (c - 87)
  else if (65 <=? c) && (c <=? 70) then Ok (c - 55)
  else Err ValueError.
Definition hexlify (b : bytes) : text :=
  flat_map (fun c => [hexchar (b2z c / 16); hexchar (b2z c mod 16)]) b.
Fixpoint int16_loop (s : text) (acc : Z) : res Z :=
  match s with
  | [] => Ok acc
  | c :: t => do d <- hexval c; int16_loop t (acc * 16 + d)
  end.
(* int('0x0' + h, 16): base 16 consumes the '0x' prefix, the digits are '0' followed by h *)
Definition py_int16_0x0 (h : text) : res Z := int16_loop (48 :: h) 0.
(* '%x' % n for n >= 0 (CPython primitive, modelled): no leading zero, "0" for 0 *)
Fixpoint hex_lsb (fuel : nat) (n : Z) : list Z :=
  match fuel with
  | O => []
  | S f => if n <=? 0 then [] else n mod 16 :: hex_lsb f (n / 16)
  end.
Definition fmt_x (n : Z) : text :=
  if n =? 0 then [48] else map hexchar (rev (hex_lsb (S (Z.to_nat (Z.log2 n))) n)).
Fixpoint unhexlify (h : text) : res bytes :=
  match h with
  | [] => Ok []
  | [_] => Err ValueError                       (* binascii.Error: odd-length string *)
  | a :: b :: t => do x <- hexval a; do y <- hexval b; do r <- unhexlify t;
                   Ok (z2b (16 * x + y) :: r)
  end.

(* ---------- encode ---------- *)
(* while n > 0: n, r = divmod(n, 58); res.append(B58_DIGITS[r])
   fuel: one iteration per bit of n is always enough (58 >= 2) *)
Fixpoint enc_loop (D : text) (fuel : nat) (n : Z) (acc : text) : res text :=
  if n >? 0 then
    match fuel with
    | O => Err OutOfFuel
    | S f => let r := n mod 58 in let n' := n / 58 in
             do c <- py_getitem D r; enc_loop D f n' (acc ++ [c])
    end
  else Ok acc.
(* for c in b: if c == czero: pad += 1 else: break *)
Fixpoint zero_prefix (b : bytes) (pad : nat) : nat :=
  match b with
  | c :: t => if b2z c =? 0 then zero_prefix t (S pad) else pad
  | [] => pad
  end.
Definition encode_with (D : text) (b : bytes) : res text :=
  do n <- py_int16_0x0 (hexlify b);
  do r <- enc_loop D (S (Z.to_nat (Z.log2 n))) n [];
  let r := rev r in                                  (* ''.join(res[::-1]) *)
  let pad := zero_prefix b O in
  do one <- py_getitem D 0;
  Ok (repeat one pad ++ r).                          (* B58_DIGITS[0] * pad + res *)

(* ---------- decode ---------- *)
Fixpoint dec_loop (D : text) (s : text) (n : Z) : res Z :=
  match s with
  | [] => Ok n
  | c :: t => let n := n * 58 in
              if negb (py_in c D) then Err Base58Invalid
              else do digit <- py_index D c; dec_loop D t (n + digit)
  end.
(* for c in s[:-1]: if c == B58_DIGITS[0]: pad += 1 else: break *)
Fixpoint one_prefix (D : text) (l : text) (pad : nat) : res nat :=
  match l with
  | [] => Ok pad
  | c :: t => do one <- py_getitem D 0;
              if c =? one then one_prefix D t (S pad) else Ok pad
  end.
(* if len(h) % 2: h = '0' + h *)
Definition pad_even (h : text) : text := if negb (lenZ h mod 2 =? 0) then 48 :: h else h.
Definition decode_with (D : text) (s : text) : res bytes :=
  match s with
  | [] => Ok []                                      (* if not s: return b'' *)
  | _ =>
    do n <- dec_loop D s 0;
    let h := fmt_x n in
    let h := pad_even h in
    do r <- unhexlify h;
    do pad <- one_prefix D (py_slice s None (Some (-1))) O;
    Ok (repeat x00 pad ++ r)
  end.

(* ---------- CBase58Data ---------- *)
(* from_bytes(data, nVersion): the object is the pair (nVersion, data) *)
Definition from_bytes (data : bytes) (nVersion : Z) : res (Z * bytes) :=
  if negb ((0 <=? nVersion) && (nVersion <=? 255)) then Err ValueError
  else Ok (nVersion, data).
(* __new__(cls, s); H = bitcoin.core.Hash *)
Definition check_decode_with (D : text) (H : bytes -> bytes) (s : text) : res (Z * bytes) :=
  do k <- decode_with D s;
  if lenZ k <? 5 then Err Base58Checksum else
  let verbyte := py_slice k (Some 0) (Some 1) in
  let data := py_slice k (Some 1) (Some (-4)) in
  let check0 := py_slice k (Some (-4)) None in
  let check1 := py_slice (H (verbyte ++ data)) None (Some 4) in
  if negb (bytes_eqb check0 check1) then Err Base58Checksum else
  do v0 <- py_getitem verbyte 0;
  from_bytes data (b2z v0).
(* __str__ *)
Definition to_str_with (D : text) (H : bytes -> bytes) (obj : Z * bytes) : res text :=
  let '(nVersion, data) := obj in
  do vb <- (if (0 <=? nVersion) && (nVersion <=? 255) then Ok [z2b nVersion]
            else Err ValueError);                    (* bytes([self.nVersion]) *)
  let vs := vb ++ data in
  let check := py_slice (H vs) (Some 0) (Some 4) in
  encode_with D (vs ++ check).

(* ---------- entry points: the module global B58_DIGITS ---------- *)
Definition encode : bytes -> res text := encode_with B58_DIGITS.
Definition decode : text -> res bytes := decode_with B58_DIGITS.
Definition check_decode (H : bytes -> bytes) : text -> res (Z * bytes) :=
  check_decode_with B58_DIGITS H.
Definition to_str (H : bytes -> bytes) : Z * bytes -> res text := to_str_with B58_DIGITS H.
(* str(CBase58Data.from_bytes(data, nVersion)) *)
Definition to_text (H : bytes -> bytes) (nVersion : Z) (data : bytes) : res text :=
  do obj <- from_bytes data nVersion; to_str H obj.
