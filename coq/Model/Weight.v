(* Model/Weight.v – CTransaction.calc_weight and CBlock.GetWeight: the parametric weight
   model of Model/Merkle.v instantiated with the wire model of Model/Wire.v *)
From BV Require Import Common.Base Common.Codec Common.Tx Model.Wire Model.Merkle.

Definition w_n_vin (t : tx) : nat := length (tx_vin t).
Definition w_n_vout (t : tx) : nat := length (tx_vout t).
Definition w_wit_is_null (t : tx) : bool := negb (has_witness t).          (* self.wit.is_null() *)
Definition w_strip (t : tx) : tx := set_wit t [].                           (* CTransaction(vin, vout, nLockTime, nVersion) *)
Definition w_size_full (t : tx) : Z := lenZ (enc tx_c t).                   (* len(t.serialize()) *)
Definition w_size_stripped (t : tx) : Z := lenZ (enc tx_c (set_wit t [])).  (* len(t.serialize(include_witness=False)) *)

Definition tx_calc_weight : tx -> res Z := calc_weight tx w_n_vin w_n_vout w_wit_is_null w_strip w_size_full.
Definition block_get_weight (b : block) : Z := get_weight tx w_size_full w_size_stripped (b_vtx b).

