(* Model/ScriptEval.v – bitcoin/core/scripteval.py as written: _CastToBigNum, _CastToBool,
   _CheckMultiSig, _UnaryOp, _BinOp, _EvalScript (the elif chain in its order), EvalScript,
   VerifyScript; bitcoin/core/script.py FindAndDelete.  The Python stack is a list with
   the top at the END; every stack[-n], pop(), del, insert is a PyList operation with its
   IndexError branch; EvalScriptError and subclasses are [Err EvalErr].
   _CheckSig is abstracted by the oracle [checksig sig pubkey code'] where code' is the
   script code after RawSignatureHash's own FindAndDelete(code, OP_CODESEPARATOR) – i.e.
   the oracle is "ECDSA-verify sig[:-1] under pubkey on the legacy sighash whose subscript
   is code'" (C03, C05, C13 are about that oracle). *)
From BV Require Import Common.Base Common.PyList Common.Tx Common.ScriptFlags Gen.ScriptConsts Gen.EvalConsts Model.Script Model.FindAndDelete.

Section Eval.
Variable checksig : bytes -> bytes -> bytes -> bool.
Variable ripemd160 sha1 sha256 : bytes -> bytes.
Variable fl : flags.

Definition fail {A} : res A := Err EvalErr.    (* err_raiser(<EvalScriptError subclass>, …) *)

Definition cast_to_bignum (s : bytes) : res Z :=
  do v <- vch2bn s;
  if lenZ s >? MAX_NUM_SIZE then fail else Ok v.
Fixpoint cast_to_bool_loop (s : bytes) : bool :=     (* i ranges over the remaining bytes *)
  match s with
  | [] => false
  | sv :: rest => if negb (b2z sv =? 0) then (if is_nil rest && (b2z sv =? 0x80) then false else true)
                  else cast_to_bool_loop rest
  end.
Definition cast_to_bool (s : bytes) : bool := cast_to_bool_loop s.

(* _CheckSig through the oracle: the subscript handed to RawSignatureHash loses its
   OP_CODESEPARATORs there *)
Definition check_sig (sig pubkey script : bytes) : res bool :=
  if is_nil sig then Ok false else          (* `if len(sig) == 0: return False` precedes the hashing *)
  do code <- find_and_delete script [z2b OP_CODESEPARATOR];
  Ok (checksig sig pubkey code).

Record state := { stack : list bytes; altstack : list bytes; vfExec : list bool;
                  pbegincodehash : Z; nOpCount : Z }.
Definition set_stack (s : state) (st : list bytes) : state :=
  {| stack := st; altstack := altstack s; vfExec := vfExec s; pbegincodehash := pbegincodehash s; nOpCount := nOpCount s |}.

Definition check_args (st : list bytes) (n : Z) : res unit := if len st <? n then fail else Ok tt.
Definition push (st : list bytes) (x : bytes) : list bytes := st ++ [x].
Fixpoint pop_n (n : nat) (st : list bytes) : res (list bytes) :=
  match n with O => Ok st | S k => do xr <- py_pop st; pop_n k (snd xr) end.

(* ---- _CheckMultiSig ---- *)
Fixpoint ms_fad (k : nat) (isig : Z) (st : list bytes) (script : bytes) (j : Z) : res bytes :=
  match k with
  | O => Ok script
  | S k' => do sig <- py_nth st (- isig - j); do p <- push_of sig;
            do script' <- find_and_delete script p; ms_fad k' isig st script' (j + 1)
  end.
(* the `while success and sigs_count > 0` loop; fuel = keys_count + 1 iterations suffice *)
Fixpoint ms_loop (fuel : nat) (verify_op : bool) (st : list bytes) (script : bytes)
         (isig ikey sigs_count keys_count : Z) : res bool :=
  if negb (sigs_count >? 0) then Ok true else
  match fuel with
  | O => Err OutOfFuel
  | S f =>
      do sig <- py_nth st (- isig); do pubkey <- py_nth st (- ikey);
      do ok <- check_sig sig pubkey script;
      let '(isig, sigs_count) := if ok then (isig + 1, sigs_count - 1) else (isig, sigs_count) in
      let ikey := ikey + 1 in let keys_count := keys_count - 1 in
      if sigs_count >? keys_count then (if verify_op then fail else Ok false)
      else ms_loop f verify_op st script isig ikey sigs_count keys_count
  end.
Definition check_multisig (vfy : bool) (script : bytes) (s : state) : res state :=
  let st := stack s in
  let i := 1 in
  do _ <- (if len st <? i then fail else Ok tt);
  do top <- py_nth st (- i);
  do keys_count <- cast_to_bignum top;
  do _ <- (if (keys_count <? 0) || (keys_count >? 20) then fail else Ok tt);
  let i := i + 1 in let ikey := i in let i := i + keys_count in
  let nop := nOpCount s + keys_count in
  do _ <- (if nop >? MAX_SCRIPT_OPCODES then fail else Ok tt);
  do _ <- (if len st <? i then fail else Ok tt);
  do sc <- py_nth st (- i);
  do sigs_count <- cast_to_bignum sc;
  do _ <- (if (sigs_count <? 0) || (sigs_count >? keys_count) then fail else Ok tt);
  let i := i + 1 in let isig := i in let i := i + sigs_count in
  do _ <- (if len st <? i - 1 then fail else if len st <? i then fail else Ok tt);
  do script' <- ms_fad (Z.to_nat sigs_count) isig st script 0;
  do success <- ms_loop (S (Z.to_nat keys_count)) vfy st script'
                        isig ikey sigs_count keys_count;
  do st1 <- pop_n (Z.to_nat (i - 1)) st;
  do _ <- (if negb (is_nil st1) && f_nulldummy fl
           then do d <- py_nth st1 (-1); if negb (bytes_eqb d []) then fail else Ok tt
           else Ok tt);
  do dr <- py_pop st1;
  let st2 := snd dr in
  let st3 := if negb vfy then (if success then push st2 [x01] else push st2 [])
             else st2 in
  Ok {| stack := st3; altstack := altstack s; vfExec := vfExec s; pbegincodehash := pbegincodehash s; nOpCount := nop |}.

(* ---- _UnaryOp / _BinOp ---- *)
Definition b2i (b : bool) : Z := if b then 1 else 0.
Definition unary_op (opcode : Z) (st : list bytes) : res (list bytes) :=
  do _ <- (if len st <? 1 then fail else Ok tt);
  do top <- py_nth st (-1);
  do bn <- cast_to_bignum top;
  do pr <- py_pop st; let st := snd pr in
  do bn' <- (if opcode =? OP_1ADD then Ok (bn + 1)
             else if opcode =? OP_1SUB then Ok (bn - 1)
             else if opcode =? OP_NEGATE then Ok (- bn)
             else if opcode =? OP_ABS then Ok (if bn <? 0 then - bn else bn)
             else if opcode =? OP_NOT then Ok (b2i (bn =? 0))
             else if opcode =? OP_0NOTEQUAL then Ok (b2i (negb (bn =? 0)))
             else Err AssertionError);
  do v <- bn2vch bn'; Ok (push st v).
Definition bin_op (opcode : Z) (st : list bytes) : res (list bytes) :=
  do _ <- (if len st <? 2 then fail else Ok tt);
  do x2 <- py_nth st (-1); do bn2 <- cast_to_bignum x2;
  do x1 <- py_nth st (-2); do bn1 <- cast_to_bignum x1;
  if opcode =? OP_NUMEQUALVERIFY then
    (if negb (bn1 =? bn2) then fail else pop_n 2 st)
  else
  do bn <- (if opcode =? OP_ADD then Ok (bn1 + bn2)
            else if opcode =? OP_SUB then Ok (bn1 - bn2)
            else if opcode =? OP_BOOLAND then Ok (b2i (negb (bn1 =? 0) && negb (bn2 =? 0)))
            else if opcode =? OP_BOOLOR then Ok (b2i (negb (bn1 =? 0) || negb (bn2 =? 0)))
            else if opcode =? OP_NUMEQUAL then Ok (b2i (bn1 =? bn2))
            else if opcode =? OP_NUMNOTEQUAL then Ok (b2i (negb (bn1 =? bn2)))
            else if opcode =? OP_LESSTHAN then Ok (b2i (bn1 <? bn2))
            else if opcode =? OP_GREATERTHAN then Ok (b2i (bn1 >? bn2))
            else if opcode =? OP_LESSTHANOREQUAL then Ok (b2i (bn1 <=? bn2))
            else if opcode =? OP_GREATERTHANOREQUAL then Ok (b2i (bn1 >=? bn2))
            else if opcode =? OP_MIN then Ok (if bn1 <? bn2 then bn1 else bn2)
            else if opcode =? OP_MAX then Ok (if bn1 >? bn2 then bn1 else bn2)
            else Err AssertionError);
  do st' <- pop_n 2 st;
  do v <- bn2vch bn; Ok (push st' v).

Definition mem (x : Z) (l : list Z) : bool := existsb (Z.eqb x) l.
Definition check_exec (vf : list bool) : bool := forallb (fun b => b) vf.

(* the elif chain of _EvalScript, in its order: which branch an opcode selects *)
Definition kind_of (sop : Z) : kind :=
  if (sop =? OP_1NEGATE) || ((sop >=? OP_1) && (sop <=? OP_16)) then KSmall
  else if mem sop ISA_BINOP then KBin
  else if mem sop ISA_UNOP then KUn
  else if sop =? OP_2DROP then K2Drop
  else if sop =? OP_2DUP then K2Dup
  else if sop =? OP_2OVER then K2Over
  else if sop =? OP_2ROT then K2Rot
  else if sop =? OP_2SWAP then K2Swap
  else if sop =? OP_3DUP then K3Dup
  else if (sop =? OP_CHECKMULTISIG) || (sop =? OP_CHECKMULTISIGVERIFY) then KMultisig (sop =? OP_CHECKMULTISIGVERIFY)
  else if (sop =? OP_CHECKSIG) || (sop =? OP_CHECKSIGVERIFY) then KChecksig (sop =? OP_CHECKSIGVERIFY)
  else if sop =? OP_CODESEPARATOR then KCodesep
  else if sop =? OP_DEPTH then KDepth
  else if sop =? OP_DROP then KDrop
  else if sop =? OP_DUP then KDup
  else if sop =? OP_ELSE then KElse
  else if sop =? OP_ENDIF then KEndif
  else if sop =? OP_EQUAL then KEqual
  else if sop =? OP_EQUALVERIFY then KEqualVerify
  else if sop =? OP_FROMALTSTACK then KFromAlt
  else if sop =? OP_HASH160 then KHash160
  else if sop =? OP_HASH256 then KHash256
  else if (sop =? OP_IF) || (sop =? OP_NOTIF) then KIf (sop =? OP_NOTIF)
  else if sop =? OP_IFDUP then KIfdup
  else if sop =? OP_NIP then KNip
  else if sop =? OP_NOP then KNop
  else if (sop >=? OP_NOP1) && (sop <=? OP_NOP10) then KNopN
  else if sop =? OP_OVER then KOver
  else if (sop =? OP_PICK) || (sop =? OP_ROLL) then KPickRoll (sop =? OP_ROLL)
  else if sop =? OP_RETURN then KReturn
  else if sop =? OP_RIPEMD160 then KRipemd
  else if sop =? OP_ROT then KRot
  else if sop =? OP_SIZE then KSize
  else if sop =? OP_SHA1 then KSha1
  else if sop =? OP_SHA256 then KSha256
  else if sop =? OP_SWAP then KSwap
  else if sop =? OP_TOALTSTACK then KToAlt
  else if sop =? OP_TUCK then KTuck
  else if sop =? OP_VERIFY then KVerify
  else if sop =? OP_WITHIN then KWithin
  else KBad.

(* the body of the selected branch *)
Definition exec (scriptIn : bytes) (s : state) (o : sop) (k : kind) : res state :=
  let sop := sop_opcode o in
  let fExec := check_exec (vfExec s) in
  let st := stack s in
  let ret (st' : list bytes) : res state := Ok (set_stack s st') in
  let rets (r : res (list bytes)) : res state := do st' <- r; ret st' in
  match k with
  | KSmall => do v <- bn2vch (sop - (OP_1 - 1)); ret (push st v)
  | KBin => rets (bin_op sop st)
  | KUn => rets (unary_op sop st)
  | K2Drop => do _ <- check_args st 2; rets (pop_n 2 st)
  | K2Dup => do _ <- check_args st 2; do v1 <- py_nth st (-2); do v2 <- py_nth st (-1); ret (push (push st v1) v2)
  | K2Over => do _ <- check_args st 4; do v1 <- py_nth st (-4); do v2 <- py_nth st (-3); ret (push (push st v1) v2)
  | K2Rot =>
      do _ <- check_args st 6; do v1 <- py_nth st (-6); do v2 <- py_nth st (-5);
      do st1 <- py_del st (-6); do st2 <- py_del st1 (-5); ret (push (push st2 v1) v2)
  | K2Swap =>
      do _ <- check_args st 4;
      do tmp <- py_nth st (-4); do a <- py_nth st (-2); do st1 <- py_set st (-4) a; do st2 <- py_set st1 (-2) tmp;
      do tmp' <- py_nth st2 (-3); do b <- py_nth st2 (-1); do st3 <- py_set st2 (-3) b; do st4 <- py_set st3 (-1) tmp';
      ret st4
  | K3Dup =>
      do _ <- check_args st 3; do v1 <- py_nth st (-3); do v2 <- py_nth st (-2); do v3 <- py_nth st (-1);
      ret (push (push (push st v1) v2) v3)
  | KMultisig vfy => check_multisig vfy (py_slice scriptIn (pbegincodehash s) (lenZ scriptIn)) s
  | KChecksig vfy =>
      do _ <- check_args st 2;
      do vchPubKey <- py_nth st (-1); do vchSig <- py_nth st (-2);
      let tmpScript := py_slice scriptIn (pbegincodehash s) (lenZ scriptIn) in
      do p <- push_of vchSig;
      do tmpScript' <- find_and_delete tmpScript p;
      do ok <- check_sig vchSig vchPubKey tmpScript';
      if negb ok && vfy then fail
      else do st' <- pop_n 2 st;
           if ok then (if negb vfy then ret (push st' [x01]) else ret st')
           else ret (push st' [])
  | KCodesep =>
      Ok {| stack := st; altstack := altstack s; vfExec := vfExec s; pbegincodehash := sop_idx o; nOpCount := nOpCount s |}
  | KDepth => do v <- bn2vch (len st); ret (push st v)
  | KDrop => do _ <- check_args st 1; rets (pop_n 1 st)
  | KDup => do _ <- check_args st 1; do v <- py_nth st (-1); ret (push st v)
  | KElse =>
      if len (vfExec s) =? 0 then fail
      else do b <- py_nth (vfExec s) (-1); do vf <- py_set (vfExec s) (-1) (negb b);
           Ok {| stack := st; altstack := altstack s; vfExec := vf; pbegincodehash := pbegincodehash s; nOpCount := nOpCount s |}
  | KEndif =>
      if len (vfExec s) =? 0 then fail
      else do pr <- py_pop (vfExec s);
           Ok {| stack := st; altstack := altstack s; vfExec := snd pr; pbegincodehash := pbegincodehash s; nOpCount := nOpCount s |}
  | KEqual =>
      do _ <- check_args st 2; do p1 <- py_pop st; do p2 <- py_pop (snd p1);
      ret (push (snd p2) (if bytes_eqb (fst p1) (fst p2) then [x01] else []))
  | KEqualVerify =>
      do _ <- check_args st 2; do v1 <- py_nth st (-1); do v2 <- py_nth st (-2);
      if bytes_eqb v1 v2 then rets (pop_n 2 st) else fail
  | KFromAlt =>
      if len (altstack s) <? 1 then fail
      else do pr <- py_pop (altstack s);
           Ok {| stack := push st (fst pr); altstack := snd pr; vfExec := vfExec s; pbegincodehash := pbegincodehash s; nOpCount := nOpCount s |}
  | KHash160 => do _ <- check_args st 1; do pr <- py_pop st; ret (push (snd pr) (ripemd160 (sha256 (fst pr))))
  | KHash256 => do _ <- check_args st 1; do pr <- py_pop st; ret (push (snd pr) (sha256 (sha256 (fst pr))))
  | KIf neg =>
      do r <- (if fExec then
                 do _ <- check_args st 1; do pr <- py_pop st;
                 let v := cast_to_bool (fst pr) in
                 Ok (snd pr, if neg then negb v else v)
               else Ok (st, false));
      Ok {| stack := fst r; altstack := altstack s; vfExec := vfExec s ++ [snd r]; pbegincodehash := pbegincodehash s; nOpCount := nOpCount s |}
  | KIfdup => do _ <- check_args st 1; do vch <- py_nth st (-1); if cast_to_bool vch then ret (push st vch) else ret st
  | KNip => do _ <- check_args st 2; rets (py_del st (-2))
  | KNop => ret st
  | KNopN => if f_discourage_nops fl then fail else ret st
  | KOver => do _ <- check_args st 2; do vch <- py_nth st (-2); ret (push st vch)
  | KPickRoll roll =>
      do _ <- check_args st 2; do pr <- py_pop st; let st1 := snd pr in
      do n <- cast_to_bignum (fst pr);
      if (n <? 0) || (n >=? len st1) then fail
      else do vch <- py_nth st1 (- n - 1);
           do st2 <- (if roll then py_del st1 (- n - 1) else Ok st1);
           ret (push st2 vch)
  | KReturn => fail
  | KRipemd => do _ <- check_args st 1; do pr <- py_pop st; ret (push (snd pr) (ripemd160 (fst pr)))
  | KRot =>
      do _ <- check_args st 3;
      do tmp <- py_nth st (-3); do a <- py_nth st (-2); do st1 <- py_set st (-3) a; do st2 <- py_set st1 (-2) tmp;
      do tmp' <- py_nth st2 (-2); do b <- py_nth st2 (-1); do st3 <- py_set st2 (-2) b; do st4 <- py_set st3 (-1) tmp';
      ret st4
  | KSize => do _ <- check_args st 1; do x <- py_nth st (-1); do v <- bn2vch (lenZ x); ret (push st v)
  | KSha1 => do _ <- check_args st 1; do pr <- py_pop st; ret (push (snd pr) (sha1 (fst pr)))
  | KSha256 => do _ <- check_args st 1; do pr <- py_pop st; ret (push (snd pr) (sha256 (fst pr)))
  | KSwap =>
      do _ <- check_args st 2;
      do tmp <- py_nth st (-2); do a <- py_nth st (-1); do st1 <- py_set st (-2) a; do st2 <- py_set st1 (-1) tmp; ret st2
  | KToAlt =>
      do _ <- check_args st 1; do pr <- py_pop st;
      Ok {| stack := snd pr; altstack := altstack s ++ [fst pr]; vfExec := vfExec s; pbegincodehash := pbegincodehash s; nOpCount := nOpCount s |}
  | KTuck => do _ <- check_args st 2; do vch <- py_nth st (-1); ret (py_insert st (len st - 2) vch)
  | KVerify => do _ <- check_args st 1; do x <- py_nth st (-1); if cast_to_bool x then rets (pop_n 1 st) else fail
  | KWithin =>
      do _ <- check_args st 3;
      do x3 <- py_nth st (-1); do bn3 <- cast_to_bignum x3;
      do x2 <- py_nth st (-2); do bn2 <- cast_to_bignum x2;
      do x1 <- py_nth st (-3); do bn1 <- cast_to_bignum x1;
      do st' <- pop_n 3 st;
      ret (push st' (if (bn2 <=? bn1) && (bn1 <? bn3) then [x01] else []))
  | KBad => fail
  end.

(* one iteration of the `for (sop, sop_data, sop_pc) in scriptIn.raw_iter()` loop *)
Definition step (scriptIn : bytes) (s : state) (o : sop) : res state :=
  let sop := sop_opcode o in
  let fExec := check_exec (vfExec s) in
  do _ <- (if mem sop DISABLED_OPCODES then fail else Ok tt);
  do s <- (if sop >? OP_16 then
             let n := nOpCount s + 1 in
             if n >? MAX_SCRIPT_OPCODES then fail
             else Ok {| stack := stack s; altstack := altstack s; vfExec := vfExec s;
                        pbegincodehash := pbegincodehash s; nOpCount := n |}
           else Ok s);
  do s' <-
   (if sop <=? OP_PUSHDATA4 then
      match sop_data o with
      | None => Err TypeError                     (* len(None): cannot happen, raw_iter yields data here *)
      | Some d =>
          if lenZ d >? MAX_SCRIPT_ELEMENT_SIZE then fail
          else if fExec then Ok (set_stack s (push (stack s) d))
          else Ok s
      end
    else if fExec || ((OP_IF <=? sop) && (sop <=? OP_ENDIF)) then exec scriptIn s o (kind_of sop)
    else Ok s);
  if len (stack s') + len (altstack s') >? MAX_STACK_ITEMS then fail else Ok s'.

Fixpoint run_ops (scriptIn : bytes) (s : state) (ops : list sop) : res state :=
  match ops with [] => Ok s | o :: r => do s' <- step scriptIn s o; run_ops scriptIn s' r end.

(* _EvalScript, then EvalScript's `except CScriptInvalidError` *)
Definition eval_script_raw (st : list bytes) (scriptIn : bytes) : res (list bytes) :=
  if lenZ scriptIn >? MAX_SCRIPT_SIZE then fail else
  let '(ops, err) := raw_iter scriptIn in
  do s <- run_ops scriptIn {| stack := st; altstack := []; vfExec := []; pbegincodehash := 0; nOpCount := 0 |} ops;
  match err with
  | Some e => Err e
  | None => if negb (len (vfExec s) =? 0) then fail else Ok (stack s)
  end.
Definition eval_script (st : list bytes) (scriptIn : bytes) : res (list bytes) :=
  match eval_script_raw st scriptIn with
  | Err e => if is_script_err e then fail else Err e     (* CScriptInvalidError and subclasses *)
  | r => r
  end.

Definition vfail {A} : res A := Err VerifyErr.
Definition verify_script (scriptSig scriptPubKey : bytes) : res unit :=
  do stack1 <- eval_script [] scriptSig;
  let stackCopy := stack1 in
  do stack2 <- eval_script stack1 scriptPubKey;
  do _ <- (if len stack2 =? 0 then vfail else Ok tt);
  do top <- py_nth stack2 (-1);
  do _ <- (if negb (cast_to_bool top) then vfail else Ok tt);
  do p2sh <- (if f_p2sh fl then is_p2sh scriptPubKey else Ok false);
  do stack3 <-
    (if p2sh then
       do po <- is_push_only scriptSig;
       do _ <- (if negb po then vfail else Ok tt);
       let st := stackCopy in
       do _ <- (if len st =? 0 then Err AssertionError else Ok tt);
       do pr <- py_pop st;
       do st' <- eval_script (snd pr) (fst pr);
       do _ <- (if len st' =? 0 then vfail else Ok tt);
       do top' <- py_nth st' (-1);
       do _ <- (if negb (cast_to_bool top') then vfail else Ok tt);
       Ok st'
     else Ok stack2);
  if f_cleanstack fl then
    (if negb (f_p2sh fl) then Err AssertionError
     else if negb (len stack3 =? 1) then vfail else Ok tt)
  else Ok tt.
End Eval.
