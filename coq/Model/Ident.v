(* Model/Ident.v – identifiers: CTransaction.GetTxid / GetHash, CBlock.GetHash,
   Serializable.__eq__ / __hash__ at the value level (bitcoin/core/__init__.py,
   bitcoin/core/serialize.py).  H is serialize.Hash (double SHA-256) – arbitrary here. *)
From BV Require Import Common.Base Common.Codec Common.Tx Model.Wire.

Section Ident.
Variable H : bytes -> bytes.

(* CTxWitness.serialize(): one stack per entry, no count *)
Definition ser_witness (w : list (list bytes)) : bytes := rep_enc stack_c w.
(* `self.wit != CTxWitness()` is an inequality of serialisations *)
Definition wit_differs_from_default (w : list (list bytes)) : bool := negb (bytes_eqb (ser_witness w) (ser_witness [])).

Definition get_txid (t : tx) : res bytes :=
  if wit_differs_from_default (tx_wit t)
  then do s <- ser_tx true (set_wit t []); Ok (H s)     (* CTransaction(vin, vout, nLockTime, nVersion).serialize() *)
  else do s <- ser_tx true t; Ok (H s).
Definition get_hash (t : tx) : res bytes := do s <- ser_tx true t; Ok (H s).       (* wtxid *)
Definition block_hash (b : block) : bytes := H (enc header_c (b_hdr b)).          (* get_header().GetHash() *)
(* __eq__ between Serializable objects of related classes: equality of serialisations *)
Definition tx_eq (a b : tx) : res bool := do x <- ser_tx true a; do y <- ser_tx true b; Ok (bytes_eqb x y).
End Ident.
