(* Model/RpcWire.v – the document the client reads for a reply given with spelled numbers
   (Spec/Rpc.v): every number becomes its wire text.  This is the only place where the
   MODEL's input type and the SPEC's input type meet. *)
From BV Require Import Common.Base Gen.Rpc Model.Rpc Spec.Rpc.

Fixpoint wire (j : sjson) : json :=
  match j with
  | SJNull => JNull
  | SJBool b => JBool b
  | SJNum s => JNum (spell s)
  | SJStr s => JStr s
  | SJArr l => JArr (map wire l)
  | SJObj l => JObj (map (fun kv => match kv with (k, v) => (k, wire v) end) l)
  end.

Fixpoint wf_sjson (j : sjson) : bool :=
  match j with
  | SJNum s => wf_spelling s
  | SJArr l => forallb wf_sjson l
  | SJObj l => forallb (fun kv => match kv with (_, v) => wf_sjson v end) l
  | _ => true
  end.
