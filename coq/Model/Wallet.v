(* Model/Wallet.v – bitcoin/wallet.py (CBitcoinAddress and its six subclasses), the chain
   selection of bitcoin/__init__.py (SelectParams) / bitcoin/core/__init__.py
   (_SelectCoreParams), and the few pieces of bitcoin/core/script.py the address code uses
   (is_p2sh, is_witness_v0_keyhash / _nested_keyhash / _scripthash, CScript.raw_iter,
   CScript.__iter__, CScript.__new__ over an iterable, CScriptOp.encode_op_pushdata /
   encode_op_n / decode_op_n / is_small_int).
   Tree AFTER the fixes F7 (97c73d1: `assert witver == 0` -> CBitcoinAddressError) and
   F8 (77dc37d: payload length check in CBase58BitcoinAddress.from_bytes).

   Code style: the same tests in the same order, Python slices, try/except chains with
   exactly the exception classes the code names; every partial operation is an Err branch.
   An address object is observed as (class, nVersion or witver, payload bytes).
   Base58Check and Bech32 are NOT re-modelled: Model/Base58.v and Model/Bech32.v are used.
   Chain parameters come from Gen/Core.v, opcode numbers from Gen/ScriptConsts.v (both
   regenerated from /repo on every run).

   Hc   = bitcoin.core.Hash     (checksum of Base58Check)
   H160 = bitcoin.core.Hash160  (from_pubkey)                                          *)
From BV Require Import Common.Base Gen.Core Gen.ScriptConsts.
From BV Require Model.Base58 Model.Bech32.

Notation text := (list Z) (only parsing).

(* ===================== chain selection ===================== *)
(* the two process-wide globals, each observed as the index (into Gen.Core.chains) of the
   chain whose parameter class it is an instance of:
     st_core   = bitcoin.core.coreparams        st_params = bitcoin.params *)
Record pstate := { st_core : Z; st_params : Z }.
(* import time: coreparams = CoreMainParams(), params = MainParams() *)
Definition st_init : pstate := {| st_core := 0; st_params := 0 |}.

(* the chain of `if name == 'mainnet' ... elif name == 'signet'` : first chain whose NAME
   equals name (the four literals are distinct, so the order of the tests is immaterial) *)
Fixpoint name_index (name : text) (l : list chain_params) (i : Z) : option Z :=
  match l with
  | [] => None
  | p :: t => if Model.Bech32.zlist_eqb name (cp_name p) then Some i else name_index name t (i + 1)
  end.

(* bitcoin.core._SelectCoreParams(name): global coreparams = Core<X>Params() | ValueError *)
Definition select_core_params (st : pstate) (name : text) : pstate * res unit :=
  match name_index name chains 0 with
  | Some i => ({| st_core := i; st_params := st_params st |}, Ok tt)
  | None => (st, Err ValueError)
  end.

(* bitcoin.SelectParams(name): _SelectCoreParams FIRST (an unknown name raises there,
   before anything is assigned), then  params = bitcoin.core.coreparams = <X>Params() *)
Definition select_params (st : pstate) (name : text) : pstate * res unit :=
  let '(st1, r) := select_core_params st name in
  match r with
  | Err e => (st1, Err e)
  | Ok _ =>
      match name_index name chains 0 with
      | Some i => ({| st_core := i; st_params := i |}, Ok tt)
      | None => (st1, Err ValueError)                 (* the final `else: raise ValueError` *)
      end
  end.

(* a history of SelectParams calls; every exception is caught by the caller *)
Fixpoint run_history (st : pstate) (names : list text) : pstate * list (res unit) :=
  match names with
  | [] => (st, [])
  | n :: t => let '(st1, r) := select_params st n in
              let '(st2, rs) := run_history st1 t in (st2, r :: rs)
  end.

(* bitcoin.params as a parameter record *)
Definition params_of (st : pstate) : res chain_params :=
  if st_params st <? 0 then Err OtherErr else
  match nth_error chains (Z.to_nat (st_params st)) with
  | Some p => Ok p
  | None => Err OtherErr
  end.

(* ===================== script helpers (bitcoin/core/script.py) ===================== *)
(* s[i] == v, guarded by a length test in every use below *)
Definition at_is (s : bytes) (i : nat) (v : Z) : bool :=
  match nth_error s i with Some b => b2z b =? v | None => false end.
(* s[a:b] for 0 <= a <= b (Python clamps to the length) *)
Definition slice (s : bytes) (a b : nat) : bytes := firstn (b - a) (skipn a s).

Definition is_p2sh (s : bytes) : bool :=
  (lenZ s =? 23) && at_is s 0 OP_HASH160 && at_is s 1 20 && at_is s 22 OP_EQUAL.
Definition is_witness_v0_keyhash (s : bytes) : bool :=
  (lenZ s =? 22) && bytes_eqb (slice s 0 2) [x00; x14].
Definition is_witness_v0_nested_keyhash (s : bytes) : bool :=
  (lenZ s =? 23) && bytes_eqb (slice s 0 3) [x16; x00; x14].
Definition is_witness_v0_scripthash (s : bytes) : bool :=
  (lenZ s =? 34) && bytes_eqb (slice s 0 2) [x00; x20].

(* CScriptOp.encode_op_pushdata(d) *)
Definition push_data (d : bytes) : res bytes :=
  let n := lenZ d in
  if n <? 76 then Ok (z2b n :: d)
  else if n <=? 255 then Ok (x4c :: z2b n :: d)
  else if n <=? 65535 then Ok (x4d :: le_enc 2 n ++ d)
  else if n <=? 4294967295 then Ok (x4e :: le_enc 4 n ++ d)
  else Err ValueError.

(* l[:n] / l[n:] for n >= 0 without building a huge unary number when n exceeds the length *)
Definition take (n : Z) (l : bytes) : bytes := firstn (Z.to_nat (Z.min n (lenZ l))) l.
Definition drop (n : Z) (l : bytes) : bytes := skipn (Z.to_nat (Z.min n (lenZ l))) l.

(* CScript.raw_iter: (opcode, data | None); fuel = one iteration per byte is enough *)
Fixpoint raw_iter (fuel : nat) (s : bytes) : res (list (Z * option bytes)) :=
  match fuel with
  | O => Err OutOfFuel
  | S f =>
    match s with
    | [] => Ok []
    | b :: rest =>
      let opcode := b2z b in
      if opcode >? OP_PUSHDATA4 then
        do r <- raw_iter f rest; Ok ((opcode, None) :: r)
      else
        do hd <- (if opcode <? OP_PUSHDATA1 then Ok (opcode, rest)
                  else if opcode =? OP_PUSHDATA1 then
                    match rest with
                    | l0 :: r => Ok (b2z l0, r)
                    | _ => Err InvalidScript                          (* missing data length *)
                    end
                  else if opcode =? OP_PUSHDATA2 then
                    match rest with
                    | l0 :: l1 :: r => Ok (b2z l0 + Z.shiftl (b2z l1) 8, r)
                    | _ => Err InvalidScript
                    end
                  else if opcode =? OP_PUSHDATA4 then
                    match rest with
                    | l0 :: l1 :: l2 :: l3 :: r =>
                        Ok (b2z l0 + Z.shiftl (b2z l1) 8 + Z.shiftl (b2z l2) 16 + Z.shiftl (b2z l3) 24, r)
                    | _ => Err InvalidScript
                    end
                  else Err AssertionError);                           (* assert False *)
        let '(datasize, rest') := hd in
        let data := take datasize rest' in
        if lenZ data <? datasize then Err TruncatedPush                (* subclass of CScriptInvalidError *)
        else do r <- raw_iter f (drop datasize rest'); Ok ((opcode, Some data) :: r)
    end
  end.

(* what CScript.__iter__ yields *)
Inductive tok := TInt (n : Z) | TData (d : bytes) | TOp (op : Z).
Definition is_small_int (op : Z) : bool := ((81 <=? op) && (op <=? 96)) || (op =? 0).
Definition cook (t : Z * option bytes) : tok :=
  let '(opcode, data) := t in
  if opcode =? 0 then TInt 0
  else match data with
       | Some d => TData d
       | None => if is_small_int opcode then TInt (opcode - OP_1 + 1)   (* decode_op_n *)
                 else TOp opcode
       end.
(* CScript.__coerce_instance *)
Definition coerce (t : tok) : res bytes :=
  match t with
  | TOp op => Ok [z2b op]
  | TInt n => if (0 <=? n) && (n <=? 16)
              then Ok [z2b (if n =? 0 then OP_0 else OP_1 + n - 1)]     (* encode_op_n *)
              else if n =? -1 then Ok [z2b OP_1NEGATE]
              else Err OtherErr     (* bn2vch push: __iter__ never yields such an int *)
  | TData d => push_data d
  end.
Fixpoint join_coerced (l : list tok) : res bytes :=
  match l with
  | [] => Ok []
  | t :: r => do a <- coerce t; do b <- join_coerced r; Ok (a ++ b)
  end.
(* CScript(tuple(scriptPubKey)): the tuple is built completely (iteration errors first),
   then every element is coerced and joined *)
Definition canon_script (s : bytes) : res bytes :=
  do raw <- raw_iter (S (length s)) s;
  join_coerced (map cook raw).

(* ===================== address objects ===================== *)
Inductive acls := P2PKH | P2SH | P2WPKH | P2WSH.
Record addr := { a_cls : acls; a_ver : Z; a_data : bytes }.

(* CBech32BitcoinAddress.from_bytes(witver, witprog)   [after F7] *)
Definition bech32addr_from_bytes (witver : Z) (witprog : list Z) : res addr :=
  if negb (witver =? 0) then Err AddressErr else
  do o <- Model.Bech32.cb_from_bytes witver witprog;      (* bytes(witprog); CBech32Data.from_bytes *)
  let n := lenZ (snd o) in
  if n =? 32 then Ok {| a_cls := P2WSH; a_ver := fst o; a_data := snd o |}
  else if n =? 20 then Ok {| a_cls := P2WPKH; a_ver := fst o; a_data := snd o |}
  else Err AddressErr.

(* CBase58BitcoinAddress.from_bytes(data, nVersion)   [after F8] *)
Definition b58addr_from_bytes (p : chain_params) (data : bytes) (nVersion : Z) : res addr :=
  do o <- Model.Base58.from_bytes data nVersion;          (* CBase58Data.from_bytes: 0..255 *)
  if negb (lenZ (snd o) =? 20) then Err AddressErr else
  if nVersion =? cp_script_addr p then Ok {| a_cls := P2SH; a_ver := fst o; a_data := snd o |}
  else if nVersion =? cp_pubkey_addr p then Ok {| a_cls := P2PKH; a_ver := fst o; a_data := snd o |}
  else Err AddressErr.

(* P2SHBitcoinAddress.from_bytes(data, nVersion=None) *)
Definition p2sh_from_bytes (p : chain_params) (data : bytes) (nVersion : option Z) : res addr :=
  match nVersion with
  | None => b58addr_from_bytes p data (cp_script_addr p)
  | Some v => if negb (v =? cp_script_addr p) then Err ValueError else b58addr_from_bytes p data v
  end.
(* P2PKHBitcoinAddress.from_bytes(data, nVersion=None) *)
Definition p2pkh_from_bytes (p : chain_params) (data : bytes) (nVersion : option Z) : res addr :=
  match nVersion with
  | None => b58addr_from_bytes p data (cp_pubkey_addr p)
  | Some v => if negb (v =? cp_pubkey_addr p) then Err ValueError else b58addr_from_bytes p data v
  end.
(* P2PKHBitcoinAddress.from_pubkey(pubkey, accept_invalid=True), pubkey a bytes instance *)
Definition p2pkh_from_pubkey (H160 : bytes -> bytes) (p : chain_params) (pubkey : bytes) : res addr :=
  p2pkh_from_bytes p (H160 pubkey) None.

(* ---------- from_scriptPubKey matchers ---------- *)
Definition p2wsh_from_spk (spk : bytes) : res addr :=
  if is_witness_v0_scripthash spk then bech32addr_from_bytes 0 (map b2z (slice spk 2 34))
  else Err AddressErr.
Definition p2wpkh_from_spk (spk : bytes) : res addr :=
  if is_witness_v0_keyhash spk then bech32addr_from_bytes 0 (map b2z (slice spk 2 22))
  else Err AddressErr.
Definition p2sh_from_spk (p : chain_params) (spk : bytes) : res addr :=
  if is_p2sh spk then p2sh_from_bytes p (slice spk 2 22) (Some (cp_script_addr p))
  else Err AddressErr.

(* P2PKHBitcoinAddress.from_scriptPubKey(scriptPubKey, accept_non_canonical_pushdata,
   accept_bare_checksig) *)
Definition p2pkh_from_spk (H160 : bytes -> bytes) (p : chain_params) (spk : bytes)
           (non_canonical bare : bool) : res addr :=
  do spk <- (if non_canonical then
               match canon_script spk with
               | Ok s => Ok s
               | Err InvalidScript | Err TruncatedPush => Err AddressErr   (* except CScriptInvalidError *)
               | Err e => Err e
               end
             else Ok spk);
  if is_witness_v0_keyhash spk then
    p2pkh_from_bytes p (slice spk 2 22) (Some (cp_pubkey_addr p))
  else if is_witness_v0_nested_keyhash spk then
    p2pkh_from_bytes p (slice spk 3 23) (Some (cp_pubkey_addr p))
  else if (lenZ spk =? 25) && at_is spk 0 OP_DUP && at_is spk 1 OP_HASH160 && at_is spk 2 20
          && at_is spk 23 OP_EQUALVERIFY && at_is spk 24 OP_CHECKSIG then
    p2pkh_from_bytes p (slice spk 3 23) (Some (cp_pubkey_addr p))
  else if bare then
    let pubkey :=
      if (lenZ spk =? 35) && at_is spk 0 33 && at_is spk 34 OP_CHECKSIG then Some (slice spk 1 34)
      else if (lenZ spk =? 67) && at_is spk 0 65 && at_is spk 66 OP_CHECKSIG
           then Some (slice spk 1 65)            (* 64 of the 65 pubkey bytes (F9) *)
      else None in
    match pubkey with
    | Some pk => p2pkh_from_pubkey H160 p pk
    | None => Err AddressErr
    end
  else Err AddressErr.

(* try: ... except CBitcoinAddressError: pass *)
Definition or_else (r k : res addr) : res addr :=
  match r with Err AddressErr => k | _ => r end.

(* CBech32BitcoinAddress.from_scriptPubKey *)
Definition bech32_from_spk (spk : bytes) : res addr :=
  or_else (p2wsh_from_spk spk) (or_else (p2wpkh_from_spk spk) (Err AddressErr)).
(* CBase58BitcoinAddress.from_scriptPubKey *)
Definition base58_from_spk (H160 : bytes -> bytes) (p : chain_params) (spk : bytes) : res addr :=
  or_else (p2sh_from_spk p spk) (or_else (p2pkh_from_spk H160 p spk true true) (Err AddressErr)).
(* CBitcoinAddress.from_scriptPubKey *)
Definition from_spk (H160 : bytes -> bytes) (p : chain_params) (spk : bytes) : res addr :=
  or_else (bech32_from_spk spk) (or_else (base58_from_spk H160 p spk) (Err AddressErr)).

(* ---------- to_scriptPubKey ---------- *)
Definition to_spk (p : chain_params) (a : addr) : res bytes :=
  match a_cls a with
  | P2SH =>
      if negb (a_ver a =? cp_script_addr p) then Err AssertionError else
      do d <- push_data (a_data a); Ok (z2b OP_HASH160 :: d ++ [z2b OP_EQUAL])
  | P2PKH =>
      if negb (a_ver a =? cp_pubkey_addr p) then Err AssertionError else
      do d <- push_data (a_data a);
      Ok (z2b OP_DUP :: z2b OP_HASH160 :: d ++ [z2b OP_EQUALVERIFY; z2b OP_CHECKSIG])
  | P2WSH | P2WPKH =>
      if negb (a_ver a =? 0) then Err AssertionError else
      do d <- push_data (a_data a); Ok (z2b OP_0 :: d)          (* CScript([0, self]) *)
  end.

(* ---------- str(addr) ---------- *)
Definition to_text (Hc : bytes -> bytes) (p : chain_params) (a : addr) : res text :=
  match a_cls a with
  | P2SH | P2PKH => Model.Base58.to_str Hc (a_ver a, a_data a)
  | P2WSH | P2WPKH => Model.Bech32.cb_str (cp_hrp p) (a_ver a, a_data a)
  end.

(* ---------- CBitcoinAddress(s) ---------- *)
(* CBech32BitcoinAddress(s) = CBech32Data.__new__: decode under params.BECH32_HRP, then the
   class's own from_bytes *)
Definition bech32_new (p : chain_params) (s : text) : res addr :=
  do d <- Model.Bech32.decode (cp_hrp p) s;
  match d with
  | None => Err Bech32Err
  | Some (witver, data) => bech32addr_from_bytes witver data
  end.
(* CBase58BitcoinAddress(s) = CBase58Data.__new__: checksum, then cls.from_bytes(data,
   verbyte[0]) (Model.Base58.check_decode ends with CBase58Data.from_bytes, which is the
   first step of CBase58BitcoinAddress.from_bytes and is simply repeated there) *)
Definition base58_new (Hc : bytes -> bytes) (p : chain_params) (s : text) : res addr :=
  do o <- Model.Base58.check_decode Hc s;
  b58addr_from_bytes p (snd o) (fst o).

(* CBitcoinAddress.__new__: except bitcoin.bech32.Bech32Error / bitcoin.base58.Base58Error *)
Definition parse (Hc : bytes -> bytes) (p : chain_params) (s : text) : res addr :=
  match bech32_new p s with
  | Err Bech32Err =>
      match base58_new Hc p s with
      | Err Base58Invalid | Err Base58Checksum => Err AddressErr
      | r => r
      end
  | r => r
  end.

(* CBitcoinAddress(x) for an argument that is not a str (a bytes object or an int): the first
   statements of segwit_addr.bech32_decode raise TypeError (ord() of an int element of a bytes
   object, bytes.rfind with a str argument for b'', iteration over an int), which __new__ does
   not catch (it names Bech32Error only) *)
Inductive pyarg := AStr (s : text) | ABytes (b : bytes) | AInt (n : Z).
Definition parse_arg (Hc : bytes -> bytes) (p : chain_params) (x : pyarg) : res addr :=
  match x with
  | AStr s => parse Hc p s
  | ABytes _ | AInt _ => Err TypeError
  end.

(* ===================== the same under the process-wide state ===================== *)
Definition st_from_spk (H160 : bytes -> bytes) (st : pstate) (spk : bytes) : res addr :=
  do p <- params_of st; from_spk H160 p spk.
Definition st_to_spk (st : pstate) (a : addr) : res bytes := do p <- params_of st; to_spk p a.
Definition st_to_text (Hc : bytes -> bytes) (st : pstate) (a : addr) : res text :=
  do p <- params_of st; to_text Hc p a.
Definition st_parse (Hc : bytes -> bytes) (st : pstate) (s : text) : res addr :=
  do p <- params_of st; parse Hc p s.
