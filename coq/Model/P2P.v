(* Model/P2P.v – bitcoin/messages.py and bitcoin/net.py as the code is written:
   MsgSerializable.to_bytes / stream_deserialize (header build and parse with the
   regenerated slices and struct formats of Gen/P2P.v, checksum, dispatch through the
   regenerated messagemap), the 17 msg_ser / msg_deser payload codecs composed from the
   combinators of Common/Codec.v with the regenerated per-method formats,
   msg_version.msg_deser with its nVersion-conditional reads, CAddress with the
   protover-dependent time field and the IPv4-mapped prefix rule.
   What the code does, deviations from the protocol included:
     * msg_headers writes and reads 80-byte headers (no per-header tx count)      [F15]
     * msg_version.msg_ser always writes the relay byte, msg_deser reads it only for
       nVersion >= 70001 and rewrites nVersion 10300 to 300                         [F16]
     * the payload is parsed from its own BytesIO and what msg_deser leaves unread is
       dropped silently.
   Addresses are their wire bytes (see Common/P2PMsg.v): ":" in ip  <->  16 bytes. *)
From BV Require Import Common.Base Common.Codec Common.Tx Common.P2PMsg Gen.Core Gen.Layouts Gen.P2P Model.Wire.

(* ---------- struct formats with byte order ---------- *)
Definition nth_pf (k : nat) (l : list pfmt) : pfmt := nth k l CH.
Definition nth_raw (k : nat) (l : list Z) : nat := Z.to_nat (nth k l 0).
(* struct '>H' ... : the little-endian codec on the reversed bytes *)
Definition be_codec (f : fmt) : codec Z := {|
  wf := wf (fmt_codec f);
  enc := fun v => rev (enc (fmt_codec f) v);
  decode := fun b => do xr <- take_n (f_width f) b; do vr <- decode (fmt_codec f) (rev (fst xr)); Ok (fst vr, snd xr);
  norm := fun v => v |}.
Definition pf_codec (p : pfmt) : codec Z :=
  match p with LE f => fmt_codec f | BE f => be_codec f | CH => le_uint 0 end.
(* an integer field packed with format pe and unpacked with format pd *)
Definition pfield (pe pd : pfmt) : codec Z := {|
  wf := wf (pf_codec pe); enc := enc (pf_codec pe); decode := decode (pf_codec pd); norm := fun v => v |}.
(* struct '<c': a bytes object of length 1 *)
Definition chfield (pe pd : pfmt) : codec bytes :=
  match pe, pd with CH, CH => raw 1 | _, _ => raw 0 end.

(* ---------- net.py ---------- *)
Definition py_slice (lo hi : Z) (b : bytes) : bytes :=      (* b[lo:hi], lo >= 0; a negative hi counts from the end *)
  let n := lenZ b in
  let hi' := if hi <? 0 then Z.max 0 (n + hi) else Z.min hi n in
  let lo' := Z.min lo n in
  if hi' <=? lo' then [] else firstn (Z.to_nat (hi' - lo')) (skipn (Z.to_nat lo') b).

(* stream_serialize: ":" in self.ip -> inet_pton(AF_INET6) (16 bytes), else pchReserved ++ inet_pton(AF_INET) *)
Definition ip_enc (ip : bytes) : bytes := if (length ip =? 16)%nat then ip else CADDR_PCHRESERVED ++ ip.
(* stream_deserialize: packedIP[0:12] == IPV4_COMPAT -> inet_ntop(AF_INET, packedIP[12:16]) else inet_ntop(AF_INET6, packedIP) *)
Definition ip_of_packed (p : bytes) : bytes :=
  if bytes_eqb (py_slice (fst caddr_prefix_slice) (snd caddr_prefix_slice) p) IPV4_COMPAT
  then py_slice (fst caddr_v4_slice) (snd caddr_v4_slice) p else p.
Definition ip_c : codec bytes := {|
  wf := fun ip => length ip = 4%nat \/ length ip = 16%nat;
  enc := ip_enc;
  decode := fun b => do xr <- take_n (nth_raw 2 raw_CAddress_deser) b; Ok (ip_of_packed (fst xr), snd xr);
  norm := fun ip => ip_of_packed (ip_enc ip) |}.

Definition mk_netaddr (p : Z * (bytes * Z)) : netaddr :=
  {| na_services := fst p; na_ip := fst (snd p); na_port := snd (snd p) |}.
Definition un_netaddr (a : netaddr) : Z * (bytes * Z) := (na_services a, (na_ip a, na_port a)).
(* CAddress without the time field (what `without_time=True` leaves) *)
Definition netaddr_c : codec netaddr :=
  map_iso mk_netaddr un_netaddr
    (seq (pfield (nth_pf 1 pf_CAddress_ser) (nth_pf 1 pf_CAddress_deser))
      (seq ip_c (pfield (nth_pf 2 pf_CAddress_ser) (nth_pf 2 pf_CAddress_deser)))).
Definition caddr_time_c := pfield (nth_pf 0 pf_CAddress_ser) (nth_pf 0 pf_CAddress_deser).
Definition has_time (protover : Z) (without_time : bool) : bool := (protover >=? CADDR_TIME_VERSION) && negb without_time.
Definition caddr_enc (without_time : bool) (a : taddr) : bytes :=
  (if has_time (ta_protover a) without_time then enc caddr_time_c (ta_time a) else []) ++ enc netaddr_c (ta_addr a).
(* c = cls(): protover = PROTO_VERSION, nTime = 0 *)
Definition caddr_dec (without_time : bool) (b : bytes) : res (taddr * bytes) :=
  do tr <- (if has_time PROTO_VERSION without_time then decode caddr_time_c b else Ok (0, b));
  do ar <- decode netaddr_c (snd tr);
  Ok ({| ta_protover := PROTO_VERSION; ta_time := fst tr; ta_addr := fst ar |}, snd ar).
Definition taddr_c : codec taddr := {|
  wf := fun a => CADDR_TIME_VERSION <= ta_protover a /\ wf caddr_time_c (ta_time a) /\ wf netaddr_c (ta_addr a);
  enc := caddr_enc false;
  decode := caddr_dec false;
  norm := fun a => {| ta_protover := PROTO_VERSION; ta_time := ta_time a; ta_addr := norm netaddr_c (ta_addr a) |} |}.

Definition hash_c (k : nat) (l : list Z) : codec bytes := raw (nth_raw k l).
Definition inv_c : codec inv :=
  map_iso (fun p => {| inv_type := fst p; inv_hash := snd p |}) (fun x => (inv_type x, inv_hash x))
    (seq (pfield (nth_pf 0 pf_CInv_ser) (nth_pf 0 pf_CInv_deser)) (hash_c 1 raw_CInv_deser)).
Definition u256vec_c : codec (list bytes) := vector (hash_c 0 raw_uint256VectorSerializer_deser).
Definition locator_c : codec locator :=
  map_iso (fun p => {| loc_version := fst p; loc_have := snd p |}) (fun x => (loc_version x, loc_have x))
    (seq (pfield (nth_pf 0 pf_CBlockLocator_ser) (nth_pf 0 pf_CBlockLocator_deser)) u256vec_c).
Definition varstr_c : codec bytes := varbytes MAX_SIZE.        (* VarStringSerializer *)

(* ---------- messages.py: payloads ---------- *)
Definition getblocks_c (raws : list Z) : codec (locator * bytes) := seq locator_c (hash_c 0 raws).
Definition alert_c : codec (bytes * bytes) := seq varstr_c varstr_c.
Definition reject_c : codec (bytes * (bytes * bytes)) :=
  seq varstr_c (seq (chfield (nth_pf 0 pf_msg_reject_ser) (nth_pf 0 pf_msg_reject_deser)) varstr_c).
Definition ping_c := pfield (nth_pf 0 pf_msg_ping_ser) (nth_pf 0 pf_msg_ping_deser).
Definition pong_c := pfield (nth_pf 0 pf_msg_pong_ser) (nth_pf 0 pf_msg_pong_deser).
Definition headers_c : codec (list header) := vector header_c.          (* 80 bytes per entry *)

(* msg_version *)
Definition vf (k : nat) : codec Z := pfield (nth_pf k pf_msg_version_ser) (nth_pf k pf_msg_version_deser).
Definition oenc {A} (c : codec A) (o : option A) : bytes := match o with Some x => enc c x | None => [] end.
Definition version_enc (v : version_msg) : bytes :=
  enc (vf 0) (v_version v) ++ enc (vf 1) (v_services v) ++ enc (vf 2) (v_time v) ++ enc netaddr_c (v_to v) ++
  oenc netaddr_c (v_from v) ++ oenc (vf 3) (v_nonce v) ++ oenc varstr_c (v_subver v) ++ oenc (vf 4) (v_height v) ++
  enc (vf 5) (v_relay v).
(* msg_ser on an object with None fields (as msg_deser produces for an old nVersion) *)
Definition version_ser (v : version_msg) : res bytes :=
  match v_from v, v_nonce v, v_subver v, v_height v with
  | None, _, _, _ => Err AttributeError
  | _, None, _, _ => Err StructError
  | _, _, None, _ => Err TypeError
  | _, _, _, None => Err StructError
  | _, _, _, _ => Ok (version_enc v)
  end.
Definition version_dec (b : bytes) : res (version_msg * bytes) :=
  do vr <- decode (vf 0) b;
  let nv := if fst vr =? ver_quirk_from then ver_quirk_to else fst vr in
  do sr <- decode (vf 1) (snd vr);
  do tr <- decode (vf 2) (snd sr);
  do ar <- decode netaddr_c (snd tr);
  do gr <- (if nv >=? ver_addrfrom_min then
              do fr <- decode netaddr_c (snd ar);
              do nr <- decode (vf 3) (snd fr);
              do ur <- decode varstr_c (snd nr);
              do hr <- (if nv >=? ver_height_min
                        then do h <- decode (vf 4) (snd ur); Ok (Some (fst h), snd h)
                        else Ok (None, snd ur));
              Ok ((Some (fst fr), Some (fst nr), Some (fst ur), fst hr), snd hr)
            else Ok ((None, None, None, None), snd ar));
  do rr <- (if nv >=? ver_relay_min then decode (vf 5) (snd gr) else Ok (ver_relay_default, snd gr));
  let '(f, n, u, h) := fst gr in
  Ok ({| v_version := nv; v_services := fst sr; v_time := fst tr; v_to := fst ar;
         v_from := f; v_nonce := n; v_subver := u; v_height := h; v_relay := fst rr |}, snd rr).

(* msg_ser: the bytes written (defined on values in range) *)
Definition payload_enc (m : msg) : bytes :=
  match m with
  | MVersion v => version_enc v
  | MVerack | MGetaddr | MMempool => []
  | MAddr l => enc (vector taddr_c) l
  | MAlert a s => enc alert_c (a, s)
  | MInv l | MGetdata l | MNotfound l => enc (vector inv_c) l
  | MGetblocks loc stop => enc (getblocks_c raw_msg_getblocks_deser) (loc, stop)
  | MGetheaders loc stop => enc (getblocks_c raw_msg_getheaders_deser) (loc, stop)
  | MHeaders l => enc headers_c l
  | MTx t => enc tx_c t
  | MBlock b => enc block_c b
  | MPing n => enc ping_c n
  | MPong n => enc pong_c n
  | MReject a c r => enc reject_c (a, (c, r))
  end.
(* msg_ser including the exceptions the value itself can cause *)
Definition msg_ser (m : msg) : res bytes :=
  match m with
  | MVersion v => version_ser v
  | MTx t => ser_tx true t
  | _ => Ok (payload_enc m)
  end.

(* cls.msg_deser(BytesIO(msg)): what is left unread is dropped *)
Definition dec_as {A} (c : codec A) (f : A -> msg) (b : bytes) : res msg := do r <- decode c b; Ok (f (fst r)).
Definition payload_dec (cls : nat) (b : bytes) : res msg :=
  match cls with
  | 0 => do r <- version_dec b; Ok (MVersion (fst r))
  | 1 => Ok MVerack
  | 2 => dec_as (vector taddr_c) MAddr b
  | 3 => dec_as alert_c (fun p => MAlert (fst p) (snd p)) b
  | 4 => dec_as (vector inv_c) MInv b
  | 5 => dec_as (vector inv_c) MGetdata b
  | 6 => dec_as (vector inv_c) MNotfound b
  | 7 => dec_as (getblocks_c raw_msg_getblocks_deser) (fun p => MGetblocks (fst p) (snd p)) b
  | 8 => dec_as (getblocks_c raw_msg_getheaders_deser) (fun p => MGetheaders (fst p) (snd p)) b
  | 9 => dec_as headers_c MHeaders b
  | 10 => dec_as tx_c MTx b
  | 11 => dec_as block_c MBlock b
  | 12 => Ok MGetaddr
  | 13 => dec_as ping_c MPing b
  | 14 => dec_as pong_c MPong b
  | 15 => dec_as reject_c (fun p => MReject (fst p) (fst (snd p)) (snd (snd p))) b
  | 16 => Ok MMempool
  | _ => Err OtherErr
  end%nat.

(* what a frame round trip returns: all-empty witness stacks read back as "no witness",
   CAddress objects are rebuilt with the default protover, an IPv4-mapped IPv6 address
   reads back as the IPv4 address *)
Definition norm_version (v : version_msg) : version_msg :=
  {| v_version := v_version v; v_services := v_services v; v_time := v_time v; v_to := norm netaddr_c (v_to v);
     v_from := option_map (norm netaddr_c) (v_from v); v_nonce := v_nonce v; v_subver := v_subver v;
     v_height := v_height v; v_relay := v_relay v |}.
Definition norm_msg (m : msg) : msg :=
  match m with
  | MVersion v => MVersion (norm_version v)
  | MAddr l => MAddr (map (norm taddr_c) l)
  | MTx t => MTx (norm_wit t)
  | MBlock b => MBlock {| b_hdr := b_hdr b; b_vtx := map norm_wit (b_vtx b) |}
  | _ => m
  end.

(* ---------- framing ---------- *)
Definition command_of (m : msg) : bytes := nth (class_of m) commands [].
Fixpoint lookup (k : bytes) (t : list (bytes * nat)) : option nat :=
  match t with [] => None | (k', v) :: r => if bytes_eqb k k' then Some v else lookup k r end.
Fixpoint take_until (s : byte) (b : bytes) : bytes :=
  match b with [] => [] | x :: t => if Byte.eqb x s then [] else x :: take_until s t end.
Definition split_first (sep b : bytes) : bytes :=       (* b.split(sep, 1)[0] for a one-byte separator *)
  match sep with [s] => take_until s b | _ => b end.
Definition bytes_times (p : bytes) (n : Z) : bytes := concat (repeat p (Z.to_nat n)).    (* p * n *)

(* f.read(n) and ser_read(f, n) on the stream b: result and the stream afterwards *)
Definition py_read (n : Z) (b : bytes) : bytes * bytes :=
  if n <? 0 then (b, [])
  else if lenZ b <=? n then (b, [])        (* no more than what is there (and no huge unary count) *)
  else (firstn (Z.to_nat n) b, skipn (Z.to_nat n) b).
Definition ser_read_s (n : Z) (b : bytes) : res bytes * bytes :=
  if n >? MAX_SIZE then (Err SerErr, b)
  else let rr := py_read n b in
       if lenZ (fst rr) <? n then (Err Trunc, snd rr) else (Ok (fst rr), snd rr).
(* struct.unpack(fmt, s)[0]: s must have exactly the size of the format *)
Definition unpack1 (p : pfmt) (s : bytes) : res Z :=
  match decode (pf_codec p) s with
  | Ok (v, []) => Ok v
  | _ => Err StructError
  end.

Section Frame.
Variable H : bytes -> bytes.        (* serialize.Hash: double SHA-256 *)
Variable magic : bytes.             (* bitcoin.params.MESSAGE_START of the selected chain *)

Definition frame_bytes (command body : bytes) : bytes :=
  magic ++ command ++ bytes_times hdr_pad (hdr_cmd_width - lenZ command) ++
  enc (pf_codec (nth_pf 0 hdr_pack)) (lenZ body) ++ firstn (Z.to_nat hdr_ck_len_write) (H body) ++ body.
Definition to_bytes (m : msg) : bytes := frame_bytes (command_of m) (payload_enc m).
Definition to_bytes_res (m : msg) : res bytes := do body <- msg_ser m; Ok (frame_bytes (command_of m) body).

(* MsgSerializable.stream_deserialize(f) on the stream b: (message | None | exception, stream afterwards);
   lenfmt is the struct format the length field is unpacked with *)
Definition parse_frame_gen (lenfmt : pfmt) (b : bytes) : res (option msg) * bytes :=
  match ser_read_s hdr_size b with
  | (Err e, rest) => (Err e, rest)
  | (Ok hdr, rest) =>
      if negb (bytes_eqb (py_slice 0 hdr_magic_len hdr) magic) then (Err ValueError, rest) else
      let command := split_first hdr_cmd_split (py_slice (fst hdr_cmd_slice) (snd hdr_cmd_slice) hdr) in
      match unpack1 lenfmt (py_slice (fst hdr_len_slice) (snd hdr_len_slice) hdr) with
      | Err e => (Err e, rest)
      | Ok msglen =>
          let checksum := py_slice (fst hdr_ck_slice) (snd hdr_ck_slice) hdr in
          match ser_read_s msglen rest with
          | (Err e, rest') => (Err e, rest')
          | (Ok body, rest') =>
              let recvbuf := hdr ++ body in
              let payload := py_slice hdr_body_lo (hdr_body_lo + msglen) recvbuf in
              if match hdr_ck_check with
                 | Some k => negb (bytes_eqb checksum (firstn (Z.to_nat k) (H payload)))
                 | None => false        (* no checksum comparison in the source *)
                 end then (Err ValueError, rest')
              else match lookup command messagemap with
                   | Some cls => (match payload_dec cls payload with Ok m => Ok (Some m) | Err e => Err e end, rest')
                   | None => (Ok None, rest')
                   end
          end
      end
  end.
Definition parse_frame : bytes -> res (option msg) * bytes := parse_frame_gen (nth_pf 0 hdr_unpack).

(* reading a whole stream: `while f.tell() < len(stream): stream_deserialize(f)`;
   each entry = (message or None, bytes remaining afterwards); terminal Ok = clean end *)
Fixpoint parse_stream (fuel : nat) (b : bytes) : list (option msg * nat) * res unit * bytes :=
  match b with
  | [] => ([], Ok tt, [])
  | _ :: _ =>
      match fuel with
      | O => ([], Err OutOfFuel, b)
      | S f =>
          match parse_frame b with
          | (Err e, rest) => ([], Err e, rest)
          | (Ok m, rest) =>
              let r := parse_stream f rest in
              ((m, length rest) :: fst (fst r), snd (fst r), snd r)
          end
      end
  end.
End Frame.
