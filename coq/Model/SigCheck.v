(* Model/SigCheck.v – scripteval._CheckSig as the interpreter's oracle (C05):
     key.set_pubkey(pubkey); if len(sig) == 0: return False; hashtype = sig[-1]; sig = sig[:-1]
     (h, err) = RawSignatureHash(script, txTo, inIdx, hashtype); return key.verify(h, sig)
   for a transaction [t] and input index [idx], over an arbitrary curve E and hash H.  The
   error flag of RawSignatureHash is ignored (the HASH_ONE digest is verified against), an
   exception inside it (unparsable subscript) cannot happen here because the interpreter
   has already run FindAndDelete over the same bytes. *)
From BV Require Import Common.Base Common.Tx Spec.Ecdsa Spec.Der Model.Key Model.Sighash.

Section O.
Variable H : bytes -> bytes.
Variable E : curve.
Definition real_checksig (t : tx) (idx : Z) (sig pk code : bytes) : bool :=
  match rev sig with
  | [] => false
  | htb :: rsig =>
      match raw_sighash H code t idx (b2z htb) with
      | Ok (h, _) => cec_verify E (sec1_dec E pk) h (rev rsig)
      | Err _ => false
      end
  end.
End O.
