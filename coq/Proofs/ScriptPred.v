(* Proofs/ScriptPred.v – C08: every classification predicate of the MODEL equals its
   reference definition on EVERY byte string (and never raises), and so do both modes of
   GetSigOpCount. *)
From BV Require Import Common.Base Model.Script Spec.Script Proofs.ScriptIter Proofs.ScriptBuild.

Ltac pconsts := unfold OP_0, OP_1, OP_16, OP_PUSHDATA1, OP_PUSHDATA2, OP_PUSHDATA4, OP_HASH160, OP_EQUAL,
  OP_RETURN, OP_CHECKSIG, OP_CHECKSIGVERIFY, OP_CHECKMULTISIG, OP_CHECKMULTISIGVERIFY, OP_INVALIDOPCODE,
  SIGOPS_PER_CHECKSIG, SIGOPS_PER_MULTISIG_DEFAULT in *.

(* ---------- small bridges ---------- *)
Lemma byte_eqb_b2z a b : Byte.eqb a b = (b2z a =? b2z b).
Proof.
  destruct (Z.eqb_spec (b2z a) (b2z b)) as [E|N].
  - apply b2z_inj in E. subst. apply Byte.byte_dec_lb. reflexivity.
  - destruct (Byte.eqb a b) eqn:E; [|reflexivity]. apply Byte.byte_dec_bl in E. subst. congruence.
Qed.
Lemma len_eqb (s : bytes) n : (lenZ s =? Z.of_nat n) = (length s =? n)%nat.
Proof. unfold lenZ. destruct (Nat.eqb_spec (length s) n), (Z.eqb_spec (Z.of_nat (length s)) (Z.of_nat n)); lia || reflexivity. Qed.
Lemma py_slice_0 s k : 0 <= k -> py_slice s 0 k = firstn (Z.to_nat k) s.
Proof. intros. exact (py_slice_app [] s k H). Qed.
Lemma py_index_0 b r : py_index (b :: r) 0 = Ok (b2z b).
Proof. exact (py_index_app0 [] b r). Qed.
Lemma py_index_1 a b r : py_index (a :: b :: r) 1 = Ok (b2z b).
Proof. exact (py_index_app [] (a :: b :: r) 1 b eq_refl). Qed.

(* ---------- is_p2sh ---------- *)
Lemma split_last {A} (l : list A) n : length l = S n -> exists m x, l = m ++ [x] /\ length m = n.
Proof.
  intros H. destruct (exists_last (l:=l)) as (m & x & ->); [destruct l; discriminate|].
  exists m, x. split; [reflexivity|]. rewrite app_length in H. cbn in H. lia.
Qed.

Theorem is_p2sh_spec s : is_p2sh s = Ok (ref_p2sh s).
Proof.
  unfold is_p2sh, ref_p2sh. change 23 with (Z.of_nat 23). rewrite len_eqb.
  destruct (Nat.eqb_spec (length s) 23) as [L|L]; [|reflexivity]. cbn [negb andb].
  destruct s as [|b0 [|b1 r]]; try discriminate. cbn [length] in L.
  destruct (split_last r 20 ltac:(lia)) as (h & b22 & -> & Lh).
  rewrite py_index_0, py_index_1. cbn [bind firstn]. pconsts.
  replace (py_index (b0 :: b1 :: h ++ [b22]) 22) with (Ok (b2z b22)).
  2:{ symmetry. change (b0 :: b1 :: h ++ [b22]) with ((b0 :: b1 :: h) ++ [b22]).
      replace 22 with (lenZ (b0 :: b1 :: h)) by (unfold lenZ; cbn [length]; lia). apply py_index_app0. }
  replace (skipn 22 (b0 :: b1 :: h ++ [b22])) with [b22].
  2:{ symmetry. change (b0 :: b1 :: h ++ [b22]) with ((b0 :: b1 :: h) ++ [b22]).
      apply skipn_app_len. cbn [length]. lia. }
  cbn [bytes_eqb]. rewrite !byte_eqb_b2z, !andb_true_r. change (b2z xa9) with 169. change (b2z x14) with 20.
  change (b2z x87) with 135. change 0x14 with 20.
  destruct (b2z b0 =? 169); [|reflexivity]. destruct (b2z b1 =? 20); reflexivity.
Qed.

Lemma bytes_eqb1 a b : bytes_eqb [a] [b] = true <-> a = b.
Proof. rewrite bytes_eqb_eq. split; congruence. Qed.
(* the readable form: 23 bytes a9 14 <20 bytes> 87 *)
Theorem ref_p2sh_iff s : ref_p2sh s = true <-> exists h, length h = 20%nat /\ s = xa9 :: x14 :: h ++ [x87].
Proof.
  unfold ref_p2sh. rewrite !andb_true_iff, Nat.eqb_eq, !bytes_eqb_eq. split.
  - intros [[L F] S]. destruct s as [|b0 [|b1 r]]; try discriminate. cbn [length] in L. cbn [firstn] in F.
    injection F as -> ->. destruct (split_last r 20 ltac:(lia)) as (h & b22 & -> & Lh).
    change (xa9 :: x14 :: h ++ [b22]) with ((xa9 :: x14 :: h) ++ [b22]) in S.
    rewrite skipn_app_len in S by (cbn [length]; lia). injection S as ->. eauto.
  - intros (h & Lh & ->). repeat split.
    + cbn [length]. rewrite app_length. cbn [length]. lia.
    + change (xa9 :: x14 :: h ++ [x87]) with ((xa9 :: x14 :: h) ++ [x87]).
      apply skipn_app_len. cbn [length]. lia.
Qed.

(* ---------- witness programs ---------- *)
Lemma signed_byte x : le_dec_signed [x] = if b2z x <? 128 then b2z x else b2z x - 256.
Proof.
  unfold le_dec_signed. cbn [le_dec length]. change (256 ^ Z.of_nat 1 / 2) with 128.
  change (256 ^ Z.of_nat 1) with 256. replace (b2z x + 256 * 0) with (b2z x) by lia. reflexivity.
Qed.

Theorem is_witness_scriptpubkey_spec s : is_witness_scriptpubkey s = Ok (ref_is_witness s).
Proof.
  unfold is_witness_scriptpubkey, ref_is_witness, ref_witness_program.
  destruct (Z.ltb_spec (lenZ s) 4) as [H4|H4]; cbn [orb].
  { destruct s as [|v [|l prog]]; try reflexivity. zfalse (4 <=? lenZ (v :: l :: prog)). reflexivity. }
  destruct (Z.gtb_spec (lenZ s) 42) as [H42|H42].
  { destruct s as [|v [|l prog]]; try reflexivity. ztrue (4 <=? lenZ (v :: l :: prog)).
    zfalse (lenZ (v :: l :: prog) <=? 42). reflexivity. }
  destruct s as [|v [|l prog]]; lenz; try (pose proof (@lenZ_nonneg byte []); lia).
  ztrue (4 <=? 1 + (1 + lenZ prog)). ztrue (1 + (1 + lenZ prog) <=? 42).
  rewrite py_slice_0 by lia. change (Z.to_nat 2) with 2%nat. cbn [firstn unpack_bb bind fst snd].
  rewrite !signed_byte. pose proof (b2z_range v) as Rv. pose proof (b2z_range l) as Rl. pose proof (lenZ_nonneg prog).
  rewrite cscriptop_new_signed by (destruct (b2z v <? 128) eqn:E; [apply Z.ltb_lt in E | apply Z.ltb_ge in E]; lia).
  replace ((if b2z v <? 128 then b2z v else b2z v - 256) mod 256) with (b2z v)
    by (destruct (Z.ltb_spec (b2z v) 128); lia).
  cbn [bind]. unfold is_small_int.
  replace ((81 <=? b2z v) && (b2z v <=? 96) || (b2z v =? 0))
    with ((b2z v =? 0) || (81 <=? b2z v) && (b2z v <=? 96)) by apply orb_comm.
  destruct ((b2z v =? 0) || (81 <=? b2z v) && (b2z v <=? 96)); [|reflexivity]. cbn [negb andb].
  destruct (Z.ltb_spec (b2z l) 128).
  - destruct (b2z l + 2 =? 1 + (1 + lenZ prog)); reflexivity.
  - zfalse (b2z l - 256 + 2 =? 1 + (1 + lenZ prog)). zfalse (b2z l + 2 =? 1 + (1 + lenZ prog)). reflexivity.
Qed.

(* the readable form: version opcode 0 or 0x51..0x60, then one direct push of the remaining
   2..40 bytes *)
Theorem ref_witness_program_iff s v prog : ref_witness_program s = Some (v, prog) <->
  exists vb, s = vb :: z2b (lenZ prog) :: prog /\ 2 <= lenZ prog <= 40 /\
             ((b2z vb = 0 /\ v = 0) \/ (0x51 <= b2z vb <= 0x60 /\ v = b2z vb - 0x50)).
Proof.
  unfold ref_witness_program. split.
  - destruct s as [|vb [|l p]]; try discriminate. lenz. pose proof (b2z_range l). pose proof (lenZ_nonneg p).
    destruct (Z.leb_spec 4 (1 + (1 + lenZ p))); [|discriminate].
    destruct (Z.leb_spec (1 + (1 + lenZ p)) 42); [|discriminate]. cbn [andb].
    destruct (Z.eqb_spec (b2z l + 2) (1 + (1 + lenZ p))) as [El|]; [|now rewrite andb_false_r].
    rewrite andb_true_r.
    destruct (Z.eqb_spec (b2z vb) 0) as [E0|N0]; cbn [orb].
    + intros E. injection E as <- <-. exists vb. replace (lenZ p) with (b2z l) by lia. rewrite z2b_b2z.
      split; [reflexivity|]. split; [lia|]. left. split; [assumption|reflexivity].
    + destruct (Z.leb_spec 81 (b2z vb)), (Z.leb_spec (b2z vb) 96); cbn [andb]; try discriminate.
      intros E. injection E as <- <-. exists vb. replace (lenZ p) with (b2z l) by lia. rewrite z2b_b2z.
      split; [reflexivity|]. split; [lia|]. right. split; [lia|reflexivity].
  - intros (vb & -> & R & V). lenz. rewrite z2b_small by lia.
    ztrue (4 <=? 1 + (1 + lenZ prog)). ztrue (1 + (1 + lenZ prog) <=? 42). ztrue (lenZ prog + 2 =? 1 + (1 + lenZ prog)).
    destruct V as [[E ->] | [E ->]].
    + rewrite E. reflexivity.
    + zfalse (b2z vb =? 0). ztrue (81 <=? b2z vb). ztrue (b2z vb <=? 96). reflexivity.
Qed.

(* witness_version on a witness program returns its version as an int *)
Theorem witness_version_spec s v prog : ref_witness_program s = Some (v, prog) ->
  witness_version s = Ok (TInt v).
Proof.
  intros H. apply ref_witness_program_iff in H as (vb & -> & R & V).
  unfold witness_version. rewrite script_iter_ref. unfold ref_iter, ref_parse. cbn [length ref_ops].
  pose proof (b2z_range vb). unfold get_op.
  destruct V as [[E ->] | [E ->]].
  - rewrite E. cbn [Z.ltb Z.compare bind fst snd]. lenz. pose proof (lenZ_nonneg prog).
    zfalse (1 + lenZ prog <? 0). unfold cons_op. cbn [fst snd map ref_cook sop_opcode]. reflexivity.
  - ztrue (78 <? b2z vb). unfold cons_op. cbn [fst snd map]. unfold ref_cook. cbn [sop_opcode sop_data].
    zfalse (b2z vb =? 0). ztrue (81 <=? b2z vb). ztrue (b2z vb <=? 96). reflexivity.
Qed.

(* ---------- v0 forms ---------- *)
Theorem is_witness_v0_keyhash_spec s : is_witness_v0_keyhash s = ref_v0_keyhash s.
Proof. unfold is_witness_v0_keyhash, ref_v0_keyhash. change 22 with (Z.of_nat 22). rewrite len_eqb, py_slice_0 by lia. reflexivity. Qed.
Theorem is_witness_v0_scripthash_spec s : is_witness_v0_scripthash s = ref_v0_scripthash s.
Proof. unfold is_witness_v0_scripthash, ref_v0_scripthash. change 34 with (Z.of_nat 34). rewrite len_eqb, py_slice_0 by lia. reflexivity. Qed.
Theorem is_witness_v0_nested_keyhash_spec s : is_witness_v0_nested_keyhash s = ref_v0_nested_keyhash s.
Proof. unfold is_witness_v0_nested_keyhash, ref_v0_nested_keyhash. change 23 with (Z.of_nat 23). rewrite len_eqb, py_slice_0 by lia. reflexivity. Qed.
Theorem is_witness_v0_nested_scripthash_spec s : is_witness_v0_nested_scripthash s = ref_v0_nested_scripthash s.
Proof. unfold is_witness_v0_nested_scripthash, ref_v0_nested_scripthash. change 35 with (Z.of_nat 35). rewrite len_eqb, py_slice_0 by lia. reflexivity. Qed.

Theorem ref_v0_keyhash_iff s : ref_v0_keyhash s = true <-> exists h, length h = 20%nat /\ s = x00 :: x14 :: h.
Proof.
  unfold ref_v0_keyhash. rewrite andb_true_iff, Nat.eqb_eq, bytes_eqb_eq. split.
  - intros [L F]. destruct s as [|a [|b h]]; try discriminate. cbn [firstn] in F. injection F as -> ->.
    exists h. cbn [length] in L. split; [lia|reflexivity].
  - intros (h & L & ->). cbn [length firstn]. split; [lia|reflexivity].
Qed.
Theorem ref_v0_scripthash_iff s : ref_v0_scripthash s = true <-> exists h, length h = 32%nat /\ s = x00 :: x20 :: h.
Proof.
  unfold ref_v0_scripthash. rewrite andb_true_iff, Nat.eqb_eq, bytes_eqb_eq. split.
  - intros [L F]. destruct s as [|a [|b h]]; try discriminate. cbn [firstn] in F. injection F as -> ->.
    exists h. cbn [length] in L. split; [lia|reflexivity].
  - intros (h & L & ->). cbn [length firstn]. split; [lia|reflexivity].
Qed.
(* both v0 forms are witness programs of version 0 *)
Theorem v0_forms_are_programs s : ref_v0_keyhash s = true \/ ref_v0_scripthash s = true ->
  exists prog, ref_witness_program s = Some (0, prog).
Proof.
  intros [H|H]; [apply ref_v0_keyhash_iff in H | apply ref_v0_scripthash_iff in H];
    destruct H as (h & L & ->); exists h; apply ref_witness_program_iff; exists x00;
    (assert (Lz : lenZ h = Z.of_nat (length h)) by reflexivity); rewrite L in Lz; rewrite Lz;
    (split; [reflexivity|]); (split; [lia|]); left; split; reflexivity.
Qed.

(* ---------- is_unspendable ---------- *)
Theorem is_unspendable_spec s : is_unspendable s = Ok (ref_unspendable s).
Proof.
  unfold is_unspendable, ref_unspendable. destruct s as [|b r]; [reflexivity|].
  lenz. pose proof (lenZ_nonneg r). replace (1 + lenZ r >? 0) with true by (symmetry; apply Z.gtb_lt; lia).
  cbn [negb]. rewrite py_index_0. reflexivity.
Qed.

(* ---------- loops over raw_iter ---------- *)
Definition err_ok (e : option exn) : Prop := forall x, e = Some x -> is_script_err x = true.
Definition no_err (e : option exn) : bool := match e with None => true | Some _ => false end.

Lemma on_script_err_spec e b : err_ok e -> on_script_err e b = Ok (no_err e && b).
Proof. intros H. destruct e as [x|]; [|reflexivity]. cbn. now rewrite (H x eq_refl). Qed.

Lemma raw_iter_err_ok s : err_ok (snd (raw_iter s)).
Proof. intros x H. apply raw_iter_err_kind in H as [-> | ->]; reflexivity. Qed.
Lemma parses_no_err s : parses s = no_err (snd (ref_parse s)).
Proof. reflexivity. Qed.

Theorem is_valid_spec s : is_valid s = Ok (parses s).
Proof.
  unfold is_valid. rewrite script_iter_ref. unfold ref_iter. cbn [snd]. rewrite <- raw_iter_ref.
  rewrite on_script_err_spec by apply raw_iter_err_ok. rewrite andb_true_r, parses_no_err, raw_iter_ref. reflexivity.
Qed.

Lemma push_only_loop_spec ops e : err_ok e ->
  push_only_loop ops e = Ok (no_err e && forallb (fun o => sop_opcode o <=? 0x60) ops).
Proof.
  intros He. induction ops as [|o r IH].
  - cbn [push_only_loop forallb]. now apply on_script_err_spec.
  - cbn [push_only_loop forallb]. pconsts. rewrite Z.gtb_ltb.
    destruct (Z.ltb_spec 96 (sop_opcode o)), (Z.leb_spec (sop_opcode o) 96); try lia.
    + cbn [andb]. now rewrite andb_false_r.
    + cbn [andb]. exact IH.
Qed.
Theorem is_push_only_spec s : is_push_only s = Ok (ref_push_only s).
Proof.
  unfold is_push_only, ref_push_only. rewrite push_only_loop_spec by apply raw_iter_err_ok.
  rewrite parses_no_err, raw_iter_ref. reflexivity.
Qed.

(* one iteration of has_canonical_pushes on a well-formed operation *)
Lemma canonical_step o r e : sop_wf o ->
  canonical_loop (o :: r) e = if canonical_op o then canonical_loop r e else Ok false.
Proof.
  destruct o as [op d i]. unfold sop_wf, canonical_op. cbn [canonical_loop sop_opcode sop_data]. pconsts.
  rewrite !Z.gtb_ltb. intros W.
  destruct (Z.ltb_spec 96 op); [reflexivity|]. cbn [orb].
  destruct d as [d|]; cbn [op_wf] in W.
  - (* a push: len(data) / data[0] are defined *)
    cbn [data_len data_first bind]. pose proof (lenZ_nonneg d).
    destruct (Z.ltb_spec op 76), (Z.ltb_spec 0 op); cbn [andb andr bind].
    + destruct (Z.eqb_spec (lenZ d) 1) as [L1|L1]; cbn [andb andr bind].
      * destruct d as [|x [|y d']]; lenz; try lia; try (pose proof (lenZ_nonneg d'); lia).
        rewrite py_index_0. cbn [bind]. zfalse (op =? 76). zfalse (op =? 77). zfalse (op =? 78). cbn [andr bind orb].
        destruct (b2z x <=? 16); reflexivity.
      * zfalse (op =? 76). zfalse (op =? 77). zfalse (op =? 78). reflexivity.
    + zfalse (op =? 76). zfalse (op =? 77). zfalse (op =? 78). reflexivity.
    + destruct (Z.eqb_spec op 76); cbn [andr bind andb orb].
      { zfalse (op =? 77). zfalse (op =? 78). cbn [andr bind andb orb]. destruct (lenZ d <? 76); reflexivity. }
      destruct (Z.eqb_spec op 77); cbn [andr bind andb orb].
      { zfalse (op =? 78). cbn [andr bind andb orb]. destruct (lenZ d <=? 255); reflexivity. }
      destruct (Z.eqb_spec op 78); cbn [andr bind andb orb]; [|reflexivity].
      destruct (lenZ d <=? 65535); reflexivity.
    + lia.
  - (* 0x4f .. 0x60: no test touches the data *)
    zfalse (op <? 76). zfalse (op =? 76). zfalse (op =? 77). zfalse (op =? 78).
    rewrite andb_false_r. reflexivity.
Qed.
Lemma canonical_loop_spec ops e : err_ok e -> Forall sop_wf ops ->
  canonical_loop ops e = Ok (no_err e && forallb canonical_op ops).
Proof.
  intros He W. induction W as [|o r Wo Wr IH].
  - cbn [canonical_loop forallb]. now apply on_script_err_spec.
  - rewrite canonical_step by assumption. cbn [forallb]. destruct (canonical_op o); cbn [andb].
    + exact IH.
    + now rewrite andb_false_r.
Qed.
Theorem has_canonical_pushes_spec s : has_canonical_pushes s = Ok (ref_canonical_pushes s).
Proof.
  unfold has_canonical_pushes, ref_canonical_pushes.
  destruct (raw_iter s) as [ops e] eqn:R. destruct (raw_iter_sound _ _ _ R) as (W & _).
  pose proof (raw_iter_err_ok s) as He. rewrite R in He. cbn [fst snd] in *.
  rewrite canonical_loop_spec by assumption. rewrite parses_no_err, <- raw_iter_ref, R. reflexivity.
Qed.

(* ---------- GetSigOpCount ---------- *)
Lemma sigops_loop_spec acc ops : forall n last,
  sigops_loop acc ops n last = Ok (n + ref_sigops_ops acc ops last).
Proof.
  induction ops as [|o r IH]; intros n last; cbn [sigops_loop ref_sigops_ops]; [f_equal; lia|]. pconsts.
  destruct ((sop_opcode o =? 172) || (sop_opcode o =? 173)); cbn [bind].
  { rewrite IH. f_equal; lia. }
  destruct ((sop_opcode o =? 174) || (sop_opcode o =? 175)); cbn [bind].
  2:{ rewrite IH. f_equal; lia. }
  destruct acc; cbn [andb].
  2:{ cbn [bind]. rewrite IH. f_equal; lia. }
  destruct (Z.leb_spec 81 last), (Z.leb_spec last 96); cbn [andb bind]; try (rewrite IH; f_equal; lia).
  rewrite cscriptop_new_byte by lia. cbn [bind]. rewrite decode_op_n_spec by lia. cbn [bind].
  rewrite IH. f_equal; lia.
Qed.
Theorem get_sigop_count_spec acc s : get_sigop_count acc s = Ok (ref_sigops acc s).
Proof.
  unfold get_sigop_count, ref_sigops. rewrite sigops_loop_spec. cbn [bind]. pconsts.
  pose proof (raw_iter_err_ok s) as He. rewrite <- raw_iter_ref.
  destruct (snd (raw_iter s)) as [x|] eqn:E; [rewrite (He x eq_refl)|]; reflexivity.
Qed.

(* the count only depends on the operations decoded before the first malformed push *)
Theorem ref_sigops_prefix acc ops rest : Forall sop_wf ops -> consecutive 0 ops -> overrun rest ->
  ref_sigops acc (ops_bytes ops ++ rest) = ref_sigops acc (ops_bytes ops).
Proof.
  intros W C O. unfold ref_sigops, ref_parse.
  destruct (ref_ops_complete ops 0 rest _ W C (or_intror O) (le_n _)) as (e & -> & _).
  destruct (ref_ops_complete ops 0 [] (length (ops_bytes ops ++ [])) W C (or_introl eq_refl) (le_n _)) as (e' & R & _).
  rewrite app_nil_r in R. rewrite R. reflexivity.
Qed.
