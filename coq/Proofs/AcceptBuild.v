(* Proofs/AcceptBuild.v – C05: the script templates of Proofs/Accept.v and Proofs/AcceptMulti.v are what
   the MODEL of the library's CScript([...]) constructor (Model/Script.v build, C08) produces. *)
From BV Require Import Common.Base Common.PyList Common.Tx Common.ScriptFlags Gen.ScriptConsts
  Model.Script Spec.Script Spec.ScriptRef Model.FindAndDelete.
From BV Require Import Proofs.ScriptIter Proofs.FindAndDelete Proofs.Accept Proofs.AcceptMulti.

(* the templates are what the library's CScript([...]) constructor builds *)
Lemma build_push (d : list byte) r s : lenZ d < 2^32 -> build r = Ok s -> build (TBytes d :: r) = Ok (ref_push d ++ s).
Proof.
  intros Ld Br. cbn [build coerce_instance]. change (encode_op_pushdata d) with (push_of d).
  rewrite (push_of_ref d Ld). cbn [bind]. rewrite Br. reflexivity.
Qed.
Lemma build_op n r s : 0 <= n < 256 -> build r = Ok s -> build (TOp n :: r) = Ok (z2b n :: s).
Proof.
  intros Rn Br. cbn [build coerce_instance]. unfold bytes1.
  destruct (Z.leb_spec 0 n); [|lia]. destruct (Z.ltb_spec n 256); [|lia]. cbn [andb bind]. rewrite Br. reflexivity.
Qed.
Lemma build_small v r s : 1 <= v <= 16 -> build r = Ok s -> build (TInt v :: r) = Ok (small_op v :: s).
Proof.
  intros Rv Br.
  assert (T : forallb (fun v => match coerce_instance (TInt v) with Ok b => bytes_eqb b [small_op v] | Err _ => false end)
                [1;2;3;4;5;6;7;8;9;10;11;12;13;14;15;16] = true) by (vm_compute; reflexivity).
  rewrite forallb_forall in T. assert (I : In v [1;2;3;4;5;6;7;8;9;10;11;12;13;14;15;16]) by (cbn [In]; lia).
  specialize (T v I). cbn [build]. destruct (coerce_instance (TInt v)) as [b|]; [|discriminate T].
  apply bytes_eqb_eq in T. subst b. cbn [bind]. rewrite Br. reflexivity.
Qed.
Lemma build_pushes (ds : list (list byte)) r s : Forall (fun d => lenZ d < 2^32) ds -> build r = Ok s ->
  build (map TBytes ds ++ r) = Ok (pushes ds ++ s).
Proof.
  intros Fd Br. induction Fd as [|d ds Ld Fd IH]; [exact Br|].
  cbn [map app]. unfold pushes. cbn [map concat]. rewrite <- app_assoc. now apply build_push.
Qed.

Theorem templates_built :
  (forall pkb : list byte, lenZ pkb < 2^32 -> build [TBytes pkb; TOp OP_CHECKSIG] = Ok (p2pk_script pkb)) /\
  (forall kh : list byte, lenZ kh < 2^32 ->
     build [TOp OP_DUP; TOp OP_HASH160; TBytes kh; TOp OP_EQUALVERIFY; TOp OP_CHECKSIG] = Ok (p2pkh_script kh)) /\
  (forall hh : list byte, lenZ hh < 2^32 -> build [TOp OP_HASH160; TBytes hh; TOp OP_EQUAL] = Ok (p2sh_script hh)) /\
  (forall (m : Z) (pks : list (list byte)), 1 <= m <= 16 -> 1 <= lenZ pks <= 16 -> Forall (fun d => lenZ d < 2^32) pks ->
     build ([TInt m] ++ map TBytes pks ++ [TInt (lenZ pks); TOp OP_CHECKMULTISIG]) = Ok (multisig_script m pks)) /\
  (forall ds : list (list byte), Forall (fun d => lenZ d < 2^32) ds -> build (map TBytes ds) = Ok (pushes ds)) /\
  (* the dummy element of a multisig scriptSig: CScript([OP_0, sig_1, ..]) *)
  (forall ds : list (list byte), Forall (fun d => lenZ d < 2^32) ds -> build (TOp OP_0 :: map TBytes ds) = Ok (pushes ([] :: ds))).
Proof.
  assert (B0 : build [] = Ok []) by reflexivity.
  split; [intros pkb L; apply build_push; [exact L|]; apply (build_op OP_CHECKSIG [] []); [vm_compute; split; [discriminate|reflexivity]|exact B0]|].
  split.
  { intros kh L. unfold p2pkh_script.
    apply (build_op OP_DUP); [vm_compute; split; [discriminate|reflexivity]|].
    apply (build_op OP_HASH160); [vm_compute; split; [discriminate|reflexivity]|].
    apply build_push; [exact L|].
    apply (build_op OP_EQUALVERIFY); [vm_compute; split; [discriminate|reflexivity]|].
    apply (build_op OP_CHECKSIG [] []); [vm_compute; split; [discriminate|reflexivity]|exact B0]. }
  split.
  { intros hh L. unfold p2sh_script.
    apply (build_op OP_HASH160); [vm_compute; split; [discriminate|reflexivity]|].
    apply build_push; [exact L|].
    apply (build_op OP_EQUAL [] []); [vm_compute; split; [discriminate|reflexivity]|exact B0]. }
  split.
  { intros m pks Rm Rn Fd. unfold multisig_script. cbn [app].
    apply build_small; [exact Rm|]. apply build_pushes; [exact Fd|].
    apply build_small; [exact Rn|].
    apply (build_op OP_CHECKMULTISIG [] []); [vm_compute; split; [discriminate|reflexivity]|exact B0]. }
  split.
  { intros ds Fd. pose proof (build_pushes ds [] [] Fd B0) as P. now rewrite !app_nil_r in P. }
  intros ds Fd. unfold pushes. cbn [map concat].
  apply (build_op OP_0); [vm_compute; split; [discriminate|reflexivity]|].
  pose proof (build_pushes ds [] [] Fd B0) as P. now rewrite !app_nil_r in P.
Qed.

(* ---------- with the key object's own compressed public key: no hypothesis on the encoding ---------- *)
From BV Require Import Gen.Key Model.ScriptEval Model.Sighash Model.SigCheck Spec.Ecdsa Spec.Der Model.Key.
Section Compressed.
Variable H : bytes -> bytes.
Variable E : curve.
Hypothesis L : curve_laws E.
Hypothesis n_small : c_n E < 2 ^ 256.
Hypothesis p_small : c_p E <= 2 ^ 256.
Hypothesis table_ok : Spec.Base58.value_msb 256 max_mod_half_order = c_n E / 2.
Hypothesis H_len : forall b, length (H b) = 32%nat.
Variable ripemd160 sha1 sha256 : bytes -> bytes.
Hypothesis hash_small : forall x, Proofs.ScriptEval.small (ripemd160 x) /\ Proofs.ScriptEval.small (sha1 x) /\ Proofs.ScriptEval.small (sha256 x).
Variable fl : flags.
Hypothesis flags_ok : f_cleanstack fl = true -> f_p2sh fl = true.

Corollary accept_p2pk_compressed t t' idx ht d k h : let pkb := sec1_enc E Compressed (pub E d) in
  0 <= ht < 256 -> 1 <= d < c_n E ->
  signature_hash H (p2pk_script pkb) t idx ht = Ok h -> valid_nonce E d (be_dec h) k -> unsigned_eq t t' ->
  exists sigder, cec_sign E d h k = Ok sigder /\
    verify_script (real_checksig H E t' idx) ripemd160 sha1 sha256 fl
      (ref_push (sigder ++ [z2b ht])) (p2pk_script pkb) = Ok tt.
Proof.
  intros pkb Hh Rd. apply (accept_p2pk H E L n_small table_ok H_len ripemd160 sha1 sha256 hash_small fl flags_ok); [exact Hh|].
  exact (sec1_dec_enc_compressed E L (pub E d) p_small (pub_nonzero E L d Rd)).
Qed.
Corollary accept_p2pkh_compressed t t' idx ht d k h : let pkb := sec1_enc E Compressed (pub E d) in
  let hh := ripemd160 (sha256 pkb) in
  0 <= ht < 256 -> 1 <= d < c_n E -> length hh = 20%nat ->
  signature_hash H (p2pkh_script hh) t idx ht = Ok h -> valid_nonce E d (be_dec h) k -> unsigned_eq t t' ->
  exists sigder, cec_sign E d h k = Ok sigder /\
    (sigder ++ [z2b ht] <> hh ->
     verify_script (real_checksig H E t' idx) ripemd160 sha1 sha256 fl
       (ref_push (sigder ++ [z2b ht]) ++ ref_push pkb) (p2pkh_script hh) = Ok tt).
Proof.
  intros pkb hh Hh Rd. apply (accept_p2pkh H E L n_small table_ok H_len ripemd160 sha1 sha256 hash_small fl flags_ok); [exact Hh|].
  exact (sec1_dec_enc_compressed E L (pub E d) p_small (pub_nonzero E L d Rd)).
Qed.
End Compressed.
