(* Proofs/Commit.v – C05: what the legacy signature hash commits to. *)
From Coq Require Import FunctionalExtensionality.
From BV Require Import Common.Base Common.Codec Common.Tx Common.ScriptFlags Gen.Core Spec.Wire Spec.Sighash Spec.ScriptRef
  Model.Wire Model.ScriptEval Proofs.Wire.

(* (a) non-interference: script verification depends on the spending transaction only
   through the signature-check oracle *)
Lemma verify_oracle_ext cs1 cs2 r s1 s2 fl a b :
  (forall sig pk code, cs1 sig pk code = cs2 sig pk code) ->
  verify_script cs1 r s1 s2 fl a b = verify_script cs2 r s1 s2 fl a b /\
  verify_ref cs1 r s1 s2 fl a b = verify_ref cs2 r s1 s2 fl a b.
Proof.
  intros H. assert (E : cs1 = cs2).
  { apply functional_extensionality; intros sig. apply functional_extensionality; intros pk.
    apply functional_extensionality; intros code. apply H. }
  rewrite E. split; reflexivity.
Qed.

(* ================= (b) the committed view ================= *)
From BV Require Import Spec.Commit.

Lemma vb_nil : vb [] = cs 0.
Proof. reflexivity. Qed.
Lemma mapi_length {A B} (f : nat -> A -> B) l : forall k, length (mapi f k l) = length l.
Proof. induction l as [|a l IH]; intros k; cbn [mapi length]; [reflexivity|now rewrite IH]. Qed.
Lemma ser_input_view code' idx ht k x : ser_input code' idx ht k x = wire_txin (view_in code' idx ht k x).
Proof.
  unfold ser_input, wire_txin, view_in. cbn [ti_prevout ti_script ti_seq]. destruct (k =? idx)%nat; [reflexivity|].
  now rewrite vb_nil.
Qed.
Lemma ser_inputs_mapi code' idx ht l : forall k,
  concat (mapi (ser_input code' idx ht) k l) = concat (map wire_txin (mapi (view_in code' idx ht) k l)).
Proof. induction l as [|a l IH]; intros k; cbn [mapi map concat]; [reflexivity|]. now rewrite ser_input_view, IH. Qed.
Lemma ser_output_view idx ht j o : ser_output idx ht j o = wire_txout (view_out idx ht j o).
Proof. unfold ser_output, view_out. destruct (sh_single ht && negb (j =? idx)%nat); reflexivity. Qed.
Lemma ser_outputs_mapi idx ht l : forall k,
  concat (mapi (ser_output idx ht) k l) = concat (map wire_txout (mapi (view_out idx ht) k l)).
Proof. induction l as [|a l IH]; intros k; cbn [mapi map concat]; [reflexivity|]. now rewrite ser_output_view, IH. Qed.

(* the preimage is the stripped wire form of the view, then the hash type *)
Theorem preimage_view code t idx x ht : (idx < length (tx_vout t) \/ sh_single ht = false)%nat ->
  sighash_preimage code t idx x ht = wire_tx_stripped (sighash_view code t idx x ht) ++ i 4 ht.
Proof.
  intros HS. unfold sighash_preimage, wire_tx_stripped, sighash_view. cbn [tx_version tx_vin tx_vout tx_lock].
  rewrite <- !app_assoc. f_equal. unfold ser_inputs, ser_outputs, vec.
  assert (EI : (if sh_anyone ht
                then cs 1 ++ ser_input (strip_codesep code) idx ht idx x
                else cs (lenZ (tx_vin t)) ++ concat (mapi (ser_input (strip_codesep code) idx ht) 0 (tx_vin t)))
               = cs (lenZ (if sh_anyone ht then [view_in (strip_codesep code) idx ht idx x] else mapi (view_in (strip_codesep code) idx ht) 0 (tx_vin t)))
                 ++ concat (map wire_txin (if sh_anyone ht then [view_in (strip_codesep code) idx ht idx x] else mapi (view_in (strip_codesep code) idx ht) 0 (tx_vin t)))).
  { destruct (sh_anyone ht).
    - cbn [map concat]. rewrite app_nil_r, ser_input_view. reflexivity.
    - unfold lenZ. rewrite mapi_length, ser_inputs_mapi. reflexivity. }
  f_equal; [exact EI|]. f_equal.
  destruct (sh_none ht); [reflexivity|]. destruct (sh_single ht) eqn:SS.
  - unfold lenZ. rewrite mapi_length, ser_outputs_mapi. rewrite firstn_length_le by (destruct HS; [lia|discriminate]).
    do 2 f_equal. lia.
  - reflexivity.
Qed.

(* range conditions under which the view is a well-formed wire transaction *)
Definition commit_ok (code : bytes) (t : tx) (idx : nat) (x : txin) (ht : Z) : Prop :=
  sighash_tx_ok t /\ nth_error (tx_vin t) idx = Some x /\ lenZ (strip_codesep code) <= MAX_SIZE /\
  Forall (fun o => lenZ (to_script o) <= MAX_SIZE) (tx_vout t) /\
  lenZ (tx_vin t) < 2^64 /\ lenZ (tx_vout t) < 2^64 /\ 0 <= ht < 256.

Lemma Forall_firstn {A} (P : A -> Prop) n l : Forall P l -> Forall P (firstn n l).
Proof. revert l; induction n; intros [|x l] H; cbn; auto. inversion H; subst. constructor; auto. Qed.
Lemma nth_error_firstn_lt {A} (l : list A) : forall n k, (k < n)%nat -> nth_error (firstn n l) k = nth_error l k.
Proof. induction l as [|a l IH]; intros [|n] [|k] H; cbn; try reflexivity; try lia. apply IH. lia. Qed.
Lemma Forall_mapi {A B} (P : A -> Prop) (Q : B -> Prop) (f : nat -> A -> B) l :
  (forall k a, P a -> Q (f k a)) -> Forall P l -> forall k, Forall Q (mapi f k l).
Proof. intros H F. induction F as [|a l Pa F IH]; intros k; cbn [mapi]; constructor; auto. Qed.

Lemma view_wf code t idx x ht : commit_ok code t idx x ht -> wf_tx MAX_SIZE (sighash_view code t idx x ht).
Proof.
  intros ((Hv & Hl & Fi & Fo) & Hx & Hc & Fs & Li & Lo & Hh).
  assert (Xin : In x (tx_vin t)) by (eapply nth_error_In; exact Hx).
  assert (WI : forall k y, (length (op_hash (ti_prevout y)) = 32%nat /\ in_u 4 (op_n (ti_prevout y)) /\ in_u 4 (ti_seq y)) ->
               wf_txin MAX_SIZE (view_in (strip_codesep code) idx ht k y)).
  { intros k y (A & B & C). unfold wf_txin, wf_outpoint, view_in, wf_bytes. cbn [ti_prevout ti_script ti_seq].
    repeat split; try assumption; try apply B; try apply C.
    - destruct (k =? idx)%nat; [exact Hc|]. unfold lenZ. cbn. pose proof max_size_ok. lia.
    - destruct (_ || _); [apply C|lia].
    - destruct (_ || _); [apply C|]. change (256 ^ Z.of_nat 4) with 4294967296. lia. }
  assert (WO : forall j o, (in_i 8 (to_value o) /\ lenZ (to_script o) <= MAX_SIZE) -> wf_txout MAX_SIZE (view_out idx ht j o)).
  { intros j o [A B]. unfold view_out. destruct (sh_single ht && negb (j =? idx)%nat); [|split; assumption].
    split; cbn [to_value to_script]; [unfold in_i; change (256 ^ Z.of_nat 8 / 2) with 9223372036854775808; lia|].
    unfold wf_bytes, lenZ. cbn. pose proof max_size_ok. lia. }
  assert (FO2 : Forall (fun o => in_i 8 (to_value o) /\ lenZ (to_script o) <= MAX_SIZE) (tx_vout t)).
  { rewrite Forall_forall in *. intros o Ho. split; [now apply Fo|now apply Fs]. }
  unfold wf_tx, sighash_view. cbn [tx_version tx_vin tx_vout tx_wit tx_lock].
  split; [exact Hv|]. split.
  { destruct (sh_anyone ht); [discriminate|]. destruct (tx_vin t); [destruct idx; discriminate Hx|discriminate]. }
  split.
  { destruct (sh_anyone ht).
    - constructor; [|constructor]. apply WI. rewrite Forall_forall in Fi. now apply Fi.
    - apply (Forall_mapi _ _ _ _ WI Fi). }
  split.
  { destruct (sh_none ht); [constructor|]. destruct (sh_single ht).
    - apply (Forall_mapi _ _ _ (firstn (S idx) (tx_vout t)) WO). now apply Forall_firstn.
    - eapply Forall_impl; [|exact FO2]. intros o [A B]. split; assumption. }
  split; [exact Hl|]. split.
  { destruct (sh_anyone ht); [unfold lenZ; cbn; lia|]. unfold lenZ in *. now rewrite mapi_length. }
  split.
  { destruct (sh_none ht); [unfold lenZ; cbn; lia|]. destruct (sh_single ht); [|exact Lo].
    unfold lenZ in *. rewrite mapi_length, firstn_length. lia. }
  split; [constructor|left; reflexivity].
Qed.

(* views are witness-free: the two wire forms coincide and a round trip returns them as is *)
Lemma view_nowit code t idx x ht : has_witness (sighash_view code t idx x ht) = false.
Proof. reflexivity. Qed.
Lemma i4_inj a b : 0 <= a < 256 -> 0 <= b < 256 -> i 4 a = i 4 b -> a = b.
Proof.
  intros Ha Hb E. unfold i in E. change (256 ^ Z.of_nat 4) with 4294967296 in E.
  rewrite !Z.mod_small in E by lia. apply (f_equal le_dec) in E.
  rewrite !le_dec_enc in E by (change (256 ^ Z.of_nat 4) with 4294967296; lia). exact E.
Qed.

(* (b) the preimage determines, and is determined by, the committed view and the hash type *)
Theorem commit_iff code t idx x ht code2 t2 idx2 x2 ht2 :
  commit_ok code t idx x ht -> commit_ok code2 t2 idx2 x2 ht2 ->
  (idx < length (tx_vout t) \/ sh_single ht = false)%nat -> (idx2 < length (tx_vout t2) \/ sh_single ht2 = false)%nat ->
  (sighash_preimage code t idx x ht = sighash_preimage code2 t2 idx2 x2 ht2
   <-> sighash_view code t idx x ht = sighash_view code2 t2 idx2 x2 ht2 /\ ht = ht2).
Proof.
  intros C1 C2 S1 S2. rewrite (preimage_view code t idx x ht S1), (preimage_view code2 t2 idx2 x2 ht2 S2). split.
  - intros E.
    pose proof (view_wf _ _ _ _ _ C1) as W1. pose proof (view_wf _ _ _ _ _ C2) as W2.
    assert (N1 := view_nowit code t idx x ht). assert (N2 := view_nowit code2 t2 idx2 x2 ht2).
    remember (sighash_view code t idx x ht) as v1 eqn:EV1. remember (sighash_view code2 t2 idx2 x2 ht2) as v2 eqn:EV2.
    assert (D1 : decode tx_c (wire_tx_stripped v1 ++ i 4 ht) = Ok (v1, i 4 ht)).
    { rewrite <- (enc_tx_stripped v1 N1).
      rewrite (l_rt tx_c tx_lawful v1 (i 4 ht) (wf_tx_c v1 W1)). rewrite norm_tx. unfold norm_wit. rewrite N1. rewrite EV1. reflexivity. }
    assert (D2 : decode tx_c (wire_tx_stripped v2 ++ i 4 ht2) = Ok (v2, i 4 ht2)).
    { rewrite <- (enc_tx_stripped v2 N2).
      rewrite (l_rt tx_c tx_lawful v2 (i 4 ht2) (wf_tx_c v2 W2)). rewrite norm_tx. unfold norm_wit. rewrite N2. rewrite EV2. reflexivity. }
    rewrite E in D1. rewrite D1 in D2.
    assert (P : (v1, i 4 ht) = (v2, i 4 ht2)) by congruence.
    pose proof (f_equal fst P) as Ev. pose proof (f_equal snd P) as Eh. cbn [fst snd] in Ev, Eh. split; [exact Ev|].
    destruct C1 as (_ & _ & _ & _ & _ & _ & HH1). destruct C2 as (_ & _ & _ & _ & _ & _ & HH2). now apply i4_inj.
  - intros [-> ->]. reflexivity.
Qed.

(* ---- the catalogue, read off the view ---- *)
(* uncommitted under every hash type: every scriptSig, the witness *)
Theorem uncommitted_scriptsig_witness code t idx x ht t2 x2 :
  tx_version t2 = tx_version t -> tx_lock t2 = tx_lock t -> tx_vout t2 = tx_vout t ->
  Forall2 (fun a b => ti_prevout a = ti_prevout b /\ ti_seq a = ti_seq b) (tx_vin t) (tx_vin t2) ->
  ti_prevout x2 = ti_prevout x -> ti_seq x2 = ti_seq x ->
  sighash_view code t2 idx x2 ht = sighash_view code t idx x ht.
Proof.
  intros Ev El Eo F Ep Es. unfold sighash_view. rewrite Ev, El, Eo. f_equal.
  destruct (sh_anyone ht).
  - unfold view_in. now rewrite Ep, Es.
  - generalize 0%nat. induction F as [|a b l l' [P Q] F IH]; intros k; cbn [mapi]; [reflexivity|].
    rewrite IH. f_equal. unfold view_in. now rewrite P, Q.
Qed.
(* ANYONECANPAY (not SINGLE): the other inputs – their fields, number, order and the signed
   input's position – are uncommitted *)
Theorem uncommitted_other_inputs code t idx x ht vin2 idx2 :
  sh_anyone ht = true -> sh_single ht = false ->
  sighash_view code {| tx_version := tx_version t; tx_vin := vin2; tx_vout := tx_vout t; tx_wit := tx_wit t; tx_lock := tx_lock t |} idx2 x ht
  = sighash_view code t idx x ht.
Proof.
  intros A HS. unfold sighash_view. cbn [tx_version tx_vin tx_vout tx_lock]. rewrite A, HS.
  f_equal. unfold view_in. rewrite !Nat.eqb_refl. reflexivity.
Qed.
(* NONE: all outputs are uncommitted *)
Theorem uncommitted_outputs_none code t idx x ht vout2 :
  sh_none ht = true ->
  sighash_view code {| tx_version := tx_version t; tx_vin := tx_vin t; tx_vout := vout2; tx_wit := tx_wit t; tx_lock := tx_lock t |} idx x ht
  = sighash_view code t idx x ht.
Proof. intros N. unfold sighash_view. cbn [tx_version tx_vin tx_vout tx_lock]. rewrite N. reflexivity. Qed.
(* SINGLE: outputs after idx are uncommitted, outputs before idx only count *)
Theorem uncommitted_outputs_single code t idx x ht vout2 :
  sh_single ht = true -> length (firstn (S idx) vout2) = length (firstn (S idx) (tx_vout t)) ->
  nth_error vout2 idx = nth_error (tx_vout t) idx ->
  sighash_view code {| tx_version := tx_version t; tx_vin := tx_vin t; tx_vout := vout2; tx_wit := tx_wit t; tx_lock := tx_lock t |} idx x ht
  = sighash_view code t idx x ht.
Proof.
  intros HS L N. unfold sighash_view. cbn [tx_version tx_vin tx_vout tx_lock]. rewrite HS. f_equal.
  destruct (sh_none ht); [reflexivity|].
  assert (G : forall (a b : list txout) k, length a = length b ->
                (forall j, (k + j)%nat = idx -> nth_error a j = nth_error b j) ->
                mapi (view_out idx ht) k a = mapi (view_out idx ht) k b).
  { induction a as [|o a IH]; intros [|o' b] k LL HH; cbn in LL; try discriminate; [reflexivity|].
    cbn [mapi]. f_equal.
    - unfold view_out. rewrite HS. destruct (Nat.eqb_spec k idx) as [E|E]; cbn [negb andb]; [|reflexivity].
      specialize (HH 0%nat ltac:(lia)). cbn in HH. now injection HH.
    - apply IH; [lia|]. intros j Hj. apply (HH (S j)). lia. }
  apply G; [exact L|]. intros j Hj. cbn [Nat.add] in Hj. subst j.
  rewrite !nth_error_firstn_lt by lia. exact N.
Qed.
(* committed under every hash type: version, lock time, the signed input's outpoint and
   sequence number, the subscript (up to CODESEPARATORs) *)
Theorem committed_always code t idx x ht code2 t2 idx2 x2 :
  sighash_view code t idx x ht = sighash_view code2 t2 idx2 x2 ht ->
  nth_error (tx_vin t) idx = Some x -> nth_error (tx_vin t2) idx2 = Some x2 ->
  sh_anyone ht = true ->
  tx_version t = tx_version t2 /\ tx_lock t = tx_lock t2 /\ ti_prevout x = ti_prevout x2 /\ ti_seq x = ti_seq x2 /\
  strip_codesep code = strip_codesep code2.
Proof.
  intros E _ _ A. unfold sighash_view in E. rewrite A in E. injection E as G1 G2 G3 G4 G5 G6.
  rewrite ?Nat.eqb_refl in *. cbn [orb] in *. repeat split; assumption.
Qed.
