(* Proofs/RpcErr.v – error replies, the wrappers' exception behaviour, request ids. *)
From BV Require Import Common.Base Gen.Rpc Model.Rpc Model.RpcWire Spec.Rpc Proofs.RpcNum.
From Coq Require Import QArith Sorted.
Require Coq.Strings.String.
Import String.StringSyntax.
Open Scope Z_scope.

(* ---------- induction over sjson (nested lists) ---------- *)
Section SjsonInd.
  Variable P : sjson -> Prop.
  Hypothesis Hnull : P SJNull.
  Hypothesis Hbool : forall b, P (SJBool b).
  Hypothesis Hnum : forall s, P (SJNum s).
  Hypothesis Hstr : forall s, P (SJStr s).
  Hypothesis Harr : forall l, Forall P l -> P (SJArr l).
  Hypothesis Hobj : forall l, Forall (fun kv => P (snd kv)) l -> P (SJObj l).
  Fixpoint sjson_ind' (j : sjson) : P j :=
    match j with
    | SJNull => Hnull
    | SJBool b => Hbool b
    | SJNum s => Hnum s
    | SJStr s => Hstr s
    | SJArr l => Harr l ((fix go (l : list sjson) : Forall P l :=
                            match l with [] => Forall_nil _ | x :: r => Forall_cons _ (sjson_ind' x) (go r) end) l)
    | SJObj l => Hobj l ((fix go (l : list (bytes * sjson)) : Forall (fun kv => P (snd kv)) l :=
                            match l with
                            | [] => Forall_nil _
                            | (k, v) :: r => Forall_cons (k, v) (sjson_ind' v) (go r)
                            end) l)
    end.
End SjsonInd.

Lemma json_ok_wire j : wf_sjson j = true -> json_ok (wire j) = true.
Proof.
  induction j using sjson_ind'; cbn [wf_sjson wire json_ok]; intros Hw; try reflexivity.
  - rewrite (scan_spell s Hw). reflexivity.
  - rewrite forallb_forall in Hw. apply forallb_forall. intros x Hx.
    apply in_map_iff in Hx as (y & <- & Hy). rewrite Forall_forall in H. apply (H y Hy). apply Hw. exact Hy.
  - rewrite forallb_forall in Hw. apply forallb_forall. intros [k x] Hx.
    apply in_map_iff in Hx as ([k' y] & E & Hy). injection E as <- <-.
    rewrite Forall_forall in H. apply (H (k', y) Hy). apply (Hw (k', y)). exact Hy.
Qed.

(* ---------- member lookup: with distinct names the last binding is the first ---------- *)
Definition wire_kv (kv : bytes * sjson) : text * json := match kv with (k, v) => (k, wire v) end.

Lemma obj_get_absent k l : ~ In k (map fst l) -> obj_get k (map wire_kv l) = None.
Proof.
  induction l as [|[k' v] r IH]; intros H; [reflexivity|].
  cbn [map wire_kv obj_get]. cbn [map fst In] in H. rewrite IH by tauto.
  destruct (bytes_eqb k k') eqn:E; [|reflexivity]. apply bytes_eqb_eq in E. subst. tauto.
Qed.

Lemma obj_get_member k l : NoDup (map fst l) ->
  obj_get k (map wire_kv l) = match member k l with Some v => Some (wire v) | None => None end.
Proof.
  unfold member. induction l as [|[k' v] r IH]; intros H; [reflexivity|].
  cbn [map fst] in H. inversion H as [|? ? Hn Hr]; subst.
  cbn [map wire_kv obj_get find fst]. destruct (bytes_eqb k k') eqn:E.
  - apply bytes_eqb_eq in E. subst k'. rewrite (obj_get_absent k r Hn). reflexivity.
  - rewrite (IH Hr). destruct (find (fun kv => bytes_eqb k (fst kv)) r) as [[? ?]|]; reflexivity.
Qed.

(* ---------- numeric comparison of a code with a registered code ---------- *)
Lemma bool_eq_iff (a b : bool) : (a = true <-> b = true) -> a = b.
Proof. destruct a, b; intros [H1 H2]; try reflexivity; [symmetry; apply H1 | apply H2]; reflexivity. Qed.

Lemma pynum_eq_int_q p k : match p with PDec _ c _ => 0 <= c | PInt _ => True end ->
  pynum_eq_int p k = qeq_int (pynum_q p) k.
Proof.
  intros _. unfold qeq_int. apply bool_eq_iff. rewrite Qeq_bool_iff.
  destruct p as [z | neg c e]; cbn [pynum_eq_int pynum_q].
  - rewrite Z.eqb_eq. split; [intros ->; reflexivity|]. intros H. unfold Qeq, inject_Z in H. cbn in H. lia.
  - set (s := if neg then - c else c).
    assert (Hs : ((if neg then - (1) else 1) * inject_Z c == inject_Z s)%Q).
    { subst s. destruct neg; [rewrite inject_Z_opp|]; ring. }
    rewrite Hs. clear Hs.
    destruct (0 <=? e) eqn:Ee.
    + apply Z.leb_le in Ee. rewrite Z.eqb_eq. rewrite pow10q_nonneg by exact Ee. rewrite <- inject_Z_mult.
      split; [intros ->; reflexivity|]. intros H. unfold Qeq, inject_Z in H. cbn in H. lia.
    + apply Z.leb_gt in Ee. rewrite Z.eqb_eq. replace e with (- (- e)) at 2 by lia.
      rewrite pow10q_neg by lia. pose proof (pow10_gt0 (- e)).
      split; intros H1.
      * assert (X : s * 1 = k * 10 ^ (- e)) by lia.
        apply (proj2 (Qdiv_eq_iff s (10 ^ (- e)) k 1 ltac:(lia) ltac:(lia))) in X.
        change (inject_Z 1) with 1%Q in X. unfold Qdiv in X. rewrite X. field.
      * assert (X : (inject_Z s / inject_Z (10 ^ (- e)) == inject_Z k / inject_Z 1)%Q)
          by (unfold Qdiv; rewrite H1; change (inject_Z 1) with 1%Q; field).
        apply (proj1 (Qdiv_eq_iff s (10 ^ (- e)) k 1 ltac:(lia) ltac:(lia))) in X. lia.
Qed.

Lemma find_ext {A} (f g : A -> bool) l : (forall x, f x = g x) -> find f l = find g l.
Proof. intros H. induction l as [|x r IH]; [reflexivity|]. cbn [find]. rewrite H, IH. reflexivity. Qed.

Lemma qeq_int_compat q1 q2 k : (q1 == q2)%Q -> qeq_int q1 k = qeq_int q2 k.
Proof.
  intros H. unfold qeq_int. apply bool_eq_iff. rewrite !Qeq_bool_iff. rewrite H. reflexivity.
Qed.

(* the class found for a numeric code is the one registered for its value *)
Lemma class_of_spelling table s : wf_spelling s = true ->
  class_of table (CNum (pynum_of_spelling s)) = find (qeq_int (spell_value s)) table.
Proof.
  intros Hwf. unfold class_of. apply find_ext. intros k. cbn [code_matches].
  rewrite (pynum_eq_int_q _ k (pynum_of_spelling_coef s Hwf)).
  apply qeq_int_compat. apply pynum_of_spelling_value. exact Hwf.
Qed.

(* ---------- facts about the regenerated table ---------- *)
(* the codes the proxy synthesises, and the integers JSON true / false compare equal to, are
   not registered: all of them give the base class *)
Lemma table_facts :
  class_of RPC_SUBCLS_CODES (CNum (PInt RPC_ERR_NO_RESPONSE)) = None /\
  class_of RPC_SUBCLS_CODES (CNum (PInt RPC_ERR_NON_JSON)) = None /\
  class_of RPC_SUBCLS_CODES (CNum (PInt RPC_ERR_MISSING_RESULT)) = None /\
  class_of RPC_SUBCLS_CODES (CNum (PInt RPC_ERR_NON_DICT)) = None /\
  class_of RPC_SUBCLS_CODES (CNum (PInt RPC_ERR_MISSING_CODE)) = None /\
  class_of RPC_SUBCLS_CODES (CBool true) = None /\ class_of RPC_SUBCLS_CODES (CBool false) = None /\
  NoDup RPC_SUBCLS_CODES.
Proof.
  repeat split; try (vm_compute; reflexivity).
  unfold RPC_SUBCLS_CODES. repeat constructor; cbn; intros H; repeat (destruct H as [H|H]; [discriminate H|]); exact H.
Qed.

(* every registered code, sent as a plain integer, selects its own class *)
Lemma registered_selects_own c : In c RPC_SUBCLS_CODES -> class_of RPC_SUBCLS_CODES (CNum (PInt c)) = Some c.
Proof.
  unfold RPC_SUBCLS_CODES. cbn [In]. intros H.
  repeat (destruct H as [<- | H]; [vm_compute; reflexivity|]). destruct H.
Qed.

(* ====================================================================================
   error replies
   ==================================================================================== *)
(* reply = object `fields` (distinct member names) whose error member `err` is not null *)
Theorem error_reply_dispatch fields err :
  wf_sjson (SJObj fields) = true -> NoDup (map fst fields) ->
  error_member fields = Some err ->
  match err with SJObj ef => NoDup (map fst ef) | _ => True end ->
  match spec_error_class RPC_SUBCLS_CODES err with
  | Some cls => exists code, call_outcome (JsonBody (wire (SJObj fields))) = Raised cls code
  | None => call_outcome (JsonBody (wire (SJObj fields))) = Failed TypeError
  end.
Proof.
  intros Hwf Hnd Herr Hnd2.
  destruct table_facts as (T1 & T2 & T3 & T4 & T5 & T6 & T7 & _).
  unfold call_outcome. rewrite (json_ok_wire _ Hwf). cbn [negb wire].
  fold wire_kv. rewrite (obj_get_member _ fields Hnd).
  unfold error_member in Herr.
  assert (Hwe : wf_sjson err = true).
  { unfold member in Herr. destruct (find _ fields) as [[k v]|] eqn:F; [|discriminate Herr].
    apply find_some in F as [Hin _]. cbn [wf_sjson] in Hwf. rewrite forallb_forall in Hwf.
    specialize (Hwf (k, v) Hin). cbn in Hwf. destruct v; inversion Herr; subst; exact Hwf. }
  destruct (member (T "error") fields) as [e|]; [|discriminate Herr].
  destruct e as [|b|s|s|l|ef]; try discriminate Herr; injection Herr as <-; cbn [wire spec_error_class].
  - eexists. unfold raise_int, raise_rpc. rewrite T4. reflexivity.
  - eexists. unfold raise_int, raise_rpc. rewrite T4. reflexivity.
  - eexists. unfold raise_int, raise_rpc. rewrite T4. reflexivity.
  - eexists. unfold raise_int, raise_rpc. rewrite T4. reflexivity.
  - fold wire_kv. rewrite (obj_get_member _ ef Hnd2).
    assert (Hwc : forall c, member (T "code") ef = Some c -> wf_sjson c = true).
    { intros c Hc. unfold member in Hc. destruct (find _ ef) as [[k v]|] eqn:F; [|discriminate Hc].
      injection Hc as <-. apply find_some in F as [Hin _]. cbn [wf_sjson] in Hwe.
      rewrite forallb_forall in Hwe. exact (Hwe (k, v) Hin). }
    destruct (member (T "code") ef) as [c|].
    + specialize (Hwc c eq_refl). destruct c as [|b|s|s|l|l]; cbn [wire raise_json].
      * eexists. unfold raise_rpc. reflexivity.
      * eexists. unfold raise_rpc. destruct b; [rewrite T6|rewrite T7]; reflexivity.
      * cbn [wf_sjson] in Hwc. rewrite (scan_spell s Hwc). eexists. unfold raise_rpc.
        rewrite (class_of_spelling _ s Hwc). reflexivity.
      * eexists. unfold raise_rpc. reflexivity.
      * reflexivity.
      * reflexivity.
    + eexists. unfold raise_int, raise_rpc. rewrite T5. reflexivity.
Qed.

Corollary error_reply_no_result fields err :
  wf_sjson (SJObj fields) = true -> NoDup (map fst fields) ->
  error_member fields = Some err ->
  match err with SJObj ef => NoDup (map fst ef) | _ => True end ->
  forall v, call_outcome (JsonBody (wire (SJObj fields))) <> Result v.
Proof.
  intros H1 H2 H3 H4 v E. pose proof (error_reply_dispatch fields err H1 H2 H3 H4) as X.
  destruct (spec_error_class RPC_SUBCLS_CODES err) as [cls|].
  - destruct X as [code X]. rewrite X in E. discriminate E.
  - rewrite X in E. discriminate E.
Qed.

(* the other replies the property lists: no response, a body that is not JSON, a missing
   result - each raises the base class with the literal code of the source, or (bytes that
   are not UTF-8, connection faults, a JSON document that is not an object) another
   exception; never a result *)
Theorem bad_reply_no_result rp :
  match rp with
  | JsonBody (JObj l) => json_ok (JObj l) = true -> obj_get (T "result") l = None
  | _ => True end ->
  forall v, call_outcome rp <> Result v.
Proof.
  destruct table_facts as (T1 & T2 & T3 & T4 & T5 & _).
  intros H v. destruct rp as [| | |b|j]; cbn [call_outcome]; try discriminate.
  - destruct (utf8_valid b); discriminate.
  - destruct (json_ok j) eqn:Hok; cbn [negb]; [|discriminate].
    destruct j as [| | | | |l]; try discriminate.
    specialize (H Hok). rewrite H.
    destruct (obj_get (T "error") l) as [e|]; [destruct e as [| | | | |ef]|]; try discriminate.
    destruct (obj_get (T "code") ef) as [c|]; [|discriminate].
    destruct c; cbn [raise_json]; try discriminate. destruct (scan_number t); discriminate.
Qed.
Lemma synthesized_codes_base :
  call_outcome NoResponse = Raised None (CNum (PInt RPC_ERR_NO_RESPONSE)) /\
  (forall b, utf8_valid b = true -> call_outcome (NonJsonBody b) = Raised None (CNum (PInt RPC_ERR_NON_JSON))) /\
  (forall l, json_ok (JObj l) = true -> obj_get (T "error") l = None \/ obj_get (T "error") l = Some JNull ->
             obj_get (T "result") l = None ->
             call_outcome (JsonBody (JObj l)) = Raised None (CNum (PInt RPC_ERR_MISSING_RESULT))).
Proof.
  destruct table_facts as (T1 & T2 & T3 & T4 & T5 & _).
  split; [|split].
  - cbn [call_outcome]. unfold raise_int, raise_rpc. rewrite T1. reflexivity.
  - intros b Hb. cbn [call_outcome]. rewrite Hb. unfold raise_int, raise_rpc. rewrite T2. reflexivity.
  - intros l Hok He Hr. unfold call_outcome. rewrite Hok. cbn [negb].
    destruct He as [-> | ->]; rewrite Hr; unfold raise_int, raise_rpc; rewrite T3; reflexivity.
Qed.

(* ---------- the wrappers ---------- *)
Definition wrapper_catch (m : mcall) : option Z :=
  match m with
  | MGetBlockHash _ => Some RPC_CATCH_getblockhash
  | MGetBlock _ => Some RPC_CATCH_getblock
  | MGetBlockHeader _ _ => Some RPC_CATCH_getblockheader
  | MGetRawTransaction _ _ _ => Some RPC_CATCH_getrawtransaction
  | _ => None
  end.
Definition is_batch (m : mcall) : bool := match m with MBatch _ => true | _ => false end.
(* the wrapper reaches _call: it is not _batch and float(amount) did not overflow *)
Definition reaches_call (m : mcall) : bool :=
  negb (is_batch m) && match precheck m with Ok _ => true | Err _ => false end.
Lemma reaches_call_inv m : reaches_call m = true -> is_batch m = false /\ exists u, precheck m = Ok u.
Proof.
  unfold reaches_call. intros H. apply andb_true_iff in H as [H1 H2]. apply negb_true_iff in H1.
  split; [exact H1|]. destruct (precheck m) as [u|]; [eauto|discriminate H2].
Qed.

(* a JSONRPCError raised by _call leaves every wrapper as that same exception, except where
   the wrapper documents the translation of one registered class into IndexError *)
Theorem wrapper_raises o p m rp cls code : reaches_call m = true ->
  call_outcome rp = Raised cls code ->
  ev_out (snd (step o p m rp)) =
    match cls, wrapper_catch m with
    | Some c, Some k => if c =? k then Failed IndexError else Raised cls code
    | _, _ => Raised cls code
    end.
Proof.
  intros Hb Hc. apply reaches_call_inv in Hb as [Hb [u Hu]]. unfold step. rewrite Hu.
  destruct m; try discriminate Hb; cbn [request_of snd ev_out translate wrapper_catch];
    rewrite Hc; cbn [obind catch_index]; try reflexivity;
    destruct cls as [c|]; try reflexivity;
    match goal with |- context [c =? ?k] => destruct (c =? k); reflexivity end.
Qed.
Theorem wrapper_failed o p m rp e : reaches_call m = true ->
  call_outcome rp = Failed e -> ev_out (snd (step o p m rp)) = Failed e.
Proof.
  intros Hb Hc. apply reaches_call_inv in Hb as [Hb [u Hu]]. unfold step. rewrite Hu.
  destruct m; try discriminate Hb; cbn [request_of snd ev_out translate];
    rewrite Hc; reflexivity.
Qed.
Corollary wrapper_no_result o p m rp : reaches_call m = true ->
  (forall v, call_outcome rp <> Result v) -> forall v, ev_out (snd (step o p m rp)) <> Result v.
Proof.
  intros Hb Hn v. destruct (call_outcome rp) as [j|cls code|e] eqn:E.
  - exfalso. exact (Hn j eq_refl).
  - rewrite (wrapper_raises o p m rp cls code Hb E).
    destruct cls as [c|]; [|discriminate]. destruct (wrapper_catch m) as [k|]; [|discriminate].
    destruct (c =? k); discriminate.
  - rewrite (wrapper_failed o p m rp e Hb E). discriminate.
Qed.

(* ====================================================================================
   request ids
   ==================================================================================== *)
Definition sent_ids (evs : list event) : list Z :=
  flat_map (fun ev => match ev_sent ev with Some r => [rq_id r] | None => [] end) evs.
Fixpoint zseq (start : Z) (n : nat) : list Z :=
  match n with O => [] | S k => start :: zseq (start + 1) k end.
Definition calls (ops : list (mcall * reply)) : nat := length (filter (fun op => reaches_call (fst op)) ops).
Lemma step_reaches o p m rp :
  step o p m rp = if reaches_call m
                  then ({| id_count := id_count p + 1 |},
                        {| ev_sent := ev_sent (snd (step o p m rp)); ev_out := ev_out (snd (step o p m rp)) |})
                  else (p, {| ev_sent := None; ev_out := ev_out (snd (step o p m rp)) |}).
Proof.
  unfold reaches_call, step. destruct (request_of m) as [[name params]|] eqn:R.
  - assert (is_batch m = false) as -> by (destruct m; try reflexivity; discriminate R). cbn [negb andb].
    destruct (precheck m); reflexivity.
  - assert (is_batch m = true) as -> by (destruct m; try reflexivity; discriminate R). reflexivity.
Qed.
Lemma step_sent o p m rp :
  match ev_sent (snd (step o p m rp)) with
  | Some r => reaches_call m = true /\ rq_id r = id_count p + 1
  | None => reaches_call m = false
  end.
Proof.
  unfold reaches_call, step. destruct (request_of m) as [[name params]|] eqn:R.
  - assert (is_batch m = false) as -> by (destruct m; try reflexivity; discriminate R). cbn [negb andb].
    destruct (precheck m); cbn [snd ev_sent rq_id]; auto.
  - assert (is_batch m = true) as -> by (destruct m; try reflexivity; discriminate R). reflexivity.
Qed.

(* over ANY history (whatever the methods, whatever the replies: results, error replies,
   garbage, connection faults) the ids sent are id0+1, id0+2, ... *)
Theorem ids_consecutive o : forall ops p,
  sent_ids (run o p ops) = zseq (id_count p + 1) (calls ops).
Proof.
  induction ops as [|[m rp] rest IH]; intros p; [reflexivity|].
  cbn [run]. pose proof (step_sent o p m rp) as SS. rewrite (step_reaches o p m rp) in *.
  unfold calls. cbn [filter fst].
  destruct (reaches_call m) eqn:RC; cbn [sent_ids flat_map ev_sent snd] in *.
  - fold (sent_ids (run o {| id_count := id_count p + 1 |} rest)). rewrite IH.
    destruct (ev_sent (snd (step o p m rp))) as [r|]; [|discriminate SS].
    destruct SS as [_ ->]. cbn [length zseq id_count app]. reflexivity.
  - fold (sent_ids (run o p rest)). rewrite IH. reflexivity.
Qed.

Lemma zseq_lower start n : Forall (fun x => start <= x) (zseq start n).
Proof.
  revert start. induction n as [|k IH]; intros start; [constructor|].
  cbn [zseq]. constructor; [lia|]. eapply Forall_impl; [|apply IH]. cbn. intros; lia.
Qed.
Lemma zseq_sorted start n : StronglySorted Z.lt (zseq start n).
Proof.
  revert start. induction n as [|k IH]; intros start; [constructor|].
  cbn [zseq]. constructor; [apply IH|]. eapply Forall_impl; [|apply zseq_lower]. cbn. intros; lia.
Qed.

Theorem ids_strictly_increase o ops p :
  strictly_increasing (sent_ids (run o p ops)) /\ Forall (fun i => id_count p < i) (sent_ids (run o p ops)).
Proof.
  rewrite ids_consecutive. split; [apply zseq_sorted|].
  eapply Forall_impl; [|apply zseq_lower]. cbn. intros; lia.
Qed.

(* the counter itself: after any history it has advanced by the number of calls made *)
Fixpoint final (o : objs) (p : proxy) (ops : list (mcall * reply)) : proxy :=
  match ops with [] => p | (m, rp) :: rest => final o (fst (step o p m rp)) rest end.
Lemma final_count o : forall ops p, id_count (final o p ops) = id_count p + Z.of_nat (calls ops).
Proof.
  induction ops as [|[m rp] rest IH]; intros p; [cbn; lia|].
  cbn [final]. rewrite IH. unfold calls. cbn [filter fst]. rewrite (step_reaches o p m rp).
  destruct (reaches_call m); cbn [fst length id_count]; lia.
Qed.
