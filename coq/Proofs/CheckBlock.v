(* Proofs/CheckBlock.v – C16, block level: the model of CheckBlock decides the reference
   predicate valid_block (for blocks whose fields are in wire range, any hash function with
   32-byte digests, any chain whose proof-of-work limit is below 2^256) and every error it
   raises is in the validation family.  Built on the finished developments: C01 (wire
   forms), C02 (txid / wtxid), C15 (merkle roots, witness root, commitment index, weight),
   C17 (proof of work), C08 (sigop count). *)
From BV Require Import Common.Base Common.PyList Common.Codec Common.Tx Gen.Core.
From BV Require Import Spec.Wire Spec.Merkle Spec.Compact Spec.Script Spec.Check.
From BV Require Import Model.Wire Model.Ident Model.Merkle Model.Weight Model.Compact Model.Script Model.Check.
From BV Require Import Proofs.Wire Proofs.Ident Proofs.Merkle Proofs.Weight Proofs.Compact Proofs.CheckTx.

Lemma magic_eq : WITNESS_COINBASE_SCRIPTPUBKEY_MAGIC = commit_magic.
Proof. reflexivity. Qed.

(* ---------- the commitment output ---------- *)
Lemma find_app_skip {A} (p : A -> bool) : forall l1 l2, (forall x, In x l1 -> p x = false) ->
  find p (l1 ++ l2) = find p l2.
Proof.
  induction l1 as [|a l1 IH]; intros l2 F; [reflexivity|]. cbn [app find].
  rewrite (F a (or_introl eq_refl)). apply IH. intros x I. apply F. right. exact I.
Qed.
Lemma commitment_of_index magic outs i s : is_commit_index magic outs i -> nth_error outs i = Some s ->
  find (commit_pattern magic) (rev outs) = Some s.
Proof.
  intros [[s' [N P]] L] N'. rewrite N in N'. injection N' as ->.
  destruct (nth_error_split outs i N) as (l1 & l2 & -> & Li).
  rewrite rev_app_distr. cbn [rev]. rewrite <- app_assoc. rewrite find_app_skip.
  - cbn [app find]. now rewrite P.
  - intros x I. apply in_rev in I. apply In_nth_error in I as [n Nn].
    apply (L (i + 1 + n)%nat x); [lia|]. rewrite nth_error_app2 by lia.
    replace (i + 1 + n - length l1)%nat with (S n) by lia. exact Nn.
Qed.
Lemma commitment_none magic outs : Forall (fun s => commit_pattern magic s = false) outs ->
  find (commit_pattern magic) (rev outs) = None.
Proof.
  intros F. destruct (find (commit_pattern magic) (rev outs)) as [x|] eqn:E; [|reflexivity].
  apply find_some in E as [I P]. apply in_rev in I. rewrite Forall_forall in F. rewrite (F x I) in P. discriminate.
Qed.

Section BlockProofs.
Variable H : bytes -> bytes.
Hypothesis H32 : forall x, length (H x) = 32%nat.

Lemma wit_count t : tx_in_range t -> (length (tx_wit t) <= length (tx_vin t))%nat.
Proof. intros (_ & _ & _ & _ & [-> | ->]); cbn [length]; lia. Qed.

(* GetHash() – the wtxid – is H of the full wire form *)
Lemma get_hash_full t : (length (tx_wit t) <= length (tx_vin t))%nat -> get_hash H t = Ok (H (wire_tx t)).
Proof.
  intros L. unfold get_hash, ser_tx. cbn [andb]. destruct (has_witness t) eqn:HW.
  - apply Nat.ltb_ge in L. rewrite L. cbn [bind]. now rewrite enc_tx.
  - cbn [bind]. rewrite enc_tx_set_nil. unfold wire_tx. now rewrite HW.
Qed.

(* what the block object holds of its transactions *)
Definition txv_of (t : tx) : txv := {| tv_txid := txid H t; tv_hash := wtxid H t; tv_haswit := has_witness t |}.
Lemma block_txvs_eq vtx : Forall tx_in_range vtx -> block_txvs H vtx = Ok (map txv_of vtx).
Proof.
  induction 1 as [|t r R _ IH]; [reflexivity|]. cbn [block_txvs map]. unfold to_txv.
  rewrite txid_stripped, get_hash_full by (apply wit_count; exact R). cbn [bind]. rewrite IH. reflexivity.
Qed.
Lemma txv_txids vtx : map tv_txid (map txv_of vtx) = map (txid H) vtx.
Proof. rewrite map_map. reflexivity. Qed.
Lemma txv_hashes vtx : map tv_hash (map txv_of vtx) = map (wtxid H) vtx.
Proof. rewrite map_map. reflexivity. Qed.
Lemma txv_haswit vtx : existsb tv_haswit (map txv_of vtx) = existsb has_witness vtx.
Proof. induction vtx as [|t r IH]; [reflexivity|]. cbn [map existsb]. now rewrite IH. Qed.

(* ---------- the per-transaction loop ---------- *)
Lemma sigops_sum_nonneg r : 0 <= zsum (map tx_sigops r).
Proof. apply zsum_nonneg, Forall_forall. intros v I. apply in_map_iff in I as [u [<- _]]. apply tx_sigops_nonneg. Qed.

Lemma check_txs_dec cp : forall vtx first seen n, Forall tx_in_range vtx -> n <= 20000 ->
  decides (check_txs H cp vtx first seen n)
    (Forall (fun t => ~ coinbase t) (if first then tl vtx else vtx) /\
     Forall (valid_tx cp) vtx /\ NoDup (map (txid H) vtx) /\
     (forall x, In x (map (txid H) vtx) -> ~ In x seen) /\
     n + zsum (map tx_sigops vtx) <= 20000).
Proof.
  induction vtx as [|t r IH]; intros first seen n R Hn; cbn [check_txs].
  - accept. split; [destruct first; constructor|]. split; [constructor|]. split; [constructor|].
    split; [intros x []|]. cbn [map zsum fold_right]. lia.
  - inversion R as [|? ? Rt Rr]; subst.
    assert (CB : (if first then Ok false else is_coinbase t) = Ok (if first then false else coinbaseb t))
      by (destruct first; [reflexivity | apply is_coinbase_eq]).
    rewrite CB. cbn [bind].
    destruct (if first then false else coinbaseb t) eqn:C.
    { reject. destruct first; [discriminate|]. apply coinbaseb_iff in C. intros [F _]. inversion F. contradiction. }
    destruct (check_tx_dec cp t Rt) as [[-> V] | [e [-> [Ve nV]]]].
    2:{ right. exists e. split; [reflexivity|]. split; [exact Ve|]. intros (_ & F & _). inversion F. contradiction. }
    cbn [bind]. rewrite txid_stripped by (apply wit_count; exact Rt). cbn [bind]. fold (txid H t).
    destruct (existsb (bytes_eqb (txid H t)) seen) eqn:X.
    { reject. apply existsb_exists in X as [y [I E]]. apply bytes_eqb_eq in E. subst y.
      intros (_ & _ & _ & F & _). apply (F (txid H t)); [left; reflexivity | exact I]. }
    assert (NI : ~ In (txid H t) seen).
    { intros I. assert (existsb (bytes_eqb (txid H t)) seen = true); [|congruence].
      apply existsb_exists. exists (txid H t). split; [exact I | apply bytes_eqb_refl]. }
    rewrite legacy_sigops_eq. cbn [bind]. unfold MAX_BLOCK_SIGOPS.
    cbn [map zsum fold_right]. fold (zsum (map tx_sigops r)).
    pose proof (tx_sigops_nonneg t) as S0. pose proof (sigops_sum_nonneg r) as Sr.
    destruct (n + tx_sigops t >? 20000) eqn:G.
    { apply gtb_true in G. reject. intros (_ & _ & _ & _ & X'). lia. }
    apply gtb_false in G.
    eapply decides_iff; [|apply (IH false (txid H t :: seen) (n + tx_sigops t) Rr G)].
    split.
    + intros (F & Vr & D & Fs & S). split; [|split; [|split; [|split]]].
      * destruct first; cbn [tl]; [exact F|]. constructor; [|exact F]. apply coinbaseb_false_iff. exact C.
      * constructor; assumption.
      * constructor; [|exact D]. intros I. apply (Fs _ I). left. reflexivity.
      * intros x [<- | I]; [exact NI|]. intros Is. apply (Fs x I). right. exact Is.
      * lia.
    + intros (F & Vr & D & Fs & S). inversion D as [|? ? N D']; subst. inversion Vr; subst.
      split; [|split; [|split; [|split]]].
      * destruct first; cbn [tl] in F; [exact F|]. inversion F. assumption.
      * assumption.
      * exact D'.
      * intros x I [<- | Is]; [contradiction|]. apply (Fs x); [right; exact I | exact Is].
      * lia.
Qed.

Lemma in_u4_32 v : in_u 4 v -> 0 <= v < 2^32.
Proof. unfold in_u. change (256 ^ Z.of_nat 4) with (2^32). tauto. Qed.

(* ---------- CheckBlock ---------- *)
Theorem check_block_dec cp b fp fm now : block_in_range b -> cp_pow_limit cp < 2^256 ->
  decides (check_block H cp b fp fm now) (valid_block H cp now fp fm b).
Proof.
  intros [Wh Rv] Lim. unfold check_block, valid_block. cbv zeta.
  rewrite (block_txvs_eq _ Rv). cbn [bind].
  destruct (cblock_init_witness_part H (map txv_of (b_vtx b))) as (wt & Ew & Wn & Wy).
  unfold witness_merkle_tree. rewrite Ew. cbn [bind]. rewrite txv_haswit in Wn, Wy.
  pose proof Wh as (Hv & Lp & Lm & Ht & Hb & Hn).
  unfold header_init. rewrite Lp, Lm. cbn [Nat.eqb negb bind].
  unfold check_block_header. rewrite enc_header.
  assert (PW : decides (if fp then check_pow (cp_pow_limit cp) (H (wire_header (b_hdr b))) (h_bits (b_hdr b)) else Ok tt)
                       (fp = true -> pow_ok (cp_pow_limit cp) (H (wire_header (b_hdr b))) (h_bits (b_hdr b)))).
  { destruct fp.
    - destruct (check_pow_iff (cp_pow_limit cp) (H (wire_header (b_hdr b))) (h_bits (b_hdr b))) as [I C];
        [apply in_u4_32; exact Hb | apply H32 | exact Lim |].
      destruct C as [E | E].
      + left. split; [exact E|]. intros _. apply I. exact E.
      + right. exists CheckPowErr. split; [exact E|]. split; [reflexivity|].
        intros X. specialize (X eq_refl). apply I in X. congruence.
    - accept. discriminate. }
  destruct PW as [[-> Pw] | [e [-> [Ve nP]]]].
  2:{ right. exists e. split; [reflexivity|]. split; [exact Ve|]. intros [X _]. contradiction. }
  cbn [bind]. change (2 * 60 * 60) with 7200.
  destruct (h_time (b_hdr b) >? now + 7200) eqn:T.
  { apply gtb_true in T. reject. intros (_ & X & _). lia. }
  apply gtb_false in T.
  rewrite ser_block_stripped_eq, (block_weight b Wh). unfold MAX_BLOCK_SIZE, MAX_BLOCK_WEIGHT.
  destruct (b_vtx b) as [|cb rest] eqn:Ev; cbn [is_nil].
  { reject. intros (_ & _ & X & _). congruence. }
  destruct (lenZ (wire_block_stripped b) >? 1000000) eqn:S1.
  { apply gtb_true in S1. reject. intros (_ & _ & _ & X & _). lia. }
  apply gtb_false in S1.
  destruct (3 * lenZ (wire_block_stripped b) + lenZ (wire_block b) >? 4000000) eqn:S2.
  { apply gtb_true in S2. reject. intros (_ & _ & _ & _ & X & _). lia. }
  apply gtb_false in S2.
  rewrite py_nth_0. cbn [bind]. rewrite is_coinbase_eq. cbn [bind].
  destruct (coinbaseb cb) eqn:C; cbn [negb].
  2:{ reject. intros (_ & _ & _ & _ & _ & (cb' & rest' & E & Cb & _) & _). injection E as <- <-.
      apply coinbaseb_iff in Cb. congruence. }
  apply coinbaseb_iff in C.
  assert (Z0 : 0 <= 20000) by lia.
  destruct (check_txs_dec cp (cb :: rest) true [] 0 Rv Z0) as [[-> (F & V & D & _ & S)] | [e [-> [Ve nP]]]].
  2:{ right. exists e. split; [reflexivity|]. split; [exact Ve|].
      intros (_ & _ & _ & _ & _ & (cb' & rest' & E & _ & Fr) & Vv & Dd & Ss & _). injection E as <- <-. apply nP.
      cbn [tl]. split; [exact Fr|]. split; [exact Vv|]. split; [exact Dd|]. split; [intros x _ []|]. lia. }
  cbn [bind]. cbn [tl] in F.
  assert (Base : forall Q : Prop, Q ->
    (fp = true -> pow_ok (cp_pow_limit cp) (H (wire_header (b_hdr b))) (h_bits (b_hdr b))) /\
    h_time (b_hdr b) <= now + 7200 /\ cb :: rest <> [] /\ lenZ (wire_block_stripped b) <= 1000000 /\
    3 * lenZ (wire_block_stripped b) + lenZ (wire_block b) <= 4000000 /\
    (exists cb0 rest0, cb :: rest = cb0 :: rest0 /\ coinbase cb0 /\ Forall (fun t => ~ coinbase t) rest0) /\
    Forall (valid_tx cp) (cb :: rest) /\ NoDup (map (txid H) (cb :: rest)) /\
    zsum (map tx_sigops (cb :: rest)) <= 20000 /\ Q).
  { intros Q q. split; [exact Pw|]. split; [exact T|]. split; [discriminate|]. split; [exact S1|]. split; [exact S2|].
    split; [exists cb, rest; auto|]. split; [exact V|]. split; [exact D|]. split; [lia | exact q]. }
  destruct fm; cbn [negb].
  2:{ accept. apply Base. discriminate. }
  destruct (calc_merkle_root_eq_spec H (map txv_of (cb :: rest))) as [r [Er Ec]]; [discriminate|].
  rewrite txv_txids in Er. rewrite Ec. cbn [bind].
  destruct (bytes_eqb (h_merkle (b_hdr b)) r) eqn:M; cbn [negb].
  2:{ reject. intros (_ & _ & _ & _ & _ & _ & _ & _ & _ & X). destruct (X eq_refl) as [X1 _].
      rewrite Er in X1. injection X1 as X1. rewrite X1, bytes_eqb_refl in M. discriminate. }
  apply bytes_eqb_eq in M. subst r.
  destruct (existsb has_witness (cb :: rest)) eqn:HW.
  2:{ rewrite (Wn eq_refl). change (lenZ (@nil bytes) =? 0) with true. cbv iota.
      accept. apply Base. intros _. split; [exact Er | discriminate]. }
  specialize (Wy eq_refl).
  destruct (witness_root_eq_spec H (map txv_of (cb :: rest))) as [wr [Ewr Ecw]];
    [discriminate | rewrite txv_haswit; exact HW |].
  rewrite txv_hashes in Ewr.
  unfold calc_witness_merkle_root in Ecw. cbn [map length Nat.eqb] in Ecw, Wy. rewrite Wy in Ecw. cbn [bind] in Ecw.
  destruct wt as [|w0 wt']; [cbn in Ecw; discriminate|].
  rewrite lenZ_cons. pose proof (lenZ_nonneg wt') as Lw.
  destruct (Z.eqb_spec (1 + lenZ wt') 0) as [?|_]; [lia|].
  rewrite Ecw. cbn [bind].
  (* every later rejection refutes the commitment clause *)
  assert (Rej : ~ witness_commitment_ok H (cb :: rest) ->
          ~ ((fp = true -> pow_ok (cp_pow_limit cp) (H (wire_header (b_hdr b))) (h_bits (b_hdr b))) /\
             h_time (b_hdr b) <= now + 7200 /\ cb :: rest <> [] /\ lenZ (wire_block_stripped b) <= 1000000 /\
             3 * lenZ (wire_block_stripped b) + lenZ (wire_block b) <= 4000000 /\
             (exists cb0 rest0, cb :: rest = cb0 :: rest0 /\ coinbase cb0 /\ Forall (fun t => ~ coinbase t) rest0) /\
             Forall (valid_tx cp) (cb :: rest) /\ NoDup (map (txid H) (cb :: rest)) /\
             zsum (map tx_sigops (cb :: rest)) <= 20000 /\
             (true = true -> spec_root H (map (txid H) (cb :: rest)) = Some (h_merkle (b_hdr b)) /\
                (true = true -> witness_commitment_ok H (cb :: rest))))).
  { intros nW (_ & _ & _ & _ & _ & _ & _ & _ & _ & X). destruct (X eq_refl) as [_ X2]. apply nW, X2. reflexivity. }
  destruct (tx_wit cb) as [|stack ws] eqn:Ewit.
  { change (lenZ (@nil (list bytes)) <? 1) with true. cbv iota. reject. apply Rej. unfold witness_commitment_ok. rewrite ?Ewit.
    intros (r0 & wr0 & s0 & N & _). discriminate. }
  rewrite lenZ_cons. pose proof (lenZ_nonneg ws) as Lws.
  destruct (Z.ltb_spec (1 + lenZ ws) 1) as [?|_]; [lia|].
  rewrite py_nth_0. cbn [bind].
  destruct stack as [|nonce [|x2 st]].
  { change (lenZ (@nil bytes) =? 1) with false. cbn [negb]. reject. apply Rej. unfold witness_commitment_ok. rewrite ?Ewit.
    intros (r0 & wr0 & s0 & N & _). discriminate. }
  2:{ rewrite !lenZ_cons. pose proof (lenZ_nonneg st). destruct (Z.eqb_spec (1 + (1 + lenZ st)) 1) as [?|_]; [lia|].
      cbn [negb]. reject. apply Rej. unfold witness_commitment_ok. rewrite ?Ewit. intros (r0 & wr0 & s0 & N & _). discriminate. }
  change (lenZ [nonce] =? 1) with true. cbn [negb]. rewrite py_nth_0. cbn [bind].
  destruct (Z.eqb_spec (lenZ nonce) 32) as [L32|L32]; cbn [negb].
  2:{ reject. apply Rej. unfold witness_commitment_ok. rewrite ?Ewit. intros (r0 & wr0 & s0 & N & L & _). injection N as <-. unfold lenZ in L32. lia. }
  cbn [map].
  pose proof (commitment_index_spec WITNESS_COINBASE_SCRIPTPUBKEY_MAGIC (map to_script (tx_vout cb))
                (map (fun t => map to_script (tx_vout t)) rest)) as CI.
  destruct (get_witness_commitment_index WITNESS_COINBASE_SCRIPTPUBKEY_MAGIC
              (map to_script (tx_vout cb) :: map (fun t => map to_script (tx_vout t)) rest)) as [i|e].
  2:{ destruct CI as [-> Fa]. cbn [bind]. reject. apply Rej. unfold witness_commitment_ok. rewrite ?Ewit. intros (r0 & wr0 & s0 & _ & _ & _ & Cm & _).
      unfold commitment_output in Cm. rewrite <- magic_eq, (commitment_none _ _ Fa) in Cm. discriminate. }
  cbn [bind]. pose proof CI as [[s [Ns Ps]] _].
  pose proof (commitment_of_index _ _ _ _ CI Ns) as Cm. rewrite magic_eq in Cm. fold (commitment_output cb) in Cm.
  rewrite nth_error_map in Ns. destruct (nth_error (tx_vout cb) i) as [out|] eqn:No; [|discriminate].
  cbn [option_map] in Ns. injection Ns as Es.
  assert (Li : (i < length (tx_vout cb))%nat) by (apply nth_error_Some; congruence).
  rewrite (py_nth_in_range (tx_vout cb) (Z.of_nat i) out); [|unfold len; lia|rewrite Nat2Z.id; exact No].
  cbn [bind]. rewrite Es.
  assert (L38 : 38 <= lenZ s).
  { unfold commit_pattern in Ps. apply andb_true_iff in Ps as [Ps _]. apply Nat.leb_le in Ps. unfold lenZ. lia. }
  destruct (Z.leb_spec (6 + 32) (lenZ s)) as [_|?]; [|lia]. cbn [negb].
  destruct (bytes_eqb (firstn 32 (skipn 6 s)) (H (wr ++ nonce))) eqn:Eq; cbn [negb].
  - apply bytes_eqb_eq in Eq. accept. apply Base. intros _. split; [exact Er|]. intros _.
    unfold witness_commitment_ok. rewrite Ewit. exists nonce, wr, s. split; [reflexivity|]. split; [unfold lenZ in L32; lia|]. auto.
  - reject. apply Rej. unfold witness_commitment_ok. rewrite ?Ewit. intros (r0 & wr0 & s0 & N & _ & W0 & C0 & E0). injection N as <-.
    rewrite Ewr in W0. injection W0 as <-. rewrite Cm in C0. injection C0 as <-.
    rewrite E0, bytes_eqb_refl in Eq. discriminate.
Qed.

(* the two statements of the property, from [decides] *)
Corollary check_block_iff cp b fp fm now : block_in_range b -> cp_pow_limit cp < 2^256 ->
  (check_block H cp b fp fm now = Ok tt <-> valid_block H cp now fp fm b).
Proof. intros R L. apply decides_ok, check_block_dec; assumption. Qed.
Corollary check_block_errors cp b fp fm now e : block_in_range b -> cp_pow_limit cp < 2^256 ->
  check_block H cp b fp fm now = Err e -> is_validation e = true.
Proof. intros R L. apply decides_err with (P := valid_block H cp now fp fm b), check_block_dec; assumption. Qed.
End BlockProofs.

Lemma chains_limit cp : In cp chains -> cp_pow_limit cp < 2^256.
Proof. intros [<- | [<- | [<- | [<- | []]]]]; vm_compute; reflexivity. Qed.

(* ---------- the statements of Props/C16.v ---------- *)
Theorem check_tx_iff : forall (cp : chain_params) (t : tx), tx_in_range t ->
  (check_tx cp t = Ok tt <-> valid_tx cp t).
Proof. intros cp t R. exact (decides_ok _ _ (check_tx_dec cp t R)). Qed.
Theorem check_tx_errors : forall (cp : chain_params) (t : tx) (e : exn), tx_in_range t ->
  check_tx cp t = Err e -> is_validation e = true.
Proof. intros cp t e R. exact (decides_err _ _ e (check_tx_dec cp t R)). Qed.
Theorem check_block_iff_chains : forall (H : bytes -> bytes), (forall x, length (H x) = 32%nat) ->
  forall (cp : chain_params), In cp chains ->
  forall (b : block) (fCheckPoW fCheckMerkleRoot : bool) (cur_time : Z), block_in_range b ->
  (check_block H cp b fCheckPoW fCheckMerkleRoot cur_time = Ok tt
   <-> valid_block H cp cur_time fCheckPoW fCheckMerkleRoot b).
Proof. intros H H32 cp I b fp fm now R. exact (check_block_iff H H32 cp b fp fm now R (chains_limit cp I)). Qed.
Theorem check_block_errors_chains : forall (H : bytes -> bytes), (forall x, length (H x) = 32%nat) ->
  forall (cp : chain_params), In cp chains ->
  forall (b : block) (fCheckPoW fCheckMerkleRoot : bool) (cur_time : Z) (e : exn), block_in_range b ->
  check_block H cp b fCheckPoW fCheckMerkleRoot cur_time = Err e -> is_validation e = true.
Proof. intros H H32 cp I b fp fm now e R. exact (check_block_errors H H32 cp b fp fm now e R (chains_limit cp I)). Qed.
Lemma limits_are_consensus :
  MAX_BLOCK_SIZE = 1000000 /\ MAX_BLOCK_WEIGHT = 4000000 /\ MAX_BLOCK_SIGOPS = 20000 /\
  WITNESS_COINBASE_SCRIPTPUBKEY_MAGIC = commit_magic /\
  map cp_max_money chains = [21000000 * 100000000; 21000000 * 100000000; 21000000 * 100000000; 21000000 * 100000000] /\
  map cp_pow_limit chains = [2^224 - 1; 2^224 - 1; 0x377ae * 2^216; 2^255 - 1].
Proof. repeat split. Qed.
