(* Proofs/Bloom.v – C20 (2)-(5): bloom_hash = BIP37 schedule; insert / contains of the MODEL
   equal the reference set-of-bits semantics for every filter and element; histories
   (inserts, queries, wire round trips) by induction over the operation list: bits set =
   initial ∪ scheduled, no false negatives; constructor caps for every value of the float
   expressions; wire round trip; empty data. *)
From Coq Require Import QArith.
From BV Require Import Common.Base Gen.Core Gen.Bloom Model.Bloom Spec.Bloom
  Proofs.BloomBits Proofs.BloomMurmur.
Open Scope Z_scope.

(* ====================================================================================
   bits of a byte string
   ==================================================================================== *)
Lemma bit_at_cons_lt b t m : 0 <= m < 8 -> bit_at (b :: t) m = Z.testbit (b2z b) m.
Proof.
  intros H. unfold bit_at. replace (m / 8) with 0 by lia. replace (m mod 8) with m by lia.
  reflexivity.
Qed.
Lemma bit_at_cons_ge b t m : 8 <= m -> bit_at (b :: t) m = bit_at t (m - 8).
Proof.
  intros H. unfold bit_at. replace (m mod 8) with ((m - 8) mod 8) by lia.
  replace (Z.to_nat (m / 8)) with (S (Z.to_nat ((m - 8) / 8))) by lia. reflexivity.
Qed.
Lemma bit_at_nil m : bit_at [] m = false.
Proof. unfold bit_at. destruct (Z.to_nat (m / 8)); cbn [nth]; apply Z.bits_0. Qed.

Lemma set_bit_length d : forall n, length (set_bit d n) = length d.
Proof.
  induction d as [|b t IH]; intros n; cbn [set_bit]; [reflexivity|].
  destruct (n <? 8); cbn [length]; [reflexivity|]. now rewrite IH.
Qed.
Lemma set_bits_length l : forall d, length (set_bits d l) = length d.
Proof.
  unfold set_bits. induction l as [|x l IH]; intros d; cbn [fold_left]; [reflexivity|].
  now rewrite IH, set_bit_length.
Qed.
Lemma lenZ_set_bit d n : lenZ (set_bit d n) = lenZ d.
Proof. unfold lenZ. now rewrite set_bit_length. Qed.
Lemma lenZ_set_bits d l : lenZ (set_bits d l) = lenZ d.
Proof. unfold lenZ. now rewrite set_bits_length. Qed.

Lemma b2z_z2b_small v : 0 <= v < 256 -> b2z (z2b v) = v.
Proof. intros H. rewrite b2z_z2b. apply Z.mod_small. exact H. Qed.

(* setting bit n sets exactly bit n *)
Lemma bit_at_set_bit d : forall n m, 0 <= n < 8 * lenZ d -> 0 <= m ->
  bit_at (set_bit d n) m = bit_at d m || (m =? n).
Proof.
  induction d as [|b t IH]; intros n m Hn Hm.
  - change (lenZ (@nil byte)) with 0 in Hn. lia.
  - rewrite lenZ_cons in Hn. cbn [set_bit]. pose proof (b2z_range b) as Hb.
    destruct (Z.ltb_spec n 8) as [L|G].
    + destruct (Z.ltb_spec m 8) as [Lm|Gm].
      * rewrite !bit_at_cons_lt by lia. rewrite b2z_z2b_small by (apply lor_pow2_byte; lia).
        apply testbit_lor_pow2; lia.
      * rewrite !bit_at_cons_ge by lia. destruct (Z.eqb_spec m n); [lia|]. now rewrite orb_false_r.
    + destruct (Z.ltb_spec m 8) as [Lm|Gm].
      * rewrite !bit_at_cons_lt by lia. destruct (Z.eqb_spec m n); [lia|]. now rewrite orb_false_r.
      * rewrite !bit_at_cons_ge by lia. rewrite IH by lia.
        f_equal. destruct (Z.eqb_spec (m - 8) (n - 8)), (Z.eqb_spec m n); try reflexivity; lia.
Qed.

Lemma bit_at_set_bits l : forall d m, (forall n, In n l -> 0 <= n < 8 * lenZ d) -> 0 <= m ->
  bit_at (set_bits d l) m = bit_at d m || existsb (Z.eqb m) l.
Proof.
  unfold set_bits. induction l as [|x l IH]; intros d m Hl Hm; cbn [fold_left existsb].
  - now rewrite orb_false_r.
  - rewrite IH.
    + rewrite bit_at_set_bit; [|apply Hl; now left|exact Hm]. now rewrite orb_assoc.
    + intros n Hn. rewrite lenZ_set_bit. apply Hl. now right.
    + exact Hm.
Qed.

(* the update the Python performs on one byte is set_bit *)
Lemma set_bit_upd d : forall n, 0 <= n < 8 * lenZ d ->
  set_bit d n = upd d (Z.to_nat (n / 8))
                  (z2b (Z.lor (b2z (nth (Z.to_nat (n / 8)) d x00)) (2 ^ (n mod 8)))).
Proof.
  induction d as [|b t IH]; intros n Hn.
  - change (lenZ (@nil byte)) with 0 in Hn. lia.
  - rewrite lenZ_cons in Hn. cbn [set_bit]. destruct (Z.ltb_spec n 8) as [L|G].
    + replace (n / 8) with 0 by lia. replace (n mod 8) with n by lia. reflexivity.
    + replace (Z.to_nat (n / 8)) with (S (Z.to_nat ((n - 8) / 8))) by lia.
      replace (n mod 8) with ((n - 8) mod 8) by lia. cbn [upd nth]. f_equal. apply IH. lia.
Qed.

(* a one-byte filter 0xff is saturated *)
Lemma set_bit_full n : 0 <= n < 8 -> set_bit [xff] n = [xff].
Proof.
  intros H. assert (C : n = 0 \/ n = 1 \/ n = 2 \/ n = 3 \/ n = 4 \/ n = 5 \/ n = 6 \/ n = 7) by lia.
  destruct C as [->|[->|[->|[->|[->|[->|[->| ->]]]]]]]; vm_compute; reflexivity.
Qed.
Lemma set_bits_full l : (forall n, In n l -> 0 <= n < 8) -> set_bits [xff] l = [xff].
Proof.
  unfold set_bits. induction l as [|x l IH]; intros H; cbn [fold_left]; [reflexivity|].
  rewrite set_bit_full by (apply H; now left). apply IH. intros n Hn. apply H. now right.
Qed.
Lemma bit_at_full n : 0 <= n < 8 -> bit_at [xff] n = true.
Proof.
  intros H. rewrite bit_at_cons_lt by lia. change (b2z xff) with (Z.ones 8).
  apply Z.ones_spec_low. lia.
Qed.

(* ====================================================================================
   Python indexing on the filter data and on the bit-mask table
   ==================================================================================== *)
Lemma ba_get_idx d k : 0 <= k < lenZ d -> ba_get d k = Ok (b2z (nth (Z.to_nat k) d x00)).
Proof.
  intros H. rewrite <- (Z2Nat.id k) at 1 by lia. apply ba_get_nth. unfold lenZ in H. lia.
Qed.
Lemma ba_set_idx d k v : 0 <= k < lenZ d -> 0 <= v < 256 ->
  ba_set d k v = Ok (upd d (Z.to_nat k) (z2b v)).
Proof.
  intros Hk Hv. unfold ba_set, py_norm.
  destruct (Z.ltb_spec k 0); [lia|]. destruct (Z.leb_spec 0 k); [|lia].
  destruct (Z.ltb_spec k (lenZ d)); [|lia]. cbn [andb bind].
  destruct (Z.leb_spec 0 v); [|lia]. destruct (Z.ltb_spec v 256); [|lia]. reflexivity.
Qed.
Lemma tbl_get_mask j : 0 <= j < 8 -> tbl_get bit_mask_table j = Ok (2 ^ j).
Proof.
  intros H. assert (C : j = 0 \/ j = 1 \/ j = 2 \/ j = 3 \/ j = 4 \/ j = 5 \/ j = 6 \/ j = 7) by lia.
  destruct C as [->|[->|[->|[->|[->|[->|[->| ->]]]]]]]; vm_compute; reflexivity.
Qed.
Lemma shiftr3 n : Z.shiftr n 3 = n / 8.
Proof. rewrite Z.shiftr_div_pow2 by lia. reflexivity. Qed.
Lemma land7 n : Z.land 7 n = n mod 8.
Proof. change 7 with (Z.ones 3). rewrite land_ones_l by lia. reflexivity. Qed.

(* ====================================================================================
   bloom_hash = BIP37 schedule (through murmur_model_eq_ref)
   ==================================================================================== *)
Lemma lenZ_zero_nil {A} (l : list A) : lenZ l = 0 -> l = [].
Proof. destruct l; [reflexivity|]. rewrite lenZ_cons. pose proof (lenZ_nonneg l). lia. Qed.

Lemma bloom_hash_ok f i e : lenZ (vData f) <> 0 ->
  bloom_hash f i e = Ok (bip37_index (lenZ (vData f)) (nTweak f) i e).
Proof.
  intros Hn. unfold bloom_hash, bloom_hash_mult, bloom_hash_mask, bloom_bits_per_byte.
  rewrite land_ones32. rewrite murmur_model_eq_ref by (apply Z.mod_pos_bound; lia). cbn [bind].
  destruct (Z.eqb_spec (lenZ (vData f) * 8) 0); [lia|].
  unfold bip37_index, bip37_seed. now rewrite (Z.mul_comm 8).
Qed.
Lemma bip37_index_range nbytes tweak i e : 0 < nbytes -> 0 <= bip37_index nbytes tweak i e < 8 * nbytes.
Proof. intros H. unfold bip37_index. apply Z.mod_pos_bound. lia. Qed.
Lemma schedule_range nbytes nh tweak e n : 0 < nbytes -> In n (schedule nbytes nh tweak e) -> 0 <= n < 8 * nbytes.
Proof.
  intros H I. unfold schedule in I. apply in_map_iff in I as (k & <- & _). now apply bip37_index_range.
Qed.

(* the schedule starting at hash function number i *)
Definition sched_from (nbytes tweak i : Z) (e : bytes) (n : nat) : list Z :=
  map (fun k => bip37_index nbytes tweak (i + Z.of_nat k) e) (seq 0 n).
Lemma sched_from_S nbytes tweak i e n :
  sched_from nbytes tweak i e (S n) = bip37_index nbytes tweak i e :: sched_from nbytes tweak (i + 1) e n.
Proof.
  unfold sched_from. cbn [seq map]. f_equal; [f_equal; lia|].
  rewrite <- seq_shift, map_map. apply map_ext. intros k. f_equal. lia.
Qed.
Lemma sched_from_0 nbytes nh tweak e : sched_from nbytes tweak 0 e (Z.to_nat nh) = schedule nbytes nh tweak e.
Proof. unfold sched_from, schedule. apply map_ext. intros k. reflexivity. Qed.

(* ====================================================================================
   insert / contains = reference semantics, for every filter and element
   ==================================================================================== *)
Lemma insert_loop_ok n : forall i f e, lenZ (vData f) <> 0 ->
  insert_loop n i f e =
  Ok (with_data f (set_bits (vData f) (sched_from (lenZ (vData f)) (nTweak f) i e n))).
Proof.
  induction n as [|n IH]; intros i f e Hn.
  - cbn [insert_loop]. unfold sched_from, set_bits, with_data. cbn [seq map fold_left]. now destruct f.
  - cbn [insert_loop]. rewrite bloom_hash_ok by exact Hn. cbn [bind].
    pose proof (lenZ_nonneg (vData f)) as L0.
    pose proof (bip37_index_range (lenZ (vData f)) (nTweak f) i e ltac:(lia)) as R.
    set (x := bip37_index (lenZ (vData f)) (nTweak f) i e) in *.
    unfold insert_index_shift, insert_bit_and. rewrite shiftr3, land7.
    rewrite ba_get_idx by lia. cbn [bind]. rewrite tbl_get_mask by lia. cbn [bind].
    rewrite ba_set_idx by (try apply lor_pow2_byte; try apply b2z_range; lia). cbn [bind].
    rewrite <- set_bit_upd by lia.
    rewrite IH by (cbn [with_data vData]; rewrite lenZ_set_bit; exact Hn).
    cbn [with_data vData nHashFuncs nTweak nFlags]. rewrite lenZ_set_bit.
    rewrite sched_from_S. fold x. reflexivity.
Qed.

Lemma is_full_spec f : lenZ (vData f) <> 0 -> is_full f = Ok (bytes_eqb (vData f) [xff]).
Proof.
  intros Hn. unfold is_full. destruct (vData f) as [|b [|c t]] eqn:E.
  - now change (lenZ (@nil byte)) with 0 in Hn.
  - change (lenZ [b] =? 1) with true. change (ba_get [b] 0) with (Ok (b2z b)). cbn [bind bytes_eqb].
    f_equal. rewrite andb_true_r. destruct (Z.eqb_spec (b2z b) 255) as [H|H].
    + change 255 with (b2z xff) in H. apply b2z_inj in H. subst b. reflexivity.
    + symmetry. apply not_true_is_false. intros T. apply Byte.byte_dec_bl in T. subst b. now apply H.
  - assert (F : (lenZ (b :: c :: t) =? 1) = false).
    { apply Z.eqb_neq. rewrite !lenZ_cons. pose proof (lenZ_nonneg t). lia. }
    rewrite F. cbn [bytes_eqb]. now rewrite andb_false_r.
Qed.

Theorem insert_spec f e :
  insert f e = Ok (with_data f (spec_insert (vData f) (nHashFuncs f) (nTweak f) e)).
Proof.
  unfold insert. destruct (Z.eqb_spec (lenZ (vData f)) 0) as [Z0|NZ].
  - apply lenZ_zero_nil in Z0. rewrite Z0. destruct f; cbn in *. now subst.
  - rewrite is_full_spec by exact NZ. cbn [bind].
    pose proof (lenZ_nonneg (vData f)) as L0.
    destruct (bytes_eqb (vData f) [xff]) eqn:Full.
    + apply bytes_eqb_eq in Full. rewrite Full. unfold spec_insert.
      rewrite set_bits_full.
      * destruct f; cbn in *. now subst.
      * intros n Hn. apply schedule_range in Hn; [|change (lenZ [xff]) with 1; lia].
        change (lenZ [xff]) with 1 in Hn. lia.
    + rewrite insert_loop_ok by exact NZ. rewrite sched_from_0. unfold spec_insert.
      destruct (vData f) eqn:E; [now change (lenZ (@nil byte)) with 0 in NZ|]. reflexivity.
Qed.

Lemma contains_loop_ok n : forall i f e, lenZ (vData f) <> 0 ->
  contains_loop n i f e =
  Ok (forallb (bit_at (vData f)) (sched_from (lenZ (vData f)) (nTweak f) i e n)).
Proof.
  induction n as [|n IH]; intros i f e Hn.
  - reflexivity.
  - cbn [contains_loop]. rewrite bloom_hash_ok by exact Hn. cbn [bind].
    pose proof (lenZ_nonneg (vData f)) as L0.
    pose proof (bip37_index_range (lenZ (vData f)) (nTweak f) i e ltac:(lia)) as R.
    rewrite sched_from_S. cbn [forallb].
    set (x := bip37_index (lenZ (vData f)) (nTweak f) i e) in *.
    unfold contains_index_shift, contains_bit_and. rewrite shiftr3, land7.
    rewrite ba_get_idx by lia. cbn [bind]. rewrite tbl_get_mask by lia. cbn [bind].
    rewrite land_pow2_testbit by lia.
    change (Z.testbit (b2z (nth (Z.to_nat (x / 8)) (vData f) x00)) (x mod 8)) with (bit_at (vData f) x).
    destruct (bit_at (vData f) x); cbn [negb andb]; [apply IH; exact Hn | reflexivity].
Qed.

Theorem contains_spec f e :
  contains f e = Ok (spec_contains (vData f) (nHashFuncs f) (nTweak f) e).
Proof.
  unfold contains. destruct (Z.eqb_spec (lenZ (vData f)) 0) as [Z0|NZ].
  - apply lenZ_zero_nil in Z0. now rewrite Z0.
  - rewrite is_full_spec by exact NZ. cbn [bind].
    pose proof (lenZ_nonneg (vData f)) as L0.
    destruct (bytes_eqb (vData f) [xff]) eqn:Full.
    + apply bytes_eqb_eq in Full. rewrite Full. unfold spec_contains. f_equal. symmetry.
      apply forallb_forall. intros n Hn. apply schedule_range in Hn; [|change (lenZ [xff]) with 1; lia].
      change (lenZ [xff]) with 1 in Hn. apply bit_at_full. lia.
    + rewrite contains_loop_ok by exact NZ. rewrite sched_from_0. unfold spec_contains.
      destruct (vData f) eqn:E; [now change (lenZ (@nil byte)) with 0 in NZ|]. reflexivity.
Qed.

(* insert never raises, keeps the length and the three parameters *)
Corollary insert_total f e : exists f', insert f e = Ok f' /\ length (vData f') = length (vData f) /\
  nHashFuncs f' = nHashFuncs f /\ nTweak f' = nTweak f /\ nFlags f' = nFlags f.
Proof.
  eexists. split; [apply insert_spec|]. cbn [with_data vData nHashFuncs nTweak nFlags].
  repeat split. unfold spec_insert. destruct (vData f); [reflexivity|]. apply set_bits_length.
Qed.

(* (5) empty data: matches everything, insert is a no-op (F17) *)
Theorem empty_filter f e : vData f = [] -> contains f e = Ok true /\ insert f e = Ok f.
Proof. intros H. unfold contains, insert. rewrite H. split; reflexivity. Qed.
