(* Proofs/HeapThms.v – the C09 theorems about arbitrary operation lists on the heap model. *)
From stdpp Require Import gmap.
From BV Require Import Common.Base Common.Tx Model.Heap Proofs.Heap Proofs.HeapCopy Proofs.HeapStep.

Section Thms.
Variable ser : aval -> res bytes.
Variable H : bytes -> bytes.
Variable pyh : bytes -> Z.
Variable txid : tx -> res bytes.
Variable fad : bytes -> bytes.
Variable is_wspk : bytes -> bool.
Notation wf := (wf ser H pyh).
Notation step := (step ser H pyh txid fad is_wspk).
Notation run := (run ser H pyh txid fad is_wspk).
Notation good := (good ser H pyh).

Lemma step_good' h o : wf h -> good h o (fst (step h o)).
Proof. intros W. destruct (step h o) as [h' ob] eqn:E. eapply step_good; eauto. Qed.

(* ---------- the invariant along arbitrary histories ---------- *)
Theorem run_wf ops : forall h, wf h ->
  wf (fst (run h ops)) /\ imm_kept h (fst (run h ops)) /\ (h_next h <= h_next (fst (run h ops)))%nat /\
  (forall l, (l < h_next h)%nat -> mut_at (fst (run h ops)) l = mut_at h l).
Proof.
  induction ops as [|o r IH]; intros h W; cbn [run fst].
  - split; [exact W|]. split; [apply imm_kept_refl|]. split; auto.
  - destruct (step_good' h o W) as (W1 & (N1 & _ & M1) & K1 & _).
    destruct (IH _ W1) as (W2 & K2 & N2 & M2).
    split; [exact W2|]. split; [eapply imm_kept_trans; eauto|]. split; [lia|].
    intros l L. rewrite M2 by lia. now apply M1.
Qed.

(* IMMUTABLE_FROZEN (1): the value of an object of an immutable class never changes *)
Theorem immutable_frozen h l ops : wf h -> mut_at h l = Some false -> abs (fst (run h ops)) l = abs h l.
Proof. intros W M. destruct (run_wf ops h W) as (_ & K & _). now apply (frozen_abs ser H pyh). Qed.

(* IMMUTABLE_FROZEN (2): assignment and deletion of any attribute raise AttributeError and change nothing *)
Theorem immutable_rejects h l o : wf h -> get h l = Some o -> o_mut o = false ->
  (forall f v, step h (OSetAttr l f v) = (h, ObsExn AttributeError)) /\
  (forall f, step h (ODelAttr l f) = (h, ObsExn AttributeError)).
Proof.
  intros W E M. split; intros; cbn [step]; unfold set_attr, del_attr; rewrite E;
    destruct (o_body o) eqn:B; rewrite ?M; try reflexivity;
    pose proof (wf_list ser H pyh h W l o items E B); congruence.
Qed.
(* ... and the vin / vout of an immutable transaction cannot be edited *)
Theorem immutable_list_ops h t o out x i : wf h -> get h t = Some o -> o_mut o = false ->
  (exists e, step h (OAppend t out x) = (h, ObsExn e)) /\
  (exists e, step h (OSetItem t out i x) = (h, ObsExn e)) /\
  (exists e, step h (ODelItem t out i) = (h, ObsExn e)).
Proof.
  intros W E M.
  assert (L : forall exn k, exists e, list_op h t out exn k = (h, ObsExn e)).
  { intros exn k. unfold list_op, body_at at 1. rewrite E. simpl.
    destruct (tx_seq (o_body o) out) as [[ls|ll]|] eqn:S; [eauto|idtac|unfold outside; eauto].
    assert (Ml : mut_at h ll = Some false).
    { apply (wf_imm ser H pyh h W t o ll E M). destruct (o_body o); try discriminate. simpl in *.
      injection S as S. apply in_or_app. destruct out; [right|left]; rewrite S; simpl; auto. }
    unfold body_at. apply mut_at_get in Ml as (lo & El & Ml). rewrite El. simpl.
    destruct (o_body lo) eqn:Bl; try (unfold outside; eauto).
    pose proof (wf_list ser H pyh h W ll lo items El Bl). congruence. }
  cbn [step]. destruct (item_ok h out x); repeat split; try apply L; unfold outside; eauto.
Qed.

(* IMMUTABLE_FROZEN (3): after any history a filled cache slot of an immutable object equals
   the value recomputed from the object now *)
Theorem caches_valid h ops l o : wf h -> get (fst (run h ops)) l = Some o -> o_mut o = false ->
  (forall g, o_ghash o = Some g -> on_abs (fst (run h ops)) l (v_hash ser H) = Ok g) /\
  (forall z, o_phash o = Some z -> on_abs (fst (run h ops)) l (v_pyhash ser pyh) = Ok z).
Proof.
  intros W E M. destruct (run_wf ops h W) as (W' & _). split; intros.
  - eapply wf_ghash; eauto.
  - eapply wf_phash; eauto.
Qed.

(* MUTABLE_FRESH: in every reachable heap, every observation on every object (of a mutable
   or an immutable class) is the value-level function of what the object denotes NOW *)
Theorem observations_fresh h l : wf h ->
  snd (step h (OSerialize l)) = obs_res ObsBytes (on_abs h l ser) /\
  snd (step h (OGetHash l)) = obs_res ObsBytes (on_abs h l (v_hash ser H)) /\
  snd (step h (OPyHash l)) = obs_res ObsInt (on_abs h l (v_pyhash ser pyh)) /\
  snd (step h (OGetTxid l)) = obs_res ObsBytes (on_abs h l (v_txid txid)) /\
  forall l2 va vb, abs h l = Some va -> abs h l2 = Some vb ->
    snd (step h (OEq l l2)) = obs_res ObsBool (v_eq ser va vb).
Proof.
  intros W. split; [reflexivity|]. split; [|split; [|split; [reflexivity|]]].
  - cbn [step]. unfold get_hash_step. destruct (get h l) as [o|] eqn:E.
    + destruct (o_mut o) eqn:M; [reflexivity|]. destruct (o_ghash o) as [g|] eqn:G.
      * rewrite (wf_ghash ser H pyh h W l o g E M G). reflexivity.
      * destruct (on_abs h l (v_hash ser H)); reflexivity.
    + unfold on_abs, abs, body_at. rewrite E. reflexivity.
  - cbn [step]. unfold py_hash_step. destruct (get h l) as [o|] eqn:E.
    + destruct (o_mut o) eqn:M; [reflexivity|]. destruct (o_phash o) as [g|] eqn:G.
      * rewrite (wf_phash ser H pyh h W l o g E M G). reflexivity.
      * destruct (on_abs h l (v_pyhash ser pyh)); reflexivity.
    + unfold on_abs, abs, body_at. rewrite E. reflexivity.
  - intros l2 va vb A B. cbn [step snd]. unfold eq_step. now rewrite A, B.
Qed.
Corollary observations_fresh_run h ops l : wf h ->
  let h' := fst (run h ops) in
  snd (step h' (OSerialize l)) = obs_res ObsBytes (on_abs h' l ser) /\
  snd (step h' (OGetHash l)) = obs_res ObsBytes (on_abs h' l (v_hash ser H)) /\
  snd (step h' (OPyHash l)) = obs_res ObsInt (on_abs h' l (v_pyhash ser pyh)) /\
  snd (step h' (OGetTxid l)) = obs_res ObsBytes (on_abs h' l (v_txid txid)) /\
  forall l2 va vb, abs h' l = Some va -> abs h' l2 = Some vb ->
    snd (step h' (OEq l l2)) = obs_res ObsBool (v_eq ser va vb).
Proof. intros W. apply observations_fresh. now apply run_wf. Qed.

(* ---------- frame ---------- *)
Lemma old_abs h h' x : wf h -> (forall y, (y < h_next h)%nat -> core_at h' y = core_at h y) ->
  (x < h_next h)%nat -> abs h' x = abs h x /\ fp h' x = fp h x.
Proof.
  intros W C L.
  assert (A : agree_on (fp h x) h h') by (intros y Hy; apply C; eapply (fpn_lt ser H pyh); eauto).
  split; [now apply abs_frame|now apply fp_frame].
Qed.
(* FRAME: an operation changes [abs x] only if it writes an object in the footprint of x *)
Theorem frame_step h o x : wf h -> (x < h_next h)%nat -> (forall w, wt h o w -> ~ In w (fp h x)) ->
  abs (fst (step h o)) x = abs h x /\ fp (fst (step h o)) x = fp h x.
Proof.
  intros W L NW. destruct (step_good' h o W) as (_ & (_ & C & _) & _).
  assert (A : agree_on (fp h x) h (fst (step h o))).
  { intros y Hy. apply C; [eapply (fpn_lt ser H pyh); eauto|]. intros X. now apply NW in X. }
  split; [now apply abs_frame|now apply fp_frame].
Qed.
Fixpoint safe_for (x : loc) (h : heap) (ops : list op) : Prop :=
  match ops with
  | [] => True
  | o :: r => (forall w, wt h o w -> ~ In w (fp h x)) /\ safe_for x (fst (step h o)) r
  end.
Theorem frame_run ops : forall h x, wf h -> (x < h_next h)%nat -> safe_for x h ops -> abs (fst (run h ops)) x = abs h x.
Proof.
  induction ops as [|o r IH]; intros h x W L S; cbn [run fst]; [reflexivity|].
  destruct S as (S1 & S2). destruct (frame_step h o x W L S1) as (A & _).
  destruct (step_good' h o W) as (W1 & (N1 & _) & _).
  rewrite IH; [exact A|exact W1|lia|exact S2].
Qed.

(* ---------- isolation of a set R of mutable objects nobody outside R points to ---------- *)
Definition sealed (R : loc -> Prop) (h : heap) : Prop := forall l r, ~ R l -> In r (refs_at h l) -> ~ R r.
Definition avoids (R : loc -> Prop) (o : op) : Prop := forall m, In m (mentions o) -> ~ R m.

Lemma wt_dec h o l : wt h o l \/ ~ wt h o l.
Proof.
  assert (L : forall t out, (exists b, body_at h t = Some b /\ tx_seq b out = Some (SList l)) \/
                           ~ (exists b, body_at h t = Some b /\ tx_seq b out = Some (SList l))).
  { intros t out. destruct (body_at h t) as [b|]; [|right; intros (? & ? & _); discriminate].
    destruct (tx_seq b out) as [[ls|w]|] eqn:S.
    - right. intros (b' & [= <-] & S'). congruence.
    - destruct (decide (w = l)) as [->|N]; [left; eauto|right]. intros (b' & [= <-] & S'). congruence.
    - right. intros (b' & [= <-] & S'). congruence. }
  destruct o; simpl; try apply L; try (right; intros []; fail).
  destruct (decide (l = l0)); auto.
Qed.

Lemma isolation_step (R : loc -> Prop) h o : wf h -> (forall l, R l -> mut_at h l = Some true) -> sealed R h -> avoids R o ->
  let h' := fst (step h o) in
  (forall l, R l -> core_at h' l = core_at h l) /\ (forall l, R l -> mut_at h' l = Some true) /\ sealed R h'.
Proof.
  intros W RM SE AV h'. destruct (step_good' h o W) as (W1 & (N1 & C1 & M1) & K1 & NR). fold h' in W1, N1, C1, M1, K1, NR.
  assert (RL : forall l, R l -> (l < h_next h)%nat) by (intros l Rl; eapply (mut_at_lt ser H pyh); eauto).
  assert (NWT : forall l, R l -> ~ wt h o l).
  { intros l Rl X. apply wt_mentions in X as (m & Hm & [->|Hr]); [now apply (AV m)|].
    apply (SE m l); auto. }
  split; [|split].
  - intros l Rl. apply C1; auto.
  - intros l Rl. rewrite M1; auto.
  - intros l r NRl Hr Rr. unfold refs_at, body_at in Hr. destruct (get h' l) as [o'|] eqn:E'; [|destruct Hr]. simpl in Hr.
    assert (Old : (l < h_next h)%nat -> ~ wt h o l -> False).
    { intros L NWl. specialize (C1 l L NWl). unfold core_at in C1. rewrite E' in C1.
      destruct (get h l) as [o0|] eqn:E0; [|discriminate]. simpl in C1. injection C1 as _ Cb.
      apply (SE l r NRl); [|exact Rr]. rewrite (refs_at_get h l o0 E0). now rewrite <- Cb. }
    destruct (le_lt_dec (h_next h) l) as [L|L]; [|destruct (wt_dec h o l) as [X|X]; [|now apply Old]].
    + destruct (NR l o' r E' (or_introl L) Hr) as [F|[Im|[Me|Ol]]].
      * apply RL in Rr. lia.
      * rewrite M1 in Im by (now apply RL). rewrite (RM r Rr) in Im. discriminate.
      * now apply (AV r).
      * unfold refs_at, body_at in Ol. rewrite (wf_ge_none ser H pyh h l W L) in Ol. destruct Ol.
    + destruct (NR l o' r E' (or_intror X) Hr) as [F|[Im|[Me|Ol]]].
      * apply RL in Rr. lia.
      * rewrite M1 in Im by (now apply RL). rewrite (RM r Rr) in Im. discriminate.
      * now apply (AV r).
      * now apply (SE l r).
Qed.

Theorem isolation (R : loc -> Prop) ops : forall h, wf h -> (forall l, R l -> mut_at h l = Some true) -> sealed R h ->
  Forall (avoids R) ops ->
  (forall l, R l -> core_at (fst (run h ops)) l = core_at h l) /\ sealed R (fst (run h ops)).
Proof.
  induction ops as [|o r IH]; intros h W RM SE AV; cbn [run fst]; [auto|].
  inversion AV as [|? ? A1 A2]; subst.
  destruct (isolation_step R h o W RM SE A1) as (C1 & M1 & S1).
  destruct (step_good' h o W) as (W1 & _).
  destruct (IH _ W1 M1 S1 A2) as (C2 & S2). split; [|exact S2].
  intros l Rl. rewrite C2 by exact Rl. now apply C1.
Qed.

(* objects existing in h whose mutable part is in R and is isolated keep their value *)
Lemma isolated_abs (R : loc -> Prop) h ops x : wf h -> (forall l, R l -> mut_at h l = Some true) -> sealed R h -> Forall (avoids R) ops ->
  (x < h_next h)%nat -> (forall y, In y (fp h x) -> mut_at h y = Some true -> R y) ->
  abs (fst (run h ops)) x = abs h x.
Proof.
  intros W RM SE AV L FR. destruct (isolation R ops h W RM SE AV) as (C & _).
  destruct (run_wf ops h W) as (_ & K & _).
  apply abs_frame. intros y Hy.
  assert (Ly : (y < h_next h)%nat) by (eapply (fpn_lt ser H pyh); eauto).
  apply (wf_dom ser H pyh h W) in Ly as (oy & Ey). destruct (o_mut oy) eqn:My.
  - apply C, FR; [exact Hy|]. apply mut_at_get. eauto.
  - apply K. apply mut_at_get. eauto.
Qed.

(* ---------- COPY_ISOLATION ---------- *)
Lemma ret_loc_inv h r h1 y : ret_loc h r = (h1, ObsLoc y) -> r = Ok (h1, y).
Proof. unfold ret_loc. destruct r as [[h2 z]|]; simpl; [intros [= <- <-]; reflexivity|discriminate]. Qed.

(* everything a fresh mutable copy reaches is fresh and mutable *)
Lemma fresh_fp k n h : wf h -> fresh_refs n h -> fresh_class true n h -> forall c y, (n <= c)%nat -> (c < h_next h)%nat ->
  In y (fpn k h c) -> (n <= y)%nat /\ mut_at h y = Some true.
Proof.
  intros W FR FC. induction k as [|k IH]; intros c y Nc Lc Hy; cbn [fpn] in Hy.
  - destruct Hy as [<-|[]]. split; [exact Nc|]. apply (wf_dom ser H pyh h W) in Lc as (o & E). apply mut_at_get. eauto.
  - destruct Hy as [<-|Hy].
    + split; [exact Nc|]. apply (wf_dom ser H pyh h W) in Lc as (o & E). apply mut_at_get. eauto.
    + apply in_flat_map in Hy as (r & Hr & Hy). apply (IH r y); auto.
      * unfold refs_at, body_at in Hr. destruct (get h c) as [o|] eqn:E; [|destruct Hr]. eapply FR; eauto.
      * eapply (refs_at_lt ser H pyh); eauto.
Qed.

Theorem mutable_copy_isolated h l h1 c : wf h -> step h (OFromTx true l) = (h1, ObsLoc c) ->
  abs h1 c = abs h l /\ mut_at h1 c = Some true /\
  (forall y, In y (fp h1 c) -> (h_next h <= y)%nat /\ mut_at h1 y = Some true) /\
  (* later operations that do not name an object of the copy never change the copy *)
  (forall ops, Forall (avoids (fun m => (h_next h <= m)%nat /\ (m < h_next h1)%nat)) ops ->
     abs (fst (run h1 ops)) c = abs h1 c) /\
  (* later operations that name no older mutable object never change anything older *)
  (forall ops, Forall (avoids (fun m => (m < h_next h)%nat /\ mut_at h m = Some true)) ops ->
     forall x, (x < h_next h)%nat -> abs (fst (run h1 ops)) x = abs h x).
Proof.
  intros W St. cbn [step] in St. apply ret_loc_inv in St.
  apply (from_tx_ok ser H pyh true (h_next h)) in St as (((W1 & N1 & FC & FR) & X1 & Mc & Fc) & V & Ll); [|now apply inv_start].
  specialize (FR eq_refl). specialize (Fc eq_refl).
  assert (Lc : (c < h_next h1)%nat) by (eapply (mut_at_lt ser H pyh); eauto).
  assert (FP : forall y, In y (fp h1 c) -> (h_next h <= y)%nat /\ mut_at h1 y = Some true).
  { intros y Hy. eapply (fresh_fp 3 (h_next h) h1); eauto. }
  split; [exact V|]. split; [exact Mc|]. split; [exact FP|]. split.
  - intros ops AV.
    apply (isolated_abs (fun m => (h_next h <= m)%nat /\ (m < h_next h1)%nat)); auto.
    + intros y (L1 & L2). apply (wf_dom ser H pyh h1 W1) in L2 as (o & E). apply mut_at_get. exists o. split; [exact E|]. eapply FC; eauto.
    + intros y r NR Hr (R1 & R2). apply NR. split.
      * destruct (le_lt_dec (h_next h) y) as [L|L]; [exact L|exfalso].
        assert (Hr' : In r (refs_at h y)).
        { unfold refs_at in *. now rewrite <- (ext_body_at h h1 y X1 L). }
        apply (refs_at_lt ser H pyh h y r W) in Hr'. lia.
      * unfold refs_at, body_at in Hr. destruct (get h1 y) as [o|] eqn:E; [|destruct Hr]. eapply (wf_lt ser H pyh); eauto.
    + intros y Hy _. split; [now apply FP|]. eapply (fpn_lt ser H pyh); eauto.
  - intros ops AV x Lx.
    assert (Lx1 : (x < h_next h1)%nat) by (destruct X1; lia).
    rewrite <- (ext_abs ser H pyh h h1 x W X1 Lx).
    assert (OM : forall y, (y < h_next h)%nat -> mut_at h1 y = mut_at h y).
    { intros y Ly. unfold mut_at. destruct X1 as (_ & G). now rewrite G. }
    apply (isolated_abs (fun m => (m < h_next h)%nat /\ mut_at h m = Some true)); auto.
    + intros y (L1 & M1). now rewrite OM.
    + intros y r NR Hr (R1 & R2). unfold refs_at, body_at in Hr. destruct (get h1 y) as [o|] eqn:E; [|destruct Hr]. simpl in Hr.
      destruct (le_lt_dec (h_next h) y) as [L|L].
      * pose proof (FR y o r L E Hr). lia.
      * destruct (o_mut o) eqn:Mo.
        -- apply NR. split; [exact L|]. rewrite <- OM by exact L. apply mut_at_get. eauto.
        -- pose proof (wf_imm ser H pyh h1 W1 y o r E Mo Hr) as Im. rewrite OM in Im by exact R1. congruence.
    + intros y Hy My. assert (Ly : (y < h_next h)%nat).
      { rewrite (proj2 (old_abs h h1 x W (fun z Lz => get_core h h1 z (proj2 X1 z Lz)) Lx)) in Hy. eapply (fpn_lt ser H pyh); eauto. }
      split; [exact Ly|]. now rewrite <- OM.
Qed.

Theorem snapshot_isolated h l h1 s : wf h -> step h (OFromTx false l) = (h1, ObsLoc s) ->
  abs h1 s = abs h l /\ mut_at h1 s = Some false /\
  (mut_at h l = Some false -> s = l /\ h1 = h) /\
  (* no later operation whatsoever changes the snapshot *)
  (forall ops, abs (fst (run h1 ops)) s = abs h1 s) /\
  (* later operations that name no older mutable object (e.g. only the snapshot and what is
     derived from it) never change anything older *)
  (forall ops, Forall (avoids (fun m => (m < h_next h)%nat /\ mut_at h m = Some true)) ops ->
     forall x, (x < h_next h)%nat -> abs (fst (run h1 ops)) x = abs h x).
Proof.
  intros W St. cbn [step] in St. apply ret_loc_inv in St. pose proof St as St0.
  apply (from_tx_ok ser H pyh false (h_next h)) in St as (((W1 & N1 & FC & _) & X1 & Ms & _) & V & Ll); [|now apply inv_start].
  split; [exact V|]. split; [exact Ms|]. split; [|split].
  - intros Ml. unfold from_tx in St0. apply mut_at_get in Ml as (o & E & Mo). rewrite E in St0.
    destruct (o_body o); try discriminate. rewrite Mo in St0. simpl in St0. now injection St0 as <- <-.
  - intros ops. now apply immutable_frozen.
  - intros ops AV x Lx.
    rewrite <- (ext_abs ser H pyh h h1 x W X1 Lx).
    assert (OM : forall y, (y < h_next h)%nat -> mut_at h1 y = mut_at h y).
    { intros y Ly. unfold mut_at. destruct X1 as (_ & G). now rewrite G. }
    apply (isolated_abs (fun m => (m < h_next h)%nat /\ mut_at h m = Some true)); auto.
    + intros y (L1 & M1). now rewrite OM.
    + intros y r NR Hr (R1 & R2). unfold refs_at, body_at in Hr. destruct (get h1 y) as [o|] eqn:E; [|destruct Hr]. simpl in Hr.
      destruct (o_mut o) eqn:Mo.
      * destruct (le_lt_dec (h_next h) y) as [L|L]; [pose proof (FC y o L E); congruence|].
        apply NR. split; [exact L|]. rewrite <- OM by exact L. apply mut_at_get. eauto.
      * pose proof (wf_imm ser H pyh h1 W1 y o r E Mo Hr) as Im. rewrite OM in Im by exact R1. congruence.
    + destruct X1; lia.
    + intros y Hy My. assert (Ly : (y < h_next h)%nat).
      { rewrite (proj2 (old_abs h h1 x W (fun z Lz => get_core h h1 z (proj2 X1 z Lz)) Lx)) in Hy. eapply (fpn_lt ser H pyh); eauto. }
      split; [exact Ly|]. now rewrite <- OM.
Qed.

(* ---------- SIGHASH_FRAME ---------- *)
Theorem sighash_frame h l script idx ht : wf h ->
  let h1 := fst (step h (OSigHash l script idx ht)) in
  let h2 := fst (step h (OVerify l script idx ht)) in
  (forall x, (x < h_next h)%nat -> get h1 x = get h x /\ abs h1 x = abs h x) /\
  (forall x, (x < h_next h)%nat -> get h2 x = get h x /\ abs h2 x = abs h x).
Proof.
  intros W. cbn [step]. unfold sighash_step, verify_step.
  destruct (raw_sighash ser H fad h l script idx ht) as [hr r] eqn:E.
  apply (raw_sighash_ok ser H pyh fad is_wspk) in E as (Wr & Xr & _); [|exact W]. cbn [fst].
  assert (G : forall x, (x < h_next h)%nat -> get hr x = get h x /\ abs hr x = abs h x).
  { intros x L. split; [now apply Xr|now apply (ext_abs ser H pyh)]. }
  split; [|exact G]. destruct (is_wspk script); cbn [fst]; [|exact G]. intros x L. auto.
Qed.
End Thms.
