(* Proofs/Bech32Radix.v – C11, distance part, everything except the big computation:
   * the radix-partition duplicate checker on primitive 63-bit integers and its soundness
     ([nodup_radix_sound]);
   * a Uint63 twin of one bech32_polymod iteration with its to_Z commutation with the Z
     MODEL ([step63_spec], values below 2^30);
   * the tail-recursive generator of the syndromes of all error words of weight <= 2 on
     n positions, shown to be a permutation of [map syn63 (words2 n)];
   * the reduction: if the checker accepts that list then no error word of weight 1..4 and
     length <= n over 5-bit symbols has polymod_from 0 e = 0  ([distance_from_check]).
   The only axioms used are the standard library's Uint63 primitives. *)
From Coq Require Import Uint63 Permutation.
From BV Require Import Common.Base Gen.Bech32 Model.Bech32 Spec.Bech32 Proofs.Bech32Poly.

(* ================= radix-partition NoDup checker ================= *)
Fixpoint part (b : int) (l l0 l1 : list int) : list int * list int :=
  match l with
  | [] => (l0, l1)
  | x :: t => if bit x b then part b t l0 (x :: l1) else part b t (x :: l0) l1
  end.

Fixpoint nodup_radix (n : nat) (l : list int) : bool :=
  match l with
  | [] | [_] => true
  | _ => match n with
         | O => false
         | S k => let '(l0, l1) := part (of_Z (Z.of_nat k)) l [] [] in
                  nodup_radix k l0 && nodup_radix k l1
         end
  end.

Lemma part_spec b l : forall l0 l1 r0 r1, part b l l0 l1 = (r0, r1) ->
  Permutation (l ++ l0 ++ l1) (r0 ++ r1) /\
  (forall x, In x r0 -> In x l0 \/ (In x l /\ bit x b = false)) /\
  (forall x, In x r1 -> In x l1 \/ (In x l /\ bit x b = true)).
Proof.
  induction l as [|x t IH]; intros l0 l1 r0 r1 H; simpl in H.
  - inversion H; subst. simpl. repeat split; auto.
  - destruct (bit x b) eqn:E.
    + apply IH in H as (P & A & B). repeat split.
      * simpl. etransitivity; [|exact P]. rewrite !app_assoc. apply Permutation_middle.
      * intros y Hy. destruct (A y Hy) as [|[? ?]]; [left|right]; simpl; auto.
      * intros y Hy. destruct (B y Hy) as [[->|]|[? ?]]; simpl; auto.
    + apply IH in H as (P & A & B). repeat split.
      * simpl. etransitivity; [|exact P]. simpl. apply Permutation_middle.
      * intros y Hy. destruct (A y Hy) as [[->|]|[? ?]]; simpl; auto.
      * intros y Hy. destruct (B y Hy) as [|[? ?]]; [left|right]; simpl; auto.
Qed.

Lemma NoDup_app' {A} (l0 l1 : list A) :
  NoDup l0 -> NoDup l1 -> (forall x, In x l0 -> In x l1 -> False) -> NoDup (l0 ++ l1).
Proof.
  induction l0 as [|a l0 IH]; intros N0 N1 D; simpl; [assumption|].
  inversion N0; subst. constructor.
  - intro H. apply in_app_or in H as [H|H]; [contradiction|]. apply (D a); simpl; auto.
  - apply IH; auto. intros x Hx. apply D. simpl; auto.
Qed.

Definition agree_above (n : nat) (l : list int) :=
  forall x y, In x l -> In y l -> forall i, (Z.of_nat n <= to_Z i)%Z -> bit x i = bit y i.

Lemma nodup_radix_sound n : (n <= 62)%nat -> forall l, agree_above n l -> nodup_radix n l = true -> NoDup l.
Proof.
  induction n as [|k IH]; intros Hn l Ag H.
  - destruct l as [|a [|b t]]; simpl in H; try discriminate; repeat constructor; auto.
  - destruct l as [|a [|b t]]; try (repeat constructor; auto; fail).
    cbn [nodup_radix] in H. set (L := a :: b :: t) in *.
    destruct (part (of_Z (Z.of_nat k)) L [] []) as [l0 l1] eqn:E.
    apply andb_true_iff in H as [H0 H1].
    apply part_spec in E as (P & A & B). simpl in P. rewrite !app_nil_r in P.
    assert (A' : forall x, In x l0 -> In x L /\ bit x (of_Z (Z.of_nat k)) = false)
      by (intros x Hx; destruct (A x Hx) as [[]|]; auto).
    assert (B' : forall x, In x l1 -> In x L /\ bit x (of_Z (Z.of_nat k)) = true)
      by (intros x Hx; destruct (B x Hx) as [[]|]; auto).
    apply (Permutation_NoDup (l := l0 ++ l1)); [now symmetry|].
    assert (Hk : to_Z (of_Z (Z.of_nat k)) = Z.of_nat k).
    { rewrite of_Z_spec. apply Z.mod_small. unfold wB.
      assert (Z.of_nat k < 62)%Z by lia. change (2 ^ Z.of_nat size)%Z with 9223372036854775808%Z. lia. }
    assert (Ag0 : agree_above k l0).
    { intros x y Hx Hy i Hi. destruct (A' x Hx) as [Lx Bx], (A' y Hy) as [Ly By].
      destruct (Z.eq_dec (to_Z i) (Z.of_nat k)) as [Heq|Hne].
      - assert (i = of_Z (Z.of_nat k)) by (apply to_Z_inj; now rewrite Hk). subst i. now rewrite Bx, By.
      - apply (Ag x y Lx Ly). lia. }
    assert (Ag1 : agree_above k l1).
    { intros x y Hx Hy i Hi. destruct (B' x Hx) as [Lx Bx], (B' y Hy) as [Ly By].
      destruct (Z.eq_dec (to_Z i) (Z.of_nat k)) as [Heq|Hne].
      - assert (i = of_Z (Z.of_nat k)) by (apply to_Z_inj; now rewrite Hk). subst i. now rewrite Bx, By.
      - apply (Ag x y Lx Ly). lia. }
    apply NoDup_app'; [apply IH; [lia|assumption..] | apply IH; [lia|assumption..] |].
    intros x Hx0 Hx1. destruct (A' x Hx0) as [_ E0], (B' x Hx1) as [_ E1]. congruence.
Qed.

(* every element below 2^30: tail-recursive *)
Definition lim30 : int := Eval vm_compute in of_Z (2^30).
Fixpoint all_below (l : list int) : bool :=
  match l with [] => true | x :: t => if Uint63.ltb x lim30 then all_below t else false end.
Lemma all_below_spec l : all_below l = true -> forall x, In x l -> (to_Z x < 2^30)%Z.
Proof.
  induction l as [|a l IH]; intros H x Hx; [destruct Hx|]. destruct Hx as [->|Hx].
  - cbn [all_below] in H. destruct (Uint63.ltb x lim30) eqn:E; [|discriminate].
    apply ltb_spec in E. exact E.
  - cbn [all_below] in H. destruct (Uint63.ltb a lim30); [auto|discriminate].
Qed.
Lemma below_agree l : (forall x, In x l -> (to_Z x < 2^30)%Z) -> agree_above 30 l.
Proof.
  intros B x y Hx Hy i Hi. rewrite !bitE.
  pose proof (to_Z_bounded x). pose proof (to_Z_bounded y).
  rewrite (testbit_high (to_Z x) 30), (testbit_high (to_Z y) 30); auto; split; try lia; auto.
Qed.

Lemma NoDup_map_inj {A B} (f : A -> B) l : NoDup (map f l) ->
  forall x y, In x l -> In y l -> f x = f y -> x = y.
Proof.
  induction l as [|a l IH]; intros N x y Hx Hy E; [destruct Hx|].
  cbn [map] in N. inversion N as [|? ? Na Nl]; subst.
  destruct Hx as [->|Hx], Hy as [->|Hy]; auto.
  - exfalso. apply Na. rewrite E. apply in_map. exact Hy.
  - exfalso. apply Na. rewrite <- E. apply in_map. exact Hx.
Qed.

(* ================= the Uint63 twin of the polymod step ================= *)
Definition g0i : int := Eval vm_compute in of_Z bech32_gen0.
Definition g1i : int := Eval vm_compute in of_Z bech32_gen1.
Definition g2i : int := Eval vm_compute in of_Z bech32_gen2.
Definition g3i : int := Eval vm_compute in of_Z bech32_gen3.
Definition g4i : int := Eval vm_compute in of_Z bech32_gen4.
Definition maski : int := Eval vm_compute in of_Z bech32_mask.
Definition shifti : int := Eval vm_compute in of_Z bech32_shift.
Definition topi : int := Eval vm_compute in of_Z bech32_top_shift.

Definition sel63 (top i g : int) : int :=
  if is_zero (Uint63.land (Uint63.lsr top i) 1%uint63) then 0%uint63 else g.
Definition gen63 (top : int) : int :=
  Uint63.lxor (Uint63.lxor (Uint63.lxor (Uint63.lxor (sel63 top 0%uint63 g0i) (sel63 top 1%uint63 g1i))
     (sel63 top 2%uint63 g2i)) (sel63 top 3%uint63 g3i)) (sel63 top 4%uint63 g4i).
Definition step63 (chk v : int) : int :=
  Uint63.lxor (Uint63.lxor (Uint63.lsl (Uint63.land chk maski) shifti) v) (gen63 (Uint63.lsr chk topi)).

Lemma sel63_spec top i g : (0 <= to_Z i)%Z ->
  to_Z (sel63 top i g) = sel (to_Z top) (to_Z i) (to_Z g).
Proof.
  intros Hi. unfold sel63, sel. rewrite Z.testbit_odd, <- land1_odd.
  destruct (is_zero _) eqn:E.
  - apply is_zero_spec in E. apply (f_equal to_Z) in E.
    rewrite land_spec', lsr_spec in E. change (to_Z 1) with 1%Z in E. change (to_Z 0) with 0%Z in E.
    rewrite Z.shiftr_div_pow2 by lia. rewrite E. reflexivity.
  - assert (N : to_Z (Uint63.land (Uint63.lsr top i) 1%uint63) <> 0%Z).
    { intros Z0. assert (Uint63.land (Uint63.lsr top i) 1%uint63 = 0%uint63) by (apply to_Z_inj; exact Z0).
      apply is_zero_spec in H. congruence. }
    rewrite land_spec', lsr_spec in N. change (to_Z 1) with 1%Z in N.
    rewrite Z.shiftr_div_pow2 by lia. destruct (Z.eqb_spec (Z.land (to_Z top / 2 ^ to_Z i) 1) 0); [contradiction|reflexivity].
Qed.

Lemma gen63_spec top : to_Z (gen63 top) = gen_sel (to_Z top).
Proof.
  unfold gen63, gen_sel. rewrite !lxor_spec'.
  rewrite !sel63_spec by (vm_compute; discriminate). reflexivity.
Qed.

Lemma step63_spec c v : (to_Z c < 2^30)%Z ->
  to_Z (step63 c v) = polymod_step (to_Z c) (to_Z v).
Proof.
  intros Hc. pose proof (to_Z_bounded c) as Bc.
  rewrite step_eq. unfold step63. rewrite !lxor_spec', gen63_spec, lsl_spec, land_spec', lsr_spec.
  change (to_Z maski) with 33554431%Z. change (to_Z shifti) with 5%Z. change (to_Z topi) with 25%Z.
  rewrite Z.shiftr_div_pow2 by lia. rewrite shl_mask_arith.
  change 33554431%Z with (Z.ones 25). rewrite Z.land_ones by lia.
  rewrite Z.mod_small; [reflexivity|].
  unfold wB. change (2 ^ Z.of_nat size)%Z with 9223372036854775808%Z.
  change (2^25)%Z with 33554432%Z. change (2^5)%Z with 32%Z. lia.
Qed.

Lemma step_bound c v : (0 <= c < 2^30)%Z -> (0 <= v < 2^30)%Z -> (0 <= polymod_step c v < 2^30)%Z.
Proof.
  intros Hc Hv. rewrite step_eq.
  assert (Htr : (0 <= Z.shiftr c 25 < 32)%Z).
  { rewrite Z.shiftr_div_pow2 by lia. change (2^30)%Z with 1073741824%Z in Hc. change (2^25)%Z with 33554432%Z. lia. }
  destruct (gen_sel_poly _ Htr) as [_ Gr].
  apply lxor_bound; [lia| |exact Gr]. apply lxor_bound; [lia| |exact Hv].
  rewrite shl_mask_arith. change (2^30)%Z with 1073741824%Z. change (2^25)%Z with 33554432%Z. lia.
Qed.

(* iterates of  x |-> step x 0 *)
Definition step0 (x : Z) : Z := polymod_step x 0.
Fixpoint iterZ (k : nat) (x : Z) : Z := match k with O => x | S k' => step0 (iterZ k' x) end.
Fixpoint iter63 (k : nat) (x : int) : int :=
  match k with O => x | S k' => step63 (iter63 k' x) 0%uint63 end.

Lemma iter63_spec k x : (to_Z x < 2^30)%Z ->
  to_Z (iter63 k x) = iterZ k (to_Z x) /\ (0 <= iterZ k (to_Z x) < 2^30)%Z.
Proof.
  intros Hx. pose proof (to_Z_bounded x) as Bx.
  induction k as [|k [IH R]]; [cbn [iter63 iterZ]; split; [reflexivity|lia]|].
  cbn [iter63 iterZ]. unfold step0. rewrite step63_spec by (rewrite IH; apply R).
  rewrite IH. change (to_Z 0) with 0%Z. split; [reflexivity|].
  apply step_bound; [exact R|]. change (2^30)%Z with 1073741824%Z. lia.
Qed.

(* ================= error words of weight <= 2 on n positions ================= *)
(* a sparse word: (position counted from the END of the data part, non-zero symbol) *)
Definition sym := (nat * int)%type.
Definition f63 (p : sym) : int := iter63 (fst p) (snd p).
Definition syn63 (w : list sym) : int := fold_right (fun p acc => Uint63.lxor (f63 p) acc) 0%uint63 w.

Definition vals63 : list int := map (fun k => of_Z (Z.of_nat k)) (seq 1 31).
Definition rowsA (n : nat) : list (list sym) := map (fun i => map (fun v => (i, v)) vals63) (seq 0 n).

Section Pairs.
  Context {A B : Type} (op : A -> A -> B).
  Fixpoint pairs_spec (rows : list (list A)) : list B :=
    match rows with
    | [] => []
    | r :: rest => flat_map (fun a => flat_map (fun r2 => map (op a) r2) rest) r ++ pairs_spec rest
    end.
  Lemma in_pairs_spec l1 r l2 a r2 b :
    In a r -> In r2 l2 -> In b r2 -> In (op a b) (pairs_spec (l1 ++ r :: l2)).
  Proof.
    intros Ha Hr Hb. induction l1 as [|x l1 IH]; cbn [app pairs_spec].
    - apply in_or_app. left. apply in_flat_map. exists a. split; [exact Ha|].
      apply in_flat_map. exists r2. split; [exact Hr|]. apply in_map. exact Hb.
    - apply in_or_app. right. exact IH.
  Qed.
End Pairs.

Lemma pairs_spec_map {A B A' B'} (opA : A -> A -> B) (opB : A' -> A' -> B') (f : A -> A') (g : B -> B') :
  (forall a b, g (opA a b) = opB (f a) (f b)) ->
  forall rows, pairs_spec opB (map (map f) rows) = map g (pairs_spec opA rows).
Proof.
  intros H. induction rows as [|r rest IH]; [reflexivity|].
  cbn [map pairs_spec]. rewrite map_app, IH. f_equal.
  rewrite !flat_map_concat_map, concat_map, !map_map. f_equal. apply map_ext. intros a.
  rewrite !flat_map_concat_map, concat_map, !map_map. f_equal. apply map_ext. intros r2.
  rewrite !map_map. apply map_ext. intros b. symmetry. apply H.
Qed.

Definition words2 (n : nat) : list (list sym) :=
  pairs_spec (fun a b => [a; b]) (rowsA n) ++ map (fun a => [a]) (concat (rowsA n)) ++ [[]].

(* the tail-recursive generator that is actually run *)
Fixpoint pairs_acc (l : list (list int)) (acc : list int) : list int :=
  match l with
  | [] => acc
  | r :: rest =>
      pairs_acc rest
        (fold_left (fun acc a =>
           fold_left (fun acc r2 => fold_left (fun acc b => Uint63.lxor a b :: acc) r2 acc) rest acc) r acc)
  end.
Definition rows63 (n : nat) : list (list int) := map (fun i => map (fun v => iter63 i v) vals63) (seq 0 n).
Definition all2 (n : nat) : list int :=
  pairs_acc (rows63 n)
    (fold_left (fun acc r => fold_left (fun acc a => a :: acc) r acc) (rows63 n) [0%uint63]).

Lemma fold_perm {A B} (F : list B -> A -> list B) (g : A -> list B) :
  (forall acc a, Permutation (F acc a) (g a ++ acc)) ->
  forall l acc, Permutation (fold_left F l acc) (flat_map g l ++ acc).
Proof.
  intros H. induction l as [|a l IH]; intros acc; cbn [fold_left flat_map]; [reflexivity|].
  rewrite IH, H. rewrite <- app_assoc. rewrite !app_assoc. apply Permutation_app_tail, Permutation_app_comm.
Qed.
Lemma fold_cons_perm {A B} (h : A -> B) l acc :
  Permutation (fold_left (fun acc b => h b :: acc) l acc) (map h l ++ acc).
Proof.
  rewrite (fold_perm (fun acc b => h b :: acc) (fun b => [h b])); [|reflexivity].
  rewrite flat_map_concat_map. induction l; cbn; auto.
Qed.

Lemma pairs_acc_perm l : forall acc, Permutation (pairs_acc l acc) (pairs_spec Uint63.lxor l ++ acc).
Proof.
  induction l as [|r rest IH]; intros acc; cbn [pairs_acc pairs_spec]; [reflexivity|].
  rewrite IH. rewrite <- app_assoc. rewrite (Permutation_app_comm (flat_map _ r)). rewrite <- !app_assoc.
  apply Permutation_app_head.
  rewrite (fold_perm _ (fun a => flat_map (fun r2 => map (Uint63.lxor a) r2) rest)).
  - apply Permutation_app_comm.
  - intros acc0 a. apply fold_perm. intros acc1 r2. apply fold_cons_perm.
Qed.

Lemma rows63_rowsA n : rows63 n = map (map f63) (rowsA n).
Proof. unfold rows63, rowsA. rewrite map_map. apply map_ext. intros i. rewrite map_map. reflexivity. Qed.

Lemma all2_perm n : Permutation (all2 n) (map syn63 (words2 n)).
Proof.
  unfold all2, words2. rewrite pairs_acc_perm.
  rewrite !map_app. apply Permutation_app.
  - rewrite rows63_rowsA.
    rewrite (pairs_spec_map (fun a b => [a; b]) Uint63.lxor f63 syn63); [reflexivity|].
    intros a b. cbn [syn63 fold_right]. rewrite Uint63.lxor0_r. reflexivity.
  - rewrite (fold_perm _ (fun r => r)).
    + rewrite rows63_rowsA. cbn [map syn63 fold_right]. rewrite map_map.
      rewrite flat_map_concat_map, map_id, concat_map.
      apply Permutation_app_tail. apply Permutation_refl'. f_equal.
      apply map_ext. intros r. apply map_ext. intros a. cbn [syn63 fold_right]. rewrite Uint63.lxor0_r. reflexivity.
    + intros acc r. rewrite (fold_cons_perm (fun a => a)). rewrite map_id. reflexivity.
Qed.

Definition distance_check (n : nat) : bool :=
  let l := all2 n in all_below l && nodup_radix 30 l.

Theorem syndromes_nodup n : distance_check n = true -> NoDup (map syn63 (words2 n)).
Proof.
  unfold distance_check. intros H. apply andb_true_iff in H as [HB HN].
  eapply Permutation_NoDup; [apply all2_perm|].
  apply (nodup_radix_sound 30); [lia| |exact HN].
  apply below_agree, all_below_spec, HB.
Qed.
Theorem words2_inj n : distance_check n = true ->
  forall w1 w2, In w1 (words2 n) -> In w2 (words2 n) -> syn63 w1 = syn63 w2 -> w1 = w2.
Proof. intros H. apply NoDup_map_inj, syndromes_nodup, H. Qed.

(* ================= from the checker to the Z model ================= *)
Definition zsym := (nat * Z)%type.
Definition fZ (p : zsym) : Z := iterZ (fst p) (snd p).
Definition sp_syn (w : list zsym) : Z := fold_right (fun p acc => Z.lxor (fZ p) acc) 0%Z w.
Definition to63 (p : zsym) : sym := (fst p, of_Z (snd p)).

(* positions strictly increasing in [lo, n), symbols non-zero 5-bit values *)
Fixpoint wf_sp (lo n : nat) (w : list zsym) : Prop :=
  match w with
  | [] => True
  | p :: t => (lo <= fst p < n)%nat /\ (1 <= snd p < 32)%Z /\ wf_sp (S (fst p)) n t
  end.

Lemma to_Z_of_small v : (0 <= v < 2^30)%Z -> to_Z (of_Z v) = v.
Proof.
  intros H. rewrite of_Z_spec. apply Z.mod_small. unfold wB.
  change (2 ^ Z.of_nat size)%Z with 9223372036854775808%Z. change (2^30)%Z with 1073741824%Z in H. lia.
Qed.

Lemma f63_to63 p : (0 <= snd p < 32)%Z -> to_Z (f63 (to63 p)) = fZ p /\ (0 <= fZ p < 2^30)%Z.
Proof.
  intros H. unfold f63, to63, fZ. cbn [fst snd].
  assert (S : (0 <= snd p < 2^30)%Z) by (change (2^30)%Z with 1073741824%Z; lia).
  destruct (iter63_spec (fst p) (of_Z (snd p))) as [E R]; rewrite to_Z_of_small in * by exact S; [lia|].
  split; assumption.
Qed.

Lemma syn63_to63 lo n w : wf_sp lo n w -> to_Z (syn63 (map to63 w)) = sp_syn w.
Proof.
  revert lo. induction w as [|p t IH]; intros lo W; [reflexivity|].
  destruct W as (_ & V & W). cbn [map syn63 sp_syn fold_right]. rewrite lxor_spec'.
  fold (syn63 (map to63 t)). fold (sp_syn t). rewrite (IH _ W).
  destruct (f63_to63 p) as [E _]; [lia|]. rewrite E. reflexivity.
Qed.

Lemma in_vals63 v : (1 <= v < 32)%Z -> In (of_Z v) vals63.
Proof.
  intros H. unfold vals63. apply in_map_iff. exists (Z.to_nat v). split.
  - f_equal. lia.
  - apply in_seq. lia.
Qed.

Definition rowA (i : nat) : list sym := map (fun v => (i, v)) vals63.
Lemma rowsA_eq n : rowsA n = map rowA (seq 0 n).
Proof. reflexivity. Qed.
Lemma in_rowA p : (1 <= snd p < 32)%Z -> In (to63 p) (rowA (fst p)).
Proof. intros H. unfold rowA, to63. apply in_map. apply in_vals63, H. Qed.

Lemma words2_nil n : In [] (words2 n).
Proof. unfold words2. apply in_or_app. right. apply in_or_app. right. left. reflexivity. Qed.
Lemma words2_one n p : wf_sp 0 n [p] -> In (map to63 [p]) (words2 n).
Proof.
  intros (K & V & _). unfold words2. apply in_or_app. right. apply in_or_app. left.
  cbn [map]. apply (in_map (fun a => [a])). apply in_concat. exists (rowA (fst p)). split.
  - rewrite rowsA_eq. apply in_map. apply in_seq. lia.
  - apply in_rowA, V.
Qed.
Lemma words2_two n p q : wf_sp 0 n [p; q] -> In (map to63 [p; q]) (words2 n).
Proof.
  intros (K & V & K2 & V2 & _). unfold words2. apply in_or_app. left. cbn [map].
  rewrite rowsA_eq.
  replace n with (fst p + S (n - S (fst p)))%nat at 1 by lia.
  rewrite seq_app. cbn [seq]. rewrite map_app. cbn [map plus].
  apply (in_pairs_spec (fun a b => [a; b]) _ _ _ (to63 p) (rowA (fst q)) (to63 q)).
  - apply in_rowA, V.
  - apply in_map. apply in_seq. lia.
  - apply in_rowA, V2.
Qed.

Lemma to63_fst_eq a b : to63 a = to63 b -> fst a = fst b.
Proof. unfold to63. intros H. injection H. auto. Qed.

Theorem no_light_sparse n : distance_check n = true ->
  forall w, wf_sp 0 n w -> (1 <= length w <= 4)%nat -> sp_syn w <> 0%Z.
Proof.
  intros C w W L S. pose proof (words2_inj n C) as INJ.
  assert (X : forall w1 w2 lo1 lo2, wf_sp lo1 n w1 -> wf_sp lo2 n w2 ->
              In (map to63 w1) (words2 n) -> In (map to63 w2) (words2 n) ->
              sp_syn w1 = sp_syn w2 -> map to63 w1 = map to63 w2).
  { intros w1 w2 lo1 lo2 W1 W2 I1 I2 E. apply INJ; auto. apply to_Z_inj.
    rewrite (syn63_to63 _ _ _ W1), (syn63_to63 _ _ _ W2). exact E. }
  destruct w as [|x [|y [|z [|u [|? ?]]]]]; cbn [length] in L; try lia.
  - (* weight 1 *)
    assert (E := X [x] [] 0%nat 0%nat W I (words2_one n x W) (words2_nil n) S). discriminate E.
  - (* weight 2 *)
    assert (E := X [x; y] [] 0%nat 0%nat W I (words2_two n x y W) (words2_nil n) S). discriminate E.
  - (* weight 3 *)
    destruct W as (Kx & Vx & Ky & Vy & Kz & Vz & _).
    assert (W1 : wf_sp 0 n [x; y]) by (cbn; repeat split; lia).
    assert (W2 : wf_sp 0 n [z]) by (cbn; repeat split; lia).
    assert (E : sp_syn [x; y] = sp_syn [z]).
    { apply Z.lxor_eq. cbn [sp_syn fold_right] in *. rewrite !Z.lxor_0_r in *.
      rewrite <- S. rewrite !Z.lxor_assoc. reflexivity. }
    assert (E' := X _ _ _ _ W1 W2 (words2_two n x y W1) (words2_one n z W2) E). discriminate E'.
  - (* weight 4 *)
    destruct W as (Kx & Vx & Ky & Vy & Kz & Vz & Ku & Vu & _).
    assert (W1 : wf_sp 0 n [x; y]) by (cbn; repeat split; lia).
    assert (W2 : wf_sp 0 n [z; u]) by (cbn; repeat split; lia).
    assert (E : sp_syn [x; y] = sp_syn [z; u]).
    { apply Z.lxor_eq. cbn [sp_syn fold_right] in *. rewrite !Z.lxor_0_r in *.
      rewrite <- S. rewrite !Z.lxor_assoc. reflexivity. }
    assert (E' := X _ _ _ _ W1 W2 (words2_two n x y W1) (words2_two n z u W2) E).
    cbn [map] in E'. assert (E1 : to63 x = to63 z) by congruence. apply to63_fst_eq in E1. lia.
Qed.

(* ---------- dense error words ---------- *)
Definition weight (e : list Z) : nat := length (filter (fun v => negb (v =? 0)%Z) e).
Fixpoint sparse_of (k : nat) (r : list Z) : list zsym :=
  match r with
  | [] => []
  | v :: t => if (v =? 0)%Z then sparse_of (S k) t else (k, v) :: sparse_of (S k) t
  end.
(* syndrome of a reversed word (last symbol first) *)
Fixpoint synr (r : list Z) : Z :=
  match r with [] => 0%Z | v :: t => Z.lxor v (step0 (synr t)) end.

Lemma step_0_v v : polymod_step 0 v = v.
Proof. rewrite step_eq. change (Z.shiftr 0 25) with 0%Z. change (gen_sel 0) with 0%Z.
  change (Z.land 0 33554431) with 0%Z. change (Z.shiftl 0 5) with 0%Z. rewrite Z.lxor_0_l, Z.lxor_0_r. reflexivity. Qed.
Lemma step0_xor a b : step0 (Z.lxor a b) = Z.lxor (step0 a) (step0 b).
Proof. unfold step0. rewrite <- step_xor. reflexivity. Qed.
Lemma step0_0 : step0 0 = 0%Z.
Proof. reflexivity. Qed.

Lemma polymod_rev r : polymod_from 0 (rev r) = synr r.
Proof.
  induction r as [|v t IH]; [reflexivity|].
  cbn [rev synr]. rewrite polymod_from_app, IH. cbn [polymod_from fold_left].
  rewrite <- (Z.lxor_0_r (synr t)) at 1. rewrite <- (Z.lxor_0_l v) at 1.
  rewrite step_xor, step_0_v. apply Z.lxor_comm.
Qed.

Lemma sp_syn_shift t : forall k, sp_syn (sparse_of (S k) t) = step0 (sp_syn (sparse_of k t)).
Proof.
  induction t as [|v t IH]; intros k; [reflexivity|].
  cbn [sparse_of]. destruct (v =? 0)%Z; [apply IH|].
  cbn [sp_syn fold_right]. fold (sp_syn (sparse_of (S (S k)) t)). fold (sp_syn (sparse_of (S k) t)).
  rewrite step0_xor, <- IH. reflexivity.
Qed.

Lemma synr_sparse r : synr r = sp_syn (sparse_of 0 r).
Proof.
  induction r as [|v t IH]; [reflexivity|].
  cbn [synr sparse_of]. rewrite IH, <- sp_syn_shift.
  destruct (Z.eqb_spec v 0) as [->|N]; [apply Z.lxor_0_l|reflexivity].
Qed.

Lemma sparse_wf r : forall k, Forall is5 r -> wf_sp k (k + length r) (sparse_of k r).
Proof.
  induction r as [|v t IH]; intros k F; [exact I|].
  inversion F; subst. cbn [sparse_of length].
  replace (k + S (length t))%nat with (S k + length t)%nat by lia.
  destruct (Z.eqb_spec v 0) as [->|N].
  - specialize (IH (S k) H2). clear -IH. revert IH. generalize (sparse_of (S k) t) as w.
    intros [|p w]; [auto|]. cbn. intros (A & B & C). repeat split; auto; lia.
  - cbn [wf_sp fst snd]. unfold is5 in H1. repeat split; try lia. apply IH, H2.
Qed.
Lemma sparse_length r : forall k, length (sparse_of k r) = weight r.
Proof.
  unfold weight. induction r as [|v t IH]; intros k; [reflexivity|].
  cbn [sparse_of filter]. destruct (v =? 0)%Z; cbn [negb length]; rewrite IH; reflexivity.
Qed.
Lemma weight_rev e : weight (rev e) = weight e.
Proof.
  unfold weight. induction e as [|v t IH]; [reflexivity|].
  cbn [rev filter]. rewrite filter_app, app_length, IH. cbn [filter].
  destruct (negb (v =? 0)%Z); cbn [length]; lia.
Qed.

Lemma wf_sp_weaken n m w : (n <= m)%nat -> forall lo, wf_sp lo n w -> wf_sp lo m w.
Proof.
  intros L. induction w as [|p w IH]; intros lo; [auto|].
  cbn [wf_sp]. intros (A & B & D). repeat split; try lia. apply IH, D.
Qed.

(* the reduction: a successful run of the checker on n positions excludes every error
   word of weight 1..4 and length at most n *)
Theorem distance_from_check n : distance_check n = true ->
  forall e, (length e <= n)%nat -> Forall is5 e -> (1 <= weight e <= 4)%nat -> polymod_from 0 e <> 0%Z.
Proof.
  intros C e L F W. rewrite <- (rev_involutive e), polymod_rev, synr_sparse.
  apply (no_light_sparse n C).
  - assert (F' : Forall is5 (rev e)) by (apply Forall_rev, F).
    pose proof (sparse_wf (rev e) 0 F') as Wf. rewrite rev_length in Wf. cbn [plus] in Wf.
    apply (wf_sp_weaken _ _ _ L _ Wf).
  - rewrite sparse_length, weight_rev. exact W.
Qed.

(* small instance, as a test of the whole chain *)
Example distance_check_6 : distance_check 6 = true.
Proof. vm_compute. reflexivity. Qed.
