(* Proofs/MerkleWire.v – C15 end to end: the roots of a block whose transactions are given as
   VALUES (wire model of C01, identifiers of C02) are the reference roots over
   H(stripped wire form) / H(full wire form).  Nothing is read from the implementation:
   txid, wtxid and has_witness come from Model/Ident.v and Model/Wire.v through
   Model/Check.v block_txvs (the list CBlock.__init__ builds its trees from). *)
From BV Require Import Common.Base Common.PyList Common.Codec Common.Tx Gen.Core.
From BV Require Import Spec.Wire Spec.Merkle Spec.Check.
From BV Require Import Model.Wire Model.Ident Model.Merkle Model.Check.
From BV Require Import Proofs.Wire Proofs.Ident Proofs.Merkle Proofs.CheckBlock.

Section MerkleWire.
Variable H : bytes -> bytes.

Theorem roots_from_wire vtx : vtx <> [] -> Forall tx_in_range vtx ->
  exists txvs r, block_txvs H vtx = Ok txvs /\
    spec_root H (map (txid H) vtx) = Some r /\ calc_merkle_root H txvs = Ok r /\
    (existsb has_witness vtx = true ->
       exists wr, spec_witness_root H (map (wtxid H) vtx) = Some wr /\
                  calc_witness_merkle_root H txvs = Ok wr) /\
    (existsb has_witness vtx = false -> calc_witness_merkle_root H txvs = Err NoWitnessData).
Proof.
  intros NE R. exists (map (txv_of H) vtx).
  assert (NE' : map (txv_of H) vtx <> []) by (destruct vtx; [congruence | discriminate]).
  destruct (calc_merkle_root_eq_spec H (map (txv_of H) vtx) NE') as [r [Er Ec]].
  rewrite txv_txids in Er. exists r.
  split; [apply block_txvs_eq; exact R|]. split; [exact Er|]. split; [exact Ec|]. split.
  - intros HW. destruct (witness_root_eq_spec H (map (txv_of H) vtx) NE') as [wr [Ewr Ecw]].
    + rewrite txv_haswit. exact HW.
    + rewrite txv_hashes in Ewr. exists wr. split; assumption.
  - intros HW. apply witness_root_none; [exact NE'|]. rewrite txv_haswit. exact HW.
Qed.

(* the constructor on real transactions: declared root zero => filled in, equal => kept,
   anything else => CheckBlockError; the root is the reference root over the txids *)
Hypothesis H32 : forall x, length (H x) = 32%nat.
Theorem constructor_from_wire prev root vtx : vtx <> [] -> Forall tx_in_range vtx -> length prev = 32%nat ->
  exists txvs r, block_txvs H vtx = Ok txvs /\ spec_root H (map (txid H) vtx) = Some r /\
    (root = zeros 32 \/ root = r ->
       exists b, cblock_init H prev root txvs = Ok b /\ cb_hashMerkleRoot b = r /\
                 calc_merkle_root H (cb_vtx b) = Ok r) /\
    (root <> zeros 32 -> root <> r -> cblock_init H prev root txvs = Err CheckBlockErr).
Proof.
  intros NE R LP. exists (map (txv_of H) vtx).
  assert (NE' : map (txv_of H) vtx <> []) by (destruct vtx; [congruence | discriminate]).
  destruct (spec_root_total H (map (txid H) vtx)) as [r Er]; [destruct vtx; [congruence | discriminate]|].
  exists r. split; [apply block_txvs_eq; exact R|]. split; [exact Er|].
  assert (F : Forall (fun t => length (tv_txid t) = 32%nat) (map (txv_of H) vtx)).
  { apply Forall_forall. intros x I. apply in_map_iff in I as [t [<- _]]. cbn. apply H32. }
  assert (Er' : spec_root H (map tv_txid (map (txv_of H) vtx)) = Some r) by (rewrite txv_txids; exact Er).
  destruct (constructor_spec H prev root (map (txv_of H) vtx) r H32 F NE' LP Er') as [A B].
  split.
  - intros D. destruct (A D) as (b & E1 & E2 & _ & _ & E5). exists b. repeat split; assumption.
  - exact B.
Qed.
End MerkleWire.
