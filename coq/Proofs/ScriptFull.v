(* Proofs/ScriptFull.v – C06/C07: EvalScript of the MODEL equals the reference on EVERY
   script (all opcodes, signature checks included), every initial stack, every flag set. *)
From BV Require Import Common.Base Common.PyList Common.Tx Common.ScriptFlags
  Gen.ScriptConsts Gen.EvalConsts Model.Script Model.FindAndDelete Model.ScriptEval
  Spec.Script Spec.ScriptRef Proofs.ScriptStack Proofs.ScriptNum Proofs.ScriptIter Proofs.FindAndDelete
  Proofs.ScriptEval Proofs.ScriptSig Proofs.ScriptPred.

Lemma consecutive_app a : forall off b, consecutive off (a ++ b) -> consecutive (off + lenZ (ops_bytes a)) b.
Proof.
  induction a as [|o a IH]; intros off b C.
  - cbn [app] in C. replace (off + lenZ (ops_bytes [])) with off by (unfold ops_bytes, lenZ; cbn; lia). exact C.
  - cbn [app consecutive] in C. destruct C as [_ C]. apply IH in C. rewrite ops_bytes_cons, lenZ_app.
    replace (off + (lenZ (sop_bytes o) + lenZ (ops_bytes a))) with (off + lenZ (sop_bytes o) + lenZ (ops_bytes a)) by lia. exact C.
Qed.
Lemma codesep_op op : 0 <= op < 256 -> ref_kind op = KCodesep -> op = 0xab.
Proof.
  intros H K.
  assert (T : (if kind_eqb (ref_kind op) KCodesep then op =? 0xab else true) = true)
    by (apply (sweep256 (fun n => if kind_eqb (ref_kind n) KCodesep then n =? 0xab else true)); [vm_compute; reflexivity|exact H]).
  rewrite K in T. cbn [kind_eqb] in T. now apply Z.eqb_eq in T.
Qed.
Lemma ops_bytes_app a b : ops_bytes (a ++ b) = ops_bytes a ++ ops_bytes b.
Proof. unfold ops_bytes. now rewrite map_app, concat_app. Qed.
Lemma sop_bytes_ne o : sop_bytes o <> [].
Proof. unfold sop_bytes. pose proof (op_bytes_ne (sop_opcode o) (sop_data o)). destruct (op_bytes _ _); [simpl in *; lia|discriminate]. Qed.

Lemma py_slice_suffix pre r : py_slice (pre ++ r) (lenZ pre) (lenZ (pre ++ r)) = r.
Proof.
  rewrite lenZ_app. rewrite py_slice_app by (unfold lenZ; lia). unfold lenZ. rewrite Nat2Z.id. apply firstn_all.
Qed.
Lemma py_slice_whole s : py_slice s 0 (lenZ s) = s.
Proof. exact (py_slice_suffix [] s). Qed.

Section Full.
Variable checksig : bytes -> bytes -> bytes -> bool.
Variable ripemd160 sha1 sha256 : bytes -> bytes.
Variable fl : flags.
Hypothesis checksig_empty : forall pk code, checksig [] pk code = false.
Hypothesis hash_small : forall x, small (ripemd160 x) /\ small (sha1 x) /\ small (sha256 x).
Notation step := (step checksig ripemd160 sha1 sha256 fl).
Notation ref_step := (ref_step checksig ripemd160 sha1 sha256 fl).
Notation run_ops := (run_ops checksig ripemd160 sha1 sha256 fl).
Notation eval_loop := (eval_loop checksig ripemd160 sha1 sha256 fl).
Notation eval_script := (eval_script checksig ripemd160 sha1 sha256 fl).
Notation eval_ref := (eval_ref checksig ripemd160 sha1 sha256 fl).

(* the script: [all] are the operations raw_iter yields, [tail] what it could not decode
   ([] when the script parses), [err] the tokeniser's verdict *)
Variables (scriptIn : bytes) (all : list sop) (tail : bytes) (err : option exn).
Hypothesis W : Forall sop_wf all.
Hypothesis C : consecutive 0 all.
Hypothesis SB : scriptIn = ops_bytes all ++ tail.
Hypothesis TAIL : match err with None => tail = [] | Some e => is_script_err e = true /\ overrun tail end.

Definition unparsed : Prop := match err with None => False | Some _ => True end.
(* the code from pbegincodehash starts at an operation boundary and is related to the
   reference's subscript *)
Definition CI (r : rstate) (pb : Z) : Prop :=
  exists k, py_slice scriptIn pb (lenZ scriptIn) = ops_bytes (skipn k all) ++ tail /\
            code_rel (py_slice scriptIn pb (lenZ scriptIn)) (r_sub r).

Lemma tmp_status k : exists ops e', raw_iter (ops_bytes (skipn k all) ++ tail) = (ops, e') /\
  (err = None -> e' = None) /\ (unparsed -> exists x, e' = Some x /\ is_script_err x = true).
Proof.
  assert (Wk : Forall sop_wf (skipn k all)) by (now apply Forall_skipn).
  unfold unparsed. destruct err as [e|].
  - destruct TAIL as [SE OV].
    destruct (raw_iter_complete (reindex 0 (skipn k all)) tail (reindex_wf _ 0 Wk) (reindex_consecutive _ 0) (or_intror OV)) as (e' & E & _ & N).
    rewrite reindex_bytes in E. eexists _, e'. split; [exact E|]. split; [discriminate|]. intros _. exact (N OV).
  - rewrite TAIL, app_nil_r. eexists _, None. split; [now apply ops_bytes_parse|]. split; [reflexivity|contradiction].
Qed.

(* the two signature classes, through Proofs/ScriptSig.v *)
Lemma sig_sim r pb op d idx rest : inv r -> CI r pb ->
  forall r1 k, is_sig k = true -> ref_kind op = k ->
    r_stack r1 = r_stack r -> r_alt r1 = r_alt r -> r_vf r1 = r_vf r -> r_sub r1 = r_sub r ->
    sim1 (exec checksig ripemd160 sha1 sha256 fl scriptIn (abs r1 pb) (mk_sop op d idx) k)
         (exec_op checksig ripemd160 sha1 sha256 fl op rest r1) pb \/
    (unparsed /\ exists e, exec checksig ripemd160 sha1 sha256 fl scriptIn (abs r1 pb) (mk_sop op d idx) k = Err e /\ is_script_err e = true).
Proof.
  intros (S2 & _) (k0 & ET & CR) r1 k SG K E1 E2 E3 E4.
  destruct (tmp_status k0) as (ops & e' & RI & PN & PU). rewrite <- ET in RI.
  assert (SM : Forall small (r_stack r1)) by (rewrite E1; apply S2).
  rewrite <- E4 in CR.
  destruct e' as [x|].
  - (* the code from pbegincodehash does not parse *)
    assert (U : unparsed) by (unfold unparsed; destruct err; [exact I|now specialize (PN eq_refl)]).
    destruct (PU U) as (x' & Ex & SE). injection Ex as <-.
    destruct k; try discriminate SG.
    + destruct (multisig_unparsed checksig ripemd160 sha1 sha256 fl checksig_empty scriptIn r1 pb (mk_sop op d idx) rest verify ops x RI SM K) as [L|R];
        [left; exact L|right; split; [exact U|exists x; split; [exact R|exact SE]]].
    + destruct (checksig_unparsed checksig ripemd160 sha1 sha256 fl checksig_empty scriptIn r1 pb (mk_sop op d idx) rest verify ops x RI SM K) as [L|R];
        [left; exact L|right; split; [exact U|exists x; split; [exact R|exact SE]]].
  - left. destruct k; try discriminate SG.
    + exact (sim_multisig checksig ripemd160 sha1 sha256 fl checksig_empty scriptIn r1 pb (mk_sop op d idx) rest verify ops RI CR SM K).
    + exact (sim_checksig checksig ripemd160 sha1 sha256 fl checksig_empty scriptIn r1 pb (mk_sop op d idx) rest verify ops RI CR SM K).
Qed.

Definition allowed (e : exn) : Prop := e = EvalErr \/ is_script_err e = true.

(* the loop over the operations raw_iter yields, against the reference loop over the bytes *)
Lemma loop_full : forall rem done r pb fuel,
  all = done ++ rem -> (length (ops_bytes rem ++ tail) <= fuel)%nat -> inv r -> CI r pb ->
  (unparsed /\ exists e, run_ops scriptIn (abs r pb) rem = Err e /\ is_script_err e = true) \/
  match eval_loop fuel (ops_bytes rem ++ tail) r with
  | Some r' => inv r' /\ err = None /\ exists pb', run_ops scriptIn (abs r pb) rem = Ok (abs r' pb')
  | None => run_ops scriptIn (abs r pb) rem = Err EvalErr \/ (unparsed /\ exists s', run_ops scriptIn (abs r pb) rem = Ok s')
  end.
Proof.
  induction rem as [|o rem IH]; intros done r pb fuel EA LF I CIr.
  - (* all operations consumed *)
    right. cbn [ops_bytes map concat app ScriptEval.run_ops].
    destruct err as [e|] eqn:EE.
    + destruct TAIL as [SE OV]. destruct (overrun_get_op tail OV) as (NE & e' & G & _).
      destruct tail as [|c t]; [congruence|]. destruct fuel; [cbn in LF; lia|].
      cbn [ScriptRef.eval_loop]. rewrite G. right. split; [unfold unparsed; rewrite EE; exact Logic.I|]. eexists; reflexivity.
    + rewrite TAIL. destruct fuel; cbn [ScriptRef.eval_loop app]; (split; [exact I|split; [reflexivity|exists pb; reflexivity]]).
  - assert (Wo : sop_wf o).
    { rewrite Forall_forall in W. apply W. rewrite EA. apply in_or_app. right. left. reflexivity. }
    rewrite ops_bytes_cons, <- app_assoc in LF |- *.
    pose proof (get_op_complete (sop_opcode o) (sop_data o) (ops_bytes rem ++ tail) Wo) as G. fold (sop_bytes o) in G.
    pose proof (sop_bytes_ne o) as NE.
    destruct (sop_bytes o ++ ops_bytes rem ++ tail) as [|c code'] eqn:EC; [apply app_eq_nil in EC as [EC _]; congruence|].
    destruct fuel as [|fuel]; [cbn in LF; lia|].
    cbn [ScriptRef.eval_loop]. rewrite G.
    (* the position of this operation *)
    assert (IDX : sop_idx o = lenZ (ops_bytes done)).
    { rewrite EA in C. apply consecutive_app in C. cbn [consecutive] in C. destruct C as [C0 _]. lia. }
    assert (Eo : o = mk_sop (sop_opcode o) (sop_data o) (sop_idx o)) by (destruct o; reflexivity).
    pose proof (step_sim_gen checksig ripemd160 sha1 sha256 fl hash_small unparsed scriptIn r pb
                  (sop_opcode o) (sop_data o) (sop_idx o) (ops_bytes rem ++ tail) (c :: code') G I
                  (sig_sim r pb (sop_opcode o) (sop_data o) (sop_idx o) (ops_bytes rem ++ tail) I CIr)) as ST.
    rewrite <- Eo in ST. cbn [ScriptEval.run_ops].
    destruct ST as [(U & e & ST & SE)|ST].
    + left. split; [exact U|]. exists e. rewrite ST. split; [reflexivity|exact SE].
    + destruct (ref_step (sop_opcode o) (sop_data o) (ops_bytes rem ++ tail) r) as [r1|].
      * destruct ST as [I1 ST].
        assert (LF' : (length (ops_bytes rem ++ tail) <= fuel)%nat).
        { assert (1 <= length (sop_bytes o))%nat by (destruct (sop_bytes o); [congruence|cbn; lia]).
          rewrite <- EC in LF. rewrite app_length in LF. cbn [length] in LF. lia. }
        assert (EA' : all = (done ++ [o]) ++ rem) by (rewrite <- app_assoc; exact EA).
        destruct ST as [[ST SUB]|(ST & SUB & KC)]; rewrite ST; cbn [bind].
        -- apply (IH (done ++ [o]) r1 pb fuel EA' LF' I1).
           destruct CIr as (k0 & ET & CR). exists k0. split; [exact ET|]. now rewrite SUB.
        -- apply (IH (done ++ [o]) r1 (sop_idx o) fuel EA' LF' I1).
           exists (length done). rewrite IDX, SUB. 
           assert (SK : skipn (length done) all = o :: rem).
           { rewrite EA. rewrite skipn_app, skipn_all, Nat.sub_diag. reflexivity. }
           rewrite SK, SB, EA, ops_bytes_app, <- app_assoc.
           rewrite py_slice_suffix. split; [reflexivity|].
           right. rewrite ops_bytes_cons, <- app_assoc. f_equal.
           unfold sop_bytes. unfold sop_wf in Wo.
           assert (OPB : 0 <= sop_opcode o < 256) by (unfold op_wf in Wo; destruct (sop_data o); lia).
           pose proof (codesep_op _ OPB KC) as EOP. rewrite EOP in *.
           unfold op_wf in Wo. destruct (sop_data o); [lia|]. reflexivity.
      * right. left. rewrite ST. reflexivity.
Qed.

(* the reference never accepts a script whose tail does not decode *)
Lemma eval_loop_unparsed : unparsed -> forall rem, Forall sop_wf rem ->
  forall r fuel, eval_loop fuel (ops_bytes rem ++ tail) r = None.
Proof.
  intros U. unfold unparsed in U. destruct err as [e|]; [|contradiction]. destruct TAIL as [_ OV].
  destruct (overrun_get_op tail OV) as (NE & e' & G & _).
  induction rem as [|o rem IH]; intros F r fuel.
  - cbn [ops_bytes map concat app]. destruct tail as [|c t]; [congruence|]. destruct fuel; [reflexivity|].
    cbn [ScriptRef.eval_loop]. now rewrite G.
  - inversion F as [|? ? Wo F']; subst. rewrite ops_bytes_cons, <- app_assoc. pose proof (sop_bytes_ne o) as NEo.
    pose proof (get_op_complete (sop_opcode o) (sop_data o) (ops_bytes rem ++ tail) Wo) as G'. fold (sop_bytes o) in G'.
    destruct (sop_bytes o ++ ops_bytes rem ++ tail) as [|c code'] eqn:EC; [apply app_eq_nil in EC as [EC _]; congruence|].
    destruct fuel; [reflexivity|]. cbn [ScriptRef.eval_loop]. rewrite G'.
    destruct (ref_step (sop_opcode o) (sop_data o) (ops_bytes rem ++ tail) r) as [r1|]; [|reflexivity].
    apply IH. exact F'.
Qed.
End Full.

(* ================= EvalScript: MODEL = SPEC on every script ================= *)
Theorem eval_full checksig ripemd160 sha1 sha256 fl :
  (forall pk code, checksig [] pk code = false) ->
  (forall x, small (ripemd160 x) /\ small (sha1 x) /\ small (sha256 x)) ->
  forall scriptIn st, Forall small st -> lenZ st < 2^31 ->
  eval_script checksig ripemd160 sha1 sha256 fl (rev st) scriptIn
  = match eval_ref checksig ripemd160 sha1 sha256 fl st scriptIn with Some fin => Ok (rev fin) | None => Err EvalErr end
  /\ (forall fin, eval_ref checksig ripemd160 sha1 sha256 fl st scriptIn = Some fin -> Forall small fin /\ lenZ fin < 2^31).
Proof.
  intros CE HS scriptIn st S1 S2. unfold eval_script, eval_script_raw, eval_ref.
  change MAX_SCRIPT_SIZE with 10000. destruct (lenZ scriptIn >? 10000); [split; [reflexivity|discriminate]|].
  destruct (raw_iter scriptIn) as [all err] eqn:RI.
  destruct (raw_iter_sound scriptIn all err RI) as (W & C & tail & SB & TN & TS).
  assert (TAIL : match err with None => tail = [] | Some e => is_script_err e = true /\ overrun tail end)
    by (destruct err as [e|]; [exact (TS e eq_refl)|exact (TN eq_refl)]).
  set (r0 := {| r_stack := st; r_alt := []; r_vf := []; r_sub := scriptIn; r_nop := 0 |}).
  change ({| stack := rev st; altstack := []; vfExec := []; pbegincodehash := 0; nOpCount := 0 |}) with (abs r0 0).
  assert (I0 : inv r0) by (repeat split; cbn [r_stack r_alt r_nop r0]; try assumption; try constructor; lia).
  assert (CI0 : CI scriptIn all tail r0 0).
  { exists 0%nat. rewrite py_slice_whole. cbn [skipn]. split; [exact SB|left; reflexivity]. }
  pose proof (loop_full checksig ripemd160 sha1 sha256 fl CE HS scriptIn all tail err W C SB TAIL all [] r0 0 (length scriptIn)
                eq_refl ltac:(rewrite <- SB; lia) I0 CI0) as LF.
  rewrite <- SB in LF.
  destruct LF as [(U & e & RE & SE)|LF].
  - (* a FindAndDelete inside a signature opcode met the undecodable tail *)
    rewrite RE. cbn [bind]. rewrite SE.
    pose proof (eval_loop_unparsed checksig ripemd160 sha1 sha256 fl scriptIn all tail err SB TAIL U all W r0 (length scriptIn)) as EU.
    rewrite <- SB in EU. rewrite EU. split; [reflexivity|discriminate].
  - destruct (eval_loop checksig ripemd160 sha1 sha256 fl (length scriptIn) scriptIn r0) as [r'|].
    + destruct LF as [I' [-> [pb' ->]]]. cbn [bind]. unfold abs. cbn [vfExec stack]. rewrite len_rev.
      destruct (r_vf r') as [|b vf']; cbn [is_nil].
      * split; [reflexivity|]. intros fin E. injection E as <-. destruct I' as ((A & _) & B & _). auto.
      * destruct (Z.eqb_spec (len (b :: vf')) 0) as [E|E]; [rewrite len_cons in E; pose proof (len_nonneg vf'); lia|].
        split; [reflexivity|discriminate].
    + split; [|discriminate]. destruct LF as [-> | (U & s' & ->)]; cbn [bind]; [reflexivity|].
      unfold unparsed in U. destruct err as [e|]; [|contradiction]. destruct TAIL as [SE _]. rewrite SE. reflexivity.
Qed.

(* ================= VerifyScript ================= *)
Lemma p2sh_on_empty checksig ripemd160 sha1 sha256 fl spk :
  ref_p2sh spk = true -> eval_ref checksig ripemd160 sha1 sha256 fl [] spk = None.
Proof.
  unfold ref_p2sh. intros H. apply andb_true_iff in H as [H H3]. apply andb_true_iff in H as [H1 H2].
  apply Nat.eqb_eq in H1. apply bytes_eqb_eq in H2.
  destruct spk as [|b0 [|b1 t]]; try discriminate H1. cbn [firstn] in H2. injection H2 as -> ->.
  unfold eval_ref. destruct (lenZ _ >? 10000); [reflexivity|].
  rewrite H1. cbn [ScriptRef.eval_loop]. reflexivity.
Qed.

Section Verify.
Variable checksig : bytes -> bytes -> bytes -> bool.
Variable ripemd160 sha1 sha256 : bytes -> bytes.
Variable fl : flags.
Hypothesis checksig_empty : forall pk code, checksig [] pk code = false.
Hypothesis hash_small : forall x, small (ripemd160 x) /\ small (sha1 x) /\ small (sha256 x).
Hypothesis flags_ok : f_cleanstack fl = true -> f_p2sh fl = true.
Notation eval_script := (eval_script checksig ripemd160 sha1 sha256 fl).
Notation eval_ref := (eval_ref checksig ripemd160 sha1 sha256 fl).
Notation verify_script := (verify_script checksig ripemd160 sha1 sha256 fl).
Notation verify_ref := (verify_ref checksig ripemd160 sha1 sha256 fl).

Lemma eval_eq st s : Forall small st -> lenZ st < 2^31 ->
  eval_script (rev st) s = match eval_ref st s with Some fin => Ok (rev fin) | None => Err EvalErr end.
Proof. intros A B. exact (proj1 (eval_full checksig ripemd160 sha1 sha256 fl checksig_empty hash_small s st A B)). Qed.
Lemma eval_inv st s fin : Forall small st -> lenZ st < 2^31 -> eval_ref st s = Some fin -> Forall small fin /\ lenZ fin < 2^31.
Proof. intros A B. exact (proj2 (eval_full checksig ripemd160 sha1 sha256 fl checksig_empty hash_small s st A B) fin). Qed.

Lemma top_rev (x : bytes) st : py_nth (rev (x :: st)) (-1) = Ok x.
Proof. apply (py_nth_rev (x :: st) 1 x); [lia|reflexivity]. Qed.

(* VerifyScript accepts exactly when the reference accepts; every rejection is an
   EvalScriptError or a VerifyScriptError *)
Theorem verify_full ssig spk :
  match verify_script ssig spk with
  | Ok _ => verify_ref ssig spk = true
  | Err e => verify_ref ssig spk = false /\ (e = EvalErr \/ e = VerifyErr)
  end.
Proof.
  unfold ScriptEval.verify_script, ScriptRef.verify_ref.
  change (@nil bytes) with (rev (@nil bytes)) at 1.
  rewrite (eval_eq [] ssig) by (try constructor; unfold lenZ; simpl; lia).
  destruct (eval_ref [] ssig) as [st1|] eqn:E1; cbn [bind]; [|split; [reflexivity|left; reflexivity]].
  destruct (eval_inv [] ssig st1 ltac:(constructor) ltac:(unfold lenZ; simpl; lia) E1) as [A1 B1].
  rewrite (eval_eq st1 spk A1 B1).
  destruct (eval_ref st1 spk) as [st2|] eqn:E2; cbn [bind]; [|split; [reflexivity|left; reflexivity]].
  destruct (eval_inv st1 spk st2 A1 B1 E2) as [A2 B2].
  rewrite len_rev. destruct st2 as [|top st2].
  { cbn [len length Z.of_nat Z.eqb bind]. split; [reflexivity|right; reflexivity]. }
  destruct (Z.eqb_spec (len (top :: st2)) 0) as [EZ1|EZ1]; [rewrite len_cons in EZ1; pose proof (len_nonneg st2); lia|]. cbn [bind].
  rewrite top_rev. cbn [bind]. rewrite cast_to_bool_ref.
  destruct (ref_bool top); cbn [negb bind]; [|split; [reflexivity|right; reflexivity]].
  rewrite (is_p2sh_spec spk).
  assert (P : (if f_p2sh fl then Ok (ref_p2sh spk) else Ok false) = Ok (f_p2sh fl && ref_p2sh spk)) by (destruct (f_p2sh fl); reflexivity).
  rewrite P. cbn [bind]. clear P.
  assert (CS : forall st3 : list bytes,
     (if f_cleanstack fl then if negb (f_p2sh fl) then Err AssertionError else if negb (len (rev st3) =? 1) then @vfail unit else Ok tt else Ok tt)
     = if (if f_cleanstack fl then (length st3 =? 1)%nat else true) then Ok tt else Err VerifyErr).
  { intros st3. destruct (f_cleanstack fl) eqn:FC; [|reflexivity]. rewrite (flags_ok eq_refl). cbn [negb].
    rewrite len_rev. unfold len. destruct (Nat.eqb_spec (length st3) 1) as [L|L].
    - rewrite L. reflexivity.
    - destruct (Z.eqb_spec (Z.of_nat (length st3)) 1); [lia|reflexivity]. }
  destruct (f_p2sh fl && ref_p2sh spk) eqn:P2.
  - rewrite (is_push_only_spec ssig). cbn [bind].
    destruct (ref_push_only ssig); cbn [negb bind]; [|split; [reflexivity|right; reflexivity]].
    rewrite len_rev. destruct st1 as [|redeem st1].
    { (* impossible: a P2SH scriptPubKey fails on the empty stack *)
      apply andb_true_iff in P2 as [_ P2]. rewrite (p2sh_on_empty checksig ripemd160 sha1 sha256 fl spk P2) in E2. discriminate E2. }
    destruct (Z.eqb_spec (len (redeem :: st1)) 0) as [EZ2|EZ2]; [rewrite len_cons in EZ2; pose proof (len_nonneg st1); lia|]. cbn [bind].
    rewrite py_pop_rev. cbn [bind fst snd].
    inversion A1 as [|? ? Ar A1']; subst.
    assert (B1' : lenZ st1 < 2^31) by (unfold lenZ in *; cbn [length] in B1; lia).
    rewrite (eval_eq st1 redeem A1' B1').
    destruct (eval_ref st1 redeem) as [st3|] eqn:E3; cbn [bind]; [|split; [reflexivity|left; reflexivity]].
    rewrite len_rev. destruct st3 as [|t3 st3].
    { cbn [len length Z.of_nat Z.eqb bind]. split; [reflexivity|right; reflexivity]. }
    destruct (Z.eqb_spec (len (t3 :: st3)) 0) as [EZ3|EZ3]; [rewrite len_cons in EZ3; pose proof (len_nonneg st3); lia|]. cbn [bind].
    rewrite top_rev. cbn [bind]. rewrite cast_to_bool_ref.
    destruct (ref_bool t3); cbn [negb bind]; [|split; [reflexivity|right; reflexivity]].
    rewrite CS. destruct (if f_cleanstack fl then _ else true); [reflexivity|split; [reflexivity|right; reflexivity]].
  - cbn [bind]. rewrite CS. destruct (if f_cleanstack fl then _ else true); [reflexivity|split; [reflexivity|right; reflexivity]].
Qed.
End Verify.
