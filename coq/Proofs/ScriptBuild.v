(* Proofs/ScriptBuild.v – C08: building (CScript(iterable), script + token), cooked
   iteration and rebuilding.  build = the shortest-push / small-integer / minimal-number
   encoding; iterating a built script returns the canonical token list; rebuilding from it
   reproduces the bytes; cooked iteration of ANY byte string = the reference walk. *)
From BV Require Import Common.Base Model.Script Spec.Script Proofs.ScriptNum Proofs.ScriptIter.

Ltac consts := unfold OP_0, OP_1, OP_16, OP_1NEGATE, OPCODE_INSTANCES, PUSH_T0, PUSH_T1, PUSH_T2, PUSH_T4,
  PUSH_PREFIX1, PUSH_PREFIX2, PUSH_PREFIX4, PUSH_LEN_WIDTH2, PUSH_LEN_WIDTH4 in *.

Ltac ztrue c := replace c with true by (symmetry; first [apply Z.ltb_lt | apply Z.leb_le | apply Z.eqb_eq]; lia); cbn [andb orb negb].
Ltac zfalse c := replace c with false by (symmetry; first [apply Z.ltb_ge | apply Z.leb_gt | apply Z.eqb_neq]; lia); cbn [andb orb negb].

(* ---------- encode_op_pushdata = shortest push ---------- *)
Lemma bytes1_ok n : 0 <= n < 256 -> bytes1 n = Ok [z2b n].
Proof. intros. unfold bytes1. ztrue (0 <=? n). ztrue (n <? 256). reflexivity. Qed.
Lemma pack_le_ok w n : 0 <= n < 256 ^ Z.of_nat w -> pack_le w n = Ok (le_enc w n).
Proof. intros. unfold pack_le. ztrue (0 <=? n). ztrue (n <? 256 ^ Z.of_nat w). reflexivity. Qed.

Theorem encode_op_pushdata_spec d :
  encode_op_pushdata d = if lenZ d <? 2^32 then Ok (push_enc d) else Err ValueError.
Proof.
  unfold encode_op_pushdata, push_enc. consts. pose proof (lenZ_nonneg d) as P.
  change (2^32) with 4294967296.
  destruct (Z.ltb_spec (lenZ d) 76).
  { ztrue (lenZ d <? 4294967296). rewrite bytes1_ok by lia. reflexivity. }
  destruct (Z.leb_spec (lenZ d) 255).
  { ztrue (lenZ d <? 4294967296). ztrue (lenZ d <? 256). rewrite bytes1_ok by lia. reflexivity. }
  zfalse (lenZ d <? 256).
  destruct (Z.leb_spec (lenZ d) 65535).
  { ztrue (lenZ d <? 4294967296). ztrue (lenZ d <? 65536).
    rewrite pack_le_ok by (change (256 ^ Z.of_nat 2) with 65536; lia). reflexivity. }
  zfalse (lenZ d <? 65536).
  destruct (Z.leb_spec (lenZ d) 4294967295).
  { ztrue (lenZ d <? 4294967296).
    rewrite pack_le_ok by (change (256 ^ Z.of_nat 4) with 4294967296; lia). reflexivity. }
  zfalse (lenZ d <? 4294967296). reflexivity.
Qed.

(* ---------- CScriptOp(n) on a byte value; small integers ---------- *)
Lemma cscriptop_new_byte n : 0 <= n < 256 -> cscriptop_new n = Ok n.
Proof. intros. unfold cscriptop_new. consts. zfalse (n <? 0). ztrue (0 <=? n). ztrue (n <? 256). reflexivity. Qed.
(* a signed byte (struct '<b') lands on the same table entry as the unsigned one *)
Lemma cscriptop_new_signed n : -128 <= n < 128 -> cscriptop_new n = Ok (n mod 256).
Proof.
  intros. unfold cscriptop_new. consts. destruct (Z.ltb_spec n 0).
  - ztrue (0 <=? n + 256). ztrue (n + 256 <? 256). f_equal. lia.
  - ztrue (0 <=? n). ztrue (n <? 256). f_equal. lia.
Qed.
Lemma encode_op_n_spec v : 0 <= v <= 16 -> encode_op_n v = Ok (if v =? 0 then 0 else 0x50 + v).
Proof.
  intros. unfold encode_op_n. consts. ztrue (0 <=? v). ztrue (v <=? 16). cbn [andb negb].
  destruct (Z.eqb_spec v 0); [reflexivity|]. rewrite cscriptop_new_byte by lia. f_equal. lia.
Qed.
Lemma decode_op_n_spec op : 0x51 <= op <= 0x60 -> decode_op_n op = Ok (op - 0x50).
Proof.
  intros. unfold decode_op_n. consts. zfalse (op =? 0). ztrue (81 <=? op). ztrue (op <=? 96).
  cbn [andb orb negb]. f_equal. lia.
Qed.

(* ---------- __coerce_instance ---------- *)
Theorem coerce_spec t : tok_ok t -> coerce_instance t = Ok (tok_enc t).
Proof.
  destruct t as [n|v|b]; cbn [tok_ok coerce_instance tok_enc].
  - intros. apply bytes1_ok. lia.
  - intros Hl. destruct (Z.eqb_spec v 0) as [->|N0]; [reflexivity|].
    destruct (Z.leb_spec 1 v); cbn [andb].
    + ztrue (0 <=? v). destruct (Z.leb_spec v 16); cbn [andb bind].
      * rewrite encode_op_n_spec by lia. zfalse (v =? 0). cbn [bind]. apply bytes1_ok. lia.
      * destruct (Z.eqb_spec v (-1)); [lia|]. rewrite bn2vch_spec.
        ztrue (lenZ (num_enc v) <? 2^32). cbn [bind]. rewrite encode_op_pushdata_spec.
        ztrue (lenZ (num_enc v) <? 2^32). reflexivity.
    + zfalse (0 <=? v). cbn [andb]. destruct (Z.eqb_spec v (-1)) as [->|]; [reflexivity|].
      rewrite bn2vch_spec. ztrue (lenZ (num_enc v) <? 2^32). cbn [bind]. rewrite encode_op_pushdata_spec.
      ztrue (lenZ (num_enc v) <? 2^32). reflexivity.
  - intros. rewrite encode_op_pushdata_spec. ztrue (lenZ b <? 2^32). reflexivity.
Qed.

Theorem build_spec toks : Forall tok_ok toks -> build toks = Ok (toks_enc toks).
Proof.
  induction 1 as [|t r Ht Hr IH]; [reflexivity|].
  cbn [build]. rewrite coerce_spec by assumption. cbn [bind]. rewrite IH. reflexivity.
Qed.

Theorem script_add_spec s t : tok_ok t -> script_add s t = Ok (s ++ tok_enc t).
Proof. intros. unfold script_add. rewrite coerce_spec by assumption. reflexivity. Qed.

Lemma toks_enc_app a b : toks_enc (a ++ b) = toks_enc a ++ toks_enc b.
Proof. unfold toks_enc. now rewrite map_app, concat_app. Qed.
(* CScript(toks) + t = CScript(toks + [t]) *)
Theorem build_add toks t : Forall tok_ok toks -> tok_ok t ->
  build (toks ++ [t]) = (do s <- build toks; script_add s t).
Proof.
  intros Hs Ht. rewrite build_spec by (apply Forall_app; auto). rewrite build_spec by assumption.
  cbn [bind]. rewrite script_add_spec by assumption. rewrite toks_enc_app. unfold toks_enc at 2.
  cbn [map concat]. now rewrite app_nil_r.
Qed.

(* ---------- every built token is one well-formed operation ---------- *)
Definition push_opd (d : bytes) : Z * option bytes :=
  let n := lenZ d in
  (if n <? 0x4c then n else if n <? 0x100 then 0x4c else if n <? 0x10000 then 0x4d else 0x4e, Some d).
Definition tok_opd (t : tok) : Z * option bytes :=
  match t with
  | TOp n => (n, None)
  | TInt v => if v =? 0 then (0, Some [])
              else if (1 <=? v) && (v <=? 16) then (0x50 + v, None)
              else if v =? -1 then (0x4f, None)
              else push_opd (num_enc v)
  | TBytes b => push_opd b
  end.

Lemma push_opd_bytes d : op_bytes (fst (push_opd d)) (snd (push_opd d)) = push_enc d.
Proof.
  unfold push_opd, push_enc, op_bytes. cbn [fst snd]. pose proof (lenZ_nonneg d).
  destruct (Z.ltb_spec (lenZ d) 76).
  { ztrue (lenZ d <? 76). reflexivity. }
  destruct (Z.ltb_spec (lenZ d) 256); [reflexivity|].
  destruct (Z.ltb_spec (lenZ d) 65536); reflexivity.
Qed.
Lemma push_opd_wf d : lenZ d < 2^32 -> op_wf (fst (push_opd d)) (snd (push_opd d)).
Proof.
  intros Hl. unfold push_opd, op_wf. cbn [fst snd]. pose proof (lenZ_nonneg d).
  change (2^8) with 256. change (2^16) with 65536.
  destruct (Z.ltb_spec (lenZ d) 76); [lia|].
  destruct (Z.ltb_spec (lenZ d) 256); [lia|].
  destruct (Z.ltb_spec (lenZ d) 65536); lia.
Qed.

Lemma tok_opd_bytes t : op_bytes (fst (tok_opd t)) (snd (tok_opd t)) = tok_enc t.
Proof.
  destruct t as [n|v|b]; cbn [tok_opd tok_enc]; [reflexivity| |apply push_opd_bytes].
  destruct (v =? 0); [reflexivity|]. destruct ((1 <=? v) && (v <=? 16)); [reflexivity|].
  destruct (v =? -1); [reflexivity|]. apply push_opd_bytes.
Qed.
Lemma tok_opd_wf t : tok_ok t -> op_wf (fst (tok_opd t)) (snd (tok_opd t)).
Proof.
  destruct t as [n|v|b]; cbn [tok_opd tok_ok]; [cbn; lia| |apply push_opd_wf].
  intros Hl. destruct (Z.eqb_spec v 0); [cbn; lia|].
  destruct ((1 <=? v) && (v <=? 16)) eqn:E.
  - apply andb_true_iff in E as [E1 E2]. apply Z.leb_le in E1, E2. cbn [fst snd op_wf]. lia.
  - destruct (Z.eqb_spec v (-1)); [cbn; lia|]. now apply push_opd_wf.
Qed.

Fixpoint ops_of (off : Z) (toks : list tok) : list sop :=
  match toks with
  | [] => []
  | t :: r => mk_sop (fst (tok_opd t)) (snd (tok_opd t)) off :: ops_of (off + lenZ (tok_enc t)) r
  end.
Lemma ops_of_bytes off toks : ops_bytes (ops_of off toks) = toks_enc toks.
Proof.
  revert off; induction toks as [|t r IH]; intros off; [reflexivity|].
  cbn [ops_of]. rewrite ops_bytes_cons, IH. unfold sop_bytes. cbn [sop_opcode sop_data].
  now rewrite tok_opd_bytes.
Qed.
Lemma ops_of_wf off toks : Forall tok_ok toks -> Forall sop_wf (ops_of off toks).
Proof.
  intros H; revert off; induction H as [|t r Ht Hr IH]; intros off; [constructor|].
  cbn [ops_of]. constructor; [|apply IH]. unfold sop_wf. cbn [sop_opcode sop_data]. now apply tok_opd_wf.
Qed.
Lemma ops_of_consecutive off toks : consecutive off (ops_of off toks).
Proof.
  revert off; induction toks as [|t r IH]; intros off; [exact I|].
  cbn [ops_of consecutive sop_idx]. split; [reflexivity|]. unfold sop_bytes. cbn [sop_opcode sop_data].
  rewrite tok_opd_bytes. apply IH.
Qed.

Theorem raw_iter_build toks : Forall tok_ok toks -> raw_iter (toks_enc toks) = (ops_of 0 toks, None).
Proof.
  intros H.
  destruct (raw_iter_complete (ops_of 0 toks) [] (ops_of_wf 0 toks H) (ops_of_consecutive 0 toks)
              (or_introl eq_refl)) as (e & R & E & _).
  rewrite app_nil_r, ops_of_bytes in R. rewrite R, (E eq_refl). reflexivity.
Qed.

(* ---------- cooked iteration ---------- *)
Lemma is_small_int_spec op : is_small_int op = ((0x51 <=? op) && (op <=? 0x60)) || (op =? 0).
Proof. reflexivity. Qed.

(* on a well-formed operation the Python never raises and returns the reference token *)
Lemma cook_ref o : sop_wf o -> cook o = Ok (ref_cook o).
Proof.
  destruct o as [op d i]. unfold sop_wf, cook, ref_cook. cbn [sop_opcode sop_data].
  destruct (Z.eqb_spec op 0) as [->|N0]; [reflexivity|].
  destruct d as [d|]; [reflexivity|]. cbn [op_wf]. intros H.
  rewrite cscriptop_new_byte by lia. cbn [bind]. unfold is_small_int. zfalse (op =? 0). rewrite orb_false_r.
  destruct (Z.leb_spec 0x51 op), (Z.leb_spec op 0x60); cbn [andb];
    try (rewrite cscriptop_new_byte by lia; reflexivity).
  rewrite decode_op_n_spec by lia. reflexivity.
Qed.
Lemma cook_all_ref ops e : Forall sop_wf ops -> cook_all ops e = (map ref_cook ops, e).
Proof.
  induction 1 as [|o r Ho Hr IH]; [reflexivity|].
  cbn [cook_all map]. rewrite cook_ref by assumption. rewrite IH. reflexivity.
Qed.

(* cooked iteration of ANY byte string = the reference *)
Theorem script_iter_ref s : script_iter s = ref_iter s.
Proof.
  unfold script_iter, ref_iter. destruct (raw_iter s) as [ops e] eqn:R.
  destruct (raw_iter_sound _ _ _ R) as (W & _). rewrite <- raw_iter_ref, R. cbn [fst snd].
  now apply cook_all_ref.
Qed.

Lemma ref_cook_tok off t : tok_ok t ->
  ref_cook (mk_sop (fst (tok_opd t)) (snd (tok_opd t)) off) = canon1 t.
Proof.
  destruct t as [n|v|b]; cbn [tok_ok tok_opd canon1]; unfold ref_cook; cbn [sop_opcode sop_data fst snd].
  - intros H. zfalse (n =? 0). reflexivity.
  - intros Hl. destruct (Z.eqb_spec v 0) as [->|N0]; [reflexivity|].
    destruct (Z.leb_spec 1 v), (Z.leb_spec v 16); cbn [andb fst snd].
    + ztrue (0 <=? v). cbn [andb]. zfalse (80 + v =? 0). ztrue (81 <=? 80 + v). ztrue (80 + v <=? 96).
      cbn [andb]. f_equal. lia.
    + ztrue (0 <=? v). cbn [andb]. zfalse (v =? -1).
      pose proof (num_enc_nil_iff v) as Z0. unfold push_opd. cbn [fst snd].
      destruct (num_enc v) as [|x d] eqn:E; [tauto|].
      assert (0 < lenZ (x :: d)) by (lenz; pose proof (lenZ_nonneg d); lia).
      replace ((if lenZ (x :: d) <? 76 then lenZ (x :: d) else if lenZ (x :: d) <? 256 then 76
                else if lenZ (x :: d) <? 65536 then 77 else 78) =? 0) with false; [reflexivity|].
      symmetry. apply Z.eqb_neq. repeat destruct (_ <? _); lia.
    + zfalse (0 <=? v). cbn [andb]. destruct (Z.eqb_spec v (-1)) as [->|]; [reflexivity|].
      pose proof (num_enc_nil_iff v) as Z0. unfold push_opd. cbn [fst snd].
      destruct (num_enc v) as [|x d] eqn:E; [tauto|].
      assert (0 < lenZ (x :: d)) by (lenz; pose proof (lenZ_nonneg d); lia).
      replace ((if lenZ (x :: d) <? 76 then lenZ (x :: d) else if lenZ (x :: d) <? 256 then 76
                else if lenZ (x :: d) <? 65536 then 77 else 78) =? 0) with false; [reflexivity|].
      symmetry. apply Z.eqb_neq. repeat destruct (_ <? _); lia.
    + lia.
  - intros Hl. unfold push_opd. cbn [fst snd]. destruct b as [|x d]; [reflexivity|].
    assert (0 < lenZ (x :: d)) by (lenz; pose proof (lenZ_nonneg d); lia).
    replace ((if lenZ (x :: d) <? 76 then lenZ (x :: d) else if lenZ (x :: d) <? 256 then 76
              else if lenZ (x :: d) <? 65536 then 77 else 78) =? 0) with false; [reflexivity|].
    symmetry. apply Z.eqb_neq. repeat destruct (_ <? _); lia.
Qed.
Lemma map_ref_cook_ops_of off toks : Forall tok_ok toks -> map ref_cook (ops_of off toks) = canon toks.
Proof.
  intros H; revert off; induction H as [|t r Ht Hr IH]; intros off; [reflexivity|].
  cbn [ops_of map canon]. rewrite ref_cook_tok by assumption. f_equal. apply IH.
Qed.

(* iterating a built script returns the canonical token list *)
Theorem iter_build toks : Forall tok_ok toks -> script_iter (toks_enc toks) = (canon toks, None).
Proof.
  intros H. unfold script_iter. rewrite raw_iter_build by assumption. cbn [fst snd].
  rewrite cook_all_ref by (now apply ops_of_wf). now rewrite map_ref_cook_ops_of.
Qed.

(* ---------- rebuilding ---------- *)
Lemma coerce_canon1 t : tok_ok t -> coerce_instance (canon1 t) = Ok (tok_enc t).
Proof.
  destruct t as [n|v|b]; cbn [tok_ok canon1].
  - intros H. destruct (Z.leb_spec 0x51 n), (Z.leb_spec n 0x60); cbn [andb];
      try (apply (coerce_spec (TOp n)); exact H).
    cbn [coerce_instance tok_enc]. ztrue (0 <=? n - 80). ztrue (n - 80 <=? 16). cbn [andb].
    rewrite encode_op_n_spec by lia. zfalse (n - 80 =? 0). cbn [bind]. rewrite bytes1_ok by lia.
    do 3 f_equal. lia.
  - intros Hl. destruct (Z.leb_spec 0 v), (Z.leb_spec v 16); cbn [andb];
      try (apply (coerce_spec (TInt v)); exact Hl).
    + destruct (Z.eqb_spec v (-1)); [lia|]. cbn [coerce_instance tok_enc].
      zfalse (v =? 0). zfalse (v <=? 16). rewrite andb_false_r. zfalse (v =? -1).
      rewrite encode_op_pushdata_spec. ztrue (lenZ (num_enc v) <? 2^32). reflexivity.
    + destruct (Z.eqb_spec v (-1)) as [->|]; [reflexivity|]. cbn [coerce_instance tok_enc].
      zfalse (v =? 0). zfalse (1 <=? v). cbn [andb]. zfalse (v =? -1).
      rewrite encode_op_pushdata_spec. ztrue (lenZ (num_enc v) <? 2^32). reflexivity.
    + lia.
  - intros Hl. destruct b as [|x d]; [reflexivity|]. apply (coerce_spec (TBytes (x :: d))). exact Hl.
Qed.
Theorem build_canon toks : Forall tok_ok toks -> build (canon toks) = Ok (toks_enc toks).
Proof.
  induction 1 as [|t r Ht Hr IH]; [reflexivity|].
  cbn [canon map build]. rewrite coerce_canon1 by assumption. cbn [bind].
  change (map canon1 r) with (canon r). rewrite IH. reflexivity.
Qed.

(* the three clauses together *)
Theorem build_iter_rebuild toks : Forall tok_ok toks ->
  build toks = Ok (toks_enc toks) /\
  script_iter (toks_enc toks) = (canon toks, None) /\
  build (canon toks) = Ok (toks_enc toks).
Proof. intros H. split; [|split]; [now apply build_spec | now apply iter_build | now apply build_canon]. Qed.

(* canon is idempotent: what iteration returns is already in canonical form *)
Lemma canon1_idem t : tok_ok t -> canon1 (canon1 t) = canon1 t.
Proof.
  destruct t as [n|v|b]; cbn [tok_ok canon1].
  - intros H. destruct (Z.leb_spec 0x51 n), (Z.leb_spec n 0x60); cbn [andb canon1].
    + ztrue (0 <=? n - 80). ztrue (n - 80 <=? 16). reflexivity.
    + zfalse (n <=? 96). now rewrite andb_false_r.
    + zfalse (81 <=? n). reflexivity.
    + lia.
  - intros _. destruct (Z.leb_spec 0 v), (Z.leb_spec v 16); cbn [andb canon1].
    + ztrue (0 <=? v). ztrue (v <=? 16). reflexivity.
    + destruct (Z.eqb_spec v (-1)); [lia|]. cbn [canon1].
      pose proof (num_enc_nil_iff v). destruct (num_enc v); [|reflexivity]. assert (v = 0) by tauto. lia.
    + destruct (Z.eqb_spec v (-1)); [reflexivity|]. cbn [canon1].
      pose proof (num_enc_nil_iff v). destruct (num_enc v); [|reflexivity]. assert (v = 0) by tauto. lia.
    + lia.
  - intros _. destruct b; reflexivity.
Qed.

(* the statements of the property, in its own words *)
Theorem iter_of_build toks : Forall tok_ok toks ->
  exists s, build toks = Ok s /\ s = toks_enc toks /\ script_iter s = (canon toks, None).
Proof. intros H. exists (toks_enc toks). split; [now apply build_spec|]. split; [reflexivity | now apply iter_build]. Qed.
Theorem rebuild_same toks : Forall tok_ok toks -> build (canon toks) = build toks.
Proof. intros H. rewrite build_canon, build_spec by assumption. reflexivity. Qed.
(* list(CScript(list(CScript(toks)))) = list(CScript(toks)) *)
Theorem iter_rebuild toks : Forall tok_ok toks ->
  forall s, build (canon toks) = Ok s -> script_iter s = (canon toks, None).
Proof. intros H s E. rewrite build_canon in E by assumption. injection E as <-. now apply iter_build. Qed.
