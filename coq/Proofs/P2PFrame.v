(* Proofs/P2PFrame.v – C18, frame level: MsgSerializable.stream_deserialize on a stream that
   starts with 24 header bytes (magic, 12 command bytes, u32 length, 4 checksum bytes) is
   characterised once (parse_raw); exact consumption / re-framing, the stream theorem, wrong
   magic, checksum mismatch, truncation, a length that cannot be honoured, no over-read and
   unknown commands follow.  H (double SHA-256 in the library) is arbitrary; only
   4 <= |H x| is assumed.  All chains: the magic is a parameter of length 4. *)
From BV Require Import Common.Base Common.Codec Common.Tx Common.P2PMsg Gen.Core Gen.Layouts Gen.P2P
  Spec.Wire Spec.P2P Model.Wire Model.P2P Proofs.Wire Proofs.P2P Proofs.P2PSpec.

(* ---------- ser_read on a functional stream ---------- *)
Lemma max_size_val : MAX_SIZE = 33554432.
Proof. reflexivity. Qed.
Lemma ser_read_s_app n x rest : 0 <= n <= MAX_SIZE -> lenZ x = n -> ser_read_s n (x ++ rest) = (Ok x, rest).
Proof.
  intros Hn Hx. unfold ser_read_s, py_read.
  destruct (Z.gtb_spec n MAX_SIZE); [lia|]. destruct (Z.ltb_spec n 0); [lia|].
  destruct (Z.leb_spec (lenZ (x ++ rest)) n) as [Hl|Hl]; cbn [fst snd].
  - rewrite lenZ_app in Hl. pose proof (lenZ_nonneg rest). assert (rest = []) as -> by (destruct rest; [reflexivity|unfold lenZ in *; simpl length in *; lia]).
    rewrite app_nil_r. destruct (Z.ltb_spec (lenZ x) n); [lia|reflexivity].
  - replace (Z.to_nat n) with (length x) by (unfold lenZ in Hx; lia).
    rewrite firstn_app, firstn_all, Nat.sub_diag, skipn_app, skipn_all, Nat.sub_diag. cbn [firstn skipn app]. rewrite app_nil_r.
    destruct (Z.ltb_spec (lenZ x) n); [lia|reflexivity].
Qed.
Lemma ser_read_s_short n b : 0 <= n <= MAX_SIZE -> lenZ b < n -> ser_read_s n b = (Err Trunc, []).
Proof.
  intros Hn Hb. unfold ser_read_s, py_read.
  destruct (Z.gtb_spec n MAX_SIZE); [lia|]. destruct (Z.ltb_spec n 0); [lia|].
  destruct (Z.leb_spec (lenZ b) n); [|lia]. cbn [fst snd].
  destruct (Z.ltb_spec (lenZ b) n); [reflexivity|lia].
Qed.
Lemma ser_read_s_big n b : MAX_SIZE < n -> ser_read_s n b = (Err SerErr, b).
Proof. intros Hn. unfold ser_read_s. destruct (Z.gtb_spec n MAX_SIZE); [reflexivity|lia]. Qed.
(* whatever happens, ser_read(f, n) with n >= 0 takes at most n bytes off the stream *)
Lemma ser_read_s_spec n b r rest : 0 <= n -> ser_read_s n b = (r, rest) ->
  exists c, b = c ++ rest /\ lenZ c <= n /\ (forall x, r = Ok x -> x = c /\ lenZ c = n).
Proof.
  intros Hn. unfold ser_read_s, py_read. destruct (Z.gtb_spec n MAX_SIZE).
  - intros E. injection E as <- <-. exists []. split; [reflexivity|]. split; [unfold lenZ; simpl; lia|discriminate].
  - destruct (Z.ltb_spec n 0); [lia|]. destruct (Z.leb_spec (lenZ b) n) as [Hl|Hl]; cbn [fst snd].
    + destruct (Z.ltb_spec (lenZ b) n); intros E; injection E as <- <-; exists b; rewrite app_nil_r;
        (split; [reflexivity|]); (split; [exact Hl|]); [discriminate|].
      intros x E. injection E as <-. split; [reflexivity|lia].
    + assert (L : lenZ (firstn (Z.to_nat n) b) <= n) by (unfold lenZ; rewrite firstn_length; lia).
      destruct (Z.ltb_spec (lenZ (firstn (Z.to_nat n) b)) n); intros E; injection E as <- <-;
        exists (firstn (Z.to_nat n) b); (split; [symmetry; apply firstn_skipn|]); (split; [exact L|]).
      * discriminate.
      * intros x E. injection E as <-. split; [reflexivity|lia].
Qed.

(* ---------- header fields ---------- *)
Lemma unpack_len L : 0 <= L < 2^32 -> unpack1 (nth_pf 0 hdr_unpack) (le_enc 4 L) = Ok L.
Proof.
  intros HL. unfold unpack1. change (pf_codec (nth_pf 0 hdr_unpack)) with (le_uint 4).
  pose proof (l_rt _ (le_uint_lawful 4 ltac:(lia)) L []) as R. cbn [le_uint enc norm wf] in R.
  rewrite app_nil_r in R. rewrite R; [reflexivity|]. change (256 ^ Z.of_nat 4) with (2^32). exact HL.
Qed.
Lemma hdr_slices (mg c12 lb ck : bytes) :
  length mg = 4%nat -> length c12 = 12%nat -> length lb = 4%nat -> length ck = 4%nat ->
  let hdr := mg ++ c12 ++ lb ++ ck in
  py_slice 0 hdr_magic_len hdr = mg /\
  py_slice (fst hdr_cmd_slice) (snd hdr_cmd_slice) hdr = c12 /\
  py_slice (fst hdr_len_slice) (snd hdr_len_slice) hdr = lb /\
  py_slice (fst hdr_ck_slice) (snd hdr_ck_slice) hdr = ck /\ lenZ hdr = hdr_size.
Proof.
  intros L1 L2 L3 L4 hdr. subst hdr.
  change hdr_magic_len with 4. change (fst hdr_cmd_slice) with 4. change (snd hdr_cmd_slice) with 16.
  change (fst hdr_len_slice) with 16. change (snd hdr_len_slice) with 20.
  change (fst hdr_ck_slice) with 20. change (snd hdr_ck_slice) with 24. change hdr_size with 24.
  split; [apply py_slice_head; unfold lenZ; rewrite L1; reflexivity|].
  split; [apply py_slice_mid; unfold lenZ; [rewrite L1|rewrite L2]; reflexivity|].
  split.
  { rewrite (app_assoc mg c12). apply py_slice_mid; unfold lenZ; [rewrite app_length, L1, L2|rewrite L3]; reflexivity. }
  split.
  { rewrite (app_assoc mg c12), (app_assoc (mg ++ c12) lb), <- (app_nil_r ck) at 1.
    apply (py_slice_mid ((mg ++ c12) ++ lb) ck []); unfold lenZ; [rewrite !app_length, L1, L2, L3|rewrite L4]; reflexivity. }
  unfold lenZ. rewrite !app_length, L1, L2, L3, L4. reflexivity.
Qed.

Section Frame.
Variable H : bytes -> bytes.
Variable magic : bytes.
Hypothesis magic_len : length magic = 4%nat.
Hypothesis H_len : forall x, (4 <= length (H x))%nat.

Definition dispatch (command body : bytes) : res (option msg) :=
  match lookup command messagemap with
  | Some cls => match payload_dec cls body with Ok m => Ok (Some m) | Err e => Err e end
  | None => Ok None
  end.
Definition ck4 (body : bytes) : bytes := firstn 4 (H body).
Lemma ck4_length body : length (ck4 body) = 4%nat.
Proof. unfold ck4. rewrite firstn_length. specialize (H_len body). lia. Qed.

(* the behaviour of stream_deserialize on any stream of at least 24 bytes *)
Theorem parse_raw mg c12 L ck tail :
  length mg = 4%nat -> length c12 = 12%nat -> length ck = 4%nat -> 0 <= L < 2^32 ->
  parse_frame H magic (mg ++ c12 ++ le_enc 4 L ++ ck ++ tail) =
    if negb (bytes_eqb mg magic) then (Err ValueError, tail)
    else match ser_read_s L tail with
         | (Err e, r) => (Err e, r)
         | (Ok body, r) =>
             if negb (bytes_eqb ck (ck4 body)) then (Err ValueError, r)
             else (dispatch (take_until x00 c12) body, r)
         end.
Proof.
  intros L1 L2 L4 HL.
  assert (L3 : length (le_enc 4 L) = 4%nat) by apply le_enc_length.
  destruct (hdr_slices mg c12 (le_enc 4 L) ck L1 L2 L3 L4) as (S1 & S2 & S3 & S4 & SL).
  set (hdr := mg ++ c12 ++ le_enc 4 L ++ ck) in *.
  replace (mg ++ c12 ++ le_enc 4 L ++ ck ++ tail) with (hdr ++ tail) by (unfold hdr; now rewrite <- !app_assoc).
  unfold parse_frame, parse_frame_gen.
  rewrite (ser_read_s_app hdr_size hdr tail); [|rewrite max_size_val; change hdr_size with 24; lia|exact SL].
  rewrite S1, S2, S3, S4. destruct (negb (bytes_eqb mg magic)); [reflexivity|].
  rewrite (unpack_len L HL).
  destruct (ser_read_s L tail) as [[body|e] r] eqn:R; [|reflexivity].
  destruct (ser_read_s_spec L tail (Ok body) r ltac:(lia) R) as (c & Et & _ & Hc).
  destruct (Hc body eq_refl) as [<- Lb].
  assert (P : py_slice hdr_body_lo (hdr_body_lo + L) (hdr ++ body) = body).
  { rewrite <- (app_nil_r body) at 1. apply (py_slice_mid hdr body []); [exact SL|]. change hdr_body_lo with 24. lia. }
  rewrite P. change hdr_ck_check with (Some 4). cbv iota. change (Z.to_nat 4) with 4%nat. fold (ck4 body).
  destruct (negb (bytes_eqb ck (ck4 body))); [reflexivity|].
  change (split_first hdr_cmd_split c12) with (take_until x00 c12). unfold dispatch.
  destruct (lookup (take_until x00 c12) messagemap); reflexivity.
Qed.
Lemma parse_short b : (length b < 24)%nat -> parse_frame H magic b = (Err Trunc, []).
Proof.
  intros Lb. unfold parse_frame, parse_frame_gen. rewrite ser_read_s_short; [reflexivity| |].
  - rewrite max_size_val. change hdr_size with 24. lia.
  - change hdr_size with 24. unfold lenZ. lia.
Qed.

(* ---------- the frame written by to_bytes has that shape ---------- *)
Lemma bytes_times_zeros n : bytes_times hdr_pad n = zeros (Z.to_nat n).
Proof.
  unfold bytes_times, zeros. change hdr_pad with [x00]. induction (Z.to_nat n) as [|k IH]; [reflexivity|].
  cbn [repeat concat app]. now rewrite IH.
Qed.
Lemma frame_shape cmd body : lenZ cmd <= hdr_cmd_width -> lenZ body < 2^32 ->
  frame_bytes H magic cmd body =
    magic ++ (cmd ++ zeros (12 - length cmd)) ++ le_enc 4 (lenZ body) ++ ck4 body ++ body.
Proof.
  clear magic_len H_len. intros Hc Hb. unfold frame_bytes. rewrite bytes_times_zeros. change hdr_cmd_width with 12 in *.
  replace (Z.to_nat (12 - lenZ cmd)) with (12 - length cmd)%nat by (unfold lenZ in *; lia).
  change (Z.to_nat hdr_ck_len_write) with 4%nat. rewrite <- !app_assoc. reflexivity.
Qed.
Lemma frame_spec cmd body : lenZ cmd <= hdr_cmd_width -> lenZ body < 2^32 ->
  frame_bytes H magic cmd body = spec_frame_of H magic cmd body.
Proof. clear magic_len H_len. intros Hc Hb. rewrite frame_shape by assumption. unfold spec_frame_of, ck4. now rewrite <- !app_assoc. Qed.
Lemma take_until_pad s cmd k : take_until s cmd = cmd -> take_until s (cmd ++ repeat s k) = cmd.
Proof.
  induction cmd as [|x t IH]; cbn [take_until app].
  - intros _. destruct k; [reflexivity|]. cbn [repeat take_until].
    destruct (Byte.eqb s s) eqn:E; [reflexivity|]. rewrite (Byte.byte_dec_lb eq_refl) in E. discriminate.
  - destruct (Byte.eqb x s); [discriminate|]. intros E. injection E as E. now rewrite IH.
Qed.
Lemma padded_length cmd : lenZ cmd <= hdr_cmd_width -> length (cmd ++ zeros (12 - length cmd)) = 12%nat.
Proof. intros Hc. change hdr_cmd_width with 12 in Hc. unfold zeros. rewrite app_length, repeat_length. unfold lenZ in Hc. lia. Qed.

Theorem parse_frame_bytes cmd body rest :
  lenZ cmd <= hdr_cmd_width -> take_until x00 cmd = cmd -> lenZ body <= MAX_SIZE ->
  parse_frame H magic (frame_bytes H magic cmd body ++ rest) = (dispatch cmd body, rest).
Proof.
  intros Hc Hn Hb. pose proof max_size_val as MS. pose proof (lenZ_nonneg body) as B0.
  rewrite frame_shape by (try assumption; rewrite MS in Hb; change (2^32) with 4294967296; lia).
  rewrite <- !app_assoc.
  rewrite (app_assoc cmd). rewrite parse_raw; [|exact magic_len|now apply padded_length|apply ck4_length|rewrite MS in Hb; change (2^32) with 4294967296; lia].
  rewrite bytes_eqb_refl. cbn [negb]. rewrite ser_read_s_app by (try reflexivity; lia).
  rewrite bytes_eqb_refl. cbn [negb]. unfold zeros. now rewrite take_until_pad.
Qed.

(* ---------- exact consumption and re-framing identity, every message type ---------- *)
Definition fits (m : msg) : Prop := lenZ (payload_enc m) <= MAX_SIZE.
Theorem frame_roundtrip m rest : wfm m -> version_high m -> fits m ->
  parse_frame H magic (to_bytes H magic m ++ rest) = (Ok (Some (norm_msg m)), rest) /\
  to_bytes H magic (norm_msg m) = to_bytes H magic m.
Proof.
  intros W Hh Hf. split.
  - unfold to_bytes. rewrite parse_frame_bytes; [|apply command_short|apply command_no_nul|exact Hf].
    unfold dispatch. rewrite command_dispatch, (payload_rt m W Hh). reflexivity.
  - unfold to_bytes. rewrite (payload_norm m W). f_equal. destruct m; reflexivity.
Qed.
(* version 209..70000 (not 10300) with fRelay = True: also exact *)
Theorem frame_roundtrip_version_low v t rest : vtuple_of v = Some t -> wf version_full_c t -> fits (MVersion v) ->
  ver_height_min <= v_version v < ver_relay_min -> v_version v <> ver_quirk_from -> v_relay v = ver_relay_default ->
  parse_frame H magic (to_bytes H magic (MVersion v) ++ rest) = (Ok (Some (norm_msg (MVersion v))), rest).
Proof.
  intros Et Wt Hf Hr Hq Hl. unfold to_bytes. rewrite parse_frame_bytes; [|apply command_short|apply command_no_nul|exact Hf].
  unfold dispatch. rewrite command_dispatch. cbn [class_of payload_enc].
  rewrite (payload_rt_version_low v t Et Wt Hr Hq). cbn [norm_msg]. rewrite <- Hl. destruct v; reflexivity.
Qed.

(* ---------- streams ---------- *)
Fixpoint expect (ms : list msg) : list (option msg * nat) :=
  match ms with
  | [] => []
  | m :: t => (Some (norm_msg m), length (concat (map (to_bytes H magic) t))) :: expect t
  end.
Lemma to_bytes_nonempty m rest : to_bytes H magic m ++ rest <> [].
Proof.
  unfold to_bytes, frame_bytes. destruct magic; [discriminate magic_len|]. discriminate.
Qed.
Lemma parse_stream_step f b : b <> [] ->
  parse_stream H magic (S f) b =
    match parse_frame H magic b with
    | (Err e, rest) => ([], Err e, rest)
    | (Ok m, rest) => let r := parse_stream H magic f rest in ((m, length rest) :: fst (fst r), snd (fst r), snd r)
    end.
Proof. intros NE. destruct b; [congruence|reflexivity]. Qed.
Theorem stream_roundtrip ms : forall fuel, Forall (fun m => wfm m /\ version_high m /\ fits m) ms ->
  (length ms <= fuel)%nat ->
  parse_stream H magic fuel (concat (map (to_bytes H magic) ms)) = (expect ms, Ok tt, []).
Proof.
  induction ms as [|m t IH]; intros fuel F Hf.
  - destruct fuel; reflexivity.
  - inversion F as [|? ? (W & Hh & Hfit) Ft]; subst. destruct fuel as [|f]; [simpl in Hf; lia|].
    cbn [map concat]. rewrite parse_stream_step by apply to_bytes_nonempty.
    destruct (frame_roundtrip m (concat (map (to_bytes H magic) t)) W Hh Hfit) as [R _]. rewrite R.
    rewrite (IH f Ft) by (simpl in Hf; lia). reflexivity.
Qed.

(* ---------- rejection ---------- *)
Theorem wrong_magic h rest : length h = 24%nat -> firstn 4 h <> magic ->
  parse_frame H magic (h ++ rest) = (Err ValueError, rest).
Proof.
  intros Lh NE.
  rewrite <- (firstn_skipn 4 h), <- (firstn_skipn 12 (skipn 4 h)), <- (firstn_skipn 4 (skipn 12 (skipn 4 h))).
  set (mg := firstn 4 h) in *. set (c12 := firstn 12 (skipn 4 h)). set (lb := firstn 4 (skipn 12 (skipn 4 h))).
  set (ck := skipn 4 (skipn 12 (skipn 4 h))).
  assert (L1 : length mg = 4%nat) by (unfold mg; rewrite firstn_length; lia).
  assert (L2 : length c12 = 12%nat) by (unfold c12; rewrite firstn_length, skipn_length; lia).
  assert (L3 : length lb = 4%nat) by (unfold lb; rewrite firstn_length, !skipn_length; lia).
  assert (L4 : length ck = 4%nat) by (unfold ck; rewrite !skipn_length; lia).
  rewrite <- (le_enc_dec lb), L3. rewrite <- !app_assoc.
  rewrite parse_raw; try assumption.
  - destruct (bytes_eqb mg magic) eqn:E; [apply bytes_eqb_eq in E; contradiction|reflexivity].
  - pose proof (le_dec_range lb) as R. rewrite L3 in R. change (256 ^ Z.of_nat 4) with (2^32) in R. exact R.
Qed.
Theorem bad_checksum c12 ck body rest :
  length c12 = 12%nat -> length ck = 4%nat -> lenZ body <= MAX_SIZE -> ck <> ck4 body ->
  parse_frame H magic (magic ++ c12 ++ le_enc 4 (lenZ body) ++ ck ++ body ++ rest) = (Err ValueError, rest).
Proof.
  intros L2 L4 Hb NE. pose proof max_size_val as MS. pose proof (lenZ_nonneg body) as B0.
  rewrite parse_raw; [|exact magic_len|exact L2|exact L4|rewrite MS in Hb; change (2^32) with 4294967296; lia].
  rewrite bytes_eqb_refl. cbn [negb]. rewrite ser_read_s_app by (try reflexivity; lia).
  destruct (bytes_eqb ck (ck4 body)) eqn:E; [apply bytes_eqb_eq in E; contradiction|reflexivity].
Qed.
Theorem unknown_command c12 body rest :
  length c12 = 12%nat -> lenZ body <= MAX_SIZE -> lookup (take_until x00 c12) messagemap = None ->
  parse_frame H magic (magic ++ c12 ++ le_enc 4 (lenZ body) ++ ck4 body ++ body ++ rest) = (Ok None, rest).
Proof.
  intros L2 Hb Hu. pose proof max_size_val as MS. pose proof (lenZ_nonneg body) as B0.
  rewrite parse_raw; [|exact magic_len|exact L2|apply ck4_length|rewrite MS in Hb; change (2^32) with 4294967296; lia].
  rewrite bytes_eqb_refl. cbn [negb]. rewrite ser_read_s_app by (try reflexivity; lia).
  rewrite bytes_eqb_refl. cbn [negb]. unfold dispatch. now rewrite Hu.
Qed.
(* every strict prefix of a frame raises the truncation error *)
Theorem frame_truncated cmd body p q :
  lenZ cmd <= hdr_cmd_width -> lenZ body <= MAX_SIZE -> frame_bytes H magic cmd body = p ++ q -> q <> [] ->
  parse_frame H magic p = (Err Trunc, []).
Proof.
  intros Hc Hb E NE. pose proof max_size_val as MS. pose proof (lenZ_nonneg body) as B0.
  assert (HL : 0 <= lenZ body < 2^32) by (rewrite MS in Hb; change (2^32) with 4294967296; lia).
  rewrite frame_shape in E by (try assumption; lia).
  set (c12 := cmd ++ zeros (12 - length cmd)) in *.
  assert (L2 : length c12 = 12%nat) by now apply padded_length.
  set (hdr := magic ++ c12 ++ le_enc 4 (lenZ body) ++ ck4 body).
  assert (Lh : length hdr = 24%nat) by (unfold hdr; rewrite !app_length, magic_len, L2, le_enc_length, ck4_length; reflexivity).
  replace (magic ++ c12 ++ le_enc 4 (lenZ body) ++ ck4 body ++ body) with (hdr ++ body) in E
    by (unfold hdr; now rewrite <- !app_assoc).
  apply app_eq_app in E as [l [[E1 E2] | [E1 E2]]].
  - destruct l as [|x l].
    + rewrite app_nil_r in E1. subst p. simpl in E2. subst q.
      replace hdr with (hdr ++ []) by apply app_nil_r. unfold hdr. rewrite <- !app_assoc.
      rewrite parse_raw; [|exact magic_len|exact L2|apply ck4_length|exact HL].
      rewrite bytes_eqb_refl. cbn [negb]. rewrite ser_read_s_short; [reflexivity|lia|].
      destruct body; [congruence|]. unfold lenZ. simpl. lia.
    + apply parse_short. apply (f_equal (@length _)) in E1. rewrite app_length, Lh in E1. simpl in E1. lia.
  - subst p. unfold hdr. rewrite <- !app_assoc.
    rewrite parse_raw; [|exact magic_len|exact L2|apply ck4_length|exact HL].
    rewrite bytes_eqb_refl. cbn [negb]. rewrite ser_read_s_short; [reflexivity|lia|].
    rewrite E2, lenZ_app. destruct q; [congruence|]. unfold lenZ. simpl. lia.
Qed.
(* a declared length larger than what is available: error; an over-long declaration is
   refused before anything of the payload is read *)
Theorem length_not_honoured c12 L ck avail :
  length c12 = 12%nat -> length ck = 4%nat -> 0 <= L < 2^32 -> lenZ avail < L ->
  parse_frame H magic (magic ++ c12 ++ le_enc 4 L ++ ck ++ avail) =
    if L >? MAX_SIZE then (Err SerErr, avail) else (Err Trunc, []).
Proof.
  intros L2 L4 HL Ha. rewrite parse_raw; [|exact magic_len|exact L2|exact L4|exact HL].
  rewrite bytes_eqb_refl. cbn [negb]. destruct (Z.gtb_spec L MAX_SIZE).
  - now rewrite ser_read_s_big.
  - rewrite ser_read_s_short; [reflexivity|lia|exact Ha].
Qed.
(* whatever the outcome, at most the declared length is taken off the stream after the header *)
Theorem no_overread mg c12 L ck tail r rest :
  length mg = 4%nat -> length c12 = 12%nat -> length ck = 4%nat -> 0 <= L < 2^32 ->
  parse_frame H magic (mg ++ c12 ++ le_enc 4 L ++ ck ++ tail) = (r, rest) ->
  exists c, tail = c ++ rest /\ lenZ c <= L.
Proof.
  intros L1 L2 L4 HL. rewrite parse_raw by assumption.
  destruct (negb (bytes_eqb mg magic)).
  - intros E. injection E as <- <-. exists []. split; [reflexivity|]. unfold lenZ. simpl. lia.
  - destruct (ser_read_s L tail) as [r1 rest1] eqn:R.
    destruct (ser_read_s_spec L tail r1 rest1 ltac:(lia) R) as (c & Et & Lc & _).
    destruct r1 as [body|e].
    + destruct (negb (bytes_eqb ck (ck4 body))); intros E; injection E as <- <-; exists c; split; assumption.
    + intros E. injection E as <- <-. exists c. split; assumption.
Qed.
End Frame.

(* ---------- the defect repaired by the fix (F14), kept as a witness ---------- *)
(* with the length unpacked as a signed int ("<i", the code before the fix) a verack whose
   length field has its top bit flipped is returned as a message and the rest of the stream
   (here a ping frame) is swallowed; with the format read from the source today it is refused
   with nothing read beyond the header *)
Definition f14_H (_ : bytes) : bytes := [x00; x00; x00; x00].
Definition f14_magic : bytes := [xf9; xbe; xb4; xd9].
Definition f14_stream : bytes :=
  f14_magic ++ (nth 1 commands [] ++ zeros 6) ++ [x00; x00; x00; x80] ++ f14_H [] ++ to_bytes f14_H f14_magic (MPing 7).
Lemma f14_signed_swallows :
  parse_frame_gen f14_H f14_magic (LE I32) f14_stream = (Ok (Some MVerack), []) /\
  parse_frame f14_H f14_magic f14_stream = (Err SerErr, to_bytes f14_H f14_magic (MPing 7)).
Proof. split; vm_compute; reflexivity. Qed.
