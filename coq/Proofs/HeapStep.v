(* Proofs/HeapStep.v – every operation of the C09 alphabet preserves the invariant, writes
   only where [wt] says, keeps immutable objects, and stores only references that are fresh,
   immutable, mentioned by the operation or already held by the written object. *)
From stdpp Require Import gmap.
From BV Require Import Common.Base Common.Tx Model.Heap Proofs.Heap Proofs.HeapCopy.

(* the location whose class/body an operation may change *)
Definition wt (h : heap) (o : op) : loc -> Prop :=
  match o with
  | OSetAttr l _ _ => fun w => w = l
  | OAppend t out _ | OSetItem t out _ _ | ODelItem t out _ =>
      fun w => exists b, body_at h t = Some b /\ tx_seq b out = Some (SList w)
  | _ => nowhere
  end.
(* the locations an operation names *)
Definition mentions (o : op) : list loc :=
  match o with
  | OSetAttr l _ (RObj p) => [l; p]
  | OSetAttr l _ _ | ODelAttr l _ => [l]
  | OAppend t _ x | OSetItem t _ _ x => [t; x]
  | ODelItem t _ _ => [t]
  | ONewOutPoint _ _ | ONewTxIn _ _ | ONewTxOut _ _ | ONewTx _ _ => []
  | OFromOutPoint _ l | OFromTxIn _ l | OFromTxOut _ l | OFromTx _ l => [l]
  | OSerialize l | OGetHash l | OGetTxid l | OPyHash l => [l]
  | OEq a b => [a; b]
  | OSigHash l _ _ _ | OVerify l _ _ _ => [l]
  end.

Lemma wt_mentions h o w : wt h o w -> exists m, In m (mentions o) /\ (w = m \/ In w (refs_at h m)).
Proof.
  assert (L : forall t out, (exists b, body_at h t = Some b /\ tx_seq b out = Some (SList w)) -> In w (refs_at h t)).
  { intros t out (b & B & S). unfold refs_at. rewrite B. destruct b; try discriminate. simpl in *.
    injection S as S. apply in_or_app. destruct out; [right|left]; rewrite S; simpl; auto. }
  destruct o; simpl; try contradiction.
  - intros ->. exists l. split; [destruct v; simpl; auto|auto].
  - intros X. exists t. split; [simpl; auto|right; eauto].
  - intros X. exists t. split; [simpl; auto|right; eauto].
  - intros X. exists t. split; [simpl; auto|right; eauto].
Qed.

Section StepProofs.
Variable ser : aval -> res bytes.
Variable H : bytes -> bytes.
Variable pyh : bytes -> Z.
Variable txid : tx -> res bytes.
Variable fad : bytes -> bytes.
Variable is_wspk : bytes -> bool.
Notation wf := (wf ser H pyh).
Notation step := (step ser H pyh txid fad is_wspk).
Notation run := (run ser H pyh txid fad is_wspk).

Definition new_refs_ok (h : heap) (o : op) (h' : heap) : Prop :=
  forall l o' r, get h' l = Some o' -> ((h_next h <= l)%nat \/ wt h o l) -> In r (refs_body (o_body o')) ->
    (h_next h <= r)%nat \/ mut_at h' r = Some false \/ In r (mentions o) \/ In r (refs_at h l).
Definition good (h : heap) (o : op) (h' : heap) : Prop :=
  wf h' /\ evolves (wt h o) h h' /\ imm_kept h h' /\ new_refs_ok h o h'.

Lemma refs_at_get h l o : get h l = Some o -> refs_at h l = refs_body (o_body o).
Proof. intros E. unfold refs_at, body_at. now rewrite E. Qed.

Lemma good_unchanged h o : wf h -> good h o h.
Proof.
  intros W. split; [exact W|]. split; [apply evolves_refl|]. split; [apply imm_kept_refl|].
  intros l o' r E [L|Wt] Hr.
  - apply (wf_lt ser H pyh h l o' W) in E. lia.
  - right. right. right. now rewrite (refs_at_get h l o' E).
Qed.

Lemma good_made mut h o h' y : wf h -> made ser H pyh mut (h_next h) h h' y -> (forall l, ~ wt h o l) -> good h o h'.
Proof.
  intros W ((W' & N & FC & FR) & X & _) NW. split; [exact W'|]. split; [|split].
  - eapply evolves_weaken; [apply ext_evolves; exact X|]. intros l [].
  - now apply (ext_imm_kept ser H pyh).
  - intros l o' r E [L|Wt] Hr; [|now apply NW in Wt]. destruct mut.
    + left. eapply (FR eq_refl); eauto.
    + right. left. eapply (wf_imm ser H pyh h' W' l o'); eauto.
Qed.

Lemma good_same_cores h o h' : wf h -> wf h' -> same_cores h h' -> (forall l, ~ wt h o l) -> good h o h'.
Proof.
  intros W W' SC NW. destruct (same_cores_evolves h h' SC) as (Ev & K).
  split; [exact W'|]. split; [eapply evolves_weaken; [exact Ev|intros l []]|]. split; [exact K|].
  intros l o' r E [L|Wt] Hr; [|now apply NW in Wt].
  destruct SC as (N & _). apply (wf_lt ser H pyh h' l o' W') in E. lia.
Qed.

(* one assignment into an existing object of a mutable class *)
Lemma good_set_body h op l b o : wf h -> get h l = Some o -> o_mut o = true ->
  (forall r, In r (refs_body b) -> (r < h_next h)%nat /\ (In r (mentions op) \/ In r (refs_body (o_body o)))) ->
  (forall w, wt h op w <-> w = l) ->
  good h op (set_body h l b).
Proof.
  intros W E M R Wt. split; [|split; [|split]].
  - eapply set_body_wf; eauto. intros r Hr. now apply R.
  - eapply evolves_weaken; [apply set_body_evolves|]. intros w ->. now apply Wt.
  - eapply set_body_imm_kept; eauto.
  - intros l' o' r. rewrite (get_set_body h l b o l' E), next_set_body || rewrite (get_set_body h l b o l' E).
    destruct (decide (l' = l)) as [->|N].
    + intros [= <-] _ Hr. simpl in Hr. destruct (R r Hr) as (_ & [Hm|Ho]); [auto|].
      right. right. right. now rewrite (refs_at_get h l o E).
    + intros E' [L|X] Hr.
      * apply (wf_lt ser H pyh h l' o' W) in E'. lia.
      * apply Wt in X. contradiction.
Qed.

Ltac unch W := intros [= <- <-]; apply good_unchanged; exact W.

Lemma old_ref h l o r : wf h -> get h l = Some o -> In r (refs_body (o_body o)) -> (r < h_next h)%nat.
Proof. intros W E Hr. eapply wf_refs; eauto. Qed.

Lemma is_outpoint_lt h p : wf h -> is_outpoint h p = true -> (p < h_next h)%nat.
Proof.
  intros W. unfold is_outpoint. destruct (body_at h p) as [b|] eqn:E; [|discriminate]. intros _. eapply body_at_lt; eauto.
Qed.

(* t.vin = [] / t.vout = []: a fresh list object, then the assignment *)
Lemma good_new_list h op l o ver vi vo w lk (isvin : bool) : wf h -> get h l = Some o -> o_mut o = true ->
  o_body o = BTx ver vi vo w lk -> (forall w0, wt h op w0 <-> w0 = l) ->
  good h op (set_body (fst (alloc h (mk true (BList [])))) l
               (if isvin then BTx ver (SList (h_next h)) vo w lk else BTx ver vi (SList (h_next h)) w lk)).
Proof.
  intros W E M B Wt. set (h1 := fst (alloc h (mk true (BList [])))).
  assert (MD : made ser H pyh true (h_next h) h h1 (h_next h)).
  { apply made_alloc; simpl; try tauto. now apply inv_start. }
  destruct MD as ((W1 & _) & X1 & M1 & _).
  assert (LT : (l < h_next h)%nat) by (eapply wf_lt; eauto).
  assert (E1 : get h1 l = Some o) by (destruct X1 as (_ & G); rewrite G; [exact E|exact LT]).
  assert (N1 : h_next h1 = S (h_next h)) by reflexivity.
  assert (OR : forall r, In r (refs_seq vi ++ refs_seq vo) -> (r < h_next h)%nat).
  { intros r Hr. apply (wf_refs ser H pyh h W l o r E). now rewrite B. }
  set (b := if isvin then BTx ver (SList (h_next h)) vo w lk else BTx ver vi (SList (h_next h)) w lk).
  assert (RB : forall r, In r (refs_body b) -> r = h_next h \/ In r (refs_seq vi ++ refs_seq vo)).
  { intros r. unfold b. destruct isvin; simpl; rewrite ?in_app_iff; simpl; intuition (subst; auto). }
  split; [|split; [|split]].
  - eapply set_body_wf; eauto. intros r Hr. apply RB in Hr as [->|Hr]; [lia|]. apply OR in Hr. lia.
  - eapply evolves_trans; [eapply evolves_weaken; [apply ext_evolves; exact X1|intros ? []]|apply set_body_evolves|].
    intros w0 _ ->. now apply Wt.
  - eapply imm_kept_trans; [apply (ext_imm_kept ser H pyh); eauto|eapply set_body_imm_kept; eauto].
  - intros l' o' r. rewrite (get_set_body h1 l b o l' E1). destruct (decide (l' = l)) as [->|N].
    + intros [= <-] _ Hr. cbn [with_body o_body] in Hr. apply RB in Hr as [->|Hr]; [left; lia|].
      right. right. right. rewrite (refs_at_get h l o E), B. exact Hr.
    + unfold h1. rewrite get_alloc. destruct (decide (l' = h_next h)) as [->|N'].
      * intros [= <-] _ [].
      * intros E' [L|X] Hr; [apply (wf_lt ser H pyh h l' o' W) in E'; lia|apply Wt in X; contradiction].
Qed.

Lemma set_attr_good h l f v h' ob : wf h -> set_attr h l f v = (h', ob) -> good h (OSetAttr l f v) h'.
Proof.
  intros W. unfold set_attr. destruct (get h l) as [o|] eqn:E; [|unch W].
  assert (Wt : forall w, wt h (OSetAttr l f v) w <-> w = l) by (intros w; simpl; tauto).
  assert (OR : forall r, In r (refs_body (o_body o)) -> (r < h_next h)%nat) by (intros r; apply (old_ref h l o r W E)).
  destruct (o_body o) eqn:B; (destruct (o_mut o) eqn:M; cbn [negb]; [|unch W]); try (unch W);
    (destruct (has_field _ f) eqn:HF; cbn [negb]; [|unch W]);
    destruct f; try discriminate HF; destruct v; try (unch W).
  - intros [= <- <-]. eapply good_set_body; eauto. simpl. tauto.
  - intros [= <- <-]. eapply good_set_body; eauto. simpl. tauto.
  - destruct (is_outpoint h l0) eqn:IO; [|unch W]. intros [= <- <-]. eapply good_set_body; eauto.
    intros r [<-|[]]. split; [now apply is_outpoint_lt|]. left. simpl. auto.
  - intros [= <- <-]. eapply good_set_body; eauto. simpl. intros r [<-|[]]. split; [apply OR; simpl; auto|auto].
  - intros [= <- <-]. eapply good_set_body; eauto. simpl. intros r [<-|[]]. split; [apply OR; simpl; auto|auto].
  - intros [= <- <-]. eapply good_set_body; eauto. simpl. tauto.
  - intros [= <- <-]. eapply good_set_body; eauto. simpl. tauto.
  - intros [= <- <-]. eapply good_set_body; eauto. intros r Hr. split; [apply OR; exact Hr|right; exact Hr].
  - intros [= <- <-]. rewrite snd_alloc. apply (good_new_list h _ l o version vin vout wit lock true); auto.
  - intros [= <- <-]. rewrite snd_alloc. apply (good_new_list h _ l o version vin vout wit lock false); auto.
  - intros [= <- <-]. eapply good_set_body; eauto. intros r Hr. split; [apply OR; exact Hr|right; exact Hr].
  - intros [= <- <-]. eapply good_set_body; eauto. intros r Hr. split; [apply OR; exact Hr|right; exact Hr].
Qed.
End StepProofs.
