(* Proofs/HeapStep.v – every operation of the C09 alphabet preserves the invariant, writes
   only where [wt] says, keeps immutable objects, and stores only references that are fresh,
   immutable, mentioned by the operation or already held by the written object. *)
From stdpp Require Import gmap.
From BV Require Import Common.Base Common.Tx Model.Heap Proofs.Heap Proofs.HeapCopy.

(* the location whose class/body an operation may change *)
Definition wt (h : heap) (o : op) : loc -> Prop :=
  match o with
  | OSetAttr l _ _ => fun w => w = l
  | OAppend t out _ | OSetItem t out _ _ | ODelItem t out _ =>
      fun w => exists b, body_at h t = Some b /\ tx_seq b out = Some (SList w)
  | _ => nowhere
  end.
(* the locations an operation names *)
Definition mentions (o : op) : list loc :=
  match o with
  | OSetAttr l _ (RObj p) => [l; p]
  | OSetAttr l _ _ | ODelAttr l _ => [l]
  | OAppend t _ x | OSetItem t _ _ x => [t; x]
  | ODelItem t _ _ => [t]
  | ONewOutPoint _ _ | ONewTxIn _ _ | ONewTxOut _ _ | ONewTx _ _ => []
  | OFromOutPoint _ l | OFromTxIn _ l | OFromTxOut _ l | OFromTx _ l => [l]
  | OSerialize l | OGetHash l | OGetTxid l | OPyHash l => [l]
  | OEq a b => [a; b]
  | OSigHash l _ _ _ | OVerify l _ _ _ => [l]
  end.

Lemma wt_mentions h o w : wt h o w -> exists m, In m (mentions o) /\ (w = m \/ In w (refs_at h m)).
Proof.
  assert (L : forall t out, (exists b, body_at h t = Some b /\ tx_seq b out = Some (SList w)) -> In w (refs_at h t)).
  { intros t out (b & B & S). unfold refs_at. rewrite B. destruct b; try discriminate. simpl in *.
    injection S as S. apply in_or_app. destruct out; [right|left]; rewrite S; simpl; auto. }
  destruct o; simpl; try contradiction.
  - intros ->. exists l. split; [destruct v; simpl; auto|auto].
  - intros X. exists t. split; [simpl; auto|right; eauto].
  - intros X. exists t. split; [simpl; auto|right; eauto].
  - intros X. exists t. split; [simpl; auto|right; eauto].
Qed.

Section StepProofs.
Variable ser : aval -> res bytes.
Variable H : bytes -> bytes.
Variable pyh : bytes -> Z.
Variable txid : tx -> res bytes.
Variable fad : bytes -> bytes.
Variable is_wspk : bytes -> bool.
Notation wf := (wf ser H pyh).
Notation step := (step ser H pyh txid fad is_wspk).
Notation run := (run ser H pyh txid fad is_wspk).

Definition new_refs_ok (h : heap) (o : op) (h' : heap) : Prop :=
  forall l o' r, get h' l = Some o' -> ((h_next h <= l)%nat \/ wt h o l) -> In r (refs_body (o_body o')) ->
    (h_next h <= r)%nat \/ mut_at h' r = Some false \/ In r (mentions o) \/ In r (refs_at h l).
Definition good (h : heap) (o : op) (h' : heap) : Prop :=
  wf h' /\ evolves (wt h o) h h' /\ imm_kept h h' /\ new_refs_ok h o h'.

Lemma refs_at_get h l o : get h l = Some o -> refs_at h l = refs_body (o_body o).
Proof. intros E. unfold refs_at, body_at. now rewrite E. Qed.

Lemma good_unchanged h o : wf h -> good h o h.
Proof.
  intros W. split; [exact W|]. split; [apply evolves_refl|]. split; [apply imm_kept_refl|].
  intros l o' r E [L|Wt] Hr.
  - apply (wf_lt ser H pyh h l o' W) in E. lia.
  - right. right. right. now rewrite (refs_at_get h l o' E).
Qed.

Lemma good_made mut h o h' y : wf h -> made ser H pyh mut (h_next h) h h' y -> (forall l, ~ wt h o l) -> good h o h'.
Proof.
  intros W ((W' & N & FC & FR) & X & _) NW. split; [exact W'|]. split; [|split].
  - eapply evolves_weaken; [apply ext_evolves; exact X|]. intros l [].
  - now apply (ext_imm_kept ser H pyh).
  - intros l o' r E [L|Wt] Hr; [|now apply NW in Wt]. destruct mut.
    + left. eapply (FR eq_refl); eauto.
    + right. left. eapply (wf_imm ser H pyh h' W' l o'); eauto.
Qed.

Lemma good_same_cores h o h' : wf h -> wf h' -> same_cores h h' -> (forall l, ~ wt h o l) -> good h o h'.
Proof.
  intros W W' SC NW. destruct (same_cores_evolves h h' SC) as (Ev & K).
  split; [exact W'|]. split; [eapply evolves_weaken; [exact Ev|intros l []]|]. split; [exact K|].
  intros l o' r E [L|Wt] Hr; [|now apply NW in Wt].
  destruct SC as (N & _). apply (wf_lt ser H pyh h' l o' W') in E. lia.
Qed.

(* one assignment into an existing object of a mutable class *)
Lemma good_set_body h op l b o : wf h -> get h l = Some o -> o_mut o = true ->
  (forall r, In r (refs_body b) -> (r < h_next h)%nat /\ (In r (mentions op) \/ In r (refs_body (o_body o)))) ->
  (forall w, wt h op w <-> w = l) ->
  good h op (set_body h l b).
Proof.
  intros W E M R Wt. split; [|split; [|split]].
  - eapply set_body_wf; eauto. intros r Hr. now apply R.
  - eapply evolves_weaken; [apply set_body_evolves|]. intros w ->. now apply Wt.
  - eapply set_body_imm_kept; eauto.
  - intros l' o' r. rewrite (get_set_body h l b o l' E), next_set_body || rewrite (get_set_body h l b o l' E).
    destruct (decide (l' = l)) as [->|N].
    + intros [= <-] _ Hr. simpl in Hr. destruct (R r Hr) as (_ & [Hm|Ho]); [auto|].
      right. right. right. now rewrite (refs_at_get h l o E).
    + intros E' [L|X] Hr.
      * apply (wf_lt ser H pyh h l' o' W) in E'. lia.
      * apply Wt in X. contradiction.
Qed.

Ltac unch W := intros [= <- <-]; apply good_unchanged; exact W.

Lemma old_ref h l o r : wf h -> get h l = Some o -> In r (refs_body (o_body o)) -> (r < h_next h)%nat.
Proof. intros W E Hr. eapply wf_refs; eauto. Qed.

Lemma is_outpoint_lt h p : wf h -> is_outpoint h p = true -> (p < h_next h)%nat.
Proof.
  intros W. unfold is_outpoint. destruct (body_at h p) as [b|] eqn:E; [|discriminate]. intros _. eapply body_at_lt; eauto.
Qed.

(* t.vin = [] / t.vout = []: a fresh list object, then the assignment *)
Lemma good_new_list h op l o ver vi vo w lk (isvin : bool) : wf h -> get h l = Some o -> o_mut o = true ->
  o_body o = BTx ver vi vo w lk -> (forall w0, wt h op w0 <-> w0 = l) ->
  good h op (set_body (fst (alloc h (mk true (BList [])))) l
               (if isvin then BTx ver (SList (h_next h)) vo w lk else BTx ver vi (SList (h_next h)) w lk)).
Proof.
  intros W E M B Wt. set (h1 := fst (alloc h (mk true (BList [])))).
  assert (MD : made ser H pyh true (h_next h) h h1 (h_next h)).
  { apply made_alloc; simpl; try tauto. now apply inv_start. }
  destruct MD as ((W1 & _) & X1 & M1 & _).
  assert (LT : (l < h_next h)%nat) by (eapply wf_lt; eauto).
  assert (E1 : get h1 l = Some o) by (destruct X1 as (_ & G); rewrite G; [exact E|exact LT]).
  assert (N1 : h_next h1 = S (h_next h)) by reflexivity.
  assert (OR : forall r, In r (refs_seq vi ++ refs_seq vo) -> (r < h_next h)%nat).
  { intros r Hr. apply (wf_refs ser H pyh h W l o r E). now rewrite B. }
  set (b := if isvin then BTx ver (SList (h_next h)) vo w lk else BTx ver vi (SList (h_next h)) w lk).
  assert (RB : forall r, In r (refs_body b) -> r = h_next h \/ In r (refs_seq vi ++ refs_seq vo)).
  { intros r. unfold b. destruct isvin; simpl; rewrite ?in_app_iff; simpl; intuition (subst; auto). }
  split; [|split; [|split]].
  - eapply set_body_wf; eauto. intros r Hr. apply RB in Hr as [->|Hr]; [lia|]. apply OR in Hr. lia.
  - eapply evolves_trans; [eapply evolves_weaken; [apply ext_evolves; exact X1|intros ? []]|apply set_body_evolves|].
    intros w0 _ ->. now apply Wt.
  - eapply imm_kept_trans; [apply (ext_imm_kept ser H pyh); eauto|eapply set_body_imm_kept; eauto].
  - intros l' o' r. rewrite (get_set_body h1 l b o l' E1). destruct (decide (l' = l)) as [->|N].
    + intros [= <-] _ Hr. cbn [with_body o_body] in Hr. apply RB in Hr as [->|Hr]; [left; lia|].
      right. right. right. rewrite (refs_at_get h l o E), B. exact Hr.
    + unfold h1. rewrite get_alloc. destruct (decide (l' = h_next h)) as [->|N'].
      * intros [= <-] _ [].
      * intros E' [L|X] Hr; [apply (wf_lt ser H pyh h l' o' W) in E'; lia|apply Wt in X; contradiction].
Qed.

Lemma set_attr_good h l f v h' ob : wf h -> set_attr h l f v = (h', ob) -> good h (OSetAttr l f v) h'.
Proof.
  intros W. unfold set_attr. destruct (get h l) as [o|] eqn:E; [|unch W].
  assert (Wt : forall w, wt h (OSetAttr l f v) w <-> w = l) by (intros w; simpl; tauto).
  assert (OR : forall r, In r (refs_body (o_body o)) -> (r < h_next h)%nat) by (intros r; apply (old_ref h l o r W E)).
  destruct (o_body o) eqn:B; (destruct (o_mut o) eqn:M; cbn [negb]; [|unch W]); try (unch W);
    (destruct (has_field _ f) eqn:HF; cbn [negb]; [|unch W]);
    destruct f; try discriminate HF; destruct v; try (unch W).
  - intros [= <- <-]. eapply good_set_body; eauto. simpl. tauto.
  - intros [= <- <-]. eapply good_set_body; eauto. simpl. tauto.
  - destruct (is_outpoint h l0) eqn:IO; [|unch W]. intros [= <- <-]. eapply good_set_body; eauto.
    intros r [<-|[]]. split; [now apply is_outpoint_lt|]. left. simpl. auto.
  - intros [= <- <-]. eapply good_set_body; eauto. simpl. intros r [<-|[]]. split; [apply OR; simpl; auto|right; rewrite B; simpl; auto].
  - intros [= <- <-]. eapply good_set_body; eauto. simpl. intros r [<-|[]]. split; [apply OR; simpl; auto|right; rewrite B; simpl; auto].
  - intros [= <- <-]. eapply good_set_body; eauto. simpl. tauto.
  - intros [= <- <-]. eapply good_set_body; eauto. simpl. tauto.
  - intros [= <- <-]. eapply good_set_body; eauto. intros r Hr. split; [apply OR; exact Hr|right; rewrite B; exact Hr].
  - intros [= <- <-]. rewrite ?snd_alloc. apply (good_new_list h _ l o version vin vout wit lock true); auto.
  - intros [= <- <-]. rewrite ?snd_alloc. apply (good_new_list h _ l o version vin vout wit lock false); auto.
  - intros [= <- <-]. eapply good_set_body; eauto. intros r Hr. split; [apply OR; exact Hr|right; rewrite B; exact Hr].
  - intros [= <- <-]. eapply good_set_body; eauto. intros r Hr. split; [apply OR; exact Hr|right; rewrite B; exact Hr].
Qed.

Lemma del_attr_good h l f h' ob : wf h -> del_attr h l f = (h', ob) -> good h (ODelAttr l f) h'.
Proof.
  intros W. unfold del_attr. destruct (get h l) as [o|]; [|unch W].
  destruct (o_body o); try (unch W); (destruct (negb (o_mut o)); [unch W|]); (destruct (negb (has_field _ f)); unch W).
Qed.

Lemma list_set_in {A} (l : list A) k x r : In r (list_set l k x) -> r = x \/ In r l.
Proof.
  revert k. induction l as [|a t IH]; intros k; simpl; [tauto|]. destruct k; simpl.
  - intros [<-|Hr]; auto.
  - intros [<-|Hr]; auto. apply IH in Hr. tauto.
Qed.
Lemma list_del_in {A} (l : list A) k r : In r (list_del l k) -> In r l.
Proof.
  revert k. induction l as [|a t IH]; intros k; simpl; [tauto|]. destruct k; simpl; [auto|].
  intros [<-|Hr]; auto. apply IH in Hr. tauto.
Qed.
Lemma item_ok_lt h out x : wf h -> item_ok h out x = true -> (x < h_next h)%nat.
Proof.
  intros W. unfold item_ok, is_txout, is_txin. destruct out; destruct (body_at h x) as [b|] eqn:E; try discriminate;
    intros _; eapply body_at_lt; eauto.
Qed.

Lemma list_op_good h o t out exn k h' ob : wf h ->
  (forall w, wt h o w <-> exists b, body_at h t = Some b /\ tx_seq b out = Some (SList w)) ->
  (forall items items' r, k items = Ok items' -> In r items' -> In r items \/ (In r (mentions o) /\ (r < h_next h)%nat)) ->
  list_op h t out exn k = (h', ob) -> good h o h'.
Proof.
  intros W Wt K. unfold list_op. destruct (body_at h t) as [b|] eqn:B; [|unch W].
  destruct (tx_seq b out) as [[ls|ll]|] eqn:S; try (unch W).
  destruct (body_at h ll) as [[| | | |items]|] eqn:Bl0; try (unch W).
  assert (exists lo, get h ll = Some lo /\ o_body lo = BList items) as (lo & El & Bl).
  { unfold body_at in Bl0. destruct (get h ll) as [lo|]; [|discriminate]. injection Bl0 as Bl0. eauto. }
  destruct (k items) as [items'|] eqn:Ek; [|unch W]. intros [= <- <-].
  eapply good_set_body; eauto.
  - eapply wf_list; eauto.
  - intros r Hr. simpl in Hr. destruct (K items items' r Ek Hr) as [Hi|(Hm & L)]; [|auto]. split.
    + apply (wf_refs ser H pyh h W ll lo r El). now rewrite Bl.
    + right. now rewrite Bl.
  - intros w. rewrite Wt. split.
    + intros (b' & B' & S'). injection B' as <-. rewrite S in S'. now injection S' as <-.
    + intros ->. eauto.
Qed.

Lemma ret_loc_good mut h o r h' ob : wf h -> (forall l, ~ wt h o l) ->
  (forall h1 y, r = Ok (h1, y) -> made ser H pyh mut (h_next h) h h1 y) ->
  ret_loc h r = (h', ob) -> good h o h'.
Proof.
  intros W NW MD. unfold ret_loc. destruct r as [[h1 y]|e]; [|unch W]. simpl. intros [= <- <-].
  eapply good_made; eauto.
Qed.

Lemma get_hash_good h l h' ob : wf h -> get_hash_step ser H h l = (h', ob) -> good h (OGetHash l) h'.
Proof.
  intros W. unfold get_hash_step. destruct (get h l) as [o|] eqn:E; [|unch W].
  destruct (o_mut o); [unch W|]. destruct (o_ghash o); [unch W|].
  destruct (on_abs h l (v_hash ser H)) as [g|] eqn:V; [|unch W]. intros [= <- <-].
  apply good_same_cores; auto; [now apply set_ghash_wf|apply set_ghash_cores].
Qed.
Lemma py_hash_good h l h' ob : wf h -> py_hash_step ser pyh h l = (h', ob) -> good h (OPyHash l) h'.
Proof.
  intros W. unfold py_hash_step. destruct (get h l) as [o|] eqn:E; [|unch W].
  destruct (o_mut o); [unch W|]. destruct (o_phash o); [unch W|].
  destruct (on_abs h l (v_pyhash ser pyh)) as [g|] eqn:V; [|unch W]. intros [= <- <-].
  apply good_same_cores; auto; [now apply set_phash_wf|apply set_phash_cores].
Qed.

(* ---------- RawSignatureHash: everything it writes is part of its private copy ---------- *)
Section Sep.
Variable n : nat.          (* allocation pointer when the call started *)
Variables h0 h1 : heap.    (* the caller's heap; the heap after CMutableTransaction.from_tx *)

Record sep (hc : heap) : Prop := {
  sep_wf : wf hc;
  sep_n1 : (n <= h_next h1)%nat;
  sep_n2 : (h_next h1 <= h_next hc)%nat;
  sep_old : forall l, (l < n)%nat -> get hc l = get h0 l;
  sep_fresh : fresh_refs n hc;
  sep_mut : forall l m, mut_at h1 l = Some m -> mut_at hc l = Some m }.
Definition tgt (x : loc) : Prop := (n <= x)%nat /\ mut_at h1 x = Some true.
Definition frs (hc : heap) (r : loc) : Prop := (n <= r)%nat /\ (r < h_next hc)%nat.

Lemma sep_write hc x b : sep hc -> tgt x -> (forall r, In r (refs_body b) -> frs hc r) -> sep (set_body hc x b).
Proof.
  intros S (Nx & Mx) R. assert (M := sep_mut hc S x true Mx). apply mut_at_get in M as (o & E & M).
  split.
  - eapply set_body_wf; eauto; [apply S|]. intros r Hr. now apply R.
  - apply S.
  - rewrite next_set_body. apply S.
  - intros l L. rewrite (get_set_body hc x b o l E). destruct (decide (l = x)); [lia|]. now apply S.
  - intros l o' r L. rewrite (get_set_body hc x b o l E). destruct (decide (l = x)) as [->|].
    + intros [= <-] Hr. now apply R.
    + apply (sep_fresh hc S). exact L.
  - intros l m Ml. rewrite set_body_mut_at. now apply S.
Qed.
Lemma sep_alloc hc mut b : sep hc -> (forall r, In r (refs_body b) -> frs hc r) ->
  (mut = false -> forall r, In r (refs_body b) -> mut_at hc r = Some false) -> (forall its, b = BList its -> mut = true) ->
  sep (fst (alloc hc (mk mut b))).
Proof.
  intros S R RI BL. assert (W : wf hc) by apply S. assert (N1 := sep_n1 hc S). assert (N2 := sep_n2 hc S). split.
  - apply alloc_wf; simpl; auto. intros r Hr. now apply R.
  - exact N1.
  - rewrite next_alloc. lia.
  - intros l L. rewrite get_alloc. destruct (decide (l = h_next hc)); [lia|]. now apply S.
  - intros l o' r L. rewrite get_alloc. destruct (decide (l = h_next hc)) as [->|].
    + intros [= <-] Hr. now apply R.
    + apply (sep_fresh hc S). exact L.
  - intros l m Ml. apply (ext_mut_at ser H pyh hc _ l m W (ext_alloc _ _)). now apply S.
Qed.
Lemma frs_mono hc hc' r : frs hc r -> (h_next hc <= h_next hc')%nat -> frs hc' r.
Proof. intros (A & B) L. split; lia. Qed.
Lemma sep_ref_frs hc x o r : sep hc -> (n <= x)%nat -> get hc x = Some o -> In r (refs_body (o_body o)) -> frs hc r.
Proof.
  intros S Nx E Hr. split; [eapply (sep_fresh hc S); eauto|]. eapply (wf_refs ser H pyh hc (sep_wf hc S)); eauto.
Qed.

Lemma sep_upd_txin f hc x : (forall p s q, refs_body (f p s q) = [p]) -> sep hc -> tgt x -> sep (upd_txin f hc x).
Proof.
  intros F S T. unfold upd_txin. destruct (body_at hc x) as [[| p s q| | |]|] eqn:B; auto.
  apply sep_write; auto. rewrite F. intros r [<-|[]].
  unfold body_at in B. destruct (get hc x) as [o|] eqn:E; [|discriminate]. injection B as B.
  eapply (sep_ref_frs hc x o); eauto; [apply T|]. rewrite B. simpl. auto.
Qed.
Lemma next_upd_txin f hc x : h_next (upd_txin f hc x) = h_next hc.
Proof. unfold upd_txin. destruct (body_at hc x) as [[]|]; auto. apply next_set_body. Qed.
Lemma sep_fold_upd f ins : (forall p s q, refs_body (f p s q) = [p]) -> forall hc, sep hc -> Forall tgt ins ->
  sep (fold_left (upd_txin f) ins hc).
Proof.
  intros F. induction ins as [|x r IH]; intros hc S T; simpl; [exact S|].
  inversion T as [|? ? Tx Tr]; subst. apply IH; [|exact Tr]. now apply sep_upd_txin.
Qed.
Lemma next_fold_upd f ins : forall hc, h_next (fold_left (upd_txin f) ins hc) = h_next hc.
Proof. induction ins as [|x r IH]; intros hc; simpl; [reflexivity|]. now rewrite IH, next_upd_txin. Qed.
Lemma sep_zero_seqs ins : forall hc i idx, sep hc -> Forall tgt ins -> sep (zero_seqs hc ins i idx).
Proof.
  induction ins as [|x r IH]; intros hc i idx S T; simpl; [exact S|].
  inversion T as [|? ? Tx Tr]; subst. apply IH; [|exact Tr]. destruct (i =? idx)%nat; [exact S|].
  now apply sep_upd_txin.
Qed.
Lemma next_zero_seqs ins : forall hc i idx, h_next (zero_seqs hc ins i idx) = h_next hc.
Proof.
  induction ins as [|x r IH]; intros hc i idx; simpl; [reflexivity|]. rewrite IH.
  destruct (i =? idx)%nat; [reflexivity|apply next_upd_txin].
Qed.

Lemma sep_upd_tx f hc c : sep hc -> tgt c ->
  (forall ver vi vo w lk r, In r (refs_body (f ver vi vo w lk)) -> In r (refs_seq vi ++ refs_seq vo) \/ frs hc r) ->
  sep (upd_tx f hc c).
Proof.
  intros S T F. unfold upd_tx. destruct (body_at hc c) as [[| | |ver vi vo w lk|]|] eqn:B; auto.
  apply sep_write; auto. intros r Hr. apply F in Hr as [Hr|Hr]; [|exact Hr].
  unfold body_at in B. destruct (get hc c) as [o|] eqn:E; [|discriminate]. injection B as B.
  eapply (sep_ref_frs hc c o); eauto; [apply T|]. now rewrite B.
Qed.
Lemma next_upd_tx f hc c : h_next (upd_tx f hc c) = h_next hc.
Proof. unfold upd_tx. destruct (body_at hc c) as [[]|]; auto. apply next_set_body. Qed.

Lemma sep_set_vout_list hc c items : sep hc -> tgt c -> (forall r, In r items -> frs hc r) -> sep (set_vout_list hc c items).
Proof.
  intros S T R. unfold set_vout_list. rewrite snd_alloc.
  assert (S1 : sep (fst (alloc hc (mk true (BList items))))) by (apply sep_alloc; auto; discriminate).
  apply sep_upd_tx; auto. intros ver vi vo w lk r. simpl. rewrite !in_app_iff. simpl.
  intros [Hr|[<-|[]]]; [auto|]. right. pose proof (sep_n1 hc S). pose proof (sep_n2 hc S). unfold frs. simpl. lia.
Qed.
Lemma sep_set_vin_list hc c items : sep hc -> tgt c -> (forall r, In r items -> frs hc r) -> sep (set_vin_list hc c items).
Proof.
  intros S T R. unfold set_vin_list. rewrite snd_alloc.
  assert (S1 : sep (fst (alloc hc (mk true (BList items))))) by (apply sep_alloc; auto; discriminate).
  apply sep_upd_tx; auto. intros ver vi vo w lk r. simpl. rewrite !in_app_iff. simpl.
  intros [<-|Hr]; [|auto]. right. pose proof (sep_n1 hc S). pose proof (sep_n2 hc S). unfold frs. simpl. lia.
Qed.
Lemma next_set_vout_list hc c items : h_next (set_vout_list hc c items) = S (h_next hc).
Proof. unfold set_vout_list. now rewrite next_upd_tx. Qed.

Lemma sep_blank_outs k : forall hc, sep hc ->
  sep (fst (blank_outs hc k)) /\ (h_next hc <= h_next (fst (blank_outs hc k)))%nat /\
  forall r, In r (snd (blank_outs hc k)) -> frs (fst (blank_outs hc k)) r.
Proof.
  induction k as [|k IH]; intros hc Sp; cbn [blank_outs fst snd].
  - split; [exact Sp|]. split; [lia|]. intros r [].
  - set (h2 := fst (alloc hc (mk false (BTxOut (-1) [])))).
    assert (S2 : sep h2) by (apply sep_alloc; simpl; auto; [tauto|tauto|discriminate]).
    destruct (IH h2 S2) as (S3 & N3 & R3). assert (N2 : h_next h2 = S (h_next hc)) by reflexivity.
    split; [exact S3|]. split; [lia|]. rewrite snd_alloc. intros r [<-|Hr]; [|now apply R3].
    split; [|lia]. pose proof (sep_n1 hc Sp). pose proof (sep_n2 hc Sp). lia.
Qed.
Lemma sep_ext hc : sep hc -> n = h_next h0 -> wf hc /\ ext h0 hc /\ fresh_refs n hc.
Proof.
  intros Sp E. split; [apply (sep_wf hc Sp)|]. split; [|apply (sep_fresh hc Sp)]. split.
  - rewrite <- E. pose proof (sep_n1 hc Sp). pose proof (sep_n2 hc Sp). lia.
  - intros l L. apply (sep_old hc Sp). rewrite E. exact L.
Qed.
End Sep.

Lemma raw_sighash_ok h l script idx ht h' res : wf h -> raw_sighash ser H fad h l script idx ht = (h', res) -> wf h' /\ ext h h' /\ fresh_refs (h_next h) h'.
Proof.
  intros W. assert (U : wf h /\ ext h h /\ fresh_refs (h_next h) h).
  { split; [exact W|]. split; [apply ext_refl|]. intros x o r L E. rewrite (wf_ge_none ser H pyh h x W L) in E. discriminate. }
  unfold raw_sighash.
  destruct (body_at h l) as [[| | |ver0 vi0 vo0 w0 lk0|]|]; try (intros [= <- <-]; exact U).
  destruct (seq_items h vi0) as [li0|]; [|intros [= <- <-]; exact U].
  destruct (length li0 <=? idx)%nat; [intros [= <- <-]; exact U|].
  destruct (from_tx true h l) as [[h1 c]|] eqn:FT; [|intros [= <- <-]; exact U].
  apply (from_tx_ok ser H pyh true (h_next h)) in FT as ((I1 & X1 & Mc & Fc) & _); [|now apply inv_start].
  specialize (Fc eq_refl). destruct I1 as (W1 & N1 & FC1 & FR1). specialize (FR1 eq_refl).
  assert (S1 : sep (h_next h) h h1 h1).
  { split; auto. destruct X1 as (_ & G). exact G. }
  assert (Tc : tgt (h_next h) h1 c) by (split; auto).
  (* every location allocated by the copy is a legitimate target *)
  assert (TG : forall x, (h_next h <= x)%nat -> (x < h_next h1)%nat -> tgt (h_next h) h1 x).
  { intros x L1 L2. split; [exact L1|]. apply (wf_dom ser H pyh h1 W1) in L2 as (o & E). apply mut_at_get. exists o. split; [exact E|]. eapply FC1; eauto. }
  assert (RF : forall x b r, (h_next h <= x)%nat -> body_at h1 x = Some b -> In r (refs_body b) -> frs (h_next h) h1 r).
  { intros x b r L B Hr. unfold body_at in B. destruct (get h1 x) as [o|] eqn:E; [|discriminate]. injection B as <-.
    eapply (sep_ref_frs (h_next h) h h1 h1 x o); eauto. }
  destruct (body_at h1 c) as [[| | |ver [|lv] [|lo] w lk|]|] eqn:Bc; try (intros [= <- <-]; exact U).
  destruct (body_at h1 lv) as [[| | | |ins]|] eqn:Bv; try (intros [= <- <-]; exact U).
  destruct (body_at h1 lo) as [[| | | |outs]|] eqn:Bo; try (intros [= <- <-]; exact U).
  destruct (ins !! idx) as [tin|] eqn:Ti; [|intros [= <- <-]; exact U].
  assert (Flv : frs (h_next h) h1 lv) by (apply (RF c _ lv Fc Bc); simpl; auto).
  assert (Flo : frs (h_next h) h1 lo) by (apply (RF c _ lo Fc Bc); simpl; auto).
  assert (Fins : forall x, In x ins -> frs (h_next h) h1 x) by (intros x Hx; apply (RF lv _ x (proj1 Flv) Bv); exact Hx).
  assert (Fouts : forall x, In x outs -> frs (h_next h) h1 x) by (intros x Hx; apply (RF lo _ x (proj1 Flo) Bo); exact Hx).
  assert (Tins : Forall (tgt (h_next h) h1) ins).
  { apply Forall_forall. intros x Hx. destruct (Fins x Hx). now apply TG. }
  assert (Ttin : tgt (h_next h) h1 tin).
  { apply elem_of_list_lookup_2, elem_of_list_In in Ti. destruct (Fins tin Ti). now apply TG. }
  set (h2 := fold_left (upd_txin (fun p _ q => BTxIn p [] q)) ins h1).
  assert (S2 : sep (h_next h) h h1 h2) by (apply sep_fold_upd; auto).
  assert (N2 : h_next h2 = h_next h1) by apply next_fold_upd.
  set (h3 := upd_txin (fun p _ q => BTxIn p (fad script) q) h2 tin).
  assert (S3 : sep (h_next h) h h1 h3) by (apply sep_upd_txin; auto).
  assert (N3 : h_next h3 = h_next h1) by (unfold h3; now rewrite next_upd_txin).
  set (mode := Z.land ht 31).
  match goal with |- (if snd ?r4 then _ else _) = _ -> _ => set (rr := r4);
    assert (S4 : sep (h_next h) h h1 (fst rr) /\ (h_next h1 <= h_next (fst rr))%nat) end.
  { unfold rr. destruct (mode =? 2).
    - simpl. split.
      + apply sep_zero_seqs; auto. apply sep_set_vout_list; auto. intros x [].
      + rewrite next_zero_seqs, next_set_vout_list. lia.
    - destruct (mode =? 3); [|simpl; split; [exact S3|lia]].
      destruct (outs !! idx) as [tmp|] eqn:To; [|simpl; split; [exact S3|lia]].
      destruct (sep_blank_outs (h_next h) h h1 idx h3 S3) as (Sb & Nb & Rb). simpl. split.
      + apply sep_zero_seqs; auto. apply sep_set_vout_list; auto. intros x Hx. apply in_app_or in Hx as [Hx|[<-|[]]]; [now apply Rb|].
        apply elem_of_list_lookup_2, elem_of_list_In in To. eapply frs_mono; [apply Fouts; exact To|lia].
      + rewrite next_zero_seqs, next_set_vout_list. lia. }
  destruct S4 as (S4 & N4). destruct (snd rr).
  - intros [= <- <-]. apply (sep_ext (h_next h) h h1); auto.
  - set (h5 := if Z.land ht 128 =? 0 then fst rr else set_vin_list (fst rr) c [tin]).
    assert (S5 : sep (h_next h) h h1 h5).
    { unfold h5. destruct (Z.land ht 128 =? 0); [exact S4|]. apply sep_set_vin_list; auto.
      intros x [<-|[]]. eapply frs_mono; [apply Fins|lia]. now apply elem_of_list_lookup_2, elem_of_list_In in Ti. }
    intros E. apply (f_equal fst) in E. cbn [fst] in E. subst h'. apply (sep_ext (h_next h) h h1); [|reflexivity]. apply sep_upd_tx; auto.
Qed.

Lemma good_ext h o h' : wf h -> wf h' -> ext h h' -> fresh_refs (h_next h) h' -> (forall l, ~ wt h o l) -> good h o h'.
Proof.
  intros W W' X FR NW. split; [exact W'|]. split; [|split].
  - eapply evolves_weaken; [apply ext_evolves; exact X|]. intros l [].
  - now apply (ext_imm_kept ser H pyh).
  - intros l o' r E [L|Wt] Hr; [|now apply NW in Wt]. left. eapply FR; eauto.
Qed.

(* ---------- every operation ---------- *)
Theorem step_good h o h' ob : wf h -> step h o = (h', ob) -> good h o h'.
Proof.
  intros W. destruct o; cbn [step].
  - apply set_attr_good; exact W.
  - apply del_attr_good; exact W.
  - destruct (item_ok h out x) eqn:IO; [|unch W]. apply list_op_good; [exact W|simpl; tauto|].
    intros items items' r [= <-] Hr. apply in_app_or in Hr as [Hr|[<-|[]]]; [auto|].
    right. split; [simpl; auto|now apply (item_ok_lt h out)].
  - destruct (item_ok h out x) eqn:IO; [|unch W]. apply list_op_good; [exact W|simpl; tauto|].
    intros items items' r. destruct (py_idx (length items) i) as [k|]; [|discriminate]. simpl. intros [= <-] Hr.
    apply list_set_in in Hr as [->|Hr]; [|auto]. right. split; [simpl; auto|now apply (item_ok_lt h out)].
  - apply list_op_good; [exact W|simpl; tauto|].
    intros items items' r. destruct (py_idx (length items) i) as [k|]; [|discriminate]. simpl. intros [= <-] Hr.
    left. eapply list_del_in; eauto.
  - apply (ret_loc_good mut); [exact W|intros l []|]. intros h1 y E.
    apply (new_outpoint_ok ser H pyh mut (h_next h)) in E as (M & _); [exact M|now apply inv_start].
  - apply (ret_loc_good mut); [exact W|intros l []|]. intros h1 y E.
    apply (new_txin_ok ser H pyh mut (h_next h)) in E as (M & _); [exact M|now apply inv_start].
  - apply (ret_loc_good mut); [exact W|intros l []|]. intros h1 y E.
    apply (new_txout_ok ser H pyh mut (h_next h)) in E as (M & _); [exact M|now apply inv_start].
  - apply (ret_loc_good mut); [exact W|intros l []|]. intros h1 y E.
    apply (new_tx_ok ser H pyh mut (h_next h)) in E as (M & _); [exact M|now apply inv_start].
  - apply (ret_loc_good mut); [exact W|intros l0 []|]. intros h1 y E.
    apply (from_outpoint_ok ser H pyh mut (h_next h)) in E as (M & _); [exact M|now apply inv_start].
  - apply (ret_loc_good mut); [exact W|intros l0 []|]. intros h1 y E.
    apply (from_txin_ok ser H pyh mut (h_next h)) in E as (M & _); [exact M|now apply inv_start].
  - apply (ret_loc_good mut); [exact W|intros l0 []|]. intros h1 y E.
    apply (from_txout_ok ser H pyh mut (h_next h)) in E as (M & _); [exact M|now apply inv_start].
  - apply (ret_loc_good mut); [exact W|intros l0 []|]. intros h1 y E.
    apply (from_tx_ok ser H pyh mut (h_next h)) in E as (M & _); [exact M|now apply inv_start].
  - unch W.
  - apply get_hash_good; exact W.
  - unch W.
  - apply py_hash_good; exact W.
  - unch W.
  - unfold sighash_step. destruct (is_wspk script); [unch W|].
    destruct (raw_sighash ser H fad h l script idx hashtype) as [h2 r] eqn:E. simpl. intros [= <- <-].
    apply raw_sighash_ok in E as (W2 & X2 & F2); [|exact W]. apply good_ext; auto.
  - unfold verify_step.
    destruct (raw_sighash ser H fad h l script idx hashtype) as [h2 r] eqn:E. simpl. intros [= <- <-].
    apply raw_sighash_ok in E as (W2 & X2 & F2); [|exact W]. apply good_ext; auto.
Qed.
End StepProofs.
