(* Proofs/RpcFlocq.v – the float step of the sending path against Flocq's IEEE-754 model.
   Model.rn53 n d (pure integer arithmetic) is the binary64 round-to-nearest-even of the
   real n/d as Flocq defines it (generic rounding in FLT(-1074, 53) with ZnearestE), whenever
   the result is in the normal range; float(a)/COIN of the MODEL is Flocq's
   BinarySingleNaN.Bdiv mode_NE on the binary64 values of a and COIN.
   Imports Reals: Print Assumptions shows the standard axioms of the real numbers. *)
From Coq Require Import ZArith Reals Lia Lra.
From Flocq Require Import Core.Core IEEE754.BinarySingleNaN.
From BV Require Import Common.Base Gen.Rpc Model.Rpc Spec.Rpc Proofs.RpcSend.
Open Scope Z_scope.

Definition fexp64 : Z -> Z := FLT_exp (-1074) 53.
Definition rnd64 (x : R) : R := round radix2 fexp64 ZnearestE x.

Lemma bpow2_IZR e : 0 <= e -> bpow radix2 e = IZR (2 ^ e).
Proof. intros H. symmetry. exact (IZR_Zpower radix2 e H). Qed.

(* ZnearestE of a positive integer quotient, in integer arithmetic *)
Lemma ZnearestE_quot n' d' : 0 < d' -> 0 <= n' ->
  ZnearestE (IZR n' / IZR d') = rne_quot n' d'.
Proof.
  intros Hd Hn. unfold Znearest, rne_quot.
  rewrite (Zfloor_div n' d') by lia.
  pose proof (Z.div_mod n' d' ltac:(lia)) as DM. pose proof (Z.mod_pos_bound n' d' Hd) as RB.
  set (q := n' / d') in *. set (r := n' mod d') in *.
  assert (Hd' : (0 < IZR d')%R) by (apply IZR_lt; exact Hd).
  assert (Hx : (IZR n' / IZR d' - IZR q = IZR r / IZR d')%R).
  { rewrite DM at 1. rewrite plus_IZR, mult_IZR. field. lra. }
  rewrite Hx.
  destruct (Rcompare_spec (IZR r / IZR d') (/ 2)) as [C|C|C].
  - (* below the middle *)
    assert (2 * r < d').
    { apply lt_IZR. rewrite mult_IZR. apply (Rmult_lt_compat_r (IZR d')) in C; [|exact Hd'].
      unfold Rdiv in C. rewrite Rmult_assoc, Rinv_l in C by lra. lra. }
    replace (2 * r >? d') with false by (symmetry; rewrite Z.gtb_ltb; apply Z.ltb_ge; lia).
    replace (2 * r =? d') with false by (symmetry; apply Z.eqb_neq; lia). reflexivity.
  - (* the middle *)
    assert (2 * r = d').
    { apply eq_IZR. rewrite mult_IZR. apply (f_equal (fun t => (t * IZR d')%R)) in C.
      unfold Rdiv in C. rewrite Rmult_assoc, Rinv_l in C by lra. lra. }
    replace (2 * r >? d') with false by (symmetry; rewrite Z.gtb_ltb; apply Z.ltb_ge; lia).
    replace (2 * r =? d') with true by (symmetry; apply Z.eqb_eq; lia). cbn [orb andb].
    rewrite <- Z.negb_even.
    destruct (negb (Z.even q)); [|reflexivity].
    rewrite Zceil_floor_neq; rewrite (Zfloor_div n' d') by lia; fold q; [reflexivity|].
    intros E. rewrite E in Hx. assert (IZR r / IZR d' = 0)%R by lra. rewrite H0 in C. lra.
  - (* above the middle *)
    assert (d' < 2 * r).
    { apply lt_IZR. rewrite mult_IZR. apply (Rmult_lt_compat_r (IZR d')) in C; [|exact Hd'].
      unfold Rdiv in C. rewrite Rmult_assoc, Rinv_l in C by lra. lra. }
    replace (2 * r >? d') with true by (symmetry; rewrite Z.gtb_ltb; apply Z.ltb_lt; lia). cbn [orb].
    rewrite Zceil_floor_neq; rewrite (Zfloor_div n' d') by lia; fold q; [reflexivity|].
    intros E. rewrite E in Hx. assert (IZR r / IZR d' = 0)%R by lra.
    assert (/ 2 < 0)%R by (rewrite <- H0; exact C). lra.
Qed.

(* n / d = (n'/d') * 2^e for the scaled pair *)
Lemma scale2_real n d e n' d' : 0 < d -> scale2 n d e = (n', d') ->
  (IZR n / IZR d = IZR n' / IZR d' * bpow radix2 e)%R.
Proof.
  intros Hd S. unfold scale2 in S. injection S as <- <-.
  assert (Hd' : (0 < IZR d)%R) by (apply IZR_lt; exact Hd).
  destruct (Z_le_gt_dec 0 e) as [He|He].
  - replace (Z.max 0 (- e)) with 0 by lia. replace (Z.max 0 e) with e by lia.
    change (2 ^ 0) with 1. rewrite Z.mul_1_r. rewrite mult_IZR. rewrite <- bpow2_IZR by exact He.
    pose proof (bpow_gt_0 radix2 e). field. split; lra.
  - replace (Z.max 0 (- e)) with (- e) by lia. replace (Z.max 0 e) with 0 by lia.
    change (2 ^ 0) with 1. rewrite Z.mul_1_r. rewrite mult_IZR. rewrite <- bpow2_IZR by lia.
    rewrite bpow_opp. pose proof (bpow_gt_0 radix2 e). field. split; lra.
Qed.

Theorem rn53_is_round n d : 0 < n -> 0 < d ->
  let (m, e) := rn53 n d in - 1074 < e -> rnd64 (IZR n / IZR d) = (IZR m * bpow radix2 e)%R.
Proof.
  intros Hn Hd. destruct (rn53_detail n d Hn Hd) as (e & n' & d' & Es & Pd & Lo & Hi & ->).
  pose proof (scale2_real n d e n' d' Hd Es) as Hx.
  assert (Hd' : (0 < IZR d')%R) by (apply IZR_lt; exact Pd).
  (* 2^52 <= n'/d' < 2^53 as reals *)
  assert (L : (IZR (2 ^ 52) <= IZR n' / IZR d')%R).
  { apply Rmult_le_reg_r with (IZR d'); [exact Hd'|]. unfold Rdiv. rewrite Rmult_assoc, Rinv_l by lra.
    rewrite Rmult_1_r. rewrite <- mult_IZR. apply IZR_le. exact Lo. }
  assert (U : (IZR n' / IZR d' < IZR (2 ^ 53))%R).
  { apply Rmult_lt_reg_r with (IZR d'); [exact Hd'|]. unfold Rdiv. rewrite Rmult_assoc, Rinv_l by lra.
    rewrite Rmult_1_r. rewrite <- mult_IZR. apply IZR_lt. exact Hi. }
  rewrite <- !bpow2_IZR in L, U by lia.
  (* hence the magnitude, the canonical exponent and the scaled mantissa *)
  assert (Hmag : mag radix2 (IZR n / IZR d) = e + 53 :> Z).
  { apply mag_unique_pos. rewrite Hx. replace (e + 53 - 1) with (52 + e) by lia. replace (e + 53) with (53 + e) by lia.
    rewrite !bpow_plus. pose proof (bpow_gt_0 radix2 e). split.
    - apply Rmult_le_compat_r; lra.
    - apply Rmult_lt_compat_r; lra. }
  assert (Hfinal : - 1074 <= e -> rnd64 (IZR n / IZR d) = (IZR (rne_quot n' d') * bpow radix2 e)%R).
  { intros He. unfold rnd64, round, scaled_mantissa, cexp. rewrite Hmag.
    unfold fexp64, FLT_exp. replace (Z.max (e + 53 - 53) (-1074)) with e by lia.
    rewrite Hx. rewrite Rmult_assoc, <- bpow_plus. replace (e + - e) with 0 by lia. simpl (bpow radix2 0).
    rewrite Rmult_1_r. rewrite (ZnearestE_quot n' d' Pd) by nia. unfold F2R. reflexivity. }
  destruct (rne_quot n' d' =? 2 ^ 53) eqn:B.
  - apply Z.eqb_eq in B. intros He. rewrite Hfinal by lia. rewrite B.
    rewrite <- !bpow2_IZR by lia. rewrite <- !bpow_plus. f_equal. lia.
  - intros He. apply Hfinal. lia.
Qed.

(* ---------- binary64 values and Flocq's division ---------- *)
Lemma prec64 : Prec_gt_0 53. Proof. reflexivity. Qed.
Lemma emax64 : Prec_lt_emax 53 1024. Proof. reflexivity. Qed.
Definition b64 : Type := binary_float 53 1024.
(* float(a) for an int a *)
Definition b64_of_Z (a : Z) : b64 := binary_normalize 53 1024 prec64 emax64 mode_NE a 0 false.
Definition b64_div (x y : b64) : b64 := @Bdiv 53 1024 prec64 emax64 mode_NE x y.

Lemma fexp64_spec : SpecFloat.fexp 53 1024 = fexp64.
Proof. reflexivity. Qed.

Lemma b64_of_Z_exact a : 0 <= a < 2 ^ 53 -> B2R (b64_of_Z a) = IZR a.
Proof.
  intros Ha. unfold b64_of_Z.
  pose proof (binary_normalize_correct 53 1024 prec64 emax64 mode_NE a 0 false) as H.
  cbv zeta in H. rewrite fexp64_spec in H.
  assert (Hx : F2R (Float radix2 a 0) = IZR a) by (unfold F2R; simpl; lra).
  rewrite Hx in H.
  assert (Hg : generic_format radix2 fexp64 (IZR a)).
  { apply generic_format_FLT. apply (FLT_spec radix2 (-1074) 53 (IZR a) (Float radix2 a 0)).
    - symmetry. exact Hx.
    - simpl. change (Z.pow_pos 2 53) with (2 ^ 53). lia.
    - simpl. lia. }
  assert (Hr : round radix2 fexp64 (round_mode mode_NE) (IZR a) = IZR a).
  { apply round_generic; [apply valid_rnd_round_mode|exact Hg]. }
  rewrite Hr in H.
  rewrite Rlt_bool_true in H.
  - destruct H as [H _]. exact H.
  - rewrite Rabs_pos_eq by (apply IZR_le; lia).
    apply Rlt_trans with (IZR (2 ^ 53)); [apply IZR_lt; lia|].
    rewrite <- bpow2_IZR by lia. apply bpow_lt. lia.
Qed.

Lemma near_money_exp_lower a m e : 1 <= a -> near a 100000000 m e -> - 100 <= e.
Proof.
  unfold near. intros Ha [[M1 M2] H]. change (2 ^ 53) with 9007199254740992 in M2.
  destruct (Z_le_gt_dec (- 100) e) as [L|G]; [exact L|exfalso].
  replace (Z.max 0 e) with 0 in H by lia. replace (Z.max 0 (- e)) with (- e) in H by lia.
  change (2 ^ 0) with 1 in H.
  assert (2 ^ 100 <= 2 ^ (- e)) by (apply Z.pow_le_mono_r; lia).
  change (2 ^ 100) with 1267650600228229401496703205376 in H0. nia.
Qed.

(* float(a) / COIN of the MODEL is Flocq's binary64 division *)
Theorem float_div_coin_is_Bdiv a : 1 <= a <= MAX_MONEY ->
  let (m, e) := rn53 a RPC_COIN in
  B2R (b64_div (b64_of_Z a) (b64_of_Z RPC_COIN)) = (IZR m * bpow radix2 e)%R.
Proof.
  intros Ha. unfold RPC_COIN.
  assert (Ha53 : 0 <= a < 2 ^ 53).
  { unfold MAX_MONEY, SATOSHI_PER_COIN in Ha. change (2 ^ 53) with 9007199254740992. lia. }
  pose proof (rn53_spec a 100000000 ltac:(lia) ltac:(lia)) as N.
  pose proof (rn53_is_round a 100000000 ltac:(lia) ltac:(lia)) as R.
  destruct (rn53 a 100000000) as [m e].
  pose proof (near_money_exp a m e Ha N) as Hup.
  pose proof (near_money_exp_lower a m e ltac:(lia) N) as Hlo.
  specialize (R ltac:(lia)).
  unfold b64_div.
  pose proof (Bdiv_correct 53 1024 prec64 emax64 mode_NE (b64_of_Z a) (b64_of_Z 100000000)) as H.
  rewrite fexp64_spec in H.
  rewrite (b64_of_Z_exact a Ha53) in H.
  rewrite (b64_of_Z_exact 100000000) in H by (change (2 ^ 53) with 9007199254740992; lia).
  change (round radix2 fexp64 (round_mode mode_NE) (IZR a / IZR 100000000)) with (rnd64 (IZR a / IZR 100000000)) in H.
  rewrite R in H.
  specialize (H ltac:(apply IZR_neq; lia)).
  rewrite Rlt_bool_true in H.
  - destruct H as [H _]. exact H.
  - destruct N as [[M1 M2] _].
    assert (0 < IZR m)%R by (apply IZR_lt; change (2 ^ 52) with 4503599627370496 in M1; lia).
    pose proof (bpow_gt_0 radix2 e).
    rewrite Rabs_pos_eq by (apply Rmult_le_pos; lra).
    apply Rlt_trans with (bpow radix2 53 * bpow radix2 e)%R.
    + apply Rmult_lt_compat_r; [lra|]. rewrite bpow2_IZR by lia. apply IZR_lt. exact M2.
    + rewrite <- bpow_plus. apply bpow_lt. lia.
Qed.

(* reading a decimal back: c * 10^q rounds to the same binary64 iff the MODEL's test says so *)
Definition radix10 : radix := Build_radix 10 eq_refl.
Lemma pow10_IZR k : 0 <= k -> IZR (10 ^ k) = bpow radix10 k.
Proof. intros H. exact (IZR_Zpower radix10 k H). Qed.

Theorem rounds_to_is_round m e c q : - 1074 < e -> rounds_to m e c q = true ->
  rnd64 (IZR c * bpow radix10 q) = (IZR m * bpow radix2 e)%R.
Proof.
  intros He H. unfold rounds_to in H. apply andb_true_iff in H as [Hc H]. apply Z.ltb_lt in Hc.
  destruct (0 <=? q) eqn:Q.
  - apply Z.leb_le in Q.
    pose proof (rn53_is_round (c * 10 ^ q) 1) as R. destruct (rn53 (c * 10 ^ q) 1) as [m' e'].
    apply andb_true_iff in H as [A B]. apply Z.eqb_eq in A, B. subst m' e'.
    assert (0 < 10 ^ q) by (apply Z.pow_pos_nonneg; lia).
    specialize (R ltac:(nia) ltac:(lia) He). rewrite <- R. f_equal.
    rewrite mult_IZR. rewrite (pow10_IZR q Q). field.
  - apply Z.leb_gt in Q.
    pose proof (rn53_is_round c (10 ^ (- q))) as R. destruct (rn53 c (10 ^ (- q))) as [m' e'].
    apply andb_true_iff in H as [A B]. apply Z.eqb_eq in A, B. subst m' e'.
    assert (0 < 10 ^ (- q)) by (apply Z.pow_pos_nonneg; lia).
    specialize (R Hc ltac:(lia) He). rewrite <- R. f_equal.
    rewrite (pow10_IZR (- q)) by lia. rewrite bpow_opp. unfold Rdiv. rewrite Rinv_inv. reflexivity.
Qed.

(* ---------- the sending clause in Flocq's terms ---------- *)
Local Existing Instance prec64.
Local Instance fexp64_valid : Valid_exp fexp64 := FLT_exp_valid (-1074) 53.
Local Instance fexp64_monotone : Monotone_exp fexp64 := FLT_exp_monotone (-1074) 53.

(* a normalised binary64 m * 2^e: anything that rounds to it is within 2^(e-1) *)
Lemma reads_back_half_ulp m e s : 2 ^ 52 <= m < 2 ^ 53 -> - 1074 <= e ->
  rnd64 s = (IZR m * bpow radix2 e)%R -> (Rabs (IZR m * bpow radix2 e - s) <= / 2 * bpow radix2 e)%R.
Proof.
  intros [M1 M2] He Hr.
  pose proof (error_le_half_ulp_round radix2 fexp64 (fun x => negb (Z.even x)) s) as H.
  fold (rnd64 s) in H. rewrite Hr in H.
  set (d := (IZR m * bpow radix2 e)%R) in *.
  pose proof (bpow_gt_0 radix2 e) as Pe.
  assert (Hm0 : (0 < IZR m)%R) by (apply IZR_lt; change (2 ^ 52) with 4503599627370496 in M1; lia).
  assert (Hd0 : (0 < d)%R) by (unfold d; apply Rmult_lt_0_compat; lra).
  assert (Hmag : mag radix2 d = e + 53 :> Z).
  { apply mag_unique_pos. unfold d. replace (e + 53 - 1) with (52 + e) by lia. replace (e + 53) with (53 + e) by lia.
    rewrite !bpow_plus. rewrite !bpow2_IZR by lia. split.
    - apply Rmult_le_compat_r; [lra|]. apply IZR_le. exact M1.
    - apply Rmult_lt_compat_r; [lra|]. apply IZR_lt. exact M2. }
  rewrite ulp_neq_0 in H by lra. unfold cexp in H. rewrite Hmag in H.
  unfold fexp64, FLT_exp in H. replace (Z.max (e + 53 - 53) (-1074)) with e in H by lia. exact H.
Qed.

Theorem send_flocq a : 1 <= a <= MAX_MONEY ->
  let d := B2R (b64_div (b64_of_Z a) (b64_of_Z RPC_COIN)) in
  (* d is the correctly rounded quotient, and the decimal a * 10^-8 reads back as d ... *)
  d = rnd64 (IZR a / IZR RPC_COIN) /\
  rnd64 (IZR a * bpow radix10 (- 8)) = d /\
  (* ... and it is the only decimal with at most 8 places that does *)
  (forall c q, - 8 <= q -> rnd64 (IZR c * bpow radix10 q) = d -> c * 10 ^ (q + 8) = a).
Proof.
  intros Ha. cbv zeta.
  pose proof (float_div_coin_is_Bdiv a Ha) as HB. unfold RPC_COIN in *.
  pose proof (rn53_spec a 100000000 ltac:(lia) ltac:(lia)) as N.
  pose proof (rn53_is_round a 100000000 ltac:(lia) ltac:(lia)) as R.
  destruct (rn53 a 100000000) as [m e].
  pose proof (near_money_exp a m e Ha N) as Hup.
  pose proof (near_money_exp_lower a m e ltac:(lia) N) as Hlo.
  specialize (R ltac:(lia)). rewrite HB. destruct N as [M _].
  assert (Hv : (IZR a * bpow radix10 (- 8) = IZR a / IZR 100000000)%R).
  { change (bpow radix10 (- 8)) with (/ IZR (Z.pow_pos 10 8))%R. change (Z.pow_pos 10 8) with 100000000. reflexivity. }
  split; [symmetry; exact R|]. split; [rewrite Hv; exact R|].
  intros c q Hq Hc.
  pose proof (reads_back_half_ulp m e _ M ltac:(lia) R) as E1.
  pose proof (reads_back_half_ulp m e _ M ltac:(lia) Hc) as E2.
  set (d := (IZR m * bpow radix2 e)%R) in *.
  (* both within 2^(e-1) of d, e <= -28 *)
  assert (Pe : (bpow radix2 e <= bpow radix2 (- 28))%R) by (apply bpow_le; lia).
  assert (P28 : (bpow radix2 (- 28) = / IZR 268435456)%R) by (change (bpow radix2 (- 28)) with (/ IZR (Z.pow_pos 2 28))%R; reflexivity).
  (* scale by 10^8 *)
  assert (Hs : (IZR c * bpow radix10 q = IZR (c * 10 ^ (q + 8)) / IZR 100000000)%R).
  { rewrite mult_IZR, (pow10_IZR (q + 8)) by lia. rewrite bpow_plus. rewrite <- (pow10_IZR 8) by lia.
    change (10 ^ 8) with 100000000. field. }
  rewrite Hs in E2. set (j := c * 10 ^ (q + 8)) in *.
  apply Rabs_le_inv in E1, E2.
  assert (D1 : (IZR j - IZR a < 1)%R) by lra.
  assert (D2 : (IZR a - IZR j < 1)%R) by lra.
  rewrite <- minus_IZR in D1, D2. apply lt_IZR in D1, D2. lia.
Qed.
