(* Proofs/Ecdsa.v – the algebra behind C13 / C14: the modular inverse, consequences of the
   group laws, correctness of textbook ECDSA, of the low-S twin and of public-key recovery
   in EVERY structure satisfying [curve_laws]. *)
From BV Require Import Common.Base Spec.Ecdsa.
From Coq Require Import Znumtheory Zdiv Morphisms Setoid.

(* ---------- extended Euclid ---------- *)
Lemma egcd_bezout a n fuel : forall r0 r1 s0 s1,
  (n | r0 - s0 * a) -> (n | r1 - s1 * a) ->
  (n | fst (egcd fuel r0 r1 s0 s1) - snd (egcd fuel r0 r1 s0 s1) * a).
Proof.
  induction fuel as [|f IH]; intros r0 r1 s0 s1 H0 H1; cbn [egcd]; [exact H0|].
  destruct (Z.eqb_spec r1 0) as [->|NZ]; [exact H0|].
  apply IH; [exact H1|].
  replace (r0 mod r1 - (s0 - r0 / r1 * s1) * a)
    with ((r0 - s0 * a) - (r0 / r1) * (r1 - s1 * a)) by (rewrite (Z.mod_eq r0 r1) by exact NZ; ring).
  apply Z.divide_sub_r; [exact H0|]. apply Z.divide_mul_r. exact H1.
Qed.

Lemma gcd_step r0 r1 : r1 <> 0 -> Z.gcd r1 (r0 mod r1) = Z.gcd r0 r1.
Proof. intros NZ. rewrite Z.gcd_comm, Z.gcd_mod by exact NZ. apply Z.gcd_comm. Qed.

Lemma egcd_gcd k : forall fuel r0 r1 s0 s1, 0 <= r1 < r0 -> r1 < 2 ^ Z.of_nat k -> (2 * k <= fuel)%nat ->
  fst (egcd fuel r0 r1 s0 s1) = Z.gcd r0 r1.
Proof.
  assert (Base : forall fuel r0 s0 s1, 0 <= r0 -> fst (egcd fuel r0 0 s0 s1) = Z.gcd r0 0).
  { intros fuel r0 s0 s1 H. rewrite Z.gcd_0_r, Z.abs_eq by exact H. destruct fuel; reflexivity. }
  induction k as [|k IH]; intros fuel r0 r1 s0 s1 R B F.
  - change (2 ^ Z.of_nat 0) with 1 in B. assert (r1 = 0) as -> by lia. apply Base; lia.
  - destruct (Z.eq_dec r1 0) as [->|NZ]; [apply Base; lia|].
    destruct fuel as [|[|f]]; [lia|lia|].
    cbn [egcd]. destruct (Z.eqb_spec r1 0) as [?|_]; [contradiction|].
    pose proof (Z.mod_pos_bound r0 r1 ltac:(lia)) as R2.
    rewrite <- (gcd_step r0 r1) by exact NZ.
    destruct (Z.eqb_spec (r0 mod r1) 0) as [Z2|NZ2].
    + rewrite Z2. rewrite Z.gcd_0_r, Z.abs_eq by lia. reflexivity.
    + pose proof (Z.mod_pos_bound r1 (r0 mod r1) ltac:(lia)) as R3.
      rewrite <- (gcd_step r1 (r0 mod r1)) by exact NZ2.
      apply IH; [lia| |lia].
      rewrite Nat2Z.inj_succ, Z.pow_succ_r in B by lia.
      set (r2 := r0 mod r1) in *. 
      assert (r1 = r2 * (r1 / r2) + r1 mod r2) by (apply Z.div_mod; lia).
      assert (1 <= r1 / r2) by (apply Z.div_le_lower_bound; lia).
      nia.
Qed.

Lemma log2_fuel n a : 1 < n -> 0 <= a < n -> a < 2 ^ Z.of_nat (Z.to_nat (Z.log2 n) + 1).
Proof.
  intros Hn Ha. rewrite Nat2Z.inj_add, Z2Nat.id by apply Z.log2_nonneg.
  change (Z.of_nat 1) with 1. pose proof (Z.log2_spec n ltac:(lia)). rewrite <- Z.add_1_r in H. lia.
Qed.

(* whenever inv_mod returns a non-zero value it is the inverse *)
Lemma inv_mod_nonzero a n : 1 < n -> inv_mod a n <> 0 -> (a * inv_mod a n) mod n = 1.
Proof.
  intros Hn. unfold inv_mod.
  pose proof (egcd_bezout (a mod n) n (egcd_fuel n) n (a mod n) 0 1) as B.
  destruct (egcd (egcd_fuel n) n (a mod n) 0 1) as [g0 s]. cbn [fst snd] in B.
  destruct (Z.eqb_spec g0 1) as [->|]; [|congruence]. intros _.
  assert (D : (n | 1 - s * (a mod n))).
  { apply B; [exists 1; ring | exists 0; ring]. }
  destruct D as [q D].
  rewrite Z.mul_mod_idemp_r by lia. rewrite <- Z.mul_mod_idemp_l by lia. 
  replace (a mod n * s) with (1 + (- q) * n) by lia.
  rewrite Z.mod_add by lia. apply Z.mod_small. lia.
Qed.
Lemma inv_mod_range a n : 0 < n -> 0 <= inv_mod a n < n.
Proof.
  intros Hn. unfold inv_mod. destruct (egcd _ _ _ _ _) as [g0 s].
  destruct (g0 =? 1); [apply Z.mod_pos_bound; lia|lia].
Qed.
Lemma inv_mod_prime a n : prime n -> a mod n <> 0 -> (a * inv_mod a n) mod n = 1.
Proof.
  intros Pn Ha. pose proof (prime_ge_2 n Pn) as Hn.
  assert (Ra : 1 <= a mod n < n) by (pose proof (Z.mod_pos_bound a n ltac:(lia)); lia).
  unfold inv_mod.
  pose proof (egcd_bezout (a mod n) n (egcd_fuel n) n (a mod n) 0 1) as B.
  pose proof (egcd_gcd (Z.to_nat (Z.log2 n) + 1) (egcd_fuel n) n (a mod n) 0 1 ltac:(lia)
                (log2_fuel n (a mod n) ltac:(lia) ltac:(lia)) ltac:(unfold egcd_fuel; lia)) as Gc.
  destruct (egcd (egcd_fuel n) n (a mod n) 0 1) as [g0 s]. cbn [fst snd] in *.
  assert (g0 = 1) as ->.
  { rewrite Gc, Z.gcd_comm. apply Zgcd_1_rel_prime. apply rel_prime_le_prime; assumption. }
  cbn [Z.eqb Pos.eqb].
  assert (D : (n | 1 - s * (a mod n))) by (apply B; [exists 1; ring | exists 0; ring]).
  destruct D as [q D].
  rewrite Z.mul_mod_idemp_r by lia. rewrite <- Z.mul_mod_idemp_l by lia.
  replace (a mod n * s) with (1 + (- q) * n) by lia.
  rewrite Z.mod_add by lia. apply Z.mod_small. lia.
Qed.
Lemma inv_mod_prime_nonzero a n : prime n -> a mod n <> 0 -> inv_mod a n <> 0.
Proof.
  intros Pn Ha E. pose proof (inv_mod_prime a n Pn Ha) as H. rewrite E, Z.mul_0_r in H.
  pose proof (prime_ge_2 n Pn). rewrite Z.mod_0_l in H by lia. discriminate.
Qed.

(* ---------- consequences of the group laws ---------- *)
Section Laws.
Variable E : curve.
Hypothesis L : curve_laws E.
Notation n := (c_n E).
Notation g := (@c_gen E).
Notation add := (c_add E).
Notation mul := (c_mul E).
Notation zero := (@c_zero E).
Notation opp := (c_opp E).

Lemma n_ge_2 : 2 <= n.
Proof. apply prime_ge_2. apply L. Qed.
Lemma add_0_r P : add P zero = P.
Proof. rewrite (L_add_comm E L). apply (L_add_0_l E L). Qed.
Lemma add_cancel_r P Q R : add P R = add Q R -> P = Q.
Proof.
  intros H. apply (f_equal (fun X => add X (opp R))) in H.
  rewrite <- !(L_add_assoc E L), (L_add_opp E L), !add_0_r in H. exact H.
Qed.
Lemma mul_0 P : mul 0 P = zero.
Proof.
  apply (add_cancel_r _ _ (mul 0 P)). rewrite <- (L_mul_add E L). rewrite (L_add_0_l E L). reflexivity.
Qed.
Lemma mul_zero a : mul a zero = zero.
Proof.
  rewrite <- (L_mul_n E L zero) at 1. rewrite (L_mul_mul E L), Z.mul_comm, <- (L_mul_mul E L).
  apply (L_mul_n E L).
Qed.
Lemma mul_mod a P : mul (a mod n) P = mul a P.
Proof.
  pose proof n_ge_2.
  rewrite (Z.div_mod a n) at 2 by lia. rewrite (L_mul_add E L).
  rewrite Z.mul_comm, <- (L_mul_mul E L), (L_mul_n E L), mul_zero, (L_add_0_l E L). reflexivity.
Qed.
Lemma mul_cong a b P : a mod n = b mod n -> mul a P = mul b P.
Proof. intros H. rewrite <- (mul_mod a), <- (mul_mod b), H. reflexivity. Qed.
Lemma mul_opp a P : mul (- a) P = opp (mul a P).
Proof. unfold c_opp. rewrite (L_mul_mul E L). f_equal; lia. Qed.
Lemma opp_opp P : opp (opp P) = P.
Proof. unfold c_opp. rewrite (L_mul_mul E L). apply (L_mul_1 E L). Qed.
Lemma opp_add P Q : opp (add P Q) = add (opp P) (opp Q).
Proof. apply (L_mul_add_r E L). Qed.
Lemma opp_zero_inv P : opp P = zero -> P = zero.
Proof. intros H. rewrite <- (opp_opp P), H. apply mul_zero. Qed.
Lemma gen_inj a b : mul a g = mul b g -> a mod n = b mod n.
Proof.
  intros H. pose proof n_ge_2.
  assert (D : (n | a - b)).
  { apply (L_gen_order E L). replace (a - b) with (a + - b) by lia.
    rewrite (L_mul_add E L), mul_opp, H. apply (L_add_opp E L). }
  destruct D as [q D]. replace a with (b + q * n) by lia. apply Z.mod_add. lia.
Qed.
Lemma gen_nonzero a : a mod n <> 0 -> mul a g <> zero.
Proof.
  intros H Z0. apply H. pose proof n_ge_2. apply (L_gen_order E L) in Z0 as [q ->]. apply Z.mod_mul. lia.
Qed.
Lemma is_zero_false P : P <> zero -> c_is_zero E P = false.
Proof. intros H. destruct (c_is_zero E P) eqn:Z0; [|reflexivity]. apply (L_is_zero E L) in Z0. contradiction. Qed.
(* a G + b (d G) = (a + b d) G *)
Lemma lin_gen a b d : add (mul a g) (mul b (mul d g)) = mul (a + b * d) g.
Proof. rewrite (L_mul_mul E L), <- (L_mul_add E L). reflexivity. Qed.

Local Notation "a == b" := (eqm n a b) (at level 70).
Local Instance eqm_equiv : Equivalence (eqm n) := eqm_setoid n.
Local Instance add_eqm : Proper (eqm n ==> eqm n ==> eqm n) Z.add := Zplus_eqm n.
Local Instance sub_eqm : Proper (eqm n ==> eqm n ==> eqm n) Z.sub := Zminus_eqm n.
Local Instance mul_eqm : Proper (eqm n ==> eqm n ==> eqm n) Z.mul := Zmult_eqm n.
Local Instance opp_eqm : Proper (eqm n ==> eqm n) Z.opp := Zopp_eqm n.
Lemma eqm_inv a : a mod n <> 0 -> a * inv_mod a n == 1.
Proof.
  intros H. unfold eqm. rewrite (inv_mod_prime a n (L_n_prime E L) H).
  symmetry. apply Z.mod_small. pose proof n_ge_2. lia.
Qed.
Lemma eqm_mod a : a mod n == a.
Proof. apply Zmod_eqm. Qed.

(* ---------- signing then verifying ---------- *)
(* the core of every argument below: for a non-zero nonce k and any s with
   s k = e + r d (mod n), w = s^-1 gives  e w + r w d = k (mod n) *)
Lemma core_cong d e k r s : k mod n <> 0 -> s mod n <> 0 -> s * k == e + r * d ->
  (e * inv_mod s n) mod n + (r * inv_mod s n) mod n * d == k.
Proof.
  intros Hk Hs H. set (w := inv_mod s n).
  assert (W : s * w == 1) by (apply eqm_inv; exact Hs).
  rewrite !eqm_mod.
  transitivity (w * (e + r * d)); [apply (f_equal (fun z => z mod n)); ring|].
  rewrite <- H. transitivity (s * w * k); [apply (f_equal (fun z => z mod n)); ring|].
  rewrite W. apply (f_equal (fun z => z mod n)); ring.
Qed.

Lemma sign_raw_cong d e k : k mod n <> 0 ->
  snd (sign_raw E d e k) * k == e + fst (sign_raw E d e k) * d.
Proof.
  intros Hk. unfold sign_raw. cbn [fst snd]. rewrite eqm_mod.
  set (r := c_x E (mul k g) mod n).
  transitivity (k * inv_mod k n * (e + r * d)); [apply (f_equal (fun z => z mod n)); ring|].
  rewrite (eqm_inv k Hk). apply (f_equal (fun z => z mod n)); ring.
Qed.

Lemma small_mod a : 1 <= a < n -> a mod n <> 0.
Proof. intros H. rewrite Z.mod_small by lia. lia. Qed.
Lemma range_of_mod a : a mod n <> 0 -> 1 <= a mod n < n.
Proof. intros H. pose proof n_ge_2. pose proof (Z.mod_pos_bound a n ltac:(lia)). lia. Qed.

(* verification of (r, s) against Q = d G succeeds as soon as r = x(kG) mod n <> 0 and
   s k = e + r d with s, k invertible *)
Lemma verify_general d e k r s : k mod n <> 0 -> 1 <= r < n -> 1 <= s < n ->
  r = c_x E (mul k g) mod n -> s * k == e + r * d -> verify_ref E (pub E d) e r s = true.
Proof.
  intros Hk Hr Hs Er Hc. unfold verify_ref, pub.
  replace (1 <=? r) with true by (symmetry; apply Z.leb_le; lia).
  replace (r <? n) with true by (symmetry; apply Z.ltb_lt; lia).
  replace (1 <=? s) with true by (symmetry; apply Z.leb_le; lia).
  replace (s <? n) with true by (symmetry; apply Z.ltb_lt; lia).
  cbn [andb]. rewrite lin_gen.
  rewrite (mul_cong _ k g (core_cong d e k r s Hk (small_mod s Hs) Hc)).
  rewrite is_zero_false by (apply gen_nonzero; exact Hk). cbn [negb andb].
  apply Z.eqb_eq. symmetry. exact Er.
Qed.

Theorem verify_sign d e k : valid_nonce E d e k ->
  verify_ref E (pub E d) e (fst (sign_raw E d e k)) (snd (sign_raw E d e k)) = true.
Proof.
  intros (Hk & Hr & Hs). pose proof n_ge_2.
  apply (verify_general d e k); [apply small_mod; exact Hk| | |reflexivity|apply sign_raw_cong, small_mod; exact Hk].
  - unfold sign_raw in *. cbn [fst] in *. pose proof (Z.mod_pos_bound (c_x E (mul k g)) n ltac:(lia)). lia.
  - unfold sign_raw in *. cbn [snd fst] in *.
    pose proof (Z.mod_pos_bound (inv_mod k n * (e + c_x E (mul k g) mod n * d)) n ltac:(lia)). lia.
Qed.

(* ---------- the low-S twin ---------- *)
Lemma inv_neg s : s mod n <> 0 -> inv_mod (n - s) n == - inv_mod s n.
Proof.
  intros Hs. pose proof n_ge_2.
  assert (Hs' : (n - s) mod n <> 0).
  { intros Z0. apply Hs. apply Z.mod_divide in Z0; [|lia]. destruct Z0 as [q Z0].
    replace s with ((1 - q) * n) by lia. apply Z.mod_mul. lia. }
  pose proof (eqm_inv s Hs) as W. pose proof (eqm_inv (n - s) Hs') as W'.
  set (w := inv_mod s n) in *. set (w' := inv_mod (n - s) n) in *.
  assert (W2 : - s * w' == 1).
  { rewrite <- W'. unfold eqm. replace ((n - s) * w') with (- s * w' + w' * n) by ring.
    symmetry. apply Z.mod_add. lia. }
  transitivity (w' * (s * w)); [rewrite W; apply (f_equal (fun z => z mod n)); ring|].
  transitivity (- w * (- s * w')); [apply (f_equal (fun z => z mod n)); ring|].
  rewrite W2. apply (f_equal (fun z => z mod n)); ring.
Qed.

Lemma twin_scalar a s : s mod n <> 0 -> (a * inv_mod (n - s) n) mod n == - ((a * inv_mod s n) mod n).
Proof.
  intros Hs. rewrite !eqm_mod. rewrite (inv_neg s Hs). apply (f_equal (fun z => z mod n)); ring.
Qed.
Lemma twin_point Q e r s : s mod n <> 0 ->
  add (mul ((e * inv_mod (n - s) n) mod n) g) (mul ((r * inv_mod (n - s) n) mod n) Q) =
  opp (add (mul ((e * inv_mod s n) mod n) g) (mul ((r * inv_mod s n) mod n) Q)).
Proof.
  intros Hs. rewrite opp_add, <- !mul_opp.
  f_equal; apply mul_cong; apply twin_scalar; exact Hs.
Qed.

Theorem verify_twin Q e r s : verify_ref E Q e r s = true -> verify_ref E Q e r (n - s) = true.
Proof.
  unfold verify_ref. intros H.
  apply andb_true_iff in H as [H H5]. apply andb_true_iff in H as [H H4].
  apply andb_true_iff in H as [H H3]. apply andb_true_iff in H as [H1 H2].
  apply Z.leb_le in H1, H3. apply Z.ltb_lt in H2, H4.
  replace (1 <=? r) with true by (symmetry; apply Z.leb_le; lia).
  replace (r <? n) with true by (symmetry; apply Z.ltb_lt; lia).
  replace (1 <=? n - s) with true by (symmetry; apply Z.leb_le; lia).
  replace (n - s <? n) with true by (symmetry; apply Z.ltb_lt; lia).
  cbn [andb]. cbv zeta in H5 |- *.
  rewrite (twin_point Q e r s (small_mod s (conj H3 H4))).
  apply andb_true_iff in H5 as [NZ X]. apply negb_true_iff in NZ.
  rewrite (L_x_opp E L), X, andb_true_r. apply negb_true_iff.
  destruct (c_is_zero E (opp _)) eqn:Z0; [|reflexivity].
  apply (L_is_zero E L) in Z0. apply opp_zero_inv in Z0.
  apply (L_is_zero E L) in Z0. congruence.
Qed.

Lemma norm_s_low s : 1 <= s < n -> low_s E (norm_s E s) = true /\ 1 <= norm_s E s < n.
Proof.
  intros H. unfold low_s, norm_s. destruct (Z.gtb_spec s (n / 2)).
  - split; [apply andb_true_iff; split; [apply Z.ltb_lt|apply Z.leb_le]|]; lia.
  - split; [apply andb_true_iff; split; [apply Z.ltb_lt|apply Z.leb_le]|]; lia.
Qed.
(* the signature CECKey.sign returns: (r, norm_s s) *)
Theorem verify_sign_low d e k : valid_nonce E d e k ->
  verify_ref E (pub E d) e (fst (sign_raw E d e k)) (norm_s E (snd (sign_raw E d e k))) = true.
Proof.
  intros V. pose proof (verify_sign d e k V) as H. unfold norm_s.
  destruct (_ >? _); [apply verify_twin|]; exact H.
Qed.

(* ---------- public-key recovery (SEC1 4.1.6) ---------- *)
(* if r = x(kG) mod n and s k = e + r d, then candidate number
   2 * (x(kG) / n) + parity(y(kG)) is the signer's key d G *)
Definition recid_of (R : pt E) : Z := 2 * (c_x E R / n) + (if c_yodd E R then 1 else 0).
Lemma recover_general d e k r s : k mod n <> 0 -> r = c_x E (mul k g) mod n -> r <> 0 ->
  s * k == e + r * d ->
  0 <= recid_of (mul k g) < 4 /\ recover_ref E r s e (recid_of (mul k g)) = Some (pub E d).
Proof.
  intros Hk Er Hr Hc. pose proof n_ge_2 as Hn.
  set (R := mul k g) in *. assert (NZ : R <> zero) by (apply gen_nonzero; exact Hk).
  pose proof (L_x_range E L R NZ) as Xr. pose proof (L_p_bound E L) as Pb.
  assert (Q01 : c_x E R / n = 0 \/ c_x E R / n = 1).
  { assert (0 <= c_x E R / n < 2); [|lia]. split; [apply Z.div_pos; lia|apply Z.div_lt_upper_bound; lia]. }
  unfold recid_of. set (q := c_x E R / n) in *. set (b := if c_yodd E R then 1 else 0).
  assert (Hb : b = 0 \/ b = 1) by (unfold b; destruct (c_yodd E R); auto).
  split; [lia|]. unfold recover_ref.
  assert (D2 : (2 * q + b) / 2 = q) by lia. rewrite D2.
  assert (X : r + q * n = c_x E R) by (rewrite Er; unfold q; rewrite (Z.div_mod (c_x E R) n) at 3 by lia; ring).
  rewrite X. destruct (Z.leb_spec (c_p E) (c_x E R)); [lia|].
  assert (O : Z.odd (2 * q + b) = c_yodd E R).
  { rewrite Z.add_comm, Z.odd_add_mul_2. unfold b. destruct (c_yodd E R); reflexivity. }
  rewrite O, (L_lift E L R NZ).
  assert (Rm : r mod n <> 0) by (rewrite Er, Z.mod_mod by lia; rewrite <- Er; exact Hr).
  pose proof (inv_mod_prime_nonzero r n (L_n_prime E L) Rm) as I0.
  destruct (Z.eqb_spec (inv_mod r n) 0) as [E0|_]; [contradiction|].
  f_equal. unfold pub. fold R. unfold R.
  rewrite (L_mul_mul E L s k), <- (L_mul_add E L), (L_mul_mul E L).
  apply mul_cong. fold (eqm n (inv_mod r n * (s * k + - e)) d).
  rewrite Hc. transitivity (r * inv_mod r n * d); [apply (f_equal (fun z => z mod n)); ring|].
  rewrite (eqm_inv r Rm). apply (f_equal (fun z => z mod n)); ring.
Qed.

Theorem recover_sign d e k : valid_nonce E d e k ->
  0 <= recid_of (mul k g) < 4 /\
  recover_ref E (fst (sign_raw E d e k)) (snd (sign_raw E d e k)) e (recid_of (mul k g)) = Some (pub E d).
Proof.
  intros (Hk & Hr & Hs). apply recover_general; [apply small_mod; exact Hk|reflexivity|exact Hr|].
  apply sign_raw_cong, small_mod; exact Hk.
Qed.
(* the twin (r, n - s) is the signature made with the nonce n - k *)
Theorem recover_sign_twin d e k : valid_nonce E d e k ->
  0 <= recid_of (mul (n - k) g) < 4 /\
  recover_ref E (fst (sign_raw E d e k)) (n - snd (sign_raw E d e k)) e (recid_of (mul (n - k) g)) = Some (pub E d).
Proof.
  intros (Hk & Hr & Hs). pose proof n_ge_2 as Hn.
  assert (Km : k mod n <> 0) by (apply small_mod; exact Hk).
  assert (Km' : (n - k) mod n <> 0) by (apply small_mod; lia).
  assert (P : mul (n - k) g = opp (mul k g)).
  { rewrite <- mul_opp. apply mul_cong. replace (n - k) with (- k + 1 * n) by ring. apply Z.mod_add. lia. }
  apply recover_general; [exact Km'| |exact Hr|].
  - rewrite P, (L_x_opp E L). reflexivity.
  - pose proof (sign_raw_cong d e k Km) as C. rewrite <- C.
    unfold eqm. replace ((n - snd (sign_raw E d e k)) * (n - k))
      with (snd (sign_raw E d e k) * k + (n - snd (sign_raw E d e k) - k) * n) by ring.
    apply Z.mod_add. lia.
Qed.

(* a different digest (mod n) recovers a different key from the same signature *)
Theorem recover_other_digest r s e e' recid Q : recover_ref E r s e recid = Some Q ->
  e mod n <> e' mod n -> recover_ref E r s e' recid <> Some Q.
Proof.
  unfold recover_ref. intros H1 Ne H2. pose proof n_ge_2 as Hn.
  destruct (c_p E <=? _); [discriminate|]. destruct (c_lift E _ _) as [R|]; [|discriminate].
  destruct (Z.eqb_spec (inv_mod r n) 0) as [|I0]; [discriminate|].
  injection H1 as H1. injection H2 as H2. rewrite <- H2 in H1.
  apply (f_equal (mul r)) in H1. rewrite !(L_mul_mul E L) in H1.
  pose proof (inv_mod_nonzero r n ltac:(lia) I0) as I1.
  assert (C1 : (r * inv_mod r n) mod n = 1 mod n) by (rewrite I1; symmetry; apply Z.mod_small; lia).
  rewrite !(mul_cong _ 1 _ C1), !(L_mul_1 E L) in H1.
  rewrite (L_add_comm E L _ (mul (- e) g)), (L_add_comm E L _ (mul (- e') g)) in H1.
  apply add_cancel_r, gen_inj in H1. apply Ne.
  rewrite <- (Z.opp_involutive e), <- (Z.opp_involutive e').
  fold (eqm n (- - e) (- - e')). fold (eqm n (- e) (- e')) in H1. rewrite H1. reflexivity.
Qed.
End Laws.
