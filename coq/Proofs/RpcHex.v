(* Proofs/RpcHex.v – x / b2x / lx / b2lx (Model/Rpc.v) against the reference forms of
   Spec/Rpc.v: all byte strings, all texts. *)
From BV Require Import Common.Base Gen.Rpc Model.Rpc Spec.Rpc.

Lemma list_ind2 {A} (P : list A -> Prop) :
  P [] -> (forall a, P [a]) -> (forall a b l, P l -> P (a :: b :: l)) -> forall l, P l.
Proof.
  intros H0 H1 H2.
  assert (H : forall l, P l /\ forall a, P (a :: l)).
  { induction l as [|x l [IH1 IH2]]; split; auto. }
  intros l. apply H.
Qed.

Lemma nibble_cases v : 0 <= v < 16 ->
  v = 0 \/ v = 1 \/ v = 2 \/ v = 3 \/ v = 4 \/ v = 5 \/ v = 6 \/ v = 7 \/ v = 8 \/ v = 9 \/
  v = 10 \/ v = 11 \/ v = 12 \/ v = 13 \/ v = 14 \/ v = 15.
Proof. lia. Qed.

Lemma hexval_hexdigit v : 0 <= v < 16 -> hexval (hexdigit v) = Some v.
Proof.
  intros H. apply nibble_cases in H.
  repeat (destruct H as [-> | H]; [vm_compute; reflexivity|]). subst. vm_compute. reflexivity.
Qed.
Lemma hexdigit_hexchar v : 0 <= v < 16 -> hexdigit v = hexchar v.
Proof.
  intros H. apply nibble_cases in H.
  repeat (destruct H as [-> | H]; [vm_compute; reflexivity|]). subst. vm_compute. reflexivity.
Qed.

Lemma byte_nibbles c : 0 <= b2z c / 16 < 16 /\ 0 <= b2z c mod 16 < 16 /\ 16 * (b2z c / 16) + b2z c mod 16 = b2z c.
Proof. pose proof (b2z_range c). lia. Qed.

(* model hexlify = reference hex *)
Lemma hexlify_ref b : hexlify b = hex_ref b.
Proof.
  induction b as [|c r IH]; [reflexivity|].
  cbn [hexlify hex_ref flat_map hex_of_byte app]. destruct (byte_nibbles c) as (H1 & H2 & _).
  rewrite !hexdigit_hexchar by assumption. f_equal. f_equal. exact IH.
Qed.

Lemma unhexlify_hexlify b : unhexlify (hexlify b) = Ok b.
Proof.
  induction b as [|c r IH]; [reflexivity|].
  cbn [hexlify unhexlify]. destruct (byte_nibbles c) as (H1 & H2 & H3).
  rewrite !hexval_hexdigit by assumption. rewrite IH. cbn [bind].
  rewrite H3, z2b_b2z. reflexivity.
Qed.

(* ---------- the four helpers ---------- *)
Lemma b2lx_core b : py_b2lx b = core_hash_text b.
Proof. unfold py_b2lx, core_hash_text. apply hexlify_ref. Qed.
Lemma b2x_ref b : py_b2x b = hex_ref b.
Proof. apply hexlify_ref. Qed.

Lemma x_b2x b : py_x (py_b2x b) = Ok b.
Proof. apply unhexlify_hexlify. Qed.
Lemma lx_b2lx b : py_lx (py_b2lx b) = Ok b.
Proof. unfold py_lx, py_b2lx. rewrite unhexlify_hexlify. cbn [bind]. rewrite rev_involutive. reflexivity. Qed.

(* a boolean property of bytes holds for all 256 of them if it holds on the enumeration *)
Lemma byte_forall (P : byte -> bool) :
  forallb P (map (fun n => z2b (Z.of_nat n)) (seq 0 256)) = true -> forall c, P c = true.
Proof.
  intros H c. rewrite forallb_forall in H. apply H. apply in_map_iff.
  exists (Z.to_nat (b2z c)). pose proof (b2z_range c). split.
  - rewrite Z2Nat.id by lia. apply z2b_b2z.
  - apply in_seq. lia.
Qed.

(* per character: a hex digit decodes to a nibble whose lower-case digit is the lowered char *)
Definition hexchar_ok (c : byte) : bool :=
  match hexval c with
  | Some a => is_hexchar c && (0 <=? a) && (a <? 16) && Byte.eqb (hexdigit a) (lower_char c)
  | None => negb (is_hexchar c)
  end.
Lemma hexchar_ok_all c : hexchar_ok c = true.
Proof. apply byte_forall. vm_compute. reflexivity. Qed.

Lemma hexval_lower c : is_hexchar c = true ->
  exists a, hexval c = Some a /\ 0 <= a < 16 /\ hexdigit a = lower_char c.
Proof.
  intros H. pose proof (hexchar_ok_all c) as K. unfold hexchar_ok in K.
  destruct (hexval c) as [a|].
  - exists a. split; [reflexivity|]. apply andb_true_iff in K as [K E]. apply andb_true_iff in K as [K U].
    apply andb_true_iff in K as [_ L]. apply Z.leb_le in L. apply Z.ltb_lt in U.
    apply Byte.byte_dec_bl in E. split; [lia|exact E].
  - rewrite H in K. discriminate K.
Qed.
Lemma hexval_some c a : hexval c = Some a -> is_hexchar c = true.
Proof.
  intros H. pose proof (hexchar_ok_all c) as K. unfold hexchar_ok in K. rewrite H in K.
  apply andb_true_iff in K as [K _]. apply andb_true_iff in K as [K _]. apply andb_true_iff in K as [K _]. exact K.
Qed.

Lemma z2b_pair a b : 0 <= a < 16 -> 0 <= b < 16 ->
  b2z (z2b (16 * a + b)) / 16 = a /\ b2z (z2b (16 * a + b)) mod 16 = b.
Proof. intros Ha Hb. rewrite b2z_z2b. rewrite Z.mod_small by lia. lia. Qed.

Lemma even_SS n : Nat.even (S (S n)) = Nat.even n. Proof. reflexivity. Qed.

Lemma unhexlify_hex_text : forall h, is_hex_text h = true ->
  exists b, unhexlify h = Ok b /\ hexlify b = lower h.
Proof.
  unfold is_hex_text. induction h as [|c|c1 c2 r IH] using list_ind2; intros H.
  - exists []. split; reflexivity.
  - discriminate H.
  - cbn [length] in H. rewrite even_SS in H. cbn [forallb] in H.
    apply andb_true_iff in H as [He H]. apply andb_true_iff in H as [H1 H]. apply andb_true_iff in H as [H2 H].
    destruct IH as (b & Hb & Hl). { rewrite He, H. reflexivity. }
    destruct (hexval_lower c1 H1) as (a1 & E1 & R1 & L1).
    destruct (hexval_lower c2 H2) as (a2 & E2 & R2 & L2).
    exists (z2b (16 * a1 + a2) :: b). cbn [unhexlify]. rewrite E1, E2, Hb. cbn [bind]. split; [reflexivity|].
    cbn [hexlify lower map]. destruct (z2b_pair a1 a2 R1 R2) as [P1 P2]. rewrite P1, P2, L1, L2.
    f_equal. f_equal. exact Hl.
Qed.

(* b2lx (lx h) = lower-case h, for every even-length hex text *)
Lemma b2lx_lx h : is_hex_text h = true -> exists b, py_lx h = Ok b /\ py_b2lx b = lower h.
Proof.
  intros H. destruct (unhexlify_hex_text h H) as (b & Hb & Hl).
  exists (rev b). unfold py_lx, py_b2lx. rewrite Hb. cbn [bind]. rewrite rev_involutive. split; [reflexivity|exact Hl].
Qed.
Lemma b2x_x h : is_hex_text h = true -> exists b, py_x h = Ok b /\ py_b2x b = lower h.
Proof. apply unhexlify_hex_text. Qed.

(* totality: any other text raises binascii.Error (ValueError), nothing else *)
Lemma unhexlify_total : forall h,
  (exists b, unhexlify h = Ok b /\ is_hex_text h = true) \/ (unhexlify h = Err ValueError /\ is_hex_text h = false).
Proof.
  unfold is_hex_text. induction h as [|c|c1 c2 r IH] using list_ind2.
  - left. exists []. split; reflexivity.
  - right. split; reflexivity.
  - cbn [unhexlify length forallb]. rewrite even_SS.
    destruct (hexval c1) as [a1|] eqn:E1.
    + destruct (hexval c2) as [a2|] eqn:E2.
      * rewrite (hexval_some _ _ E1), (hexval_some _ _ E2). cbn [andb].
        destruct IH as [(b & Hb & Ht) | (Hb & Ht)]; rewrite Hb, Ht; cbn [bind].
        -- left. eexists. split; reflexivity.
        -- right. split; reflexivity.
      * right. split; [reflexivity|].
        assert (is_hexchar c2 = false).
        { destruct (is_hexchar c2) eqn:X; [|reflexivity]. destruct (hexval_lower c2 X) as (a & Ea & _). congruence. }
        rewrite H. destruct (Nat.even (length r)), (is_hexchar c1); reflexivity.
    + right. split; [reflexivity|].
      assert (is_hexchar c1 = false).
      { destruct (is_hexchar c1) eqn:X; [|reflexivity]. destruct (hexval_lower c1 X) as (a & Ea & _). congruence. }
      rewrite H. destruct (Nat.even (length r)); reflexivity.
Qed.

Lemma lx_total h :
  (exists b, py_lx h = Ok b /\ is_hex_text h = true) \/ (py_lx h = Err ValueError /\ is_hex_text h = false).
Proof.
  unfold py_lx. destruct (unhexlify_total h) as [(b & Hb & Ht) | (Hb & Ht)]; rewrite Hb; cbn [bind].
  - left. eexists. split; [reflexivity|exact Ht].
  - right. split; [reflexivity|exact Ht].
Qed.

Lemma hexlify_length b : length (hexlify b) = (2 * length b)%nat.
Proof. induction b as [|c r IH]; [reflexivity|]. cbn [hexlify length]. rewrite IH. lia. Qed.

(* the text b2lx produces is itself lower-case hex: it can be handed back unchanged *)
Lemma hexlify_is_hex b : is_hex_text (hexlify b) = true /\ lower (hexlify b) = hexlify b.
Proof.
  destruct (unhexlify_total (hexlify b)) as [(b' & Hb & Ht) | (Hb & Ht)].
  - split; [exact Ht|]. destruct (unhexlify_hex_text _ Ht) as (b2 & H2 & L2).
    rewrite unhexlify_hexlify in H2. injection H2 as <-. symmetry. exact L2.
  - rewrite unhexlify_hexlify in Hb. discriminate Hb.
Qed.
