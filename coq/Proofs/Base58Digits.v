(* Proofs/Base58Digits.v – uniqueness of positional expansions in any base b >= 2
   (pilot digits.v, restated for the definitions of Spec/Base58.v), the most-significant-
   first view, and leading-zero bookkeeping.  Used for bases 16, 58 and 256. *)
From BV Require Import Common.Base Spec.Base58.

Section Digits.
Variable b : Z.
Hypothesis Hb : 2 <= b.

Definition in_range (ds : list Z) : Prop := Forall (fun d => 0 <= d < b) ds.
(* canonical LSB-first numerals: digits in range, most significant (last) one non-zero *)
Definition canon (ds : list Z) : Prop := in_range ds /\ (ds <> [] -> last ds 0 <> 0).

Lemma to_lsb_from fuel : forall n, 0 <= n -> n < 2 ^ Z.of_nat fuel ->
  from_lsb b (to_lsb b fuel n) = n.
Proof.
  induction fuel as [|f IH]; intros n H0 H1.
  - change (2 ^ Z.of_nat 0) with 1 in H1. assert (n = 0) by lia. subst. reflexivity.
  - cbn [to_lsb]. destruct (Z.leb_spec n 0); [cbn [from_lsb]; lia|].
    cbn [from_lsb]. rewrite IH.
    + pose proof (Z.div_mod n b). lia.
    + apply Z.div_pos; lia.
    + rewrite Nat2Z.inj_succ, Z.pow_succ_r in H1 by lia.
      apply Z.div_lt_upper_bound; [lia|].
      assert (0 < 2 ^ Z.of_nat f) by (apply Z.pow_pos_nonneg; lia). nia.
Qed.

Lemma fuel_ok n : 0 <= n -> n < 2 ^ Z.of_nat (fuel_of n).
Proof.
  intros H. unfold fuel_of. rewrite Nat2Z.inj_succ, Z2Nat.id by apply Z.log2_nonneg.
  destruct (Z.eq_dec n 0) as [->|]; [reflexivity|]. apply Z.log2_spec. lia.
Qed.

Lemma to_lsb_range fuel : forall n, in_range (to_lsb b fuel n).
Proof.
  induction fuel as [|f IH]; intros n; cbn [to_lsb]; [constructor|].
  destruct (n <=? 0); constructor; [|apply IH]. apply Z.mod_pos_bound. lia.
Qed.

Lemma to_lsb_zero fuel : forall n, n <= 0 -> to_lsb b fuel n = [].
Proof.
  destruct fuel; intros n H; cbn [to_lsb]; [reflexivity|].
  destruct (Z.leb_spec n 0); [reflexivity|lia].
Qed.

Lemma to_lsb_last fuel : forall n, 0 < n -> n < 2 ^ Z.of_nat fuel ->
  to_lsb b fuel n <> [] /\ last (to_lsb b fuel n) 0 <> 0.
Proof.
  induction fuel as [|f IH]; intros n H0 H1.
  - change (2 ^ Z.of_nat 0) with 1 in H1. lia.
  - cbn [to_lsb]. destruct (Z.leb_spec n 0); [lia|]. split; [discriminate|].
    destruct (Z.eq_dec (n / b) 0) as [E|NE].
    + rewrite E, to_lsb_zero by lia. cbn [last]. lia.
    + assert (P : 0 < n / b) by (pose proof (Z.div_pos n b); lia).
      assert (Q : n / b < 2 ^ Z.of_nat f).
      { rewrite Nat2Z.inj_succ, Z.pow_succ_r in H1 by lia.
        apply Z.div_lt_upper_bound; [lia|].
        assert (0 < 2 ^ Z.of_nat f) by (apply Z.pow_pos_nonneg; lia). nia. }
      destruct (IH _ P Q) as [NE' L].
      destruct (to_lsb b f (n / b)) as [|d t] eqn:E; [congruence|].
      exact L.
Qed.

Lemma from_lsb_nonneg ds : in_range ds -> 0 <= from_lsb b ds.
Proof. induction 1; cbn [from_lsb]; nia. Qed.

Lemma from_lsb_pos ds : canon ds -> ds <> [] -> 0 < from_lsb b ds.
Proof.
  intros [F L]. induction F as [|d t Hd F IH]; intros NE; [congruence|].
  cbn [from_lsb]. destruct t as [|e t'].
  - cbn [last from_lsb] in *. specialize (L NE). lia.
  - assert (0 < from_lsb b (e :: t')).
    { apply IH; [|discriminate]. intros _. apply L. discriminate. }
    nia.
Qed.

Lemma to_lsb_canon fuel : forall ds, canon ds -> from_lsb b ds < 2 ^ Z.of_nat fuel ->
  to_lsb b fuel (from_lsb b ds) = ds.
Proof.
  induction fuel as [|f IH]; intros ds C Hlt.
  - destruct ds as [|d t]; [reflexivity|].
    pose proof (from_lsb_pos _ C ltac:(discriminate)).
    change (2 ^ Z.of_nat 0) with 1 in Hlt. lia.
  - destruct ds as [|d t]; [reflexivity|].
    pose proof (from_lsb_pos _ C ltac:(discriminate)) as P. cbn [to_lsb].
    destruct (Z.leb_spec (from_lsb b (d :: t)) 0); [lia|].
    destruct C as [F L]. inversion F as [|? ? Hd Ft]; subst.
    pose proof (from_lsb_nonneg t Ft).
    cbn [from_lsb] in *.
    assert (E1 : (d + b * from_lsb b t) mod b = d).
    { replace (d + b * from_lsb b t) with (d + from_lsb b t * b) by lia.
      rewrite Z_mod_plus_full. apply Z.mod_small; lia. }
    assert (E2 : (d + b * from_lsb b t) / b = from_lsb b t).
    { symmetry. apply Z.div_unique with d; lia. }
    rewrite E1, E2. f_equal. apply IH.
    + split; [assumption|]. intros NE. destruct t; [congruence|]. apply L. discriminate.
    + rewrite Nat2Z.inj_succ, Z.pow_succ_r in Hlt by lia. nia.
Qed.

(* ---- most significant digit first ---- *)
Definition canon_msb (ds : list Z) : Prop :=
  in_range ds /\ match ds with [] => True | d :: _ => d <> 0 end.

Lemma fold_value_app ds : forall acc d,
  fold_left (fun a d => a * b + d) (ds ++ [d]) acc = fold_left (fun a d => a * b + d) ds acc * b + d.
Proof. intros. rewrite fold_left_app. reflexivity. Qed.

Lemma value_msb_rev ds : value_msb b (rev ds) = from_lsb b ds.
Proof.
  unfold value_msb. induction ds as [|d t IH]; [reflexivity|].
  cbn [rev from_lsb]. rewrite fold_value_app, IH. lia.
Qed.
Lemma value_msb_from ds : value_msb b ds = from_lsb b (rev ds).
Proof. rewrite <- value_msb_rev, rev_involutive. reflexivity. Qed.

Lemma in_range_rev ds : in_range ds -> in_range (rev ds).
Proof. unfold in_range. rewrite !Forall_forall. intros H x Hx. apply H, in_rev, Hx. Qed.

Lemma last_rev_cons (d : Z) t : last (rev (d :: t)) 0 = d.
Proof. cbn [rev]. apply last_last. Qed.

Lemma canon_of_msb ds : canon_msb ds -> canon (rev ds).
Proof.
  intros [R Hd]. split; [apply in_range_rev, R|].
  destruct ds as [|d t]; [intros NE; exfalso; apply NE; reflexivity|].
  intros _. rewrite last_rev_cons. exact Hd.
Qed.

Lemma canon_to_msb ds : canon ds -> canon_msb (rev ds).
Proof.
  intros [R L]. split; [apply in_range_rev, R|].
  destruct (rev ds) as [|d t] eqn:E; [exact I|].
  assert (E' : ds = rev (d :: t)) by (rewrite <- E, rev_involutive; reflexivity).
  assert (NE : ds <> []).
  { intros ->. cbn [rev] in E'. symmetry in E'. apply app_eq_nil in E'. destruct E'; discriminate. }
  specialize (L NE). rewrite E', last_rev_cons in L. exact L.
Qed.

(* the two directions of the bijection n <-> canonical numeral, MSB first *)
Theorem value_digits n : 0 <= n -> value_msb b (digits_msb b n) = n.
Proof.
  intros H. unfold digits_msb. rewrite value_msb_rev.
  apply to_lsb_from; [exact H|apply fuel_ok, H].
Qed.
Theorem digits_canon n : 0 <= n -> canon_msb (digits_msb b n).
Proof.
  intros H. unfold digits_msb. apply canon_to_msb. split; [apply to_lsb_range|].
  intros NE. destruct (Z.eq_dec n 0) as [->|N0].
  - exfalso. apply NE. apply to_lsb_zero. lia.
  - apply to_lsb_last; [lia|apply fuel_ok, H].
Qed.
Theorem digits_value ds : canon_msb ds -> digits_msb b (value_msb b ds) = ds.
Proof.
  intros C. unfold digits_msb. rewrite value_msb_from.
  pose proof (canon_of_msb _ C) as C'.
  rewrite to_lsb_canon; [apply rev_involutive|exact C'|].
  apply fuel_ok, from_lsb_nonneg, C'.
Qed.
Lemma digits_zero : digits_msb b 0 = [].
Proof. reflexivity. Qed.

Lemma value_msb_nonneg ds : in_range ds -> 0 <= value_msb b ds.
Proof. intros R. rewrite value_msb_from. apply from_lsb_nonneg, in_range_rev, R. Qed.
Lemma value_msb_pos ds : canon_msb ds -> ds <> [] -> 0 < value_msb b ds.
Proof.
  intros C NE. rewrite value_msb_from. apply from_lsb_pos; [apply canon_of_msb, C|].
  intros E. apply NE. rewrite <- (rev_involutive ds), E. reflexivity.
Qed.

(* leading zeros do not change the value *)
Lemma value_msb_zeros k ds : value_msb b (repeat 0 k ++ ds) = value_msb b ds.
Proof.
  unfold value_msb. induction k as [|k IH]; [reflexivity|].
  cbn [repeat app fold_left]. exact IH.
Qed.
End Digits.

(* ---- longest prefix satisfying p ---- *)
Lemma count_lead_split {A} (p : A -> bool) (l : list A) :
  exists r, l = firstn (count_lead p l) l ++ r /\ forallb p (firstn (count_lead p l) l) = true /\
            match r with [] => True | x :: _ => p x = false end.
Proof.
  induction l as [|x t IH]; cbn [count_lead].
  - exists []. repeat split.
  - destruct (p x) eqn:E.
    + destruct IH as (r & E1 & E2 & E3). exists r. cbn [firstn app forallb].
      rewrite E, E2. repeat split; [f_equal; exact E1|exact E3].
    + exists (x :: t). cbn [firstn app forallb]. repeat split. exact E.
Qed.
Lemma count_lead_repeat {A} (p : A -> bool) x k r :
  p x = true -> match r with [] => True | y :: _ => p y = false end ->
  count_lead p (repeat x k ++ r) = k.
Proof.
  intros Hx Hr. induction k as [|k IH]; cbn [repeat app count_lead].
  - destruct r as [|y r']; [reflexivity|]. cbn [count_lead]. rewrite Hr. reflexivity.
  - rewrite Hx, IH. reflexivity.
Qed.
Lemma forallb_eq_repeat (l : list Z) z : forallb (Z.eqb z) l = true -> l = repeat z (length l).
Proof.
  induction l as [|x t IH]; cbn [forallb length repeat]; [reflexivity|].
  intros H. apply andb_true_iff in H as [H1 H2]. apply Z.eqb_eq in H1. subst. f_equal. apply IH, H2.
Qed.
