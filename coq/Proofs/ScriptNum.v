(* Proofs/ScriptNum.v – script numbers: the SPEC codec (num_enc / num_dec / num_minimal) is a
   bijection between Z and the minimal byte strings, and the _bignum.py MODEL
   (bn2vch / vch2bn) equals it on every input; the only failure is struct.pack(">I", n)
   with n >= 2^32. *)
From BV Require Import Common.Base Model.Script Spec.Script.
From BV Require Import Proofs.Compact.

(* ---------- arithmetic / list helpers ---------- *)
Lemma pow256_pos k : 0 <= k -> 0 < 256 ^ k.
Proof. intros. apply Z.pow_pos_nonneg; lia. Qed.
Lemma pow256_succ k : 0 <= k -> 256 ^ (k + 1) = 256 * 256 ^ k.
Proof. intros. rewrite Z.pow_add_r by lia. change (256 ^ 1) with 256. lia. Qed.

Lemma le_enc_snoc k : forall x, le_enc (S k) x = le_enc k x ++ [z2b (x / 256 ^ Z.of_nat k)].
Proof.
  induction k as [|k IH]; intros x.
  - cbn [le_enc app Z.of_nat]. change (256 ^ 0) with 1. now rewrite Z.div_1_r.
  - change (le_enc (S (S k)) x) with (z2b x :: le_enc (S k) (x / 256)).
    rewrite IH. cbn [le_enc app]. do 3 f_equal.
    rewrite Nat2Z.inj_succ, Z.pow_succ_r by lia.
    rewrite Z.div_div; [reflexivity|lia|apply pow256_pos; lia].
Qed.

Lemma le_dec_app x : forall y, le_dec (x ++ y) = le_dec x + 256 ^ lenZ x * le_dec y.
Proof.
  induction x as [|c x IH]; intros y.
  - cbn [app le_dec]. unfold lenZ. cbn [length Z.of_nat]. change (256 ^ 0) with 1. lia.
  - cbn [app le_dec]. rewrite IH. unfold lenZ. cbn [length]. rewrite Nat2Z.inj_succ, Z.pow_succ_r by lia. ring.
Qed.

Lemma lenZ_app {A} (x y : list A) : lenZ (x ++ y) = lenZ x + lenZ y.
Proof. unfold lenZ. rewrite app_length. lia. Qed.
Lemma lenZ_le_enc n v : lenZ (le_enc n v) = Z.of_nat n.
Proof. unfold lenZ. now rewrite le_enc_length. Qed.

Lemma log2_bytes a : 0 < a -> let nz := Z.log2 a / 8 + 1 in 256 ^ (nz - 1) <= a < 256 ^ nz.
Proof.
  intros H nz. pose proof (Z.log2_spec a H) as [L U]. pose proof (Z.log2_nonneg a) as N.
  subst nz. rewrite !pow256 by lia. split.
  - eapply Z.le_trans; [|exact L]. apply Z.pow_le_mono_r; lia.
  - eapply Z.lt_le_trans; [exact U|]. apply Z.pow_le_mono_r; lia.
Qed.

(* ---------- the length of an encoding ---------- *)
Definition nlen (a : Z) : nat :=
  let n := Z.to_nat (Z.log2 a / 8 + 1) in
  if 128 <=? a / 256 ^ (Z.of_nat n - 1) then S n else n.

Lemma num_enc_unfold v : v <> 0 ->
  num_enc v = le_enc (nlen (Z.abs v))
                (if v <? 0 then Z.abs v + 128 * 256 ^ (Z.of_nat (nlen (Z.abs v)) - 1) else Z.abs v).
Proof. intros H. unfold num_enc, nlen. destruct (Z.eqb_spec v 0); [contradiction|reflexivity]. Qed.

Lemma nlen_spec a : 0 < a ->
  (1 <= nlen a)%nat /\ 256 ^ (Z.of_nat (nlen a) - 1) <= 2 * a < 256 ^ Z.of_nat (nlen a).
Proof.
  intros H. pose proof (log2_bytes a H) as B. cbv zeta in B. pose proof (Z.log2_nonneg a) as N.
  unfold nlen. set (nz := Z.log2 a / 8 + 1) in *.
  assert (Hnz : 1 <= nz) by (subst nz; lia).
  rewrite Z2Nat.id by lia.
  assert (P : 0 < 256 ^ (nz - 1)) by (apply pow256_pos; lia).
  assert (E : 256 ^ nz = 256 * 256 ^ (nz - 1)) by (rewrite <- pow256_succ by lia; f_equal; lia).
  rewrite E in B. set (p := 256 ^ (nz - 1)) in *.
  destruct (Z.leb_spec 128 (a / p)) as [C|C].
  - split; [lia|]. rewrite Nat2Z.inj_succ, Z2Nat.id by lia.
    replace (Z.succ nz - 1) with nz by lia. replace (Z.succ nz) with (nz + 1) by lia.
    rewrite pow256_succ by lia. rewrite E.
    assert (p * (a / p) <= a) by (apply Z.mul_div_le; lia).
    assert (128 * p <= a) by nia.
    lia.
  - split; [lia|]. rewrite Z2Nat.id by lia. fold p. rewrite E.
    assert (a < 128 * p).
    { destruct (Z_lt_le_dec a (128 * p)); [assumption|]. exfalso.
      assert (128 <= a / p) by (apply Z.div_le_lower_bound; lia). lia. }
    lia.
Qed.

Lemma nlen_unique a N : 0 < a -> 256 ^ (Z.of_nat N - 1) <= 2 * a < 256 ^ Z.of_nat N -> nlen a = N.
Proof.
  intros H [L U]. destruct (nlen_spec a H) as (G & L' & U').
  destruct (lt_eq_lt_dec (nlen a) N) as [[C|C]|C]; [exfalso| exact C |exfalso].
  - assert (256 ^ Z.of_nat (nlen a) <= 256 ^ (Z.of_nat N - 1)) by (apply Z.pow_le_mono_r; lia). lia.
  - assert (256 ^ Z.of_nat N <= 256 ^ (Z.of_nat (nlen a) - 1)) by (apply Z.pow_le_mono_r; lia). lia.
Qed.

(* ---------- SPEC-level bijection ---------- *)
Lemma num_dec_unfold b : (0 < length b)%nat ->
  num_dec b = if le_dec b <? 128 * 256 ^ (lenZ b - 1) then le_dec b
              else - (le_dec b - 128 * 256 ^ (lenZ b - 1)).
Proof. destruct b; cbn [length]; [lia|reflexivity]. Qed.

Theorem num_dec_enc : forall v, num_dec (num_enc v) = v.
Proof.
  intros v. destruct (Z.eq_dec v 0) as [->|Hv]; [reflexivity|].
  rewrite num_enc_unfold by assumption.
  destruct (nlen_spec (Z.abs v) ltac:(lia)) as (G & L & U).
  set (N := nlen (Z.abs v)) in *.
  rewrite num_dec_unfold by (rewrite le_enc_length; lia).
  rewrite lenZ_le_enc.
  assert (E : 256 ^ Z.of_nat N = 256 * 256 ^ (Z.of_nat N - 1))
    by (rewrite <- pow256_succ by lia; f_equal; lia).
  assert (P : 0 < 256 ^ (Z.of_nat N - 1)) by (apply pow256_pos; lia).
  set (p := 256 ^ (Z.of_nat N - 1)) in *.
  rewrite le_dec_enc by (rewrite E; destruct (v <? 0); lia).
  destruct (Z.ltb_spec v 0);
    match goal with |- context [?x <? 128 * p] => destruct (Z.ltb_spec x (128 * p)) end; lia.
Qed.

Theorem num_enc_inj : forall v w, num_enc v = num_enc w -> v = w.
Proof. intros v w H. rewrite <- (num_dec_enc v), <- (num_dec_enc w), H. reflexivity. Qed.

Lemma num_enc_nil_iff : forall v, num_enc v = [] <-> v = 0.
Proof.
  intros v. split; [|intros ->; reflexivity].
  intros H. rewrite <- (num_dec_enc v), H. reflexivity.
Qed.

Lemma lenZ_num_enc v : v <> 0 -> lenZ (num_enc v) = Z.of_nat (nlen (Z.abs v)).
Proof. intros H. rewrite num_enc_unfold by assumption. apply lenZ_le_enc. Qed.

Lemma num_enc_length : forall v, v <> 0 ->
  lenZ (num_enc v) = Z.log2 (Z.abs v) / 8 + 1 +
                     (if 128 <=? Z.abs v / 256 ^ (Z.log2 (Z.abs v) / 8) then 1 else 0).
Proof.
  intros v H. rewrite lenZ_num_enc by assumption. unfold nlen.
  pose proof (Z.log2_nonneg (Z.abs v)).
  rewrite Z2Nat.id by lia.
  replace (Z.log2 (Z.abs v) / 8 + 1 - 1) with (Z.log2 (Z.abs v) / 8) by lia.
  destruct (128 <=? _); [rewrite Nat2Z.inj_succ|]; rewrite Z2Nat.id by lia; lia.
Qed.

(* clean characterisation of the length: the shortest n with |v| < 128 * 256^(n-1) *)
Lemma num_enc_length_bounds v : v <> 0 ->
  1 <= lenZ (num_enc v) /\
  256 ^ (lenZ (num_enc v) - 1) <= 2 * Z.abs v < 256 ^ lenZ (num_enc v).
Proof.
  intros H. rewrite lenZ_num_enc by assumption.
  destruct (nlen_spec (Z.abs v) ltac:(lia)) as (G & L & U). split; [lia|]. split; assumption.
Qed.

Lemma num_minimal_1 c : num_minimal [c] = negb (b2z c mod 128 =? 0).
Proof. unfold num_minimal. cbn [rev app]. destruct (_ =? 0); reflexivity. Qed.
Lemma num_minimal_snoc2 l p c :
  num_minimal ((l ++ [p]) ++ [c]) = if b2z c mod 128 =? 0 then 128 <=? b2z p else true.
Proof. unfold num_minimal. rewrite !rev_app_distr. reflexivity. Qed.

Lemma pow256_S k : 256 ^ Z.of_nat (S k) = 256 * 256 ^ Z.of_nat k.
Proof. rewrite Nat2Z.inj_succ, Z.pow_succ_r by lia. reflexivity. Qed.

Lemma div_lt_bound a q c : 0 < q -> 0 <= a -> a < c * q -> a / q < c.
Proof. intros. apply Z.div_lt_upper_bound; lia. Qed.
Lemma div_ge_bound a q c : 0 < q -> c * q <= a -> c <= a / q.
Proof. intros. apply Z.div_le_lower_bound; lia. Qed.

Theorem num_enc_minimal : forall v, num_minimal (num_enc v) = true.
Proof.
  intros v. destruct (Z.eq_dec v 0) as [->|Hv]; [reflexivity|].
  rewrite num_enc_unfold by assumption.
  destruct (nlen_spec (Z.abs v) ltac:(lia)) as (G & L & U).
  set (a := Z.abs v) in *. assert (Ha : 0 < a) by (subst a; lia).
  destruct (nlen a) as [|[|k]]; [lia| |].
  - (* one byte *)
    change (Z.of_nat 1 - 1) with 0 in *. change (256 ^ 0) with 1 in *.
    change (256 ^ Z.of_nat 1) with 256 in U.
    cbn [le_enc]. rewrite num_minimal_1, b2z_z2b.
    destruct (v <? 0);
      match goal with |- negb (?c =? 0) = _ => destruct (Z.eqb_spec c 0) end;
      cbn [negb]; lia.
  - (* at least two bytes *)
    rewrite (pow256_S (S k)), pow256_S in U.
    replace (Z.of_nat (S (S k)) - 1) with (Z.of_nat (S k)) in * by lia.
    rewrite pow256_S in *.
    assert (Q : 0 < 256 ^ Z.of_nat k) by (apply pow256_pos; lia).
    set (x := if v <? 0 then _ else _).
    rewrite (le_enc_snoc (S k)), (le_enc_snoc k), num_minimal_snoc2, !b2z_z2b.
    rewrite pow256_S. set (q := 256 ^ Z.of_nat k) in *.
    rewrite (Z.mul_comm 256 q), <- (Z.div_div x q 256) by lia.
    set (t := a / q).
    assert (T : 128 <= t < 32768).
    { subst t. split; [apply div_ge_bound|apply div_lt_bound]; lia. }
    assert (X : x / q = if v <? 0 then t + 32768 else t).
    { subst x t. destruct (v <? 0); [|reflexivity].
      replace (a + 128 * (256 * q)) with (a + 32768 * q) by lia. now rewrite Z.div_add by lia. }
    rewrite X.
    destruct (v <? 0);
      match goal with |- (if ?c =? 0 then _ else _) = _ => destruct (Z.eqb_spec c 0) end;
      try reflexivity; apply Z.leb_le; lia.
Qed.

(* what minimality says arithmetically: the magnitude needs all the bytes *)
Lemma minimal_bound m u : 0 <= u < 256 ^ Z.of_nat (S m) ->
  num_minimal (le_enc (S m) u) = true ->
  256 ^ Z.of_nat m <= 2 * (if u <? 128 * 256 ^ Z.of_nat m then u else u - 128 * 256 ^ Z.of_nat m).
Proof.
  intros R M. destruct m as [|k].
  - change (256 ^ Z.of_nat 1) with 256 in R. change (256 ^ Z.of_nat 0) with 1.
    cbn [le_enc] in M. rewrite num_minimal_1, b2z_z2b in M.
    destruct (Z.eqb_spec ((u mod 256) mod 128) 0); [discriminate|].
    destruct (Z.ltb_spec u (128 * 1)); lia.
  - rewrite (le_enc_snoc (S k)), (le_enc_snoc k), num_minimal_snoc2, !b2z_z2b in M.
    rewrite (pow256_S (S k)) in R. rewrite pow256_S in *.
    assert (Q : 0 < 256 ^ Z.of_nat k) by (apply pow256_pos; lia).
    set (q := 256 ^ Z.of_nat k) in *.
    rewrite (Z.mul_comm 256 q), <- (Z.div_div u q 256) in M by lia.
    assert (Y : 0 <= u / q < 65536).
    { split; [apply Z.div_pos; lia|apply div_lt_bound; lia]. }
    assert (D : q * (u / q) <= u) by (apply Z.mul_div_le; lia).
    assert (D' : u < q * (u / q) + q).
    { pose proof (Z.mod_pos_bound u q Q). pose proof (Z.div_mod u q ltac:(lia)). lia. }
    set (y := u / q) in *.
    destruct (Z.ltb_spec u (128 * (256 * q))) as [C|C].
    + assert (y < 32768) by nia.
      assert (128 <= y).
      { destruct (Z.eqb_spec ((y / 256) mod 256 mod 128) 0); [apply Z.leb_le in M|]; lia. }
      assert (q * 128 <= q * y) by (apply Z.mul_le_mono_nonneg_l; lia). lia.
    + assert (32768 <= y) by nia.
      assert (128 <= y - 32768).
      { destruct (Z.eqb_spec ((y / 256) mod 256 mod 128) 0); [apply Z.leb_le in M|]; lia. }
      assert (q * 128 <= q * (y - 32768)) by (apply Z.mul_le_mono_nonneg_l; lia). lia.
Qed.

Lemma num_enc_dec_le N u : 0 <= u < 256 ^ Z.of_nat N ->
  num_minimal (le_enc N u) = true -> num_enc (num_dec (le_enc N u)) = le_enc N u.
Proof.
  intros R M. destruct N as [|m]; [reflexivity|].
  pose proof (minimal_bound m u R M) as B.
  rewrite num_dec_unfold by (rewrite le_enc_length; lia).
  rewrite lenZ_le_enc, le_dec_enc by assumption.
  replace (Z.of_nat (S m) - 1) with (Z.of_nat m) by lia.
  rewrite pow256_S in R.
  assert (P : 0 < 256 ^ Z.of_nat m) by (apply pow256_pos; lia).
  set (p := 256 ^ Z.of_nat m) in *.
  set (v := if u <? 128 * p then u else - (u - 128 * p)).
  assert (A : Z.abs v = if u <? 128 * p then u else u - 128 * p).
  { subst v. destruct (Z.ltb_spec u (128 * p)); lia. }
  rewrite <- A in B.
  assert (Hv : v <> 0) by lia.
  assert (NL : nlen (Z.abs v) = S m).
  { apply nlen_unique; [lia|]. replace (Z.of_nat (S m) - 1) with (Z.of_nat m) by lia.
    rewrite pow256_S. fold p. split; [exact B|]. rewrite A. destruct (Z.ltb_spec u (128 * p)); lia. }
  rewrite num_enc_unfold by assumption. rewrite NL.
  replace (Z.of_nat (S m) - 1) with (Z.of_nat m) by lia. fold p.
  f_equal. rewrite A. subst v.
  destruct (Z.ltb_spec u (128 * p));
    match goal with |- (if ?c <? 0 then _ else _) = _ => destruct (Z.ltb_spec c 0) end; lia.
Qed.

Theorem num_enc_dec : forall b, num_minimal b = true -> num_enc (num_dec b) = b.
Proof.
  intros b M. rewrite <- (le_enc_dec b) in *. apply num_enc_dec_le; [apply le_dec_range|exact M].
Qed.

Theorem num_enc_dec_iff : forall b, num_enc (num_dec b) = b <-> num_minimal b = true.
Proof.
  intros b. split; [|apply num_enc_dec]. intros H. rewrite <- H. apply num_enc_minimal.
Qed.

(* ---------- MODEL: bit operations on a byte value (finite sweeps over the 256 bytes) ---------- *)
Lemma byte_land80 c : (Z.land (b2z c) 0x80 =? 0) = (b2z c <? 128).
Proof. destruct c; vm_compute; reflexivity. Qed.
Lemma byte_clear80 c : 128 <= b2z c -> Z.land (b2z c) (Z.lnot 0x80) = b2z c - 128.
Proof.
  intros H.
  assert (E : (if 128 <=? b2z c then Z.land (b2z c) (Z.lnot 0x80) =? b2z c - 128 else true) = true)
    by (destruct c; vm_compute; reflexivity).
  destruct (Z.leb_spec 128 (b2z c)); [now apply Z.eqb_eq in E|lia].
Qed.
Lemma byte_set80 c : b2z c < 128 -> Z.lor (b2z c) 0x80 = b2z c + 128.
Proof.
  intros H.
  assert (E : (if b2z c <? 128 then Z.lor (b2z c) 0x80 =? b2z c + 128 else true) = true)
    by (destruct c; vm_compute; reflexivity).
  destruct (Z.ltb_spec (b2z c) 128); [now apply Z.eqb_eq in E|lia].
Qed.

Lemma z2b_mod x : z2b (x mod 256) = z2b x.
Proof. unfold z2b. now rewrite Z.mod_mod by lia. Qed.
Lemma map_z2b_b2z l : map z2b (map b2z l) = l.
Proof. induction l as [|c l IH]; cbn [map]; [reflexivity|]. now rewrite z2b_b2z, IH. Qed.

(* ---------- bn2bin / bin2bn ---------- *)
Lemma bn2bin_loop_S k v :
  bn2bin_loop (S k) v = (v / 256 ^ Z.of_nat k) mod 256 :: bn2bin_loop k v.
Proof.
  cbn [bn2bin_loop]. f_equal. rewrite land_mask8, Z.shiftr_div_pow2 by lia.
  rewrite pow256 by lia. rewrite (Z.mul_comm (Z.of_nat k) 8). reflexivity.
Qed.
Lemma bn2bin_loop_bytes k v : ints_to_bytes (bn2bin_loop k v) = rev (le_enc k v).
Proof.
  induction k as [|k IH]; [reflexivity|].
  rewrite bn2bin_loop_S, le_enc_snoc, rev_app_distr. unfold ints_to_bytes in *.
  cbn [map rev app]. now rewrite IH, z2b_mod.
Qed.

Lemma lor_shl8 acc c : 0 <= acc -> 0 <= c < 256 -> Z.lor (Z.shiftl acc 8) c = acc * 256 + c.
Proof.
  intros A C. rewrite Z.lor_comm, lor_shiftl_add by (change (2 ^ 8) with 256; lia).
  change (2 ^ 8) with 256. lia.
Qed.
Lemma bin2bn_fold l : forall acc, 0 <= acc ->
  fold_left (fun l ch => Z.lor (Z.shiftl l 8) ch) (map b2z l) acc = acc * 256 ^ lenZ l + le_dec (rev l).
Proof.
  induction l as [|c l IH]; intros acc A.
  - cbn [map fold_left rev le_dec]. unfold lenZ. cbn [length Z.of_nat]. change (256 ^ 0) with 1. lia.
  - cbn [map fold_left rev]. pose proof (b2z_range c).
    rewrite lor_shl8 by lia. rewrite IH by lia.
    rewrite le_dec_app. cbn [le_dec]. unfold lenZ. rewrite rev_length. cbn [length].
    rewrite Nat2Z.inj_succ, Z.pow_succ_r by lia. ring.
Qed.

(* have_ext: the bit length is a multiple of 8  <->  bit 7 of the top magnitude byte is set *)
Lemma have_ext_iff a : 0 < a ->
  ((Z.log2 a + 1) mod 8 =? 0) = (128 <=? a / 256 ^ (Z.log2 a / 8)).
Proof.
  intros H. pose proof (Z.log2_spec a H) as [L U]. pose proof (Z.log2_nonneg a) as N.
  set (l := Z.log2 a) in *. rewrite pow256 by lia.
  set (m := 8 * (l / 8)). set (r := l - m).
  assert (Hr : 0 <= r < 8) by (subst r m; lia).
  assert (Hm : 0 <= m) by (subst m; lia).
  assert (P : 0 < 2 ^ m) by (apply Z.pow_pos_nonneg; lia).
  assert (E1 : 2 ^ l = 2 ^ r * 2 ^ m) by (rewrite <- Z.pow_add_r by lia; f_equal; subst r; lia).
  assert (E2 : 2 ^ Z.succ l = 2 ^ (r + 1) * 2 ^ m) by (rewrite <- Z.pow_add_r by lia; f_equal; subst r; lia).
  assert (B1 : 2 ^ r <= a / 2 ^ m) by (apply div_ge_bound; lia).
  assert (B2 : a / 2 ^ m < 2 ^ (r + 1)) by (apply div_lt_bound; lia).
  destruct (Z.eqb_spec ((l + 1) mod 8) 0) as [C|C]; symmetry.
  - assert (r = 7) by (subst r m; lia). apply Z.leb_le. rewrite H0 in B1. change (2 ^ 7) with 128 in B1. exact B1.
  - assert (r + 1 <= 7) by (subst r m; lia). apply Z.leb_gt.
    assert (2 ^ (r + 1) <= 2 ^ 7) by (apply Z.pow_le_mono_r; lia). change (2 ^ 7) with 128 in *. lia.
Qed.

(* ---------- MODEL = SPEC ---------- *)
Lemma be_enc4_len k : length (be_enc 4 k) = 4%nat.
Proof. unfold be_enc. now rewrite rev_length, le_enc_length. Qed.

Lemma mpi2vch_app s x : length s = 4%nat -> mpi2vch (s ++ x) = rev x.
Proof.
  intros H. unfold mpi2vch. rewrite skipn_app, (skipn_all2 s) by lia. rewrite H. reflexivity.
Qed.

Theorem bn2vch_spec : forall v,
  bn2vch v = if lenZ (num_enc v) <? 2^32 then Ok (num_enc v) else Err StructError.
Proof.
  intros v. destruct (Z.eq_dec v 0) as [->|Hv]; [vm_compute; reflexivity|].
  set (a := Z.abs v). assert (Ha : 0 < a) by (subst a; lia).
  pose proof (Z.log2_nonneg a) as LN.
  assert (BLv : py_bit_length v = Z.log2 a + 1).
  { unfold py_bit_length. destruct (Z.eqb_spec v 0); [contradiction|reflexivity]. }
  assert (BLa : py_bit_length a = Z.log2 a + 1).
  { unfold py_bit_length. destruct (Z.eqb_spec a 0); [lia|]. now rewrite (Z.abs_eq a) by lia. }
  assert (AV : (if v <? 0 then - v else v) = a) by (subst a; destruct (Z.ltb_spec v 0); lia).
  rewrite num_enc_unfold by assumption. fold a. rewrite lenZ_le_enc.
  unfold bn2vch, bn2mpi. cbv zeta. rewrite AV, BLv. unfold bn_bytes, bn2bin, bn_bytes. rewrite BLa.
  replace (Z.log2 a + 1 >? 0) with true by (symmetry; apply Z.gtb_lt; lia).
  assert (LAND : Z.land (Z.log2 a + 1) 7 = (Z.log2 a + 1) mod 8).
  { change 7 with (Z.ones 3). rewrite Z.land_ones by lia. reflexivity. }
  rewrite LAND, (have_ext_iff a Ha).
  replace ((Z.log2 a + 1 + 7) / 8 + 0) with (Z.log2 a / 8 + 1) by lia.
  replace ((Z.log2 a + 1 + 7) / 8) with (Z.log2 a / 8 + 1) by lia.
  unfold nlen.
  pose proof (log2_bytes a Ha) as B. cbv zeta in B.
  set (nz := Z.log2 a / 8 + 1) in *. assert (Hnz : 1 <= nz) by (subst nz; lia).
  rewrite Z2Nat.id by lia.
  replace (Z.log2 a / 8) with (nz - 1) by (subst nz; lia).
  assert (P : 0 < 256 ^ (nz - 1)) by (apply pow256_pos; lia).
  assert (E : 256 ^ nz = 256 * 256 ^ (nz - 1)) by (rewrite <- pow256_succ by lia; f_equal; lia).
  assert (NZ : Z.of_nat (Z.to_nat nz) = nz) by (apply Z2Nat.id; lia).
  destruct (Z.to_nat nz) as [|k] eqn:Ek; [lia|].
  assert (Kz : nz - 1 = Z.of_nat k) by lia. rewrite Kz in *.
  set (p := 256 ^ Z.of_nat k) in *.
  assert (T : 1 <= a / p < 256).
  { split; [apply (div_ge_bound a p 1)|apply div_lt_bound]; lia. }
  destruct (Z.leb_spec 128 (a / p)) as [C|C].
  - (* have_ext *)
    replace (Z.of_nat (S (S k))) with (nz + 1) by lia.
    replace (nz + 1 - 1) with (Z.of_nat (S k)) by lia.
    unfold pack_be32. replace (0 <=? nz + 1) with true by (symmetry; apply Z.leb_le; lia).
    destruct (nz + 1 <? 2 ^ 32); cbn [andb bind]; [|reflexivity].
    assert (Q : 256 ^ Z.of_nat (S k) = 256 * p) by (rewrite pow256_S; reflexivity).
    rewrite le_enc_snoc, Q.
    destruct (Z.ltb_spec v 0); cbn [bind or_first fst snd]; rewrite mpi2vch_app by apply be_enc4_len;
      rewrite rev_app_distr, bn2bin_loop_bytes, rev_involutive; do 2 f_equal.
    + rewrite <- (le_enc_mod (S k) (a + _)), Q, Z_mod_plus_full, Z.mod_small by lia. reflexivity.
    + cbn [ints_to_bytes map rev app]. do 2 f_equal. rewrite Z.div_add, Z.div_small by lia. reflexivity.
    + cbn [ints_to_bytes map rev app]. do 2 f_equal. rewrite Z.div_small by lia. reflexivity.
  - (* no extension byte *)
    replace (nz + 0) with nz by lia. rewrite NZ, Kz. fold p.
    unfold pack_be32. replace (0 <=? nz) with true by (symmetry; apply Z.leb_le; lia).
    destruct (nz <? 2 ^ 32); cbn [andb bind]; [|reflexivity].
    rewrite le_enc_snoc. fold p.
    destruct (Z.ltb_spec v 0).
    + rewrite bn2bin_loop_S. fold p. cbn [bind or_first fst snd].
      rewrite mpi2vch_app by apply be_enc4_len. cbn [ints_to_bytes map app].
      fold (ints_to_bytes (bn2bin_loop k a)). cbn [rev]. rewrite bn2bin_loop_bytes, rev_involutive.
      do 2 f_equal.
      * rewrite <- (le_enc_mod k (a + _)). fold p. rewrite Z_mod_plus_full, le_enc_mod. reflexivity.
      * do 2 f_equal. rewrite Z.mod_small by lia.
        assert (BZ : b2z (z2b (a / p)) = a / p) by (rewrite b2z_z2b; apply Z.mod_small; lia).
        rewrite <- BZ at 1. rewrite byte_set80 by lia. rewrite BZ, Z.div_add by lia. reflexivity.
    + cbn [bind fst snd]. rewrite mpi2vch_app by apply be_enc4_len.
      cbn [ints_to_bytes map app]. fold (ints_to_bytes (bn2bin_loop (S k) a)).
      rewrite bn2bin_loop_bytes, rev_involutive, le_enc_snoc. reflexivity.
Qed.

Lemma py_slice_head s x : length s = 4%nat -> py_slice (s ++ x) 0 4 = s.
Proof.
  intros H. unfold py_slice. cbv zeta. rewrite lenZ_app. unfold lenZ at 1 2. rewrite H.
  pose proof (Nat2Z.is_nonneg (length x)). unfold lenZ.
  rewrite (Z.min_l 0) by lia. rewrite (Z.min_l 4) by lia.
  change (Z.to_nat (4 - 0)) with 4%nat. change (Z.to_nat 0) with 0%nat. cbn [skipn].
  rewrite firstn_app, H, Nat.sub_diag, firstn_O, app_nil_r.
  apply firstn_all2. lia.
Qed.

Lemma be_dec_enc4 n : 0 <= n < 2 ^ 32 -> be_dec (be_enc 4 n) = n.
Proof.
  intros H. unfold be_dec, be_enc. rewrite rev_involutive. apply le_dec_enc.
  change (256 ^ Z.of_nat 4) with (2 ^ 32). exact H.
Qed.

Theorem vch2bn_spec : forall b,
  vch2bn b = if lenZ b <? 2^32 then Ok (num_dec b) else Err StructError.
Proof.
  intros b. unfold vch2bn, vch2mpi, pack_be32.
  pose proof (Nat2Z.is_nonneg (length b)) as LB. fold (lenZ b) in LB.
  replace (0 <=? lenZ b) with true by (symmetry; apply Z.leb_le; lia).
  destruct (Z.ltb_spec (lenZ b) (2 ^ 32)) as [C|C]; cbn [andb bind]; [|reflexivity].
  unfold mpi2bn.
  rewrite py_slice_head by apply be_enc4_len. rewrite be_dec_enc4 by lia.
  assert (LM : lenZ (be_enc 4 (lenZ b) ++ rev b) = lenZ b + 4).
  { unfold lenZ. rewrite app_length, be_enc4_len, rev_length. lia. }
  assert (SK : skipn 4 (be_enc 4 (lenZ b) ++ rev b) = rev b).
  { rewrite skipn_app, skipn_all2 by (rewrite be_enc4_len; lia). rewrite be_enc4_len. reflexivity. }
  rewrite LM, SK.
  replace (lenZ b + 4 <? 4) with false by (symmetry; apply Z.ltb_ge; lia).
  rewrite Z.eqb_refl. cbn [negb].
  destruct b as [|c0 b0] using rev_ind; [reflexivity|]. clear IHb0.
  rewrite rev_app_distr. cbn [rev app bytes_to_ints map].
  replace (lenZ (b0 ++ [c0]) =? 0) with false
    by (symmetry; apply Z.eqb_neq; rewrite lenZ_app; unfold lenZ; cbn [length]; lia).
  cbn [bind].
  rewrite byte_land80.
  rewrite num_dec_unfold by (rewrite app_length; cbn [length]; lia).
  rewrite le_dec_app, lenZ_app. cbn [le_dec]. change (lenZ [c0]) with 1.
  replace (lenZ b0 + 1 - 1) with (lenZ b0) by lia.
  pose proof (b2z_range c0) as RC. pose proof (le_dec_range b0) as RB. fold (lenZ b0) in RB.
  assert (P : 0 < 256 ^ lenZ b0) by (apply pow256_pos; unfold lenZ; lia).
  set (p := 256 ^ lenZ b0) in *. unfold bin2bn. cbn [fold_left].
  assert (LR : lenZ (rev b0) = lenZ b0) by (unfold lenZ; now rewrite rev_length).
  f_equal. destruct (Z.ltb_spec (b2z c0) 128) as [S|S]; cbn [negb fold_left];
    change (Z.shiftl 0 8) with 0; rewrite Z.lor_0_l.
  - rewrite bin2bn_fold by lia. rewrite LR, rev_involutive. fold p.
    assert (p * b2z c0 <= p * 127) by (apply Z.mul_le_mono_nonneg_l; lia).
    destruct (Z.ltb_spec (le_dec b0 + p * (b2z c0 + 256 * 0)) (128 * p)); lia.
  - rewrite byte_clear80 by lia. rewrite bin2bn_fold by lia. rewrite LR, rev_involutive. fold p.
    assert (p * 128 <= p * b2z c0) by (apply Z.mul_le_mono_nonneg_l; lia).
    destruct (Z.ltb_spec (le_dec b0 + p * (b2z c0 + 256 * 0)) (128 * p)); lia.
Qed.

(* ---------- MODEL-level round trips ---------- *)
Theorem vch2bn_bn2vch : forall v b, bn2vch v = Ok b -> vch2bn b = Ok v.
Proof.
  intros v b H. rewrite bn2vch_spec in H.
  destruct (lenZ (num_enc v) <? 2 ^ 32) eqn:E; [|discriminate].
  injection H as <-. rewrite vch2bn_spec, E, num_dec_enc. reflexivity.
Qed.

Theorem bn2vch_vch2bn : forall b v, vch2bn b = Ok v -> (bn2vch v = Ok b <-> num_minimal b = true).
Proof.
  intros b v H. rewrite vch2bn_spec in H.
  destruct (lenZ b <? 2 ^ 32) eqn:E; [|discriminate].
  injection H as <-. rewrite bn2vch_spec, <- num_enc_dec_iff. split.
  - destruct (lenZ (num_enc (num_dec b)) <? 2 ^ 32); [|discriminate]. intros H. now injection H.
  - intros ->. rewrite E. reflexivity.
Qed.

(* mpi2bn's None (a TypeError in every caller) is never reached from vch2bn *)
Corollary vch2bn_no_typeerror : forall b, vch2bn b <> Err TypeError.
Proof. intros b. rewrite vch2bn_spec. destruct (lenZ b <? 2 ^ 32); discriminate. Qed.
