(* Proofs/ScriptNum.v – script numbers: the SPEC codec (num_enc / num_dec / num_minimal) is a
   bijection between Z and the minimal byte strings, and the _bignum.py MODEL
   (bn2vch / vch2bn) equals it on every input; the only failure is struct.pack(">I", n)
   with n >= 2^32. *)
From BV Require Import Common.Base Model.Script Spec.Script.
From BV Require Import Proofs.Compact.

(* ---------- arithmetic / list helpers ---------- *)
Lemma pow256_pos k : 0 <= k -> 0 < 256 ^ k.
Proof. intros. apply Z.pow_pos_nonneg; lia. Qed.
Lemma pow256_succ k : 0 <= k -> 256 ^ (k + 1) = 256 * 256 ^ k.
Proof. intros. rewrite Z.pow_add_r by lia. change (256 ^ 1) with 256. lia. Qed.

Lemma le_enc_snoc k : forall x, le_enc (S k) x = le_enc k x ++ [z2b (x / 256 ^ Z.of_nat k)].
Proof.
  induction k as [|k IH]; intros x.
  - cbn [le_enc app Z.of_nat]. change (256 ^ 0) with 1. now rewrite Z.div_1_r.
  - change (le_enc (S (S k)) x) with (z2b x :: le_enc (S k) (x / 256)).
    rewrite IH. cbn [le_enc app]. do 3 f_equal.
    rewrite Nat2Z.inj_succ, Z.pow_succ_r by lia.
    rewrite Z.div_div; [reflexivity|lia|apply pow256_pos; lia].
Qed.

Lemma le_dec_app x : forall y, le_dec (x ++ y) = le_dec x + 256 ^ lenZ x * le_dec y.
Proof.
  induction x as [|c x IH]; intros y.
  - cbn [app le_dec]. unfold lenZ. cbn [length Z.of_nat]. change (256 ^ 0) with 1. lia.
  - cbn [app le_dec]. rewrite IH. unfold lenZ. cbn [length]. rewrite Nat2Z.inj_succ, Z.pow_succ_r by lia. ring.
Qed.

Lemma lenZ_app {A} (x y : list A) : lenZ (x ++ y) = lenZ x + lenZ y.
Proof. unfold lenZ. rewrite app_length. lia. Qed.
Lemma lenZ_le_enc n v : lenZ (le_enc n v) = Z.of_nat n.
Proof. unfold lenZ. now rewrite le_enc_length. Qed.

Lemma log2_bytes a : 0 < a -> let nz := Z.log2 a / 8 + 1 in 256 ^ (nz - 1) <= a < 256 ^ nz.
Proof.
  intros H nz. pose proof (Z.log2_spec a H) as [L U]. pose proof (Z.log2_nonneg a) as N.
  subst nz. rewrite !pow256 by lia. split.
  - eapply Z.le_trans; [|exact L]. apply Z.pow_le_mono_r; lia.
  - eapply Z.lt_le_trans; [exact U|]. apply Z.pow_le_mono_r; lia.
Qed.

(* ---------- the length of an encoding ---------- *)
Definition nlen (a : Z) : nat :=
  let n := Z.to_nat (Z.log2 a / 8 + 1) in
  if 128 <=? a / 256 ^ (Z.of_nat n - 1) then S n else n.

Lemma num_enc_unfold v : v <> 0 ->
  num_enc v = le_enc (nlen (Z.abs v))
                (if v <? 0 then Z.abs v + 128 * 256 ^ (Z.of_nat (nlen (Z.abs v)) - 1) else Z.abs v).
Proof. intros H. unfold num_enc, nlen. destruct (Z.eqb_spec v 0); [contradiction|reflexivity]. Qed.

Lemma nlen_spec a : 0 < a ->
  (1 <= nlen a)%nat /\ 256 ^ (Z.of_nat (nlen a) - 1) <= 2 * a < 256 ^ Z.of_nat (nlen a).
Proof.
  intros H. pose proof (log2_bytes a H) as B. cbv zeta in B. pose proof (Z.log2_nonneg a) as N.
  unfold nlen. set (nz := Z.log2 a / 8 + 1) in *.
  assert (Hnz : 1 <= nz) by (subst nz; lia).
  rewrite Z2Nat.id by lia.
  assert (P : 0 < 256 ^ (nz - 1)) by (apply pow256_pos; lia).
  assert (E : 256 ^ nz = 256 * 256 ^ (nz - 1)) by (rewrite <- pow256_succ by lia; f_equal; lia).
  rewrite E in B. set (p := 256 ^ (nz - 1)) in *.
  destruct (Z.leb_spec 128 (a / p)) as [C|C].
  - split; [lia|]. rewrite Nat2Z.inj_succ, Z2Nat.id by lia.
    replace (Z.succ nz - 1) with nz by lia. replace (Z.succ nz) with (nz + 1) by lia.
    rewrite pow256_succ by lia. rewrite E.
    assert (p * (a / p) <= a) by (apply Z.mul_div_le; lia).
    assert (128 * p <= a) by nia.
    lia.
  - split; [lia|]. rewrite Z2Nat.id by lia. fold p. rewrite E.
    assert (a < 128 * p).
    { destruct (Z_lt_le_dec a (128 * p)); [assumption|]. exfalso.
      assert (128 <= a / p) by (apply Z.div_le_lower_bound; lia). lia. }
    lia.
Qed.

Lemma nlen_unique a N : 0 < a -> 256 ^ (Z.of_nat N - 1) <= 2 * a < 256 ^ Z.of_nat N -> nlen a = N.
Proof.
  intros H [L U]. destruct (nlen_spec a H) as (G & L' & U').
  destruct (lt_eq_lt_dec (nlen a) N) as [[C|C]|C]; [exfalso| exact C |exfalso].
  - assert (256 ^ Z.of_nat (nlen a) <= 256 ^ (Z.of_nat N - 1)) by (apply Z.pow_le_mono_r; lia). lia.
  - assert (256 ^ Z.of_nat N <= 256 ^ (Z.of_nat (nlen a) - 1)) by (apply Z.pow_le_mono_r; lia). lia.
Qed.

(* ---------- SPEC-level bijection ---------- *)
Lemma num_dec_unfold b : (0 < length b)%nat ->
  num_dec b = if le_dec b <? 128 * 256 ^ (lenZ b - 1) then le_dec b
              else - (le_dec b - 128 * 256 ^ (lenZ b - 1)).
Proof. destruct b; cbn [length]; [lia|reflexivity]. Qed.

Theorem num_dec_enc : forall v, num_dec (num_enc v) = v.
Proof.
  intros v. destruct (Z.eq_dec v 0) as [->|Hv]; [reflexivity|].
  rewrite num_enc_unfold by assumption.
  destruct (nlen_spec (Z.abs v) ltac:(lia)) as (G & L & U).
  set (N := nlen (Z.abs v)) in *.
  rewrite num_dec_unfold by (rewrite le_enc_length; lia).
  rewrite lenZ_le_enc.
  assert (E : 256 ^ Z.of_nat N = 256 * 256 ^ (Z.of_nat N - 1))
    by (rewrite <- pow256_succ by lia; f_equal; lia).
  assert (P : 0 < 256 ^ (Z.of_nat N - 1)) by (apply pow256_pos; lia).
  set (p := 256 ^ (Z.of_nat N - 1)) in *.
  rewrite le_dec_enc by (rewrite E; destruct (v <? 0); lia).
  destruct (Z.ltb_spec v 0);
    match goal with |- context [?x <? 128 * p] => destruct (Z.ltb_spec x (128 * p)) end; lia.
Qed.

Theorem num_enc_inj : forall v w, num_enc v = num_enc w -> v = w.
Proof. intros v w H. rewrite <- (num_dec_enc v), <- (num_dec_enc w), H. reflexivity. Qed.

Lemma num_enc_nil_iff : forall v, num_enc v = [] <-> v = 0.
Proof.
  intros v. split; [|intros ->; reflexivity].
  intros H. rewrite <- (num_dec_enc v), H. reflexivity.
Qed.

Lemma lenZ_num_enc v : v <> 0 -> lenZ (num_enc v) = Z.of_nat (nlen (Z.abs v)).
Proof. intros H. rewrite num_enc_unfold by assumption. apply lenZ_le_enc. Qed.

Lemma num_enc_length : forall v, v <> 0 ->
  lenZ (num_enc v) = Z.log2 (Z.abs v) / 8 + 1 +
                     (if 128 <=? Z.abs v / 256 ^ (Z.log2 (Z.abs v) / 8) then 1 else 0).
Proof.
  intros v H. rewrite lenZ_num_enc by assumption. unfold nlen.
  pose proof (Z.log2_nonneg (Z.abs v)).
  rewrite Z2Nat.id by lia.
  replace (Z.log2 (Z.abs v) / 8 + 1 - 1) with (Z.log2 (Z.abs v) / 8) by lia.
  destruct (128 <=? _); [rewrite Nat2Z.inj_succ|]; rewrite Z2Nat.id by lia; lia.
Qed.

(* clean characterisation of the length: the shortest n with |v| < 128 * 256^(n-1) *)
Lemma num_enc_length_bounds v : v <> 0 ->
  1 <= lenZ (num_enc v) /\
  256 ^ (lenZ (num_enc v) - 1) <= 2 * Z.abs v < 256 ^ lenZ (num_enc v).
Proof.
  intros H. rewrite lenZ_num_enc by assumption.
  destruct (nlen_spec (Z.abs v) ltac:(lia)) as (G & L & U). split; [lia|]. split; assumption.
Qed.

Lemma num_minimal_1 c : num_minimal [c] = negb (b2z c mod 128 =? 0).
Proof. unfold num_minimal. cbn [rev app]. destruct (_ =? 0); reflexivity. Qed.
Lemma num_minimal_snoc2 l p c :
  num_minimal ((l ++ [p]) ++ [c]) = if b2z c mod 128 =? 0 then 128 <=? b2z p else true.
Proof. unfold num_minimal. rewrite !rev_app_distr. reflexivity. Qed.

Lemma pow256_S k : 256 ^ Z.of_nat (S k) = 256 * 256 ^ Z.of_nat k.
Proof. rewrite Nat2Z.inj_succ, Z.pow_succ_r by lia. reflexivity. Qed.

Lemma div_lt_bound a q c : 0 < q -> 0 <= a -> a < c * q -> a / q < c.
Proof. intros. apply Z.div_lt_upper_bound; lia. Qed.
Lemma div_ge_bound a q c : 0 < q -> c * q <= a -> c <= a / q.
Proof. intros. apply Z.div_le_lower_bound; lia. Qed.

Theorem num_enc_minimal : forall v, num_minimal (num_enc v) = true.
Proof.
  intros v. destruct (Z.eq_dec v 0) as [->|Hv]; [reflexivity|].
  rewrite num_enc_unfold by assumption.
  destruct (nlen_spec (Z.abs v) ltac:(lia)) as (G & L & U).
  set (a := Z.abs v) in *. assert (Ha : 0 < a) by (subst a; lia).
  destruct (nlen a) as [|[|k]]; [lia| |].
  - (* one byte *)
    change (Z.of_nat 1 - 1) with 0 in *. change (256 ^ 0) with 1 in *.
    change (256 ^ Z.of_nat 1) with 256 in U.
    cbn [le_enc]. rewrite num_minimal_1, b2z_z2b.
    destruct (v <? 0);
      match goal with |- negb (?c =? 0) = _ => destruct (Z.eqb_spec c 0) end;
      cbn [negb]; lia.
  - (* at least two bytes *)
    rewrite (pow256_S (S k)), pow256_S in U.
    replace (Z.of_nat (S (S k)) - 1) with (Z.of_nat (S k)) in * by lia.
    rewrite pow256_S in *.
    assert (Q : 0 < 256 ^ Z.of_nat k) by (apply pow256_pos; lia).
    set (x := if v <? 0 then _ else _).
    rewrite (le_enc_snoc (S k)), (le_enc_snoc k), num_minimal_snoc2, !b2z_z2b.
    rewrite pow256_S. set (q := 256 ^ Z.of_nat k) in *.
    rewrite (Z.mul_comm 256 q), <- (Z.div_div x q 256) by lia.
    set (t := a / q).
    assert (T : 128 <= t < 32768).
    { subst t. split; [apply div_ge_bound|apply div_lt_bound]; lia. }
    assert (X : x / q = if v <? 0 then t + 32768 else t).
    { subst x t. destruct (v <? 0); [|reflexivity].
      replace (a + 128 * (256 * q)) with (a + 32768 * q) by lia. now rewrite Z.div_add by lia. }
    rewrite X.
    destruct (v <? 0);
      match goal with |- (if ?c =? 0 then _ else _) = _ => destruct (Z.eqb_spec c 0) end;
      try reflexivity; apply Z.leb_le; lia.
Qed.

(* what minimality says arithmetically: the magnitude needs all the bytes *)
Lemma minimal_bound m u : 0 <= u < 256 ^ Z.of_nat (S m) ->
  num_minimal (le_enc (S m) u) = true ->
  256 ^ Z.of_nat m <= 2 * (if u <? 128 * 256 ^ Z.of_nat m then u else u - 128 * 256 ^ Z.of_nat m).
Proof.
  intros R M. destruct m as [|k].
  - change (256 ^ Z.of_nat 1) with 256 in R. change (256 ^ Z.of_nat 0) with 1.
    cbn [le_enc] in M. rewrite num_minimal_1, b2z_z2b in M.
    destruct (Z.eqb_spec ((u mod 256) mod 128) 0); [discriminate|].
    destruct (Z.ltb_spec u (128 * 1)); lia.
  - rewrite (le_enc_snoc (S k)), (le_enc_snoc k), num_minimal_snoc2, !b2z_z2b in M.
    rewrite (pow256_S (S k)) in R. rewrite pow256_S in *.
    assert (Q : 0 < 256 ^ Z.of_nat k) by (apply pow256_pos; lia).
    set (q := 256 ^ Z.of_nat k) in *.
    rewrite (Z.mul_comm 256 q), <- (Z.div_div u q 256) in M by lia.
    assert (Y : 0 <= u / q < 65536).
    { split; [apply Z.div_pos; lia|apply div_lt_bound; lia]. }
    assert (D : q * (u / q) <= u) by (apply Z.mul_div_le; lia).
    assert (D' : u < q * (u / q) + q).
    { pose proof (Z.mod_pos_bound u q Q). pose proof (Z.div_mod u q ltac:(lia)). lia. }
    set (y := u / q) in *.
    destruct (Z.ltb_spec u (128 * (q * 256))) as [C|C].
    + assert (y < 32768) by nia.
      assert (128 <= y).
      { destruct (Z.eqb_spec ((y / 256) mod 256 mod 128) 0); [apply Z.leb_le in M|]; lia. }
      nia.
    + assert (32768 <= y) by nia.
      assert (128 <= y - 32768).
      { destruct (Z.eqb_spec ((y / 256) mod 256 mod 128) 0); [apply Z.leb_le in M|]; lia. }
      nia.
Qed.

Lemma num_enc_dec_le N u : 0 <= u < 256 ^ Z.of_nat N ->
  num_minimal (le_enc N u) = true -> num_enc (num_dec (le_enc N u)) = le_enc N u.
Proof.
  intros R M. destruct N as [|m]; [reflexivity|].
  pose proof (minimal_bound m u R M) as B.
  rewrite num_dec_unfold by (rewrite le_enc_length; lia).
  rewrite lenZ_le_enc, le_dec_enc by assumption.
  replace (Z.of_nat (S m) - 1) with (Z.of_nat m) by lia.
  rewrite pow256_S in R.
  assert (P : 0 < 256 ^ Z.of_nat m) by (apply pow256_pos; lia).
  set (p := 256 ^ Z.of_nat m) in *.
  set (v := if u <? 128 * p then u else - (u - 128 * p)).
  assert (A : Z.abs v = if u <? 128 * p then u else u - 128 * p).
  { subst v. destruct (Z.ltb_spec u (128 * p)); lia. }
  rewrite <- A in B.
  assert (Hv : v <> 0) by lia.
  assert (NL : nlen (Z.abs v) = S m).
  { apply nlen_unique; [lia|]. replace (Z.of_nat (S m) - 1) with (Z.of_nat m) by lia.
    rewrite pow256_S. fold p. split; [exact B|]. rewrite A. destruct (Z.ltb_spec u (128 * p)); lia. }
  rewrite num_enc_unfold by assumption. rewrite NL.
  replace (Z.of_nat (S m) - 1) with (Z.of_nat m) by lia. fold p.
  f_equal. rewrite A. subst v.
  destruct (Z.ltb_spec u (128 * p));
    match goal with |- (if ?c <? 0 then _ else _) = _ => destruct (Z.ltb_spec c 0) end; lia.
Qed.

Theorem num_enc_dec : forall b, num_minimal b = true -> num_enc (num_dec b) = b.
Proof.
  intros b M. rewrite <- (le_enc_dec b) in *. apply num_enc_dec_le; [apply le_dec_range|exact M].
Qed.

Theorem num_enc_dec_iff : forall b, num_enc (num_dec b) = b <-> num_minimal b = true.
Proof.
  intros b. split; [|apply num_enc_dec]. intros H. rewrite <- H. apply num_enc_minimal.
Qed.
