(* Proofs/Merkle.v – MODEL = SPEC for the merkle code of CBlock (C15), for every list
   (induction, no size bound) and every hash function H; the constructor; the commitment
   search; the parametric weight theorems. *)
From BV Require Import Common.Base Model.Merkle Spec.Merkle.
From Coq Require Import Arith.

(* two-step induction on lists *)
Lemma list_ind2 {A} (P : list A -> Prop) :
  P [] -> (forall a, P [a]) -> (forall a b t, P t -> P (a :: b :: t)) -> forall l, P l.
Proof.
  intros H0 H1 H2. fix IH 1. intros [|a [|b t]]; [exact H0 | apply H1 | apply H2, IH].
Qed.

Lemma half_SS n : ((S (S n) + 1) / 2 = S ((n + 1) / 2))%nat.
Proof.
  replace (S (S n) + 1)%nat with ((n + 1) + 1 * 2)%nat by lia.
  rewrite Nat.div_add by lia. lia.
Qed.
Lemma half_lt n : ((S (S n) + 1) / 2 < S (S n))%nat.
Proof. apply Nat.div_lt_upper_bound; lia. Qed.

Lemma py_last_app l x : py_last (l ++ [x]) = Ok x.
Proof. unfold py_last. destruct (l ++ [x]) eqn:E.
  - destruct l; discriminate.
  - rewrite <- E, last_last. reflexivity.
Qed.

Section MerkleProofs.
Variable H : bytes -> bytes.

(* ---------- the reference: fuel independence and the defining equations ---------- *)
Lemma pairs_length L : length (pairs H L) = ((length L + 1) / 2)%nat.
Proof.
  induction L as [| a | a b t IH] using list_ind2; [reflexivity | reflexivity |].
  cbn [pairs length]. rewrite IH, half_SS. reflexivity.
Qed.

Lemma root_fuel_total : forall fuel L, L <> [] -> (length L <= fuel)%nat ->
  exists r, root_fuel H fuel L = Some r.
Proof.
  induction fuel as [|f IH]; intros L NE Hf.
  - destruct L as [|a [|b t]]; [congruence | eexists; reflexivity | simpl in Hf; lia].
  - destruct L as [|a [|b t]]; [congruence | eexists; reflexivity |].
    cbn [root_fuel]. apply IH.
    + simpl. discriminate.
    + rewrite pairs_length. cbn [length] in *. pose proof (half_lt (length t)). lia.
Qed.

Lemma root_fuel_enough : forall f1 f2 L, (length L <= f1)%nat -> (length L <= f2)%nat ->
  root_fuel H f1 L = root_fuel H f2 L.
Proof.
  induction f1 as [|f1 IH]; intros f2 L H1 H2.
  - destruct L as [|a [|b t]]; [destruct f2; reflexivity | destruct f2; reflexivity | simpl in H1; lia].
  - destruct L as [|a [|b t]]; [destruct f2; reflexivity | destruct f2; reflexivity |].
    destruct f2 as [|f2]; [simpl in H2; lia|].
    cbn [root_fuel]. apply IH; rewrite pairs_length; cbn [length] in *;
      pose proof (half_lt (length t)); lia.
Qed.

Lemma spec_root_total L : L <> [] -> exists r, spec_root H L = Some r.
Proof. intros NE. apply root_fuel_total; [exact NE | lia]. Qed.
Lemma spec_root_nil : spec_root H [] = None.
Proof. reflexivity. Qed.
Lemma spec_root_single a : spec_root H [a] = Some a.
Proof. reflexivity. Qed.
(* a level of two or more nodes: the root is the root of the level above *)
Lemma spec_root_step a b t : spec_root H (a :: b :: t) = spec_root H (pairs H (a :: b :: t)).
Proof.
  unfold spec_root.
  change (root_fuel H (length (a :: b :: t)) (a :: b :: t))
    with (root_fuel H (S (length t)) (pairs H (a :: b :: t))).
  apply root_fuel_enough; rewrite ?pairs_length; cbn [length]; pose proof (half_lt (length t)); lia.
Qed.

(* with a hash of 32 bytes and ids of 32 bytes, the root has 32 bytes *)
Lemma pairs_len32 L : (forall x, length (H x) = 32%nat) ->
  Forall (fun x => length x = 32%nat) (pairs H L).
Proof.
  intros HL. induction L as [| a | a b t IH] using list_ind2; cbn [pairs]; repeat constructor;
    try apply HL; assumption.
Qed.
Lemma root_fuel_len32 : (forall x, length (H x) = 32%nat) -> forall fuel L r,
  Forall (fun x => length x = 32%nat) L -> root_fuel H fuel L = Some r -> length r = 32%nat.
Proof.
  intros HL. induction fuel as [|f IH]; intros L r F E.
  - destruct L as [|a [|b t]]; try discriminate. injection E as <-. now inversion F.
  - destruct L as [|a [|b t]]; try discriminate.
    + injection E as <-. now inversion F.
    + cbn [root_fuel] in E. eapply IH; [|exact E]. apply pairs_len32, HL.
Qed.
Lemma spec_root_len32 L r : (forall x, length (H x) = 32%nat) ->
  Forall (fun x => length x = 32%nat) L -> spec_root H L = Some r -> length r = 32%nat.
Proof. intros HL F E. eapply root_fuel_len32; eauto. Qed.

(* ---------- the flat-array loop ---------- *)
Lemma get_mid pre L0 L acc k x : nth_error L k = Some x ->
  get (pre ++ L0 ++ L ++ acc) (length pre + (length L0 + k)) = Ok x.
Proof.
  intros E. assert (K : (k < length L)%nat) by (apply nth_error_Some; congruence).
  unfold get. rewrite nth_error_app2 by lia.
  replace (length pre + (length L0 + k) - length pre)%nat with (length L0 + k)%nat by lia.
  rewrite nth_error_app2 by lia.
  replace (length L0 + k - length L0)%nat with k by lia.
  rewrite nth_error_app1 by exact K. rewrite E. reflexivity.
Qed.

(* the inner loop appends [pairs] of the rest of the current level; the part of the level
   already consumed is L0, what this pass has appended so far is acc *)
Lemma inner_pairs pre : forall L L0 acc,
  inner H (pre ++ L0 ++ L ++ acc) (length pre) (length L0 + length L) (length L0)
        ((length L + 1) / 2)
  = Ok (pre ++ L0 ++ L ++ acc ++ pairs H L).
Proof.
  intros L. induction L as [| a | a b t IH] using list_ind2; intros L0 acc.
  - cbn [length pairs]. change ((0 + 1) / 2)%nat with 0%nat. cbn [inner].
    rewrite app_nil_r. reflexivity.
  - cbn [length pairs]. change ((1 + 1) / 2)%nat with 1%nat. cbn [inner].
    replace (Nat.min (length L0 + 1) (length L0 + 1 - 1)) with (length L0 + 0)%nat by lia.
    replace (length pre + length L0)%nat with (length pre + (length L0 + 0))%nat by lia.
    rewrite (get_mid pre L0 [a] acc 0 a) by reflexivity. cbn [bind].
    rewrite <- !app_assoc. reflexivity.
  - cbn [length]. rewrite half_SS. cbn [inner pairs].
    replace (Nat.min (length L0 + 1) (length L0 + S (S (length t)) - 1))
      with (length L0 + 1)%nat by lia.
    replace (length pre + length L0)%nat with (length pre + (length L0 + 0))%nat at 1 by lia.
    rewrite (get_mid pre L0 (a :: b :: t) acc 0 a) by reflexivity.
    rewrite (get_mid pre L0 (a :: b :: t) acc 1 b) by reflexivity. cbn [bind].
    specialize (IH (L0 ++ [a; b]) (acc ++ [node H a b])).
    rewrite app_length in IH. cbn [length] in IH.
    replace (length L0 + 2 + length t)%nat with (length L0 + S (S (length t)))%nat in IH by lia.
    replace ((pre ++ L0 ++ (a :: b :: t) ++ acc) ++ [H (a ++ b)])
      with (pre ++ (L0 ++ [a; b]) ++ t ++ acc ++ [node H a b]).
    2:{ unfold node. rewrite <- !app_assoc. reflexivity. }
    rewrite IH. rewrite <- !app_assoc. reflexivity.
Qed.

(* the outer loop keeps tree = pre ++ level, j = |pre|, size = |level|; fuel |level| is enough *)
Lemma outer_root : forall fuel pre Lv r,
  (length Lv <= fuel)%nat -> root_fuel H fuel Lv = Some r ->
  exists tree, outer H fuel (pre ++ Lv) (length pre) (length Lv) = Ok tree /\ py_last tree = Ok r.
Proof.
  induction fuel as [|f IH]; intros pre Lv r Hf Hs.
  - destruct Lv as [|a [|b t]]; try discriminate.
    injection Hs as <-. exists (pre ++ [a]). split; [reflexivity | apply py_last_app].
  - destruct Lv as [|a [|b t]]; try discriminate.
    + injection Hs as <-. exists (pre ++ [a]). split; [reflexivity | apply py_last_app].
    + cbn [root_fuel] in Hs. cbn [outer].
      set (Lv := a :: b :: t) in *.
      assert (E : (1 <? length Lv)%nat = true) by (apply Nat.ltb_lt; subst Lv; simpl; lia).
      rewrite E. unfold range2_len.
      pose proof (inner_pairs pre Lv [] []) as IP. cbn [app length] in IP.
      rewrite Nat.add_0_l, app_nil_r in IP. rewrite IP. cbn [bind].
      rewrite <- pairs_length.
      replace (length pre + length Lv)%nat with (length (pre ++ Lv)) by (rewrite app_length; lia).
      rewrite app_assoc. apply IH; [|exact Hs].
      rewrite pairs_length. subst Lv. cbn [length] in *. pose proof (half_lt (length t)). lia.
Qed.

(* the loop never fails: no IndexError, fuel suffices *)
Lemma build_tree_total L : exists tree, build_merkle_tree_from_txids H L = Ok tree.
Proof.
  destruct L as [|a t]; [exists []; reflexivity|].
  destruct (spec_root_total (a :: t)) as [r Hr]; [discriminate|].
  destruct (outer_root (length (a :: t)) [] (a :: t) r (le_n _) Hr) as [tree [E _]].
  exists tree. exact E.
Qed.

(* MAIN: for every non-empty list the last element of the flat tree is the reference root *)
Theorem merkle_root_eq_spec L : L <> [] ->
  exists r, spec_root H L = Some r /\ merkle_root_of_txids H L = Ok r.
Proof.
  intros NE. destruct (spec_root_total L NE) as [r Hr]. exists r. split; [exact Hr|].
  destruct (outer_root (length L) [] L r (le_n _) Hr) as [tree [E E2]].
  unfold merkle_root_of_txids, build_merkle_tree_from_txids.
  cbn [app length] in E. rewrite E. exact E2.
Qed.
Corollary merkle_root_eq_spec' L r : spec_root H L = Some r -> merkle_root_of_txids H L = Ok r.
Proof.
  intros E. destruct L as [|a t]; [discriminate|].
  destruct (merkle_root_eq_spec (a :: t)) as [r' [E1 E2]]; [discriminate|]. congruence.
Qed.

(* the empty list, as the code has it: the tree is empty, [-1] raises IndexError,
   calc_merkle_root / calc_witness_merkle_root raise ValueError *)
Lemma merkle_empty :
  build_merkle_tree_from_txids H [] = Ok [] /\ merkle_root_of_txids H [] = Err IndexError /\
  calc_merkle_root H [] = Err ValueError /\ calc_witness_merkle_root H [] = Err ValueError /\
  build_witness_merkle_tree_from_txs H [] = Err NoWitnessData.
Proof. repeat split. Qed.

Theorem calc_merkle_root_eq_spec vtx : vtx <> [] ->
  exists r, spec_root H (map tv_txid vtx) = Some r /\ calc_merkle_root H vtx = Ok r.
Proof.
  intros NE. destruct (merkle_root_eq_spec (map tv_txid vtx)) as [r [E1 E2]].
  { destruct vtx; [congruence | discriminate]. }
  exists r. split; [exact E1|]. unfold calc_merkle_root.
  destruct vtx; [congruence|]. exact E2.
Qed.

(* ---------- witness tree ---------- *)
Lemma wit_collect_eq : forall txs acc hw,
  wit_collect txs acc hw = (acc ++ map tv_hash txs, hw || existsb tv_haswit txs).
Proof.
  induction txs as [|t r IH]; intros acc hw; cbn [wit_collect map existsb].
  - rewrite app_nil_r, orb_false_r. reflexivity.
  - rewrite IH, <- app_assoc, orb_assoc. reflexivity.
Qed.

Lemma witness_tree_unfold txs :
  build_witness_merkle_tree_from_txs H txs =
  if negb (existsb tv_haswit txs) then Err NoWitnessData
  else do hs <- set0 (map tv_hash txs) (zeros 32); build_merkle_tree_from_txids H hs.
Proof. unfold build_witness_merkle_tree_from_txs. rewrite wit_collect_eq. reflexivity. Qed.

(* some transaction carries witness data: the witness root is the reference root over the
   wtxids with the coinbase's replaced by 32 zero bytes *)
Theorem witness_root_eq_spec vtx : vtx <> [] -> existsb tv_haswit vtx = true ->
  exists r, spec_witness_root H (map tv_hash vtx) = Some r /\
            calc_witness_merkle_root H vtx = Ok r.
Proof.
  intros NE HW. destruct vtx as [|c rest]; [congruence|].
  cbn [map spec_witness_root].
  destruct (merkle_root_eq_spec (zeros 32 :: map tv_hash rest)) as [r [E1 E2]]; [discriminate|].
  exists r. split; [exact E1|].
  unfold calc_witness_merkle_root. cbn [length Nat.eqb].
  rewrite witness_tree_unfold, HW. cbn [negb map set0 bind]. exact E2.
Qed.
(* no transaction carries witness data: NoWitnessData *)
Theorem witness_root_none vtx : vtx <> [] -> existsb tv_haswit vtx = false ->
  calc_witness_merkle_root H vtx = Err NoWitnessData.
Proof.
  intros NE HW. destruct vtx as [|c rest]; [congruence|].
  unfold calc_witness_merkle_root. cbn [length Nat.eqb].
  rewrite witness_tree_unfold, HW. reflexivity.
Qed.

(* the witness tree builder returns a tree or NoWitnessData, nothing else *)
Lemma witness_tree_cases txs :
  (existsb tv_haswit txs = false /\ build_witness_merkle_tree_from_txs H txs = Err NoWitnessData) \/
  (existsb tv_haswit txs = true /\ exists t, build_witness_merkle_tree_from_txs H txs = Ok t).
Proof.
  rewrite witness_tree_unfold. destruct (existsb tv_haswit txs) eqn:E; [right | left; auto].
  split; [reflexivity|]. destruct txs as [|c rest]; [discriminate|].
  cbn [negb map set0 bind]. apply build_tree_total.
Qed.

(* ---------- constructor ---------- *)
Lemma bytes_eqb_false a b : a <> b -> bytes_eqb a b = false.
Proof.
  intros N. destruct (bytes_eqb a b) eqn:E; [|reflexivity]. apply bytes_eqb_eq in E. contradiction.
Qed.

Lemma cblock_init_witness_part vtx :
  exists wt, (match build_witness_merkle_tree_from_txs H vtx with
              | Ok t => Ok t
              | Err e => if is_NoWitnessData e then Ok [] else Err e
              end) = Ok wt /\
             (existsb tv_haswit vtx = false -> wt = []) /\
             (existsb tv_haswit vtx = true -> build_witness_merkle_tree_from_txs H vtx = Ok wt).
Proof.
  destruct (witness_tree_cases vtx) as [[E1 E2] | [E1 [t E2]]]; rewrite E2.
  - exists []. repeat split; congruence.
  - exists t. repeat split; congruence.
Qed.

(* (a) a declared root that is neither all-zero nor the computed root is refused *)
Theorem constructor_refuses prev root vtx r : vtx <> [] ->
  spec_root H (map tv_txid vtx) = Some r -> root <> zeros 32 -> root <> r ->
  cblock_init H prev root vtx = Err CheckBlockErr.
Proof.
  intros NE Hr Nz Nr. unfold cblock_init. destruct vtx as [|c rest]; [congruence|].
  pose proof (merkle_root_eq_spec' _ _ Hr) as E.
  unfold merkle_root_of_txids in E. unfold build_merkle_tree_from_txs.
  destruct (build_merkle_tree_from_txids H (map tv_txid (c :: rest))) as [mt|e]; [|discriminate].
  cbn [bind] in *. rewrite E. cbn [bind].
  rewrite (bytes_eqb_false _ _ Nz), (bytes_eqb_false _ _ Nr). reflexivity.
Qed.

(* (b) all-zero => filled in with the computed root; equal => kept; in both cases the
   block's stored tree ends with the reference root.  The two header asserts need 32-byte
   values: prev by hypothesis, r by [spec_root_len32]. *)
Theorem constructor_accepts prev root vtx r : vtx <> [] ->
  spec_root H (map tv_txid vtx) = Some r -> length prev = 32%nat -> length r = 32%nat ->
  root = zeros 32 \/ root = r ->
  exists b, cblock_init H prev root vtx = Ok b /\
            cb_hashMerkleRoot b = r /\ cb_hashPrevBlock b = prev /\ cb_vtx b = vtx /\
            py_last (cb_vMerkleTree b) = Ok r /\
            build_merkle_tree_from_txs H vtx = Ok (cb_vMerkleTree b) /\
            (existsb tv_haswit vtx = false -> cb_vWitnessMerkleTree b = []) /\
            (existsb tv_haswit vtx = true ->
             build_witness_merkle_tree_from_txs H vtx = Ok (cb_vWitnessMerkleTree b)).
Proof.
  intros NE Hr Lp Lr Hroot. unfold cblock_init. destruct vtx as [|c rest]; [congruence|].
  set (vtx := c :: rest) in *.
  pose proof (merkle_root_eq_spec' _ _ Hr) as E.
  unfold merkle_root_of_txids in E. unfold build_merkle_tree_from_txs.
  destruct (build_merkle_tree_from_txids H (map tv_txid vtx)) as [mt|e] eqn:EM; [|discriminate].
  cbn [bind] in *. rewrite E. cbn [bind].
  destruct (cblock_init_witness_part vtx) as [wt [W1 [W2 W3]]].
  assert (HI : header_init prev r = Ok tt).
  { unfold header_init. rewrite Lp, Lr. reflexivity. }
  destruct (bytes_eqb root (zeros 32)) eqn:Z.
  - cbn [bind]. rewrite HI. cbn [bind]. rewrite W1. cbn [bind].
    eexists. split; [reflexivity|]. cbn. repeat split; auto.
  - destruct Hroot as [-> | ->]; [rewrite bytes_eqb_refl in Z; discriminate|].
    rewrite bytes_eqb_refl. cbn [negb bind]. rewrite HI. cbn [bind]. rewrite W1. cbn [bind].
    eexists. split; [reflexivity|]. cbn. repeat split; auto.
Qed.

(* (a)+(b) with the two length side conditions discharged from: H returns 32 bytes, the
   txids have 32 bytes *)
Theorem constructor_spec prev root vtx r :
  (forall x, length (H x) = 32%nat) -> Forall (fun t => length (tv_txid t) = 32%nat) vtx ->
  vtx <> [] -> length prev = 32%nat -> spec_root H (map tv_txid vtx) = Some r ->
  (root = zeros 32 \/ root = r ->
     exists b, cblock_init H prev root vtx = Ok b /\ cb_hashMerkleRoot b = r /\
               cb_vtx b = vtx /\ py_last (cb_vMerkleTree b) = Ok r /\
               calc_merkle_root H (cb_vtx b) = Ok r) /\
  (root <> zeros 32 -> root <> r -> cblock_init H prev root vtx = Err CheckBlockErr).
Proof.
  intros HL F NE Lp Hr. split.
  - intros Hroot.
    assert (Lr : length r = 32%nat).
    { eapply spec_root_len32; [exact HL | | exact Hr]. apply Forall_map. exact F. }
    destruct (constructor_accepts prev root vtx r NE Hr Lp Lr Hroot)
      as [b [E [R [_ [V [L _]]]]]].
    exists b. repeat split; auto. rewrite V.
    destruct (calc_merkle_root_eq_spec vtx NE) as [r' [E1 E2]]. congruence.
  - intros Nz Nr. eapply constructor_refuses; eauto.
Qed.

(* (c) no transactions: nothing is computed, the declared root (even all-zero) is kept *)
Theorem constructor_empty prev root : length prev = 32%nat -> length root = 32%nat ->
  cblock_init H prev root [] =
  Ok {| cb_hashPrevBlock := prev; cb_hashMerkleRoot := root; cb_vMerkleTree := [];
        cb_vWitnessMerkleTree := []; cb_vtx := [] |}.
Proof.
  intros Lp Lr. unfold cblock_init. cbn [bind]. unfold header_init. rewrite Lp, Lr. reflexivity.
Qed.

(* (d) the only exceptions the constructor can raise *)
Theorem constructor_errors prev root vtx e : cblock_init H prev root vtx = Err e ->
  e = CheckBlockErr \/ e = AssertionError.
Proof.
  unfold cblock_init. intros E.
  destruct (cblock_init_witness_part vtx) as [wt [W1 _]]. rewrite W1 in E.
  assert (HI : forall p q, header_init p q = Ok tt \/ header_init p q = Err AssertionError).
  { intros p q. unfold header_init. destruct (length p =? 32)%nat, (length q =? 32)%nat; auto. }
  destruct vtx as [|c rest].
  - cbn [bind] in E. destruct (HI prev root) as [X|X]; rewrite X in E; cbn [bind] in E;
      [discriminate | injection E as <-; auto].
  - unfold build_merkle_tree_from_txs in E.
    destruct (merkle_root_eq_spec (map tv_txid (c :: rest))) as [r [_ E2]]; [discriminate|].
    unfold merkle_root_of_txids in E2.
    destruct (build_merkle_tree_from_txids H (map tv_txid (c :: rest))) as [mt|e']; [|discriminate].
    cbn [bind] in *. rewrite E2 in E. cbn [bind] in E.
    destruct (bytes_eqb root (zeros 32)).
    + cbn [bind] in E. destruct (HI prev r) as [X|X]; rewrite X in E; cbn [bind] in E;
        [discriminate | injection E as <-; auto].
    + destruct (negb (bytes_eqb root r)).
      * cbn [bind] in E. injection E as <-; auto.
      * cbn [bind] in E. destruct (HI prev root) as [X|X]; rewrite X in E; cbn [bind] in E;
          [discriminate | injection E as <-; auto].
Qed.
End MerkleProofs.

(* ---------- commitment search ---------- *)
Section Commit.
Variable magic : bytes.

Lemma commit_scan_spec : forall outs k pos,
  match commit_scan magic outs k pos with
  | Some i =>
      (exists d, i = (k + d)%nat /\ is_commit_index magic outs d) \/
      (pos = Some i /\ Forall (fun s => commit_pattern magic s = false) outs)
  | None => pos = None /\ Forall (fun s => commit_pattern magic s = false) outs
  end.
Proof.
  induction outs as [|s r IH]; intros k pos.
  - cbn [commit_scan]. destruct pos; [right|]; split; auto.
  - cbn [commit_scan]. fold (commit_pattern magic s).
    specialize (IH (S k) (if commit_pattern magic s then Some k else pos)).
    destruct (commit_scan magic r (S k) (if commit_pattern magic s then Some k else pos)) as [i|].
    + destruct IH as [[d [-> [[s' [N P]] L]]] | [E F]].
      * left. exists (S d). split; [lia|]. split.
        -- exists s'. split; [exact N | exact P].
        -- intros j s'' Hj Nj. destruct j as [|j]; [lia|]. apply (L j s''); [lia | exact Nj].
      * destruct (commit_pattern magic s) eqn:P.
        -- injection E as <-. left. exists 0%nat. split; [lia|]. split.
           ++ exists s. split; [reflexivity | exact P].
           ++ intros j s'' Hj Nj. destruct j as [|j]; [lia|]. cbn [nth_error] in Nj.
              rewrite Forall_forall in F. apply F. eapply nth_error_In; eauto.
        -- right. split; [exact E|]. constructor; assumption.
    + destruct IH as [E F]. destruct (commit_pattern magic s) eqn:P; [discriminate|].
      split; [exact E|]. constructor; assumption.
Qed.

(* the index found is the highest matching output of the coinbase; ValueError iff none *)
Theorem commitment_index_spec cb rest :
  match get_witness_commitment_index magic (cb :: rest) with
  | Ok i => is_commit_index magic cb i
  | Err e => e = ValueError /\ Forall (fun s => commit_pattern magic s = false) cb
  end.
Proof.
  unfold get_witness_commitment_index. pose proof (commit_scan_spec cb 0 None) as S.
  destruct (commit_scan magic cb 0 None) as [i|].
  - destruct S as [[d [-> C]] | [E _]]; [exact C | discriminate].
  - destruct S as [_ F]. split; [reflexivity | exact F].
Qed.
End Commit.

(* ---------- weights, parametric in the serialised sizes ---------- *)
Section WeightProofs.
Variable tx : Type.
Variable n_vin n_vout : tx -> nat.
Variable wit_is_null : tx -> bool.
Variable strip : tx -> tx.
Variable size_full size_stripped : tx -> Z.

(* what the wire model has to provide (C01/C02): *)
(* a copy built without the witness serialises to the stripped form *)
Hypothesis strip_size : forall t, size_full (strip t) = size_stripped t.
(* no witness data => the two serialisations coincide *)
Hypothesis null_size : forall t, wit_is_null t = true -> size_full t = size_stripped t.

Theorem calc_weight_spec t : (0 < n_vin t)%nat -> (0 < n_vout t)%nat ->
  calc_weight tx n_vin n_vout wit_is_null strip size_full t
  = Ok (spec_tx_weight tx size_stripped size_full t).
Proof.
  intros Hi Ho. unfold calc_weight, spec_tx_weight.
  apply Nat.ltb_lt in Hi, Ho. rewrite Hi, Ho. cbn [negb].
  destruct (wit_is_null t) eqn:N.
  - rewrite <- (null_size t N). f_equal. lia.
  - cbn zeta. rewrite strip_size. f_equal. lia.
Qed.
Theorem calc_weight_assert t : (n_vin t = 0 \/ n_vout t = 0)%nat ->
  calc_weight tx n_vin n_vout wit_is_null strip size_full t = Err AssertionError.
Proof.
  intros [E|E]; unfold calc_weight; rewrite E; [reflexivity|].
  destruct (0 <? n_vin t)%nat; reflexivity.
Qed.
End WeightProofs.

Section BlockWeightProofs.
Variable tx : Type.
Variable size_full size_stripped : tx -> Z.

Lemma varint_len_eq n : varint_len n = compact_size_len n.
Proof.
  unfold varint_len, compact_size_len.
  destruct (n <? 253) eqn:A; [reflexivity|].
  destruct (n <=? 65535) eqn:B, (n <? 65536) eqn:B'; try lia.
  destruct (n <=? 4294967295) eqn:C, (n <? 4294967296) eqn:C'; lia.
Qed.
Lemma vtx_len_sum iw vtx :
  vtx_len tx size_full size_stripped iw vtx = sumZ tx (if iw then size_full else size_stripped) vtx.
Proof.
  induction vtx as [|t r IH]; cbn [vtx_len sumZ fold_right]; [reflexivity|].
  unfold sumZ in IH. rewrite IH. destruct iw; reflexivity.
Qed.
Lemma block_len_spec iw vtx :
  block_len tx size_full size_stripped iw vtx
  = spec_block_size tx (if iw then size_full else size_stripped) vtx.
Proof.
  unfold block_len, spec_block_size, header_len. rewrite vtx_len_sum, varint_len_eq. lia.
Qed.

(* block weight = 3 * stripped block size + full block size *)
Theorem get_weight_spec vtx :
  get_weight tx size_full size_stripped vtx = spec_block_weight tx size_stripped size_full vtx.
Proof. unfold get_weight, spec_block_weight. rewrite !block_len_spec. lia. Qed.

(* … which is 4 * (header + count) + the sum of the transaction weights *)
Lemma sumZ_weight vtx :
  3 * sumZ tx size_stripped vtx + sumZ tx size_full vtx
  = sumZ tx (spec_tx_weight tx size_stripped size_full) vtx.
Proof.
  induction vtx as [|t r IH]; cbn [sumZ fold_right]; [reflexivity|].
  unfold sumZ in IH. unfold spec_tx_weight at 1. lia.
Qed.
Theorem get_weight_sum vtx :
  get_weight tx size_full size_stripped vtx
  = 4 * (80 + compact_size_len (lenZ vtx)) + sumZ tx (spec_tx_weight tx size_stripped size_full) vtx.
Proof.
  rewrite get_weight_spec. unfold spec_block_weight, spec_block_size.
  rewrite <- sumZ_weight. lia.
Qed.
End BlockWeightProofs.
