(* Proofs/Compact.v – C17: the masks-and-shifts MODEL of the compact codec equals the
   arithmetic SPEC. *)
From BV Require Import Common.Base Model.Compact Spec.Compact.

(* ---------- bridge lemmas: bit operations as arithmetic ---------- *)
Lemma land_ones_mod x n : 0 <= n -> Z.land x (2^n - 1) = x mod 2^n.
Proof. intros. replace (2^n - 1) with (Z.ones n) by (rewrite Z.ones_equiv; lia). now rewrite Z.land_ones. Qed.
Lemma land_mask24 x : Z.land x 0xFFFFFF = x mod 2^24.
Proof. change 0xFFFFFF with (Z.ones 24). now rewrite Z.land_ones. Qed.
Lemma land_mask8 x : Z.land x 0xFF = x mod 2^8.
Proof. change 0xFF with (Z.ones 8). now rewrite Z.land_ones. Qed.
Lemma pow256 k : 0 <= k -> 256 ^ k = 2 ^ (8 * k).
Proof. intros. change 256 with (2^8). now rewrite <- Z.pow_mul_r by lia. Qed.

Lemma bit_length_nbits v : bit_length v = nbits v.
Proof. reflexivity. Qed.
Lemma bit_length_spec v : 0 < v -> 2 ^ (bit_length v - 1) <= v < 2 ^ bit_length v.
Proof.
  intros H. unfold bit_length. destruct (Z.eqb_spec v 0); [lia|].
  replace (Z.log2 v + 1 - 1) with (Z.log2 v) by lia.
  pose proof (Z.log2_spec v H) as L. replace (Z.log2 v + 1) with (Z.succ (Z.log2 v)) by lia. exact L.
Qed.
Lemma bit_length_pos v : 0 < v -> 0 < bit_length v.
Proof. intros H. unfold bit_length. destruct (Z.eqb_spec v 0); [lia|]. pose proof (Z.log2_nonneg v). lia. Qed.
Lemma bit_length_le v j : 0 < v -> 0 <= j -> (v < 2^j <-> bit_length v <= j).
Proof.
  intros Hv Hj. pose proof (bit_length_spec v Hv) as [L U]. pose proof (bit_length_pos v Hv). split; intros H1.
  - destruct (Z_lt_le_dec j (bit_length v)) as [C|C]; [|lia]. exfalso.
    assert (2^j <= 2^(bit_length v - 1)) by (apply Z.pow_le_mono_r; lia). lia.
  - eapply Z.lt_le_trans; [exact U|]. apply Z.pow_le_mono_r; lia.
Qed.

Lemma testbit_high a n k : 0 <= a < 2^n -> n <= k -> Z.testbit a k = false.
Proof.
  intros Ha Hk. destruct (Z.eq_dec a 0) as [->|Hne]; [apply Z.bits_0|].
  apply Z.bits_above_log2; [lia|]. apply Z.log2_lt_pow2; [lia|].
  eapply Z.lt_le_trans; [apply Ha|]. apply Z.pow_le_mono_r; lia.
Qed.
Lemma lor_shiftl_add a b n : 0 <= n -> 0 <= a < 2^n -> 0 <= b -> Z.lor a (Z.shiftl b n) = a + b * 2^n.
Proof.
  intros Hn Ha Hb.
  assert (D : Z.land a (Z.shiftl b n) = 0).
  { apply Z.bits_inj'. intros k Hk. rewrite Z.land_spec, Z.bits_0.
    destruct (Z.ltb_spec k n).
    - rewrite Z.shiftl_spec_low by lia. now rewrite andb_false_r.
    - rewrite (testbit_high a n k) by lia. reflexivity. }
  rewrite <- Z.lxor_lor by exact D. rewrite <- Z.add_nocarry_lxor by exact D.
  now rewrite Z.shiftl_mul_pow2 by lia.
Qed.

(* sign-bit test as arithmetic *)
Lemma land_pow2 c n : 0 <= n -> Z.land c (2^n) = if Z.testbit c n then 2^n else 0.
Proof.
  intros Hn. apply Z.bits_inj'. intros k Hk. rewrite Z.land_spec.
  destruct (Z.eq_dec k n) as [->|Hne].
  - rewrite Z.pow2_bits_true by lia. rewrite andb_true_r.
    destruct (Z.testbit c n) eqn:E; [now rewrite Z.pow2_bits_true by lia | now rewrite Z.bits_0].
  - rewrite Z.pow2_bits_false by lia. rewrite andb_false_r.
    destruct (Z.testbit c n); [now rewrite Z.pow2_bits_false by lia | now rewrite Z.bits_0].
Qed.
Lemma signbit_mod c : (Z.land c 0x800000 =? 0) = negb (c_sign c).
Proof.
  change 0x800000 with (2^23). rewrite land_pow2 by lia. unfold c_sign.
  pose proof (Z.testbit_spec' c 23 ltac:(lia)) as T.
  destruct (Z.testbit c 23); cbn [Z.b2z] in T.
  - change (2^23 =? 0) with false. destruct (Z.leb_spec (2^23) (c mod 2^24)); [reflexivity|].
    exfalso. change (2^24) with (2^23 * 2) in H. rewrite Z.rem_mul_r in H by lia. lia.
  - change (0 =? 0) with true. destruct (Z.leb_spec (2^23) (c mod 2^24)); [|reflexivity].
    exfalso. change (2^24) with (2^23 * 2) in H. rewrite Z.rem_mul_r in H by lia.
    pose proof (Z.mod_pos_bound c (2^23)). lia.
Qed.
Lemma signbit24 x : 0 <= x < 2^24 -> (Z.land x 0x800000 =? 0) = (x <? 2^23).
Proof.
  intros H. rewrite signbit_mod. unfold c_sign. rewrite Z.mod_small by lia.
  destruct (Z.leb_spec (2^23) x), (Z.ltb_spec x (2^23)); simpl; lia || reflexivity.
Qed.

(* ---------- decode: arithmetic view ---------- *)
Lemma from_compact_arith c : 0 <= c < 2^32 ->
  from_compact c = let e := c / 2^24 in let m := c mod 2^24 in
                   if e <=? 3 then m / 2^(8*(3-e)) else m * 2^(8*(e-3)).
Proof.
  intros H. unfold from_compact. rewrite land_mask8, land_mask24, Z.shiftr_div_pow2 by lia.
  assert (E : (c / 2^24) mod 2^8 = c / 2^24) by (apply Z.mod_small; lia).
  rewrite E. cbv zeta. destruct (Z.leb_spec (c / 2^24) 3).
  - rewrite Z.shiftr_div_pow2 by lia. reflexivity.
  - rewrite Z.shiftl_mul_pow2 by lia. reflexivity.
Qed.

Theorem decode_sign_clear c : 0 <= c < 2^32 -> c_sign c = false ->
  from_compact c = spec_decode c.
Proof.
  intros H S. rewrite from_compact_arith by assumption. cbv zeta.
  unfold spec_decode, denote, c_exp, c_mant, c_sign in *.
  apply Z.leb_gt in S.
  assert (M : c mod 2^24 = c mod 2^23).
  { change (2^24) with (2^23 * 2) in *. rewrite Z.rem_mul_r in * by lia. lia. }
  rewrite M. destruct (Z.leb_spec (c / 2^24) 3).
  - rewrite pow256 by lia. reflexivity.
  - rewrite pow256 by lia. reflexivity.
Qed.

(* ---------- encode: arithmetic view ---------- *)
Definition nbytes_of v := Z.shiftr (bit_length v + 7) 3.
Lemma nbytes_of_div v : nbytes_of v = (bit_length v + 7) / 8.
Proof. unfold nbytes_of. now rewrite Z.shiftr_div_pow2 by lia. Qed.
Lemma nbytes_spec v : 0 < v -> 2 ^ (8 * (nbytes_of v - 1)) <= v < 2 ^ (8 * nbytes_of v).
Proof.
  intros H. rewrite nbytes_of_div.
  pose proof (bit_length_spec v H) as [L U]. pose proof (bit_length_pos v H) as B.
  set (bl := bit_length v) in *. set (nb := (bl + 7) / 8).
  assert (8 * nb - 8 < bl <= 8 * nb) by (unfold nb; lia).
  split.
  - eapply Z.le_trans; [|exact L]. apply Z.pow_le_mono_r; lia.
  - eapply Z.lt_le_trans; [exact U|]. apply Z.pow_le_mono_r; lia.
Qed.
Lemma nbytes_pos v : 0 < v -> 1 <= nbytes_of v.
Proof. intros H. rewrite nbytes_of_div. pose proof (bit_length_pos v H). lia. Qed.

Definition mant_exp (v : Z) : Z * Z :=
  let nb := nbytes_of v in
  let m0 := if nb <=? 3 then v * 2^(8*(3-nb)) else v / 2^(8*(nb-3)) in
  if m0 <? 2^23 then (m0, nb) else (m0 / 256, nb + 1).

Lemma m0_range v : 0 < v -> let nb := nbytes_of v in
  let m0 := if nb <=? 3 then v * 2^(8*(3-nb)) else v / 2^(8*(nb-3)) in 2^16 <= m0 < 2^24.
Proof.
  intros H nb m0. pose proof (nbytes_spec v H) as [L U]. pose proof (nbytes_pos v H) as P. fold nb in L, U, P.
  subst m0. destruct (Z.leb_spec nb 3).
  - assert (E : 2^(8*(nb-1)) * 2^(8*(3-nb)) = 2^16) by (rewrite <- Z.pow_add_r by lia; f_equal; lia).
    assert (E' : 2^(8*nb) * 2^(8*(3-nb)) = 2^24) by (rewrite <- Z.pow_add_r by lia; f_equal; lia).
    assert (0 < 2^(8*(3-nb))) by (apply Z.pow_pos_nonneg; lia). nia.
  - assert (E : 2^(8*(nb-1)) = 2^16 * 2^(8*(nb-3))) by (rewrite <- Z.pow_add_r by lia; f_equal; lia).
    assert (E' : 2^(8*nb) = 2^24 * 2^(8*(nb-3))) by (rewrite <- Z.pow_add_r by lia; f_equal; lia).
    assert (Q : 0 < 2^(8*(nb-3))) by (apply Z.pow_pos_nonneg; lia).
    split.
    + apply Z.div_le_lower_bound; lia.
    + apply Z.div_lt_upper_bound; lia.
Qed.

Theorem to_compact_arith v : 0 < v -> to_compact v = fst (mant_exp v) + snd (mant_exp v) * 2^24.
Proof.
  intros H. unfold to_compact, mant_exp. fold (nbytes_of v).
  pose proof (m0_range v H) as R. cbv zeta in R. pose proof (nbytes_pos v H) as P.
  pose proof (nbytes_spec v H) as [L U].
  set (nb := nbytes_of v) in *.
  assert (E0 : (if nb <=? 3 then Z.shiftl (Z.land v 16777215) (8 * (3 - nb)) else Z.land (Z.shiftr v (8 * (nb - 3))) 16777215)
             = (if nb <=? 3 then v * 2^(8*(3-nb)) else v / 2^(8*(nb-3)))).
  { destruct (nb <=? 3) eqn:Hc.
    - apply Z.leb_le in Hc. rewrite land_mask24, Z.shiftl_mul_pow2 by lia. rewrite Z.mod_small; [reflexivity|].
      split; [lia|]. eapply Z.lt_le_trans; [exact U|]. apply Z.pow_le_mono_r; lia.
    - apply Z.leb_gt in Hc. rewrite land_mask24, Z.shiftr_div_pow2 by lia. rewrite Z.mod_small; [reflexivity|]. lia. }
  rewrite E0. set (m0 := if nb <=? 3 then v * 2 ^ (8 * (3 - nb)) else v / 2 ^ (8 * (nb - 3))) in *.
  rewrite (signbit24 m0) by lia.
  destruct (Z.ltb_spec m0 (2^23)); cbn [negb fst snd].
  - apply lor_shiftl_add; lia.
  - rewrite Z.shiftr_div_pow2 by lia. change (2^8) with 256. apply lor_shiftl_add; [lia| |lia].
    split; [apply Z.div_pos; lia|]. apply Z.div_lt_upper_bound; lia.
Qed.

Lemma mant_range v : 0 < v -> 2^15 <= fst (mant_exp v) < 2^23.
Proof.
  intros H. unfold mant_exp. pose proof (m0_range v H) as R. cbv zeta in R.
  set (m0 := if nbytes_of v <=? 3 then _ else _) in *.
  destruct (Z.ltb_spec m0 (2^23)); cbn [fst]; [lia|].
  split; [apply Z.div_le_lower_bound; lia | apply Z.div_lt_upper_bound; lia].
Qed.
Lemma exp_range v : 0 < v -> v < 2^256 -> 1 <= snd (mant_exp v) <= 33.
Proof.
  intros H U. unfold mant_exp. pose proof (nbytes_pos v H) as P.
  assert (nbytes_of v <= 32).
  { rewrite nbytes_of_div. apply (bit_length_le v 256) in U; lia. }
  destruct (_ <? 2^23); cbn [snd]; lia.
Qed.
Lemma to_compact_0 : to_compact 0 = 0.
Proof. reflexivity. Qed.

Theorem encode_sign_clear v : 0 <= v -> c_sign (to_compact v) = false.
Proof.
  intros H. destruct (Z.eq_dec v 0) as [->|Hne]; [reflexivity|].
  rewrite to_compact_arith by lia. pose proof (mant_range v ltac:(lia)) as R.
  unfold c_sign. rewrite Z_mod_plus_full, Z.mod_small by lia. apply Z.leb_gt. lia.
Qed.
Theorem encode_range v : 0 <= v < 2^256 -> 0 <= to_compact v < 2^32.
Proof.
  intros H. destruct (Z.eq_dec v 0) as [->|Hne]; [rewrite to_compact_0; lia|].
  rewrite to_compact_arith by lia. pose proof (mant_range v ltac:(lia)). pose proof (exp_range v ltac:(lia) ltac:(lia)). lia.
Qed.

(* size of the sign-padded magnitude vs. the renormalisation branch *)
Lemma m0_small_iff v : 0 < v -> let nb := nbytes_of v in
  let m0 := if nb <=? 3 then v * 2^(8*(3-nb)) else v / 2^(8*(nb-3)) in
  (m0 < 2^23 <-> bit_length v <= 8 * nb - 1).
Proof.
  intros H nb m0. pose proof (nbytes_pos v H) as P. fold nb in P.
  rewrite <- (bit_length_le v (8 * nb - 1)) by lia. subst m0.
  destruct (Z.leb_spec nb 3).
  - assert (E : 2^(8*nb-1) * 2^(8*(3-nb)) = 2^23) by (rewrite <- Z.pow_add_r by lia; f_equal; lia).
    assert (0 < 2^(8*(3-nb))) by (apply Z.pow_pos_nonneg; lia). split; nia.
  - assert (E : 2^(8*nb-1) = 2^23 * 2^(8*(nb-3))) by (rewrite <- Z.pow_add_r by lia; f_equal; lia).
    assert (Q : 0 < 2^(8*(nb-3))) by (apply Z.pow_pos_nonneg; lia).
    rewrite E. split; intros.
    + destruct (Z_lt_le_dec v (2^23 * 2^(8*(nb-3)))) as [C|C]; [assumption|]. exfalso.
      assert (2^23 <= v / 2^(8*(nb-3))) by (apply Z.div_le_lower_bound; lia). lia.
    + apply Z.div_lt_upper_bound; lia.
Qed.
Lemma size_padded_exp v : 0 < v -> size_padded v = snd (mant_exp v).
Proof.
  intros H. unfold mant_exp, size_padded. rewrite <- bit_length_nbits.
  pose proof (m0_small_iff v H) as I. cbv zeta in I.
  pose proof (bit_length_pos v H). pose proof (nbytes_of_div v) as D.
  set (m0 := if nbytes_of v <=? 3 then _ else _) in *.
  destruct (Z.ltb_spec m0 (2^23)); cbn [snd]; lia.
Qed.

Theorem decode_encode v : 0 <= v < 2^256 -> from_compact (to_compact v) = trunc3 v.
Proof.
  intros H. destruct (Z.eq_dec v 0) as [->|Hne]; [reflexivity|].
  assert (Hv : 0 < v) by lia.
  rewrite from_compact_arith by (apply encode_range; lia). cbv zeta.
  rewrite to_compact_arith by lia.
  pose proof (mant_range v Hv) as MR. pose proof (exp_range v Hv ltac:(lia)) as ER.
  unfold trunc3. rewrite (size_padded_exp v Hv).
  rewrite Z.div_add, Z_mod_plus_full, Z.div_small, Z.mod_small by lia. cbn [Z.add].
  pose proof (nbytes_spec v Hv) as [L U]. pose proof (nbytes_pos v Hv) as P.
  unfold mant_exp in *. pose proof (m0_range v Hv) as R. cbv zeta in R.
  set (nb := nbytes_of v) in *.
  set (m0 := if nb <=? 3 then _ else _) in *.
  destruct (Z.ltb_spec m0 (2^23)) as [C|C]; cbn [fst snd] in *.
  - (* no renormalisation *)
    subst m0. destruct (Z.leb_spec nb 3).
    + rewrite Z.div_mul; [reflexivity|]. apply Z.pow_nonzero; lia.
    + rewrite pow256 by lia. reflexivity.
  - subst m0. destruct (Z.leb_spec nb 3) as [N|N].
    + destruct (Z.leb_spec (nb + 1) 3).
      * assert (E : 2^(8*(3-nb)) = 256 * 2^(8*(3-(nb+1)))).
        { change 256 with (2^8). rewrite <- Z.pow_add_r by lia. f_equal. lia. }
        rewrite E. rewrite Z.mul_assoc, (Z.mul_comm v 256), <- Z.mul_assoc.
        rewrite (Z.mul_comm 256), Z.div_mul by lia. rewrite Z.div_mul; [reflexivity|]. apply Z.pow_nonzero; lia.
      * assert (nb = 3) by lia. subst nb. rewrite H1 in *. change (8 * (3 - 3)) with 0. change (2^0) with 1.
        rewrite Z.mul_1_r. change (3 + 1 - 3) with 1. change (8 * 1) with 8. change (256 ^ 1) with 256. change (2^8) with 256. reflexivity.
    + destruct (Z.leb_spec (nb + 1) 3); [lia|].
      rewrite Z.div_div by (try lia; apply Z.pow_pos_nonneg; lia).
      assert (E : 2 ^ (8 * (nb - 3)) * 256 = 2 ^ (8 * (nb + 1 - 3))).
      { change 256 with (2^8). rewrite <- Z.pow_add_r by lia. f_equal. lia. }
      rewrite E. rewrite pow256 by lia. reflexivity.
Qed.

(* ---------- canonical values ---------- *)
Lemma bit_length_mul_pow2 a k : 0 < a -> 0 <= k -> bit_length (a * 2^k) = bit_length a + k.
Proof.
  intros Ha Hk. unfold bit_length. assert (0 < 2^k) by (apply Z.pow_pos_nonneg; lia).
  destruct (Z.eqb_spec (a * 2^k) 0); [nia|]. destruct (Z.eqb_spec a 0); [lia|].
  rewrite Z.log2_mul_pow2 by lia. lia.
Qed.

Lemma mant_exp_unique v m e : 0 < v -> 1 <= e ->
  size_padded v = e ->
  (e <= 3 -> m = v * 2^(8*(3-e))) -> (3 < e -> m = v / 2^(8*(e-3))) ->
  mant_exp v = (m, e).
Proof.
  intros Hv He S A B. pose proof (size_padded_exp v Hv) as SE. rewrite S in SE.
  unfold mant_exp in *. pose proof (nbytes_pos v Hv) as P.
  set (nb := nbytes_of v) in *. set (m0 := if nb <=? 3 then _ else _) in *.
  clear S. destruct (Z.ltb_spec m0 (2^23)) as [C|C]; cbn [snd] in SE; subst e; f_equal.
  - subst m0. destruct (Z.leb_spec nb 3); [rewrite A by lia|rewrite B by lia]; reflexivity.
  - subst m0. destruct (Z.leb_spec nb 3) as [N|N].
    + destruct (Z.leb_spec (nb + 1) 3).
      * rewrite A by lia.
        assert (E : 2^(8*(3-nb)) = 2^(8*(3-(nb+1))) * 256).
        { change 256 with (2^8). rewrite <- Z.pow_add_r by lia. f_equal. lia. }
        rewrite E, Z.mul_assoc, Z.div_mul by lia. reflexivity.
      * assert (nb = 3) by lia. rewrite B by lia. rewrite H0.
        change (8 * (3 - 3)) with 0. change (8 * (3 + 1 - 3)) with 8. change (2^0) with 1. change (2^8) with 256.
        now rewrite Z.mul_1_r.
    + rewrite B by lia. rewrite Z.div_div by (try lia; apply Z.pow_pos_nonneg; lia).
      f_equal. change 256 with (2^8). rewrite <- Z.pow_add_r by lia. f_equal. lia.
Qed.

Lemma bl_mant m : 2^15 <= m < 2^23 -> 16 <= bit_length m <= 23.
Proof.
  intros [L U]. pose proof (bit_length_le m 23 ltac:(lia) ltac:(lia)) as A.
  pose proof (bit_length_le m 15 ltac:(lia) ltac:(lia)) as B. lia.
Qed.

Theorem canonical_fixed c : canonical c = true -> to_compact (from_compact c) = c.
Proof.
  unfold canonical. intros H. apply orb_true_iff in H as [H|H].
  - apply Z.eqb_eq in H. subst c. reflexivity.
  - cbv zeta in H. repeat (apply andb_true_iff in H as [H ?]).
    unfold c_exp in *. apply Z.leb_le in H. apply Z.leb_le in H3. apply Z.ltb_lt in H2. apply Z.leb_le in H1.
    assert (Hc : 0 <= c < 2^32) by lia.
    rewrite from_compact_arith by assumption. cbv zeta.
    set (e := c / 2^24) in *. set (m := c mod 2^24) in *.
    assert (Cdec : c = m + e * 2^24) by (subst e m; lia).
    pose proof (bl_mant m ltac:(lia)) as BM.
    set (v := if e <=? 3 then m / 2^(8*(3-e)) else m * 2^(8*(e-3))).
    assert (Hv : 0 < v /\ bit_length m = bit_length v + 8 * (3 - e) /\
                 (e <= 3 -> m = v * 2^(8*(3-e))) /\ (3 < e -> m = v / 2^(8*(e-3)))).
    { subst v. destruct (Z.leb_spec e 3) as [E|E].
      - assert (D : m = m / 2^(8*(3-e)) * 2^(8*(3-e))).
        { destruct (Z.leb_spec e 2).
          - apply Z.eqb_eq in H0. rewrite pow256 in H0 by lia.
            pose proof (Z.div_mod m (2^(8*(3-e))) ltac:(apply Z.pow_nonzero; lia)). lia.
          - assert (e = 3) by lia. rewrite H5. change (8 * (3 - 3)) with 0. change (2^0) with 1. rewrite Z.div_1_r. lia. }
        assert (0 < 2^(8*(3-e))) by (apply Z.pow_pos_nonneg; lia).
        assert (0 < m / 2^(8*(3-e))) by nia.
        split; [lia|]. split; [|split; [intros _; exact D|lia]].
        rewrite D at 1. rewrite bit_length_mul_pow2 by lia. lia.
      - assert (0 < 2^(8*(e-3))) by (apply Z.pow_pos_nonneg; lia).
        split; [nia|]. split; [rewrite bit_length_mul_pow2 by lia; lia|].
        split; [lia|]. intros _. rewrite Z.div_mul by lia. reflexivity. }
    destruct Hv as (Hv & BL & A & B).
    rewrite to_compact_arith by assumption.
    rewrite (mant_exp_unique v m e Hv H); try assumption.
    + cbn [fst snd]. lia.
    + unfold size_padded. rewrite <- bit_length_nbits. lia.
Qed.

Theorem encode_canonical v : 0 <= v < 2^256 -> canonical (to_compact v) = true.
Proof.
  intros H. destruct (Z.eq_dec v 0) as [->|Hne]; [reflexivity|].
  assert (Hv : 0 < v) by lia. unfold canonical. apply orb_true_iff. right. cbv zeta.
  rewrite to_compact_arith by assumption.
  pose proof (mant_range v Hv) as MR. pose proof (exp_range v Hv ltac:(lia)) as ER.
  unfold c_exp. rewrite Z.div_add, Z_mod_plus_full, Z.div_small, Z.mod_small by lia. cbn [Z.add].
  repeat (apply andb_true_iff; split); try (apply Z.leb_le; lia); try (apply Z.ltb_lt; lia).
  pose proof (nbytes_pos v Hv) as P. pose proof (nbytes_spec v Hv) as [L U].
  unfold mant_exp in *. set (nb := nbytes_of v) in *. set (m0 := if nb <=? 3 then _ else _) in *.
  destruct (Z.ltb_spec m0 (2^23)) as [C|C]; cbn [fst snd] in *.
  - destruct (Z.leb_spec nb 2); [|reflexivity]. apply Z.eqb_eq. subst m0.
    destruct (Z.leb_spec nb 3); [|lia]. rewrite pow256 by lia. apply Z_mod_mult.
  - destruct (Z.leb_spec (nb + 1) 2); [|reflexivity]. apply Z.eqb_eq. subst m0.
    destruct (Z.leb_spec nb 3); [|lia]. assert (nb = 1) by lia. rewrite H2.
    change (8 * (3 - 1)) with 16. change (3 - (1 + 1)) with 1. change (256 ^ 1) with 256.
    change (2^16) with (256 * 256). rewrite Z.mul_assoc, Z.div_mul by lia. apply Z_mod_mult.
Qed.

(* ---------- proof of work ---------- *)
Lemma uint256_from_str_32 h : length h = 32%nat -> uint256_from_str h = Ok (le256 h).
Proof.
  intros L. unfold uint256_from_str. rewrite <- L, firstn_all, Nat.eqb_refl. reflexivity.
Qed.

Theorem check_pow_iff limit hash c : 0 <= c < 2^32 -> length hash = 32%nat -> limit < 2^256 ->
  (check_pow limit hash c = Ok tt <-> pow_ok limit hash c) /\
  (check_pow limit hash c = Ok tt \/ check_pow limit hash c = Err CheckPowErr).
Proof.
  intros Hc Hh Hl. unfold check_pow, pow_ok. rewrite signbit_mod, negb_involutive.
  destruct (c_sign c) eqn:S; cbn [orb].
  - split; [split; [discriminate|intros [? _]; discriminate]|right; reflexivity].
  - rewrite (decode_sign_clear c Hc S). rewrite uint256_from_str_32 by assumption. cbn [bind].
    destruct (Z.ltb_spec 0 (spec_decode c)); cbn [andb negb];
      [destruct (Z.leb_spec (spec_decode c) limit); cbn [negb]|].
    + destruct (le256 hash >? spec_decode c) eqn:G.
      * split; [split; [discriminate|]|right; reflexivity]. intros (_ & _ & _ & _ & Q). apply Z.gtb_lt in G. lia.
      * split; [split; [intros _|reflexivity]|left; reflexivity].
        assert (le256 hash <= spec_decode c) by (destruct (Z.gtb_spec (le256 hash) (spec_decode c)); [discriminate|lia]). repeat split; lia.
    + split; [split; [discriminate|intros (_ & _ & _ & Q & _); lia]|right; reflexivity].
    + split; [split; [discriminate|intros (_ & Q & _); lia]|right; reflexivity].
Qed.
