(* Proofs/BloomBits.v – bridge library for C20: bitwise operations on unbounded integers
   versus arithmetic mod 2^n (from pilots/mod32.v), rotation, disjoint or/xor as addition,
   single-bit updates of a byte.  Genuinely bitwise arguments (Z.bits_inj') live only here. *)
From BV Require Import Common.Base Spec.Bloom.

Lemma land_ones32 x : Z.land x 4294967295 = x mod 2^32.
Proof. change 4294967295 with (Z.ones 32). now rewrite Z.land_ones. Qed.
Lemma land_ones_l x n : 0 <= n -> Z.land (Z.ones n) x = x mod 2^n.
Proof. intros. rewrite Z.land_comm. now apply Z.land_ones. Qed.

(* bitwise operations commute with reduction mod 2^n *)
Lemma lxor_mod a b n : 0 <= n -> (Z.lxor a b) mod 2^n = Z.lxor (a mod 2^n) (b mod 2^n).
Proof.
  intros. rewrite <- !Z.land_ones by assumption. apply Z.bits_inj'. intros k Hk.
  rewrite !Z.land_spec, !Z.lxor_spec, !Z.land_spec.
  destruct (Z.testbit a k), (Z.testbit b k), (Z.testbit (Z.ones n) k); reflexivity.
Qed.
Lemma lor_mod a b n : 0 <= n -> (Z.lor a b) mod 2^n = Z.lor (a mod 2^n) (b mod 2^n).
Proof. intros. rewrite <- !Z.land_ones by assumption. apply Z.land_lor_distr_l. Qed.

Lemma lxor_range a b n : 0 <= n -> 0 <= a < 2^n -> 0 <= b < 2^n -> 0 <= Z.lxor a b < 2^n.
Proof.
  intros Hn Ha Hb. assert (P : 0 < 2^n) by (apply Z.pow_pos_nonneg; lia).
  assert (E : Z.lxor a b = (Z.lxor a b) mod 2^n).
  { rewrite lxor_mod by lia. now rewrite !Z.mod_small by lia. }
  rewrite E. apply Z.mod_pos_bound. lia.
Qed.
Lemma lor_range a b n : 0 <= n -> 0 <= a < 2^n -> 0 <= b < 2^n -> 0 <= Z.lor a b < 2^n.
Proof.
  intros Hn Ha Hb. assert (P : 0 < 2^n) by (apply Z.pow_pos_nonneg; lia).
  assert (E : Z.lor a b = (Z.lor a b) mod 2^n).
  { rewrite lor_mod by lia. now rewrite !Z.mod_small by lia. }
  rewrite E. apply Z.mod_pos_bound. lia.
Qed.

Lemma testbit_above a n k : 0 <= a < 2^n -> n <= k -> Z.testbit a k = false.
Proof.
  intros Ha Hk. destruct (Z.eq_dec a 0) as [->|Hne]; [apply Z.bits_0|].
  apply Z.bits_above_log2; [lia|]. apply Z.log2_lt_pow2; [lia|].
  eapply Z.lt_le_trans; [apply Ha|]. apply Z.pow_le_mono_r; lia.
Qed.

(* a multiple of 2^i and a value below 2^i have disjoint bits *)
Lemma disjoint_land k b i : 0 <= i -> 0 <= b < 2^i -> Z.land (k * 2^i) b = 0.
Proof.
  intros Hi Hb. apply Z.bits_inj'. intros n Hn. rewrite Z.land_spec, Z.bits_0.
  destruct (Z.ltb_spec n i).
  - rewrite Z.mul_pow2_bits_low by lia. reflexivity.
  - rewrite (testbit_above b i n) by lia. now rewrite andb_false_r.
Qed.
Lemma lor_disjoint_add k b i : 0 <= i -> 0 <= b < 2^i -> Z.lor (k * 2^i) b = k * 2^i + b.
Proof.
  intros Hi Hb. pose proof (disjoint_land k b i Hi Hb) as D.
  rewrite <- Z.lxor_lor by exact D. now rewrite <- Z.add_nocarry_lxor by exact D.
Qed.
Lemma lxor_disjoint_add k b i : 0 <= i -> 0 <= b < 2^i -> Z.lxor (k * 2^i) b = k * 2^i + b.
Proof.
  intros Hi Hb. pose proof (disjoint_land k b i Hi Hb) as D.
  now rewrite <- Z.add_nocarry_lxor by exact D.
Qed.

(* Python: ((x << r) & 0xFFFFFFFF) | (x >> (32 - r)) on a 32-bit x is the rotation *)
Lemma rotl_py x r : 0 <= x < 2^32 -> 0 < r < 32 ->
  Z.lor (Z.land (Z.shiftl x r) 4294967295) (Z.shiftr x (32 - r)) = rotl32 x r.
Proof.
  intros Hx Hr. unfold rotl32. rewrite land_ones32, Z.shiftl_mul_pow2, Z.shiftr_div_pow2 by lia.
  assert (P : 0 < 2^r) by (apply Z.pow_pos_nonneg; lia).
  assert (Q : 0 < 2^(32-r)) by (apply Z.pow_pos_nonneg; lia).
  assert (PQ : 2^(32-r) * 2^r = 2^32) by (rewrite <- Z.pow_add_r by lia; f_equal; lia).
  assert (L : 0 <= x / 2^(32-r) < 2^r).
  { split; [apply Z.div_pos; lia|]. apply Z.div_lt_upper_bound; lia. }
  assert (E : (x * 2^r) mod 2^32 = (x mod 2^(32-r)) * 2^r).
  { rewrite <- PQ. now rewrite Z.mul_mod_distr_r by lia. }
  rewrite E. apply lor_disjoint_add; lia.
Qed.

(* xor into the finalisation: only the shifted operand is masked *)
Lemma fmix_step_mod a s : 0 <= s ->
  (Z.lxor a (Z.shiftr (Z.land a 4294967295) s)) mod 2^32
  = Z.lxor (a mod 2^32) ((a mod 2^32) / 2^s).
Proof.
  intros Hs. rewrite land_ones32, Z.shiftr_div_pow2 by lia. rewrite lxor_mod by lia.
  f_equal. apply Z.mod_small.
  assert (0 <= a mod 2^32 < 2^32) by (apply Z.mod_pos_bound; lia).
  assert (0 < 2^s) by (apply Z.pow_pos_nonneg; lia).
  split; [apply Z.div_pos; lia|].
  apply Z.le_lt_trans with (a mod 2^32); [|lia]. apply Z.div_le_upper_bound; [lia|]. nia.
Qed.

(* ---------- single bits of a byte ---------- *)
Lemma testbit_lor_pow2 v j m : 0 <= j -> 0 <= m ->
  Z.testbit (Z.lor v (2^j)) m = Z.testbit v m || (m =? j).
Proof.
  intros Hj Hm. rewrite Z.lor_spec. f_equal. rewrite Z.pow2_bits_eqb by lia.
  now rewrite Z.eqb_sym.
Qed.
Lemma lor_pow2_byte v j : 0 <= v < 256 -> 0 <= j < 8 -> 0 <= Z.lor v (2^j) < 256.
Proof.
  intros Hv Hj. change 256 with (2^8). apply lor_range; [lia|exact Hv|].
  split; [apply Z.pow_nonneg; lia|]. apply Z.pow_lt_mono_r; lia.
Qed.
Lemma land_pow2_testbit v j : 0 <= j -> (Z.land v (2^j) =? 0) = negb (Z.testbit v j).
Proof.
  intros Hj. destruct (Z.testbit v j) eqn:E; cbn [negb].
  - apply Z.eqb_neq. intros H0. assert (T : Z.testbit (Z.land v (2^j)) j = true).
    { rewrite Z.land_spec, E, Z.pow2_bits_true by lia. reflexivity. }
    rewrite H0, Z.bits_0 in T. discriminate.
  - apply Z.eqb_eq. apply Z.bits_inj'. intros k Hk. rewrite Z.land_spec, Z.bits_0.
    destruct (Z.eq_dec k j) as [->|Hne]; [now rewrite E|].
    rewrite Z.pow2_bits_false by lia. now rewrite andb_false_r.
Qed.
