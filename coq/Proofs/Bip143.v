(* Proofs/Bip143.v – C04: the BIP143 branch of SignatureHash equals the BIP143 digest
   over the whole wire range of every field. *)
From BV Require Import Common.Base Common.Codec Common.PyList Common.PyBits Common.Tx
  Gen.Sighash Spec.Wire Spec.Bip143 Model.Wire Model.Bip143 Proofs.Wire.

Lemma pack_u32 v : in_u 4 v -> pack U32 v = Ok (u 4 v).
Proof.
  intros [A B]. unfold pack, in_fmt. cbn [f_signed f_width U32].
  destruct (Z.leb_spec 0 v); [|lia]. destruct (Z.ltb_spec v (256 ^ Z.of_nat 4)); [|lia]. reflexivity.
Qed.
Lemma pack_i v n (f : fmt) : f = {| f_signed := true; f_width := n |} -> in_i n v -> pack f v = Ok (i n v).
Proof.
  intros -> [A B]. unfold pack, in_fmt. cbn [f_signed f_width].
  destruct (Z.leb_spec (- (256 ^ Z.of_nat n / 2)) v); [|lia]. destruct (Z.ltb_spec v (256 ^ Z.of_nat n / 2)); [|lia].
  cbn [andb]. unfold fmt_codec. cbn [f_signed f_width le_int enc]. now rewrite i_eq.
Qed.
Lemma concat_res_seq l : Forall (fun x => in_u 4 (ti_seq x)) l ->
  concat_res (map (fun x => pack U32 (ti_seq x)) l) = Ok (concat (map (fun x => u 4 (ti_seq x)) l)).
Proof.
  induction 1 as [|x l Hx F IH]; [reflexivity|]. cbn [map concat_res concat].
  rewrite pack_u32 by exact Hx. cbn [bind]. rewrite IH. reflexivity.
Qed.

Lemma anyone_eq ht : 0 <= ht < 256 -> negb (Z.land ht SIGHASH_ANYONECANPAY =? 0) = ht_anyone ht.
Proof.
  intros H. change SIGHASH_ANYONECANPAY with 0x80. rewrite land_80 by exact H. unfold ht_anyone.
  rewrite Z.mod_small by exact H. destruct (Z.ltb_spec ht 128), (Z.leb_spec 128 ht); try reflexivity; lia.
Qed.
Lemma base_eq ht : Z.land ht mask_1f = ht_base ht.
Proof. change mask_1f with 0x1f. exact (land_1f ht). Qed.

Section P.
Variable H : bytes -> bytes.

Theorem bip143_correct script t idx x ht amount :
  in_i 4 (tx_version t) -> Forall (fun y => in_u 4 (ti_seq y)) (tx_vin t) -> in_u 4 (tx_lock t) ->
  nth_error (tx_vin t) idx = Some x -> in_i 8 amount -> 0 <= ht < 256 ->
  bip143 H script t (Z.of_nat idx) ht amount = Ok (H (bip143_preimage H script t idx x ht amount)).
Proof.
  intros Hv Fs Hl Hx Ha Hh. unfold bip143.
  rewrite anyone_eq, base_eq by exact Hh.
  assert (Hin : 0 <= Z.of_nat idx < len (tx_vin t)).
  { unfold len. split; [lia|]. apply Nat2Z.inj_lt. apply nth_error_Some. congruence. }
  assert (Enth : py_nth (tx_vin t) (Z.of_nat idx) = Ok x).
  { apply py_nth_in_range; [exact Hin|]. rewrite Nat2Z.id. exact Hx. }
  assert (Hxs : in_u 4 (ti_seq x)).
  { rewrite Forall_forall in Fs. apply Fs. eapply nth_error_In; exact Hx. }
  change (nth_fmt 0 fmt_bip143) with U32. change (nth_fmt 3 fmt_bip143) with U32. change (nth_fmt 4 fmt_bip143) with U32.
  pose proof (pack_i (tx_version t) 4 (nth_fmt 1 fmt_bip143) eq_refl Hv) as Pv.
  pose proof (pack_i amount 8 (nth_fmt 2 fmt_bip143) eq_refl Ha) as Pa.
  assert (Ph : pack (nth_fmt 5 fmt_bip143) ht = Ok (u 4 ht)).
  { rewrite (pack_i ht 4 (nth_fmt 5 fmt_bip143) eq_refl) by (unfold in_i; change (256 ^ Z.of_nat 4 / 2) with 2147483648; lia).
    unfold i, u. rewrite Z.mod_small; [reflexivity|]. change (256 ^ Z.of_nat 4) with 4294967296. lia. }
  pose proof (pack_u32 _ Hxs) as Ps. pose proof (pack_u32 _ Hl) as Pl. pose proof (concat_res_seq _ Fs) as Pq.
  unfold bip143_preimage, hashPrevouts, hashSequence, hashOutputs.
  change SIGHASH_SINGLE with 3. change SIGHASH_NONE with 2.
  (* the SINGLE output look-up *)
  assert (Eo : (if Z.of_nat idx <? len (tx_vout t)
                then do o <- py_nth (tx_vout t) (Z.of_nat idx); Ok (H (enc txout_c o)) else Ok (zeros 32))
               = Ok (match nth_error (tx_vout t) idx with Some o => H (wire_txout o) | None => zero32 end)).
  { unfold len. destruct (Z.ltb_spec (Z.of_nat idx) (Z.of_nat (length (tx_vout t)))) as [L|L].
    - destruct (nth_error (tx_vout t) idx) as [o|] eqn:E; [|apply nth_error_None in E; lia].
      rewrite (py_nth_in_range (tx_vout t) (Z.of_nat idx) o) by (unfold len; try lia; rewrite Nat2Z.id; exact E).
      cbn [bind]. now rewrite enc_txout.
    - destruct (nth_error (tx_vout t) idx) as [o|] eqn:E; [|reflexivity].
      assert (idx < length (tx_vout t))%nat by (apply nth_error_Some; congruence). lia. }
  destruct (ht_anyone ht); cbn [negb andb orb bind];
    destruct (ht_base ht =? 3) eqn:E3; destruct (ht_base ht =? 2) eqn:E2; cbn [negb andb orb bind];
    try (apply Z.eqb_eq in E3; apply Z.eqb_eq in E2; lia);
    rewrite ?Eo, ?Pq; cbn [bind]; rewrite Pv; cbn [bind]; rewrite Enth; cbn [bind];
    rewrite Pa; cbn [bind]; rewrite Ps; cbn [bind]; rewrite Pl; cbn [bind]; rewrite Ph; cbn [bind];
    rewrite ?(map_ext _ _ enc_txout); reflexivity.
Qed.
End P.
