(* Proofs/ScriptIter.v – C08: the index-walking MODEL of CScript.raw_iter equals the reference
   walk with GetOp (Spec.ref_parse) on every byte string; the operations partition the
   script; a failure is exactly a push that overruns the script. *)
From BV Require Import Common.Base Model.Script Spec.Script.

(* ---------- lenZ arithmetic ---------- *)
Lemma lenZ_nil {A} : lenZ (@nil A) = 0.
Proof. reflexivity. Qed.
Lemma lenZ_cons {A} (x : A) l : lenZ (x :: l) = 1 + lenZ l.
Proof. unfold lenZ. cbn [length]. lia. Qed.
Lemma lenZ_app {A} (a b : list A) : lenZ (a ++ b) = lenZ a + lenZ b.
Proof. unfold lenZ. rewrite app_length. lia. Qed.
Lemma lenZ_nonneg {A} (l : list A) : 0 <= lenZ l.
Proof. unfold lenZ. lia. Qed.
Lemma lenZ_firstn {A} n (l : list A) : 0 <= n <= lenZ l -> lenZ (firstn (Z.to_nat n) l) = n.
Proof. unfold lenZ. intros H. rewrite firstn_length. lia. Qed.
Lemma lenZ_skipn {A} n (l : list A) : 0 <= n <= lenZ l -> lenZ (skipn (Z.to_nat n) l) = lenZ l - n.
Proof. unfold lenZ. intros H. rewrite skipn_length. lia. Qed.
Lemma lenZ_le_enc n v : lenZ (le_enc n v) = Z.of_nat n.
Proof. unfold lenZ. now rewrite le_enc_length. Qed.
Global Hint Rewrite @lenZ_nil @lenZ_cons @lenZ_app lenZ_le_enc : lenz.
Ltac lenz := autorewrite with lenz in *.

(* ---------- Python indexing / slicing of  pre ++ rest  at offset |pre| ---------- *)
Lemma py_index_app pre rest k b :
  nth_error rest k = Some b -> py_index (pre ++ rest) (lenZ pre + Z.of_nat k) = Ok (b2z b).
Proof.
  intros H. unfold py_index.
  assert (L : (k < length rest)%nat) by (apply nth_error_Some; congruence).
  pose proof (lenZ_nonneg pre) as P.
  destruct (Z.ltb_spec (lenZ pre + Z.of_nat k) 0); [lia|].
  lenz. unfold lenZ in *.
  destruct (Z.ltb_spec (Z.of_nat (length pre) + Z.of_nat k) 0); [lia|].
  destruct (Z.leb_spec (Z.of_nat (length pre) + Z.of_nat (length rest)) (Z.of_nat (length pre) + Z.of_nat k)); [lia|].
  cbn [orb].
  replace (Z.to_nat (Z.of_nat (length pre) + Z.of_nat k)) with (length pre + k)%nat by lia.
  rewrite nth_error_app2 by lia. replace (length pre + k - length pre)%nat with k by lia.
  now rewrite H.
Qed.
Lemma py_index_app0 pre b r : py_index (pre ++ b :: r) (lenZ pre) = Ok (b2z b).
Proof. replace (lenZ pre) with (lenZ pre + Z.of_nat 0) by lia. now apply py_index_app. Qed.

Lemma firstn_all_ge {A} n (l : list A) : (length l <= n)%nat -> firstn n l = l.
Proof. intros. now apply firstn_all2. Qed.
Lemma py_slice_app pre r n : 0 <= n ->
  py_slice (pre ++ r) (lenZ pre) (lenZ pre + n) = firstn (Z.to_nat n) r.
Proof.
  intros Hn. unfold py_slice. lenz. pose proof (lenZ_nonneg pre). pose proof (lenZ_nonneg r).
  rewrite (Z.min_l (lenZ pre)) by lia.
  replace (Z.to_nat (lenZ pre)) with (length pre) by (unfold lenZ; lia).
  rewrite skipn_app, skipn_all, Nat.sub_diag. cbn [app skipn].
  destruct (Z.le_ge_cases n (lenZ r)).
  - rewrite Z.min_l by lia. f_equal. lia.
  - rewrite Z.min_r by lia. replace (lenZ pre + lenZ r - lenZ pre) with (lenZ r) by lia.
    unfold lenZ in *. rewrite Nat2Z.id. rewrite !firstn_all_ge by lia. reflexivity.
Qed.
Lemma lenZ_firstn_lt {A} n (r : list A) : 0 <= n ->
  (lenZ (firstn (Z.to_nat n) r) <? n) = (lenZ r <? n).
Proof.
  intros Hn. unfold lenZ. rewrite firstn_length.
  destruct (Z.ltb_spec (Z.of_nat (length r)) n), (Z.ltb_spec (Z.of_nat (Nat.min (Z.to_nat n) (length r))) n); lia.
Qed.

(* ---------- one step of both walks ---------- *)
Ltac opc := unfold OP_PUSHDATA1, OP_PUSHDATA2, OP_PUSHDATA4, OP_0, OP_1, OP_16, OP_1NEGATE in *.

Lemma app_assoc_cons {A} (pre : list A) b r : pre ++ b :: r = (pre ++ [b]) ++ r.
Proof. now rewrite <- app_assoc. Qed.

Lemma shift8 x : Z.shiftl x 8 = 256 * x.
Proof. rewrite Z.shiftl_mul_pow2 by lia. change (2^8) with 256. lia. Qed.
Lemma shift16 x : Z.shiftl x 16 = 65536 * x.
Proof. rewrite Z.shiftl_mul_pow2 by lia. change (2^16) with 65536. lia. Qed.
Lemma shift24 x : Z.shiftl x 24 = 16777216 * x.
Proof. rewrite Z.shiftl_mul_pow2 by lia. change (2^24) with 16777216. lia. Qed.

(* the tail of the model's loop body after the length field has been read:
   p = everything before the data, r = the bytes from the data on *)
Lemma data_tail (F : bytes -> Z -> list sop * option exn) p r n op off :
  0 <= n ->
  (let data := py_slice (p ++ r) (lenZ p) (lenZ p + n) in
   if lenZ data <? n then ([], Some TruncatedPush)
   else cons_op (mk_sop op (Some data) off) (F (p ++ r) (lenZ p + n)))
  = if lenZ r <? n then ([], Some TruncatedPush)
    else cons_op (mk_sop op (Some (firstn (Z.to_nat n) r)) off)
                 (F ((p ++ firstn (Z.to_nat n) r) ++ skipn (Z.to_nat n) r)
                    (lenZ (p ++ firstn (Z.to_nat n) r))).
Proof.
  intros Hn. cbv zeta. rewrite py_slice_app by lia. rewrite lenZ_firstn_lt by lia.
  destruct (Z.ltb_spec (lenZ r) n); [reflexivity|].
  rewrite <- app_assoc, firstn_skipn. lenz. rewrite lenZ_firstn by (pose proof (lenZ_nonneg r); lia).
  reflexivity.
Qed.

Theorem raw_iter_from_ref : forall fuel rest pre, (length rest <= fuel)%nat ->
  raw_iter_from fuel (pre ++ rest) (lenZ pre) = ref_ops fuel rest (lenZ pre).
Proof.
  induction fuel as [|f IH]; intros rest pre Hf.
  - destruct rest; [|cbn [length] in Hf; lia]. cbn [raw_iter_from ref_ops]. rewrite app_nil_r.
    rewrite Z.ltb_irrefl. reflexivity.
  - destruct rest as [|b r].
    + cbn [raw_iter_from ref_ops]. rewrite app_nil_r, Z.ltb_irrefl. reflexivity.
    + cbn [length] in Hf. cbn [raw_iter_from ref_ops].
      pose proof (lenZ_nonneg pre) as Pp. pose proof (lenZ_nonneg r) as Pr. pose proof (b2z_range b) as Rb.
      replace (lenZ pre <? lenZ (pre ++ b :: r)) with true by (lenz; symmetry; apply Z.ltb_lt; lia).
      cbn [negb]. rewrite py_index_app0. unfold get_op. opc.
      destruct (Z.ltb_spec 78 (b2z b)) as [Hop|Hop].
      * (* no data *)
        replace (b2z b >? 78) with true by (symmetry; apply Z.gtb_lt; lia).
        rewrite (app_assoc_cons pre b r).
        replace (lenZ pre + 1) with (lenZ (pre ++ [b])) by (lenz; lia).
        rewrite IH by lia. lenz. do 2 f_equal. lia.
      * replace (b2z b >? 78) with false by (symmetry; rewrite Z.gtb_ltb; apply Z.ltb_ge; lia).
        destruct (Z.ltb_spec (b2z b) 76) as [Hd|Hd].
        { (* direct push *)
          cbn [bind fst snd].
          rewrite (app_assoc_cons pre b r).
          replace (lenZ pre + 1) with (lenZ (pre ++ [b])) by (lenz; lia).
          rewrite (data_tail (raw_iter_from f)) by lia.
          destruct (Z.ltb_spec (lenZ r) (b2z b)); [reflexivity|].
          rewrite IH by (rewrite skipn_length; lia).
          lenz. rewrite lenZ_firstn, lenZ_skipn by lia. do 2 f_equal. lia. }
        destruct (Z.eqb_spec (b2z b) 76) as [H1|H1].
        { (* PUSHDATA1 *)
          destruct r as [|l r'].
          - replace (lenZ pre + 1 >=? lenZ (pre ++ [b])) with true
              by (lenz; symmetry; apply Z.geb_le; lia). reflexivity.
          - pose proof (lenZ_nonneg r') as Pr'.
            replace (lenZ pre + 1 >=? lenZ (pre ++ b :: l :: r')) with false
              by (lenz; symmetry; rewrite Z.geb_leb; apply Z.leb_gt; lia).
            replace (lenZ pre + 1) with (lenZ pre + Z.of_nat 1) by lia.
            rewrite (py_index_app pre (b :: l :: r') 1 l eq_refl). cbn [bind fst snd].
            replace (pre ++ b :: l :: r') with ((pre ++ [b; l]) ++ r') by (now rewrite <- app_assoc).
            replace (lenZ pre + Z.of_nat 1 + 1) with (lenZ (pre ++ [b; l])) by (lenz; lia).
            pose proof (b2z_range l). pose proof (lenZ_nonneg r').
            rewrite (data_tail (raw_iter_from f)) by lia.
            destruct (Z.ltb_spec (lenZ r') (b2z l)); [reflexivity|].
            rewrite IH by (rewrite skipn_length; cbn [length] in Hf; lia).
            lenz. rewrite lenZ_firstn, lenZ_skipn by lia. do 2 f_equal. lia. }
        destruct (Z.eqb_spec (b2z b) 77) as [H2|H2].
        { (* PUSHDATA2 *)
          destruct (Z.ltb_spec (lenZ r) 2) as [Hs|Hs].
          - replace (lenZ pre + 1 + 1 >=? lenZ (pre ++ b :: r)) with true
              by (lenz; symmetry; apply Z.geb_le; lia). reflexivity.
          - destruct r as [|x0 [|x1 r']]; lenz; try lia.
            replace (lenZ pre + 1 + 1 >=? lenZ pre + (1 + (1 + (1 + lenZ r')))) with false
              by (pose proof (lenZ_nonneg r'); symmetry; rewrite Z.geb_leb; apply Z.leb_gt; lia).
            replace (lenZ pre + 1) with (lenZ pre + Z.of_nat 1) by lia.
            rewrite (py_index_app pre (b :: x0 :: x1 :: r') 1 x0 eq_refl).
            replace (lenZ pre + Z.of_nat 1 + 1) with (lenZ pre + Z.of_nat 2) by lia.
            rewrite (py_index_app pre (b :: x0 :: x1 :: r') 2 x1 eq_refl). cbn [bind fst snd].
            cbn [firstn skipn le_dec]. rewrite shift8.
            replace (b2z x0 + 256 * b2z x1) with (b2z x0 + 256 * (b2z x1 + 256 * 0)) by lia.
            set (n := b2z x0 + 256 * (b2z x1 + 256 * 0)).
            pose proof (b2z_range x0). pose proof (b2z_range x1). pose proof (lenZ_nonneg r').
            assert (0 <= n) by (unfold n; lia).
            replace (pre ++ b :: x0 :: x1 :: r') with ((pre ++ [b; x0; x1]) ++ r') by (now rewrite <- app_assoc).
            replace (lenZ pre + Z.of_nat 1 + 2) with (lenZ (pre ++ [b; x0; x1])) by (lenz; lia).
            rewrite (data_tail (raw_iter_from f)) by lia.
            destruct (Z.ltb_spec (lenZ r') n); [reflexivity|].
            rewrite IH by (rewrite skipn_length; cbn [length] in Hf; lia).
            lenz. rewrite lenZ_firstn, lenZ_skipn by lia. do 2 f_equal. lia. }
        destruct (Z.eqb_spec (b2z b) 78) as [H4|H4]; [|lia].
        { (* PUSHDATA4 *)
          destruct (Z.ltb_spec (lenZ r) 4) as [Hs|Hs].
          - replace (lenZ pre + 1 + 3 >=? lenZ (pre ++ b :: r)) with true
              by (lenz; symmetry; apply Z.geb_le; lia). reflexivity.
          - destruct r as [|x0 [|x1 [|x2 [|x3 r']]]]; lenz; try lia.
            replace (lenZ pre + 1 + 3 >=? lenZ pre + (1 + (1 + (1 + (1 + (1 + lenZ r')))))) with false
              by (pose proof (lenZ_nonneg r'); symmetry; rewrite Z.geb_leb; apply Z.leb_gt; lia).
            replace (lenZ pre + 1) with (lenZ pre + Z.of_nat 1) by lia.
            rewrite (py_index_app pre (b :: x0 :: x1 :: x2 :: x3 :: r') 1 x0 eq_refl).
            replace (lenZ pre + Z.of_nat 1 + 1) with (lenZ pre + Z.of_nat 2) by lia.
            rewrite (py_index_app pre (b :: x0 :: x1 :: x2 :: x3 :: r') 2 x1 eq_refl).
            replace (lenZ pre + Z.of_nat 1 + 2) with (lenZ pre + Z.of_nat 3) by lia.
            rewrite (py_index_app pre (b :: x0 :: x1 :: x2 :: x3 :: r') 3 x2 eq_refl).
            replace (lenZ pre + Z.of_nat 1 + 3) with (lenZ pre + Z.of_nat 4) by lia.
            rewrite (py_index_app pre (b :: x0 :: x1 :: x2 :: x3 :: r') 4 x3 eq_refl). cbn [bind fst snd].
            cbn [firstn skipn le_dec]. rewrite shift8, shift16, shift24.
            replace (b2z x0 + 256 * b2z x1 + 65536 * b2z x2 + 16777216 * b2z x3)
              with (b2z x0 + 256 * (b2z x1 + 256 * (b2z x2 + 256 * (b2z x3 + 256 * 0)))) by lia.
            set (n := b2z x0 + 256 * (b2z x1 + 256 * (b2z x2 + 256 * (b2z x3 + 256 * 0)))).
            pose proof (b2z_range x0). pose proof (b2z_range x1). pose proof (b2z_range x2).
            pose proof (b2z_range x3). pose proof (lenZ_nonneg r').
            assert (0 <= n) by (unfold n; lia).
            replace (pre ++ b :: x0 :: x1 :: x2 :: x3 :: r') with ((pre ++ [b; x0; x1; x2; x3]) ++ r')
              by (now rewrite <- app_assoc).
            replace (lenZ pre + Z.of_nat 1 + 4) with (lenZ (pre ++ [b; x0; x1; x2; x3])) by (lenz; lia).
            rewrite (data_tail (raw_iter_from f)) by lia.
            destruct (Z.ltb_spec (lenZ r') n); [reflexivity|].
            rewrite IH by (rewrite skipn_length; cbn [length] in Hf; lia).
            lenz. rewrite lenZ_firstn, lenZ_skipn by lia. do 2 f_equal. lia. }
Qed.

(* raw_iter = reference walk, for every byte string *)
Theorem raw_iter_ref : forall s, raw_iter s = ref_parse s.
Proof. intros s. unfold raw_iter, ref_parse. exact (raw_iter_from_ref (length s) s [] (le_n _)). Qed.

(* ---------- GetOp: what it returns, when it fails ---------- *)
Lemma z2b_small v : 0 <= v < 256 -> b2z (z2b v) = v.
Proof. intros. rewrite b2z_z2b. now apply Z.mod_small. Qed.

Lemma firstn_skipn_len {A} n (r : list A) : 0 <= n <= lenZ r ->
  r = firstn (Z.to_nat n) r ++ skipn (Z.to_nat n) r /\ lenZ (firstn (Z.to_nat n) r) = n.
Proof. intros H. split; [now rewrite firstn_skipn | now apply lenZ_firstn]. Qed.

Lemma le_enc2_dec x0 x1 : le_enc 2 (le_dec [x0; x1]) = [x0; x1].
Proof. exact (le_enc_dec [x0; x1]). Qed.
Lemma le_enc4_dec x0 x1 x2 x3 : le_enc 4 (le_dec [x0; x1; x2; x3]) = [x0; x1; x2; x3].
Proof. exact (le_enc_dec [x0; x1; x2; x3]). Qed.

Lemma get_op_ok s op d rest : get_op s = Ok (op, d, rest) ->
  s = op_bytes op d ++ rest /\ op_wf op d.
Proof.
  destruct s as [|b r]; [discriminate|]. unfold get_op. pose proof (b2z_range b) as Rb.
  destruct (Z.ltb_spec 78 (b2z b)) as [Hop|Hop].
  - intros E. injection E as <- <- <-. cbn [op_bytes op_wf app]. rewrite z2b_b2z. split; [reflexivity|lia].
  - assert (T : forall n r', 0 <= n ->
        (if lenZ r' <? n then Err TruncatedPush
         else Ok (b2z b, Some (firstn (Z.to_nat n) r'), skipn (Z.to_nat n) r')) = Ok (op, d, rest) ->
        op = b2z b /\ d = Some (firstn (Z.to_nat n) r') /\ rest = skipn (Z.to_nat n) r' /\
        r' = firstn (Z.to_nat n) r' ++ rest /\ lenZ (firstn (Z.to_nat n) r') = n).
    { intros n r' Hn. destruct (Z.ltb_spec (lenZ r') n); [discriminate|]. intros E. injection E as <- <- <-.
      destruct (firstn_skipn_len n r' ltac:(lia)) as [E1 E2]. auto. }
    destruct (Z.ltb_spec (b2z b) 76) as [Hd|Hd].
    { cbn [bind fst snd]. intros E. apply T in E; [|lia]. destruct E as (-> & -> & -> & E1 & E2).
      unfold op_bytes, op_wf. replace (b2z b <? 76) with true by (symmetry; apply Z.ltb_lt; lia).
      rewrite z2b_b2z. split; [cbn [app]; f_equal; exact E1 | lia]. }
    destruct (Z.eqb_spec (b2z b) 76) as [H1|H1].
    { destruct r as [|l r']; [discriminate|]. cbn [bind fst snd]. pose proof (b2z_range l).
      intros E. apply T in E; [|lia]. destruct E as (-> & -> & -> & E1 & E2).
      unfold op_bytes, op_wf. rewrite H1. change (76 <? 76) with false. change (76 =? 76) with true. cbv iota.
      rewrite E2, z2b_b2z, <- H1, z2b_b2z. split; [cbn [app]; do 2 f_equal; exact E1 | lia]. }
    destruct (Z.eqb_spec (b2z b) 77) as [H2|H2].
    { destruct (Z.ltb_spec (lenZ r) 2); [discriminate|].
      destruct r as [|x0 [|x1 r']]; lenz; try lia. cbn [bind fst snd firstn skipn].
      pose proof (le_dec_range [x0; x1]) as R. cbn [length] in R. change (256 ^ Z.of_nat 2) with 65536 in R.
      intros E. apply T in E; [|lia]. destruct E as (-> & -> & -> & E1 & E2).
      unfold op_bytes, op_wf. rewrite H2. change (77 <? 76) with false. change (77 =? 76) with false.
      change (77 =? 77) with true. cbv iota.
      rewrite E2, le_enc2_dec, <- H2, z2b_b2z. split; [cbn [app]; do 3 f_equal; exact E1 | change (2^16) with 65536; lia]. }
    assert (H4 : b2z b = 78) by lia.
    destruct (Z.ltb_spec (lenZ r) 4); [discriminate|].
    destruct r as [|x0 [|x1 [|x2 [|x3 r']]]]; lenz; try lia. cbn [bind fst snd firstn skipn].
    pose proof (le_dec_range [x0; x1; x2; x3]) as R. cbn [length] in R. change (256 ^ Z.of_nat 4) with 4294967296 in R.
    intros E. apply T in E; [|lia]. destruct E as (-> & -> & -> & E1 & E2).
    unfold op_bytes, op_wf. rewrite H4. change (78 <? 76) with false. change (78 =? 76) with false.
    change (78 =? 77) with false. cbv iota.
    rewrite E2, le_enc4_dec, <- H4, z2b_b2z. split; [cbn [app]; do 5 f_equal; exact E1 | change (2^32) with 4294967296; lia].
Qed.

Lemma get_op_err s e : s <> [] -> get_op s = Err e ->
  (e = InvalidScript \/ e = TruncatedPush) /\ overrun s.
Proof.
  destruct s as [|b r]; [congruence|]. intros _. unfold get_op. pose proof (b2z_range b) as Rb.
  destruct (Z.ltb_spec 78 (b2z b)) as [Hop|Hop]; [discriminate|].
  destruct (Z.ltb_spec (b2z b) 76) as [Hd|Hd].
  { cbn [bind fst snd]. destruct (Z.ltb_spec (lenZ r) (b2z b)); [|discriminate].
    intros E. injection E as <-. split; [now right|]. now apply ov_direct. }
  destruct (Z.eqb_spec (b2z b) 76) as [H1|H1].
  { replace b with x4c by (apply b2z_inj; rewrite H1; reflexivity).
    destruct r as [|l r']; cbn [bind fst snd].
    - intros E. injection E as <-. split; [now left | apply ov_len1].
    - destruct (Z.ltb_spec (lenZ r') (b2z l)); [|discriminate].
      intros E. injection E as <-. split; [now right|]. now apply ov_data1. }
  destruct (Z.eqb_spec (b2z b) 77) as [H2|H2].
  { replace b with x4d by (apply b2z_inj; rewrite H2; reflexivity).
    destruct (Z.ltb_spec (lenZ r) 2); cbn [bind fst snd].
    - intros E. injection E as <-. split; [now left | now apply ov_len2].
    - destruct (Z.ltb_spec (lenZ (skipn 2 r)) (le_dec (firstn 2 r))); [|discriminate].
      intros E. injection E as <-. split; [now right|].
      rewrite <- (firstn_skipn 2 r) at 1. apply ov_data2; [|assumption].
      rewrite firstn_length. unfold lenZ in *. lia. }
  assert (H4 : b2z b = 78) by lia.
  replace b with x4e by (apply b2z_inj; rewrite H4; reflexivity).
  destruct (Z.ltb_spec (lenZ r) 4); cbn [bind fst snd].
  - intros E. injection E as <-. split; [now left | now apply ov_len4].
  - destruct (Z.ltb_spec (lenZ (skipn 4 r)) (le_dec (firstn 4 r))); [|discriminate].
    intros E. injection E as <-. split; [now right|].
    rewrite <- (firstn_skipn 4 r) at 1. apply ov_data4; [|assumption].
    rewrite firstn_length. unfold lenZ in *. lia.
Qed.

Lemma firstn_app_exact {A} (d rest : list A) : firstn (Z.to_nat (lenZ d)) (d ++ rest) = d.
Proof. unfold lenZ. rewrite Nat2Z.id. rewrite firstn_app, Nat.sub_diag, firstn_all. cbn. apply app_nil_r. Qed.
Lemma skipn_app_exact {A} (d rest : list A) : skipn (Z.to_nat (lenZ d)) (d ++ rest) = rest.
Proof. unfold lenZ. rewrite Nat2Z.id. rewrite skipn_app, Nat.sub_diag, skipn_all. reflexivity. Qed.

Lemma firstn_app_len {A} n (a b : list A) : length a = n -> firstn n (a ++ b) = a.
Proof. intros <-. rewrite firstn_app, Nat.sub_diag, firstn_all. cbn [firstn]. apply app_nil_r. Qed.
Lemma skipn_app_len {A} n (a b : list A) : length a = n -> skipn n (a ++ b) = b.
Proof. intros <-. rewrite skipn_app, Nat.sub_diag, skipn_all. reflexivity. Qed.

Lemma get_op_complete op d rest : op_wf op d -> get_op (op_bytes op d ++ rest) = Ok (op, d, rest).
Proof.
  destruct d as [d|]; cbn [op_wf op_bytes].
  2:{ intros H. cbn [app get_op]. rewrite z2b_small by lia.
      replace (78 <? op) with true by (symmetry; apply Z.ltb_lt; lia). reflexivity. }
  intros (R & W0 & W1 & W2 & W4). pose proof (lenZ_nonneg d) as Pd. pose proof (lenZ_nonneg rest) as Pr.
  assert (T : forall (o : Z) r', r' = d ++ rest ->
     (if lenZ r' <? lenZ d then Err TruncatedPush
      else Ok (o, Some (firstn (Z.to_nat (lenZ d)) r'), skipn (Z.to_nat (lenZ d)) r')) = Ok (o, Some d, rest)).
  { intros o r' ->. lenz. replace (lenZ d + lenZ rest <? lenZ d) with false by (symmetry; apply Z.ltb_ge; lia).
    now rewrite firstn_app_exact, skipn_app_exact. }
  destruct (Z.ltb_spec op 76) as [Hd|Hd].
  { cbn [app get_op]. rewrite z2b_small by lia.
    replace (78 <? op) with false by (symmetry; apply Z.ltb_ge; lia).
    replace (op <? 76) with true by (symmetry; apply Z.ltb_lt; lia). cbn [bind fst snd].
    rewrite <- (W0 Hd). now apply T. }
  destruct (Z.eqb_spec op 76) as [H1|H1].
  { subst op. specialize (W1 eq_refl). change (2^8) with 256 in W1. cbn [app get_op].
    change (b2z (z2b 76)) with 76. change (78 <? 76) with false. change (76 <? 76) with false.
    change (76 =? 76) with true. cbn [bind fst snd]. rewrite z2b_small by lia. now apply T. }
  destruct (Z.eqb_spec op 77) as [H2|H2].
  { subst op. specialize (W2 eq_refl). change (2^16) with 65536 in W2.
    change (b2z (z2b 77)) with 77. cbn [app get_op].
    change (b2z (z2b 77)) with 77. change (78 <? 77) with false. change (77 <? 76) with false.
    change (77 =? 76) with false. change (77 =? 77) with true. cbv iota.
    rewrite <- app_assoc. lenz.
    replace (Z.of_nat 2 + (lenZ d + lenZ rest) <? 2) with false by (symmetry; apply Z.ltb_ge; lia).
    cbn [bind fst snd].
    replace (firstn 2 (le_enc 2 (lenZ d) ++ d ++ rest)) with (le_enc 2 (lenZ d))
      by (symmetry; apply firstn_app_len, le_enc_length).
    replace (skipn 2 (le_enc 2 (lenZ d) ++ d ++ rest)) with (d ++ rest)
      by (symmetry; apply skipn_app_len, le_enc_length).
    rewrite le_dec_enc by (change (256 ^ Z.of_nat 2) with 65536; lia). now apply T. }
  assert (op = 78) by lia. subst op. specialize (W4 eq_refl). change (2^32) with 4294967296 in W4.
  cbn [app get_op].
  change (b2z (z2b 78)) with 78. change (78 <? 78) with false. change (78 <? 76) with false.
  change (78 =? 76) with false. change (78 =? 77) with false. cbv iota.
  rewrite <- app_assoc. lenz.
  replace (Z.of_nat 4 + (lenZ d + lenZ rest) <? 4) with false by (symmetry; apply Z.ltb_ge; lia).
  cbn [bind fst snd].
  replace (firstn 4 (le_enc 4 (lenZ d) ++ d ++ rest)) with (le_enc 4 (lenZ d))
    by (symmetry; apply firstn_app_len, le_enc_length).
  replace (skipn 4 (le_enc 4 (lenZ d) ++ d ++ rest)) with (d ++ rest)
    by (symmetry; apply skipn_app_len, le_enc_length).
  rewrite le_dec_enc by (change (256 ^ Z.of_nat 4) with 4294967296; lia). now apply T.
Qed.

Lemma overrun_get_op s : overrun s -> s <> [] /\ exists e, get_op s = Err e /\ is_script_err e = true.
Proof.
  intros H. split; [destruct H; discriminate|].
  destruct H.
  - unfold get_op. pose proof (b2z_range b).
    replace (78 <? b2z b) with false by (symmetry; apply Z.ltb_ge; lia).
    replace (b2z b <? 76) with true by (symmetry; apply Z.ltb_lt; lia). cbn [bind fst snd].
    replace (lenZ r <? b2z b) with true by (symmetry; apply Z.ltb_lt; lia). eauto.
  - cbn. eauto.
  - unfold get_op. change (b2z x4c) with 76. cbn [Z.ltb Z.eqb Z.compare Pos.compare Pos.compare_cont Pos.eqb bind fst snd].
    replace (lenZ r <? b2z l) with true by (symmetry; apply Z.ltb_lt; lia). eauto.
  - unfold get_op. change (b2z x4d) with 77. cbn [Z.ltb Z.eqb Z.compare Pos.compare Pos.compare_cont Pos.eqb].
    replace (lenZ r <? 2) with true by (symmetry; apply Z.ltb_lt; lia). cbn. eauto.
  - unfold get_op. change (b2z x4d) with 77. cbn [Z.ltb Z.eqb Z.compare Pos.compare Pos.compare_cont Pos.eqb].
    pose proof (lenZ_nonneg r). lenz.
    replace (lenZ l + lenZ r <? 2) with false by (symmetry; apply Z.ltb_ge; unfold lenZ in *; lia).
    cbn [bind fst snd].
    replace (firstn 2 (l ++ r)) with l
      by (symmetry; now apply firstn_app_len).
    replace (skipn 2 (l ++ r)) with r by (symmetry; now apply skipn_app_len).
    replace (lenZ r <? le_dec l) with true by (symmetry; apply Z.ltb_lt; lia). eauto.
  - unfold get_op. change (b2z x4e) with 78. cbn [Z.ltb Z.eqb Z.compare Pos.compare Pos.compare_cont Pos.eqb].
    replace (lenZ r <? 4) with true by (symmetry; apply Z.ltb_lt; lia). cbn. eauto.
  - unfold get_op. change (b2z x4e) with 78. cbn [Z.ltb Z.eqb Z.compare Pos.compare Pos.compare_cont Pos.eqb].
    pose proof (lenZ_nonneg r). lenz.
    replace (lenZ l + lenZ r <? 4) with false by (symmetry; apply Z.ltb_ge; unfold lenZ in *; lia).
    cbn [bind fst snd].
    replace (firstn 4 (l ++ r)) with l
      by (symmetry; now apply firstn_app_len).
    replace (skipn 4 (l ++ r)) with r by (symmetry; now apply skipn_app_len).
    replace (lenZ r <? le_dec l) with true by (symmetry; apply Z.ltb_lt; lia). eauto.
Qed.

(* ---------- the reference walk partitions the script ---------- *)
Lemma ops_bytes_cons o ops : ops_bytes (o :: ops) = sop_bytes o ++ ops_bytes ops.
Proof. reflexivity. Qed.

Lemma is_script_err_cases e : e = InvalidScript \/ e = TruncatedPush -> is_script_err e = true.
Proof. intros [-> | ->]; reflexivity. Qed.

Theorem ref_ops_sound : forall fuel s off ops e, (length s <= fuel)%nat ->
  ref_ops fuel s off = (ops, e) ->
  Forall sop_wf ops /\ consecutive off ops /\
  exists rest, s = ops_bytes ops ++ rest /\
    (e = None -> rest = []) /\
    (forall x, e = Some x -> is_script_err x = true /\ overrun rest).
Proof.
  induction fuel as [|f IH]; intros s off ops e Hf.
  - destruct s; [|cbn [length] in Hf; lia]. cbn [ref_ops]. intros E. injection E as <- <-.
    repeat split; try constructor. exists []. repeat split; congruence.
  - destruct s as [|b r].
    + cbn [ref_ops]. intros E. injection E as <- <-.
      repeat split; try constructor. exists []. repeat split; congruence.
    + cbn [ref_ops]. destruct (get_op (b :: r)) as [[[op d] rest]|x] eqn:G.
      * apply get_op_ok in G as [Es Wf].
        destruct (ref_ops f rest (off + (lenZ (b :: r) - lenZ rest))) as [ops' e'] eqn:R.
        unfold cons_op. cbn [fst snd]. intros E. injection E as <- <-.
        assert (Ln : lenZ (b :: r) - lenZ rest = lenZ (op_bytes op d)) by (rewrite Es; lenz; lia).
        assert (Lr : (length rest <= f)%nat).
        { assert (1 <= lenZ (op_bytes op d)) by (destruct d; unfold op_bytes; repeat destruct (_ <? _); repeat destruct (_ =? _); lenz; pose proof (lenZ_nonneg rest); try lia;
            match goal with |- context [lenZ ?l] => pose proof (lenZ_nonneg l); lia end).
          unfold lenZ in Ln, H. lia. }
        destruct (IH rest _ _ _ Lr R) as (W & C & rest' & E1 & E2 & E3).
        split; [constructor; assumption|]. split.
        { cbn [consecutive sop_idx]. split; [reflexivity|]. unfold sop_bytes. cbn [sop_opcode sop_data]. now rewrite <- Ln. }
        exists rest'. split; [|split; assumption].
        rewrite ops_bytes_cons. unfold sop_bytes at 1. cbn [sop_opcode sop_data]. rewrite <- app_assoc, <- E1. exact Es.
      * intros E. injection E as <- <-. apply get_op_err in G as [K O]; [|discriminate].
        repeat split; try constructor. exists (b :: r). cbn [ops_bytes map concat app].
        split; [reflexivity|]. split; [discriminate|]. intros y Ey. injection Ey as <-.
        split; [now apply is_script_err_cases | exact O].
Qed.

Theorem ref_ops_complete : forall ops off rest fuel,
  Forall sop_wf ops -> consecutive off ops -> (rest = [] \/ overrun rest) ->
  (length (ops_bytes ops ++ rest) <= fuel)%nat ->
  exists e, ref_ops fuel (ops_bytes ops ++ rest) off = (ops, e) /\
            (rest = [] -> e = None) /\
            (overrun rest -> exists x, e = Some x /\ is_script_err x = true).
Proof.
  induction ops as [|o ops IH]; intros off rest fuel W C Hr Hf.
  - cbn [ops_bytes map concat app] in *. destruct Hr as [-> | Ov].
    + exists None. destruct fuel; cbn [ref_ops]; repeat split; try reflexivity.
      all: intros O; destruct (overrun_get_op _ O) as [N _]; congruence.
    + destruct (overrun_get_op _ Ov) as [N (x & G & S)].
      destruct rest as [|b r]; [congruence|]. destruct fuel; [cbn [length] in Hf; lia|].
      cbn [ref_ops]. rewrite G. exists (Some x). repeat split; [discriminate | eauto].
  - rewrite ops_bytes_cons, <- app_assoc in *. inversion W as [|? ? Wo W']; subst.
    destruct C as [Ci C']. destruct o as [op d i]. cbn [sop_idx] in Ci. subst i.
    unfold sop_bytes in *. cbn [sop_opcode sop_data] in *. unfold sop_wf in Wo. cbn [sop_opcode sop_data] in Wo.
    pose proof (get_op_complete op d (ops_bytes ops ++ rest) Wo) as G.
    assert (Ne : exists b r, op_bytes op d ++ ops_bytes ops ++ rest = b :: r).
    { destruct d; unfold op_bytes; repeat destruct (_ <? _); repeat destruct (_ =? _); cbn [app]; eauto. }
    destruct Ne as (b & r & Eb). rewrite Eb in *.
    destruct fuel; [cbn [length] in Hf; lia|]. cbn [ref_ops]. rewrite G.
    assert (Ln : lenZ (b :: r) - lenZ (ops_bytes ops ++ rest) = lenZ (op_bytes op d)) by (rewrite <- Eb; lenz; lia).
    rewrite Ln.
    assert (Lf : (length (ops_bytes ops ++ rest) <= fuel)%nat).
    { cbn [length] in Hf. assert (length (b :: r) = length (op_bytes op d) + length (ops_bytes ops ++ rest))%nat
        by (rewrite <- Eb, app_length; reflexivity).
      assert (1 <= length (op_bytes op d))%nat.
      { destruct d; unfold op_bytes; repeat destruct (_ <? _); repeat destruct (_ =? _); cbn [length]; lia. }
      cbn [length] in H. lia. }
    destruct (IH _ rest fuel W' C' Hr Lf) as (e & R & E1 & E2).
    exists e. rewrite R. unfold cons_op. cbn [fst snd]. auto.
Qed.

(* ---------- the same for the MODEL ---------- *)
Theorem raw_iter_sound : forall s ops e, raw_iter s = (ops, e) ->
  Forall sop_wf ops /\ consecutive 0 ops /\
  exists rest, s = ops_bytes ops ++ rest /\
    (e = None -> rest = []) /\
    (forall x, e = Some x -> is_script_err x = true /\ overrun rest).
Proof. intros s ops e. rewrite raw_iter_ref. unfold ref_parse. apply ref_ops_sound. lia. Qed.

Theorem raw_iter_complete : forall ops rest,
  Forall sop_wf ops -> consecutive 0 ops -> (rest = [] \/ overrun rest) ->
  exists e, raw_iter (ops_bytes ops ++ rest) = (ops, e) /\
            (rest = [] -> e = None) /\
            (overrun rest -> exists x, e = Some x /\ is_script_err x = true).
Proof. intros. rewrite raw_iter_ref. unfold ref_parse. apply ref_ops_complete; auto. Qed.

(* it parses completely <-> the script is a concatenation of well-formed operations;
   it fails <-> after some well-formed operations a push overruns the script *)
Corollary raw_iter_ok_iff s : snd (raw_iter s) = None <->
  exists ops, Forall sop_wf ops /\ consecutive 0 ops /\ s = ops_bytes ops.
Proof.
  split.
  - destruct (raw_iter s) as [ops e] eqn:R. cbn [snd]. intros ->.
    destruct (raw_iter_sound _ _ _ R) as (W & C & rest & E & E1 & _).
    exists ops. rewrite (E1 eq_refl), app_nil_r in E. auto.
  - intros (ops & W & C & ->).
    destruct (raw_iter_complete ops [] W C (or_introl eq_refl)) as (e & R & E1 & _).
    rewrite app_nil_r in R. rewrite R. cbn [snd]. auto.
Qed.
Corollary raw_iter_fail_iff s : (exists x, snd (raw_iter s) = Some x) <->
  exists ops rest, Forall sop_wf ops /\ consecutive 0 ops /\ s = ops_bytes ops ++ rest /\ overrun rest.
Proof.
  split.
  - destruct (raw_iter s) as [ops e] eqn:R. cbn [snd]. intros (x & ->).
    destruct (raw_iter_sound _ _ _ R) as (W & C & rest & E & _ & E2).
    exists ops, rest. destruct (E2 x eq_refl) as [_ O]. repeat split; assumption.
  - intros (ops & rest & W & C & -> & O).
    destruct (raw_iter_complete ops rest W C (or_intror O)) as (e & R & _ & E2).
    destruct (E2 O) as (x & -> & _). rewrite R. cbn [snd]. eauto.
Qed.
(* every exception of raw_iter is a CScriptInvalidError *)
Corollary raw_iter_err_kind s x : snd (raw_iter s) = Some x -> x = InvalidScript \/ x = TruncatedPush.
Proof.
  destruct (raw_iter s) as [ops e] eqn:R. cbn [snd]. intros ->.
  destruct (raw_iter_sound _ _ _ R) as (_ & _ & rest & _ & _ & E2). destruct (E2 x eq_refl) as [S _].
  destruct x; try discriminate; auto.
Qed.
