(* Proofs/AcceptMulti.v – C05, first clause, continued: P2SH-wrapped inputs and bare m-of-n
   multisig (Proofs/Accept.v has the method, P2PK and P2PKH). *)
From BV Require Import Common.Base Common.PyList Common.Tx Common.ScriptFlags Gen.ScriptConsts Gen.Key Gen.Sighash
  Model.Script Spec.Script Spec.ScriptRef Model.FindAndDelete Model.ScriptEval Model.Wire Model.Bip143 Model.Sighash Model.SigCheck
  Spec.Ecdsa Spec.Der Model.Key.
From BV Require Import Proofs.ScriptIter Proofs.FindAndDelete Proofs.ScriptEval Proofs.ScriptFull
  Proofs.Ecdsa Proofs.Der Proofs.Key Proofs.SignMsg Proofs.Sighash Proofs.Accept.

Ltac len_lia := unfold lenZ in *; repeat (progress (cbn [length] in *; rewrite ?app_length, ?rev_length in * )); lia.

Definition pushes (ds : list (list byte)) : bytes := concat (map ref_push ds).
Definition p2sh_script (hh : bytes) : bytes := [xa9] ++ ref_push hh ++ [x87].

(* =================================================================================== *)
(* 1. a script of pushes is push-only                                                  *)
(* =================================================================================== *)
Lemma ref_ops_pushes : forall (ds : list (list byte)) fuel off, Forall (fun d => lenZ d < 2^32) ds -> (length (pushes ds) <= fuel)%nat ->
  exists ops, ref_ops fuel (pushes ds) off = (ops, None) /\ Forall (fun o => sop_opcode o <= 0x4e) ops.
Proof.
  induction ds as [|d ds IH]; intros fuel off Fd Lf.
  - exists []. split; [destruct fuel; reflexivity|constructor].
  - inversion Fd as [|? ? Ld Fd']; subst. unfold pushes in *. cbn [map concat] in *.
    destruct (get_op_push d (concat (map ref_push ds)) Ld) as (op & Ro & G).
    destruct (ref_push d ++ concat (map ref_push ds)) as [|b r] eqn:Eb; [discriminate G|].
    destruct fuel as [|f]; [cbn [length] in Lf; lia|]. cbn [ref_ops]. rewrite G.
    assert (Lf' : (length (concat (map ref_push ds)) <= f)%nat).
    { apply (f_equal (@length byte)) in Eb. rewrite app_length in Eb. cbn [length] in Eb, Lf.
      destruct (ref_push_op d Ld) as (op' & _ & _ & Eo). pose proof (op_bytes_ne op' (Some d)) as Ne. rewrite <- Eo in Ne. lia. }
    destruct (IH f (off + (lenZ (b :: r) - lenZ (concat (map ref_push ds)))) Fd' Lf') as (ops & R & Fo).
    exists (mk_sop op (Some d) off :: ops). rewrite R. split; [reflexivity|]. constructor; [cbn [sop_opcode]; lia|exact Fo].
Qed.
Lemma ref_push_only_pushes (ds : list (list byte)) : Forall (fun d => lenZ d < 2^32) ds -> ref_push_only (pushes ds) = true.
Proof.
  intros Fd. destruct (ref_ops_pushes ds (length (pushes ds)) 0 Fd (le_n _)) as (ops & R & Fo).
  unfold ref_push_only, parses, ref_parse. rewrite R. cbn [fst snd andb].
  apply forallb_forall. intros o Ho. rewrite Forall_forall in Fo. specialize (Fo o Ho). apply Z.leb_le. lia.
Qed.

(* =================================================================================== *)
(* 2. the P2SH wrapper                                                                 *)
(* =================================================================================== *)
Section P2SH.
Variable checksig : bytes -> bytes -> bytes -> bool.
Variable ripemd160 sha1 sha256 : bytes -> bytes.
Variable fl : flags.
Hypothesis flags_ok : f_cleanstack fl = true -> f_p2sh fl = true.
Notation eval_ref := (ScriptRef.eval_ref checksig ripemd160 sha1 sha256 fl).
Notation sverify_ref := (ScriptRef.verify_ref checksig ripemd160 sha1 sha256 fl).
Notation runs := (runs checksig ripemd160 sha1 sha256 fl).

Lemma ref_p2sh_script hh : length hh = 20%nat -> ref_push hh = x14 :: hh /\ ref_p2sh (p2sh_script hh) = true.
Proof.
  intros Lh. assert (Lz : lenZ hh = 20) by (unfold lenZ; now rewrite Lh).
  assert (Ep : ref_push hh = x14 :: hh) by (unfold ref_push; rewrite Lz; reflexivity).
  split; [exact Ep|]. unfold ref_p2sh, p2sh_script. rewrite Ep. cbn [app length firstn].
  rewrite app_length, Lh. cbn [length Nat.add Nat.eqb bytes_eqb byte_eqb andb].
  change (skipn 22 (xa9 :: x14 :: hh ++ [x87])) with (skipn 20 (hh ++ [x87])).
  rewrite skipn_app_len by exact Lh. reflexivity.
Qed.

(* scriptSig = the pushes ds of the inner scriptSig followed by the push of the redeem script
   rs; scriptPubKey = OP_HASH160 <hash160 rs> OP_EQUAL; the redeem script run on the inner
   stack leaves exactly [true] *)
Theorem p2sh_verify_ref (ds : list (list byte)) (rs : list byte) : let hh := ripemd160 (sha256 rs) in
  Forall (fun d => lenZ d <= 520) ds -> lenZ rs <= 520 -> length hh = 20%nat ->
  lenZ (pushes (ds ++ [rs])) <= 10000 -> lenZ ds <= 990 ->
  eval_ref (rev ds) rs = Some [vtrue] ->
  sverify_ref (pushes (ds ++ [rs])) (p2sh_script hh) = true.
Proof.
  intros hh Fd Lr Lh Lc Lds Ei.
  destruct (ref_p2sh_script hh Lh) as [Ep Ps].
  assert (Lz : lenZ hh = 20) by (unfold lenZ; now rewrite Lh).
  assert (Fd2 : Forall (fun d => lenZ d <= 520) (ds ++ [rs])) by (apply Forall_app; split; [exact Fd|constructor; [exact Lr|constructor]]).
  assert (Lrev : lenZ (rev ds) = lenZ ds) by (unfold lenZ; now rewrite rev_length).
  assert (E1 : eval_ref [] (pushes (ds ++ [rs])) = Some (rs :: rev ds)).
  { unfold pushes. rewrite (eval_ref_pushes checksig ripemd160 sha1 sha256 fl (ds ++ [rs]) [] Fd2 Lc).
    - rewrite rev_app_distr, app_nil_r. reflexivity.
    - unfold lenZ in *. rewrite app_length. cbn [length]. lia. }
  assert (E2 : eval_ref (rs :: rev ds) (p2sh_script hh) = Some (vtrue :: rev ds)).
  { assert (Lsc : lenZ (p2sh_script hh) <= 10000).
    { unfold p2sh_script. rewrite Ep. rewrite !lenZ_app, lenZ_cons. unfold lenZ in *. cbn [length]. lia. }
    apply (runs_eval_ref checksig ripemd160 sha1 sha256 fl _ (rs :: rev ds)
             {| r_stack := vtrue :: rev ds; r_alt := []; r_vf := []; r_sub := p2sh_script hh; r_nop := 2 |} Lsc); [|reflexivity].
    unfold p2sh_script at 1. cbn [app].
    (* OP_HASH160 *)
    eapply runs_step; [apply get_op_opcode; vm_compute; reflexivity| |].
    { change (b2z xa9) with 169. apply ref_step_exec; [lia|reflexivity|reflexivity|cbn [r_nop]; lia| |].
      - apply exec_hash160 with (v := rs) (r := rev ds). reflexivity.
      - unfold with_stack, with_stack_nop. cbn [r_stack r_alt]. len_lia. }
    unfold with_stack, with_stack_nop; cbn [r_stack r_alt r_vf r_sub r_nop Z.add Pos.add Pos.succ]. fold hh.
    (* <hash> *)
    pose proof (runs_pushes checksig ripemd160 sha1 sha256 fl [hh] [x87]) as P.
    cbn [map concat rev app] in P. rewrite app_nil_r in P.
    apply P; [constructor; [lia|constructor]|reflexivity|cbn [r_nop]; lia| |]; clear P.
    { cbn [r_stack r_alt]. len_lia. }
    unfold with_stack, with_stack_nop; cbn [r_stack r_alt r_vf r_sub r_nop app].
    (* OP_EQUAL *)
    eapply runs_step; [apply get_op_opcode; vm_compute; reflexivity| |apply runs_nil].
    change (b2z x87) with 135. apply ref_step_exec; [lia|reflexivity|reflexivity|cbn [r_nop]; lia| |].
    - rewrite exec_equal with (x := hh) (r := rev ds) by reflexivity. reflexivity.
    - cbn [r_stack r_alt]. len_lia. }
  unfold ScriptRef.verify_ref. rewrite E1, E2, Ps.
  change (negb (ref_bool vtrue)) with false. cbv iota.
  destruct (f_p2sh fl) eqn:FP; cbn [andb].
  - rewrite ref_push_only_pushes.
    + cbn [negb]. rewrite Ei. change (ref_bool vtrue) with true. cbv iota. destruct (f_cleanstack fl); reflexivity.
    + eapply Forall_impl; [|exact Fd2]. cbn beta. intros; lia.
  - destruct (f_cleanstack fl) eqn:FC; [|reflexivity]. discriminate (flags_ok eq_refl).
Qed.
End P2SH.

(* =================================================================================== *)
(* 3. signatures matched to an order-preserving selection of the keys                  *)
(* =================================================================================== *)
Inductive in_order (R : bytes -> bytes -> Prop) : list bytes -> list bytes -> Prop :=
| io_nil keys : in_order R [] keys
| io_match sg sigs k keys : R sg k -> in_order R sigs keys -> in_order R (sg :: sigs) (k :: keys)
| io_skip sigs k keys : in_order R sigs keys -> in_order R sigs (k :: keys).

Lemma in_order_tail R sg sigs keys : in_order R (sg :: sigs) keys -> in_order R sigs keys.
Proof.
  intros D. remember (sg :: sigs) as l eqn:El. induction D as [keys|sg' sigs' k keys Hr D IH|sigs' k keys D IH].
  - discriminate El.
  - injection El as -> ->. apply io_skip. exact D.
  - apply io_skip. apply IH. exact El.
Qed.
Lemma in_order_length R sigs keys : in_order R sigs keys -> (length sigs <= length keys)%nat.
Proof. induction 1; cbn [length]; lia. Qed.
Lemma in_order_weaken R sigs k1 : forall keys, in_order R sigs keys -> in_order R sigs (k1 ++ keys).
Proof. induction k1 as [|k k1 IH]; intros keys D; [exact D|]. cbn [app]. apply io_skip. now apply IH. Qed.
Lemma in_order_app R s1 k1 s2 k2 : in_order R s1 k1 -> in_order R s2 k2 -> in_order R (s1 ++ s2) (k1 ++ k2).
Proof.
  intros D1 D2. induction D1 as [keys|sg sigs k keys Hr D IH|sigs k keys D IH]; cbn [app].
  - now apply in_order_weaken.
  - apply io_match; assumption.
  - apply io_skip. exact IH.
Qed.
Lemma in_order_rev R sigs keys : in_order R sigs keys -> in_order R (rev sigs) (rev keys).
Proof.
  induction 1 as [keys|sg sigs k keys Hr D IH|sigs k keys D IH]; cbn [rev].
  - apply io_nil.
  - apply in_order_app; [exact IH|]. apply io_match; [exact Hr|apply io_nil].
  - rewrite <- (app_nil_r (rev sigs)). apply in_order_app; [exact IH|]. apply io_skip, io_nil.
Qed.
Lemma in_order_impl (R R' : bytes -> bytes -> Prop) sigs keys :
  (forall sg k, In sg sigs -> In k keys -> R sg k -> R' sg k) -> in_order R sigs keys -> in_order R' sigs keys.
Proof.
  intros I D. induction D as [keys|sg sigs k keys Hr D IH|sigs k keys D IH].
  - apply io_nil.
  - apply io_match; [apply I; [left; reflexivity|left; reflexivity|exact Hr]|].
    apply IH. intros sg' k' Hs Hk. apply I; right; assumption.
  - apply io_skip. apply IH. intros sg' k' Hs Hk. apply I; [exact Hs|right; exact Hk].
Qed.

(* the reference's walk (top-most signature / key first) succeeds on such a matching *)
Lemma ms_walk_in_order checksig code : forall keys sigs,
  in_order (fun sg k => checksig sg k code = true) sigs keys -> ms_walk checksig sigs keys code = true.
Proof.
  induction keys as [|k keys IH]; intros sigs D; destruct sigs as [|sg sigs]; try reflexivity.
  - inversion D.
  - cbn [ms_walk]. pose proof (in_order_length _ _ _ D) as Ln.
    destruct (Nat.ltb_spec (length (k :: keys)) (length (sg :: sigs))); [lia|].
    inversion D as [|? ? ? ? Hr D'|? ? ? D']; subst.
    + rewrite Hr. now apply IH.
    + destruct (checksig sg k code); apply IH; [eapply in_order_tail; exact D'|exact D'].
Qed.

(* =================================================================================== *)
(* 4. FindAndDelete on templates given as items                                        *)
(* =================================================================================== *)
Inductive item := IOp (c : byte) | IPush (d : bytes).
Definition item_bytes (i : item) : bytes := match i with IOp c => [c] | IPush d => ref_push d end.
Definition tmpl_bytes (items : list item) : bytes := concat (map item_bytes items).
Definition item_ok (i : item) : Prop := match i with IOp c => 0x4e < b2z c | IPush d => lenZ d < 2^32 end.

Lemma tmpl_ops pat items : Forall item_ok items -> Forall (fun i => item_bytes i <> pat) items ->
  exists ops, Forall sop_wf ops /\ ops_bytes ops = tmpl_bytes items /\ Forall (fun o => sop_bytes o <> pat) ops.
Proof.
  induction items as [|i items IH]; intros Fo Fn.
  - exists []. repeat split; constructor.
  - inversion Fo as [|? ? Oi Fo']; subst. inversion Fn as [|? ? Ni Fn']; subst.
    destruct (IH Fo' Fn') as (ops & W & Eb & N). destruct i as [c|d]; cbn [item_ok item_bytes] in *.
    + exists (o_code c :: ops). split; [constructor; [now apply o_code_wf|exact W]|].
      split; [rewrite ops_bytes_cons, o_code_bytes, Eb; reflexivity|].
      constructor; [now rewrite o_code_bytes|exact N].
    + destruct (ref_push_op d Oi) as (op & Ro & Wo & Eo).
      assert (B : sop_bytes (o_push op d) = ref_push d) by (symmetry; exact Eo).
      exists (o_push op d :: ops). split; [constructor; [exact Wo|exact W]|].
      split; [rewrite ops_bytes_cons, B, Eb; reflexivity|].
      constructor; [now rewrite B|exact N].
Qed.
Lemma tmpl_fad_id pat items : one_op pat -> Forall item_ok items -> Forall (fun i => item_bytes i <> pat) items ->
  find_and_delete_ref (tmpl_bytes items) pat = tmpl_bytes items.
Proof.
  intros O Fo Fn. destruct (tmpl_ops pat items Fo Fn) as (ops & W & Eb & N). rewrite <- Eb. now apply fad_ref_id.
Qed.
(* the subscript handed to the oracle by CHECKSIG / CHECKMULTISIG is the template itself when
   it has no OP_CODESEPARATOR and pushes none of the signatures *)
Lemma tmpl_subscript_fixed items : Forall item_ok items -> Forall (fun i => i <> IOp xab) items ->
  forall sigs, Forall (fun sg => lenZ sg < 2^32 /\ Forall (fun i => i <> IPush sg) items) sigs ->
  find_and_delete_ref (fold_left (fun c sg => find_and_delete_ref c (ref_push sg)) sigs (tmpl_bytes items)) [xab]
  = tmpl_bytes items.
Proof.
  intros Fo Nc. induction sigs as [|sg sigs IH]; intros Fs; cbn [fold_left].
  - apply (tmpl_fad_id [xab] items one_op_codesep Fo). rewrite Forall_forall in *. intros i Hi.
    specialize (Fo i Hi). specialize (Nc i Hi). destruct i as [c|d]; cbn [item_bytes item_ok] in *.
    + intros E. injection E as ->. now destruct Nc.
    + apply ref_push_not_opcode; [exact Fo|vm_compute; reflexivity].
  - inversion Fs as [|? ? [Ls Ns] Fs']; subst. rewrite (tmpl_fad_id (ref_push sg) items (one_op_push sg Ls) Fo); [now apply IH|].
    rewrite Forall_forall in *. intros i Hi. specialize (Fo i Hi). specialize (Ns i Hi).
    destruct i as [c|d]; cbn [item_bytes item_ok] in *.
    + intros E. symmetry in E. revert E. now apply ref_push_not_opcode.
    + intros E. apply ref_push_inj in E; [subst; now destruct Ns|exact Fo|exact Ls].
Qed.

(* =================================================================================== *)
(* 5. bare m-of-n multisig: OP_m <pk_1> .. <pk_n> OP_n OP_CHECKMULTISIG                 *)
(* =================================================================================== *)
Definition small_op (v : Z) : byte := z2b (0x50 + v).
Definition multisig_items (m : Z) (pks : list (list byte)) : list item :=
  [IOp (small_op m)] ++ map IPush pks ++ [IOp (small_op (lenZ pks)); IOp xae].
Definition multisig_script (m : Z) (pks : list (list byte)) : bytes :=
  [small_op m] ++ pushes pks ++ [small_op (lenZ pks); xae].

Lemma multisig_script_items m pks : multisig_script m pks = tmpl_bytes (multisig_items m pks).
Proof.
  unfold multisig_script, multisig_items, tmpl_bytes, pushes. rewrite !map_app, !concat_app, map_map.
  cbn [map item_bytes concat app]. reflexivity.
Qed.

Lemma small_facts v : 1 <= v <= 16 ->
  b2z (small_op v) = 0x50 + v /\ ref_kind (0x50 + v) = KSmall /\ disabled (0x50 + v) = false /\
  ref_num (ref_enc v) = Some v /\ lenZ (ref_enc v) <= 520 /\ small_op v <> xab.
Proof.
  intros R.
  assert (T : forallb (fun v => (b2z (small_op v) =? 0x50 + v) && kind_eqb (ref_kind (0x50 + v)) KSmall &&
                       negb (disabled (0x50 + v)) && (match ref_num (ref_enc v) with Some x => x =? v | None => false end) &&
                       (lenZ (ref_enc v) <=? 520) && negb (Byte.eqb (small_op v) xab))
                      [1;2;3;4;5;6;7;8;9;10;11;12;13;14;15;16] = true) by (vm_compute; reflexivity).
  rewrite forallb_forall in T. assert (I : In v [1;2;3;4;5;6;7;8;9;10;11;12;13;14;15;16]) by (cbn [In]; lia).
  specialize (T v I). rewrite !andb_true_iff in T. destruct T as (((((T1 & T2) & T3) & T4) & T5) & T6).
  split; [now apply Z.eqb_eq|]. split; [now apply kind_eqb_eq|]. split; [now apply negb_true_iff|].
  split; [destruct (ref_num (ref_enc v)); [apply Z.eqb_eq in T4; now subst|discriminate]|].
  split; [now apply Z.leb_le|]. intros E. rewrite E in T6. discriminate T6.
Qed.

Lemma pushes_len (ds : list (list byte)) : Forall (fun d => lenZ d <= 520) ds -> lenZ (pushes ds) <= 525 * lenZ ds.
Proof.
  unfold pushes. induction 1 as [|d ds Ld Fd IH]; [vm_compute; discriminate|]. cbn [map concat].
  pose proof (ref_push_len d Ld). unfold lenZ in *. rewrite app_length. cbn [length]. lia.
Qed.

Section Multi.
Variable checksig : bytes -> bytes -> bytes -> bool.
Variable ripemd160 sha1 sha256 : bytes -> bytes.
Variable fl : flags.
Notation eval_ref := (ScriptRef.eval_ref checksig ripemd160 sha1 sha256 fl).
Notation exec_op := (ScriptRef.exec_op checksig ripemd160 sha1 sha256 fl).
Notation ref_step := (ScriptRef.ref_step checksig ripemd160 sha1 sha256 fl).
Notation runs := (runs checksig ripemd160 sha1 sha256 fl).

(* an executed opcode above OP_PUSHDATA4 (small integers do not count towards the opcode limit) *)
Lemma ref_step_exec2 op rest s s' nop : 78 < op -> nop = (if op >? 96 then r_nop s + 1 else r_nop s) -> nop <= 201 ->
  disabled op = false -> r_vf s = [] ->
  exec_op op rest (with_stack_nop s (r_stack s) nop) = Some s' ->
  lenZ (r_stack s') + lenZ (r_alt s') <= 1000 ->
  ref_step op None rest s = Some s'.
Proof.
  intros Ro En Nn Di Vf Ex Sz. unfold ScriptRef.ref_step. rewrite Vf, Di. cbn [forallb].
  change (lenZ (@nil byte) >? 520) with false. cbv iota. rewrite <- En.
  destruct (Z.gtb_spec nop 201); [lia|]. destruct (Z.leb_spec op 78); [lia|]. cbn [orb].
  unfold with_stack_nop in Ex. rewrite Vf in Ex. rewrite Ex.
  destruct (Z.gtb_spec (lenZ (r_stack s') + lenZ (r_alt s')) 1000); [lia|]. reflexivity.
Qed.
Lemma exec_small op rest s : ref_kind op = KSmall ->
  exec_op op rest s = Some (with_stack s (ref_enc (op - 0x50) :: r_stack s)).
Proof. intros K. unfold ScriptRef.exec_op. rewrite K. reflexivity. Qed.

Lemma exec_multisig rest s nv (keys : list (list byte)) mv (sigs r3 : list (list byte)) n m :
  r_stack s = nv :: keys ++ mv :: sigs ++ [] :: r3 ->
  ref_num nv = Some n -> ref_num mv = Some m -> lenZ keys = n -> lenZ sigs = m -> m <= n -> n <= 20 -> r_nop s + n <= 201 ->
  exec_op 174 rest s
  = Some {| r_stack := of_bool (ms_walk checksig sigs keys
                (find_and_delete_ref (fold_left (fun c sg => find_and_delete_ref c (ref_push sg)) sigs (r_sub s)) [xab])) :: r3;
            r_alt := r_alt s; r_vf := r_vf s; r_sub := r_sub s; r_nop := r_nop s + n |}.
Proof.
  intros Es En Em Lk Ls Lmn Ln Lop.
  pose proof (lenZ_nonneg keys) as Pk. pose proof (lenZ_nonneg sigs) as Ps. pose proof (lenZ_nonneg r3) as P3.
  assert (Nk : Z.to_nat n = length keys) by (unfold lenZ in Lk; lia).
  assert (Ns : Z.to_nat m = length sigs) by (unfold lenZ in Ls; lia).
  unfold ScriptRef.exec_op. change (ref_kind 174) with (KMultisig false). rewrite Es, En.
  destruct (Z.ltb_spec n 0); [lia|]. destruct (Z.gtb_spec n 20); [lia|]. cbn [orb].
  destruct (Z.gtb_spec (r_nop s + n) 201); [lia|].
  rewrite Nk, firstn_app_len, skipn_app_len by reflexivity. rewrite Em.
  destruct (Z.ltb_spec m 0); [lia|]. destruct (Z.gtb_spec m n); [lia|]. cbn [orb].
  rewrite Ns, firstn_app_len, skipn_app_len by reflexivity.
  cbn [is_nil negb]. rewrite andb_false_r.
  match goal with |- context [if ?a <? ?b then None else _] => destruct (Z.ltb_spec a b) as [Bad|_] end.
  { exfalso. unfold lenZ in *. rewrite ?app_length in Bad; cbn [length] in Bad; rewrite ?app_length in Bad; cbn [length] in Bad. lia. }
  match goal with |- context [if ?a <? ?b then None else _] => destruct (Z.ltb_spec a b) as [Bad|_] end.
  { exfalso. unfold lenZ in *. rewrite ?app_length in Bad; cbn [length] in Bad. lia. }
  reflexivity.
Qed.

Lemma multisig_eval (sigs pks : list (list byte)) :
  let m := lenZ sigs in let n := lenZ pks in let spk := multisig_script m pks in
  1 <= m -> m <= n -> n <= 16 ->
  Forall (fun d => lenZ d <= 520) sigs -> Forall (fun d => lenZ d <= 520) pks ->
  (forall sg pk, In sg sigs -> In pk pks -> sg <> pk) ->
  in_order (fun sg pk => checksig sg pk spk = true) sigs pks ->
  eval_ref (rev ([] :: sigs)) spk = Some [vtrue].
Proof.
  intros m n spk Lm Lmn Ln Fs Fp Ne IO.
  assert (Em : m = lenZ sigs) by reflexivity. assert (En : n = lenZ pks) by reflexivity. clearbody m n.
  destruct (small_facts m ltac:(lia)) as (Bm & Km & Dm & Nm & Lem & Cm).
  destruct (small_facts n ltac:(lia)) as (Bn & Kn & Dn & Nn & Len & Cn).
  assert (Lpushes : lenZ (pushes pks) <= 525 * 16).
  { pose proof (pushes_len pks Fp) as Hp. rewrite <- En in Hp. lia. }
  assert (Lsc : lenZ spk <= 10000).
  { unfold spk, multisig_script. rewrite !lenZ_app. change (lenZ [small_op m]) with 1.
    change (lenZ [small_op (lenZ pks); xae]) with 2. lia. }
  (* the subscript of the oracle calls *)
  assert (Sub : find_and_delete_ref (fold_left (fun c sg => find_and_delete_ref c (ref_push sg)) (rev sigs) spk) [xab] = spk).
  { unfold spk. rewrite multisig_script_items. apply tmpl_subscript_fixed.
    - unfold multisig_items. repeat (apply Forall_app; split).
      + constructor; [cbn [item_ok]; lia|constructor].
      + rewrite Forall_map. eapply Forall_impl; [|exact Fp]. cbn beta. intros d Ld. cbn [item_ok]. lia.
      + constructor; [cbn [item_ok]; rewrite <- En; lia|]. constructor; [cbn [item_ok]; vm_compute; reflexivity|constructor].
    - unfold multisig_items. repeat (apply Forall_app; split).
      + constructor; [intros E; injection E as E; now apply Cm|constructor].
      + rewrite Forall_map. rewrite Forall_forall. intros d _. discriminate.
      + constructor; [intros E; injection E as E; rewrite <- En in E; now apply Cn|]. constructor; [discriminate|constructor].
    - rewrite Forall_forall. intros sg Hs. apply in_rev in Hs. rewrite Forall_forall in Fs. specialize (Fs sg Hs).
      split; [lia|]. unfold multisig_items. repeat (apply Forall_app; split).
      + constructor; [discriminate|constructor].
      + rewrite Forall_map. rewrite Forall_forall. intros d Hd E. injection E as ->. exact (Ne sg sg Hs Hd eq_refl).
      + constructor; [discriminate|]. constructor; [discriminate|constructor]. }
  assert (Lrs : lenZ (rev sigs) = m) by (rewrite Em; unfold lenZ; now rewrite rev_length).
  assert (Lrp : lenZ (rev pks) = n) by (rewrite En; unfold lenZ; now rewrite rev_length).
  apply (runs_eval_ref checksig ripemd160 sha1 sha256 fl _ (rev ([] :: sigs))
           {| r_stack := [vtrue]; r_alt := []; r_vf := []; r_sub := spk; r_nop := 1 + n |} Lsc); [|reflexivity].
  cbn [rev]. unfold spk at 1, multisig_script. cbn [app].
  (* OP_m *)
  eapply runs_step; [apply get_op_opcode; rewrite Bm; lia| |].
  { rewrite Bm. eapply ref_step_exec2; [lia|reflexivity| |exact Dm|reflexivity| |].
    - destruct (Z.gtb_spec (80 + m) 96); [lia|]. cbn [r_nop]. lia.
    - destruct (Z.gtb_spec (80 + m) 96); [lia|]. apply exec_small. exact Km.
    - unfold with_stack, with_stack_nop. cbn [r_stack r_alt]. len_lia. }
  replace (80 + m - 80) with m by lia.
  unfold with_stack, with_stack_nop; cbn [r_stack r_alt r_vf r_sub r_nop].
  (* the keys *)
  apply runs_pushes; [exact Fp|reflexivity|cbn [r_nop]; lia|cbn [r_stack r_alt]; len_lia|].
  unfold with_stack_nop; cbn [r_stack r_alt r_vf r_sub r_nop].
  (* OP_n *)
  rewrite <- En. eapply runs_step; [apply get_op_opcode; rewrite Bn; lia| |].
  { rewrite Bn. eapply ref_step_exec2; [lia|reflexivity| |exact Dn|reflexivity| |].
    - destruct (Z.gtb_spec (80 + n) 96); [lia|]. cbn [r_nop]. lia.
    - destruct (Z.gtb_spec (80 + n) 96); [lia|]. apply exec_small. exact Kn.
    - unfold with_stack, with_stack_nop. cbn [r_stack r_alt]. len_lia. }
  replace (80 + n - 80) with n by lia.
  unfold with_stack, with_stack_nop; cbn [r_stack r_alt r_vf r_sub r_nop].
  (* OP_CHECKMULTISIG *)
  eapply runs_step; [apply get_op_opcode; vm_compute; reflexivity| |apply runs_nil].
  change (b2z xae) with 174.
  eapply ref_step_exec2; [lia|reflexivity|cbn [r_nop Z.gtb Z.compare Pos.compare Pos.compare_cont]; lia|reflexivity|reflexivity| |].
  - cbn [Z.gtb Z.compare Pos.compare Pos.compare_cont r_nop Z.add].
    rewrite exec_multisig with (nv := ref_enc n) (keys := rev pks) (mv := ref_enc m) (sigs := rev sigs) (r3 := []) (n := n) (m := m);
      [|unfold with_stack_nop; cbn [r_stack]; reflexivity|exact Nn|exact Nm|exact Lrp|exact Lrs|lia|lia
       |unfold with_stack_nop; cbn [r_nop]; lia].
    unfold with_stack_nop; cbn [r_stack r_alt r_vf r_sub r_nop]. rewrite Sub.
    rewrite ms_walk_in_order by (apply in_order_rev; exact IO). reflexivity.
  - cbn [r_stack r_alt]. vm_compute. discriminate.
Qed.
End Multi.

(* =================================================================================== *)
(* 6. the theorems about VerifyScript with the real oracle                             *)
(* =================================================================================== *)
Lemma in_order_In R sigs keys : in_order R sigs keys -> forall sg, In sg sigs -> exists k, In k keys /\ R sg k.
Proof.
  induction 1 as [keys|sg0 sigs k keys Hr D IH|sigs k keys D IH]; intros sg Hs.
  - destruct Hs.
  - destruct Hs as [<-|Hs]; [exists k; split; [left; reflexivity|exact Hr]|].
    destruct (IH sg Hs) as (k' & Hk & Hr'). exists k'. split; [right; exact Hk|exact Hr'].
  - destruct (IH sg Hs) as (k' & Hk & Hr'). exists k'. split; [right; exact Hk|exact Hr'].
Qed.

Section FinalMulti.
Variable H : bytes -> bytes.
Variable E : curve.
Hypothesis L : curve_laws E.
Hypothesis n_small : c_n E < 2 ^ 256.
Hypothesis table_ok : Spec.Base58.value_msb 256 max_mod_half_order = c_n E / 2.
Hypothesis H_len : forall b, length (H b) = 32%nat.
Variable ripemd160 sha1 sha256 : bytes -> bytes.
Hypothesis hash_small : forall x, Proofs.ScriptEval.small (ripemd160 x) /\ Proofs.ScriptEval.small (sha1 x) /\ Proofs.ScriptEval.small (sha256 x).
Variable fl : flags.
Hypothesis flags_ok : f_cleanstack fl = true -> f_p2sh fl = true.

(* "sg is what the library produces for input idx of t under the key that pk encodes, for the
   subscript code": SignatureHash, then CECKey.sign with some usable nonce, then the hash type *)
Definition lib_signed (code : bytes) (t : tx) (idx : Z) (sg pk : bytes) : Prop :=
  exists d k ht h sigder, 0 <= ht < 256 /\ sec1_dec E pk = Some (pub E d) /\
    signature_hash H code t idx ht = Ok h /\ valid_nonce E d (be_dec h) k /\
    cec_sign E d h k = Ok sigder /\ sg = sigder ++ [z2b ht].

Lemma lib_signed_facts code t t' idx sg pk : lib_signed code t idx sg pk -> unsigned_eq t t' ->
  real_checksig H E t' idx sg pk code = true /\ lenZ sg <= 73 /\
  (forall pk' (Q : pt E), sec1_dec E pk' = Some Q -> sg <> pk').
Proof.
  intros (d & k & ht & h & sigder & Hh & Dp & Sh & Vn & Cs & ->) Ue.
  destruct (signed_oracle H E L n_small table_ok H_len code t t' idx ht d k pk h Hh Dp Sh Vn Ue) as (sd & r & s & Es & Ep & Ll & CS).
  rewrite Cs in Es. injection Es as <-.
  split; [exact CS|]. split; [unfold lenZ; rewrite app_length; cbn [length]; lia|].
  intros pk' Q Dq. exact (sig_not_pubkey E sigder r s (z2b ht) pk' Q Ep Dq).
Qed.

(* ---------- bare m-of-n ---------- *)
(* scriptSig OP_0 <sig_1> .. <sig_m>; the signatures are library signatures under an
   order-preserving selection of the n listed keys (the order CHECKMULTISIG requires) *)
Theorem accept_multisig (sigs pks : list (list byte)) t t' idx :
  let spk := multisig_script (lenZ sigs) pks in
  1 <= lenZ sigs -> lenZ pks <= 16 ->
  Forall (fun pk => exists Q : pt E, sec1_dec E pk = Some Q) pks ->
  in_order (lib_signed spk t idx) sigs pks -> unsigned_eq t t' ->
  verify_script (real_checksig H E t' idx) ripemd160 sha1 sha256 fl (pushes ([] :: sigs)) spk = Ok tt.
Proof.
  intros spk Lm Ln Fk IO Ue. apply accept_transfer; [exact hash_small|exact flags_ok|].
  assert (Fs : Forall (fun d : list byte => lenZ d <= 520) sigs).
  { rewrite Forall_forall. intros sg Hs. destruct (in_order_In _ _ _ IO sg Hs) as (k & _ & Hr).
    destruct (lib_signed_facts _ _ _ _ _ _ Hr Ue) as (_ & Ls & _). lia. }
  assert (Fp : Forall (fun d : list byte => lenZ d <= 520) pks).
  { rewrite Forall_forall in *. intros pk Hp. destruct (Fk pk Hp) as (Q & Dq).
    destruct (sec1_dec_shape E pk Q Dq) as (_ & _ & _ & _ & Lp). unfold lenZ. lia. }
  pose proof (in_order_length _ _ _ IO : (@length (list byte) sigs <= @length (list byte) pks)%nat) as Lmn.
  apply bare_verify_ref.
  - constructor; [vm_compute; discriminate|exact Fs].
  - assert (F0 : Forall (fun d : list byte => lenZ d <= 520) ([] :: sigs)) by (constructor; [vm_compute; discriminate|exact Fs]).
    eapply Z.le_trans; [exact (pushes_len ([] :: sigs) F0)|]. unfold lenZ in *. cbn [length]. lia.
  - unfold lenZ in *. cbn [length]. lia.
  - apply multisig_eval; [exact Lm|unfold lenZ; lia|exact Ln|exact Fs|exact Fp| |].
    + intros sg pk Hs Hp. destruct (in_order_In _ _ _ IO sg Hs) as (k & _ & Hr).
      destruct (lib_signed_facts _ _ _ _ _ _ Hr Ue) as (_ & _ & Np).
      rewrite Forall_forall in Fk. destruct (Fk pk Hp) as (Q & Dq). exact (Np pk Q Dq).
    + eapply in_order_impl; [|exact IO]. cbn beta. intros sg k _ _ Hr.
      exact (proj1 (lib_signed_facts _ _ _ _ _ _ Hr Ue)).
  - (* not P2SH-shaped: the first byte is OP_1..OP_16 *)
    destruct (small_facts (lenZ sigs) ltac:(unfold lenZ in *; lia)) as (Bm & _).
    assert (Hb : Byte.eqb (small_op (lenZ sigs)) xa9 = false).
    { destruct (Byte.eqb (small_op (lenZ sigs)) xa9) eqn:Eb; [|reflexivity]. apply Byte.byte_dec_bl in Eb.
      rewrite Eb in Bm. change (b2z xa9) with 169 in Bm. unfold lenZ in *. lia. }
    unfold ref_p2sh, spk, multisig_script. cbn [app firstn].
    destruct (pushes pks ++ [small_op (lenZ pks); xae]); cbn [bytes_eqb]; rewrite Hb; cbn [andb]; now rewrite andb_false_r.
Qed.

(* ---------- P2SH-wrapped: scriptPubKey OP_HASH160 <hash160 redeem> OP_EQUAL, scriptSig = the
   inner scriptSig followed by <redeem>; the digest is computed with the REDEEM script as the
   subscript ---------- *)
Theorem accept_p2sh_p2pk t t' idx ht d k pkb h :
  let rs := p2pk_script pkb in let hh := ripemd160 (sha256 rs) in
  0 <= ht < 256 -> sec1_dec E pkb = Some (pub E d) -> length hh = 20%nat ->
  signature_hash H rs t idx ht = Ok h -> valid_nonce E d (be_dec h) k -> unsigned_eq t t' ->
  exists sigder, cec_sign E d h k = Ok sigder /\
    verify_script (real_checksig H E t' idx) ripemd160 sha1 sha256 fl
      (pushes [sigder ++ [z2b ht]; rs]) (p2sh_script hh) = Ok tt.
Proof.
  intros rs hh Hh Dp Lhh Sh Vn Ue.
  destruct (signed_oracle H E L n_small table_ok H_len rs t t' idx ht d k pkb h Hh Dp Sh Vn Ue) as (sigder & r & s & Es & Ep & Ll & CS).
  exists sigder. split; [exact Es|]. apply accept_transfer; [exact hash_small|exact flags_ok|].
  destruct (sec1_dec_shape E pkb _ Dp) as (hb & tl & Epk & _ & Lpk).
  assert (Lp : lenZ pkb <= 65) by (unfold lenZ; lia).
  assert (Ls : lenZ (sigder ++ [z2b ht]) <= 73) by (unfold lenZ; rewrite app_length; cbn [length]; lia).
  assert (Lr : lenZ rs <= 520).
  { unfold rs, p2pk_script. pose proof (ref_push_len pkb ltac:(lia)). unfold ref_push in *.
    destruct (Z.ltb_spec (lenZ pkb) 76); [|lia]. unfold lenZ in *. rewrite app_length. cbn [length]. lia. }
  assert (F1 : Forall (fun d : list byte => lenZ d <= 520) [sigder ++ [z2b ht]]) by (constructor; [lia|constructor]).
  apply (p2sh_verify_ref _ ripemd160 sha1 sha256 fl flags_ok [sigder ++ [z2b ht]] rs F1 Lr Lhh).
  - assert (F2 : Forall (fun d : list byte => lenZ d <= 520) ([sigder ++ [z2b ht]] ++ [rs])) by (repeat constructor; lia).
    eapply Z.le_trans; [exact (pushes_len _ F2)|]. vm_compute. discriminate.
  - vm_compute. discriminate.
  - cbn [rev app]. apply p2pk_eval; [lia|lia|exact (sig_not_pubkey E sigder r s (z2b ht) pkb _ Ep Dp)|exact CS].
Qed.

Theorem accept_p2sh_multisig (sigs pks : list (list byte)) t t' idx :
  let rs := multisig_script (lenZ sigs) pks in let hh := ripemd160 (sha256 rs) in
  1 <= lenZ sigs -> lenZ pks <= 16 -> lenZ rs <= 520 -> length hh = 20%nat ->
  Forall (fun pk => exists Q : pt E, sec1_dec E pk = Some Q) pks ->
  in_order (lib_signed rs t idx) sigs pks -> unsigned_eq t t' ->
  verify_script (real_checksig H E t' idx) ripemd160 sha1 sha256 fl
    (pushes (([] :: sigs) ++ [rs])) (p2sh_script hh) = Ok tt.
Proof.
  intros rs hh Lm Ln Lr Lhh Fk IO Ue. apply accept_transfer; [exact hash_small|exact flags_ok|].
  assert (Fs : Forall (fun d : list byte => lenZ d <= 520) sigs).
  { rewrite Forall_forall. intros sg Hs. destruct (in_order_In _ _ _ IO sg Hs) as (k & _ & Hr).
    destruct (lib_signed_facts _ _ _ _ _ _ Hr Ue) as (_ & Ls & _). lia. }
  assert (Fp : Forall (fun d : list byte => lenZ d <= 520) pks).
  { rewrite Forall_forall in *. intros pk Hp. destruct (Fk pk Hp) as (Q & Dq).
    destruct (sec1_dec_shape E pk Q Dq) as (_ & _ & _ & _ & Lp). unfold lenZ. lia. }
  pose proof (in_order_length _ _ _ IO : (@length (list byte) sigs <= @length (list byte) pks)%nat) as Lmn.
  assert (F0 : Forall (fun d : list byte => lenZ d <= 520) ([] :: sigs)) by (constructor; [vm_compute; discriminate|exact Fs]).
  apply (p2sh_verify_ref _ ripemd160 sha1 sha256 fl flags_ok ([] :: sigs) rs F0 Lr Lhh).
  - assert (F2 : Forall (fun d : list byte => lenZ d <= 520) (([] :: sigs) ++ [rs])).
    { apply Forall_app. split; [exact F0|constructor; [exact Lr|constructor]]. }
    eapply Z.le_trans; [exact (pushes_len _ F2)|]. unfold lenZ in *. rewrite app_length. cbn [length]. lia.
  - unfold lenZ in *. cbn [length]. lia.
  - apply multisig_eval; [exact Lm|unfold lenZ; lia|exact Ln|exact Fs|exact Fp| |].
    + intros sg pk Hs Hp. destruct (in_order_In _ _ _ IO sg Hs) as (k & _ & Hr).
      destruct (lib_signed_facts _ _ _ _ _ _ Hr Ue) as (_ & _ & Np).
      rewrite Forall_forall in Fk. destruct (Fk pk Hp) as (Q & Dq). exact (Np pk Q Dq).
    + eapply in_order_impl; [|exact IO]. cbn beta. intros sg k _ _ Hr.
      exact (proj1 (lib_signed_facts _ _ _ _ _ _ Hr Ue)).
Qed.

(* P2SH-wrapped P2PKH (same FindAndDelete proviso as the bare form) *)
Theorem accept_p2sh_p2pkh t t' idx ht d k pkb h :
  let kh := ripemd160 (sha256 pkb) in let rs := p2pkh_script kh in let hh := ripemd160 (sha256 rs) in
  0 <= ht < 256 -> sec1_dec E pkb = Some (pub E d) -> length kh = 20%nat -> length hh = 20%nat ->
  signature_hash H rs t idx ht = Ok h -> valid_nonce E d (be_dec h) k -> unsigned_eq t t' ->
  exists sigder, cec_sign E d h k = Ok sigder /\
    (sigder ++ [z2b ht] <> kh ->
     verify_script (real_checksig H E t' idx) ripemd160 sha1 sha256 fl
       (pushes [sigder ++ [z2b ht]; pkb; rs]) (p2sh_script hh) = Ok tt).
Proof.
  intros kh rs hh Hh Dp Lkh Lhh Sh Vn Ue.
  destruct (signed_oracle H E L n_small table_ok H_len rs t t' idx ht d k pkb h Hh Dp Sh Vn Ue) as (sigder & r & s & Es & Ep & Ll & CS).
  exists sigder. split; [exact Es|]. intros Ne. apply accept_transfer; [exact hash_small|exact flags_ok|].
  destruct (sec1_dec_shape E pkb _ Dp) as (hb & tl & Epk & _ & Lpk).
  assert (Lp : lenZ pkb <= 65) by (unfold lenZ; lia).
  assert (Ls : lenZ (sigder ++ [z2b ht]) <= 73) by (unfold lenZ; rewrite app_length; cbn [length]; lia).
  assert (Lk : lenZ kh = 20) by (unfold lenZ; rewrite Lkh; reflexivity).
  assert (Lr : lenZ rs <= 520).
  { unfold rs, p2pkh_script, ref_push. rewrite Lk. cbn [Z.ltb Z.compare Pos.compare Pos.compare_cont].
    unfold lenZ. rewrite !app_length. cbn [length]. rewrite Lkh. vm_compute. discriminate. }
  assert (F1 : Forall (fun d : list byte => lenZ d <= 520) [sigder ++ [z2b ht]; pkb]) by (repeat constructor; lia).
  apply (p2sh_verify_ref _ ripemd160 sha1 sha256 fl flags_ok [sigder ++ [z2b ht]; pkb] rs F1 Lr Lhh).
  - assert (F2 : Forall (fun d : list byte => lenZ d <= 520) ([sigder ++ [z2b ht]; pkb] ++ [rs])) by (repeat constructor; lia).
    eapply Z.le_trans; [exact (pushes_len _ F2)|]. vm_compute. discriminate.
  - vm_compute. discriminate.
  - cbn [rev app]. apply p2pkh_eval; fold kh; [lia|lia|lia|exact Ne|exact CS].
Qed.
End FinalMulti.

(* =================================================================================== *)
(* 7. the hypotheses are satisfiable (all but curve_laws, cf. Proofs/Accept.v section 7) *)
(* =================================================================================== *)
From BV Require Import Model.Secp256k1.
Definition ex_pk_of (d : Z) : bytes := sec1_enc secp256k1 Compressed (pub secp256k1 d).
Definition ex_pks : list (list byte) := [ex_pk_of 1; ex_pk_of 2; ex_pk_of 3].

(* 2-of-3, signed by the first and the third key (secrets 1 and 3, nonce 2, SIGHASH_ALL),
   input 1 of the example transaction *)
Example accept_multisig_hyps_satisfiable :
  let H := toy_hash 32 in let r160 := toy_hash 20 in let s256 := toy_hash 32 in
  let spk := multisig_script 2 ex_pks in
  Forall (fun pk => exists Q : pt secp256k1, sec1_dec secp256k1 pk = Some Q) ex_pks /\
  lenZ spk <= 520 /\ length (r160 (s256 spk)) = 20%nat /\
  exists sigs : list (list byte), lenZ sigs = 2 /\ in_order (lib_signed H secp256k1 spk (ex_tx []) 1) sigs ex_pks /\
    unsigned_eq (ex_tx []) (ex_tx (pushes ([] :: sigs))).
Proof.
  cbv zeta. split.
  { repeat constructor; eexists; vm_compute; reflexivity. }
  split; [vm_compute; discriminate|]. split; [apply toy_hash_length|].
  destruct (signature_hash (toy_hash 32) (multisig_script 2 ex_pks) (ex_tx []) 1 1) as [h|] eqn:Sh; [|vm_compute in Sh; discriminate Sh].
  assert (V1 : valid_nonceb secp256k1 1 (be_dec h) 2 = true) by (vm_compute in Sh; injection Sh as <-; vm_compute; reflexivity).
  assert (V3 : valid_nonceb secp256k1 3 (be_dec h) 2 = true) by (vm_compute in Sh; injection Sh as <-; vm_compute; reflexivity).
  destruct (cec_sign secp256k1 1 h 2) as [s1|] eqn:C1; [|vm_compute in Sh; injection Sh as <-; vm_compute in C1; discriminate C1].
  destruct (cec_sign secp256k1 3 h 2) as [s3|] eqn:C3; [|vm_compute in Sh; injection Sh as <-; vm_compute in C3; discriminate C3].
  exists [s1 ++ [z2b 1]; s3 ++ [z2b 1]]. split; [reflexivity|]. split; [|apply ex_unsigned_eq].
  unfold ex_pks. apply io_match; [|apply io_skip, io_match; [|apply io_nil]].
  - exists 1, 2, 1, h, s1. split; [lia|]. split; [vm_compute; reflexivity|]. split; [exact Sh|].
    split; [now apply valid_nonceb_sound|]. split; [exact C1|reflexivity].
  - exists 3, 2, 1, h, s3. split; [lia|]. split; [vm_compute; reflexivity|]. split; [exact Sh|].
    split; [now apply valid_nonceb_sound|]. split; [exact C3|reflexivity].
Qed.

(* the definitions used in the statements, spelled out (for Props/C05.v) *)
Lemma accept_defs :
  (forall ds, pushes ds = concat (map ref_push ds)) /\
  (forall pkb, p2pk_script pkb = ref_push pkb ++ [xac]) /\
  (forall kh, p2pkh_script kh = [x76; xa9] ++ ref_push kh ++ [x88; xac]) /\
  (forall hh, p2sh_script hh = [xa9] ++ ref_push hh ++ [x87]) /\
  (forall m pks, multisig_script m pks = [z2b (0x50 + m)] ++ pushes pks ++ [z2b (0x50 + lenZ pks); xae]) /\
  (forall t t', unsigned_eq t t' <->
     tx_version t' = tx_version t /\ tx_lock t' = tx_lock t /\ tx_vout t' = tx_vout t /\
     Forall2 (fun a b => ti_prevout a = ti_prevout b /\ ti_seq a = ti_seq b) (tx_vin t) (tx_vin t')) /\
  (forall H E code t idx sg pk, lib_signed H E code t idx sg pk <->
     exists d k ht h sigder, 0 <= ht < 256 /\ sec1_dec E pk = Some (pub E d) /\
       signature_hash H code t idx ht = Ok h /\ valid_nonce E d (be_dec h) k /\
       cec_sign E d h k = Ok sigder /\ sg = sigder ++ [z2b ht]).
Proof.
  split; [reflexivity|]. split; [reflexivity|]. split; [reflexivity|]. split; [reflexivity|]. split; [reflexivity|].
  split; [intros t t'; split; intros X; exact X|]. intros H E code t idx sg pk; split; intros X; exact X.
Qed.
