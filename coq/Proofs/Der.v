(* Proofs/Der.v – the canonical DER encoder and the strict parser of Spec/Der.v are
   mutually inverse: parse (enc r s) = (r, s) and parse b = (r, s) -> b = enc r s (so the
   parser accepts exactly one byte string per pair); sizes. *)
From BV Require Import Common.Base Spec.Base58 Proofs.Base58Digits Proofs.Base58Spec Spec.Der.

(* ---------- big-endian numerals ---------- *)
Lemma fold_shift ds : forall acc,
  fold_left (fun a d => a * 256 + d) ds acc = acc * 256 ^ lenZ ds + fold_left (fun a d => a * 256 + d) ds 0.
Proof.
  unfold lenZ. induction ds as [|d t IH]; intros acc; cbn [fold_left length].
  - change (256 ^ Z.of_nat 0) with 1. lia.
  - rewrite IH, (IH (0 * 256 + d)). rewrite Nat2Z.inj_succ, Z.pow_succ_r by lia. ring.
Qed.
Lemma be_value_cons c t : be_value (c :: t) = b2z c * 256 ^ lenZ t + be_value t.
Proof.
  unfold be_value, value_msb. cbn [map fold_left]. rewrite fold_shift.
  unfold lenZ. rewrite map_length. ring.
Qed.
Lemma be_value_nil : be_value [] = 0.
Proof. reflexivity. Qed.
Lemma be_value_upper x : be_value x < 256 ^ lenZ x.
Proof.
  induction x as [|c t IH]; [reflexivity|]. rewrite be_value_cons. pose proof (b2z_range c).
  unfold lenZ in *. cbn [length]. rewrite Nat2Z.inj_succ, Z.pow_succ_r by lia.
  assert (0 < 256 ^ Z.of_nat (length t)) by (apply Z.pow_pos_nonneg; lia). nia.
Qed.
Lemma be_value_lower c t : b2z c <> 0 -> 256 ^ lenZ t <= be_value (c :: t).
Proof.
  intros H. rewrite be_value_cons. pose proof (b2z_range c). pose proof (be_value_nonneg t).
  assert (0 < 256 ^ lenZ t) by (apply Z.pow_pos_nonneg; unfold lenZ; lia). nia.
Qed.
Lemma be_value_zero_cons t : be_value (x00 :: t) = be_value t.
Proof. exact (be_value_zeros 1 t). Qed.
(* the minimal numeral of a value below 256^k has at most k digits *)
Lemma be_bytes_length v k : 0 <= v < 256 ^ Z.of_nat k -> (length (be_bytes v) <= k)%nat.
Proof.
  intros [H0 H1]. pose proof (be_value_bytes v H0) as V. pose proof (be_bytes_no_lead_zero v H0) as NL.
  destruct (be_bytes v) as [|c t]; [simpl; lia|].
  cbn [no_lead_zero] in NL. unfold is_zero_byte in NL. apply Z.eqb_neq in NL.
  pose proof (be_value_lower c t NL) as Lo. rewrite V in Lo. unfold lenZ in Lo.
  cbn [length]. destruct (le_lt_dec (S (length t)) k); [assumption|].
  assert (256 ^ Z.of_nat k <= 256 ^ Z.of_nat (length t)) by (apply Z.pow_le_mono_r; lia). lia.
Qed.

(* ---------- INTEGER content ---------- *)
Lemma content_spec v : 0 <= v ->
  minimal_content (der_int_content v) = true /\ be_value (der_int_content v) = v.
Proof.
  intros H. unfold der_int_content.
  pose proof (be_value_bytes v H) as V. pose proof (be_bytes_no_lead_zero v H) as NL.
  destruct (be_bytes v) as [|h t].
  - split; [reflexivity|]. rewrite <- V. reflexivity.
  - cbn [no_lead_zero] in NL. unfold is_zero_byte in NL.
    destruct (Z.ltb_spec (b2z h) 128) as [Lt|Ge].
    + split; [|exact V]. cbn [minimal_content]. rewrite NL.
      destruct (Z.ltb_spec (b2z h) 128); [reflexivity|lia].
    + split; [|rewrite be_value_zero_cons; exact V]. cbn [minimal_content].
      change (b2z x00) with 0. destruct (Z.ltb_spec (b2z h) 128); [lia|reflexivity].
Qed.
Lemma content_unique c : minimal_content c = true -> der_int_content (be_value c) = c.
Proof.
  destruct c as [|h t]; [discriminate|]. cbn [minimal_content].
  intros M. apply andb_true_iff in M as [M1 M2]. apply Z.ltb_lt in M1. apply negb_true_iff in M2.
  unfold der_int_content. destruct (Z.eqb_spec (b2z h) 0) as [Z0|NZ].
  - assert (h = x00) as -> by (apply b2z_inj; exact Z0). cbn [andb] in M2.
    rewrite be_value_zero_cons. destruct t as [|h2 t']; [reflexivity|].
    apply Z.ltb_ge in M2.
    rewrite be_bytes_value by (cbn [no_lead_zero]; unfold is_zero_byte; apply Z.eqb_neq; lia).
    destruct (Z.ltb_spec (b2z h2) 128); [lia|reflexivity].
  - rewrite be_bytes_value by (cbn [no_lead_zero]; unfold is_zero_byte; apply Z.eqb_neq; exact NZ).
    destruct (Z.ltb_spec (b2z h) 128); [reflexivity|lia].
Qed.
Lemma content_length v k : 0 <= v < 256 ^ Z.of_nat k -> (1 <= length (der_int_content v) <= k + 1)%nat.
Proof.
  intros H. pose proof (be_bytes_length v k H) as Lb. unfold der_int_content.
  destruct (be_bytes v) as [|h t]; [simpl; lia|]. destruct (b2z h <? 128); cbn [length] in *; lia.
Qed.

Lemma z2b_small L : 0 <= L < 256 -> b2z (z2b L) = L.
Proof. intros H. rewrite b2z_z2b. apply Z.mod_small. exact H. Qed.

(* ---------- INTEGER ---------- *)
Lemma parse_int_enc v rest : 0 <= v -> lenZ (der_int_content v) < 128 ->
  parse_int (der_int v ++ rest) = Some (v, rest).
Proof.
  intros H Hl. destruct (content_spec v H) as [M V]. unfold der_int.
  set (c := der_int_content v) in *. cbn [app parse_int].
  assert (Lc : 1 <= lenZ c) by (unfold lenZ; destruct c; [discriminate|cbn [length]; lia]).
  rewrite z2b_small by lia. change (b2z x02 =? 2) with true.
  unfold lenZ in *. rewrite Nat2Z.id.
  destruct (Z.leb_spec 1 (Z.of_nat (length c))); [|lia].
  destruct (Z.ltb_spec (Z.of_nat (length c)) 128); [|lia].
  rewrite app_length. destruct (Nat.leb_spec (length c) (length c + length rest)); [|lia].
  rewrite firstn_app, Nat.sub_diag, firstn_all, firstn_O, app_nil_r.
  rewrite skipn_app, Nat.sub_diag, skipn_all. cbn [andb app skipn]. rewrite M, V. reflexivity.
Qed.
Lemma parse_int_inv b v rest : parse_int b = Some (v, rest) -> b = der_int v ++ rest /\ 0 <= v.
Proof.
  destruct b as [|tag [|l body]]; try discriminate. cbn [parse_int].
  destruct (Z.eqb_spec (b2z tag) 2) as [T|]; [|discriminate].
  destruct (Z.leb_spec 1 (b2z l)); [|discriminate].
  destruct (Z.ltb_spec (b2z l) 128); [|discriminate].
  destruct (Nat.leb_spec (Z.to_nat (b2z l)) (length body)); [|discriminate]. cbn [andb].
  destruct (minimal_content _) eqn:M; [|discriminate]. intros E. injection E as <- <-.
  split; [|apply be_value_nonneg].
  unfold der_int. rewrite (content_unique _ M).
  assert (tag = x02) as -> by (apply b2z_inj; exact T).
  unfold lenZ. rewrite firstn_length_le by assumption. rewrite Z2Nat.id by lia. rewrite z2b_b2z.
  cbn [app]. rewrite firstn_skipn. reflexivity.
Qed.

(* ---------- SEQUENCE ---------- *)
Definition small (v : Z) : Prop := 0 <= v < 2 ^ 256.
Lemma small_content v : small v -> (1 <= length (der_int_content v) <= 33)%nat.
Proof. intros H. apply (content_length v 32). exact H. Qed.
Lemma der_int_length v : small v -> (3 <= length (der_int v) <= 35)%nat.
Proof. intros H. pose proof (small_content v H). unfold der_int. cbn [length]. lia. Qed.

Theorem parse_enc_der r s : small r -> small s -> parse_der (enc_der r s) = Some (r, s).
Proof.
  intros Hr Hs. unfold enc_der. set (body := der_int r ++ der_int s).
  pose proof (der_int_length r Hr). pose proof (der_int_length s Hs).
  pose proof (small_content r Hr). pose proof (small_content s Hs).
  assert (Lb : lenZ body <= 70) by (unfold body, lenZ; rewrite app_length; lia).
  cbn [parse_der]. change (b2z x30 =? 48) with true. rewrite z2b_small by (unfold lenZ in *; lia).
  destruct (Z.ltb_spec (lenZ body) 128); [|lia]. rewrite Z.eqb_refl. cbn [andb].
  unfold body. rewrite parse_int_enc by (unfold small in Hr; unfold lenZ; lia).
  rewrite <- (app_nil_r (der_int s)). rewrite parse_int_enc by (unfold small in Hs; unfold lenZ; lia).
  reflexivity.
Qed.
Theorem parse_der_inv b r s : parse_der b = Some (r, s) -> b = enc_der r s /\ 0 <= r /\ 0 <= s.
Proof.
  destruct b as [|tag [|l body]]; try discriminate. cbn [parse_der].
  destruct (Z.eqb_spec (b2z tag) 48) as [T|]; [|discriminate].
  destruct (Z.ltb_spec (b2z l) 128); [|discriminate].
  destruct (Z.eqb_spec (b2z l) (lenZ body)) as [Lb|]; [|discriminate]. cbn [andb].
  destruct (parse_int body) as [[r' rest]|] eqn:P1; [|discriminate].
  destruct (parse_int rest) as [[s' [|]]|] eqn:P2; try discriminate.
  intros E. injection E as <- <-.
  apply parse_int_inv in P1 as [-> Hr]. apply parse_int_inv in P2 as [-> Hs].
  rewrite app_nil_r in *. split; [|split; assumption].
  unfold enc_der. assert (tag = x30) as -> by (apply b2z_inj; exact T).
  rewrite <- Lb, z2b_b2z. reflexivity.
Qed.
Theorem enc_der_length r s : small r -> small s -> (8 <= length (enc_der r s) <= 72)%nat.
Proof.
  intros Hr Hs. pose proof (der_int_length r Hr). pose proof (der_int_length s Hs).
  unfold enc_der. cbn [length]. rewrite app_length. lia.
Qed.
Theorem enc_der_strict r s : small r -> small s -> strict_der (enc_der r s) = true.
Proof. intros Hr Hs. unfold strict_der. rewrite parse_enc_der by assumption. reflexivity. Qed.
