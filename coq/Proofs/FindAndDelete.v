(* Proofs/FindAndDelete.v – shared by C03 (signature hash) and C06 (interpreter):
   the Python FindAndDelete (operation-granular over raw_iter, Model/FindAndDelete.v) equals
   Bitcoin Core's byte-skipping FindAndDelete (Spec/ScriptRef.v) on every script that parses,
   for every pattern that is the complete encoding of ONE operation (a single non-push
   opcode byte such as OP_CODESEPARATOR, or the push of a byte string); on a script that
   does not parse the Python raises the tokeniser's exception.
   Also: the two GetOp definitions (Spec/Script.v with error names, Spec/ScriptRef.v with
   option) agree; the reference FindAndDelete never lengthens, does not depend on its fuel,
   and steps over a non-push opcode that does not start the pattern. *)
From BV Require Import Common.Base Common.PyList Common.Tx Model.Script Spec.Script
  Model.FindAndDelete Proofs.ScriptIter.
From BV Require Import Spec.ScriptRef.

(* =================================================================================== *)
(* 1. the two GetOp                                                                    *)
(* =================================================================================== *)
(* Spec/Script.v's result seen through Spec/ScriptRef.v's type: no data = empty data,
   both failures = None *)
Definition opt_of_get_op (r : res (Z * option bytes * bytes)) : option (Z * bytes * bytes) :=
  match r with
  | Ok (op, Some d, rest) => Some (op, d, rest)
  | Ok (op, None, rest) => Some (op, [], rest)
  | Err _ => None
  end.

Lemma take_eq n r : 0 <= n ->
  take n r = if lenZ r <? n then None else Some (firstn (Z.to_nat n) r, skipn (Z.to_nat n) r).
Proof. intros H. unfold take. destruct (Z.ltb_spec n 0); [lia|]. reflexivity. Qed.

Theorem get_op_rel code : ScriptRef.get_op code = opt_of_get_op (Spec.Script.get_op code).
Proof.
  destruct code as [|c r]; [reflexivity|]. unfold ScriptRef.get_op, Spec.Script.get_op.
  pose proof (b2z_range c) as Rc.
  destruct (Z.ltb_spec 78 (b2z c)) as [H1|H1].
  { destruct (Z.ltb_spec (b2z c) 76); [lia|]. destruct (Z.leb_spec (b2z c) 78); [lia|]. reflexivity. }
  destruct (Z.ltb_spec (b2z c) 76) as [H2|H2].
  { rewrite take_eq by lia. cbn [bind fst snd]. destruct (lenZ r <? b2z c); reflexivity. }
  destruct (Z.leb_spec (b2z c) 78) as [_|]; [|lia].
  destruct (Z.eqb_spec (b2z c) 76) as [E1|E1].
  { rewrite take_eq by lia. change (Z.to_nat 1) with 1%nat.
    destruct r as [|l r']; [reflexivity|]. lenz. pose proof (lenZ_nonneg r').
    destruct (Z.ltb_spec (1 + lenZ r') 1); [lia|]. cbn [firstn skipn bind fst snd].
    replace (le_dec [l]) with (b2z l) by (cbn [le_dec]; lia). pose proof (b2z_range l).
    rewrite take_eq by lia. destruct (lenZ r' <? b2z l); reflexivity. }
  destruct (Z.eqb_spec (b2z c) 77) as [E2|E2].
  { rewrite take_eq by lia. change (Z.to_nat 2) with 2%nat.
    destruct (Z.ltb_spec (lenZ r) 2); [reflexivity|]. cbn [bind fst snd].
    pose proof (le_dec_range (firstn 2 r)). rewrite take_eq by lia.
    destruct (lenZ (skipn 2 r) <? le_dec (firstn 2 r)); reflexivity. }
  rewrite take_eq by lia. change (Z.to_nat 4) with 4%nat.
  destruct (Z.ltb_spec (lenZ r) 4); [reflexivity|]. cbn [bind fst snd].
  pose proof (le_dec_range (firstn 4 r)). rewrite take_eq by lia.
  destruct (lenZ (skipn 4 r) <? le_dec (firstn 4 r)); reflexivity.
Qed.

Definition data_of (d : option bytes) : bytes := match d with Some x => x | None => [] end.

Lemma op_bytes_ne op d : (1 <= length (op_bytes op d))%nat.
Proof. destruct d; unfold op_bytes; repeat destruct (_ <? _); repeat destruct (_ =? _); cbn [length]; lia. Qed.

(* the reference GetOp decodes a well-formed operation in front of anything *)
Lemma get_op_ref_complete op d rest : op_wf op d ->
  ScriptRef.get_op (op_bytes op d ++ rest) = Some (op, data_of d, rest).
Proof. intros W. rewrite get_op_rel, (get_op_complete op d rest W). destruct d; reflexivity. Qed.
(* ... and whatever it decodes is a non-empty prefix; the rest is a proper suffix *)
Lemma get_op_ref_some code op d rest : ScriptRef.get_op code = Some (op, d, rest) ->
  exists pre, code = pre ++ rest /\ (1 <= length pre)%nat.
Proof.
  rewrite get_op_rel. destruct (Spec.Script.get_op code) as [[[op' d'] rest']|e] eqn:G; [|discriminate].
  apply get_op_ok in G as [E _]. intros S. exists (op_bytes op' d'). split; [|apply op_bytes_ne].
  destruct d'; cbn [opt_of_get_op] in S; injection S as <- <- <-; exact E.
Qed.
Lemma firstn_len_diff {A} (pre rest : list A) :
  firstn (length (pre ++ rest) - length rest) (pre ++ rest) = pre.
Proof.
  rewrite app_length. replace (length pre + length rest - length rest)%nat with (length pre) by lia.
  now apply firstn_app_len.
Qed.

(* =================================================================================== *)
(* 2. facts about the reference FindAndDelete on arbitrary bytes                       *)
(* =================================================================================== *)
Lemma byte_eqb_sym x y : Byte.eqb x y = Byte.eqb y x.
Proof.
  destruct (Byte.eqb x y) eqn:E.
  - apply Byte.byte_dec_bl in E. subst. symmetry. now apply Byte.byte_dec_lb.
  - destruct (Byte.eqb y x) eqn:E2; [|reflexivity]. apply Byte.byte_dec_bl in E2. subst.
    rewrite (Byte.byte_dec_lb (x:=x) eq_refl) in E. discriminate.
Qed.
Lemma is_prefix_firstn p : forall b, is_prefix p b = bytes_eqb (firstn (length p) b) p.
Proof.
  induction p as [|x p IH]; intros b; [reflexivity|]. destruct b as [|y b]; [reflexivity|].
  cbn [is_prefix length firstn bytes_eqb]. now rewrite IH, byte_eqb_sym.
Qed.
Lemma is_prefix_app p t : is_prefix p (p ++ t) = true.
Proof. rewrite is_prefix_firstn, firstn_app_len by reflexivity. apply bytes_eqb_refl. Qed.
Lemma is_prefix_inv p b : is_prefix p b = true -> b = p ++ skipn (length p) b.
Proof.
  rewrite is_prefix_firstn, bytes_eqb_eq. intros E. rewrite <- E at 1. now rewrite firstn_skipn.
Qed.

(* never lengthens *)
Theorem ref_fad_length pat : forall fuel code, (length (ref_fad fuel code pat) <= length code)%nat.
Proof.
  induction fuel as [|f IH]; intros code; [cbn [ref_fad]; lia|]. cbn [ref_fad].
  destruct (negb (is_nil pat) && is_prefix pat code).
  - etransitivity; [apply IH|]. rewrite skipn_length. lia.
  - destruct (ScriptRef.get_op code) as [[[op d] rest]|] eqn:G; [|lia].
    apply get_op_ref_some in G as (pre & -> & L). rewrite firstn_len_diff, !app_length.
    specialize (IH rest). lia.
Qed.
Theorem fad_ref_length code pat : (length (find_and_delete_ref code pat) <= length code)%nat.
Proof. apply ref_fad_length. Qed.

(* every step consumes at least one byte: any fuel >= |code| gives the same result *)
Theorem ref_fad_fuel pat : forall f1 f2 code, (length code <= f1)%nat -> (length code <= f2)%nat ->
  ref_fad f1 code pat = ref_fad f2 code pat.
Proof.
  assert (Z0 : forall f, ref_fad f [] pat = []).
  { intros [|f]; [reflexivity|]. cbn [ref_fad]. destruct pat; reflexivity. }
  induction f1 as [|f1 IH]; intros f2 code L1 L2.
  - destruct code; [|cbn [length] in L1; lia]. now rewrite !Z0.
  - destruct f2 as [|f2]; [destruct code; [now rewrite !Z0|cbn [length] in L2; lia]|].
    cbn [ref_fad]. destruct (negb (is_nil pat) && is_prefix pat code) eqn:C.
    + apply andb_true_iff in C as [C1 C2]. apply is_prefix_inv in C2.
      destruct pat as [|p pat']; [discriminate|].
      assert (length (skipn (length (p :: pat')) code) < length code)%nat.
      { assert (1 <= length code)%nat by (rewrite C2, app_length; cbn [length]; lia).
        rewrite skipn_length. cbn [length]. lia. }
      apply IH; lia.
    + destruct (ScriptRef.get_op code) as [[[op d] rest]|] eqn:G; [|reflexivity].
      apply get_op_ref_some in G as (pre & -> & L). rewrite app_length in *. f_equal. apply IH; lia.
Qed.
Corollary ref_fad_enough fuel code pat : (length code <= fuel)%nat ->
  ref_fad fuel code pat = find_and_delete_ref code pat.
Proof. intros L. unfold find_and_delete_ref. apply ref_fad_fuel; lia. Qed.

Lemma ref_fad_S f code pat : ref_fad (S f) code pat =
  if negb (is_nil pat) && is_prefix pat code then ref_fad f (skipn (length pat) code) pat
  else match ScriptRef.get_op code with
       | None => code
       | Some (_, _, rest) => firstn (length code - length rest) code ++ ref_fad f rest pat
       end.
Proof. reflexivity. Qed.
Lemma get_op_ref_opcode c code : 0x4e < b2z c -> ScriptRef.get_op (c :: code) = Some (b2z c, [], code).
Proof.
  intros Hc. unfold ScriptRef.get_op.
  destruct (Z.ltb_spec (b2z c) 76); [lia|]. destruct (Z.leb_spec (b2z c) 78); [lia|]. reflexivity.
Qed.

(* a non-push opcode byte that does not start the pattern is copied *)
Theorem fad_ref_cons_op c code pat : 0x4e < b2z c -> hd_error pat <> Some c ->
  find_and_delete_ref (c :: code) pat = c :: find_and_delete_ref code pat.
Proof.
  intros Hc Hp. unfold find_and_delete_ref. cbn [length]. rewrite (ref_fad_S (S (length code))).
  assert (C : negb (is_nil pat) && is_prefix pat (c :: code) = false).
  { destruct pat as [|p pat']; [reflexivity|]. cbn [is_nil negb andb is_prefix].
    destruct (Byte.eqb p c) eqn:E; [|reflexivity]. apply Byte.byte_dec_bl in E. subst. now destruct Hp. }
  rewrite C, (get_op_ref_opcode c code Hc). cbn [length].
  replace (S (length code) - length code)%nat with 1%nat by lia. reflexivity.
Qed.
(* a leading occurrence of a one-byte pattern is removed (OP_CODESEPARATOR: [xab]) *)
Theorem fad_ref_head_byte c code : find_and_delete_ref (c :: code) [c] = find_and_delete_ref code [c].
Proof.
  unfold find_and_delete_ref. cbn [length]. rewrite (ref_fad_S (S (length code))).
  cbn [is_nil negb andb is_prefix length skipn].
  rewrite (Byte.byte_dec_lb (x:=c) eq_refl). reflexivity.
Qed.
Corollary fad_ref_codesep_head code :
  find_and_delete_ref (xab :: code) [xab] = find_and_delete_ref code [xab].
Proof. apply fad_ref_head_byte. Qed.

(* =================================================================================== *)
(* 3. patterns that are one complete operation                                         *)
(* =================================================================================== *)
Definition one_op (pat : bytes) : Prop := exists op d, op_wf op d /\ pat = op_bytes op d.

Lemma one_op_byte c : 0x4e < b2z c -> one_op [c].
Proof.
  intros H. exists (b2z c), None. pose proof (b2z_range c). split; [cbn [op_wf]; lia|].
  cbn [op_bytes]. now rewrite z2b_b2z.
Qed.
Lemma one_op_codesep : one_op [xab].
Proof. apply one_op_byte. vm_compute. reflexivity. Qed.
Lemma le_enc1 n : le_enc 1 n = [z2b n].
Proof. reflexivity. Qed.
(* `CScript() << x` for a byte string shorter than 2^32 *)
Lemma one_op_push x : lenZ x < 2^32 -> one_op (ref_push x).
Proof.
  intros L. pose proof (lenZ_nonneg x) as P. unfold one_op, ref_push.
  destruct (Z.ltb_spec (lenZ x) 76).
  { exists (lenZ x), (Some x). split; [cbn [op_wf]; lia|]. unfold op_bytes.
    destruct (Z.ltb_spec (lenZ x) 76); [reflexivity|lia]. }
  destruct (Z.leb_spec (lenZ x) 255).
  { exists 76, (Some x). split; [cbn [op_wf]; change (2^8) with 256; lia|]. reflexivity. }
  destruct (Z.leb_spec (lenZ x) 65535).
  { exists 77, (Some x). split; [cbn [op_wf]; change (2^16) with 65536; lia|]. reflexivity. }
  exists 78, (Some x). split; [cbn [op_wf]; lia|]. reflexivity.
Qed.
Lemma one_op_ne pat : one_op pat -> (1 <= length pat)%nat.
Proof. intros (op & d & _ & ->). apply op_bytes_ne. Qed.

(* CScript([x]) of the Python = the reference push, below 2^32 bytes *)
Theorem push_of_ref x : lenZ x < 2^32 -> push_of x = Ok (ref_push x).
Proof.
  intros L. pose proof (lenZ_nonneg x) as P. unfold push_of, encode_op_pushdata, ref_push.
  unfold PUSH_T0, PUSH_T1, PUSH_T2, PUSH_T4, PUSH_PREFIX1, PUSH_PREFIX2, PUSH_PREFIX4, PUSH_LEN_WIDTH2, PUSH_LEN_WIDTH4.
  assert (B1 : lenZ x <= 255 -> bytes1 (lenZ x) = Ok [z2b (lenZ x)]).
  { intros. unfold bytes1. destruct (Z.leb_spec 0 (lenZ x)); [|lia]. destruct (Z.ltb_spec (lenZ x) 256); [|lia]. reflexivity. }
  assert (PK : forall w, lenZ x < 256 ^ Z.of_nat w -> pack_le w (lenZ x) = Ok (le_enc w (lenZ x))).
  { intros w Hw. unfold pack_le. destruct (Z.leb_spec 0 (lenZ x)); [|lia].
    destruct (Z.ltb_spec (lenZ x) (256 ^ Z.of_nat w)); [|lia]. reflexivity. }
  destruct (Z.ltb_spec (lenZ x) 76); [rewrite B1 by lia; reflexivity|].
  destruct (Z.leb_spec (lenZ x) 255); [rewrite B1 by lia; reflexivity|].
  destruct (Z.leb_spec (lenZ x) 65535).
  { rewrite PK by (change (256 ^ Z.of_nat 2) with 65536; lia). reflexivity. }
  destruct (Z.leb_spec (lenZ x) 4294967295); [|lia].
  rewrite PK by (change (256 ^ Z.of_nat 4) with 4294967296; lia). reflexivity.
Qed.
Corollary push_of_one_op x : lenZ x < 2^32 -> exists p, push_of x = Ok p /\ p = ref_push x /\ one_op p.
Proof. intros L. exists (ref_push x). split; [now apply push_of_ref|]. split; [reflexivity|now apply one_op_push]. Qed.

(* operation encodings are prefix-free *)
Lemma op_bytes_inj op d op' d' x y : op_wf op d -> op_wf op' d' ->
  op_bytes op d ++ x = op_bytes op' d' ++ y -> op_bytes op d = op_bytes op' d' /\ x = y.
Proof.
  intros W W' E. pose proof (get_op_complete op d x W) as G. rewrite E, (get_op_complete op' d' y W') in G.
  injection G as <- <- <-. auto.
Qed.
(* at an operation boundary the pattern is a prefix of what remains iff it IS the operation *)
Lemma match_head pat o tl : one_op pat -> sop_wf o ->
  bytes_eqb (firstn (length pat) (sop_bytes o ++ tl)) pat = bytes_eqb (sop_bytes o) pat.
Proof.
  intros (op & d & W & ->) Wo. apply eq_true_iff_eq. rewrite !bytes_eqb_eq. split.
  - intros E. pose proof (firstn_skipn (length (op_bytes op d)) (sop_bytes o ++ tl)) as S. rewrite E in S.
    symmetry in S. apply op_bytes_inj in S; [tauto|exact Wo|exact W].
  - intros ->. now apply firstn_app_len.
Qed.

(* =================================================================================== *)
(* 4. both algorithms drop exactly the operations whose encoding is the pattern        *)
(* =================================================================================== *)
Definition fad_ops (pat : bytes) (ops : list sop) : bytes :=
  concat (map (fun o => if bytes_eqb (sop_bytes o) pat then [] else sop_bytes o) ops).

(* reference *)
Lemma ref_fad_ops pat : one_op pat -> forall ops fuel, Forall sop_wf ops ->
  (length (ops_bytes ops) <= fuel)%nat -> ref_fad fuel (ops_bytes ops) pat = fad_ops pat ops.
Proof.
  intros O. pose proof (one_op_ne pat O) as Np.
  assert (Nn : negb (is_nil pat) = true) by (destruct pat; [cbn [length] in Np; lia|reflexivity]).
  induction ops as [|o ops IH]; intros fuel W Lf.
  - destruct fuel; [reflexivity|]. cbn [ops_bytes map concat ref_fad]. rewrite Nn.
    destruct pat; [discriminate|reflexivity].
  - inversion W as [|? ? Wo W']; subst. rewrite ops_bytes_cons in *.
    pose proof (op_bytes_ne (sop_opcode o) (sop_data o)) as No. fold (sop_bytes o) in No.
    rewrite app_length in Lf. destruct fuel as [|f]; [lia|]. cbn [ref_fad]. rewrite Nn. cbn [andb].
    rewrite is_prefix_firstn, (match_head pat o (ops_bytes ops) O Wo).
    unfold fad_ops. cbn [map concat]. fold (fad_ops pat ops).
    destruct (bytes_eqb (sop_bytes o) pat) eqn:E.
    + apply bytes_eqb_eq in E. rewrite E. rewrite skipn_app_len by reflexivity. cbn [app]. apply IH; [exact W'|lia].
    + unfold sop_bytes at 1. unfold sop_wf in Wo. rewrite (get_op_ref_complete _ _ (ops_bytes ops) Wo).
      fold (sop_bytes o). rewrite firstn_len_diff. f_equal. apply IH; [exact W'|lia].
Qed.

(* model: the loop of the Python with its three variables r, last_sop_idx, skip.
   pre0 = the bytes before last_sop_idx, lastop = the operation at last_sop_idx (still
   pending: it is appended at the next iteration, or after the loop, unless skip is set) *)
Lemma py_slice_mid pre0 lastop tl :
  py_slice ((pre0 ++ lastop) ++ tl) (lenZ pre0) (lenZ (pre0 ++ lastop)) = lastop.
Proof.
  rewrite <- app_assoc. lenz. rewrite py_slice_app by apply lenZ_nonneg. apply firstn_app_exact.
Qed.
Lemma fad_loop_ops pat : one_op pat -> forall ops pre0 lastop r skip r' last' skip',
  Forall sop_wf ops -> consecutive (lenZ (pre0 ++ lastop)) ops ->
  fad_loop ((pre0 ++ lastop) ++ ops_bytes ops) pat ops r (lenZ pre0) skip = (r', last', skip') ->
  (if negb skip' then r' ++ py_slice ((pre0 ++ lastop) ++ ops_bytes ops) last' (lenZ ((pre0 ++ lastop) ++ ops_bytes ops)) else r')
  = r ++ (if skip then [] else lastop) ++ fad_ops pat ops.
Proof.
  intros O. induction ops as [|o ops IH]; intros pre0 lastop r skip r' last' skip' W C.
  - cbn [fad_loop ops_bytes map concat]. intros E. injection E as <- <- <-.
    unfold fad_ops. cbn [map concat]. rewrite !app_nil_r.
    destruct skip; cbn [negb]; [now rewrite app_nil_r|]. f_equal.
    pose proof (py_slice_mid pre0 lastop []) as S. now rewrite app_nil_r in S.
  - inversion W as [|? ? Wo W']; subst. destruct C as [Ci C']. cbn [fad_loop]. rewrite Ci.
    rewrite ops_bytes_cons.
    (* the slice appended for the pending operation, and the comparison at this operation *)
    rewrite (py_slice_mid pre0 lastop (sop_bytes o ++ ops_bytes ops)).
    rewrite (py_slice_app (pre0 ++ lastop) (sop_bytes o ++ ops_bytes ops) (lenZ pat) (lenZ_nonneg pat)).
    replace (Z.to_nat (lenZ pat)) with (length pat) by (unfold lenZ; lia).
    rewrite (match_head pat o (ops_bytes ops) O Wo).
    (* re-associate: the operation becomes the pending one *)
    replace ((pre0 ++ lastop) ++ sop_bytes o ++ ops_bytes ops)
      with (((pre0 ++ lastop) ++ sop_bytes o) ++ ops_bytes ops) by now rewrite <- !app_assoc.
    intros E. apply (IH (pre0 ++ lastop) (sop_bytes o)) in E; [|exact W'|].
    2:{ rewrite lenZ_app. exact C'. }
    rewrite E. unfold fad_ops. cbn [map concat]. fold (fad_ops pat ops).
    destruct skip; cbn [negb]; destruct (bytes_eqb (sop_bytes o) pat); rewrite <- ?app_assoc; cbn [app]; reflexivity.
Qed.

(* =================================================================================== *)
(* 5. the shared theorems                                                              *)
(* =================================================================================== *)
Theorem fad_model_ref script pat ops : one_op pat -> raw_iter script = (ops, None) ->
  find_and_delete script pat = Ok (find_and_delete_ref script pat).
Proof.
  intros O R. destruct (raw_iter_sound _ _ _ R) as (W & C & rest & E & E1 & _).
  rewrite (E1 eq_refl), app_nil_r in E. unfold find_and_delete. rewrite R.
  destruct (fad_loop script pat ops [] 0 true) as [[r' last'] skip'] eqn:L. f_equal.
  pose proof (fad_loop_ops pat O ops [] [] [] true r' last' skip' W C) as P.
  cbn [app] in P. rewrite <- E in P. change (lenZ []) with 0 in P. rewrite (P L). cbn [app].
  unfold find_and_delete_ref. symmetry. rewrite E. apply (ref_fad_ops pat O ops _ W). lia.
Qed.

Theorem fad_model_err script pat ops e : raw_iter script = (ops, Some e) ->
  find_and_delete script pat = Err e.
Proof.
  intros R. unfold find_and_delete. rewrite R.
  destruct (fad_loop script pat ops [] 0 true) as [[r' last'] skip']. reflexivity.
Qed.

(* what both compute on a parsed script: the operations whose encoding is not the pattern *)
Corollary fad_ref_ops_bytes pat ops : one_op pat -> Forall sop_wf ops ->
  find_and_delete_ref (ops_bytes ops) pat = fad_ops pat ops.
Proof. intros O W. apply (ref_fad_ops pat O ops _ W). lia. Qed.

(* instances used by C03 / C06 *)
Corollary fad_model_ref_codesep script ops : raw_iter script = (ops, None) ->
  find_and_delete script [xab] = Ok (find_and_delete_ref script [xab]).
Proof. apply fad_model_ref, one_op_codesep. Qed.
Corollary fad_model_ref_push script x ops : lenZ x < 2^32 -> raw_iter script = (ops, None) ->
  (do p <- push_of x; find_and_delete script p) = Ok (find_and_delete_ref script (ref_push x)).
Proof. intros L R. rewrite (push_of_ref x L). cbn [bind]. eapply fad_model_ref; [now apply one_op_push|exact R]. Qed.
