(* Proofs/Base58.v – MODEL (bitcoin/base58.py as written) = SPEC (big-integer definition)
   for ALL inputs, and the consequences: mutual inverses, foreign characters, the
   Base58Check rule, the round trip of the text form.  H is an arbitrary hash function. *)
From BV Require Import Common.Base Gen.B58 Model.Base58 Spec.Base58
  Proofs.Base58Digits Proofs.Base58Spec.

(* the constant regenerated from /repo is the reference alphabet *)
Lemma digits_eq : B58_DIGITS = alphabet.
Proof. vm_compute. reflexivity. Qed.

(* ---------- Python sequence operations ---------- *)
Lemma py_getitem_nth {A} (l : list A) (d : A) i : 0 <= i < lenZ l ->
  py_getitem l i = Ok (nth (Z.to_nat i) l d).
Proof.
  intros H. unfold py_getitem. unfold lenZ in *.
  destruct (Z.ltb_spec i 0); [lia|].
  destruct (Z.leb_spec 0 i); [|lia]. destruct (Z.ltb_spec i (Z.of_nat (length l))); [|lia].
  cbn [andb]. rewrite (nth_error_nth' l d) by lia. reflexivity.
Qed.
Lemma str_find_index c l : str_find c l = index_of c l.
Proof. induction l as [|x t IH]; cbn [str_find index_of]; [reflexivity|]. rewrite IH. reflexivity. Qed.
Lemma py_in_index c l : py_in c l = match index_of c l with Some _ => true | None => false end.
Proof.
  unfold py_in. induction l as [|x t IH]; cbn [existsb index_of]; [reflexivity|].
  destruct (c =? x); [reflexivity|]. cbn [orb]. rewrite IH.
  destruct (index_of c t); reflexivity.
Qed.
Lemma lenZ_alphabet : lenZ alphabet = 58.
Proof. unfold lenZ. rewrite alphabet_length. reflexivity. Qed.
Lemma getitem_alphabet d : 0 <= d < 58 -> py_getitem alphabet d = Ok (chr58 d).
Proof. intros H. unfold chr58. apply py_getitem_nth. rewrite lenZ_alphabet. exact H. Qed.

Lemma clamp_pos n i : 0 <= i -> clamp n i = Z.min n i.
Proof.
  intros H. unfold clamp. destruct (Z.ltb_spec i 0); [lia|].
  destruct (Z.ltb_spec i 0); [lia|]. destruct (Z.ltb_spec n i); lia.
Qed.
Lemma clamp_neg n i : - n <= i < 0 -> clamp n i = i + n.
Proof.
  intros H. unfold clamp. destruct (Z.ltb_spec i 0); [|lia].
  destruct (Z.ltb_spec (i + n) 0); [lia|]. destruct (Z.ltb_spec n (i + n)); lia.
Qed.

Lemma slice_drop_last {A} (x : A) (t : list A) :
  py_slice (x :: t) None (Some (-1)) = removelast (x :: t).
Proof.
  unfold py_slice, lenZ. set (l := x :: t).
  assert (L : (1 <= length l)%nat) by (subst l; cbn [length]; lia).
  rewrite clamp_neg by lia.
  replace (Z.to_nat (-1 + Z.of_nat (length l) - 0)) with (pred (length l)) by lia.
  change (Z.to_nat 0) with O. cbn [skipn]. symmetry. apply removelast_firstn_len.
Qed.
Lemma slice_first4 (h : bytes) lo : lo = None \/ lo = Some 0 -> py_slice h lo (Some 4) = firstn 4 h.
Proof.
  intros Hlo. unfold py_slice, lenZ.
  assert (E : match lo with Some i => clamp (Z.of_nat (length h)) i | None => 0 end = 0).
  { destruct Hlo as [->| ->]; [reflexivity|]. rewrite clamp_pos; lia. }
  rewrite E, clamp_pos by lia. change (Z.to_nat 0) with O. cbn [skipn]. rewrite Z.sub_0_r.
  destruct (Z.le_ge_cases (Z.of_nat (length h)) 4).
  - rewrite Z.min_l, Nat2Z.id by lia. rewrite !firstn_all2 by lia. reflexivity.
  - rewrite Z.min_r by lia. reflexivity.
Qed.
(* the three slices of __new__ on a string of at least five bytes *)
Lemma slices_of_k (k : bytes) : (5 <= length k)%nat ->
  py_slice k (Some 0) (Some 1) ++ py_slice k (Some 1) (Some (-4)) = body k /\
  py_slice k (Some (-4)) None = tail4 k /\
  exists v, py_slice k (Some 0) (Some 1) = [v] /\ body k = v :: py_slice k (Some 1) (Some (-4)).
Proof.
  intros L. unfold py_slice, lenZ, body, tail4.
  set (m := length k) in *.
  rewrite !clamp_pos, !clamp_neg by lia.
  replace (Z.to_nat (Z.min (Z.of_nat m) 1 - Z.min (Z.of_nat m) 0)) with 1%nat by lia.
  replace (Z.to_nat (-4 + Z.of_nat m - Z.min (Z.of_nat m) 1)) with (m - 5)%nat by lia.
  replace (Z.to_nat (Z.of_nat m - (-4 + Z.of_nat m))) with 4%nat by lia.
  replace (Z.to_nat (-4 + Z.of_nat m)) with (m - 4)%nat by lia.
  replace (Z.to_nat (Z.min (Z.of_nat m) 0)) with O by lia.
  replace (Z.to_nat (Z.min (Z.of_nat m) 1)) with 1%nat by lia.
  split; [|split].
  - destruct k as [|v t]; [cbn [length] in *; lia|].
    cbn [skipn]. replace (m - 4)%nat with (S (m - 5)) by lia. reflexivity.
  - apply firstn_all2. rewrite skipn_length. fold m. lia.
  - destruct k as [|v t]; [cbn [length] in *; lia|]. exists v.
    cbn [skipn]. replace (m - 4)%nat with (S (m - 5)) by lia. split; reflexivity.
Qed.

(* ---------- hex detours ---------- *)
Lemma hexval_hexchar n : 0 <= n < 16 -> hexval (hexchar n) = Ok n.
Proof.
  intros H.
  assert (C : n = 0 \/ n = 1 \/ n = 2 \/ n = 3 \/ n = 4 \/ n = 5 \/ n = 6 \/ n = 7 \/ n = 8 \/
              n = 9 \/ n = 10 \/ n = 11 \/ n = 12 \/ n = 13 \/ n = 14 \/ n = 15) by lia.
  repeat (destruct C as [->|C]; [reflexivity|]). subst. reflexivity.
Qed.

Lemma int16_hexlify x : forall acc t,
  int16_loop (hexlify x ++ t) acc = int16_loop t (fold_left (fun a d => a * 256 + d) (map b2z x) acc).
Proof.
  induction x as [|c r IH]; intros acc t; [reflexivity|].
  cbn [hexlify flat_map app map fold_left int16_loop]. pose proof (b2z_range c) as R.
  rewrite !hexval_hexchar by lia. cbn [bind].
  change (flat_map (fun c0 => [hexchar (b2z c0 / 16); hexchar (b2z c0 mod 16)]) r) with (hexlify r).
  rewrite IH. f_equal. f_equal. lia.
Qed.
Lemma int_of_hexlify x : py_int16_0x0 (hexlify x) = Ok (be_value x).
Proof.
  unfold py_int16_0x0. cbn [int16_loop]. change (hexval 48) with (Ok (A:=Z) 0). cbn [bind].
  rewrite <- (app_nil_r (hexlify x)), int16_hexlify. reflexivity.
Qed.

Lemma hex_lsb_to_lsb fuel : forall n, hex_lsb fuel n = to_lsb 16 fuel n.
Proof. induction fuel as [|f IH]; intros n; cbn [hex_lsb to_lsb]; [reflexivity|]. rewrite IH. reflexivity. Qed.
Lemma fmt_x_digits n : fmt_x n = if n =? 0 then [48] else map hexchar (digits_msb 16 n).
Proof. unfold fmt_x, digits_msb, fuel_of. rewrite hex_lsb_to_lsb. reflexivity. Qed.

(* two hex digits make one base-256 digit *)
Fixpoint pairs (hs : list Z) : list Z :=
  match hs with a :: b :: t => 16 * a + b :: pairs t | _ => [] end.

Lemma unhex_pairs m : forall hs, length hs = (2 * m)%nat -> in_range 16 hs ->
  unhexlify (map hexchar hs) = Ok (map z2b (pairs hs)).
Proof.
  induction m as [|m IH]; intros hs L R.
  - destruct hs; [reflexivity|cbn [length] in L; lia].
  - destruct hs as [|a [|b t]]; cbn [length] in L; try lia.
    inversion R as [|? ? Ha R1]; subst. inversion R1 as [|? ? Hb R2]; subst.
    cbn [map unhexlify pairs]. rewrite !hexval_hexchar by assumption. cbn [bind].
    rewrite (IH t) by (assumption || lia). reflexivity.
Qed.
Lemma pairs_value m : forall hs acc, length hs = (2 * m)%nat ->
  fold_left (fun a d => a * 256 + d) (pairs hs) acc = fold_left (fun a d => a * 16 + d) hs acc.
Proof.
  induction m as [|m IH]; intros hs acc L.
  - destruct hs; [reflexivity|cbn [length] in L; lia].
  - destruct hs as [|a [|b t]]; cbn [length] in L; try lia.
    cbn [pairs fold_left]. rewrite (IH t) by lia. f_equal. lia.
Qed.
Lemma pairs_range m : forall hs, length hs = (2 * m)%nat -> in_range 16 hs -> in_range 256 (pairs hs).
Proof.
  induction m as [|m IH]; intros hs L R.
  - destruct hs; [constructor|cbn [length] in L; lia].
  - destruct hs as [|a [|b t]]; cbn [length] in L; try lia.
    inversion R as [|? ? Ha R1]; subst. inversion R1 as [|? ? Hb R2]; subst.
    cbn [pairs]. constructor; [lia|]. apply IH; [lia|assumption].
Qed.

(* '%x' % n, '0'-padded to even length, unhexlified = the minimal big-endian bytes of n *)
Lemma hex_repack n : 0 < n ->
  unhexlify (pad_even (fmt_x n)) = Ok (be_bytes n).
Proof.
  intros P. unfold pad_even. rewrite fmt_x_digits. destruct (Z.eqb_spec n 0); [lia|].
  destruct (digits_canon 16 ltac:(lia) n ltac:(lia)) as [R Hd].
  pose proof (value_digits 16 ltac:(lia) n ltac:(lia)) as V.
  remember (digits_msb 16 n) as hs eqn:Ehs. clear Ehs.
  assert (exists m hs', length hs' = (2 * m)%nat /\ in_range 16 hs' /\
            value_msb 16 hs' = n /\ match pairs hs' with [] => True | d :: _ => d <> 0 end /\
            (if negb (lenZ (map hexchar hs) mod 2 =? 0) then 48 :: map hexchar hs else map hexchar hs)
            = map hexchar hs') as (m & hs' & L & R' & V' & Hd' & E).
  { unfold lenZ. rewrite map_length.
    destruct hs as [|a t]; [unfold value_msb in V; cbn [fold_left] in V; lia|].
    pose proof (Forall_inv R) as Ha. pose proof (Forall_inv_tail R) as Rt. cbn beta in Ha.
    destruct (Nat.Even_or_Odd (length (a :: t))) as [[m Hm]|[m Hm]].
    - exists m, (a :: t). rewrite Hm.
      replace (Z.of_nat (2 * m) mod 2 =? 0) with true by (symmetry; apply Z.eqb_eq; lia).
      cbn [negb]. repeat split; try assumption.
      destruct t as [|b t']; [cbn [length] in Hm; lia|].
      pose proof (Forall_inv Rt) as Hb. cbn beta in Hb. cbn [pairs]. lia.
    - exists (S m), (0 :: a :: t). rewrite Hm.
      replace (Z.of_nat (2 * m + 1) mod 2 =? 0) with false by (symmetry; apply Z.eqb_neq; lia).
      cbn [negb]. repeat split.
      + cbn [length] in *. lia.
      + constructor; [lia|exact R].
      + rewrite <- V. exact (value_msb_zeros 16 1 (a :: t)).
      + cbn [pairs]. lia. }
  cbv beta zeta iota. etransitivity; [apply (f_equal unhexlify); exact E|].
  rewrite (unhex_pairs m) by assumption. f_equal. unfold be_bytes. f_equal.
  rewrite <- V'. unfold value_msb at 1. rewrite <- (pairs_value m) by exact L.
  fold (value_msb 256 (pairs hs')). symmetry. apply digits_value; [lia|].
  split; [apply (pairs_range m); assumption|exact Hd'].
Qed.
Lemma hex_repack_zero :
  unhexlify (pad_even (fmt_x 0)) = Ok [x00].
Proof. reflexivity. Qed.

(* ---------- encode ---------- *)
Lemma enc_loop_spec fuel : forall n acc, 0 <= n < 2 ^ Z.of_nat fuel ->
  enc_loop alphabet fuel n acc = Ok (acc ++ map chr58 (to_lsb 58 fuel n)).
Proof.
  induction fuel as [|f IH]; intros n acc H.
  - change (2 ^ Z.of_nat 0) with 1 in H. assert (n = 0) by lia. subst.
    cbn [enc_loop to_lsb map]. rewrite app_nil_r. reflexivity.
  - cbn [enc_loop to_lsb]. destruct (Z.gtb_spec n 0) as [G|G].
    + destruct (Z.leb_spec n 0); [lia|]. cbn zeta.
      rewrite getitem_alphabet by (apply Z.mod_pos_bound; lia). cbn [bind].
      rewrite IH.
      * cbn [map]. rewrite <- app_assoc. reflexivity.
      * rewrite Nat2Z.inj_succ, Z.pow_succ_r in H by lia.
        assert (0 < 2 ^ Z.of_nat f) by (apply Z.pow_pos_nonneg; lia). lia.
    + destruct (Z.leb_spec n 0); [|lia]. cbn [map]. rewrite app_nil_r. reflexivity.
Qed.
Lemma zero_prefix_count x : forall k, zero_prefix x k = (k + count_lead is_zero_byte x)%nat.
Proof.
  induction x as [|c t IH]; intros k; cbn [zero_prefix count_lead]; [lia|].
  unfold is_zero_byte at 1. destruct (b2z c =? 0); [rewrite IH|]; lia.
Qed.

Theorem encode_alphabet_spec x : encode_with alphabet x = Ok (spec_encode x).
Proof.
  unfold encode_with. rewrite int_of_hexlify. cbn [bind].
  pose proof (be_value_nonneg x) as P.
  rewrite enc_loop_spec by (split; [exact P|apply (fuel_ok (be_value x) P)]).
  cbn [bind app]. rewrite getitem_alphabet by lia. cbn [bind].
  rewrite zero_prefix_count, <- map_rev. reflexivity.
Qed.

(* ---------- decode ---------- *)
Lemma dec_loop_spec s : forall acc,
  dec_loop alphabet s acc =
  match map_opt ord58 s with
  | None => Err Base58Invalid
  | Some ds => Ok (fold_left (fun a d => a * 58 + d) ds acc)
  end.
Proof.
  induction s as [|c t IH]; intros acc; [reflexivity|].
  cbn [dec_loop map_opt]. cbn zeta. rewrite py_in_index. unfold py_index.
  change (str_find c alphabet) with (index_of c alphabet).
  change (ord58 c) with (option_map Z.of_nat (index_of c alphabet)). destruct (index_of c alphabet) as [i|]; cbn [negb option_map bind].
  - rewrite IH. destruct (map_opt ord58 t); reflexivity.
  - reflexivity.
Qed.

Definition is_one (c : Z) : bool := c =? chr58 0.
Lemma one_prefix_count l : forall k, one_prefix alphabet l k = Ok (k + count_lead is_one l)%nat.
Proof.
  induction l as [|c t IH]; intros k; cbn [one_prefix count_lead]; [f_equal; lia|].
  rewrite getitem_alphabet by lia. cbn [bind]. unfold is_one at 1.
  destruct (c =? chr58 0); [rewrite IH|]; f_equal; lia.
Qed.
Lemma chr58_inj d e : 0 <= d < 58 -> 0 <= e < 58 -> chr58 d = chr58 e -> d = e.
Proof.
  intros Hd He E. pose proof (ord_chr d Hd) as A. rewrite E, (ord_chr e He) in A. congruence.
Qed.
Lemma count_ones ds : in_range 58 ds -> count_lead is_one (map chr58 ds) = count_lead (Z.eqb 0) ds.
Proof.
  induction 1 as [|d t Hd F IH]; [reflexivity|]. cbn [map count_lead]. unfold is_one at 1.
  destruct (Z.eqb_spec (chr58 d) (chr58 0)) as [E|NE].
  - apply chr58_inj in E; [|exact Hd|lia]. subst. cbn [Z.eqb]. rewrite IH. reflexivity.
  - destruct (Z.eqb_spec 0 d) as [<-|_]; [congruence|reflexivity].
Qed.
Lemma removelast_map {A B} (f : A -> B) l : removelast (map f l) = map f (removelast l).
Proof.
  induction l as [|x t IH]; [reflexivity|]. destruct t as [|y t']; [reflexivity|].
  cbn [map removelast] in *. rewrite IH. reflexivity.
Qed.
Lemma removelast_repeat (z : Z) k : removelast (repeat z (S k)) = repeat z k.
Proof. induction k as [|k IH]; [reflexivity|]. cbn [repeat removelast] in *. rewrite IH. reflexivity. Qed.

(* the s[:-1] subtlety: skipping the last character loses one '1' exactly when the string
   consists of '1' only – and exactly then '%x' of 0 contributes one zero byte *)
Lemma count_lead_drop_last k r :
  match r with [] => True | d :: _ => d <> 0 end -> (r = [] -> (1 <= k)%nat) ->
  count_lead (Z.eqb 0) (removelast (repeat 0 k ++ r)) =
  match r with [] => (k - 1)%nat | _ => k end.
Proof.
  intros N K. destruct r as [|d t].
  - rewrite app_nil_r. destruct k as [|k]; [specialize (K eq_refl); lia|].
    rewrite removelast_repeat. replace (S k - 1)%nat with k by lia.
    rewrite <- (app_nil_r (repeat 0 k)). apply count_lead_repeat; [reflexivity|exact I].
  - rewrite removelast_app by discriminate.
    apply count_lead_repeat; [reflexivity|].
    destruct t as [|e t']; cbn [removelast]; [exact I|]. apply Z.eqb_neq. congruence.
Qed.

Theorem decode_alphabet_spec s : decode_with alphabet s = spec_decode s.
Proof.
  destruct s as [|c0 t0]; [reflexivity|].
  unfold decode_with, spec_decode. rewrite dec_loop_spec, slice_drop_last.
  set (s := c0 :: t0) in *.
  destruct (map_opt ord58 s) as [ds|] eqn:M; [|reflexivity]. cbn [bind].
  fold (value_msb 58 ds).
  destruct (map_chr_ord _ _ M) as [R Es].
  destruct (split_zero_digits ds) as (r & E & N).
  set (k := count_lead (Z.eqb 0) ds) in *.
  assert (Rr : in_range 58 r) by (rewrite E in R; apply Forall_app in R; apply R).
  assert (V : value_msb 58 ds = value_msb 58 r) by (rewrite E; apply value_msb_zeros).
  assert (K : r = [] -> (1 <= k)%nat).
  { intros ->. rewrite app_nil_r in E. destruct k; [|lia]. cbn [repeat] in E. subst ds.
    cbn [map] in Es. subst s. discriminate. }
  rewrite one_prefix_count, <- Es, removelast_map, count_ones.
  2:{ clear -R. induction R as [|d t Hd F IH]; [constructor|]. destruct t; [constructor|].
      cbn [removelast]. constructor; assumption. }
  replace (removelast ds) with (removelast (repeat 0 k ++ r)) by (rewrite <- E; reflexivity).
  rewrite (count_lead_drop_last k r N K). rewrite V.
  destruct r as [|d t].
  - change (value_msb 58 []) with 0. rewrite hex_repack_zero. cbn [bind].
    specialize (K eq_refl). replace k with (S (k - 1)) at 2 by lia.
    change (be_bytes 0) with (@nil byte). rewrite app_nil_r.
    change (repeat x00 (S (k - 1))) with (x00 :: repeat x00 (k - 1)).
    rewrite repeat_cons. reflexivity.
  - rewrite hex_repack by (apply value_msb_pos; [lia|split; assumption|discriminate]).
    cbn [bind]. reflexivity.
Qed.

(* ---------- entry points (the module global) ---------- *)
Theorem encode_spec x : encode x = Ok (spec_encode x).
Proof. unfold encode. rewrite digits_eq. apply encode_alphabet_spec. Qed.
Theorem decode_spec s : decode s = spec_decode s.
Proof. unfold decode. rewrite digits_eq. apply decode_alphabet_spec. Qed.

Theorem decode_encode x : exists s, encode x = Ok s /\ decode s = Ok x.
Proof.
  exists (spec_encode x). split; [apply encode_spec|]. rewrite decode_spec. apply spec_decode_encode.
Qed.
Theorem encode_decode s : Forall (fun c => In c B58_DIGITS) s ->
  exists y, decode s = Ok y /\ encode y = Ok s.
Proof.
  rewrite digits_eq. intros F. destruct (spec_decode_total s F) as [y Hy].
  exists y. rewrite decode_spec, encode_spec. split; [exact Hy|].
  f_equal. apply spec_encode_decode, Hy.
Qed.
Theorem decode_foreign s c : In c s -> ~ In c B58_DIGITS -> decode s = Err Base58Invalid.
Proof. rewrite digits_eq, decode_spec. apply spec_decode_foreign. Qed.
(* no other outcome exists: bytes, or the invalid-base58 error *)
Theorem decode_total s :
  (Forall (fun c => In c B58_DIGITS) s /\ exists y, decode s = Ok y) \/
  ((exists c, In c s /\ ~ In c B58_DIGITS) /\ decode s = Err Base58Invalid).
Proof.
  rewrite digits_eq, decode_spec.
  destruct (Forall_Exists_dec (fun c => In c alphabet) (fun c => in_dec Z.eq_dec c alphabet) s) as [F|E].
  - left. split; [exact F|apply spec_decode_total, F].
  - right. apply Exists_exists in E as (c & I & NI).
    split; [exists c; split; assumption|exact (spec_decode_foreign s c I NI)].
Qed.

(* ---------- Base58Check ---------- *)
Section Check.
Variable H : bytes -> bytes.

Theorem check_decode_spec s : check_decode H s = spec_check_decode H s.
Proof.
  unfold check_decode, check_decode_with. fold decode. rewrite decode_spec.
  unfold spec_check_decode. destruct (spec_decode s) as [k|e]; [|reflexivity]. cbn [bind].
  unfold check_okb, lenZ.
  destruct (Z.ltb_spec (Z.of_nat (length k)) 5) as [L|L].
  - destruct (Nat.leb_spec 5 (length k)); [lia|reflexivity].
  - destruct (Nat.leb_spec 5 (length k)) as [L'|]; [|lia]. cbn [andb].
    destruct (slices_of_k k L') as (E1 & E2 & v & E3 & E4).
    rewrite E1, E2, slice_first4 by (left; reflexivity).
    destruct (bytes_eqb (tail4 k) (firstn 4 (H (body k)))); [|reflexivity]. cbn [negb].
    rewrite E3, E4. change (py_getitem [v] 0) with (Ok v). cbn [bind].
    unfold from_bytes. pose proof (b2z_range v).
    destruct (Z.leb_spec 0 (b2z v)); [|lia]. destruct (Z.leb_spec (b2z v) 255); [|lia].
    reflexivity.
Qed.

(* accepted exactly when the decoded string has at least five bytes and its last four are
   the first four of H of the rest; the result is then (first byte, middle) *)
Theorem check_decode_iff s v p :
  check_decode H s = Ok (v, p) <->
  exists k, decode s = Ok k /\ check_ok H k /\ body k = z2b v :: p /\ 0 <= v < 256.
Proof.
  rewrite check_decode_spec. unfold spec_check_decode. rewrite decode_spec.
  destruct (spec_decode s) as [k|e].
  - destruct (check_okb H k) eqn:C.
    + apply check_okb_iff in C. destruct (body k) as [|v0 p0] eqn:B.
      * split; [discriminate|]. intros (k' & [= <-] & _ & B' & _). congruence.
      * split.
        -- intros [= <- <-]. exists k. rewrite B, z2b_b2z. pose proof (b2z_range v0). repeat split; try apply C; lia.
        -- intros (k' & [= <-] & _ & B' & Rv). rewrite B in B'. injection B' as -> ->.
           rewrite b2z_z2b, Z.mod_small by lia. reflexivity.
    + split; [discriminate|]. intros (k' & [= <-] & C' & _). apply check_okb_iff in C'. congruence.
  - split; [discriminate|]. intros (k' & D & _). discriminate.
Qed.
(* … and otherwise the checksum error is raised (or decode's own error) *)
Theorem check_decode_else s :
  (forall e, decode s = Err e -> check_decode H s = Err e) /\
  (forall k, decode s = Ok k -> ~ check_ok H k -> check_decode H s = Err Base58Checksum) /\
  (forall k, decode s = Ok k -> check_ok H k -> exists v p, check_decode H s = Ok (v, p)).
Proof.
  rewrite check_decode_spec. unfold spec_check_decode. rewrite decode_spec.
  repeat split.
  - intros e ->. reflexivity.
  - intros k -> N. destruct (check_okb H k) eqn:C; [|reflexivity].
    apply check_okb_iff in C. contradiction.
  - intros k -> C. pose proof C as [L _]. apply check_okb_iff in C. rewrite C.
    destruct (body k) as [|v p] eqn:B; [|eauto].
    exfalso. unfold body in B. apply (f_equal (@length byte)) in B.
    rewrite firstn_length_le in B by lia. cbn [length] in B. lia.
Qed.

(* text form of (version, payload) *)
Lemma body_tail_app (vs c : bytes) : length c = 4%nat -> body (vs ++ c) = vs /\ tail4 (vs ++ c) = c.
Proof.
  intros Lc. unfold body, tail4. rewrite app_length, Lc.
  replace (length vs + 4 - 4)%nat with (length vs + 0)%nat by lia. split.
  - rewrite firstn_app_2. cbn [firstn]. apply app_nil_r.
  - rewrite Nat.add_0_r, skipn_app, skipn_all, Nat.sub_diag. reflexivity.
Qed.

Theorem to_text_spec v p : 0 <= v < 256 -> to_text H v p = Ok (spec_to_text H v p).
Proof.
  intros R. unfold to_text, from_bytes.
  destruct (Z.leb_spec 0 v); [|lia]. destruct (Z.leb_spec v 255); [|lia]. cbn [andb negb bind].
  unfold to_str, to_str_with.
  destruct (Z.leb_spec 0 v); [|lia]. destruct (Z.leb_spec v 255); [|lia]. cbn [andb bind app].
  rewrite slice_first4 by (right; reflexivity). fold encode. rewrite encode_spec. reflexivity.
Qed.

Hypothesis H_len : forall x, (4 <= length (H x))%nat.

Theorem check_roundtrip v p : 0 <= v < 256 ->
  exists s, to_text H v p = Ok s /\ s = spec_to_text H v p /\ check_decode H s = Ok (v, p).
Proof.
  intros R. exists (spec_to_text H v p). split; [apply to_text_spec, R|]. split; [reflexivity|].
  rewrite check_decode_spec. unfold spec_check_decode, spec_to_text. cbn zeta.
  rewrite spec_decode_encode.
  set (vs := z2b v :: p). set (c := firstn 4 (H vs)).
  assert (Lc : length c = 4%nat) by (subst c; apply firstn_length_le, H_len).
  destruct (body_tail_app vs c Lc) as [B T].
  unfold check_okb. rewrite B, T. fold c. rewrite bytes_eqb_refl, andb_true_r.
  destruct (Nat.leb_spec 5 (length (vs ++ c))) as [_|L].
  - subst vs. cbv iota. rewrite b2z_z2b, Z.mod_small by lia. reflexivity.
  - rewrite app_length, Lc in L. subst vs. cbn [length] in L. lia.
Qed.
End Check.

(* ---------- F6 (DESIGN.md section 6): the tree before the fix ---------- *)
(* __new__ without the length test: on a 4-byte string k[0:1] and k[-4:] overlap *)
Definition check_decode_unfixed (H : bytes -> bytes) (s : text) : res (Z * bytes) :=
  do k <- decode s;
  let verbyte := py_slice k (Some 0) (Some 1) in
  let data := py_slice k (Some 1) (Some (-4)) in
  let check0 := py_slice k (Some (-4)) None in
  let check1 := py_slice (H (verbyte ++ data)) None (Some 4) in
  if negb (bytes_eqb check0 check1) then Err Base58Checksum else
  do v0 <- py_getitem verbyte 0;
  from_bytes data (b2z v0).
