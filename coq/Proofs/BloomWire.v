(* Proofs/BloomWire.v – C20 (3) constructor caps for every value of the two float
   expressions, (4) the wire form: serialisation = BIP37 layout, deserialise ∘ serialise =
   identity on the four fields. *)
From Coq Require Import QArith.
From BV Require Import Common.Base Gen.Core Gen.Bloom Model.Bloom Spec.Bloom
  Proofs.BloomBits Proofs.BloomMurmur Proofs.Bloom.
Open Scope Z_scope.

(* ====================================================================================
   (3) size caps
   ==================================================================================== *)
Lemma quot_cap num den c : 0 < den -> 0 <= c -> num <= c * den -> Z.quot num den <= c.
Proof.
  intros Hd Hc H. destruct (Z_lt_le_dec num 0) as [N|N].
  - replace num with (- (- num)) by lia. rewrite Z.quot_opp_l by lia.
    pose proof (Z.quot_pos (- num) den ltac:(lia) Hd). lia.
  - rewrite Z.quot_div_nonneg by lia. apply Z.div_le_upper_bound; lia.
Qed.
Lemma quot_nonneg num den : 0 < den -> 0 <= num -> 0 <= Z.quot num den.
Proof. intros. apply Z.quot_pos; lia. Qed.

Lemma int_min_cap x cap k : 0 <= cap -> py_int (py_min_cap x cap) = Ok k -> k <= cap.
Proof.
  intros Hc. destruct x as [q| | |]; cbn [py_min_cap py_int]; try discriminate.
  - destruct (Qle_bool q (inject_Z cap)) eqn:E; cbn [py_int]; intros [= <-].
    + unfold Qle_bool in E. cbn [inject_Z Qnum Qden] in E. apply Z.leb_le in E.
      apply quot_cap; lia.
    + cbn [inject_Z Qnum Qden]. rewrite Z.quot_1_r. lia.
  - intros [= <-]. cbn [inject_Z Qnum Qden]. rewrite Z.quot_1_r. lia.
Qed.
Lemma int_div8_min_cap x cap8 k : 0 <= cap8 ->
  py_int (fdiv8 (py_min_cap x (cap8 * 8))) = Ok k -> k <= cap8.
Proof.
  intros Hc. destruct x as [q| | |]; cbn [py_min_cap fdiv8 py_int]; try discriminate.
  - destruct (Qle_bool q (inject_Z (cap8 * 8))) eqn:E; cbn [fdiv8 py_int Qnum Qden]; intros [= <-].
    + unfold Qle_bool in E. cbn [inject_Z Qnum Qden] in E. apply Z.leb_le in E.
      apply quot_cap; [lia|lia|]. rewrite Pos2Z.inj_mul. lia.
    + cbn [inject_Z Qnum Qden]. change (Z.pos (1 * 8)) with 8. rewrite Z.quot_div_nonneg by lia.
      rewrite Z.div_mul by lia. lia.
  - cbn [inject_Z Qnum Qden]. intros [= <-]. change (Z.pos (1 * 8)) with 8.
    rewrite Z.quot_div_nonneg by lia. rewrite Z.div_mul by lia. lia.
Qed.

Lemma lenZ_zeros n : lenZ (zeros n) = Z.of_nat n.
Proof. unfold lenZ, zeros. now rewrite repeat_length. Qed.

Theorem ctor_caps (fsize : res fval) (fhash : Z -> res fval) tweak flags f :
  ctor fsize fhash tweak flags = Ok f ->
  0 <= lenZ (vData f) <= MAX_FILTER_BYTES /\ nHashFuncs f <= MAX_FUNCS /\
  vData f = zeros (length (vData f)) /\ nTweak f = tweak /\ nFlags f = flags.
Proof.
  unfold ctor. destruct fsize as [x|]; cbn [bind]; [|discriminate].
  destruct (py_int (fdiv8 (py_min_cap x (MAX_BLOOM_FILTER_SIZE * 8)))) as [n|] eqn:En; cbn [bind]; [|discriminate].
  apply int_div8_min_cap in En; [|unfold MAX_BLOOM_FILTER_SIZE; lia].
  destruct (Z.ltb_spec n 0) as [|Hn]; [discriminate|].
  destruct (fhash (lenZ (zeros (Z.to_nat n)))) as [y|]; cbn [bind]; [|discriminate].
  destruct (py_int (py_min_cap y MAX_HASH_FUNCS)) as [k|] eqn:Ek; cbn [bind]; [|discriminate].
  apply int_min_cap in Ek; [|unfold MAX_HASH_FUNCS; lia].
  intros [= <-]. cbn [vData nHashFuncs nTweak nFlags]. rewrite lenZ_zeros.
  unfold MAX_BLOOM_FILTER_SIZE in En. unfold MAX_HASH_FUNCS in Ek. unfold MAX_FILTER_BYTES, MAX_FUNCS.
  repeat split; try lia. unfold zeros. now rewrite repeat_length.
Qed.

(* construction succeeds whenever the float expressions are finite and the first one is
   not negative (true for nElements >= 1 and 0 < rate < 1: -1/LN2SQUARED < 0, log(rate) <= 0) *)
Theorem ctor_succeeds (q : Q) (fhash : Z -> res fval) tweak flags :
  0 <= Qnum q -> (forall n, exists y, fhash n = Ok (FFin y)) ->
  exists f, ctor (Ok (FFin q)) fhash tweak flags = Ok f.
Proof.
  intros Hq Hy. unfold ctor. cbn [bind].
  assert (E : exists n, py_int (fdiv8 (py_min_cap (FFin q) (MAX_BLOOM_FILTER_SIZE * 8))) = Ok n /\ 0 <= n).
  { cbn [py_min_cap]. destruct (Qle_bool q (inject_Z (MAX_BLOOM_FILTER_SIZE * 8))); cbn [fdiv8 py_int].
    - eexists. split; [reflexivity|]. apply quot_nonneg; [lia|exact Hq].
    - eexists. split; [reflexivity|]. vm_compute. discriminate. }
  destruct E as (n & -> & Hn). cbn [bind]. destruct (Z.ltb_spec n 0); [lia|].
  destruct (Hy (lenZ (zeros (Z.to_nat n)))) as (y & ->). cbn [bind py_min_cap].
  destruct (Qle_bool y (inject_Z MAX_HASH_FUNCS)); cbn [py_int bind]; eexists; reflexivity.
Qed.

(* ====================================================================================
   (4) wire form
   ==================================================================================== *)
Lemma firstn_length_app {A} (a b : list A) : firstn (length a) (a ++ b) = a.
Proof. induction a; cbn [length firstn app]; [reflexivity|]. now f_equal. Qed.

Lemma ser_read_app a rest n : lenZ a = n -> n <= MAX_SIZE -> ser_read (a ++ rest) n = Ok (a, rest).
Proof.
  intros <- Hn. unfold ser_read. destruct (Z.gtb_spec (lenZ a) MAX_SIZE); [lia|].
  rewrite to_nat_lenZ, firstn_length_app, skipn_length_app.
  destruct (Z.ltb_spec (lenZ a) (lenZ a)); [lia|]. reflexivity.
Qed.
Lemma ser_read_big s n : n > MAX_SIZE -> ser_read s n = Err SerErr.
Proof. intros H. unfold ser_read. destruct (Z.gtb_spec n MAX_SIZE); [reflexivity|lia]. Qed.

Lemma pack_u_ok w v b : pack_u w v = Ok b -> b = le_enc w v /\ 0 <= v < 256 ^ Z.of_nat w.
Proof.
  unfold pack_u. destruct (Z.leb_spec 0 v); destruct (Z.ltb_spec v (256 ^ Z.of_nat w)); cbn [andb];
    try discriminate. intros [= <-]. split; [reflexivity|lia].
Qed.
Lemma pack_u_in w v : 0 <= v < 256 ^ Z.of_nat w -> pack_u w v = Ok (le_enc w v).
Proof.
  intros H. unfold pack_u. destruct (Z.leb_spec 0 v); [|lia].
  destruct (Z.ltb_spec v (256 ^ Z.of_nat w)); [|lia]. reflexivity.
Qed.

Lemma lenZ_le_enc n v : lenZ (le_enc n v) = Z.of_nat n.
Proof. unfold lenZ. now rewrite le_enc_length. Qed.

(* CompactSize as written and read by the Python *)
Lemma varint_ser_spec i : 0 <= i < 2^64 -> varint_ser i = Ok (compact_size i).
Proof.
  intros H. unfold varint_ser, compact_size. destruct (Z.ltb_spec i 0); [lia|].
  change 253 with 0xfd. destruct (Z.ltb_spec i 0xfd); [reflexivity|].
  destruct (Z.leb_spec i 0xffff); destruct (Z.ltb_spec i (2^16)); try lia.
  - rewrite pack_u_in by (change (256 ^ Z.of_nat 2) with (2^16); lia). reflexivity.
  - destruct (Z.leb_spec i 0xffffffff); destruct (Z.ltb_spec i (2^32)); try lia.
    + rewrite pack_u_in by (change (256 ^ Z.of_nat 4) with (2^32); lia). reflexivity.
    + rewrite pack_u_in by (change (256 ^ Z.of_nat 8) with (2^64); lia). reflexivity.
Qed.
Lemma varint_ser_range i h : varint_ser i = Ok h -> 0 <= i < 2^64.
Proof.
  unfold varint_ser. destruct (Z.ltb_spec i 0); [discriminate|].
  destruct (Z.ltb_spec i 0xfd); [lia|]. destruct (Z.leb_spec i 0xffff); [lia|].
  destruct (Z.leb_spec i 0xffffffff); [lia|].
  destruct (pack_u 8 i) eqn:E; cbn [bind]; [|discriminate]. apply pack_u_ok in E as [_ E].
  change (256 ^ Z.of_nat 8) with (2^64) in E. lia.
Qed.

Lemma ser_read_1 b rest : ser_read (b :: rest) 1 = Ok ([b], rest).
Proof. reflexivity. Qed.

Lemma varint_rt i rest : 0 <= i < 2^64 -> varint_deser (compact_size i ++ rest) = Ok (i, rest).
Proof.
  intros H. unfold compact_size, varint_deser.
  destruct (Z.ltb_spec i 253).
  - cbn [app]. rewrite ser_read_1. cbn [bind]. change (ba_get [z2b i] 0) with (Ok (b2z (z2b i))).
    cbn [bind]. rewrite b2z_z2b_small by lia. destruct (Z.ltb_spec i 0xfd); [reflexivity|lia].
  - destruct (Z.ltb_spec i (2^16)); [|destruct (Z.ltb_spec i (2^32))]; cbn [app]; rewrite ser_read_1; cbn [bind].
    + change (ba_get [xfd] 0) with (Ok 253). cbn [bind]. change (253 <? 253) with false. change (253 =? 253) with true.
      cbv iota. rewrite ser_read_app by (try apply lenZ_le_enc; unfold MAX_SIZE; lia). cbn [bind].
      rewrite le_dec_enc by (change (256 ^ Z.of_nat 2) with (2^16); lia). reflexivity.
    + change (ba_get [xfe] 0) with (Ok 254). cbn [bind]. change (254 <? 253) with false. change (254 =? 253) with false.
      change (254 =? 254) with true. cbv iota.
      rewrite ser_read_app by (try apply lenZ_le_enc; unfold MAX_SIZE; lia). cbn [bind].
      rewrite le_dec_enc by (change (256 ^ Z.of_nat 4) with (2^32); lia). reflexivity.
    + change (ba_get [xff] 0) with (Ok 255). cbn [bind]. change (255 <? 253) with false. change (255 =? 253) with false.
      change (255 =? 254) with false. cbv iota.
      rewrite ser_read_app by (try apply lenZ_le_enc; unfold MAX_SIZE; lia). cbn [bind].
      rewrite le_dec_enc by (change (256 ^ Z.of_nat 8) with (2^64); lia). reflexivity.
Qed.

Lemma firstn_le_enc_app n v rest : firstn n (le_enc n v ++ rest) = le_enc n v.
Proof. pose proof (firstn_length_app (le_enc n v) rest) as H. now rewrite le_enc_length in H. Qed.
Lemma skipn_le_enc_app n v rest : skipn n (le_enc n v ++ rest) = rest.
Proof. pose proof (skipn_length_app (le_enc n v) rest) as H. now rewrite le_enc_length in H. Qed.

(* the three fixed-width fields *)
Lemma pack_fields_spec nh tw fl :
  wire_ranges nh tw fl = true ->
  pack_fields bloom_struct_widths [nh; tw; fl] = Ok (le_enc 4 nh ++ le_enc 4 tw ++ le_enc 1 fl).
Proof.
  unfold wire_ranges. rewrite !andb_true_iff, !Z.leb_le, !Z.ltb_lt. intros H.
  unfold bloom_struct_widths. cbn [pack_fields].
  rewrite !pack_u_in by (first [change (256 ^ Z.of_nat 4) with (2^32) | change (256 ^ Z.of_nat 1) with (2^8)]; lia).
  cbn [bind]. now rewrite app_nil_r.
Qed.
Lemma pack_fields_ranges nh tw fl t :
  pack_fields bloom_struct_widths [nh; tw; fl] = Ok t -> wire_ranges nh tw fl = true.
Proof.
  unfold bloom_struct_widths. cbn [pack_fields].
  destruct (pack_u 4 nh) eqn:E1; cbn [bind]; [|discriminate].
  destruct (pack_u 4 tw) eqn:E2; cbn [bind]; [|discriminate].
  destruct (pack_u 1 fl) eqn:E3; cbn [bind]; [|discriminate]. intros _.
  apply pack_u_ok in E1 as [_ E1]. apply pack_u_ok in E2 as [_ E2]. apply pack_u_ok in E3 as [_ E3].
  change (256 ^ Z.of_nat 4) with (2^32) in *. change (256 ^ Z.of_nat 1) with (2^8) in *.
  unfold wire_ranges. rewrite !andb_true_iff, !Z.leb_le, !Z.ltb_lt. lia.
Qed.
Lemma unpack_fields_spec nh tw fl :
  wire_ranges nh tw fl = true ->
  unpack_fields bloom_struct_widths (le_enc 4 nh ++ le_enc 4 tw ++ le_enc 1 fl) = [nh; tw; fl].
Proof.
  unfold wire_ranges. rewrite !andb_true_iff, !Z.leb_le, !Z.ltb_lt. intros H.
  unfold bloom_struct_widths. cbn [unpack_fields].
  rewrite !firstn_le_enc_app, !skipn_le_enc_app.
  rewrite <- (app_nil_r (le_enc 1 fl)). rewrite !firstn_le_enc_app.
  rewrite !le_dec_enc by (first [change (256 ^ Z.of_nat 4) with (2^32) | change (256 ^ Z.of_nat 1) with (2^8)]; lia).
  reflexivity.
Qed.

Definition wire_ok (f : filter) : Prop :=
  wire_ranges (nHashFuncs f) (nTweak f) (nFlags f) = true /\ lenZ (vData f) <= MAX_SIZE.

(* serialisation = the BIP37 layout *)
Theorem serialize_spec f : wire_ok f ->
  filter_serialize f = Ok (spec_wire (vData f) (nHashFuncs f) (nTweak f) (nFlags f)).
Proof.
  intros [R L]. unfold filter_serialize, bytes_ser, spec_wire.
  rewrite varint_ser_spec by (pose proof (lenZ_nonneg (vData f)); unfold MAX_SIZE in L; lia). cbn [bind].
  rewrite pack_fields_spec by exact R. cbn [bind]. now rewrite <- app_assoc.
Qed.

(* deserialise ∘ layout = identity on the four fields *)
Theorem deserialize_wire d nh tw fl : wire_ranges nh tw fl = true -> lenZ d <= MAX_SIZE ->
  filter_deserialize (spec_wire d nh tw fl) = Ok (mkFilter d nh tw fl).
Proof.
  intros R L. unfold filter_deserialize, filter_stream_deserialize, bytes_deser, spec_wire.
  rewrite varint_rt by (pose proof (lenZ_nonneg d); unfold MAX_SIZE in L; lia). cbn [bind].
  rewrite ser_read_app by (try reflexivity; exact L). cbn [bind].
  rewrite <- (app_nil_r (le_enc 4 nh ++ le_enc 4 tw ++ le_enc 1 fl)).
  rewrite ser_read_app.
  - cbn [bind]. rewrite unpack_fields_spec by exact R. reflexivity.
  - rewrite !lenZ_app, !lenZ_le_enc. reflexivity.
  - unfold bloom_struct_size, MAX_SIZE. lia.
Qed.

Theorem wire_round_trip f : wire_ok f ->
  exists w, filter_serialize f = Ok w /\ filter_deserialize w = Ok f /\
            w = spec_wire (vData f) (nHashFuncs f) (nTweak f) (nFlags f).
Proof.
  intros W. eexists. split; [apply serialize_spec; exact W|]. destruct W as [R L].
  split; [|reflexivity]. rewrite deserialize_wire by assumption. now destruct f.
Qed.

(* whatever the fields are: if both directions succeed, the filter is unchanged *)
Lemma round_trip_same f w f' : filter_serialize f = Ok w -> filter_deserialize w = Ok f' -> f' = f.
Proof.
  unfold filter_serialize, bytes_ser.
  destruct (varint_ser (lenZ (vData f))) as [h|] eqn:EV; cbn [bind]; [|discriminate].
  destruct (pack_fields bloom_struct_widths [nHashFuncs f; nTweak f; nFlags f]) as [t|] eqn:EP; cbn [bind]; [|discriminate].
  intros [= <-]. pose proof (varint_ser_range _ _ EV) as RV. pose proof (pack_fields_ranges _ _ _ _ EP) as R.
  rewrite varint_ser_spec in EV by exact RV.
  assert (Eh : h = compact_size (lenZ (vData f))) by congruence.
  rewrite pack_fields_spec in EP by exact R.
  assert (Et : t = le_enc 4 (nHashFuncs f) ++ le_enc 4 (nTweak f) ++ le_enc 1 (nFlags f)) by congruence.
  subst h t. clear EV EP.
  destruct (Z_le_gt_dec (lenZ (vData f)) MAX_SIZE) as [L|G].
  - pose proof (deserialize_wire (vData f) _ _ _ R L) as D. unfold spec_wire in D.
    rewrite <- app_assoc. rewrite D. intros [= <-]. now destruct f.
  - unfold filter_deserialize, filter_stream_deserialize, bytes_deser. rewrite <- app_assoc.
    rewrite varint_rt by exact RV. cbn [bind]. rewrite ser_read_big by exact G. discriminate.
Qed.
