(* Proofs/Rpc.v – C19 at the level of the Proxy wrappers (Model/Rpc.v [convert],
   [request_of], [step]); re-exports the component developments. *)
From BV Require Export Common.Base Gen.Rpc Model.Rpc Model.RpcWire Spec.Rpc
  Proofs.RpcHex Proofs.RpcNum Proofs.RpcErr Proofs.RpcSend.
From Coq Require Import QArith.
Require Coq.Strings.String.
Import String.StringSyntax.
Open Scope Z_scope.

(* ---------- amounts received through the wrappers ---------- *)
Theorem getbalance_exact o acc mc w s a :
  wf_spelling s = true -> denotes_sat s a -> 0 <= a <= MAX_MONEY ->
  convert o (MGetBalance acc mc w) (wire (SJNum s)) = Result (RAmount a).
Proof. intros H1 H2 H3. cbn [convert wire]. rewrite (recv_exact s a H1 H2 H3). reflexivity. Qed.
Theorem getreceivedbyaddress_exact o addr mc s a :
  wf_spelling s = true -> denotes_sat s a -> 0 <= a <= MAX_MONEY ->
  convert o (MGetReceivedByAddress addr mc) (wire (SJNum s)) = Result (RAmount a).
Proof. intros H1 H2 H3. cbn [convert wire]. rewrite (recv_exact s a H1 H2 H3). reflexivity. Qed.

(* gettxout, listunspent entries and fundrawtransaction convert their amount member with the
   same function; shown for a result object with distinct member names *)
Theorem gettxout_exact o h n mp fields s a script best hs hb :
  NoDup (map fst fields) ->
  member (T "value") fields = Some (SJNum s) ->
  member (T "scriptPubKey") fields = Some (SJObj [(T "hex", SJStr hs)]) ->
  member (T "bestblock") fields = Some (SJStr hb) ->
  wf_spelling s = true -> denotes_sat s a -> 0 <= a <= MAX_MONEY ->
  py_x hs = Ok script -> py_lx hb = Ok best ->
  convert o (MGetTxOut h n mp) (wire (SJObj fields)) = Result (RTxOut a script best).
Proof.
  intros Hnd Hv Hs Hb Hwf Hden Ha Hx Hl.
  change (wire (SJObj fields)) with (JObj (map wire_kv fields)). cbn [convert].
  assert (G : forall k v, member k fields = Some v -> subscript (JObj (map wire_kv fields)) k = Ok (wire v)).
  { intros k v Hk. cbn [subscript]. rewrite (obj_get_member k fields Hnd), Hk. reflexivity. }
  rewrite (G _ _ Hv). cbn [bind wire]. rewrite (recv_exact s a Hwf Hden Ha). cbn [bind].
  rewrite (G _ _ Hs). cbn [bind wire map]. unfold subscript at 1. cbn [obj_get].
  rewrite bytes_eqb_refl. cbn [bind x_json str_of]. rewrite Hx. cbn [bind].
  rewrite (G _ _ Hb). cbn [bind wire lx_json str_of]. rewrite Hl. reflexivity.
Qed.

(* ---------- hashes: Core's text form in both directions ---------- *)
(* every wrapper that sends a hash sends Bitcoin Core's text form of it *)
Theorem sent_hashes_core_form h n mp v t bh :
  request_of (MGetBlock h) = Some (T "getblock", [SStr (core_hash_text h); SBool false]) /\
  request_of (MGetBlockHeader h v) = Some (T "getblockheader", [SStr (core_hash_text h); SBool v]) /\
  request_of (MGetTxOut h n mp) = Some (T "gettxout", [SStr (core_hash_text h); SInt n; SBool mp]) /\
  request_of (MGetRawTransaction t v (Some bh)) =
    Some (T "getrawtransaction", [SStr (core_hash_text t); SInt (if v then 1 else 0); SStr (core_hash_text bh)]).
Proof. cbn [request_of app]. rewrite !b2lx_core. repeat split. Qed.

(* a hash text returned by one call (getblockhash, getbestblockhash, sendrawtransaction, ...)
   converts to bytes b whose Core text form is that text again (in lower case), so that
   passing b to getblock / getblockheader / getrawtransaction sends the text unchanged *)
Theorem hash_returned_then_passed o n h : is_hex_text h = true ->
  exists b, convert o (MGetBlockHash n) (JStr h) = Result (RHash b) /\
            convert o MGetBestBlockHash (JStr h) = Result (RHash b) /\
            core_hash_text b = lower h /\
            request_of (MGetBlock b) = Some (T "getblock", [SStr (lower h); SBool false]) /\
            request_of (MGetRawTransaction b false None) = Some (T "getrawtransaction", [SStr (lower h); SInt 0]).
Proof.
  intros H. destruct (b2lx_lx h H) as (b & Hb & Hl). exists b.
  cbn [convert lx_json str_of bind request_of app]. rewrite Hb, Hl. cbn [bind lift].
  rewrite <- b2lx_core, Hl. repeat split.
Qed.
(* and for every byte string b: reading back the text sent for b gives b *)
Theorem hash_sent_then_returned o n b :
  convert o (MGetBlockHash n) (JStr (core_hash_text b)) = Result (RHash b).
Proof. cbn [convert lx_json str_of bind]. rewrite <- b2lx_core, lx_b2lx. reflexivity. Qed.

(* ---------- serialised objects cross the hex layer bit-exactly ---------- *)
(* sending: the parameter is the plain hex of the serialisation *)
Theorem sent_objects_hex tx hf w :
  request_of (MSendRawTransaction tx hf) =
    Some (T "sendrawtransaction", [SStr (hex_ref tx)] ++ (if hf then [SBool true] else [])) /\
  request_of (MFundRawTransaction tx w) = Some (T "fundrawtransaction", [SStr (hex_ref tx); SBool w]).
Proof. cbn [request_of]. rewrite !b2x_ref. split; reflexivity. Qed.
(* receiving: exactly the bytes the peer serialised reach the deserialiser *)
Theorem received_objects_hex o h t bh b :
  convert o (MGetBlock h) (JStr (hex_ref b)) = lift (do s <- o_blk o b; Ok (RObject s)) /\
  convert o (MGetBlockHeader h false) (JStr (hex_ref b)) = lift (do s <- o_hdr o b; Ok (RObject s)) /\
  convert o (MGetRawTransaction t false bh) (JStr (hex_ref b)) = lift (do s <- o_tx o b; Ok (RObject s)).
Proof.
  cbn [convert x_json str_of bind]. rewrite <- !b2x_ref. rewrite !x_b2x. cbn [bind]. repeat split.
Qed.

(* ---------- amounts sent ---------- *)
(* sendtoaddress / sendmany send float(amount)/COIN in the amount positions *)
Theorem sent_amount_positions addr a from ps :
  request_of (MSendToAddress addr a) = Some (T "sendtoaddress", [SStr addr; SAmount a; SStr []; SStr []; SBool false]) /\
  request_of (MSendMany from ps) =
    Some (T "sendmany", [SStr from; SObj (map (fun p => (fst p, SAmount (snd p))) ps); SInt 1; SStr []; SArr []]).
Proof. split; reflexivity. Qed.

(* ---------- generated constants the statements rely on ---------- *)
Lemma coin_is_1e8 : RPC_COIN = SATOSHI_PER_COIN.
Proof. reflexivity. Qed.
Lemma catch_codes_registered :
  In RPC_CATCH_getblockhash RPC_SUBCLS_CODES /\ In RPC_CATCH_getblock RPC_SUBCLS_CODES /\
  In RPC_CATCH_getblockheader RPC_SUBCLS_CODES /\ In RPC_CATCH_getrawtransaction RPC_SUBCLS_CODES.
Proof. repeat split; vm_compute; tauto. Qed.
