(* Proofs/RpcSend.v – amounts sent as float(a)/COIN.
   1. rn53 (Model) returns a 53-bit significand within half a unit in the last place;
   2. for 1 <= a <= MAX_MONEY the exponent is at most -28, so the rounding interval is
      narrower than the 10^-8 grid and a/10^8 is the only grid point that rounds to it;
   3. hence the shortest decimal that rounds back (what repr prints) denotes exactly a/10^8;
   4. the same facts over Q, independent of any model of floats (the core lemma). *)
From BV Require Import Common.Base Gen.Rpc Model.Rpc Spec.Rpc Proofs.RpcNum.
From Coq Require Import QArith Qabs Qround.
Open Scope Z_scope.

(* m * 2^e is within half an ulp of n/d, m a normalised 53-bit significand *)
Definition near (n d m e : Z) : Prop :=
  2 ^ 52 <= m < 2 ^ 53 /\
  2 * Z.abs (m * (d * 2 ^ Z.max 0 e) - n * 2 ^ Z.max 0 (- e)) <= d * 2 ^ Z.max 0 e.

Lemma pow2_pos e : 0 <= e -> 0 < 2 ^ e.
Proof. intros. apply Z.pow_pos_nonneg; lia. Qed.

(* halving the scale doubles the ratio *)
Lemma scale2_pred n d e :
  let (n1, d1) := scale2 n d e in let (n2, d2) := scale2 n d (e - 1) in
  (n2 = n1 /\ d1 = 2 * d2) \/ (n2 = 2 * n1 /\ d2 = d1).
Proof.
  unfold scale2. destruct (Z_lt_le_dec 0 e) as [H|H].
  - left. replace (Z.max 0 (- e)) with 0 by lia. replace (Z.max 0 (- (e - 1))) with 0 by lia.
    replace (Z.max 0 e) with (Z.succ (e - 1)) by lia. replace (Z.max 0 (e - 1)) with (e - 1) by lia.
    rewrite Z.pow_succ_r by lia. split; [reflexivity|ring].
  - right. replace (Z.max 0 e) with 0 by lia. replace (Z.max 0 (e - 1)) with 0 by lia.
    replace (Z.max 0 (- (e - 1))) with (Z.succ (- e)) by lia. replace (Z.max 0 (- e)) with (- e) by lia.
    rewrite Z.pow_succ_r by lia. split; [ring|reflexivity].
Qed.

Lemma scale2_e0 n d : 0 < n -> 0 < d ->
  let (n1, d1) := scale2 n d (Z.log2 n - Z.log2 d - 52) in
  0 < d1 /\ 2 ^ 51 * d1 < n1 /\ n1 < 2 ^ 53 * d1.
Proof.
  intros Hn Hd. pose proof (Z.log2_spec n Hn) as [Ln Un]. pose proof (Z.log2_spec d Hd) as [Ld Ud].
  pose proof (Z.log2_nonneg n) as Pn. pose proof (Z.log2_nonneg d) as Pd.
  set (ln := Z.log2 n) in *. set (ld := Z.log2 d) in *. set (e0 := ln - ld - 52).
  rewrite Z.pow_succ_r in Un, Ud by lia.
  unfold scale2. destruct (Z_le_gt_dec 0 e0) as [H|H].
  - replace (Z.max 0 (- e0)) with 0 by lia. replace (Z.max 0 e0) with e0 by lia.
    change (2 ^ 0) with 1. rewrite Z.mul_1_r.
    pose proof (pow2_pos e0 H) as Pe.
    assert (E : 2 ^ ln = 2 ^ ld * 2 ^ 52 * 2 ^ e0).
    { rewrite <- !Z.pow_add_r by lia. f_equal. unfold e0. lia. }
    change (2 ^ 52) with 4503599627370496 in E. change (2 ^ 51) with 2251799813685248. change (2 ^ 53) with 9007199254740992.
    split; [nia|]. split; nia.
  - replace (Z.max 0 (- e0)) with (- e0) by lia. replace (Z.max 0 e0) with 0 by lia.
    change (2 ^ 0) with 1. rewrite Z.mul_1_r.
    assert (He : 0 <= - e0) by lia. pose proof (pow2_pos (- e0) He) as Pe.
    assert (E : 2 ^ ln * 2 ^ (- e0) = 2 ^ ld * 2 ^ 52).
    { rewrite <- !Z.pow_add_r by lia. f_equal. unfold e0. lia. }
    change (2 ^ 52) with 4503599627370496 in E. change (2 ^ 51) with 2251799813685248. change (2 ^ 53) with 9007199254740992.
    split; [lia|]. split; nia.
Qed.

(* rn53 unfolded: the exponent it selects and the rounding of the scaled quotient *)
Definition rne_quot (n' d' : Z) : Z :=
  let q := n' / d' in let r := n' mod d' in
  if (2 * r >? d') || ((2 * r =? d') && Z.odd q) then q + 1 else q.
Lemma rn53_detail n d : 0 < n -> 0 < d ->
  exists e n' d', scale2 n d e = (n', d') /\ 0 < d' /\ 2 ^ 52 * d' <= n' /\ n' < 2 ^ 53 * d' /\
    rn53 n d = (if rne_quot n' d' =? 2 ^ 53 then (2 ^ 52, e + 1) else (rne_quot n' d', e)).
Proof.
  intros Hn Hd. unfold rn53. set (e0 := Z.log2 n - Z.log2 d - 52).
  pose proof (scale2_e0 n d Hn Hd) as S0. fold e0 in S0.
  pose proof (scale2_pred n d e0) as SP.
  destruct (scale2 n d e0) as [n1 d1] eqn:E1.
  assert (Hsel : exists e n' d', (if n1 <? d1 * 2 ^ 52 then e0 - 1 else e0) = e /\ scale2 n d e = (n', d') /\
                                 0 < d' /\ 2 ^ 52 * d' <= n' /\ n' < 2 ^ 53 * d').
  { destruct S0 as (P1 & L1 & U1). change (2 ^ 52) with 4503599627370496 in *. change (2 ^ 51) with 2251799813685248 in *.
    change (2 ^ 53) with 9007199254740992 in *.
    destruct (n1 <? d1 * 4503599627370496) eqn:C.
    - apply Z.ltb_lt in C. destruct (scale2 n d (e0 - 1)) as [n2 d2] eqn:E2.
      exists (e0 - 1), n2, d2. split; [reflexivity|]. split; [exact E2|].
      destruct SP as [[-> ->] | [-> ->]]; lia.
    - apply Z.ltb_ge in C. exists e0, n1, d1. split; [reflexivity|]. split; [exact E1|]. lia. }
  destruct Hsel as (e & n' & d' & -> & Es & Pd & Lo & Hi).
  exists e, n', d'. rewrite Es. unfold rne_quot. repeat split; assumption.
Qed.

Lemma rn53_spec n d : 0 < n -> 0 < d -> let (m, e) := rn53 n d in near n d m e.
Proof.
  intros Hn Hd. destruct (rn53_detail n d Hn Hd) as (e & n' & d' & Es & Pd & Lo & Hi & ->).
  unfold rne_quot.
  assert (Hn' : n' = n * 2 ^ Z.max 0 (- e)) by (unfold scale2 in Es; congruence).
  assert (Hd' : d' = d * 2 ^ Z.max 0 e) by (unfold scale2 in Es; congruence).
  pose proof (Z.div_mod n' d' ltac:(lia)) as DM. pose proof (Z.mod_pos_bound n' d' Pd) as RB.
  set (q := n' / d') in *. set (r := n' mod d') in *.
  change (2 ^ 52) with 4503599627370496 in *. change (2 ^ 53) with 9007199254740992 in *.
  assert (Q1 : 4503599627370496 <= q) by (apply Z.div_le_lower_bound; lia).
  assert (Q2 : q < 9007199254740992) by (apply Z.div_lt_upper_bound; lia).
  set (up := (2 * r >? d') || ((2 * r =? d') && Z.odd q)).
  assert (Hup : if up then d' <= 2 * r else 2 * r <= d').
  { unfold up. destruct (2 * r >? d') eqn:G.
    - cbn [orb]. rewrite Z.gtb_ltb in G. apply Z.ltb_lt in G. lia.
    - rewrite Z.gtb_ltb in G. apply Z.ltb_ge in G. cbn [orb].
      destruct (2 * r =? d') eqn:G2; cbn [andb].
      + apply Z.eqb_eq in G2. destruct (Z.odd q); lia.
      + exact G. }
  destruct up.
  - destruct (q + 1 =? 9007199254740992) eqn:B.
    + (* carry into the next binade *)
      apply Z.eqb_eq in B. unfold near. split; [lia|].
      change (2 ^ 52) with 4503599627370496.
      destruct (Z_le_gt_dec 0 e) as [He|He].
      * replace (Z.max 0 (e + 1)) with (Z.succ e) by lia. replace (Z.max 0 (- (e + 1))) with 0 by lia.
        replace (Z.max 0 (- e)) with 0 in Hn' by lia. replace (Z.max 0 e) with e in Hd' by lia.
        rewrite Z.pow_succ_r by lia. pose proof (pow2_pos e He). nia.
      * replace (Z.max 0 (e + 1)) with 0 by lia. replace (Z.max 0 e) with 0 in Hd' by lia.
        replace (Z.max 0 (- e)) with (Z.succ (- (e + 1))) in Hn' by lia.
        replace (Z.max 0 (- (e + 1))) with (- (e + 1)) by lia.
        rewrite Z.pow_succ_r in Hn' by lia. change (2 ^ 0) with 1 in *.
        assert (0 < 2 ^ (- (e + 1))) by (apply pow2_pos; lia). nia.
    + apply Z.eqb_neq in B. unfold near. split; [lia|]. rewrite <- Hn', <- Hd'. nia.
  - replace (q =? 9007199254740992) with false by (symmetry; apply Z.eqb_neq; lia).
    unfold near. split; [lia|]. rewrite <- Hn', <- Hd'. nia.
Qed.

(* ---------- the money range: exponent at most -28 ---------- *)
Lemma near_money_exp a m e : 1 <= a <= MAX_MONEY -> near a 100000000 m e -> e <= - 28.
Proof.
  unfold MAX_MONEY, SATOSHI_PER_COIN, near. intros Ha [[M1 M2] H].
  change (2 ^ 52) with 4503599627370496 in *.
  destruct (Z_le_gt_dec e (- 28)) as [L|G]; [exact L|exfalso].
  destruct (Z_le_gt_dec 0 e) as [He|He].
  - replace (Z.max 0 e) with e in H by lia. replace (Z.max 0 (- e)) with 0 in H by lia.
    change (2 ^ 0) with 1 in H. pose proof (pow2_pos e He). nia.
  - replace (Z.max 0 e) with 0 in H by lia. replace (Z.max 0 (- e)) with (- e) in H by lia.
    change (2 ^ 0) with 1 in H.
    assert (2 ^ (- e) <= 2 ^ 27) by (apply Z.pow_le_mono_r; lia).
    change (2 ^ 27) with 134217728 in *. assert (0 < 2 ^ (- e)) by (apply pow2_pos; lia). nia.
Qed.

(* two decimals-on-the-grid / doubles: if c * 10^q (q >= -8) and a / 10^8 are both within
   half an ulp of m * 2^e with e <= -28, they are the same number *)
Lemma grid_point_unique a m e c q : e <= - 28 -> - 8 <= q ->
  near a 100000000 m e ->
  near (c * 10 ^ Z.max 0 q) (10 ^ Z.max 0 (- q)) m e ->
  c * 10 ^ (q + 8) = a.
Proof.
  intros He Hq [_ H1] [_ H2].
  replace (Z.max 0 e) with 0 in * by lia. replace (Z.max 0 (- e)) with (- e) in * by lia.
  change (2 ^ 0) with 1 in *. rewrite !Z.mul_1_r in *.
  assert (P : 2 ^ 28 <= 2 ^ (- e)) by (apply Z.pow_le_mono_r; lia).
  change (2 ^ 28) with 268435456 in P. set (p := 2 ^ (- e)) in *.
  destruct (Z_le_gt_dec 0 q) as [Q|Q].
  - replace (Z.max 0 q) with q in H2 by lia. replace (Z.max 0 (- q)) with 0 in H2 by lia.
    change (10 ^ 0) with 1 in H2. rewrite Z.pow_add_r by lia. change (10 ^ 8) with 100000000.
    pose proof (pow10_gt0 q Q). nia.
  - replace (Z.max 0 q) with 0 in H2 by lia. replace (Z.max 0 (- q)) with (- q) in H2 by lia.
    change (10 ^ 0) with 1 in H2. rewrite Z.mul_1_r in H2.
    assert (S : 10 ^ (- q) * 10 ^ (q + 8) = 100000000).
    { rewrite <- Z.pow_add_r by lia. replace (- q + (q + 8)) with 8 by lia. reflexivity. }
    pose proof (pow10_gt0 (- q)) as P1. pose proof (pow10_gt0 (q + 8)) as P2.
    set (D := 10 ^ (- q)) in *. set (G := 10 ^ (q + 8)) in *.
    (* scale the second bound by G *)
    assert (H2' : 2 * Z.abs (m * 100000000 - (c * G) * p) <= 100000000).
    { rewrite <- S. replace (m * (D * G) - c * G * p) with ((m * D - c * p) * G) by ring.
      rewrite Z.abs_mul. rewrite (Z.abs_eq G) by lia. nia. }
    nia.
Qed.

(* ---------- the shortest decimal that rounds back ---------- *)
Lemma rounds_to_near m e c q : rounds_to m e c q = true ->
  0 < c /\ near (c * 10 ^ Z.max 0 q) (10 ^ Z.max 0 (- q)) m e.
Proof.
  unfold rounds_to. intros H. apply andb_true_iff in H as [Hc H]. apply Z.ltb_lt in Hc. split; [exact Hc|].
  destruct (0 <=? q) eqn:Q.
  - apply Z.leb_le in Q. replace (Z.max 0 q) with q by lia. replace (Z.max 0 (- q)) with 0 by lia.
    change (10 ^ 0) with 1.
    pose proof (rn53_spec (c * 10 ^ q) 1) as R. destruct (rn53 (c * 10 ^ q) 1) as [m' e'].
    apply andb_true_iff in H as [A B]. apply Z.eqb_eq in A, B. subst. apply R; [|lia].
    pose proof (pow10_gt0 q Q). nia.
  - apply Z.leb_gt in Q. replace (Z.max 0 q) with 0 by lia. replace (Z.max 0 (- q)) with (- q) by lia.
    change (10 ^ 0) with 1. rewrite Z.mul_1_r.
    pose proof (rn53_spec c (10 ^ (- q))) as R. destruct (rn53 c (10 ^ (- q))) as [m' e'].
    apply andb_true_iff in H as [A B]. apply Z.eqb_eq in A, B. subst. apply R; [exact Hc|].
    apply pow10_gt0. lia.
Qed.

Definition lo_at (m e q : Z) : Z :=
  let (vn, vd) := if 0 <=? e then (m * 2 ^ e, 1) else (m, 2 ^ (- e)) in
  if 0 <=? q then vn / (vd * 10 ^ q) else (vn * 10 ^ (- q)) / vd.

Lemma pick_closer_cases m e q lo : pick_closer m e q lo = lo \/ pick_closer m e q lo = lo + 1.
Proof.
  unfold pick_closer. destruct (if 0 <=? e then _ else _) as [vn vd].
  destruct (if 0 <=? q then _ else _) as [l r].
  destruct (l <? r); [left; reflexivity|]. destruct (r <? l); [right; reflexivity|].
  destruct (Z.even lo); [left|right]; reflexivity.
Qed.

Lemma shortest_f_step f m e q :
  shortest_f (S f) m e q =
    let lo := lo_at m e q in
    if rounds_to m e lo q && rounds_to m e (lo + 1) q then (pick_closer m e q lo, q)
    else if rounds_to m e lo q then (lo, q)
    else if rounds_to m e (lo + 1) q then (lo + 1, q)
    else shortest_f f m e (q - 1).
Proof. cbn [shortest_f]. unfold lo_at. destruct (0 <=? e); reflexivity. Qed.

(* the search returns a decimal that rounds back, and stops at q >= -8 if some neighbour of
   the value at q = -8 rounds back *)
Lemma shortest_f_sound m e : forall f q, - 8 <= q -> q + 8 < Z.of_nat f ->
  rounds_to m e (lo_at m e (- 8)) (- 8) || rounds_to m e (lo_at m e (- 8) + 1) (- 8) = true ->
  let (c, q') := shortest_f f m e q in - 8 <= q' /\ rounds_to m e c q' = true.
Proof.
  induction f as [|f IH]; intros q Hq Hf H8; [lia|].
  rewrite shortest_f_step. cbv zeta.
  destruct (rounds_to m e (lo_at m e q) q) eqn:A; destruct (rounds_to m e (lo_at m e q + 1) q) eqn:B; cbn [orb andb].
  - split; [exact Hq|]. destruct (pick_closer_cases m e q (lo_at m e q)) as [-> | ->]; assumption.
  - split; assumption.
  - split; assumption.
  - destruct (Z.eq_dec q (- 8)) as [-> | Hne].
    + rewrite A, B in H8. discriminate H8.
    + apply IH; [lia|lia|exact H8].
Qed.

(* ---------- the amount sent ---------- *)
Lemma dec_q_grid c q a : - 8 <= q -> c * 10 ^ (q + 8) = a -> (dec_q c q == btc_of_sat a)%Q.
Proof.
  intros Hq <-. unfold dec_q, btc_of_sat, SATOSHI_PER_COIN.
  replace q with ((q + 8) + - (8)) at 1 by lia. rewrite pow10q_plus.
  rewrite pow10q_nonneg by lia. rewrite (pow10q_neg 8) by lia. change (10 ^ 8) with 100000000.
  rewrite inject_Z_mult. field; apply inject_Z_nonzero; lia.
Qed.

Theorem sent_amount_exact a : 0 <= a <= MAX_MONEY ->
  exists c q, sent_amount a = Ok (c, q) /\ (dec_q c q == btc_of_sat a)%Q.
Proof.
  intros Ha. destruct (Z.eq_dec a 0) as [-> | Hnz].
  - exists 0, 0. split; [reflexivity|]. vm_compute. reflexivity.
  - assert (Ha1 : 1 <= a <= MAX_MONEY) by lia.
    unfold sent_amount, float_div_coin. replace (a =? 0) with false by (symmetry; apply Z.eqb_neq; exact Hnz).
    rewrite Z.abs_eq by lia. unfold float_of_int_mag.
    replace (a <? 2 ^ 53) with true
      by (symmetry; apply Z.ltb_lt; unfold MAX_MONEY, SATOSHI_PER_COIN in Ha; change (2 ^ 53) with 9007199254740992; lia).
    cbn [bind]. unfold RPC_COIN.
    pose proof (rn53_spec a 100000000 ltac:(lia) ltac:(lia)) as N.
    destruct (rn53 a 100000000) as [m e] eqn:R. cbn [bind f_m f_e f_neg].
    pose proof (near_money_exp a m e Ha1 N) as He.
    destruct N as [[M1 M2] N']. pose proof (conj (conj M1 M2) N') as N.
    replace (m =? 0) with false by (symmetry; apply Z.eqb_neq; change (2 ^ 52) with 4503599627370496 in M1; lia).
    replace (a <? 0) with false by (symmetry; apply Z.ltb_ge; lia).
    (* a itself is a neighbour of the value at q = -8 and rounds back *)
    assert (Hra : rounds_to m e a (- 8) = true).
    { unfold rounds_to. replace (0 <? a) with true by (symmetry; apply Z.ltb_lt; lia).
      change (0 <=? - 8) with false. cbv iota. change (10 ^ (- - 8)) with 100000000. rewrite R.
      rewrite !Z.eqb_refl. reflexivity. }
    assert (Hlo : a = lo_at m e (- 8) \/ a = lo_at m e (- 8) + 1).
    { unfold lo_at. replace (0 <=? e) with false by (symmetry; apply Z.leb_gt; lia).
      change (0 <=? - 8) with false. cbv iota. change (10 ^ (- - 8)) with 100000000.
      replace (Z.max 0 e) with 0 in N' by lia. replace (Z.max 0 (- e)) with (- e) in N' by lia.
      change (2 ^ 0) with 1 in N'. rewrite Z.mul_1_r in N'.
      assert (P : 2 ^ 28 <= 2 ^ (- e)) by (apply Z.pow_le_mono_r; lia).
      change (2 ^ 28) with 268435456 in P. set (p := 2 ^ (- e)) in *.
      assert (L : a - 1 <= m * 100000000 / p) by (apply Z.div_le_lower_bound; nia).
      assert (U : m * 100000000 / p < a + 1) by (apply Z.div_lt_upper_bound; nia).
      lia. }
    assert (H8 : rounds_to m e (lo_at m e (- 8)) (- 8) || rounds_to m e (lo_at m e (- 8) + 1) (- 8) = true).
    { destruct Hlo as [<- | E]; [rewrite Hra; reflexivity|].
      rewrite <- E. rewrite Hra. apply orb_true_r. }
    unfold shortest_dec. replace (0 <=? e) with false by (symmetry; apply Z.leb_gt; lia).
    set (q0 := ndigits (m / 2 ^ (- e)) + 1).
    assert (Hq0 : 1 <= q0).
    { unfold q0, ndigits. destruct (m / 2 ^ (- e) <=? 0); [lia|].
      generalize (S (Z.to_nat (Z.log2 (m / 2 ^ (- e))))). intros fu. destruct fu; cbn [ndigits_f]; [lia|].
      destruct (m / 2 ^ (- e) <? 10); [lia|].
      assert (forall f c, 0 <= ndigits_f f c) by (induction f as [|f IHf]; intros c; cbn [ndigits_f]; [lia|destruct (c <? 10); [lia|specialize (IHf (c / 10)); lia]]).
      specialize (H fu (m / 2 ^ (- e) / 10)). lia. }
    pose proof (shortest_f_sound m e (Z.to_nat (q0 - Z.min e 0 + 1)) q0 ltac:(lia) ltac:(lia) H8) as S.
    destruct (shortest_f (Z.to_nat (q0 - Z.min e 0 + 1)) m e q0) as [c q].
    destruct S as [Hq Hr]. exists c, q. split; [reflexivity|].
    apply rounds_to_near in Hr as [_ Nc].
    apply dec_q_grid; [exact Hq|]. apply (grid_point_unique a m e c q He Hq N Nc).
Qed.

(* ====================================================================================
   The core lemma over Q, free of any model of floats: two roundings of half an ulp, with
   ulp <= 2^-28, cannot leave the 10^-8 cell of a/10^8.
   ==================================================================================== *)
From Coq Require Import Lqa.

Definition round8 (s : Q) : Z := Qfloor (s * inject_Z SATOSHI_PER_COIN + (1 # 2))%Q.

Lemma Qfloor_unique y a : (inject_Z a <= y)%Q -> (y < inject_Z (a + 1))%Q -> Qfloor y = a.
Proof.
  intros L U. pose proof (Qfloor_le y) as FL. pose proof (Qlt_floor y) as FU.
  assert (A : (inject_Z (Qfloor y) < inject_Z (a + 1))%Q) by lra.
  assert (B : (inject_Z a < inject_Z (Qfloor y + 1))%Q) by lra.
  rewrite <- Zlt_Qlt in A, B. lia.
Qed.

Theorem grid8_unique_Q (x s : Q) (a : Z) :
  (Qabs (x - btc_of_sat a) <= 1 # 2 ^ 29)%Q ->       (* x within half an ulp of a/10^8, ulp <= 2^-28 *)
  (Qabs (s - x) <= 1 # 2 ^ 29)%Q ->                  (* s within half an ulp of x *)
  (on_grid8 s -> (s == btc_of_sat a)%Q) /\ round8 s = a.
Proof.
  intros H1 H2. apply Qabs_Qle_condition in H1, H2.
  unfold btc_of_sat, SATOSHI_PER_COIN in *.
  assert (E : (btc_of_sat a == inject_Z a * (1 # 100000000))%Q).
  { unfold btc_of_sat, SATOSHI_PER_COIN. unfold Qdiv. reflexivity. }
  change (2 ^ 29)%positive with 536870912%positive in *.
  set (A := inject_Z a) in *.
  assert (H1' : (- (1 # 536870912) <= x - A * (1 # 100000000) <= 1 # 536870912)%Q).
  { unfold Qdiv in H1. change (/ inject_Z 100000000)%Q with (1 # 100000000)%Q in H1. exact H1. }
  clear H1. split.
  - intros [j Hj]. unfold btc_of_sat, SATOSHI_PER_COIN, Qdiv in Hj.
    change (/ inject_Z 100000000)%Q with (1 # 100000000)%Q in Hj.
    assert (J1 : (inject_Z j < inject_Z (a + 1))%Q) by (rewrite inject_Z_plus; fold A; change (inject_Z 1) with 1%Q; lra).
    assert (J2 : (inject_Z a < inject_Z (j + 1))%Q) by (rewrite inject_Z_plus; fold A; change (inject_Z 1) with 1%Q; lra).
    rewrite <- Zlt_Qlt in J1, J2. assert (j = a) by lia. subst j.
    rewrite Hj. unfold Qdiv. reflexivity.
  - unfold round8, SATOSHI_PER_COIN. apply Qfloor_unique.
    + fold A. change (inject_Z 100000000) with (100000000 # 1)%Q. lra.
    + rewrite inject_Z_plus. fold A. change (inject_Z 1) with 1%Q. change (inject_Z 100000000) with (100000000 # 1)%Q. lra.
Qed.
