(* Proofs/Bech32Distance.v – C11: the one expensive computation, in its own file so that it
   is built once.  The syndromes of ALL error words of weight <= 2 on 89 positions
   (1 + 89*31 + C(89,2)*31^2 = 3,766,036 values, generated tail-recursively on primitive
   63-bit integers) are pairwise distinct; checked by the radix-partition checker under
   vm_compute (measured: 10-15 s, 0.9 GB, default stack).  With Proofs/Bech32Radix.v this gives the minimum-distance
   statement for the Z MODEL: no error word of weight 1..4 and length <= 89 over 5-bit
   symbols is a codeword.  Depends on /repo only through the five generator words and the
   shift/mask literals of Gen/Bech32.v. *)
From BV Require Import Common.Base Model.Bech32 Spec.Bech32 Proofs.Bech32Radix.

Lemma distance_check_89 : distance_check 89 = true.
Proof. vm_cast_no_check (eq_refl true). Qed.

(* the reflection theorem itself: 3,766,036 pairwise distinct syndromes *)
Theorem syndromes_nodup_89 : NoDup (map syn63 (words2 89)).
Proof. exact (syndromes_nodup 89 distance_check_89). Qed.

Theorem bch_distance : forall e : list Z,
  (length e <= 89)%nat -> Forall is5 e -> (1 <= weight e <= 4)%nat -> polymod_from 0 e <> 0.
Proof. exact (distance_from_check 89 distance_check_89). Qed.
