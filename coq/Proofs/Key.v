(* Proofs/Key.v – stub, being written *)
From BV Require Import Common.Base Spec.Ecdsa Spec.Der Model.Key Proofs.Ecdsa Proofs.Der.
