(* Proofs/Key.v – the Python-side logic of Model/Key.v against the reference definitions:
   CompareBigEndian is numeric comparison of big-endian numerals; IsLowDERSignature's
   offset arithmetic finds S in every canonical DER signature; CECKey.sign returns the
   canonical low-S signature, which verifies; WIF round trip; DERSignature / padding /
   recovery-id search of sign_compact; recover = SEC1 4.1.6. *)
From BV Require Import Common.Base Common.Codec Gen.Core Gen.Key Model.Base58 Spec.Base58 Spec.Ecdsa Spec.Der
  Model.Key Proofs.Base58Digits Proofs.Base58Spec Proofs.Base58 Proofs.Ecdsa Proofs.Der.
From Coq Require Import Znumtheory.

(* ---------- big-endian numerals over Z digits ---------- *)
Notation V := (value_msb 256).
Notation digits := (Forall (fun d : Z => 0 <= d < 256)).
Lemma V_cons x t : V (x :: t) = x * 256 ^ lenZ t + V t.
Proof. unfold value_msb. cbn [fold_left]. rewrite fold_shift. ring. Qed.
Lemma V_bounds l : digits l -> 0 <= V l < 256 ^ lenZ l.
Proof.
  induction 1 as [|x t Hx Ht IH]; [cbv; split; [discriminate|reflexivity]|].
  rewrite V_cons. unfold lenZ in *. cbn [length]. rewrite Nat2Z.inj_succ, Z.pow_succ_r by lia.
  assert (0 < 256 ^ Z.of_nat (length t)) by (apply Z.pow_pos_nonneg; lia). nia.
Qed.
Lemma V_bytes (b : bytes) : V (map b2z b) = be_value b.
Proof. reflexivity. Qed.
Lemma digits_bytes (b : bytes) : digits (map b2z b).
Proof. apply bytes_in_range. Qed.

(* ---------- CompareBigEndian ---------- *)
Lemma pop_some k : forall c c', digits c -> (k <= length c)%nat -> pop_while_longer k c = Some c' ->
  V c' = V c /\ length c' = (length c - k)%nat /\ digits c'.
Proof.
  induction k as [|k IH]; intros c c' D L E; cbn [pop_while_longer] in E.
  - injection E as <-. repeat split; [lia|exact D].
  - destruct c as [|x t]; [cbn [length] in L; lia|].
    inversion D as [|? ? Hx Dt]; subst. destruct (Z.gtb_spec x 0); [discriminate|].
    assert (x = 0) as -> by lia. cbn [length] in L.
    destruct (IH t c' Dt ltac:(lia) E) as (E1 & E2 & E3).
    rewrite V_cons. cbn [length]. repeat split; [lia|lia|exact E3].
Qed.
Lemma pop_none k : forall c, digits c -> (k <= length c)%nat -> pop_while_longer k c = None ->
  256 ^ Z.of_nat (length c - k) <= V c.
Proof.
  induction k as [|k IH]; intros c D L E; cbn [pop_while_longer] in E; [discriminate|].
  destruct c as [|x t]; [discriminate|]. inversion D as [|? ? Hx Dt]; subst. cbn [length] in *.
  rewrite V_cons. pose proof (V_bounds t Dt) as B. unfold lenZ in *.
  destruct (Z.gtb_spec x 0).
  - assert (256 ^ Z.of_nat (length t - k) <= 256 ^ Z.of_nat (length t)) by (apply Z.pow_le_mono_r; lia).
    replace (S (length t) - S k)%nat with (length t - k)%nat by lia. nia.
  - assert (x = 0) as -> by lia. replace (S (length t) - S k)%nat with (length t - k)%nat by lia.
    specialize (IH t Dt ltac:(lia) E). lia.
Qed.
Lemma diff_loop_sign : forall c1 c2, digits c1 -> digits c2 -> length c1 = length c2 ->
  (diff_loop c1 c2 > 0 <-> V c1 > V c2) /\ (diff_loop c1 c2 < 0 <-> V c1 < V c2).
Proof.
  induction c1 as [|x t1 IH]; intros [|y t2] D1 D2 L; try discriminate; cbn [diff_loop].
  - cbv. split; split; intros; discriminate.
  - inversion D1 as [|? ? Hx Dt1]; inversion D2 as [|? ? Hy Dt2]; subst.
    cbn [length] in L. injection L as L. rewrite !V_cons. unfold lenZ. rewrite L.
    pose proof (V_bounds t1 Dt1) as B1. pose proof (V_bounds t2 Dt2) as B2. unfold lenZ in *. rewrite L in B1.
    set (M := 256 ^ Z.of_nat (length t2)) in *.
    destruct (Z.eqb_spec (x - y) 0) as [E0|NE]; cbn [negb].
    + assert (x = y) as -> by lia. destruct (IH t2 Dt1 Dt2 L) as [I1 I2]. clearbody M.
      split; [rewrite I1|rewrite I2]; split; intros; lia.
    + clearbody M. split; split; intros; nia.
Qed.
(* the sign of CompareBigEndian is the order of the numerals *)
Theorem compare_big_endian_spec c1 c2 : digits c1 -> digits c2 ->
  (compare_big_endian c1 c2 > 0 <-> V c1 > V c2) /\ (compare_big_endian c1 c2 < 0 <-> V c1 < V c2).
Proof.
  intros D1 D2. unfold compare_big_endian.
  pose proof (V_bounds c1 D1) as B1. pose proof (V_bounds c2 D2) as B2. unfold lenZ in *.
  destruct (pop_while_longer (length c1 - length c2) c1) as [c1'|] eqn:P1.
  - destruct (pop_some (length c1 - length c2) c1 c1' D1 ltac:(lia) P1) as (E1 & L1 & D1').
    destruct (pop_while_longer (length c2 - length c1') c2) as [c2'|] eqn:P2.
    + destruct (pop_some (length c2 - length c1') c2 c2' D2 ltac:(lia) P2) as (E2 & L2 & D2').
      rewrite <- E1, <- E2. apply diff_loop_sign; [assumption|assumption|lia].
    + pose proof (pop_none (length c2 - length c1') c2 D2 ltac:(lia) P2) as Lo.
      pose proof (V_bounds c1' D1') as B1'. unfold lenZ in B1'.
      assert (256 ^ Z.of_nat (length c1') <= 256 ^ Z.of_nat (length c2 - (length c2 - length c1')))
        by (apply Z.pow_le_mono_r; lia).
      split; split; intros; lia.
  - pose proof (pop_none (length c1 - length c2) c1 D1 ltac:(lia) P1) as Lo.
    assert (K : (length c1 - length c2 <> 0)%nat).
    { intros K0. rewrite K0 in P1. discriminate. }
    assert (256 ^ Z.of_nat (length c2) <= 256 ^ Z.of_nat (length c1 - (length c1 - length c2)))
      by (apply Z.pow_le_mono_r; lia).
    split; split; intros; lia.
Qed.

(* ---------- Python indexing into a concatenation ---------- *)
Lemma py_getitem_mid {A} (pre : list A) x post i : i = lenZ pre -> py_getitem (pre ++ x :: post) i = Ok x.
Proof.
  intros ->. unfold lenZ. rewrite (py_getitem_nth _ x).
  - rewrite Nat2Z.id. rewrite nth_middle. reflexivity.
  - unfold lenZ. rewrite app_length. cbn [length]. lia.
Qed.
Lemma py_slice_mid {A} (pre mid post : list A) a b : a = lenZ pre -> b = lenZ pre + lenZ mid ->
  py_slice (pre ++ mid ++ post) (Some a) (Some b) = mid.
Proof.
  intros -> ->. unfold py_slice, lenZ. rewrite !app_length.
  rewrite !clamp_pos by lia. rewrite !Z.min_r by lia.
  replace (Z.to_nat (Z.of_nat (length pre) + Z.of_nat (length mid) - Z.of_nat (length pre))) with (length mid) by lia.
  rewrite Nat2Z.id. rewrite skipn_app, skipn_all, Nat.sub_diag. cbn [skipn app].
  rewrite firstn_app, firstn_all, Nat.sub_diag. cbn [firstn]. apply app_nil_r.
Qed.

(* ---------- IsLowDERSignature on canonical DER ---------- *)
Lemma offsets_eq : lowder_off_len_r = 3 /\ lowder_off_len_s = 5 /\ lowder_off_s = 6.
Proof. repeat split; reflexivity. Qed.

Theorem is_low_der_enc table r s : digits table -> small r -> small s ->
  is_low_der_with table (enc_der r s) = Ok ((0 <? s) && (s <=? V table)).
Proof.
  intros DT Hr Hs. destruct offsets_eq as (O1 & O2 & O3).
  unfold is_low_der_with. rewrite O1, O2, O3. unfold enc_der, der_int.
  set (cr := der_int_content r). set (cs := der_int_content s).
  pose proof (small_content r Hr) as Lr. pose proof (small_content s Hs) as Ls. fold cr in Lr. fold cs in Ls.
  set (L := z2b (lenZ ((x02 :: z2b (lenZ cr) :: cr) ++ x02 :: z2b (lenZ cs) :: cs))).
  (* sig[3] *)
  change (x30 :: L :: (x02 :: z2b (lenZ cr) :: cr) ++ x02 :: z2b (lenZ cs) :: cs)
    with ([x30; L; x02] ++ z2b (lenZ cr) :: (cr ++ x02 :: z2b (lenZ cs) :: cs)).
  rewrite py_getitem_mid by reflexivity. cbn [bind].
  rewrite z2b_small by (unfold lenZ; lia).
  (* sig[5 + length_r] *)
  replace ([x30; L; x02] ++ z2b (lenZ cr) :: cr ++ x02 :: z2b (lenZ cs) :: cs)
    with (([x30; L; x02; z2b (lenZ cr)] ++ cr ++ [x02]) ++ z2b (lenZ cs) :: cs)
    by (cbn [app]; rewrite <- !app_assoc; reflexivity).
  rewrite py_getitem_mid by (unfold lenZ; rewrite !app_length; cbn [length]; lia). cbn [bind].
  rewrite z2b_small by (unfold lenZ; lia).
  (* the slice *)
  replace (([x30; L; x02; z2b (lenZ cr)] ++ cr ++ [x02]) ++ z2b (lenZ cs) :: cs)
    with (([x30; L; x02; z2b (lenZ cr)] ++ cr ++ [x02; z2b (lenZ cs)]) ++ cs ++ [])
    by (rewrite app_nil_r; cbn [app]; rewrite <- !app_assoc; reflexivity).
  rewrite py_slice_mid by (unfold lenZ; rewrite !app_length; cbn [length]; lia).
  rewrite Z.eqb_refl. cbn [negb].
  destruct (content_spec s ltac:(unfold small in Hs; lia)) as [_ Vs]. fold cs in Vs.
  pose proof (compare_big_endian_spec (map b2z cs) [0] (digits_bytes cs) ltac:(repeat constructor; lia)) as [C1 _].
  pose proof (compare_big_endian_spec (map b2z cs) table (digits_bytes cs) DT) as [C2 _].
  rewrite V_bytes, Vs in C1, C2. change (V [0]) with 0 in C1.
  f_equal. f_equal.
  - destruct (Z.gtb_spec (compare_big_endian (map b2z cs) [0]) 0); destruct (Z.ltb_spec 0 s); try reflexivity; lia.
  - destruct (Z.leb_spec (compare_big_endian (map b2z cs) table) 0); destruct (Z.leb_spec s (V table)); try reflexivity; lia.
Qed.

(* ---------- the generated table ---------- *)
Lemma digits_of_forallb l : forallb (fun d => (0 <=? d) && (d <? 256)) l = true -> digits l.
Proof.
  intros H. apply Forall_forall. intros x Hx. rewrite forallb_forall in H. specialize (H x Hx).
  apply andb_true_iff in H as [H1 H2]. apply Z.leb_le in H1. apply Z.ltb_lt in H2. lia.
Qed.
Lemma table_digits : digits max_mod_half_order.
Proof. apply digits_of_forallb. vm_compute. reflexivity. Qed.

(* ---------- CECKey.sign / verify ---------- *)
Section KeyLaws.
Variable E : curve.
Hypothesis L : curve_laws E.
Hypothesis n_small : c_n E < 2 ^ 256.
(* the table of IsLowDERSignature is the half order of this group *)
Hypothesis table_ok : V max_mod_half_order = c_n E / 2.
Notation n := (c_n E).

Lemma mod_n_small a : small (a mod n).
Proof. pose proof (n_ge_2 E L). pose proof (Z.mod_pos_bound a n ltac:(lia)). unfold small. lia. Qed.
Lemma sign_raw_small d e k : small (fst (sign_raw E d e k)) /\ small (snd (sign_raw E d e k)).
Proof. unfold sign_raw. cbn [fst snd]. split; apply mod_n_small. Qed.

Lemma hash_len32 (h : bytes) : length h = 32%nat -> (lenZ h =? 32) = true.
Proof. intros H. unfold lenZ. rewrite H. reflexivity. Qed.

Theorem cec_sign_spec d hash k : length hash = 32%nat -> valid_nonce E d (be_dec hash) k ->
  cec_sign E d hash k =
  Ok (enc_der (fst (sign_raw E d (be_dec hash) k)) (norm_s E (snd (sign_raw E d (be_dec hash) k)))).
Proof.
  intros Lh (Hk & Hr & Hs). unfold cec_sign, ossl_sign. rewrite (hash_len32 hash Lh). cbn [negb].
  destruct (sign_raw_small d (be_dec hash) k) as [Sr Ss].
  destruct (sign_raw E d (be_dec hash) k) as [r s]. cbn [fst snd] in *.
  unfold is_low_der. rewrite (is_low_der_enc _ r s table_digits Sr Ss). cbn [bind]. rewrite table_ok.
  unfold norm_s. destruct (Z.ltb_spec 0 s) as [P|]; [|unfold small in Ss; lia]. cbn [andb].
  destruct (Z.leb_spec s (n / 2)).
  - destruct (Z.gtb_spec s (n / 2)); [lia|reflexivity].
  - unfold signature_to_low_s. rewrite (parse_enc_der r s Sr Ss).
    rewrite Z.shiftr_div_pow2 by lia. change (2 ^ 1) with 2.
    destruct (Z.gtb_spec s (n / 2)); [reflexivity|lia].
Qed.

(* every property of the returned signature *)
Theorem cec_sign_ok d hash k : length hash = 32%nat -> valid_nonce E d (be_dec hash) k ->
  exists sig r s, cec_sign E d hash k = Ok sig /\
    parse_der sig = Some (r, s) /\ (forall b, parse_der b = Some (r, s) -> b = sig) /\
    (length sig <= 72)%nat /\ low_s E s = true /\ verify_ref E (pub E d) (be_dec hash) r s = true.
Proof.
  intros Lh V0. pose proof V0 as (Hk & Hr & Hs).
  destruct (sign_raw_small d (be_dec hash) k) as [Sr Ss].
  assert (Rs : 1 <= snd (sign_raw E d (be_dec hash) k) < n) by (unfold small in Ss; unfold sign_raw in *; cbn [snd fst] in *;
    pose proof (n_ge_2 E L); pose proof (Z.mod_pos_bound (inv_mod k n * (be_dec hash + c_x E (c_mul E k c_gen) mod n * d)) n ltac:(lia)); lia).
  destruct (norm_s_low E _ Rs) as [Lo Rn].
  assert (Sn : small (norm_s E (snd (sign_raw E d (be_dec hash) k)))) by (unfold small; lia).
  eexists _, _, _. split; [apply cec_sign_spec; assumption|].
  split; [apply parse_enc_der; assumption|].
  split; [intros b Hb; apply parse_der_inv in Hb; tauto|].
  split; [apply enc_der_length; assumption|].
  split; [exact Lo|]. apply verify_sign_low; assumption.
Qed.

Theorem cec_verify_strict Q hash sig r s : parse_der sig = Some (r, s) ->
  cec_verify E (Some Q) hash sig = verify_ref E Q (be_dec hash) r s.
Proof.
  intros P. unfold cec_verify. destruct sig as [|b t]; [discriminate|]. rewrite P. reflexivity.
Qed.
Lemma cec_verify_empty Q hash : cec_verify E Q hash [] = false.
Proof. reflexivity. Qed.
End KeyLaws.

(* ---------- CPubKey flags as written ---------- *)
Theorem pk_flags b : pk_is_valid b = negb (length b =? 0)%nat /\ pk_is_compressed b = (length b =? 33)%nat.
Proof.
  unfold pk_is_valid, pk_is_compressed, lenZ. change pubkey_compressed_len with 33. split.
  - destruct (length b); [reflexivity|]. destruct (Z.gtb_spec (Z.of_nat (S n)) 0); [reflexivity|lia].
  - destruct (Z.eqb_spec (Z.of_nat (length b)) 33); destruct (Nat.eqb_spec (length b) 33); try reflexivity; lia.
Qed.
(* fully valid keys have one of the three SEC1 shapes (whatever the curve) *)
Theorem pk_fullyvalid_shape E b : pk_is_fullyvalid E b = true ->
  b = [x00] \/
  (length b = 33%nat /\ exists h t, b = h :: t /\ (b2z h = 2 \/ b2z h = 3)) \/
  (length b = 65%nat /\ exists h t, b = h :: t /\ (b2z h = 4 \/ b2z h = 6 \/ b2z h = 7)).
Proof.
  unfold pk_is_fullyvalid, sec1_dec. destruct b as [|h t]; [discriminate|].
  destruct (Nat.eqb_spec (length t) 0) as [L0|_].
  - destruct (Z.eqb_spec (b2z h) 0) as [Z0|]; [|discriminate]. intros _. left.
    destruct t; [|discriminate]. f_equal. apply b2z_inj. exact Z0.
  - destruct (Nat.eqb_spec (length t) 32) as [L32|_].
    + destruct (Z.eqb_spec (b2z h) 2); [intros _; right; left; split; [cbn [length]; lia|eauto]|].
      destruct (Z.eqb_spec (b2z h) 3); [intros _; right; left; split; [cbn [length]; lia|eauto]|discriminate].
    + destruct (Nat.eqb_spec (length t) 64) as [L64|_]; [|discriminate].
      destruct (Z.eqb_spec (b2z h) 4); [intros _; right; right; split; [cbn [length]; lia|eauto 6]|].
      destruct (Z.eqb_spec (b2z h) 6); [intros _; right; right; split; [cbn [length]; lia|eauto 6]|].
      destruct (Z.eqb_spec (b2z h) 7); [intros _; right; right; split; [cbn [length]; lia|eauto 7]|discriminate].
Qed.

(* ---------- WIF ---------- *)
Section Wif.
Variable H : bytes -> bytes.
Hypothesis H_len : forall x, (4 <= length (H x))%nat.
Definition flag (c : bool) : bytes := if c then [x01] else [].

Lemma secret_init_ok prefix secret c : length secret = 32%nat ->
  secret_init prefix (prefix, secret ++ flag c) = Ok (secret, c).
Proof.
  intros Ls. unfold secret_init. rewrite Z.eqb_refl. cbn [negb].
  replace (py_slice (secret ++ flag c) (Some 0) (Some 32)) with secret
    by (symmetry; apply (py_slice_mid [] secret (flag c)); unfold lenZ; [reflexivity|rewrite Ls; reflexivity]).
  rewrite (hash_len32 secret Ls). cbn [negb]. f_equal. f_equal.
  destruct c; cbn [flag].
  - rewrite (py_getitem_mid secret x01 []) by (unfold lenZ; rewrite Ls; reflexivity).
    unfold lenZ. rewrite app_length, Ls. reflexivity.
  - rewrite app_nil_r. unfold lenZ. rewrite Ls. reflexivity.
Qed.

Theorem wif_roundtrip prefix secret c : 0 <= prefix < 256 -> length secret = 32%nat ->
  exists t, secret_text H prefix secret c = Ok t /\ t = spec_to_text H prefix (secret ++ flag c) /\
            secret_parse H prefix t = Ok (secret, c) /\
            (forall prefix', prefix' <> prefix -> secret_parse H prefix' t = Err SecretErr).
Proof.
  intros Hp Ls. destruct (check_roundtrip H H_len prefix (secret ++ flag c) Hp) as (t & T1 & T2 & T3).
  exists t. unfold secret_text, secret_parse. unfold to_text in T1.
  change (if c then [x01] else []) with (flag c).
  assert (FB : from_bytes (secret ++ flag c) prefix = Ok (prefix, secret ++ flag c)).
  { unfold from_bytes. destruct (Z.leb_spec 0 prefix); [|lia]. destruct (Z.leb_spec prefix 255); [|lia]. reflexivity. }
  rewrite FB in *. cbn [bind] in *.
  rewrite (secret_init_ok prefix secret c Ls). cbn [bind]. split; [exact T1|]. split; [exact T2|].
  rewrite T3. cbn [bind]. split; [apply secret_init_ok; exact Ls|].
  intros prefix' Ne. unfold secret_init. destruct (Z.eqb_spec prefix prefix'); [congruence|reflexivity].
Qed.
End Wif.

(* the four chains regenerated from /repo have SECRET_KEY prefixes in byte range *)
Lemma chains_prefix_range : forallb (fun p => (0 <=? cp_secret_key p) && (cp_secret_key p <? 256)) chains = true
  /\ length chains = 4%nat.
Proof. split; vm_compute; reflexivity. Qed.
Theorem wif_roundtrip_chains H : (forall x, (4 <= length (H x))%nat) ->
  forall p, In p chains -> forall secret c, length secret = 32%nat ->
  exists t, secret_text H (cp_secret_key p) secret c = Ok t /\
            t = spec_to_text H (cp_secret_key p) (secret ++ flag c) /\
            secret_parse H (cp_secret_key p) t = Ok (secret, c) /\
            (forall q, In q chains -> cp_secret_key q <> cp_secret_key p ->
                       secret_parse H (cp_secret_key q) t = Err SecretErr).
Proof.
  intros HL p Hp secret c Ls. destruct chains_prefix_range as [R _].
  rewrite forallb_forall in R. specialize (R p Hp). apply andb_true_iff in R as [R1 R2].
  apply Z.leb_le in R1. apply Z.ltb_lt in R2.
  destruct (wif_roundtrip H HL (cp_secret_key p) secret c ltac:(lia) Ls) as (t & T1 & T2 & T3 & T4).
  exists t. repeat split; try assumption. intros q _ Ne. apply T4. exact Ne.
Qed.

(* ---------- the concrete parameters meet the side conditions ---------- *)
From BV Require Import Model.Secp256k1.
Lemma secp_table_ok : V max_mod_half_order = c_n secp256k1 / 2.
Proof. vm_compute. reflexivity. Qed.
Lemma secp_n_small : c_n secp256k1 < 2 ^ 256.
Proof. vm_compute. reflexivity. Qed.
Lemma secp_p_bounds : c_n secp256k1 <= c_p secp256k1 /\ c_p secp256k1 < 2 * c_n secp256k1 /\
  c_p secp256k1 <= 2 ^ 256 /\ Z.log2 (c_p secp256k1) + 1 = 256.
Proof. repeat split; vm_compute; try reflexivity; discriminate. Qed.

(* IsLowDERSignature, with the table regenerated from /repo, against the secp256k1 order *)
Theorem is_low_der_secp r s : small r -> small s ->
  is_low_der (enc_der r s) = Ok (low_s secp256k1 s).
Proof.
  intros Hr Hs. unfold is_low_der. rewrite (is_low_der_enc _ r s table_digits Hr Hs), secp_table_ok. reflexivity.
Qed.
