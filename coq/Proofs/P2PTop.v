(* Proofs/P2PTop.v – C18: the statements of Props/C18.v phrased on the SPEC predicates
   (wf_msg, conform, carried, spec_frame), obtained from Proofs/P2P*.v; and the witnesses
   of the two recorded layout deviations (F15, F16), computed with the real double SHA-256. *)
From BV Require Import Common.Base Common.Hash Common.Codec Common.Tx Common.P2PMsg Gen.Core Gen.Layouts Gen.P2P
  Spec.Wire Spec.P2P Model.Wire Model.P2P Proofs.Wire Proofs.P2P Proofs.P2PSpec Proofs.P2PFrame.

Definition wfS := wf_msg MAX_SIZE CADDR_TIME_VERSION.
Definition high (m : msg) : Prop := match m with MVersion v => relay_min <= v_version v | _ => True end.
Lemma high_version_high m : high m -> version_high m.
Proof. destruct m; exact (fun H => H). Qed.

Lemma frame_layout H magic m : wfS m -> conform m -> lenZ (payload_enc m) < 2^32 ->
  to_bytes H magic m = spec_frame H magic m.
Proof.
  intros W C Hl. unfold to_bytes, spec_frame. rewrite frame_spec by (try assumption; apply command_short).
  now rewrite command_spec, (payload_spec m W C).
Qed.

Lemma ser_tx_wf t : wf_tx MAX_SIZE t -> ser_tx true t = Ok (enc tx_c t).
Proof.
  intros W. unfold ser_tx. cbn [andb]. destruct (has_witness t) eqn:Hw.
  - destruct W as (_ & _ & _ & _ & _ & _ & _ & _ & [E|E]).
    + unfold has_witness in Hw. rewrite E in Hw. discriminate.
    + rewrite E, Nat.ltb_irrefl. reflexivity.
  - rewrite enc_tx_set_nil, enc_tx. unfold wire_tx. now rewrite Hw.
Qed.
Lemma frame_layout_ser H magic m : wfS m -> conform m -> lenZ (payload_enc m) < 2^32 ->
  to_bytes H magic m = spec_frame H magic m /\ msg_ser m = Ok (payload_enc m).
Proof.
  intros W C Hl. split; [now apply frame_layout|].
  destruct m; try reflexivity.
  - cbn [wfS wf_msg wf_version] in W. destruct W as (_ & _ & _ & _ & Wf & Wn & Wu & Wh & _).
    cbn [msg_ser payload_enc]. unfold version_ser.
    destruct (v_from v), (v_nonce v), (v_subver v), (v_height v); cbn [owf] in *; try contradiction; reflexivity.
  - cbn [msg_ser payload_enc]. now apply ser_tx_wf.
Qed.
Section Top.
Variable H : bytes -> bytes.
Variable magic : bytes.
Hypothesis magic_len : length magic = 4%nat.
Hypothesis H_len : forall x, (4 <= length (H x))%nat.

Lemma roundtrip m rest : wfS m -> high m -> fits m ->
  parse_frame H magic (to_bytes H magic m ++ rest) = (Ok (Some (carried PROTO_VERSION m)), rest) /\
  to_bytes H magic (carried PROTO_VERSION m) = to_bytes H magic m.
Proof.
  intros W Hh Hf. rewrite <- (norm_msg_carried m W (high_version_high m Hh)).
  apply frame_roundtrip; auto using wf_msg_wfm, high_version_high.
Qed.
Lemma roundtrip_version_low v rest : wfS (MVersion v) -> fits (MVersion v) ->
  ver_height_min <= v_version v < ver_relay_min -> v_version v <> ver_quirk_from -> v_relay v = ver_relay_default ->
  parse_frame H magic (to_bytes H magic (MVersion v) ++ rest) = (Ok (Some (norm_msg (MVersion v))), rest) /\
  to_bytes H magic (norm_msg (MVersion v)) = to_bytes H magic (MVersion v).
Proof.
  intros W Hf Hr Hq Hl. pose proof (wf_msg_wfm _ W) as Wm. destruct Wm as (t & Et & Wt). split.
  - eapply frame_roundtrip_version_low; eassumption.
  - unfold to_bytes. rewrite (payload_norm (MVersion v)); [reflexivity|]. exists t. split; assumption.
Qed.
Lemma stream0 ms fuel : Forall (fun m => wfS m /\ high m /\ fits m) ms -> (length ms <= fuel)%nat ->
  parse_stream H magic fuel (concat (map (to_bytes H magic) ms)) = (expect H magic ms, Ok tt, []).
Proof.
  intros F Hf. apply stream_roundtrip; try assumption.
  eapply Forall_impl; [|exact F]. intros m (W & Hh & Hfit). split; [now apply wf_msg_wfm|]. split; [now apply high_version_high|exact Hfit].
Qed.
Lemma expect_carried ms : Forall (fun m => wfS m /\ high m /\ fits m) ms ->
  map fst (expect H magic ms) = map (fun m => Some (carried PROTO_VERSION m)) ms.
Proof.
  intros F. induction F as [|m t (W & Hh & _) F IH]; [reflexivity|]. cbn [expect map fst].
  rewrite (norm_msg_carried m W (high_version_high m Hh)), IH. reflexivity.
Qed.
Lemma stream ms fuel : Forall (fun m => wfS m /\ high m /\ fits m) ms -> (length ms <= fuel)%nat ->
  parse_stream H magic fuel (concat (map (to_bytes H magic) ms)) = (expect H magic ms, Ok tt, []) /\
  map fst (expect H magic ms) = map (fun m => Some (carried PROTO_VERSION m)) ms.
Proof. intros F Hf. split; [now apply stream0 | now apply expect_carried]. Qed.
Lemma truncated m p q : wfS m -> fits m -> to_bytes H magic m = p ++ q -> q <> [] ->
  parse_frame H magic p = (Err Trunc, []).
Proof. intros W Hf E NE. eapply frame_truncated; try eassumption. apply command_short. Qed.
End Top.

(* ---------- witnesses of the recorded deviations ---------- *)
Definition ex_header : header :=
  {| h_version := 1; h_prev := repeat x11 32; h_merkle := repeat x22 32; h_time := 3; h_bits := 4; h_nonce := 5 |}.
Definition ex_headers : msg := MHeaders [ex_header; ex_header].
Definition ex_addr (last : byte) : netaddr := {| na_services := 1; na_ip := [x7f; x00; x00; last]; na_port := 8333 |}.
Definition ex_version (nv relay : Z) : msg :=
  MVersion {| v_version := nv; v_services := 1; v_time := 1700000000; v_to := ex_addr x01; v_from := Some (ex_addr x02);
              v_nonce := Some 7; v_subver := Some [x2f; x78; x2f]; v_height := Some 800000; v_relay := relay |}.
Definition mainnet_magic : bytes := [xf9; xbe; xb4; xd9].

Lemma ex_header_wf : wf_header ex_header.
Proof. unfold wf_header, in_i, in_u. cbn [ex_header h_version h_prev h_merkle h_time h_bits h_nonce]. vm_compute. intuition congruence. Qed.
Lemma ex_headers_wf : wfS ex_headers.
Proof. split; [constructor; [exact ex_header_wf|constructor; [exact ex_header_wf|constructor]] | vm_compute; reflexivity]. Qed.
Lemma ex_addr_wf b : wf_netaddr (ex_addr b).
Proof. unfold wf_netaddr, in_u, wf_ip. cbn [ex_addr na_services na_ip na_port]. vm_compute. intuition congruence. Qed.
Lemma ex_version_wf nv relay : in_i 4 nv -> in_u 1 relay -> 209 <= nv -> wfS (ex_version nv relay).
Proof.
  intros Hv Hr Hm. unfold wfS, wf_msg, ex_version, wf_version.
  cbn [v_version v_services v_time v_to v_from v_nonce v_subver v_height v_relay owf].
  split; [exact Hv|]. split; [vm_compute; intuition congruence|]. split; [vm_compute; intuition congruence|].
  split; [apply ex_addr_wf|]. split; [apply ex_addr_wf|]. split; [vm_compute; intuition congruence|].
  split; [vm_compute; congruence|]. split; [vm_compute; intuition congruence|]. split; [exact Hr|exact Hm].
Qed.

(* F15: two headers: the library writes 161 payload bytes, the protocol has 163 *)
Lemma headers_layout_witness : wfS ex_headers /\
  length (payload_enc ex_headers) = 161%nat /\ length (spec_payload ex_headers) = 163%nat /\
  (forall H magic, to_bytes H magic ex_headers <> spec_frame H magic ex_headers).
Proof.
  split; [exact ex_headers_wf|]. split; [vm_compute; reflexivity|]. split; [vm_compute; reflexivity|].
  intros H magic E. unfold to_bytes, spec_frame, frame_bytes, spec_frame_of in E. apply app_inv_head in E.
  apply (f_equal (fun l => nth 12 l x00)) in E. vm_compute in E. discriminate.
Qed.
(* a protocol-conformant `headers` payload with two entries is mis-parsed by the library *)
Lemma headers_parse_witness :
  parse_frame sha256d mainnet_magic (spec_frame sha256d mainnet_magic ex_headers) <> (Ok (Some ex_headers), []).
Proof. vm_compute. congruence. Qed.

(* F16: nVersion 60002 (the library's own PROTO_VERSION), fRelay = False *)
Lemma version_relay_witness :
  let m := ex_version 60002 0 in
  wfS m /\
  (forall H magic, to_bytes H magic m <> spec_frame H magic m) /\
  length (payload_enc m) = S (length (spec_payload m)) /\
  parse_frame sha256d mainnet_magic (to_bytes sha256d mainnet_magic m) = (Ok (Some (ex_version 60002 1)), []) /\
  ex_version 60002 1 <> m.
Proof.
  cbv zeta. split; [apply ex_version_wf; [vm_compute; intuition congruence|vm_compute; intuition congruence|lia]|].
  split.
  { intros H magic E. unfold to_bytes, spec_frame, frame_bytes, spec_frame_of in E. apply app_inv_head in E.
    apply (f_equal (fun l => nth 12 l x00)) in E. vm_compute in E. discriminate. }
  split; [vm_compute; reflexivity|]. split; [vm_compute; reflexivity|]. discriminate.
Qed.
(* nVersion 10300 is read back as 300 *)
Lemma version_10300_witness :
  parse_frame sha256d mainnet_magic (to_bytes sha256d mainnet_magic (ex_version 10300 1)) = (Ok (Some (ex_version 300 1)), []).
Proof. vm_compute. reflexivity. Qed.
Lemma headers_refuted : exists m, wfS m /\
  length (payload_enc m) = 161%nat /\ length (spec_payload m) = 163%nat /\
  (forall H magic, to_bytes H magic m <> spec_frame H magic m) /\
  parse_frame sha256d mainnet_magic (spec_frame sha256d mainnet_magic m) <> (Ok (Some m), []).
Proof.
  exists ex_headers. destruct headers_layout_witness as (W & L1 & L2 & NE).
  split; [exact W|]. split; [exact L1|]. split; [exact L2|]. split; [exact NE|exact headers_parse_witness].
Qed.
Lemma version_relay_refuted : exists m m', wfS m /\
  (forall H magic, to_bytes H magic m <> spec_frame H magic m) /\
  length (payload_enc m) = S (length (spec_payload m)) /\
  parse_frame sha256d mainnet_magic (to_bytes sha256d mainnet_magic m) = (Ok (Some m'), []) /\ m' <> m.
Proof. exists (ex_version 60002 0), (ex_version 60002 1). exact version_relay_witness. Qed.
