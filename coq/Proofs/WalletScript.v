(* Proofs/WalletScript.v – C12: the script side of the address table.
   * the shape tests, slices and the canonicalisation CScript(tuple(script)) of Model/Wallet.v
     evaluated on the standard templates, on the three non-canonical pushes of the P2PKH
     template and on the two bare-pubkey forms – for EVERY payload (the payload bytes are
     variables: a list of known length is opened into its elements, the remaining
     computation inspects constant bytes only);
   * [from_spk_std], [to_spk_std]: from_scriptPubKey / to_scriptPubKey on the table;
   * [from_spk_noncanon], [from_spk_bare33], [from_spk_bare65] (the latter is F9: the
     address of the first 64 pubkey bytes). *)
From BV Require Import Common.Base Gen.Core Gen.ScriptConsts Model.Wallet Spec.Wallet.
From BV Require Spec.Bech32 Proofs.Bech32Ref.

(* open a list of statically known length into its elements *)
Ltac explode h L :=
  repeat (destruct h as [|? h]; [discriminate L|]); destruct h; [clear L|discriminate L].

Definition cls_of (k : kind) : acls :=
  match k with KP2PKH => P2PKH | KP2SH => P2SH | KP2WPKH => P2WPKH | KP2WSH => P2WSH end.
Definition kind_of (c : acls) : kind :=
  match c with P2PKH => KP2PKH | P2SH => KP2SH | P2WPKH => KP2WPKH | P2WSH => KP2WSH end.
Lemma kind_cls k : kind_of (cls_of k) = k. Proof. destruct k; reflexivity. Qed.
Lemma cls_kind c : cls_of (kind_of c) = c. Proof. destruct c; reflexivity. Qed.
(* the address object the table prescribes *)
Definition std_addr (p : chain_params) (k : kind) (h : bytes) : addr :=
  {| a_cls := cls_of k; a_ver := spec_version p k; a_data := h |}.

(* what the theorems need from a chain's parameters; decided by computation for the four
   regenerated chains in Proofs/Wallet.v *)
Definition wf_chain (p : chain_params) : Prop :=
  0 <= cp_pubkey_addr p < 256 /\ 0 <= cp_script_addr p < 256 /\ cp_pubkey_addr p <> cp_script_addr p /\
  Spec.Bech32.valid_hrp (cp_hrp p) /\ (length (cp_hrp p) <= 30)%nat.

(* ---------- the P2PKH main test, as one definition ---------- *)
Definition p2pkh_shape (s : bytes) : bool :=
  (lenZ s =? 25) && at_is s 0 OP_DUP && at_is s 1 OP_HASH160 && at_is s 2 20
  && at_is s 23 OP_EQUALVERIFY && at_is s 24 OP_CHECKSIG.

(* ---------- templates ---------- *)
Lemma tmpl_p2pkh h : length h = 20%nat -> let s := spec_script KP2PKH h in
  is_witness_v0_scripthash s = false /\ is_witness_v0_keyhash s = false /\ is_p2sh s = false /\
  canon_script s = Ok s /\ is_witness_v0_nested_keyhash s = false /\ p2pkh_shape s = true /\
  slice s 3 23 = h.
Proof. intros L. explode h L. vm_compute. repeat split; reflexivity. Qed.

Lemma tmpl_p2sh h : length h = 20%nat -> let s := spec_script KP2SH h in
  is_witness_v0_scripthash s = false /\ is_witness_v0_keyhash s = false /\ is_p2sh s = true /\
  slice s 2 22 = h.
Proof. intros L. explode h L. vm_compute. repeat split; reflexivity. Qed.

Lemma tmpl_p2wpkh h : length h = 20%nat -> let s := spec_script KP2WPKH h in
  is_witness_v0_scripthash s = false /\ is_witness_v0_keyhash s = true /\ slice s 2 22 = h.
Proof. intros L. explode h L. vm_compute. repeat split; reflexivity. Qed.

Lemma tmpl_p2wsh h : length h = 32%nat -> let s := spec_script KP2WSH h in
  is_witness_v0_scripthash s = true /\ slice s 2 34 = h.
Proof. intros L. explode h L. vm_compute. repeat split; reflexivity. Qed.

(* the 20-byte hash pushed with PUSHDATA1 / PUSHDATA2 / PUSHDATA4 *)
Definition noncanon_script (w : nat) (h : bytes) : bytes :=
  match w with
  | 1%nat => [x76; xa9; x4c; x14] ++ h ++ [x88; xac]
  | 2%nat => [x76; xa9; x4d; x14; x00] ++ h ++ [x88; xac]
  | _ => [x76; xa9; x4e; x14; x00; x00; x00] ++ h ++ [x88; xac]
  end.
Lemma tmpl_noncanon w h : length h = 20%nat -> let s := noncanon_script w h in
  is_witness_v0_scripthash s = false /\ is_witness_v0_keyhash s = false /\ is_p2sh s = false /\
  canon_script s = Ok (spec_script KP2PKH h).
Proof.
  intros L. explode h L. destruct w as [|[|[|w]]]; vm_compute; repeat split; reflexivity.
Qed.

(* bare pubkey scripts *)
Definition bare_script (pk : bytes) : bytes := z2b (lenZ pk) :: pk ++ [xac].
Definition bare_pick (s : bytes) : option bytes :=
  if (lenZ s =? 35) && at_is s 0 33 && at_is s 34 OP_CHECKSIG then Some (slice s 1 34)
  else if (lenZ s =? 67) && at_is s 0 65 && at_is s 66 OP_CHECKSIG then Some (slice s 1 65)
  else None.
Lemma tmpl_bare33 pk : length pk = 33%nat -> let s := bare_script pk in
  is_witness_v0_scripthash s = false /\ is_witness_v0_keyhash s = false /\ is_p2sh s = false /\
  canon_script s = Ok s /\ is_witness_v0_nested_keyhash s = false /\ p2pkh_shape s = false /\
  bare_pick s = Some pk.
Proof. intros L. explode pk L. vm_compute. repeat split; reflexivity. Qed.
Lemma tmpl_bare65 pk : length pk = 65%nat -> let s := bare_script pk in
  is_witness_v0_scripthash s = false /\ is_witness_v0_keyhash s = false /\ is_p2sh s = false /\
  canon_script s = Ok s /\ is_witness_v0_nested_keyhash s = false /\ p2pkh_shape s = false /\
  bare_pick s = Some (firstn 64 pk).
Proof. intros L. explode pk L. vm_compute. repeat split; reflexivity. Qed.

(* ---------- the constructors on table values ---------- *)
Lemma b58addr_pubkey p h : wf_chain p -> length h = 20%nat ->
  b58addr_from_bytes p h (cp_pubkey_addr p) = Ok (std_addr p KP2PKH h).
Proof.
  intros (R1 & R2 & NE & _) L. unfold b58addr_from_bytes, Model.Base58.from_bytes.
  rewrite (proj2 (Z.leb_le 0 _)), (proj2 (Z.leb_le _ 255)) by lia. cbn [andb negb bind fst snd].
  unfold lenZ. rewrite L. cbn [Z.of_nat Pos.of_succ_nat Pos.succ Z.eqb Pos.eqb negb].
  rewrite (proj2 (Z.eqb_neq _ _) NE), Z.eqb_refl. reflexivity.
Qed.
Lemma b58addr_script p h : wf_chain p -> length h = 20%nat ->
  b58addr_from_bytes p h (cp_script_addr p) = Ok (std_addr p KP2SH h).
Proof.
  intros (R1 & R2 & NE & _) L. unfold b58addr_from_bytes, Model.Base58.from_bytes.
  rewrite (proj2 (Z.leb_le 0 _)), (proj2 (Z.leb_le _ 255)) by lia. cbn [andb negb bind fst snd].
  unfold lenZ. rewrite L. cbn [Z.of_nat Pos.of_succ_nat Pos.succ Z.eqb Pos.eqb negb].
  rewrite Z.eqb_refl. reflexivity.
Qed.
Lemma p2pkh_from_bytes_std p h v : wf_chain p -> length h = 20%nat ->
  v = None \/ v = Some (cp_pubkey_addr p) -> p2pkh_from_bytes p h v = Ok (std_addr p KP2PKH h).
Proof.
  intros W L [->| ->]; unfold p2pkh_from_bytes; [|rewrite Z.eqb_refl; cbn [negb]]; apply b58addr_pubkey; assumption.
Qed.
Lemma p2sh_from_bytes_std p h v : wf_chain p -> length h = 20%nat ->
  v = None \/ v = Some (cp_script_addr p) -> p2sh_from_bytes p h v = Ok (std_addr p KP2SH h).
Proof.
  intros W L [->| ->]; unfold p2sh_from_bytes; [|rewrite Z.eqb_refl; cbn [negb]]; apply b58addr_script; assumption.
Qed.
Lemma bech32addr_std (h : bytes) k : (k = KP2WPKH /\ length h = 20%nat) \/ (k = KP2WSH /\ length h = 32%nat) ->
  forall p, bech32addr_from_bytes 0 (map b2z h) = Ok (std_addr p k h).
Proof.
  intros K p. unfold bech32addr_from_bytes, Model.Bech32.cb_from_bytes. cbn [Z.eqb negb Z.leb Z.compare andb].
  rewrite Proofs.Bech32Ref.forallb_is8 by apply Proofs.Bech32Ref.map_b2z_is8.
  cbn [bind fst snd]. rewrite Proofs.Bech32Ref.map_z2b_b2z. unfold lenZ.
  destruct K as [[-> L]|[-> L]]; rewrite L; reflexivity.
Qed.

(* ---------- from_scriptPubKey on the table ---------- *)
Lemma p2pkh_unfold H160 p s nc bare :
  p2pkh_from_spk H160 p s nc bare =
  (do s <- (if nc then match canon_script s with
                       | Ok c => Ok c
                       | Err InvalidScript | Err TruncatedPush => Err AddressErr
                       | Err e => Err e
                       end else Ok s);
   if is_witness_v0_keyhash s then p2pkh_from_bytes p (slice s 2 22) (Some (cp_pubkey_addr p))
   else if is_witness_v0_nested_keyhash s then p2pkh_from_bytes p (slice s 3 23) (Some (cp_pubkey_addr p))
   else if p2pkh_shape s then p2pkh_from_bytes p (slice s 3 23) (Some (cp_pubkey_addr p))
   else if bare then match bare_pick s with
                     | Some pk => p2pkh_from_pubkey H160 p pk
                     | None => Err AddressErr
                     end
   else Err AddressErr).
Proof. reflexivity. Qed.

Section Spk.
Variable H160 : bytes -> bytes.

Theorem from_spk_std p k h : wf_chain p -> length h = payload_len k ->
  from_spk H160 p (spec_script k h) = Ok (std_addr p k h).
Proof.
  intros W L. unfold from_spk, bech32_from_spk, base58_from_spk, p2wsh_from_spk, p2wpkh_from_spk, p2sh_from_spk.
  destruct k; cbn [payload_len] in L.
  - destruct (tmpl_p2pkh h L) as (A1 & A2 & A3 & A4 & A5 & A6 & A7). cbv zeta in *.
    rewrite A1, A2, A3. cbn [or_else]. rewrite p2pkh_unfold, A4. cbn [bind]. rewrite A2, A5, A6, A7.
    rewrite p2pkh_from_bytes_std by auto. reflexivity.
  - destruct (tmpl_p2sh h L) as (A1 & A2 & A3 & A4). cbv zeta in *.
    rewrite A1, A2, A3, A4. cbn [or_else]. rewrite p2sh_from_bytes_std by auto. reflexivity.
  - destruct (tmpl_p2wpkh h L) as (A1 & A2 & A3). cbv zeta in *.
    rewrite A1, A2, A3. cbn [or_else]. rewrite (bech32addr_std h KP2WPKH) with (p := p) by auto. reflexivity.
  - destruct (tmpl_p2wsh h L) as (A1 & A2). cbv zeta in *.
    rewrite A1, A2. rewrite (bech32addr_std h KP2WSH) with (p := p) by auto. reflexivity.
Qed.

(* non-canonical pushes are canonicalised: same address as the canonical template *)
Theorem from_spk_noncanon p w h : wf_chain p -> length h = 20%nat ->
  from_spk H160 p (noncanon_script w h) = Ok (std_addr p KP2PKH h).
Proof.
  intros W L. unfold from_spk, bech32_from_spk, base58_from_spk, p2wsh_from_spk, p2wpkh_from_spk, p2sh_from_spk.
  destruct (tmpl_noncanon w h L) as (A1 & A2 & A3 & A4). cbv zeta in *.
  rewrite A1, A2, A3. cbn [or_else]. rewrite p2pkh_unfold, A4. cbn [bind].
  destruct (tmpl_p2pkh h L) as (_ & B2 & _ & _ & B5 & B6 & B7). cbv zeta in *.
  rewrite B2, B5, B6, B7. rewrite p2pkh_from_bytes_std by auto. reflexivity.
Qed.

Hypothesis H160_len : forall x, length (H160 x) = 20%nat.

(* compressed bare pubkey: the address of HASH160(pubkey) *)
Theorem from_spk_bare33 p pk : wf_chain p -> length pk = 33%nat ->
  from_spk H160 p (bare_script pk) = Ok (std_addr p KP2PKH (H160 pk)).
Proof.
  intros W L. unfold from_spk, bech32_from_spk, base58_from_spk, p2wsh_from_spk, p2wpkh_from_spk, p2sh_from_spk.
  destruct (tmpl_bare33 pk L) as (A1 & A2 & A3 & A4 & A5 & A6 & A7). cbv zeta in *.
  rewrite A1, A2, A3. cbn [or_else]. rewrite p2pkh_unfold, A4. cbn [bind]. rewrite A2, A5, A6, A7.
  unfold p2pkh_from_pubkey. rewrite p2pkh_from_bytes_std by auto. reflexivity.
Qed.
(* uncompressed bare pubkey: the code hashes scriptPubKey[1:65] = the first 64 of the 65
   pubkey bytes (F9) *)
Theorem from_spk_bare65 p pk : wf_chain p -> length pk = 65%nat ->
  from_spk H160 p (bare_script pk) = Ok (std_addr p KP2PKH (H160 (firstn 64 pk))).
Proof.
  intros W L. unfold from_spk, bech32_from_spk, base58_from_spk, p2wsh_from_spk, p2wpkh_from_spk, p2sh_from_spk.
  destruct (tmpl_bare65 pk L) as (A1 & A2 & A3 & A4 & A5 & A6 & A7). cbv zeta in *.
  rewrite A1, A2, A3. cbn [or_else]. rewrite p2pkh_unfold, A4. cbn [bind]. rewrite A2, A5, A6, A7.
  unfold p2pkh_from_pubkey. rewrite p2pkh_from_bytes_std by auto. reflexivity.
Qed.
End Spk.

(* ---------- to_scriptPubKey on the table ---------- *)
Lemma push20 h : length h = 20%nat -> push_data h = Ok (x14 :: h).
Proof. intros L. unfold push_data, lenZ. rewrite L. reflexivity. Qed.
Lemma push32 h : length h = 32%nat -> push_data h = Ok (x20 :: h).
Proof. intros L. unfold push_data, lenZ. rewrite L. reflexivity. Qed.

Theorem to_spk_std p k h : length h = payload_len k -> to_spk p (std_addr p k h) = Ok (spec_script k h).
Proof.
  intros L. unfold to_spk, std_addr. cbn [a_cls a_ver a_data].
  destruct k; cbn [cls_of spec_version payload_len] in *; rewrite ?Z.eqb_refl; cbn [negb Z.eqb];
    rewrite ?(push20 h L), ?(push32 h L); reflexivity.
Qed.

(* the scripts of the table are pairwise different and determine their payload *)
Lemma spec_script_inj k h k' h' : length h = payload_len k -> length h' = payload_len k' ->
  spec_script k h = spec_script k' h' -> k = k' /\ h = h'.
Proof.
  intros L L' E.
  assert (W : wf_chain {| cp_name := []; cp_pow_limit := 0; cp_max_money := 0; cp_magic := [];
                          cp_pubkey_addr := 0; cp_script_addr := 5; cp_secret_key := 0; cp_hrp := [98] |}).
  { unfold wf_chain. cbn. repeat split; try lia; try discriminate.
    repeat constructor; unfold Spec.Bech32.printable; lia. }
  pose proof (from_spk_std (fun x => x) _ k h W L) as A.
  pose proof (from_spk_std (fun x => x) _ k' h' W L') as B.
  rewrite E, B in A. injection A as A1 _ A3.
  split; [|auto]. rewrite <- (kind_cls k), <- (kind_cls k'), A1. reflexivity.
Qed.

(* ---------- the classifier used as the oracle of the correspondence run ---------- *)
Lemma classify_std k h : length h = payload_len k -> spec_classify (spec_script k h) = Some (SStd k h).
Proof. intros L. destruct k; cbn [payload_len] in L; explode h L; vm_compute; reflexivity. Qed.
Lemma classify_noncanon w h : length h = 20%nat -> spec_classify (noncanon_script w h) = Some (SNonCanon h).
Proof. intros L. explode h L. destruct w as [|[|[|w]]]; vm_compute; reflexivity. Qed.
Lemma classify_bare pk : length pk = 33%nat \/ length pk = 65%nat -> spec_classify (bare_script pk) = Some (SBare pk).
Proof. intros [L|L]; explode pk L; vm_compute; reflexivity. Qed.
