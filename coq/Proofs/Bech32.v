(* Proofs/Bech32.v – C11: the MODEL of bech32_decode / decode / encode against the BIP173
   predicate of Spec/Bech32.v.
   * [bech32_decode_iff]  bech32_decode s = Some (hrp, data)  <->  bech32_valid ... ;
   * [decode_iff]         decode hrp s = Ok (Some (ver, prog)) <-> bip173_segwit hrp s ver prog,
                          and decode never raises ([decode_total]);
   * [encode_spec]        for every encodable (hrp, ver, prog) encode returns the canonical
                          BIP173 address [spec_address], which satisfies the predicate and
                          decodes back to (ver, prog) ([decode_encode]);
   * mixed case is rejected ([mixed_case_rejected]). *)
From BV Require Import Common.Base Gen.Bech32 Model.Bech32 Spec.Bech32 Proofs.Bech32Poly Proofs.Bech32Bits.

(* ---------- lists of code points ---------- *)
Lemma zlist_eqb_eq a : forall b, zlist_eqb a b = true <-> a = b.
Proof.
  induction a as [|x a IH]; intros [|y b]; cbn [zlist_eqb]; split; intros H; try discriminate; try reflexivity.
  - apply andb_true_iff in H as [H1 H2]. apply Z.eqb_eq in H1. apply IH in H2. congruence.
  - injection H as -> ->. rewrite Z.eqb_refl. apply IH. reflexivity.
Qed.
Lemma zlist_eqb_refl a : zlist_eqb a a = true.
Proof. apply zlist_eqb_eq. reflexivity. Qed.
Lemma zlist_eqb_neq a b : zlist_eqb a b = false <-> a <> b.
Proof.
  split.
  - intros H E. apply zlist_eqb_eq in E. congruence.
  - intros H. destruct (zlist_eqb a b) eqn:E; [apply zlist_eqb_eq in E; contradiction|reflexivity].
Qed.

Lemma lower_eq s : lower s = lower_s s.
Proof. reflexivity. Qed.
Lemma upper_eq s : upper s = upper_s s.
Proof. reflexivity. Qed.
Lemma lower_length s : length (lower_s s) = length s.
Proof. apply map_length. Qed.
Lemma to_lower_idem c : to_lower (to_lower c) = to_lower c.
Proof.
  unfold to_lower. destruct ((65 <=? c) && (c <=? 90)) eqn:E; [|rewrite E; reflexivity].
  apply andb_true_iff in E as [E1 E2]. apply Z.leb_le in E1, E2.
  destruct (Z.leb_spec 65 (c + 32)), (Z.leb_spec (c + 32) 90); cbn [andb]; lia.
Qed.
Lemma lower_idem s : lower_s (lower_s s) = lower_s s.
Proof. unfold lower_s. rewrite map_map. apply map_ext. intros c. apply to_lower_idem. Qed.
Lemma to_lower_printable c : printable c -> printable (to_lower c).
Proof.
  unfold printable, to_lower. intros H.
  destruct (Z.leb_spec 65 c), (Z.leb_spec c 90); cbn [andb]; lia.
Qed.
Lemma lower_printable s : Forall printable s -> Forall printable (lower_s s).
Proof. intros F. apply Forall_map. eapply Forall_impl; [|exact F]. apply to_lower_printable. Qed.

Lemma range_check_spec s :
  existsb (fun x => (x <? 33) || (x >? 126)) s = false <-> Forall printable s.
Proof.
  induction s as [|c s IH]; cbn [existsb]; [split; auto|].
  rewrite orb_false_iff, IH. unfold printable. split.
  - intros [H1 H2]. constructor; [|exact H2].
    apply orb_false_iff in H1 as [A B]. apply Z.ltb_ge in A. rewrite Z.gtb_ltb in B. apply Z.ltb_ge in B. lia.
  - intros H. inversion H; subst. split; [|assumption].
    apply orb_false_iff. rewrite Z.gtb_ltb. split; apply Z.ltb_ge; lia.
Qed.
Lemma case_check_spec s :
  negb (zlist_eqb (lower s) s) && negb (zlist_eqb (upper s) s) = false <-> single_case s.
Proof.
  unfold single_case. rewrite lower_eq, upper_eq. split.
  - intros H. apply andb_false_iff in H as [H|H]; apply negb_false_iff, zlist_eqb_eq in H; auto.
  - intros [H|H]; rewrite H, zlist_eqb_refl; cbn; auto. apply andb_false_r.
Qed.

(* ---------- the character table: finite sweeps over the 32 values ---------- *)
Lemma charset_eq : bech32_charset = CHARSET.
Proof. reflexivity. Qed.

Definition in5b (v : Z) : bool := (0 <=? v) && (v <? 32).
Lemma in5b_spec v : in5b v = true <-> is5 v.
Proof. unfold in5b, is5. rewrite andb_true_iff, Z.leb_le, Z.ltb_lt. tauto. Qed.

Lemma charset_values_sweep :
  forallb (fun v => (str_find CHARSET (char_of v) =? v) && str_in (char_of v) CHARSET &&
                    negb (char_of v =? SEP) && (to_lower (char_of v) =? char_of v) &&
                    printableb (char_of v) &&
                    match py_index CHARSET v with Ok c => c =? char_of v | Err _ => false end)
          (zrange 32) = true.
Proof. vm_compute. reflexivity. Qed.
Lemma charset_chars_sweep :
  forallb (fun c => in5b (str_find CHARSET c) && (char_of (str_find CHARSET c) =? c)) CHARSET = true.
Proof. vm_compute. reflexivity. Qed.

Lemma printableb_spec c : printableb c = true <-> printable c.
Proof. unfold printableb, printable. rewrite andb_true_iff, !Z.leb_le. tauto. Qed.

Lemma char_of_facts v : is5 v ->
  str_find CHARSET (char_of v) = v /\ str_in (char_of v) CHARSET = true /\ char_of v <> SEP /\
  to_lower (char_of v) = char_of v /\ printable (char_of v) /\ py_index CHARSET v = Ok (char_of v).
Proof.
  intros H. pose proof charset_values_sweep as S. rewrite forallb_forall in S.
  specialize (S v (proj2 (In_zrange 32 v) H)).
  apply andb_true_iff in S as [S HF]. apply andb_true_iff in S as [S HE]. apply andb_true_iff in S as [S HD].
  apply andb_true_iff in S as [S HC]. apply andb_true_iff in S as [S HB].
  apply Z.eqb_eq in S. apply negb_true_iff, Z.eqb_neq in HC. apply Z.eqb_eq in HD. apply printableb_spec in HE.
  split; [exact S|]. split; [exact HB|]. split; [exact HC|]. split; [exact HD|]. split; [exact HE|].
  destruct (py_index CHARSET v); [apply Z.eqb_eq in HF; congruence|discriminate].
Qed.
Lemma str_in_In c s : str_in c s = true <-> In c s.
Proof.
  unfold str_in. rewrite existsb_exists. split.
  - intros (x & Hx & E). apply Z.eqb_eq in E. subst. exact Hx.
  - intros H. exists c. split; [exact H|apply Z.eqb_refl].
Qed.
Lemma charset_member c : str_in c CHARSET = true -> is5 (str_find CHARSET c) /\ char_of (str_find CHARSET c) = c.
Proof.
  intros H. apply str_in_In in H. pose proof charset_chars_sweep as S. rewrite forallb_forall in S.
  specialize (S c H). apply andb_true_iff in S as [A B]. apply in5b_spec in A. apply Z.eqb_eq in B. auto.
Qed.

Lemma find_char_of vals : Forall is5 vals -> map (str_find CHARSET) (map char_of vals) = vals.
Proof.
  intros F. rewrite map_map. rewrite <- (map_id vals) at 2. apply map_ext_in. intros v Hv.
  rewrite Forall_forall in F. apply char_of_facts, F, Hv.
Qed.
Lemma char_of_find cs : forallb (fun x => str_in x CHARSET) cs = true ->
  map char_of (map (str_find CHARSET) cs) = cs /\ Forall is5 (map (str_find CHARSET) cs).
Proof.
  intros H. rewrite forallb_forall in H. split.
  - rewrite map_map. rewrite <- (map_id cs) at 2. apply map_ext_in. intros c Hc. apply charset_member, H, Hc.
  - apply Forall_map, Forall_forall. intros c Hc. apply charset_member, H, Hc.
Qed.
Lemma chars_in_charset vals : Forall is5 vals -> forallb (fun x => str_in x CHARSET) (map char_of vals) = true.
Proof.
  intros F. apply forallb_forall. intros c Hc. apply in_map_iff in Hc as (v & <- & Hv).
  rewrite Forall_forall in F. apply char_of_facts, F, Hv.
Qed.
Lemma sep_not_in_chars vals : Forall is5 vals -> ~ In SEP (map char_of vals).
Proof.
  intros F H. apply in_map_iff in H as (v & E & Hv). rewrite Forall_forall in F.
  destruct (char_of_facts v (F v Hv)) as (_ & _ & N & _). contradiction.
Qed.
Lemma chars_lower vals : Forall is5 vals -> lower_s (map char_of vals) = map char_of vals.
Proof.
  intros F. unfold lower_s. rewrite map_map. apply map_ext_in. intros v Hv.
  rewrite Forall_forall in F. apply char_of_facts, F, Hv.
Qed.
Lemma chars_printable vals : Forall is5 vals -> Forall printable (map char_of vals).
Proof.
  intros F. apply Forall_map. eapply Forall_impl; [|exact F]. intros v Hv. apply char_of_facts, Hv.
Qed.
Lemma mapM_index vals : Forall is5 vals -> mapM (fun d => py_index bech32_charset d) vals = Ok (map char_of vals).
Proof.
  rewrite charset_eq. induction vals as [|v vals IH]; intros F; [reflexivity|].
  inversion F; subst. cbn [mapM map]. destruct (char_of_facts v H1) as (_ & _ & _ & _ & _ & E).
  rewrite E. cbn [bind]. rewrite IH by assumption. reflexivity.
Qed.
Lemma char_of_inj a b : is5 a -> is5 b -> char_of a = char_of b -> a = b.
Proof.
  intros Ha Hb E. destruct (char_of_facts a Ha) as (Fa & _). destruct (char_of_facts b Hb) as (Fb & _).
  rewrite <- Fa, <- Fb, E. reflexivity.
Qed.

(* ---------- rfind ---------- *)
Lemma rfind_notin c s : forall i best, ~ In c s -> rfind_from c s i best = best.
Proof.
  induction s as [|x s IH]; intros i best N; [reflexivity|].
  cbn [rfind_from]. destruct (Z.eqb_spec x c) as [->|Ne]; [exfalso; apply N; left; reflexivity|].
  apply IH. intros H. apply N. right. exact H.
Qed.
Lemma rfind_last c a b : ~ In c b -> forall i best, rfind_from c (a ++ c :: b) i best = i + lenZ a.
Proof.
  intros N. induction a as [|x a IH]; intros i best.
  - cbn [app rfind_from]. rewrite Z.eqb_refl. rewrite rfind_notin by exact N. unfold lenZ. cbn. lia.
  - cbn [app rfind_from]. rewrite IH. unfold lenZ. cbn [length]. lia.
Qed.
Lemma in_split_last (c : Z) s : In c s -> exists a b, s = a ++ c :: b /\ ~ In c b.
Proof.
  induction s as [|x s IH]; intros H; [destruct H|].
  destruct (In_dec Z.eq_dec c s) as [I|N].
  - destruct (IH I) as (a & b & -> & Nb). exists (x :: a), b. split; [reflexivity|exact Nb].
  - destruct H as [->|H]; [|contradiction]. exists [], s. split; [reflexivity|exact N].
Qed.
Lemma rfind_spec c s :
  (rfind c s = -1 /\ ~ In c s) \/
  (exists a b, s = a ++ c :: b /\ ~ In c b /\ rfind c s = lenZ a).
Proof.
  destruct (In_dec Z.eq_dec c s) as [I|N].
  - right. destruct (in_split_last c s I) as (a & b & E & Nb). exists a, b. repeat split; auto.
    subst s. unfold rfind. rewrite rfind_last by exact Nb. lia.
  - left. split; [|exact N]. unfold rfind. apply rfind_notin, N.
Qed.

(* ---------- bech32_decode ---------- *)
Lemma split_at (a b : list Z) c :
  firstn (Z.to_nat (lenZ a)) (a ++ c :: b) = a /\ skipn (Z.to_nat (lenZ a + 1)) (a ++ c :: b) = b.
Proof.
  unfold lenZ. replace (Z.to_nat (Z.of_nat (length a) + 1)) with (S (length a)) by lia. rewrite Nat2Z.id. split.
  - rewrite firstn_app, firstn_all, Nat.sub_diag. cbn [firstn]. apply app_nil_r.
  - rewrite skipn_app, skipn_all2 by lia. replace (S (length a) - length a)%nat with 1%nat by lia. reflexivity.
Qed.

Lemma lenZ_app {A} (a b : list A) : lenZ (a ++ b) = lenZ a + lenZ b.
Proof. unfold lenZ. rewrite app_length. lia. Qed.

Theorem bech32_decode_iff s hrp data :
  bech32_decode s = Some (hrp, data) <->
  exists vals, bech32_valid s hrp vals /\ data = firstn (length vals - 6) vals.
Proof.
  unfold bech32_decode. rewrite charset_eq. split.
  - destruct (existsb _ s) eqn:E1; [discriminate|]. cbn [orb].
    destruct (negb (zlist_eqb (lower s) s) && negb (zlist_eqb (upper s) s)) eqn:E2; [discriminate|].
    apply range_check_spec in E1. apply case_check_spec in E2. cbv zeta. rewrite lower_eq.
    set (ls := lower_s s).
    destruct ((rfind 49 ls <? 1) || (rfind 49 ls + 7 >? lenZ ls) || (lenZ ls >? 90)) eqn:E3; [discriminate|].
    apply orb_false_iff in E3 as [E3 E5]. apply orb_false_iff in E3 as [E3 E4].
    apply Z.ltb_ge in E3. rewrite Z.gtb_ltb in E4, E5. apply Z.ltb_ge in E4, E5.
    destruct (rfind_spec 49 ls) as [[R _]|(a & b & Els & Nb & R)]; [lia|].
    rewrite R in *. destruct (split_at a b 49) as [Sa Sb]. rewrite <- Els in Sa, Sb. rewrite Sa, Sb.
    destruct (forallb (fun x => str_in x CHARSET) b) eqn:E6; [|discriminate]. cbn [negb].
    destruct (char_of_find b E6) as [Cb Fb].
    destruct (bech32_verify_checksum a (map (str_find CHARSET) b)) eqn:E7; [|discriminate]. cbn [negb].
    intros H. injection H as <- <-. exists (map (str_find CHARSET) b). split; [|rewrite map_length; reflexivity].
    assert (Pls : Forall printable ls) by (apply lower_printable, E1).
    assert (Pa : Forall printable a).
    { rewrite Els in Pls. apply Forall_app in Pls. tauto. }
    assert (Lls : lenZ ls = lenZ a + 1 + lenZ b).
    { rewrite Els, lenZ_app. unfold lenZ. cbn [length]. lia. }
    unfold bech32_valid. repeat split.
    + exact E1.
    + exact E2.
    + unfold ls, lenZ in E5. rewrite lower_length in E5. lia.
    + intros ->. unfold lenZ in E3. cbn in E3. lia.
    + rewrite Cb. exact Els.
    + exact Fb.
    + rewrite map_length. unfold lenZ in *. lia.
    + apply verify_checksum_ok; assumption.
  - intros (vals & (P & C & L & Hn & El & F5 & L6 & Ck) & ->).
    apply range_check_spec in P as E1. rewrite E1. cbn [orb].
    apply case_check_spec in C. rewrite C. cbv zeta. rewrite lower_eq, El.
    assert (N : ~ In 49 (map char_of vals)) by (apply sep_not_in_chars, F5).
    unfold rfind. rewrite (rfind_last 49 hrp (map char_of vals) N). rewrite Z.add_0_l.
    assert (Lh : 1 <= lenZ hrp) by (destruct hrp; [contradiction|unfold lenZ; cbn [length]; lia]).
    assert (Ltot : lenZ (hrp ++ SEP :: map char_of vals) = lenZ hrp + 1 + lenZ vals).
    { rewrite lenZ_app. unfold lenZ. cbn [length]. rewrite map_length. lia. }
    assert (L90 : lenZ (hrp ++ SEP :: map char_of vals) <= 90).
    { rewrite <- El. unfold lenZ. rewrite lower_length. lia. }
    destruct (Z.ltb_spec (lenZ hrp) 1); [lia|]. rewrite !Z.gtb_ltb.
    destruct (Z.ltb_spec (lenZ (hrp ++ SEP :: map char_of vals)) (lenZ hrp + 7)); [unfold lenZ in *; lia|].
    destruct (Z.ltb_spec 90 (lenZ (hrp ++ SEP :: map char_of vals))); [lia|]. cbn [orb].
    destruct (split_at hrp (map char_of vals) SEP) as [Sa Sb]. rewrite Sa, Sb.
    rewrite chars_in_charset by exact F5. cbn [negb]. rewrite find_char_of by exact F5.
    assert (Ph : Forall printable hrp).
    { pose proof (lower_printable s P) as Q. rewrite El in Q. apply Forall_app in Q. tauto. }
    rewrite (proj2 (verify_checksum_ok hrp vals Ph F5) Ck). reflexivity.
Qed.

(* ---------- decode ---------- *)
Lemma py_index_0 {A} (x : A) l : py_index (x :: l) 0 = Ok x.
Proof.
  unfold py_index, lenZ. cbn [length Z.ltb Z.compare]. rewrite Nat2Z.inj_succ.
  destruct (Z.leb_spec (Z.succ (Z.of_nat (length l))) 0); [lia|]. reflexivity.
Qed.
Lemma py_index_nil {A} i : py_index (@nil A) i = Err IndexError.
Proof.
  unfold py_index, lenZ. cbn [length]. change (Z.of_nat 0) with 0.
  destruct (i <? 0); rewrite ?Z.add_0_r; destruct (Z.ltb_spec i 0), (Z.leb_spec 0 i); cbn [orb]; try reflexivity; lia.
Qed.

Lemma conv58 body : Forall is5 body ->
  (exists r, convertbits body 5 8 false = Ok r) /\
  forall ret, convertbits body 5 8 false = Ok (Some ret) <->
              (Forall is8 ret /\ exists pad, bitstring 5 body = bitstring 8 ret ++ pad /\
                                             (length pad < 5)%nat /\ Forall (fun b => b = false) pad).
Proof.
  intros F. exact (convertbits_nopad 5 8 ltac:(lia) ltac:(lia) body F ltac:(lia)).
Qed.
Lemma conv85 prog : Forall is8 prog ->
  exists ret k, convertbits prog 8 5 true = Ok (Some ret) /\
                bitstring 5 ret = bitstring 8 prog ++ repeat false k /\ (k < 5)%nat /\ Forall is5 ret.
Proof. intros F. exact (convertbits_pad 8 5 ltac:(lia) ltac:(lia) prog F). Qed.

Lemma firstn_skipn_6 (vals : list Z) : (6 <= length vals)%nat ->
  vals = firstn (length vals - 6) vals ++ skipn (length vals - 6) vals /\
  length (skipn (length vals - 6) vals) = 6%nat.
Proof. intros L. split; [symmetry; apply firstn_skipn|]. rewrite skipn_length. lia. Qed.

Lemma Forall_firstn {A} (P : A -> Prop) n l : Forall P l -> Forall P (firstn n l).
Proof. intros H. rewrite <- (firstn_skipn n l) in H. apply Forall_app in H. tauto. Qed.
Lemma Forall_skipn {A} (P : A -> Prop) n l : Forall P l -> Forall P (skipn n l).
Proof. intros H. rewrite <- (firstn_skipn n l) in H. apply Forall_app in H. tauto. Qed.

Theorem decode_total hrp s : exists r, decode hrp s = Ok r.
Proof.
  unfold decode. destruct (bech32_decode s) as [[h data]|] eqn:E; [|eauto].
  destruct (zlist_eqb h hrp); cbn [negb]; [|eauto].
  apply bech32_decode_iff in E as (vals & (_ & _ & _ & _ & _ & F5 & _) & ->).
  set (data := firstn (length vals - 6) vals).
  assert (Fd : Forall is5 data) by (apply Forall_firstn, F5).
  destruct (conv58 (skipn 1 data) (Forall_skipn _ _ _ Fd)) as [[r Er] Hiff]. rewrite Er. cbn [bind].
  destruct r as [decoded|]; [|eauto].
  destruct ((lenZ decoded <? 2) || (lenZ decoded >? 40)) eqn:E2; [eauto|].
  destruct data as [|d0 rest] eqn:Ed.
  - (* impossible: decoded has at least 2 elements but there is nothing to decode *)
    exfalso. cbn [skipn] in Er. apply Hiff in Er as (_ & pad & D & Lp & _).
    unfold bitstring at 1 in D. cbn [map concat] in D. symmetry in D. apply app_eq_nil in D as [D _].
    apply (f_equal (@length bool)) in D. rewrite bitstring_length in D. cbn [length] in D.
    apply orb_false_iff in E2 as [E2 _]. apply Z.ltb_ge in E2. unfold lenZ in E2. lia.
  - rewrite py_index_0. cbn [bind]. destruct (d0 >? 16); [eauto|].
    destruct ((d0 =? 0) && negb (lenZ decoded =? 20) && negb (lenZ decoded =? 32)); eauto.
Qed.

Theorem decode_iff hrp s ver prog :
  decode hrp s = Ok (Some (ver, prog)) <-> bip173_segwit hrp s ver prog.
Proof.
  unfold decode. split.
  - destruct (bech32_decode s) as [[h data]|] eqn:E; [|discriminate].
    destruct (zlist_eqb h hrp) eqn:Eh; cbn [negb]; [|discriminate].
    apply zlist_eqb_eq in Eh. subst h.
    apply bech32_decode_iff in E as (vals & V & ->). pose proof V as (_ & _ & _ & _ & _ & F5 & L6 & _).
    set (data := firstn (length vals - 6) vals) in *.
    assert (Fd : Forall is5 data) by (apply Forall_firstn, F5).
    destruct (conv58 (skipn 1 data) (Forall_skipn _ _ _ Fd)) as [_ Hiff].
    destruct (convertbits (skipn 1 data) 5 8 false) as [[decoded|]|] eqn:Ec; cbn [bind]; try discriminate.
    destruct (proj1 (Hiff decoded) eq_refl) as (F8 & pad & D & Lp & Zp).
    destruct ((lenZ decoded <? 2) || (lenZ decoded >? 40)) eqn:E2; [discriminate|].
    apply orb_false_iff in E2 as [E2 E3]. apply Z.ltb_ge in E2. rewrite Z.gtb_ltb in E3. apply Z.ltb_ge in E3.
    destruct data as [|d0 rest] eqn:Ed; [rewrite py_index_nil; discriminate|].
    rewrite py_index_0. cbn [bind skipn] in *.
    destruct (d0 >? 16) eqn:E4; [discriminate|]. rewrite Z.gtb_ltb in E4. apply Z.ltb_ge in E4.
    destruct ((d0 =? 0) && negb (lenZ decoded =? 20) && negb (lenZ decoded =? 32)) eqn:E5; [discriminate|].
    intros H. injection H as <- <-.
    destruct (firstn_skipn_6 vals L6) as [Sv Lc]. fold data in Sv. rewrite Ed in Sv.
    exists rest, (skipn (length vals - 6) vals), pad.
    inversion Fd; subst. unfold is5 in H1. unfold lenZ in *.
    split; [change (d0 :: rest ++ skipn (length vals - 6) vals) with ((d0 :: rest) ++ skipn (length vals - 6) vals); rewrite <- Sv; exact V|].
    repeat split; auto; try lia.
  - intros (body & chk & pad & V & Lc & D & Lp & Zp & F8 & Lprog & Hver & H0).
    pose proof V as (_ & _ & _ & _ & _ & F5 & _).
    assert (Ed : bech32_decode s = Some (hrp, ver :: body)).
    { apply bech32_decode_iff. exists (ver :: body ++ chk). split; [exact V|].
      replace (length (ver :: body ++ chk) - 6)%nat with (length (ver :: body)).
      - rewrite app_comm_cons, firstn_app, firstn_all, Nat.sub_diag. cbn [firstn]. symmetry. apply app_nil_r.
      - cbn [length]. rewrite app_length. lia. }
    rewrite Ed, zlist_eqb_refl. cbn [negb skipn].
    assert (Fb : Forall is5 body).
    { inversion F5 as [|? ? _ Fr]; subst. apply Forall_app in Fr. tauto. }
    destruct (conv58 body Fb) as [_ Hiff].
    rewrite (proj2 (Hiff prog)) by (split; [exact F8|exists pad; auto]). cbn [bind].
    unfold lenZ. destruct (Z.ltb_spec (Z.of_nat (length prog)) 2); [lia|].
    rewrite Z.gtb_ltb. destruct (Z.ltb_spec 40 (Z.of_nat (length prog))); [lia|]. cbn [orb].
    rewrite py_index_0. cbn [bind]. rewrite Z.gtb_ltb. destruct (Z.ltb_spec 16 ver); [lia|].
    destruct (Z.eqb_spec ver 0) as [E0|N0]; cbn [andb]; [|reflexivity].
    destruct (H0 E0) as [L|L]; rewrite L; cbn; reflexivity.
Qed.

Theorem decode_accepts_iff hrp s :
  (exists ver prog, decode hrp s = Ok (Some (ver, prog))) <-> (exists ver prog, bip173_segwit hrp s ver prog).
Proof. split; intros (v & p & H); exists v, p; apply decode_iff, H. Qed.

Theorem mixed_case_rejected hrp s : lower_s s <> s -> upper_s s <> s ->
  bech32_decode s = None /\ decode hrp s = Ok None.
Proof.
  intros Hl Hu. assert (E : bech32_decode s = None).
  { unfold bech32_decode. rewrite lower_eq, upper_eq.
    rewrite (proj2 (zlist_eqb_neq _ _) Hl), (proj2 (zlist_eqb_neq _ _) Hu). cbn [negb andb]. rewrite orb_true_r. reflexivity. }
  split; [exact E|]. unfold decode. rewrite E. reflexivity.
Qed.

(* ---------- encode ---------- *)
Lemma spec_bech32_valid hrp data : valid_hrp hrp -> Forall is5 data ->
  (length (spec_bech32 hrp data) <= 90)%nat ->
  bech32_valid (spec_bech32 hrp data) hrp (data ++ spec_checksum hrp data) /\
  length (spec_checksum hrp data) = 6%nat /\
  bech32_encode hrp data = Ok (spec_bech32 hrp data).
Proof.
  intros (Hn & Ph & Lh) Fd L90.
  destruct (created_checksum_verifies hrp data Ph Fd) as (V & Fc & Lc).
  rewrite (create_checksum_spec hrp data Ph Fd) in *.
  assert (Fv : Forall is5 (data ++ spec_checksum hrp data)) by (apply Forall_app; split; assumption).
  assert (Low : lower_s (spec_bech32 hrp data) = spec_bech32 hrp data).
  { unfold spec_bech32, lower_s. rewrite map_app. cbn [map]. fold (lower_s hrp).
    fold (lower_s (map char_of (data ++ spec_checksum hrp data))). rewrite Lh, chars_lower by exact Fv. reflexivity. }
  split; [|split; [exact Lc|]].
  - unfold bech32_valid. repeat split; auto.
    + unfold spec_bech32. apply Forall_app. split; [exact Ph|]. constructor; [unfold printable, SEP; lia|].
      apply chars_printable, Fv.
    + left. exact Low.
    + rewrite app_length. lia.
    + apply verify_checksum_ok; assumption.
  - unfold bech32_encode. rewrite (create_checksum_spec hrp data Ph Fd), mapM_index by exact Fv. reflexivity.
Qed.

Theorem encode_spec hrp ver prog : encodable hrp ver prog ->
  encode hrp ver prog = Ok (Some (spec_address hrp ver prog)) /\
  bip173_segwit hrp (spec_address hrp ver prog) ver prog /\
  decode hrp (spec_address hrp ver prog) = Ok (Some (ver, prog)).
Proof.
  intros (Vh & F8 & Lp & Hv & H0 & L90).
  destruct (conv85 prog F8) as (c & k & Ec & Bc & Lk & Fc).
  assert (Rc : regroup_pad 8 5 prog = c) by (apply (regroup_pad_unique 8 5 prog c k); auto; lia).
  unfold spec_address in *. rewrite Rc in *.
  assert (Fd : Forall is5 (ver :: c)) by (constructor; [unfold is5; lia|exact Fc]).
  destruct (spec_bech32_valid hrp (ver :: c) Vh Fd L90) as (V & Lc & Enc).
  assert (P : bip173_segwit hrp (spec_bech32 hrp (ver :: c)) ver prog).
  { exists c, (spec_checksum hrp (ver :: c)), (repeat false k).
    split; [exact V|]. repeat split; auto; try lia.
    - rewrite repeat_length. exact Lk.
    - apply Forall_forall. intros b Hb. apply repeat_spec in Hb. exact Hb. }
  assert (D : decode hrp (spec_bech32 hrp (ver :: c)) = Ok (Some (ver, prog))) by (apply decode_iff, P).
  split; [|split; assumption].
  unfold encode. rewrite Ec. cbn [bind]. rewrite Enc. cbn [bind]. rewrite D. reflexivity.
Qed.

Corollary decode_encode hrp ver prog s : encodable hrp ver prog ->
  encode hrp ver prog = Ok (Some s) -> decode hrp s = Ok (Some (ver, prog)).
Proof.
  intros E H. destruct (encode_spec hrp ver prog E) as (H1 & _ & H3). rewrite H1 in H. injection H as <-. exact H3.
Qed.
