(* Proofs/Ident.v – C02 *)
From BV Require Import Common.Base Common.Codec Common.Tx Gen.Core Spec.Wire Model.Wire Model.Ident Proofs.Wire.

Section P.
Variable H : bytes -> bytes.

Lemma ser_tx_nowit t : ser_tx true (set_wit t []) = Ok (wire_tx_stripped t).
Proof. unfold ser_tx. rewrite has_witness_set_nil. cbn [andb]. now rewrite enc_tx_set_nil. Qed.

Lemma stack_enc_ne s : enc stack_c s <> [].
Proof. cbn [stack_c vector enc]. intros E. apply app_eq_nil in E as [E _]. now apply varint_enc_ne in E. Qed.
Lemma wit_default_iff w : wit_differs_from_default w = false <-> w = [].
Proof.
  unfold wit_differs_from_default, ser_witness. rewrite negb_false_iff, bytes_eqb_eq. split.
  - destruct w as [|s w]; [reflexivity|]. rewrite rep_enc_cons. intros E. exfalso.
    change (rep_enc stack_c []) with (@nil byte) in E. apply app_eq_nil in E as [E _]. now apply stack_enc_ne in E.
  - intros ->. reflexivity.
Qed.

(* txid = H of the witness-stripped serialisation, for every transaction *)
Theorem txid_stripped t : (length (tx_wit t) <= length (tx_vin t))%nat -> get_txid H t = Ok (H (wire_tx_stripped t)).
Proof.
  intros L. unfold get_txid. destruct (wit_differs_from_default (tx_wit t)) eqn:D.
  - rewrite ser_tx_nowit. reflexivity.
  - apply wit_default_iff in D. unfold ser_tx. assert (HW : has_witness t = false) by (unfold has_witness; now rewrite D).
    rewrite HW. cbn [andb bind]. rewrite enc_tx_set_nil. reflexivity.
Qed.
(* …hence unchanged by adding, removing or altering witness data *)
Theorem txid_indep t w : (length (tx_wit t) <= length (tx_vin t))%nat -> (length w <= length (tx_vin t))%nat ->
  get_txid H (set_wit t w) = get_txid H t.
Proof. intros L1 L2. rewrite !txid_stripped by assumption. reflexivity. Qed.
(* the witness hash is H of the full serialisation *)
Theorem wtxid_full t : wf_tx MAX_SIZE t -> get_hash H t = Ok (H (wire_tx t)).
Proof.
  intros W. unfold get_hash, ser_tx. cbn [andb]. destruct (has_witness t) eqn:HW.
  - destruct W as (_ & _ & _ & _ & _ & _ & _ & _ & [E|E]); [unfold has_witness in HW; rewrite E in HW; discriminate|].
    rewrite E, Nat.ltb_irrefl. cbn [bind]. now rewrite enc_tx.
  - cbn [bind]. rewrite enc_tx_set_nil. unfold wire_tx. now rewrite HW.
Qed.
(* the two serialisations coincide exactly when no witness stack is non-empty *)
Theorem forms_coincide t : wf_tx MAX_SIZE t -> (wire_tx t = wire_tx_stripped t <-> has_witness t = false).
Proof.
  intros W. split.
  - intros E. destruct (has_witness t) eqn:HW; [|reflexivity]. exfalso.
    pose proof (marker_iff t W) as [_ M]. specialize (M HW). rewrite E in M.
    pose proof (marker_iff (set_wit t []) (wf_norm_wit_nil t W)) as [M2 _].
    unfold wire_tx in M2. rewrite has_witness_set_nil in M2. specialize (M2 M). discriminate.
  - intros HW. unfold wire_tx. now rewrite HW.
Qed.
(* a block's hash is H of its 80-byte header whatever transactions it carries *)
Theorem block_hash_header b : block_hash H b = H (wire_header (b_hdr b)).
Proof. unfold block_hash. now rewrite enc_header. Qed.
Theorem block_hash_indep b vtx : block_hash H {| b_hdr := b_hdr b; b_vtx := vtx |} = block_hash H b.
Proof. reflexivity. Qed.
End P.
