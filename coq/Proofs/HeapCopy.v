(* Proofs/HeapCopy.v – the constructors and the from_* copy constructors of the heap model:
   they only allocate (pure extension of the heap), build objects of the requested class,
   preserve the invariant, return an object with the same value, and a mutable copy consists
   of fresh objects only. *)
From stdpp Require Import gmap.
From BV Require Import Common.Base Common.Tx Model.Heap Proofs.Heap.

Section Copy.
Variable ser : aval -> res bytes.
Variable H : bytes -> bytes.
Variable pyh : bytes -> Z.
Notation wf := (wf ser H pyh).

(* objects allocated at or after n *)
Definition fresh_refs (n : nat) (h : heap) : Prop :=
  forall l o r, (n <= l)%nat -> get h l = Some o -> In r (refs_body (o_body o)) -> (n <= r)%nat.
Definition fresh_class (mut : bool) (n : nat) (h : heap) : Prop :=
  forall l o, (n <= l)%nat -> get h l = Some o -> o_mut o = mut.
(* invariant of a copy in progress that started when the allocation pointer was n *)
Definition inv (mut : bool) (n : nat) (h : heap) : Prop :=
  wf h /\ (n <= h_next h)%nat /\ fresh_class mut n h /\ (mut = true -> fresh_refs n h).

Lemma inv_start mut h : wf h -> inv mut (h_next h) h.
Proof.
  intros W. split; [exact W|]. split; [lia|]. split.
  - intros l o L E. rewrite (wf_ge_none ser H pyh h l W L) in E. discriminate.
  - intros _ l o r L E. rewrite (wf_ge_none ser H pyh h l W L) in E. discriminate.
Qed.

Lemma body_at_alloc h o : body_at (fst (alloc h o)) (h_next h) = Some (o_body o).
Proof. unfold body_at. rewrite get_alloc. destruct (decide (h_next h = h_next h)); [reflexivity|congruence]. Qed.
Lemma mut_at_alloc h o : mut_at (fst (alloc h o)) (h_next h) = Some (o_mut o).
Proof. unfold mut_at. rewrite get_alloc. destruct (decide (h_next h = h_next h)); [reflexivity|congruence]. Qed.

Lemma ok_alloc_inv h o (h' : heap) (y : loc) : @Ok (heap * loc) (alloc h o) = Ok (h', y) -> h' = fst (alloc h o) /\ y = h_next h.
Proof. intros [= <- <-]. auto. Qed.

Lemma inv_alloc mut n h b : inv mut n h ->
  (forall r, In r (refs_body b) -> (r < h_next h)%nat) ->
  (mut = true -> forall r, In r (refs_body b) -> (n <= r)%nat) ->
  (mut = false -> forall r, In r (refs_body b) -> mut_at h r = Some false) ->
  (forall its, b = BList its -> mut = true) ->
  inv mut n (fst (alloc h (mk mut b))).
Proof.
  intros (W & N & FC & FR) R RF RI BL. split; [|split; [|split]].
  - apply alloc_wf; simpl; auto.
  - rewrite next_alloc. lia.
  - intros l o L. rewrite get_alloc. destruct (decide (l = h_next h)) as [->|]; [intros [= <-]; reflexivity|apply FC; exact L].
  - intros M l o r L. rewrite get_alloc. destruct (decide (l = h_next h)) as [->|].
    + intros [= <-]. simpl. apply RF. exact M.
    + apply (FR M). exact L.
Qed.

(* stability of what is read below the allocation pointer under pure extension *)
Lemma body_at_lt h l b : wf h -> body_at h l = Some b -> (l < h_next h)%nat.
Proof. unfold body_at. intros W. destruct (get h l) as [o|] eqn:E; [intros _; eapply wf_lt; eauto|discriminate]. Qed.
Lemma ext_agree h h' (L : list loc) : ext h h' -> (forall y, In y L -> (y < h_next h)%nat) -> agree_on L h h'.
Proof. intros (N & G) B y Hy. apply get_core, G, B, Hy. Qed.
Lemma ext_abs_outpoint h h' y : ext h h' -> (y < h_next h)%nat -> abs_outpoint h' y = abs_outpoint h y.
Proof. intros (N & G) L. apply abs_outpoint_agree, get_core, G, L. Qed.
Lemma ext_abs_txout h h' y : ext h h' -> (y < h_next h)%nat -> abs_txout h' y = abs_txout h y.
Proof. intros (N & G) L. apply abs_txout_agree, get_core, G, L. Qed.
Lemma ext_abs_txin h h' y : wf h -> ext h h' -> (y < h_next h)%nat -> abs_txin h' y = abs_txin h y.
Proof. intros W X L. apply abs_txin_agree, ext_agree; [exact X|]. intros z Hz. eapply fpn_lt; eauto. Qed.
Lemma ext_body_at h h' l : ext h h' -> (l < h_next h)%nat -> body_at h' l = body_at h l.
Proof. intros (N & G) L. unfold body_at. now rewrite G. Qed.
Lemma mut_at_lt h y m : wf h -> mut_at h y = Some m -> (y < h_next h)%nat.
Proof. intros W M. apply mut_at_get in M as (o & E & _). eapply wf_lt; eauto. Qed.

(* what a successful constructor / copy constructor call guarantees *)
Definition made (mut : bool) (n : nat) (h h' : heap) (y : loc) : Prop :=
  inv mut n h' /\ ext h h' /\ mut_at h' y = Some mut /\ (mut = true -> (n <= y)%nat).

Lemma made_alloc mut n h b : inv mut n h ->
  (forall r, In r (refs_body b) -> (r < h_next h)%nat) ->
  (mut = true -> forall r, In r (refs_body b) -> (n <= r)%nat) ->
  (mut = false -> forall r, In r (refs_body b) -> mut_at h r = Some false) ->
  (forall its, b = BList its -> mut = true) ->
  made mut n h (fst (alloc h (mk mut b))) (h_next h).
Proof.
  intros I R RF RI BL. split; [apply inv_alloc; auto|]. split; [apply ext_alloc|]. split.
  - apply (mut_at_alloc h (mk mut b)).
  - intros _. destruct I as (_ & N & _). exact N.
Qed.
Lemma made_here n h y : inv false n h -> mut_at h y = Some false -> made false n h h y.
Proof. intros I M. split; [exact I|]. split; [apply ext_refl|]. split; [exact M|discriminate]. Qed.
Lemma made_trans mut n h h1 h2 y1 y2 : made mut n h h1 y1 -> made mut n h1 h2 y2 -> made mut n h h2 y2.
Proof.
  intros (I1 & X1 & _) (I2 & X2 & M2 & F2). split; [exact I2|]. split; [eapply ext_trans; eauto|]. auto.
Qed.

Lemma new_outpoint_ok mut n h v h' y : inv mut n h -> new_outpoint mut h v = Ok (h', y) ->
  made mut n h h' y /\ abs_outpoint h' y = Some v.
Proof.
  intros I. unfold new_outpoint.
  destruct (negb (length (op_hash v) =? 32)%nat); [discriminate|].
  destruct (negb (u32ok (op_n v))); [discriminate|]. intros E. apply ok_alloc_inv in E as [-> ->]. split.
  - apply made_alloc; simpl; try tauto. discriminate.
  - unfold abs_outpoint. rewrite body_at_alloc. simpl. now destruct v.
Qed.

Lemma from_outpoint_ok mut n h x h' y : inv mut n h -> from_outpoint mut h x = Ok (h', y) ->
  made mut n h h' y /\ abs_outpoint h' y = abs_outpoint h x /\ (x < h_next h)%nat.
Proof.
  intros I. assert (W : wf h) by apply I. unfold from_outpoint. destruct (get h x) as [o|] eqn:E; [|discriminate].
  assert (LT := wf_lt ser H pyh h x o W E).
  destruct (o_body o) eqn:B; try discriminate.
  assert (A : abs_outpoint h x = Some {| op_hash := hash; op_n := n0 |}).
  { unfold abs_outpoint, body_at. rewrite E. simpl. now rewrite B. }
  destruct (negb mut && negb (o_mut o)) eqn:C.
  - apply andb_true_iff in C as (C1 & C2). apply negb_true_iff in C1, C2. subst mut. intros [= <- <-]. split; [|auto].
    apply made_here; [exact I|]. apply mut_at_get. eauto.
  - intros N. apply (new_outpoint_ok mut n) in N as (M & V); [|exact I]. split; [exact M|]. split; [congruence|exact LT].
Qed.

Lemma new_txin_ok mut n h v h' y : inv mut n h -> new_txin mut h v = Ok (h', y) ->
  made mut n h h' y /\ abs_txin h' y = Some v.
Proof.
  intros I. unfold new_txin. destruct (new_outpoint mut h (ti_prevout v)) as [[h1 p]|] eqn:E; [|discriminate].
  apply (new_outpoint_ok mut n) in E as (MD & V1); [|exact I]. simpl.
  destruct (u32ok (ti_seq v)); [|discriminate]. intros E. apply ok_alloc_inv in E as [-> ->].
  destruct MD as (I1 & X1 & M1 & F1). assert (W1 : wf h1) by apply I1.
  assert (LP := mut_at_lt h1 p mut W1 M1).
  assert (MK : made mut n h1 (fst (alloc h1 (mk mut (BTxIn p (ti_script v) (ti_seq v))))) (h_next h1)).
  { apply made_alloc; simpl; auto.
    - intros r [<-|[]]. exact LP.
    - intros Mt r [<-|[]]. auto.
    - intros Mt r [<-|[]]. now rewrite <- Mt.
    - discriminate. }
  split.
  - eapply made_trans; [|exact MK]. split; [exact I1|]. split; [exact X1|]. split; [exact M1|exact F1].
  - unfold abs_txin. rewrite body_at_alloc. cbn [o_body mk].
    rewrite (ext_abs_outpoint h1 _ p (ext_alloc _ _) LP), V1. now destruct v.
Qed.
Lemma new_txout_ok mut n h v h' y : inv mut n h -> new_txout mut h v = Ok (h', y) ->
  made mut n h h' y /\ abs_txout h' y = Some v.
Proof.
  intros I. unfold new_txout. intros E. apply ok_alloc_inv in E as [-> ->]. split.
  - apply made_alloc; simpl; try tauto. discriminate.
  - unfold abs_txout. rewrite body_at_alloc. simpl. now destruct v.
Qed.

Lemma from_txin_ok mut n h x h' y : inv mut n h -> from_txin mut h x = Ok (h', y) ->
  made mut n h h' y /\ abs_txin h' y = abs_txin h x /\ (x < h_next h)%nat.
Proof.
  intros I. assert (W : wf h) by apply I. unfold from_txin. destruct (get h x) as [o|] eqn:E; [|discriminate].
  assert (LT := wf_lt ser H pyh h x o W E).
  destruct (o_body o) eqn:B; try discriminate.
  assert (BA : body_at h x = Some (BTxIn prevout script nseq)) by (unfold body_at; rewrite E; simpl; now rewrite B).
  destruct (negb mut && negb (o_mut o)) eqn:C.
  - apply andb_true_iff in C as (C1 & C2). apply negb_true_iff in C1, C2. subst mut. intros [= <- <-].
    split; [apply made_here; [exact I|apply mut_at_get; eauto]|auto].
  - destruct (from_outpoint mut h prevout) as [[h1 p]|] eqn:EP; [|discriminate]. simpl.
    apply (from_outpoint_ok mut n) in EP as (MD & V1 & LP0); [|exact I].
    destruct (u32ok nseq); [|discriminate]. intros E'. apply ok_alloc_inv in E' as [-> ->].
    destruct MD as (I1 & X1 & M1 & F1). assert (W1 : wf h1) by apply I1.
    assert (LP := mut_at_lt h1 p mut W1 M1).
    assert (MK : made mut n h1 (fst (alloc h1 (mk mut (BTxIn p script nseq)))) (h_next h1)).
    { apply made_alloc; simpl; auto.
      - intros r [<-|[]]. exact LP.
      - intros Mt r [<-|[]]. auto.
      - intros Mt r [<-|[]]. now rewrite <- Mt.
      - discriminate. }
    split; [|split; [|exact LT]].
    + eapply made_trans; [|exact MK]. split; [exact I1|]. split; [exact X1|]. split; [exact M1|exact F1].
    + unfold abs_txin at 1. rewrite body_at_alloc. cbn [o_body mk].
      rewrite (ext_abs_outpoint h1 _ p (ext_alloc _ _) LP), V1.
      unfold abs_txin. rewrite BA. reflexivity.
Qed.
Lemma from_txout_ok mut n h x h' y : inv mut n h -> from_txout mut h x = Ok (h', y) ->
  made mut n h h' y /\ abs_txout h' y = abs_txout h x /\ (x < h_next h)%nat.
Proof.
  intros I. assert (W : wf h) by apply I. unfold from_txout. destruct (get h x) as [o|] eqn:E; [|discriminate].
  assert (LT := wf_lt ser H pyh h x o W E).
  destruct (o_body o) eqn:B; try discriminate.
  assert (BA : body_at h x = Some (BTxOut value script)) by (unfold body_at; rewrite E; simpl; now rewrite B).
  destruct (negb mut && negb (o_mut o)) eqn:C.
  - apply andb_true_iff in C as (C1 & C2). apply negb_true_iff in C1, C2. subst mut. intros [= <- <-].
    split; [apply made_here; [exact I|apply mut_at_get; eauto]|auto].
  - intros E'. apply ok_alloc_inv in E' as [-> ->]. split; [|split; [|exact LT]].
    + apply made_alloc; simpl; try tauto. discriminate.
    + unfold abs_txout. rewrite body_at_alloc, BA. reflexivity.
Qed.

(* the loop building all inputs / outputs *)
Definition all_made (mut : bool) (n : nat) (h' : heap) (ys : list loc) : Prop :=
  forall y, In y ys -> mut_at h' y = Some mut /\ (mut = true -> (n <= y)%nat).
Lemma alloc_all_ok {A B} mut n (f : heap -> A -> res (heap * loc)) (src : heap -> A -> option B)
      (dst : heap -> loc -> option B) (ok : heap -> A -> Prop) :
  (forall h a h' y, inv mut n h -> f h a = Ok (h', y) -> made mut n h h' y /\ dst h' y = src h a) ->
  (forall h h' a, wf h -> ext h h' -> ok h a -> src h' a = src h a /\ ok h' a) ->
  (forall h h' y, wf h -> ext h h' -> (y < h_next h)%nat -> dst h' y = dst h y) ->
  forall l h h' ys, inv mut n h -> (forall a, In a l -> ok h a) ->
    alloc_all f h l = Ok (h', ys) ->
    inv mut n h' /\ ext h h' /\ all_made mut n h' ys /\ opt_all (dst h') ys = opt_all (src h) l.
Proof.
  intros Fs Ss Ds. induction l as [|a t IH]; intros h h' ys I OK; simpl.
  - intros [= <- <-]. split; [exact I|]. split; [apply ext_refl|]. split; [intros y []|reflexivity].
  - destruct (f h a) as [[h1 y]|] eqn:E; [|discriminate]. simpl.
    destruct (alloc_all f h1 t) as [[h2 ys']|] eqn:E2; [|discriminate]. simpl. intros [= <- <-].
    assert (W : wf h) by apply I.
    apply Fs in E as ((I1 & X1 & M1 & F1) & V1); [|exact I]. assert (W1 : wf h1) by apply I1.
    apply IH in E2 as (I2 & X2 & AM & V2); [|exact I1|].
    2:{ intros b Hb. apply (Ss h h1 b W X1). apply OK. now right. }
    split; [exact I2|]. split; [eapply ext_trans; eauto|]. split.
    + intros z [<-|Hz]; [|apply AM, Hz]. split; [eapply ext_mut_at; eauto|exact F1].
    + simpl. rewrite (Ds h1 h2 y W1 X2 (mut_at_lt h1 y mut W1 M1)), V1, V2.
      rewrite (opt_all_ext (src h1) (src h) t); [reflexivity|].
      intros b Hb. apply (Ss h h1 b W X1). apply OK. now right.
Qed.

(* the transaction object *)
Definition mk_tx (ver : Z) (oi : option (list txin)) (oo : option (list txout)) (w : list (list bytes)) (lk : Z) : option tx :=
  match oi, oo with
  | Some i, Some o => Some {| tx_version := ver; tx_vin := i; tx_vout := o; tx_wit := w; tx_lock := lk |}
  | _, _ => None end.
Lemma build_tx_ok mut n h ver li lo w lk : inv mut n h -> all_made mut n h li -> all_made mut n h lo ->
  let r := build_tx mut h ver li lo w lk in
  made mut n h (fst r) (snd r) /\
  abs_tx (fst r) (snd r) = mk_tx ver (opt_all (abs_txin h) li) (opt_all (abs_txout h) lo) w lk /\
  exists vi vo, body_at (fst r) (snd r) = Some (BTx ver vi vo w lk).
Proof.
  intros I Ai Ao. assert (W : wf h) by apply I. unfold build_tx. destruct mut.
  - set (h1 := fst (alloc h (mk true (BList li)))).
    assert (M1 : made true n h h1 (h_next h)).
    { apply made_alloc; simpl; auto; try discriminate.
      - intros r Hr. destruct (Ai r Hr) as (M & _). eapply mut_at_lt; eauto.
      - intros _ r Hr. now apply Ai. }
    assert (I1 : inv true n h1) by apply M1. assert (X1 : ext h h1) by apply M1. assert (W1 : wf h1) by apply I1.
    set (h2 := fst (alloc h1 (mk true (BList lo)))).
    assert (M2 : made true n h1 h2 (h_next h1)).
    { apply made_alloc; simpl; auto; try discriminate.
      - intros r Hr. destruct (Ao r Hr) as (M & _). apply (mut_at_lt h1 r true W1). apply (ext_mut_at ser H pyh h h1 r true W X1 M).
      - intros _ r Hr. now apply Ao. }
    assert (I2 : inv true n h2) by apply M2. assert (X2 : ext h1 h2) by apply M2. assert (W2 : wf h2) by apply I2.
    assert (N1 : h_next h1 = S (h_next h)) by reflexivity. assert (N2 : h_next h2 = S (h_next h1)) by reflexivity.
    cbn [fst snd]. fold h1. rewrite !snd_alloc. fold h2.
    set (b := BTx ver (SList (h_next h)) (SList (h_next h1)) w lk).
    assert (M3 : made true n h2 (fst (alloc h2 (mk true b))) (h_next h2)).
    { apply made_alloc; simpl; auto; try discriminate.
      - intros r [<-|[<-|[]]]; lia.
      - intros _ r [<-|[<-|[]]]; destruct I as (_ & N & _); lia. }
    split; [eapply made_trans; [exact M1|]; eapply made_trans; [exact M2|exact M3]|].
    split; [|unfold b; rewrite (body_at_alloc h2 (mk true _)); simpl; eauto].
    set (h3 := fst (alloc h2 (mk true b))). assert (X3 : ext h2 h3) by apply ext_alloc.
    assert (X13 : ext h1 h3) by (eapply ext_trans; eauto). assert (X03 : ext h h3) by (eapply ext_trans; eauto).
    unfold abs_tx. unfold h3 at 1. rewrite body_at_alloc. cbn [o_body mk b seq_items].
    rewrite (ext_body_at h1 h3 (h_next h) X13) by lia. unfold h1 at 1. rewrite body_at_alloc. cbn [o_body mk].
    rewrite (ext_body_at h2 h3 (h_next h1) X3) by lia. unfold h2 at 1. rewrite body_at_alloc. cbn [o_body mk].
    rewrite (opt_all_ext (abs_txin h3) (abs_txin h) li).
    2:{ intros a Ha. apply ext_abs_txin; auto. destruct (Ai a Ha) as (M & _). eapply mut_at_lt; eauto. }
    rewrite (opt_all_ext (abs_txout h3) (abs_txout h) lo); [reflexivity|].
    intros a Ha. apply ext_abs_txout; auto. destruct (Ao a Ha) as (M & _). eapply mut_at_lt; eauto.
  - set (b := BTx ver (STuple li) (STuple lo) w lk).
    assert (M1 : made false n h (fst (alloc h (mk false b))) (h_next h)).
    { apply made_alloc; simpl; auto; try discriminate.
      - intros r Hr. apply in_app_or in Hr as [Hr|Hr]; [destruct (Ai r Hr) as (M & _)|destruct (Ao r Hr) as (M & _)]; eapply mut_at_lt; eauto.
      - intros _ r Hr. apply in_app_or in Hr as [Hr|Hr]; [apply Ai|apply Ao]; exact Hr. }
    cbn [fst snd]. rewrite snd_alloc. split; [exact M1|].
    split; [|unfold b; rewrite (body_at_alloc h (mk false _)); simpl; eauto].
    set (h1 := fst (alloc h (mk false b))). assert (X1 : ext h h1) by apply ext_alloc.
    unfold abs_tx. unfold h1 at 1. rewrite body_at_alloc. cbn [o_body mk b seq_items].
    rewrite (opt_all_ext (abs_txin h1) (abs_txin h) li).
    2:{ intros a Ha. apply ext_abs_txin; auto. destruct (Ai a Ha) as (M & _). eapply mut_at_lt; eauto. }
    rewrite (opt_all_ext (abs_txout h1) (abs_txout h) lo); [reflexivity|].
    intros a Ha. apply ext_abs_txout; auto. destruct (Ao a Ha) as (M & _). eapply mut_at_lt; eauto.
Qed.

Lemma all_made_ext mut n h h' ys : wf h -> ext h h' -> all_made mut n h ys -> all_made mut n h' ys.
Proof. intros W X A y Hy. destruct (A y Hy) as (M & F). split; [eapply ext_mut_at; eauto|exact F]. Qed.
Lemma opt_all_some_id {A} (l : list A) : opt_all Some l = Some l.
Proof. induction l as [|a t IH]; simpl; [reflexivity|now rewrite IH]. Qed.

Lemma new_tx_ok mut n h v h' y : inv mut n h -> new_tx mut h v = Ok (h', y) ->
  made mut n h h' y /\ abs_tx h' y = Some v.
Proof.
  intros I. assert (W : wf h) by apply I. unfold new_tx.
  destruct (alloc_all (new_txin mut) h (tx_vin v)) as [[h1 li]|] eqn:E1; [|discriminate]. simpl.
  destruct (alloc_all (new_txout mut) h1 (tx_vout v)) as [[h2 lo]|] eqn:E2; [|discriminate]. simpl.
  destruct (u32ok (tx_lock v)); [|discriminate].
  apply (alloc_all_ok mut n (new_txin mut) (fun _ a => Some a) abs_txin (fun _ _ => True)) in E1
    as (I1 & X1 & A1 & V1).
  2:{ intros h0 a h0' y0 I0 E0. apply (new_txin_ok mut n) in E0 as (? & ?); auto. }
  2:{ intros; auto. }
  2:{ intros. now apply ext_abs_txin. }
  2:{ exact I. }
  2:{ auto. }
  assert (W1 : wf h1) by apply I1.
  apply (alloc_all_ok mut n (new_txout mut) (fun _ a => Some a) abs_txout (fun _ _ => True)) in E2
    as (I2 & X2 & A2 & V2).
  2:{ intros h0 a h0' y0 I0 E0. apply (new_txout_ok mut n) in E0 as (? & ?); auto. }
  2:{ intros; auto. }
  2:{ intros. now apply ext_abs_txout. }
  2:{ exact I1. }
  2:{ auto. }
  assert (W2 : wf h2) by apply I2.
  intros E. assert (A1' : all_made mut n h2 li) by exact (all_made_ext mut n h1 h2 li W1 X2 A1).
  destruct (build_tx_ok mut n h2 (tx_version v) li lo (tx_wit v) (tx_lock v) I2 A1' A2) as (M & V & _).
  destruct (build_tx mut h2 (tx_version v) li lo (tx_wit v) (tx_lock v)) as [h3 y3]. injection E as <- <-. simpl in *.
  split.
  - destruct M as (I3 & X3 & M3 & F3). split; [exact I3|]. split; [|auto].
    eapply ext_trans; [exact X1|]. eapply ext_trans; eauto.
  - rewrite V, V2, opt_all_some_id.
    rewrite (opt_all_ext (abs_txin h2) (abs_txin h1) li), V1, opt_all_some_id; [now destruct v|].
    intros a Ha. apply ext_abs_txin; auto. destruct (A1 a Ha) as (Ma & _). eapply mut_at_lt; eauto.
Qed.

(* items of a sequence field of an allocated object are allocated *)
Lemma seq_items_alloc h l ver vi vo w lk li : wf h -> body_at h l = Some (BTx ver vi vo w lk) ->
  (seq_items h vi = Some li \/ seq_items h vo = Some li) -> forall r, In r li -> (r < h_next h)%nat.
Proof.
  intros W B S r Hr. unfold body_at in B. destruct (get h l) as [o|] eqn:E; [|discriminate]. injection B as B.
  assert (R : forall s, In s (refs_seq vi ++ refs_seq vo) -> (s < h_next h)%nat).
  { intros s Hs. apply (wf_refs ser H pyh h W l o s E). now rewrite B. }
  assert (G : forall sq, (forall s, In s (refs_seq sq) -> In s (refs_seq vi ++ refs_seq vo)) -> seq_items h sq = Some li -> (r < h_next h)%nat).
  { intros [ls|ll] Sub; simpl.
    - intros [= ->]. apply R, Sub, Hr.
    - unfold body_at. destruct (get h ll) as [ol|] eqn:El; [|discriminate]. simpl. destruct (o_body ol) eqn:Bl; try discriminate.
      intros [= ->]. apply (wf_refs ser H pyh h W ll ol r El). now rewrite Bl. }
  destruct S as [S|S]; (eapply G; [|exact S]); intros s Hs; apply in_or_app; auto.
Qed.

Lemma from_tx_ok mut n h x h' y : inv mut n h -> from_tx mut h x = Ok (h', y) ->
  made mut n h h' y /\ abs h' y = abs h x /\ (x < h_next h)%nat.
Proof.
  intros I. assert (W : wf h) by apply I. unfold from_tx. destruct (get h x) as [o|] eqn:E; [|discriminate].
  assert (LT := wf_lt ser H pyh h x o W E).
  destruct (o_body o) as [| | |ver vi vo w lk|] eqn:B; try discriminate.
  assert (BA : body_at h x = Some (BTx ver vi vo w lk)) by (unfold body_at; rewrite E; simpl; now rewrite B).
  destruct (negb mut && negb (o_mut o)) eqn:C.
  - apply andb_true_iff in C as (C1 & C2). apply negb_true_iff in C1, C2. subst mut. intros [= <- <-].
    split; [apply made_here; [exact I|apply mut_at_get; eauto]|auto].
  - destruct (seq_items h vi) as [li|] eqn:Si; [|discriminate]. destruct (seq_items h vo) as [lo|] eqn:So; [|discriminate].
    assert (Li : forall r, In r li -> (r < h_next h)%nat) by (eapply seq_items_alloc; eauto).
    assert (Lo : forall r, In r lo -> (r < h_next h)%nat) by (eapply seq_items_alloc; eauto).
    assert (G : forall m : bool, m = mut ->
      (do hi <- alloc_all (from_txin m) h li; do ho <- alloc_all (from_txout m) (fst hi) lo;
       Ok (build_tx m (fst ho) ver (snd hi) (snd ho) w lk)) = Ok (h', y) ->
      made mut n h h' y /\ abs h' y = abs h x /\ (x < h_next h)%nat).
    { intros m -> .
      destruct (alloc_all (from_txin mut) h li) as [[h1 li']|] eqn:E1; [|discriminate]. simpl.
      destruct (alloc_all (from_txout mut) h1 lo) as [[h2 lo']|] eqn:E2; [|discriminate]. simpl.
      apply (alloc_all_ok mut n (from_txin mut) abs_txin abs_txin (fun h0 a => (a < h_next h0)%nat)) in E1
        as (I1 & X1 & A1 & V1).
      2:{ intros h0 a h0' y0 I0 E0. apply (from_txin_ok mut n) in E0 as (? & ? & ?); auto. }
      2:{ intros h0 h0' a W0 X0 L0. split; [now apply ext_abs_txin|destruct X0; lia]. }
      2:{ intros. now apply ext_abs_txin. }
      2:{ exact I. }
      2:{ exact Li. }
      assert (W1 : wf h1) by apply I1.
      apply (alloc_all_ok mut n (from_txout mut) abs_txout abs_txout (fun h0 a => (a < h_next h0)%nat)) in E2
        as (I2 & X2 & A2 & V2).
      2:{ intros h0 a h0' y0 I0 E0. apply (from_txout_ok mut n) in E0 as (? & ? & ?); auto. }
      2:{ intros h0 h0' a W0 X0 L0. split; [now apply ext_abs_txout|destruct X0; lia]. }
      2:{ intros. now apply ext_abs_txout. }
      2:{ exact I1. }
      2:{ intros a Ha. destruct X1. specialize (Lo a Ha). lia. }
      assert (W2 : wf h2) by apply I2.
      intros E'. assert (A1' : all_made mut n h2 li') by exact (all_made_ext mut n h1 h2 li' W1 X2 A1).
      destruct (build_tx_ok mut n h2 ver li' lo' w lk I2 A1' A2) as (M & V & vi' & vo' & BT).
      destruct (build_tx mut h2 ver li' lo' w lk) as [h3 y3]. injection E' as <- <-. simpl in *.
      split; [|split; [|exact LT]].
      - destruct M as (I3 & X3 & M3 & F3). split; [exact I3|]. split; [|auto].
        eapply ext_trans; [exact X1|]. eapply ext_trans; eauto.
      - unfold abs. rewrite BT, BA. f_equal. rewrite V, V2.
        rewrite (opt_all_ext (abs_txin h2) (abs_txin h1) li'), V1.
        2:{ intros a Ha. apply ext_abs_txin; auto. destruct (A1 a Ha) as (Ma & _). eapply mut_at_lt; eauto. }
        rewrite (opt_all_ext (abs_txout h1) (abs_txout h) lo).
        2:{ intros a Ha. apply ext_abs_txout; auto. }
        unfold abs_tx. rewrite BA, Si, So. reflexivity. }
    destruct mut.
    + destruct (alloc_all (from_txin true) h li) as [[h1 li']|] eqn:E1; [|discriminate]. simpl.
      destruct (alloc_all (from_txout true) h1 lo) as [[h2 lo']|] eqn:E2; [|discriminate]. simpl.
      destruct (u32ok lk); [|discriminate]. intros E'. apply (G true eq_refl). rewrite E1. simpl. rewrite E2. simpl. exact E'.
    + destruct (u32ok lk); [|discriminate]. apply (G false eq_refl).
Qed.
End Copy.
