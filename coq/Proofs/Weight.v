(* Proofs/Weight.v – C15 weights: the parametric weight model of Model/Merkle.v
   instantiated with the wire model of Model/Wire.v. *)
From BV Require Import Common.Base Common.Codec Common.Tx Gen.Core Spec.Wire Model.Wire Proofs.Wire
  Spec.Merkle Model.Merkle Proofs.Merkle Model.Weight.

Lemma strip_size t : w_size_full (w_strip t) = w_size_stripped t.
Proof. reflexivity. Qed.
Lemma null_size t : w_wit_is_null t = true -> w_size_full t = w_size_stripped t.
Proof.
  unfold w_wit_is_null, w_size_full, w_size_stripped. rewrite negb_true_iff. intros H.
  rewrite enc_tx_set_nil, enc_tx_stripped by exact H. reflexivity.
Qed.

Theorem tx_weight t : tx_vin t <> [] -> tx_vout t <> [] ->
  tx_calc_weight t = Ok (3 * lenZ (wire_tx_stripped t) + lenZ (wire_tx t)).
Proof.
  intros Hi Ho. unfold tx_calc_weight.
  rewrite (calc_weight_spec tx w_n_vin w_n_vout w_wit_is_null w_strip w_size_full w_size_stripped strip_size null_size).
  - unfold spec_tx_weight, w_size_stripped, w_size_full. now rewrite enc_tx_set_nil, enc_tx.
  - unfold w_n_vin. destruct (tx_vin t); [congruence|simpl; lia].
  - unfold w_n_vout. destruct (tx_vout t); [congruence|simpl; lia].
Qed.
Theorem tx_weight_assert t : tx_vin t = [] \/ tx_vout t = [] -> tx_calc_weight t = Err AssertionError.
Proof.
  intros H. apply calc_weight_assert. unfold w_n_vin, w_n_vout. destruct H as [-> | ->]; [left|right]; reflexivity.
Qed.

Lemma lenZ_app {A} (a b : list A) : lenZ (a ++ b) = lenZ a + lenZ b.
Proof. unfold lenZ. rewrite app_length. lia. Qed.
Lemma lenZ_cs n : 0 <= n -> lenZ (cs n) = compact_size_len n.
Proof.
  intros H. unfold cs, compact_size_len, lenZ, u.
  destruct (n <? 253); [now rewrite le_enc_length|].
  destruct (Z.leb_spec n 65535), (Z.ltb_spec n 65536); try lia; [cbn [length]; now rewrite le_enc_length|].
  destruct (Z.leb_spec n 4294967295), (Z.ltb_spec n 4294967296); try lia; cbn [length]; now rewrite le_enc_length.
Qed.
Lemma lenZ_concat_map {A} (f : A -> bytes) l : lenZ (concat (map f l)) = sumZ A (fun a => lenZ (f a)) l.
Proof.
  induction l as [|a t IH]; [reflexivity|]. cbn [map concat]. rewrite lenZ_app, IH. reflexivity.
Qed.
Lemma lenZ_header h : wf_header h -> lenZ (wire_header h) = 80.
Proof.
  intros (_ & L1 & L2 & _). unfold wire_header, i, u, lenZ. rewrite !app_length, !le_enc_length, L1, L2. reflexivity.
Qed.

Lemma sumZ_ext (f g : tx -> Z) l : (forall t, f t = g t) -> sumZ tx f l = sumZ tx g l.
Proof. intros E. unfold sumZ. induction l as [|t r IH]; [reflexivity|]. cbn [fold_right]. now rewrite IH, E. Qed.

Theorem block_weight b : wf_header (b_hdr b) ->
  block_get_weight b = 3 * lenZ (wire_block_stripped b) + lenZ (wire_block b).
Proof.
  intros W. unfold block_get_weight. rewrite get_weight_spec. unfold spec_block_weight, spec_block_size.
  unfold wire_block, wire_block_stripped, vec. rewrite !lenZ_app, !lenZ_header, !lenZ_concat_map by exact W.
  rewrite !lenZ_cs by (unfold lenZ; lia).
  rewrite (sumZ_ext w_size_stripped (fun a => lenZ (wire_tx_stripped a))) by (intros t; unfold w_size_stripped; now rewrite enc_tx_set_nil).
  rewrite (sumZ_ext w_size_full (fun a => lenZ (wire_tx a))) by (intros t; unfold w_size_full; now rewrite enc_tx).
  lia.
Qed.
