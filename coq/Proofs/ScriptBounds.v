(* Proofs/ScriptBounds.v – the instrumented interpreter of Model/ScriptEvalSt.v
   (1) erases to Model/ScriptEval.v (same outcomes, the captured state forgotten), and
   (2) every captured error state respects the interpreter's limits. *)
From BV Require Import Common.Base Common.PyList Common.Tx Common.ScriptFlags Gen.ScriptConsts Gen.EvalConsts
  Model.Script Model.FindAndDelete Model.ScriptEval Model.ScriptEvalSt.

(* ------------------------------------------------------------------ (1) erasure *)
Definition sim {A} (x : xres A) (r : res A) : Prop := erase x = r.
Lemma sim_bind {A B} (m : xres A) (r : res A) (f : A -> xres B) (g : A -> res B) :
  sim m r -> (forall a, sim (f a) (g a)) -> sim (xbind m f) (bind r g).
Proof. unfold sim. intros <- H. destruct m; cbn [xbind erase bind]; auto. Qed.
Lemma sim_lift {A} (m : res A) : sim (lift m) m.
Proof. destruct m; reflexivity. Qed.
Lemma sim_ok {A} (a : A) : sim (XOk a) (Ok a).
Proof. reflexivity. Qed.
Lemma sim_fail {A} c : sim (@XFail A c) fail.
Proof. reflexivity. Qed.
Lemma sim_err {A} e : sim (@XErr A e) (Err e).
Proof. reflexivity. Qed.
Lemma sim_guard c b : sim (guard c b) (if b then fail else Ok tt).
Proof. destruct b; reflexivity. Qed.
Lemma sim_check_args c st n : sim (check_args_st c st n) (check_args st n).
Proof. unfold check_args_st, check_args. destruct (len st <? n); reflexivity. Qed.
Lemma sim_cast c s : sim (cast_to_bignum_st c s) (cast_to_bignum s).
Proof.
  unfold cast_to_bignum_st, cast_to_bignum. apply sim_bind; [apply sim_lift|]. intros v.
  destruct (lenZ s >? MAX_NUM_SIZE); reflexivity.
Qed.

Ltac sim1 :=
  first [ apply sim_ok | apply sim_fail | apply sim_err | apply sim_lift | apply sim_guard
        | apply sim_check_args | apply sim_cast
        | apply sim_bind; [|intros ?]
        | match goal with
          | |- sim (if ?b then _ else _) (if ?b then _ else _) => destruct b
          | |- sim (match ?x with _ => _ end) (match ?x with _ => _ end) => destruct x
          | |- sim (let '(_, _) := ?p in _) _ => destruct p
          end ].
Ltac sims := repeat sim1.

Section Erase.
Variable checksig : bytes -> bytes -> bytes -> bool.
Variable ripemd160 sha1 sha256 : bytes -> bytes.
Variable fl : flags.

Lemma sim_ms_loop c fuel : forall vfy st script isig ikey sc kc,
  sim (ms_loop_st checksig c fuel vfy st script isig ikey sc kc) (ms_loop checksig fuel vfy st script isig ikey sc kc).
Proof.
  induction fuel as [|f IH]; intros; cbn [ms_loop_st ms_loop].
  - sims.
  - destruct (negb (sc >? 0)); [sims|]. sims; apply IH.
Qed.

Ltac sims2 := repeat first [sim1 | apply sim_ms_loop].

Lemma sim_multisig scriptIn o vfy script s :
  sim (check_multisig_st checksig fl scriptIn o vfy script s) (check_multisig checksig fl vfy script s).
Proof. unfold check_multisig_st, check_multisig. cbv zeta. sims2. Qed.
Lemma sim_unary c op st : sim (unary_op_st c op st) (unary_op op st).
Proof. unfold unary_op_st, unary_op. sims. Qed.
Lemma sim_bin c op st : sim (bin_op_st c op st) (bin_op op st).
Proof. unfold bin_op_st, bin_op. sims. Qed.

Ltac sims3 := repeat first [apply sim_multisig | apply sim_unary | apply sim_bin | sim1].
Lemma sim_exec scriptIn s o k :
  sim (exec_st checksig ripemd160 sha1 sha256 fl scriptIn s o k) (exec checksig ripemd160 sha1 sha256 fl scriptIn s o k).
Proof. unfold exec_st, exec. cbv zeta. destruct k; sims3. Qed.
Lemma sim_step scriptIn s o :
  sim (step_st checksig ripemd160 sha1 sha256 fl scriptIn s o) (step checksig ripemd160 sha1 sha256 fl scriptIn s o).
Proof. unfold step_st, step. cbv zeta. repeat first [apply sim_exec | sim1]. Qed.
Lemma sim_run scriptIn ops : forall s,
  sim (run_ops_st checksig ripemd160 sha1 sha256 fl scriptIn s ops) (run_ops checksig ripemd160 sha1 sha256 fl scriptIn s ops).
Proof. induction ops as [|o r IH]; intros s; cbn [run_ops_st run_ops]; [sims|]. apply sim_bind; [apply sim_step|exact IH]. Qed.
Lemma sim_eval_raw st scriptIn :
  sim (eval_script_raw_st checksig ripemd160 sha1 sha256 fl st scriptIn) (eval_script_raw checksig ripemd160 sha1 sha256 fl st scriptIn).
Proof. unfold eval_script_raw_st, eval_script_raw. repeat first [apply sim_run | sim1]. Qed.

(* forgetting the captured state gives exactly EvalScript / VerifyScript of Model/ScriptEval.v *)
Theorem eval_script_st_erase st scriptIn :
  erase (eval_script_st checksig ripemd160 sha1 sha256 fl st scriptIn) = eval_script checksig ripemd160 sha1 sha256 fl st scriptIn.
Proof.
  unfold eval_script_st, eval_script. rewrite <- (sim_eval_raw st scriptIn).
  destruct (eval_script_raw_st checksig ripemd160 sha1 sha256 fl st scriptIn) as [a|c|e]; cbn [erase]; try reflexivity.
  destruct (is_script_err e); reflexivity.
Qed.
Lemma sim_eval st scriptIn :
  sim (eval_script_st checksig ripemd160 sha1 sha256 fl st scriptIn) (eval_script checksig ripemd160 sha1 sha256 fl st scriptIn).
Proof. apply eval_script_st_erase. Qed.
Theorem verify_script_st_erase a b :
  erase (verify_script_st checksig ripemd160 sha1 sha256 fl a b) = verify_script checksig ripemd160 sha1 sha256 fl a b.
Proof. change (sim (verify_script_st checksig ripemd160 sha1 sha256 fl a b) (verify_script checksig ripemd160 sha1 sha256 fl a b)).
  unfold verify_script_st, verify_script. cbv zeta. repeat first [apply sim_eval | sim1]. Qed.
End Erase.

(* ------------------------------------------------------------------ (2) bounds *)
From BV Require Import Spec.Script Proofs.ScriptStack Proofs.ScriptIter Proofs.ScriptFull.

Definition xsat {A} (P : A -> Prop) (Q : cap -> Prop) (r : xres A) : Prop :=
  match r with XOk a => P a | XFail c => Q c | XErr _ => True end.
Lemma xsat_bind {A B} (P' : A -> Prop) (P : B -> Prop) (Q : cap -> Prop) (m : xres A) (f : A -> xres B) :
  xsat P' Q m -> (forall a, P' a -> xsat P Q (f a)) -> xsat P Q (xbind m f).
Proof. destruct m; cbn [xsat xbind]; auto. Qed.
Lemma xsat_mono {A} (P P' : A -> Prop) (Q Q' : cap -> Prop) r :
  (forall a, P a -> P' a) -> (forall c, Q c -> Q' c) -> xsat P Q r -> xsat P' Q' r.
Proof. destruct r; cbn [xsat]; auto. Qed.
Lemma xsat_lift {A B} (P : B -> Prop) (Q : cap -> Prop) (m : res A) (f : A -> xres B) :
  (forall a, m = Ok a -> xsat P Q (f a)) -> xsat P Q (xbind (lift m) f).
Proof. destruct m; cbn [lift xbind xsat]; auto. Qed.
Lemma xsat_lift0 {A} (P : A -> Prop) (Q : cap -> Prop) (m : res A) : (forall a, m = Ok a -> P a) -> xsat P Q (lift m).
Proof. destruct m; cbn [lift xsat]; auto. Qed.
Lemma xsat_guard {B} (P : B -> Prop) (Q : cap -> Prop) c b (f : unit -> xres B) : Q c -> (forall u, b = false -> xsat P Q (f u)) -> xsat P Q (xbind (guard c b) f).
Proof. destruct b; cbn [guard xbind xsat]; auto. Qed.
Lemma xsat_chk {B} (P : B -> Prop) (Q : cap -> Prop) c st n (f : unit -> xres B) : Q c -> (forall u : unit, xsat P Q (f u)) -> xsat P Q (xbind (check_args_st c st n) f).
Proof. unfold check_args_st. destruct (len st <? n); cbn [xbind xsat]; auto. Qed.
Lemma xsat_cast {B} (P : B -> Prop) (Q : cap -> Prop) c s (f : Z -> xres B) : Q c -> (forall v, xsat P Q (f v)) -> xsat P Q (xbind (cast_to_bignum_st c s) f).
Proof.
  intros Hc Hf. unfold cast_to_bignum_st. destruct (vch2bn s); cbn [lift xbind xsat]; [|exact I].
  destruct (lenZ s >? MAX_NUM_SIZE); cbn [xbind xsat]; auto.
Qed.

(* list lengths through the Python list operations *)
Lemma py_pop_len {A} (l : list A) pr : py_pop l = Ok pr -> len (snd pr) = len l - 1.
Proof.
  unfold py_pop. destruct (rev l) as [|x r] eqn:E; [discriminate|]. intros [= <-]. cbn [snd].
  rewrite len_rev, <- (len_rev l), E, len_cons. lia.
Qed.
Lemma norm_idx_lt {A} (l : list A) i j : norm_idx l i = Ok j -> (j < length l)%nat.
Proof.
  unfold norm_idx, len. set (k := if i <? 0 then _ else _).
  destruct (Z.ltb_spec k 0); cbn [orb]; [discriminate|].
  destruct (Z.leb_spec (Z.of_nat (length l)) k); [discriminate|]. intros [= <-]. lia.
Qed.
Lemma py_del_len {A} (l : list A) i l' : py_del l i = Ok l' -> len l' = len l - 1.
Proof.
  unfold py_del. destruct (norm_idx l i) as [j|] eqn:N; cbn [bind]; [|discriminate]. intros E.
  assert (E' : l' = firstn j l ++ skipn (S j) l) by congruence. subst l'. clear E.
  apply norm_idx_lt in N. unfold len. rewrite app_length, firstn_length, skipn_length. lia.
Qed.
Lemma py_set_len {A} (l : list A) i x l' : py_set l i x = Ok l' -> len l' = len l.
Proof.
  unfold py_set. destruct (norm_idx l i) as [j|] eqn:N; cbn [bind]; [|discriminate]. intros E.
  assert (E' : l' = firstn j l ++ x :: skipn (S j) l) by congruence. subst l'. clear E.
  apply norm_idx_lt in N. unfold len. rewrite app_length. cbn [length]. rewrite firstn_length, skipn_length. lia.
Qed.
Lemma pop_n_len k : forall st st', pop_n k st = Ok st' -> len st' = len st - Z.of_nat k.
Proof.
  induction k as [|k IH]; intros st st'; cbn [pop_n].
  - intros [= <-]. lia.
  - destruct (py_pop st) as [pr|] eqn:E; cbn [bind]; [|discriminate]. intros H. apply IH in H. apply py_pop_len in E. lia.
Qed.
Lemma py_insert_len {A} (l : list A) i x : len (py_insert l i x) = len l + 1.
Proof.
  unfold py_insert, len. rewrite app_length. cbn [length]. rewrite firstn_length, skipn_length.
  destruct (i <? 0); lia.
Qed.

Ltac lenfacts := repeat match goal with
  | H : py_pop _ = Ok _ |- _ => apply py_pop_len in H
  | H : py_del _ _ = Ok _ |- _ => apply py_del_len in H
  | H : py_set _ _ _ = Ok _ |- _ => apply py_set_len in H
  | H : pop_n _ _ = Ok _ |- _ => apply pop_n_len in H
  end.
Ltac xs1 :=
  cbv beta;
  match goal with
  | |- xsat _ _ (xbind (check_args_st _ _ _) _) => apply xsat_chk; [assumption|intros ?]
  | |- xsat _ _ (xbind (guard _ _) _) => apply xsat_guard; [try assumption|intros ? ?]
  | |- xsat _ _ (xbind (cast_to_bignum_st _ _) _) => apply xsat_cast; [try assumption|intros ?]
  | |- xsat _ _ (xbind (lift _) _) => apply xsat_lift; intros ? ?
  | |- xsat _ _ (lift _) => apply xsat_lift0; intros ? ?
  | |- xsat _ _ (if ?b then _ else _) => destruct b eqn:?
  | |- xsat _ _ (XFail _) => cbn [xsat]; try assumption
  end.

Section Bounds.
Variable checksig : bytes -> bytes -> bytes -> bool.
Variable ripemd160 sha1 sha256 : bytes -> bytes.
Variable fl : flags.
Variable scriptIn : bytes.
Variable o : sop.

(* a failure raised INSIDE an opcode: never more items than before the opcode (every such
   raise precedes the opcode's appends), nOpCount at most 20 higher (_CheckMultiSig) *)
Definition capin (s : state) (c : cap) : Prop :=
  0 <= c_stack c /\ 0 <= c_alt c /\ c_stack c + c_alt c <= len (stack s) + len (altstack s) /\
  nOpCount s <= c_nop c <= nOpCount s + 20 /\ c_pb c = pbegincodehash s /\
  c_pc c = sop_idx o /\ c_len c = lenZ scriptIn.
(* a completed opcode: at most 3 more items (OP_3DUP), nOpCount unchanged or still within the limit *)
Definition grow (s s' : state) : Prop :=
  len (stack s') + len (altstack s') <= len (stack s) + len (altstack s) + 3 /\
  (nOpCount s' = nOpCount s \/ nOpCount s <= nOpCount s' <= MAX_SCRIPT_OPCODES) /\
  (pbegincodehash s' = pbegincodehash s \/ pbegincodehash s' = sop_idx o).

Lemma capin_c0 s : capin s (capture scriptIn o (stack s) (altstack s) (pbegincodehash s) (nOpCount s)).
Proof.
  unfold capin, capture. cbn [c_stack c_alt c_nop c_pb c_pc c_len].
  pose proof (len_nonneg (stack s)). pose proof (len_nonneg (altstack s)). lia.
Qed.

Ltac fin := cbn [xsat]; intros; lenfacts; subst; unfold grow, set_stack, push;
  cbn [stack altstack nOpCount pbegincodehash fst snd];
  rewrite ?len_app, ?len_cons, ?len_nil, ?py_insert_len; lia.

Lemma unary_bound s c op : capin s c ->
  xsat (fun st' => len st' <= len (stack s)) (capin s) (unary_op_st c op (stack s)).
Proof. intros Hc. unfold unary_op_st. repeat xs1. fin. Qed.
Lemma bin_bound s c op : capin s c ->
  xsat (fun st' => len st' <= len (stack s)) (capin s) (bin_op_st c op (stack s)).
Proof. intros Hc. unfold bin_op_st. repeat xs1; fin. Qed.

Lemma ms_loop_bound (Q : cap -> Prop) c : Q c -> forall fuel vfy st script isig ikey sc kc,
  xsat (fun _ => True) Q (ms_loop_st checksig c fuel vfy st script isig ikey sc kc).
Proof.
  intros Hc. induction fuel as [|f IH]; intros; cbn [ms_loop_st].
  - destruct (negb (sc >? 0)); exact I.
  - destruct (negb (sc >? 0)); [exact I|].
    apply xsat_lift; intros sig _. apply xsat_lift; intros pk _. apply xsat_lift; intros ok _.
    destruct (if ok then (isig + 1, sc - 1) else (isig, sc)) as [i' s']. repeat xs1; try exact I. apply IH.
Qed.

Lemma multisig_bound s vfy script :
  xsat (grow s) (capin s) (check_multisig_st checksig fl scriptIn o vfy script s).
Proof.
  pose proof (capin_c0 s) as H0. unfold check_multisig_st. cbv zeta.
  apply xsat_guard; [exact H0|intros _ _]. apply xsat_lift; intros top _.
  apply xsat_cast; [exact H0|intros kc]. apply xsat_guard; [exact H0|intros _ G].
  apply orb_false_elim in G as [K1 K2]. apply Z.ltb_ge in K1.
  assert (K3 : kc <= 20) by (destruct (Z.gtb_spec kc 20); [discriminate|lia]).
  assert (H1 : capin s (capture scriptIn o (stack s) (altstack s) (pbegincodehash s) (nOpCount s + kc))).
  { unfold capin, capture in *. cbn [c_stack c_alt c_nop c_pb c_pc c_len] in *. lia. }
  apply xsat_guard; [exact H1|intros _ G2].
  assert (N : nOpCount s + kc <= MAX_SCRIPT_OPCODES) by (destruct (Z.gtb_spec (nOpCount s + kc) MAX_SCRIPT_OPCODES); [discriminate|lia]).
  apply xsat_guard; [exact H1|intros _ _]. apply xsat_lift; intros sc _.
  apply xsat_cast; [exact H1|intros sgc]. apply xsat_guard; [exact H1|intros _ G3].
  apply orb_false_elim in G3 as [S1 S2]. apply Z.ltb_ge in S1.
  eapply xsat_bind with (P' := fun _ => True); [repeat xs1; exact I|intros _ _].
  apply xsat_lift; intros script' _.
  eapply xsat_bind with (P' := fun _ => True); [apply ms_loop_bound; exact H1|intros success _].
  apply xsat_lift; intros st1 Hp. apply pop_n_len in Hp.
  eapply xsat_bind with (P' := fun _ => True).
  { repeat xs1; try exact I. unfold capin, capture in *. cbn [c_stack c_alt c_nop c_pb c_pc c_len] in *.
    pose proof (len_nonneg st1). lia. }
  intros _ _. apply xsat_lift; intros dr Hd. apply py_pop_len in Hd.
  cbn [xsat]. unfold grow. cbn [stack altstack nOpCount pbegincodehash].
  assert (len (if negb vfy then if success then push (snd dr) [x01] else push (snd dr) [] else snd dr) <= len (snd dr) + 1).
  { destruct (negb vfy); [destruct success|]; unfold push; rewrite ?len_app, ?len_cons, ?len_nil; lia. }
  lia.
Qed.

Lemma exec_bound s k :
  xsat (grow s) (capin s) (exec_st checksig ripemd160 sha1 sha256 fl scriptIn s o k).
Proof.
  pose proof (capin_c0 s) as H0. unfold exec_st. cbv zeta. destruct k.
  all: try solve [repeat xs1; fin].
  all: try solve [eapply xsat_bind; [first [apply bin_bound | apply unary_bound]; exact H0|]; fin].
  - apply multisig_bound.
  - eapply xsat_bind with (P' := fun r => len (fst r) <= len (stack s)); [repeat xs1; fin|]. fin.
  - apply xsat_chk; [exact H0|intros _]. apply xsat_lift; intros pr Hp. pose proof (py_pop_len _ _ Hp) as Lp.
    assert (H1 : capin s (capture scriptIn o (snd pr) (altstack s) (pbegincodehash s) (nOpCount s))).
    { unfold capin, capture in *. cbn [c_stack c_alt c_nop c_pb c_pc c_len] in *. pose proof (len_nonneg (snd pr)). lia. }
    apply xsat_cast; [exact H1|intros n]. destruct ((n <? 0) || (n >=? len (snd pr))); [exact H1|].
    apply xsat_lift; intros vch _. apply xsat_lift; intros st2 H2.
    assert (len st2 <= len (snd pr)) by (destruct roll; [apply py_del_len in H2; lia|injection H2 as <-; lia]).
    fin.
Qed.
End Bounds.

(* the limits a captured state respects.  1000 + 3: the 'max stack items' check sits at the
   end of the iteration, after OP_3DUP's three appends; 201 + 20: _CheckMultiSig adds the key
   count (<= 20) to an nOpCount that already passed the loop's check (<= 201) before comparing. *)
Definition cap_ok (c : cap) : Prop :=
  0 <= c_stack c /\ 0 <= c_alt c /\ c_stack c + c_alt c <= 1000 + 3 /\
  0 <= c_nop c <= 201 + 20 /\
  0 <= c_pb c <= c_pc c /\ c_pc c < c_len c /\ c_len c <= 10000.

Fixpoint idx_ok (lo n : Z) (ops : list sop) : Prop :=
  match ops with [] => True | o :: r => lo <= sop_idx o < n /\ idx_ok (sop_idx o + 1) n r end.
Lemma idx_ok_weaken lo lo' n ops : lo' <= lo -> idx_ok lo n ops -> idx_ok lo' n ops.
Proof. destruct ops; cbn [idx_ok]; [auto|]. intros H [A B]. split; [lia|exact B]. Qed.
Lemma consecutive_idx_ok ops : forall off n, consecutive off ops -> off + lenZ (ops_bytes ops) <= n -> idx_ok off n ops.
Proof.
  induction ops as [|o r IH]; intros off n C L; cbn [idx_ok]; [exact I|].
  cbn [consecutive] in C. destruct C as [E C]. rewrite ops_bytes_cons, lenZ_app in L.
  assert (1 <= lenZ (sop_bytes o)).
  { pose proof (sop_bytes_ne o). destruct (sop_bytes o) as [|x l]; [congruence|]. rewrite lenZ_cons. pose proof (lenZ_nonneg l). lia. }
  pose proof (lenZ_nonneg (ops_bytes r)).
  split; [lia|]. apply idx_ok_weaken with (lo := off + lenZ (sop_bytes o)); [lia|]. apply IH; [exact C|lia].
Qed.
(* sop_pc: strictly increasing offsets inside the script *)
Lemma raw_iter_idx_ok s ops e : raw_iter s = (ops, e) -> idx_ok 0 (lenZ s) ops.
Proof.
  intros R. destruct (raw_iter_sound _ _ _ R) as (_ & C & rest & E & _).
  apply consecutive_idx_ok; [exact C|]. rewrite E, lenZ_app. pose proof (lenZ_nonneg rest). lia.
Qed.

Section Loop.
Variable checksig : bytes -> bytes -> bytes -> bool.
Variable ripemd160 sha1 sha256 : bytes -> bytes.
Variable fl : flags.

Section Script.
Variable scriptIn : bytes.
Hypothesis size_ok : lenZ scriptIn <= MAX_SCRIPT_SIZE.

(* between two iterations *)
Definition cap_ok_here (c : cap) : Prop := cap_ok c /\ c_len c = lenZ scriptIn.
Definition inv (lo : Z) (s : state) : Prop :=
  len (stack s) + len (altstack s) <= MAX_STACK_ITEMS /\ 0 <= nOpCount s <= MAX_SCRIPT_OPCODES /\
  0 <= pbegincodehash s <= lo.

Lemma step_bound s o lo : inv lo s -> lo <= sop_idx o < lenZ scriptIn ->
  xsat (inv (sop_idx o + 1)) cap_ok_here (step_st checksig ripemd160 sha1 sha256 fl scriptIn s o).
Proof.
  intros (I1 & I2 & I3) Hi.
  assert (CK : forall st alt pb nop, len st + len alt <= MAX_STACK_ITEMS + 3 -> 0 <= nop <= MAX_SCRIPT_OPCODES + 20 ->
               0 <= pb <= sop_idx o -> cap_ok_here (capture scriptIn o st alt pb nop)).
  { intros st alt pb nop A B C. unfold cap_ok_here, cap_ok, capture. cbn [c_stack c_alt c_nop c_pb c_pc c_len].
    pose proof (len_nonneg st). pose proof (len_nonneg alt).
    unfold MAX_STACK_ITEMS, MAX_SCRIPT_OPCODES, MAX_SCRIPT_SIZE in *. lia. }
  unfold step_st. cbv zeta.
  apply xsat_guard; [apply CK; lia|intros _ _].
  eapply xsat_bind with (P' := inv lo).
  { destruct (sop_opcode o >? OP_16); [|cbn [xsat]; unfold inv; auto].
    destruct (Z.gtb_spec (nOpCount s + 1) MAX_SCRIPT_OPCODES); cbn [xsat].
    - apply CK; lia.
    - unfold inv. cbn [stack altstack nOpCount pbegincodehash]. lia. }
  intros s1 (J1 & J2 & J3).
  eapply xsat_bind with (P' := grow o s1).
  { destruct (sop_opcode o <=? OP_PUSHDATA4).
    - destruct (sop_data o) as [d|]; [|exact I].
      destruct (lenZ d >? MAX_SCRIPT_ELEMENT_SIZE); cbn [xsat]; [apply CK; lia|].
      destruct (check_exec (vfExec s)); cbn [xsat]; unfold grow, set_stack, push; cbn [stack altstack nOpCount pbegincodehash];
        rewrite ?len_app, ?len_cons, ?len_nil; lia.
    - destruct (check_exec (vfExec s) || _).
      + eapply xsat_mono; [| |apply exec_bound]; [auto|].
        intros c (C1 & C2 & C3 & C4 & C5 & C6 & C7). unfold cap_ok_here, cap_ok.
        unfold MAX_STACK_ITEMS, MAX_SCRIPT_OPCODES, MAX_SCRIPT_SIZE in *. lia.
      + cbn [xsat]. unfold grow. lia. }
  intros s' (G1 & G2 & G3).
  destruct (Z.gtb_spec (len (stack s') + len (altstack s')) MAX_STACK_ITEMS); cbn [xsat].
  - apply CK; lia.
  - unfold inv. lia.
Qed.

Lemma run_bound ops : forall s lo, inv lo s -> idx_ok lo (lenZ scriptIn) ops ->
  xsat (fun s' => len (stack s') + len (altstack s') <= MAX_STACK_ITEMS) cap_ok_here
       (run_ops_st checksig ripemd160 sha1 sha256 fl scriptIn s ops).
Proof.
  induction ops as [|o r IH]; intros s lo Hi Hx; cbn [run_ops_st xsat].
  - apply Hi.
  - destruct Hx as [Hx1 Hx2]. eapply xsat_bind; [eapply step_bound; eassumption|].
    intros s' Hi'. eapply IH; eassumption.
Qed.
End Script.

(* EvalScript: with at most 1000 items on the initial stack, every error state captured by
   err_raiser is within the limits, and a normal return leaves at most 1000 items *)
Theorem eval_script_st_bounds st scriptIn : len st <= 1000 ->
  match eval_script_st checksig ripemd160 sha1 sha256 fl st scriptIn with
  | XOk st' => len st' <= 1000
  | XFail c => cap_ok c /\ c_len c = lenZ scriptIn
  | XErr _ => True
  end.
Proof.
  intros L. unfold eval_script_st, eval_script_raw_st.
  destruct (Z.gtb_spec (lenZ scriptIn) MAX_SCRIPT_SIZE) as [|Sz]; [exact I|].
  destruct (raw_iter scriptIn) as [ops err] eqn:R. apply raw_iter_idx_ok in R.
  pose proof (run_bound scriptIn Sz ops {| stack := st; altstack := []; vfExec := []; pbegincodehash := 0; nOpCount := 0 |} 0) as B.
  destruct (run_ops_st checksig ripemd160 sha1 sha256 fl scriptIn _ ops) as [s'|c|e] eqn:E; cbn [xbind].
  - cbn [xsat] in B. destruct err as [e|]; [destruct (is_script_err e); exact I|].
    destruct (negb (len (vfExec s') =? 0)); cbn [is_script_err]; [exact I|].
    assert (len (stack s') + len (altstack s') <= MAX_STACK_ITEMS).
    { apply B; [|exact R]. unfold inv. cbn [stack altstack nOpCount pbegincodehash]. rewrite len_nil.
      unfold MAX_STACK_ITEMS, MAX_SCRIPT_OPCODES. lia. }
    pose proof (len_nonneg (altstack s')). unfold MAX_STACK_ITEMS in *. lia.
  - cbn [xsat] in B. apply B; [|exact R]. unfold inv. cbn [stack altstack nOpCount pbegincodehash]. rewrite len_nil.
    unfold MAX_STACK_ITEMS, MAX_SCRIPT_OPCODES. lia.
  - destruct (is_script_err e); exact I.
Qed.

Lemma eval_xsat st scriptIn : len st <= 1000 ->
  xsat (fun st' => len st' <= 1000) cap_ok (eval_script_st checksig ripemd160 sha1 sha256 fl st scriptIn).
Proof.
  intros L. pose proof (eval_script_st_bounds st scriptIn L) as B.
  destruct (eval_script_st checksig ripemd160 sha1 sha256 fl st scriptIn); cbn [xsat]; [exact B|apply B|exact I].
Qed.

(* VerifyScript: whichever of its (up to) three evaluations raises – scriptSig on the empty
   stack, scriptPubKey on the stack scriptSig left, the P2SH redeem script on the copy of that
   stack minus its top – the captured state is within the limits *)
Theorem verify_script_st_bounds scriptSig scriptPubKey :
  match verify_script_st checksig ripemd160 sha1 sha256 fl scriptSig scriptPubKey with
  | XFail c => cap_ok c
  | _ => True
  end.
Proof.
  assert (X : xsat (fun _ => True) cap_ok (verify_script_st checksig ripemd160 sha1 sha256 fl scriptSig scriptPubKey)).
  { unfold verify_script_st. cbv zeta.
    eapply xsat_bind; [apply eval_xsat; rewrite len_nil; lia|]. intros stack1 L1. cbv beta in L1 |- *.
    eapply xsat_bind; [apply eval_xsat; exact L1|]. intros stack2 L2. cbv beta.
    apply xsat_lift; intros _ _. apply xsat_lift; intros top _. apply xsat_lift; intros _ _.
    apply xsat_lift; intros p2sh _.
    eapply xsat_bind with (P' := fun _ => True); [|intros stack3 _; apply xsat_lift0; auto].
    destruct p2sh; [|exact I].
    apply xsat_lift; intros po _. apply xsat_lift; intros _ _. apply xsat_lift; intros _ _.
    apply xsat_lift; intros pr Hp. apply py_pop_len in Hp.
    eapply xsat_bind; [apply eval_xsat; lia|]. intros st' _. cbv beta.
    apply xsat_lift; intros _ _. apply xsat_lift; intros top' _. apply xsat_lift; intros _ _. exact I. }
  destruct (verify_script_st checksig ripemd160 sha1 sha256 fl scriptSig scriptPubKey); [exact I|exact X|exact I].
Qed.
End Loop.

(* the erasure theorems in the form "same outcomes" *)
Corollary eval_script_st_ok_iff cs r s1 s2 fl st script st' :
  eval_script_st cs r s1 s2 fl st script = XOk st' <-> eval_script cs r s1 s2 fl st script = Ok st'.
Proof.
  rewrite <- eval_script_st_erase. destruct (eval_script_st cs r s1 s2 fl st script); cbn [erase]; split; congruence.
Qed.
Corollary eval_script_st_fail_iff cs r s1 s2 fl st script :
  (exists c, eval_script_st cs r s1 s2 fl st script = XFail c) \/ eval_script_st cs r s1 s2 fl st script = XErr EvalErr
  <-> eval_script cs r s1 s2 fl st script = Err EvalErr.
Proof.
  rewrite <- eval_script_st_erase. destruct (eval_script_st cs r s1 s2 fl st script) as [a|c|e]; cbn [erase]; split.
  - intros [[c E]|E]; discriminate.
  - discriminate.
  - reflexivity.
  - intros _. left. eauto.
  - intros [[c E]|E]; [discriminate|congruence].
  - intros E. right. congruence.
Qed.

(* ------------------------------------------------------------------ the statements of Props/C07.v *)
Theorem error_state_bounds : forall checksig ripemd160 sha1 sha256 fl (script : bytes) (st : list bytes),
  len st <= 1000 ->
  match eval_script_st checksig ripemd160 sha1 sha256 fl st script with
  | XOk st' => eval_script checksig ripemd160 sha1 sha256 fl st script = Ok st' /\ len st' <= 1000
  | XFail c => eval_script checksig ripemd160 sha1 sha256 fl st script = Err EvalErr /\
               0 <= c_stack c /\ 0 <= c_alt c /\ c_stack c + c_alt c <= 1000 + 3 /\
               0 <= c_nop c <= 201 + 20 /\
               0 <= c_pb c <= c_pc c /\ c_pc c < c_len c /\ c_len c = lenZ script /\ lenZ script <= 10000
  | XErr e => eval_script checksig ripemd160 sha1 sha256 fl st script = Err e
  end.
Proof.
  intros cs r s1 s2 fl script st L.
  pose proof (eval_script_st_bounds cs r s1 s2 fl st script L) as B.
  pose proof (eval_script_st_erase cs r s1 s2 fl st script) as E.
  destruct (eval_script_st cs r s1 s2 fl st script) as [st'|c|e]; cbn [erase] in E.
  - split; [now symmetry|exact B].
  - destruct B as [(B1 & B2 & B3 & B4 & B5 & B6 & B7) B8]. split; [now symmetry|]. repeat split; try tauto; lia.
  - now symmetry.
Qed.

Theorem verify_error_state_bounds : forall checksig ripemd160 sha1 sha256 fl (scriptSig scriptPubKey : bytes),
  match verify_script_st checksig ripemd160 sha1 sha256 fl scriptSig scriptPubKey with
  | XOk _ => verify_script checksig ripemd160 sha1 sha256 fl scriptSig scriptPubKey = Ok tt
  | XFail c => verify_script checksig ripemd160 sha1 sha256 fl scriptSig scriptPubKey = Err EvalErr /\
               0 <= c_stack c /\ 0 <= c_alt c /\ c_stack c + c_alt c <= 1000 + 3 /\
               0 <= c_nop c <= 201 + 20 /\
               0 <= c_pb c <= c_pc c /\ c_pc c < c_len c /\ c_len c <= 10000
  | XErr e => verify_script checksig ripemd160 sha1 sha256 fl scriptSig scriptPubKey = Err e
  end.
Proof.
  intros cs r s1 s2 fl a b.
  pose proof (verify_script_st_bounds cs r s1 s2 fl a b) as B.
  pose proof (verify_script_st_erase cs r s1 s2 fl a b) as E.
  destruct (verify_script_st cs r s1 s2 fl a b) as [[]|c|e]; cbn [erase] in E; [now symmetry| |now symmetry].
  split; [now symmetry|exact B].
Qed.
