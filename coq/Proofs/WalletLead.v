(* Proofs/WalletLead.v – C12: the first character of a Base58 string is determined by the
   first byte and the length of the encoded byte string.

   [lead_digit]   in any base b >= 2: d1 * b^m <= n < (d2 + 1) * b^m (1 <= d1 <= d2 < b)
                  implies that the most significant digit of n lies in d1..d2;
   [first_chars_sound]  a 25-byte string (version byte, 20-byte payload, 4 checksum bytes)
                  whose first byte is v encodes to a Base58 string whose first character is
                  one of [first_chars v] – a list computed from v alone, e.g. '1' for 0,
                  '3' for 5, 'm'/'n' for 111, '2' for 196;
   [no_bech32_prefix]   hence such a string never starts (in either case) with the first
                  character of a human-readable part for which [hrp_disjoint] computes true.
   Used to show that a Base58Check address is never a Bech32 string of any chain, and
   that a Bech32 address is never a Base58Check address. *)
From BV Require Import Common.Base Spec.Base58 Proofs.Base58Digits Proofs.Base58Spec.
From BV Require Spec.Bech32.

(* ---------- leading digit in base b ---------- *)
Section Lead.
Variable b : Z.
Hypothesis Hb : 2 <= b.

Lemma last_cons_ne (x : Z) l : l <> [] -> last (x :: l) 0 = last l 0.
Proof. destruct l; [congruence|reflexivity]. Qed.

Lemma lead_digit_lsb (m : nat) : forall fuel n d1 d2,
  1 <= d1 -> d2 < b -> d1 * b ^ Z.of_nat m <= n -> n < (d2 + 1) * b ^ Z.of_nat m ->
  n < 2 ^ Z.of_nat fuel ->
  d1 <= last (to_lsb b fuel n) 0 <= d2.
Proof.
  induction m as [|m IH]; intros fuel n d1 d2 H1 H2 Lo Hi Hf.
  - change (b ^ Z.of_nat 0) with 1 in *.
    destruct fuel as [|f]; [change (2 ^ Z.of_nat 0) with 1 in Hf; lia|].
    cbn [to_lsb]. destruct (Z.leb_spec n 0); [lia|].
    rewrite Z.mod_small by lia. rewrite Z.div_small by lia.
    rewrite (to_lsb_zero b f 0) by lia. cbn [last]. lia.
  - rewrite Nat2Z.inj_succ, Z.pow_succ_r in Lo, Hi by lia.
    assert (Pm : 0 < b ^ Z.of_nat m) by (apply Z.pow_pos_nonneg; lia).
    destruct fuel as [|f]; [change (2 ^ Z.of_nat 0) with 1 in Hf; nia|].
    cbn [to_lsb]. destruct (Z.leb_spec n 0); [nia|].
    assert (Lo' : d1 * b ^ Z.of_nat m <= n / b) by (apply Z.div_le_lower_bound; nia).
    assert (Hi' : n / b < (d2 + 1) * b ^ Z.of_nat m) by (apply Z.div_lt_upper_bound; nia).
    assert (Hf' : n / b < 2 ^ Z.of_nat f).
    { rewrite Nat2Z.inj_succ, Z.pow_succ_r in Hf by lia.
      apply Z.div_lt_upper_bound; [lia|].
      assert (0 < 2 ^ Z.of_nat f) by (apply Z.pow_pos_nonneg; lia). nia. }
    assert (P : 0 < n / b) by nia.
    destruct (to_lsb_last b Hb f (n / b) P Hf') as [NE _].
    rewrite last_cons_ne by exact NE.
    apply (IH f (n / b) d1 d2); assumption.
Qed.

Lemma hd_rev (l : list Z) : hd 0 (rev l) = last l 0.
Proof.
  destruct l as [|x t] using rev_ind; [reflexivity|].
  rewrite rev_app_distr, last_last. reflexivity.
Qed.

Theorem lead_digit (m : nat) n d1 d2 :
  1 <= d1 -> d2 < b -> d1 * b ^ Z.of_nat m <= n -> n < (d2 + 1) * b ^ Z.of_nat m ->
  d1 <= hd 0 (digits_msb b n) <= d2 /\ digits_msb b n <> [].
Proof.
  intros H1 H2 Lo Hi.
  assert (Pm : 0 < b ^ Z.of_nat m) by (apply Z.pow_pos_nonneg; lia).
  assert (Pn : 0 < n) by nia.
  unfold digits_msb. rewrite hd_rev. split.
  - apply (lead_digit_lsb m); try assumption. apply fuel_ok. lia.
  - intros E. apply (f_equal (@rev Z)) in E. rewrite rev_involutive in E. cbn [rev] in E.
    destruct (to_lsb_last b Hb (fuel_of n) n Pn (fuel_ok n ltac:(lia))) as [NE _]. contradiction.
Qed.

(* value of a numeral split at its first digit *)
Lemma fold_value_shift ds : forall acc,
  fold_left (fun a d => a * b + d) ds acc =
  acc * b ^ Z.of_nat (length ds) + fold_left (fun a d => a * b + d) ds 0.
Proof.
  induction ds as [|d t IH]; intros acc.
  - cbn [fold_left length]. change (b ^ Z.of_nat 0) with 1. lia.
  - cbn [fold_left length]. rewrite IH, (IH (0 * b + d)).
    rewrite Nat2Z.inj_succ, Z.pow_succ_r by lia. lia.
Qed.
Lemma value_msb_cons d t : value_msb b (d :: t) = d * b ^ Z.of_nat (length t) + value_msb b t.
Proof. unfold value_msb. cbn [fold_left]. rewrite fold_value_shift. lia. Qed.
Lemma value_msb_bound ds : in_range b ds -> 0 <= value_msb b ds < b ^ Z.of_nat (length ds).
Proof.
  induction ds as [|d t IH]; intros R.
  - cbn. lia.
  - inversion R as [|? ? Hd Ht]; subst. specialize (IH Ht).
    rewrite value_msb_cons. cbn [length]. rewrite Nat2Z.inj_succ, Z.pow_succ_r by lia. nia.
Qed.
End Lead.

(* ---------- first character of a Base58 string ---------- *)
Definition zseq (a b : Z) : list Z := map (fun i => a + Z.of_nat i) (seq 0 (Z.to_nat (b - a + 1))).
Lemma zseq_in a b d : a <= d <= b -> In d (zseq a b).
Proof.
  intros H. unfold zseq. apply in_map_iff. exists (Z.to_nat (d - a)). split; [lia|].
  apply in_seq. lia.
Qed.

(* n = number of bytes after the first one *)
Definition lead_ok (n : nat) (v : Z) (m : nat) (d1 d2 : Z) : bool :=
  (1 <=? d1) && (d1 <=? d2) && (d2 <? 58) &&
  (d1 * 58 ^ Z.of_nat m <=? v * 256 ^ Z.of_nat n) &&
  ((v + 1) * 256 ^ Z.of_nat n <=? (d2 + 1) * 58 ^ Z.of_nat m).

(* the possible first characters of the Base58 form of v :: <n more bytes>; None when the
   range of values does not fit one digit position (does not happen for the chains) *)
Definition first_chars_n (n : nat) (v : Z) : option (list Z) :=
  if v =? 0 then Some [chr58 0] else
  let lo := digits_msb 58 (v * 256 ^ Z.of_nat n) in
  let hi := digits_msb 58 ((v + 1) * 256 ^ Z.of_nat n - 1) in
  match lo, hi with
  | d1 :: _, d2 :: _ =>
      if (length lo =? length hi)%nat && lead_ok n v (length lo - 1) d1 d2
      then Some (map chr58 (zseq d1 d2)) else None
  | _, _ => None
  end.
Definition first_chars : Z -> option (list Z) := first_chars_n 24.

Lemma be_value_cons c t : be_value (c :: t) = b2z c * 256 ^ Z.of_nat (length t) + be_value t.
Proof. unfold be_value. cbn [map]. rewrite value_msb_cons by lia. rewrite map_length. reflexivity. Qed.
Lemma be_value_bound t : 0 <= be_value t < 256 ^ Z.of_nat (length t).
Proof.
  unfold be_value. rewrite <- (map_length b2z t). apply value_msb_bound; [lia|]. apply bytes_in_range.
Qed.

Theorem first_chars_sound n v cs t : 0 <= v < 256 -> length t = n -> first_chars_n n v = Some cs ->
  In (hd 0 (spec_encode (z2b v :: t))) cs /\ spec_encode (z2b v :: t) <> [].
Proof.
  intros Rv Lt F. unfold first_chars_n in F. unfold spec_encode.
  destruct (Z.eqb_spec v 0) as [->|NZ].
  - injection F as <-. change (z2b 0) with x00. cbn [count_lead is_zero_byte].
    change (b2z x00 =? 0) with true. cbv iota. cbn [repeat app hd]. split; [left; reflexivity|discriminate].
  - set (lo := digits_msb 58 (v * 256 ^ Z.of_nat n)) in *.
    set (hi := digits_msb 58 ((v + 1) * 256 ^ Z.of_nat n - 1)) in *.
    destruct lo as [|d1 lo'] eqn:Elo; [discriminate|]. destruct hi as [|d2 hi'] eqn:Ehi; [discriminate|].
    destruct ((length (d1 :: lo') =? length (d2 :: hi'))%nat && lead_ok n v (length (d1 :: lo') - 1) d1 d2) eqn:C;
      [|discriminate].
    injection F as <-. apply andb_true_iff in C as [_ C]. unfold lead_ok in C.
    set (m := (length (d1 :: lo') - 1)%nat) in *.
    repeat rewrite andb_true_iff in C. destruct C as ((((A1 & A2) & A3) & A4) & A5).
    apply Z.leb_le in A1, A2, A4, A5. apply Z.ltb_lt in A3.
    assert (NZb : is_zero_byte (z2b v) = false).
    { unfold is_zero_byte. rewrite b2z_z2b, Z.mod_small by lia. apply Z.eqb_neq, NZ. }
    cbn [count_lead]. rewrite NZb. cbn [repeat app].
    pose proof (be_value_bound t) as Bt. rewrite Lt in Bt.
    assert (V : be_value (z2b v :: t) = v * 256 ^ Z.of_nat n + be_value t).
    { rewrite be_value_cons, b2z_z2b, Z.mod_small, Lt by lia. reflexivity. }
    destruct (lead_digit 58 ltac:(lia) m (be_value (z2b v :: t)) d1 d2) as [R NE]; try lia.
    destruct (digits_msb 58 (be_value (z2b v :: t))) as [|d ds] eqn:Ed; [congruence|].
    cbn [map hd] in *. split; [|discriminate]. apply in_map, zseq_in, R.
Qed.

(* ---------- disjointness from Bech32 prefixes ---------- *)
(* no possible first character equals, after lower-casing, the first character of hrp *)
Definition hrp_disjoint (v : Z) (hrp : list Z) : bool :=
  match first_chars v, hrp with
  | Some cs, h0 :: _ => forallb (fun c => negb (Spec.Bech32.to_lower c =? h0)) cs
  | _, _ => false
  end.

Theorem no_bech32_prefix v hrp t rest : 0 <= v < 256 -> length t = 24%nat -> hrp_disjoint v hrp = true ->
  Spec.Bech32.lower_s (spec_encode (z2b v :: t)) <> hrp ++ rest.
Proof.
  intros Rv Lt D E. unfold hrp_disjoint in D.
  destruct (first_chars v) as [cs|] eqn:F; [|discriminate]. destruct hrp as [|h0 hrp']; [discriminate|].
  destruct (first_chars_sound 24 v cs t Rv Lt F) as [I NE].
  destruct (spec_encode (z2b v :: t)) as [|c s']; [congruence|].
  cbn [hd] in I. cbn [Spec.Bech32.lower_s map app] in E. injection E as E0 _.
  rewrite forallb_forall in D. specialize (D c I). rewrite E0, Z.eqb_refl in D. discriminate.
Qed.
