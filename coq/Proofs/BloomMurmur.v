(* Proofs/BloomMurmur.v – C20 (1): the Python MurmurHash3 (unbounded integers, masks where
   the code masks, index loop, tail by length mod 4, un-masked finalisation) equals the
   uint32 reference MurmurHash3 x86_32 for EVERY seed in [0, 2^32) and EVERY byte string. *)
From BV Require Import Common.Base Gen.Bloom Model.Bloom Spec.Bloom Proofs.BloomBits.

(* ---------- lists, four bytes at a time ---------- *)
Lemma list_ind4 (P : list byte -> Prop) :
  (forall l, (length l < 4)%nat -> P l) ->
  (forall a b c d l, P l -> P (a :: b :: c :: d :: l)) -> forall l, P l.
Proof.
  intros Hs Hc l. assert (G : forall n l, (length l <= n)%nat -> P l).
  { induction n as [|n IH]; intros l0 Hl.
    - apply Hs. lia.
    - destruct l0 as [|a [|b [|c [|d t]]]]; try (apply Hs; cbn [length]; lia).
      apply Hc. apply IH. cbn [length] in Hl. lia. }
  apply (G (length l)). lia.
Qed.

Lemma lenZ_app {A} (a b : list A) : lenZ (a ++ b) = lenZ a + lenZ b.
Proof. unfold lenZ. rewrite app_length. lia. Qed.
Lemma lenZ_cons {A} (x : A) l : lenZ (x :: l) = 1 + lenZ l.
Proof. unfold lenZ. cbn [length]. lia. Qed.
Lemma lenZ_nil {A} : lenZ (@nil A) = 0.
Proof. reflexivity. Qed.
Lemma lenZ_nonneg {A} (l : list A) : 0 <= lenZ l.
Proof. unfold lenZ. lia. Qed.
Lemma skipn_length_app {A} (a b : list A) : skipn (length a) (a ++ b) = b.
Proof. induction a; cbn [length skipn app]; auto. Qed.
Lemma to_nat_lenZ {A} (l : list A) : Z.to_nat (lenZ l) = length l.
Proof. unfold lenZ. apply Nat2Z.id. Qed.

Lemma ba_get_app_r pre t k : 0 <= k < lenZ t -> ba_get (pre ++ t) (lenZ pre + k) = ba_get t k.
Proof.
  intros Hk. pose proof (lenZ_nonneg pre) as Hp. unfold ba_get, py_norm. rewrite lenZ_app.
  destruct (Z.ltb_spec (lenZ pre + k) 0); [lia|]. destruct (Z.ltb_spec k 0); [lia|].
  destruct (Z.leb_spec 0 (lenZ pre + k)); [|lia]. destruct (Z.leb_spec 0 k); [|lia].
  destruct (Z.ltb_spec (lenZ pre + k) (lenZ pre + lenZ t)); [|lia].
  destruct (Z.ltb_spec k (lenZ t)); [|lia]. cbn [andb bind].
  rewrite nth_error_app2 by (unfold lenZ in *; lia).
  replace (Z.to_nat (lenZ pre + k) - length pre)%nat with (Z.to_nat k) by (unfold lenZ in *; lia).
  reflexivity.
Qed.
Lemma ba_get_nth t k : (k < length t)%nat -> ba_get t (Z.of_nat k) = Ok (b2z (nth k t x00)).
Proof.
  intros Hk. unfold ba_get, py_norm, lenZ.
  destruct (Z.ltb_spec (Z.of_nat k) 0); [lia|]. destruct (Z.leb_spec 0 (Z.of_nat k)); [|lia].
  destruct (Z.ltb_spec (Z.of_nat k) (Z.of_nat (length t))); [|lia]. cbn [andb bind].
  rewrite Nat2Z.id. rewrite (nth_error_nth' t x00 Hk). reflexivity.
Qed.

(* ---------- the rotation and the two mixing steps ---------- *)
Lemma w32_range x : 0 <= w32 x < 2^32.
Proof. unfold w32. apply Z.mod_pos_bound. lia. Qed.

Lemma ROTL32_ok x r : 0 <= x < 2^32 -> 0 < r < 32 -> ROTL32 x r = Ok (rotl32 x r).
Proof.
  intros Hx Hr. unfold ROTL32, rotl_assert_max, rotl_mask, rotl_width.
  destruct (Z.leb_spec x 4294967295); [|lia]. now rewrite rotl_py.
Qed.

Lemma mixk_rot k r : 0 < r < 32 ->
  ROTL32 (Z.land (k * murmur_c1) murmur_mask) r = Ok (rotl32 (w32 (k * C1)) r).
Proof.
  intros Hr. unfold murmur_c1, murmur_mask. rewrite land_ones32. apply ROTL32_ok; [|exact Hr].
  apply Z.mod_pos_bound. lia.
Qed.
Lemma mixk_fin k : Z.land (rotl32 (w32 (k * C1)) 15 * murmur_c2) murmur_mask = mix_k k.
Proof. unfold murmur_c2, murmur_mask, mix_k. now rewrite land_ones32. Qed.
Lemma mix_k_range k : 0 <= mix_k k < 2^32.
Proof. apply w32_range. Qed.
Lemma mix_h_range h k : 0 <= mix_h h k < 2^32.
Proof. apply w32_range. Qed.
Lemma mix_k_0 : mix_k 0 = 0.
Proof. vm_compute. reflexivity. Qed.

(* ---------- the body loop ---------- *)
Lemma ref_blocks_short d h : (length d < 4)%nat -> ref_blocks d h = (h, d).
Proof. intros H. destruct d as [|a [|b [|c [|e t]]]]; try reflexivity. cbn [length] in H. lia. Qed.
Lemma ref_blocks_range d : forall h, 0 <= h < 2^32 -> 0 <= fst (ref_blocks d h) < 2^32.
Proof.
  induction d as [l Hl | a b c e l IH] using list_ind4; intros h Hh.
  - now rewrite ref_blocks_short.
  - cbn [ref_blocks]. apply IH. apply mix_h_range.
Qed.
(* the part consumed by the blocks has a length divisible by 4, the tail has 0..3 bytes *)
Lemma ref_blocks_split d : forall h, exists pre,
  d = pre ++ snd (ref_blocks d h) /\ lenZ pre mod 4 = 0 /\ (length (snd (ref_blocks d h)) < 4)%nat.
Proof.
  induction d as [l Hl | a b c e l IH] using list_ind4; intros h.
  - exists []. rewrite ref_blocks_short by exact Hl. cbn [snd app]. repeat split; assumption.
  - cbn [ref_blocks]. destruct (IH (mix_h h (le_dec [a; b; c; e]))) as (pre & E & M & L).
    exists (a :: b :: c :: e :: pre). repeat split.
    + cbn [app]. now rewrite <- E.
    + rewrite !lenZ_cons. lia.
    + exact L.
Qed.

Lemma body_ok rem : forall pre h fuel,
  lenZ pre mod 4 = 0 -> (length rem < 4 * fuel)%nat -> 0 <= h < 2^32 ->
  murmur_body fuel (pre ++ rem) (lenZ pre) h = Ok (fst (ref_blocks rem h)).
Proof.
  induction rem as [l Hl | a b c e l IH] using list_ind4; intros pre h fuel Hp Hf Hh.
  - destruct fuel as [|f]; [lia|]. cbn [murmur_body]. rewrite lenZ_app.
    assert (E : (lenZ pre + lenZ l - lenZ pre >=? 4) = false).
    { rewrite Z.geb_leb. apply Z.leb_gt. unfold lenZ in *. lia. }
    rewrite E, andb_false_r. now rewrite ref_blocks_short.
  - destruct fuel as [|f]; [lia|]. cbn [murmur_body].
    pose proof (lenZ_nonneg l) as Hn. pose proof (lenZ_nonneg pre) as Hp0.
    assert (EL : lenZ (pre ++ a :: b :: c :: e :: l) = lenZ pre + 4 + lenZ l).
    { rewrite lenZ_app, !lenZ_cons. lia. }
    rewrite EL.
    assert (C1' : (lenZ pre <? lenZ pre + 4 + lenZ l - (lenZ pre + 4 + lenZ l) mod 4) = true).
    { apply Z.ltb_lt. lia. }
    assert (C2' : (lenZ pre + 4 + lenZ l - lenZ pre >=? 4) = true).
    { rewrite Z.geb_leb. apply Z.leb_le. lia. }
    rewrite C1', C2'. cbn [andb].
    assert (S1 : slice (pre ++ a :: b :: c :: e :: l) (lenZ pre) (lenZ pre + 4) = [a; b; c; e]).
    { unfold slice. rewrite to_nat_lenZ, skipn_length_app.
      replace (lenZ pre + 4 - lenZ pre) with 4 by lia. reflexivity. }
    rewrite S1. unfold unpack_block, murmur_block_bytes.
    change (lenZ [a; b; c; e] =? 4) with true. cbn [bind].
    rewrite (mixk_rot _ murmur_rot_k_body) by (unfold murmur_rot_k_body; lia). cbn [bind].
    unfold murmur_rot_k_body. rewrite mixk_fin.
    rewrite ROTL32_ok.
    2:{ apply lxor_range; [lia|exact Hh|apply mix_k_range]. }
    2:{ unfold murmur_rot_h_body. lia. }
    cbn [bind].
    assert (EH : Z.land (Z.land (rotl32 (Z.lxor h (mix_k (le_dec [a; b; c; e]))) murmur_rot_h_body * murmur_h_mult)
                         murmur_mask + murmur_h_add) murmur_mask = mix_h h (le_dec [a; b; c; e])).
    { unfold murmur_rot_h_body, murmur_h_mult, murmur_mask, murmur_h_add, mix_h, w32.
      now rewrite !land_ones32. }
    rewrite EH.
    change (a :: b :: c :: e :: l) with ([a; b; c; e] ++ l). rewrite app_assoc.
    replace (lenZ pre + 4) with (lenZ (pre ++ [a; b; c; e])) by (rewrite lenZ_app; reflexivity).
    rewrite IH.
    + reflexivity.
    + rewrite lenZ_app. change (lenZ [a; b; c; e]) with 4. lia.
    + cbn [length] in Hf. lia.
    + apply mix_h_range.
Qed.

(* ---------- the tail ---------- *)
Lemma land3 x : Z.land x 3 = x mod 4.
Proof. change 3 with (Z.ones 2). rewrite Z.land_ones by lia. reflexivity. Qed.

Lemma tail_ok pre tail : lenZ pre mod 4 = 0 -> (length tail < 4)%nat ->
  murmur_tail (pre ++ tail) = Ok (le_dec tail).
Proof.
  intros Hp Ht. pose proof (lenZ_nonneg pre) as Hp0.
  unfold murmur_tail. rewrite land3, lenZ_app.
  assert (J : (lenZ pre + lenZ tail) / 4 * 4 = lenZ pre).
  { assert (0 <= lenZ tail < 4) by (unfold lenZ; lia). lia. }
  rewrite J.
  assert (K : (lenZ pre + lenZ tail) mod 4 = lenZ tail).
  { assert (0 <= lenZ tail < 4) by (unfold lenZ; lia). lia. }
  rewrite K. clear J K.
  destruct tail as [|a [|b [|c [|e t]]]]; [| | | |cbn [length] in Ht; lia].
  - reflexivity.
  - change (lenZ [a]) with 1.
    change (1 >=? 3) with false. change (1 >=? 2) with false. change (1 >=? 1) with true.
    cbn [bind]. replace (lenZ pre) with (lenZ pre + 0) at 1 by lia.
    rewrite ba_get_app_r by (change (lenZ [a]) with 1; lia).
    change (ba_get [a] 0) with (Ok (b2z a)). cbn [bind le_dec].
    rewrite Z.lxor_0_l. f_equal. lia.
  - change (lenZ [a; b]) with 2.
    change (2 >=? 3) with false. change (2 >=? 2) with true. change (2 >=? 1) with true.
    cbn [bind]. rewrite ba_get_app_r by (change (lenZ [a; b]) with 2; lia).
    change (ba_get [a; b] 1) with (Ok (b2z b)). cbn [bind].
    replace (lenZ pre) with (lenZ pre + 0) at 1 by lia.
    rewrite ba_get_app_r by (change (lenZ [a; b]) with 2; lia).
    change (ba_get [a; b] 0) with (Ok (b2z a)). cbn [bind le_dec].
    f_equal. unfold murmur_tail_shift1. rewrite Z.lxor_0_l, Z.shiftl_mul_pow2 by lia.
    pose proof (b2z_range a). rewrite lxor_disjoint_add by lia. change (2^8) with 256. lia.
  - change (lenZ [a; b; c]) with 3.
    change (3 >=? 3) with true. change (3 >=? 2) with true. change (3 >=? 1) with true.
    cbn [bind]. rewrite ba_get_app_r by (change (lenZ [a; b; c]) with 3; lia).
    change (ba_get [a; b; c] 2) with (Ok (b2z c)). cbn [bind].
    rewrite ba_get_app_r by (change (lenZ [a; b; c]) with 3; lia).
    change (ba_get [a; b; c] 1) with (Ok (b2z b)). cbn [bind].
    replace (lenZ pre) with (lenZ pre + 0) at 1 by lia.
    rewrite ba_get_app_r by (change (lenZ [a; b; c]) with 3; lia).
    change (ba_get [a; b; c] 0) with (Ok (b2z a)). cbn [bind le_dec].
    f_equal. unfold murmur_tail_shift1, murmur_tail_shift2.
    rewrite Z.lxor_0_l, !Z.shiftl_mul_pow2 by lia.
    pose proof (b2z_range a). pose proof (b2z_range b). pose proof (b2z_range c).
    rewrite (lxor_disjoint_add (b2z c) (b2z b * 2^8) 16).
    2: lia. 2:{ change (2^8) with 256. change (2^16) with 65536. lia. }
    replace (b2z c * 2^16 + b2z b * 2^8) with ((b2z c * 2^8 + b2z b) * 2^8)
      by (change (2^16) with (2^8 * 2^8); lia).
    rewrite lxor_disjoint_add by lia. change (2^8) with 256. lia.
Qed.

(* ---------- finalisation ---------- *)
Lemma fmix_model a : 0 <= a < 2^32 ->
  Z.land
    (Z.lxor
       (Z.lxor (Z.lxor a (Z.shiftr (Z.land a 4294967295) 16) * 2246822507)
          (Z.shiftr (Z.land (Z.lxor a (Z.shiftr (Z.land a 4294967295) 16) * 2246822507) 4294967295) 13)
        * 3266489909)
       (Z.shiftr
          (Z.land
             (Z.lxor (Z.lxor a (Z.shiftr (Z.land a 4294967295) 16) * 2246822507)
                (Z.shiftr (Z.land (Z.lxor a (Z.shiftr (Z.land a 4294967295) 16) * 2246822507) 4294967295) 13)
              * 3266489909) 4294967295) 16)) 4294967295
  = fmix32 a.
Proof.
  intros Ha. rewrite (land_ones32 (Z.lxor _ _)). rewrite fmix_step_mod by lia.
  set (Y := Z.lxor a (Z.shiftr (Z.land a 4294967295) 16)).
  set (X := Z.lxor (Y * 2246822507) (Z.shiftr (Z.land (Y * 2246822507) 4294967295) 13)).
  assert (EY : Y mod 2^32 = Z.lxor a (a / 2^16)).
  { unfold Y. rewrite fmix_step_mod by lia. now rewrite Z.mod_small by lia. }
  assert (EX : X mod 2^32 = Z.lxor (w32 (Z.lxor a (a / 2^16) * 2246822507))
                                   (w32 (Z.lxor a (a / 2^16) * 2246822507) / 2^13)).
  { unfold X. rewrite fmix_step_mod by lia. unfold w32.
    rewrite <- (Z.mul_mod_idemp_l Y) by lia. now rewrite EY. }
  assert (E4 : (X * 3266489909) mod 2^32 = w32 ((X mod 2^32) * 3266489909)).
  { unfold w32. now rewrite Z.mul_mod_idemp_l by lia. }
  rewrite E4, EX. reflexivity.
Qed.

(* ---------- the theorem ---------- *)
Theorem murmur_model_eq_ref seed d : 0 <= seed < 2^32 -> MurmurHash3 seed d = Ok (murmur_ref seed d).
Proof.
  intros Hs. unfold MurmurHash3, murmur_seed_max. destruct (Z.leb_spec seed 4294967295); [|lia].
  pose proof (body_ok d [] seed (S (length d))) as B. cbn [app] in B. change (lenZ (@nil byte)) with 0 in B.
  rewrite B by (try reflexivity; lia). clear B. cbn [bind].
  destruct (ref_blocks_split d seed) as (pre & E & M & L).
  pose proof (ref_blocks_range d seed Hs) as R.
  unfold murmur_ref. destruct (ref_blocks d seed) as [h tail] eqn:RB. cbn [fst snd] in *.
  rewrite E at 1. rewrite tail_ok by assumption. cbn [bind].
  assert (TR : 0 <= le_dec tail < 2^32).
  { pose proof (le_dec_range tail) as T. split; [lia|]. eapply Z.lt_le_trans; [apply T|].
    change 256 with (2^8). rewrite <- Z.pow_mul_r by lia. apply Z.pow_le_mono_r; lia. }
  assert (EM : Z.land (le_dec tail) murmur_mask = le_dec tail).
  { unfold murmur_mask. rewrite land_ones32. apply Z.mod_small. exact TR. }
  rewrite EM.
  rewrite (mixk_rot _ murmur_rot_k_tail) by (unfold murmur_rot_k_tail; lia). cbn [bind].
  unfold murmur_rot_k_tail. rewrite mixk_fin.
  assert (ET : Z.lxor h (mix_k (le_dec tail)) = ref_tail h tail).
  { unfold ref_tail. destruct tail; [|reflexivity]. cbn [le_dec]. now rewrite mix_k_0, Z.lxor_0_r. }
  rewrite ET.
  assert (TRange : 0 <= ref_tail h tail < 2^32).
  { rewrite <- ET. apply lxor_range; [lia|exact R|apply mix_k_range]. }
  f_equal.
  unfold murmur_fmix_shift1, murmur_fmix_shift2, murmur_fmix_shift3, murmur_fmix_mul1, murmur_fmix_mul2.
  replace (Z.land (lenZ d) murmur_mask) with (w32 (lenZ d)) by (unfold murmur_mask, w32; now rewrite land_ones32).
  unfold murmur_mask. apply fmix_model.
  apply lxor_range; [lia|exact TRange|apply w32_range].
Qed.
