(* Proofs/Wire.v – C01: every wire codec of Model/Wire.v is lawful (round trip with exact
   consumption, truncation, error kinds), encodes exactly the SPEC byte strings, and the
   SPEC range predicates imply the codecs' well-formedness. *)
From BV Require Import Common.Base Common.Codec Common.Tx Gen.Core Gen.Layouts Spec.Wire Model.Wire.

Lemma max_size_ok : 0 <= MAX_SIZE < 2^64.
Proof. vm_compute. split; congruence. Qed.

(* ---- lawfulness by composition (fails to type-check if a regenerated format differs) ---- *)
Lemma bytes_lawful : lawful bytes_c.
Proof. apply varbytes_lawful. exact max_size_ok. Qed.
Lemma outpoint_lawful : lawful outpoint_c.
Proof. apply map_iso_lawful, seq_lawful; [apply raw_lawful; lia | apply (field_lawful U32); simpl; lia]. Qed.
Lemma txin_lawful : lawful txin_c.
Proof.
  apply map_iso_lawful, seq_lawful; [exact outpoint_lawful|].
  apply seq_lawful; [exact bytes_lawful | apply (field_lawful U32); simpl; lia].
Qed.
Lemma txout_lawful : lawful txout_c.
Proof. apply map_iso_lawful, seq_lawful; [apply (field_lawful I64); simpl; lia | exact bytes_lawful]. Qed.
Lemma stack_lawful : lawful stack_c.
Proof. apply vector_lawful, bytes_lawful. Qed.
Lemma body_w_lawful : lawful body_w_c.
Proof.
  apply seq_lawful; [|apply (field_lawful U32); simpl; lia].
  apply dep_rep_lawful; [|exact stack_lawful].
  apply seq_lawful; apply vector_lawful; [exact txin_lawful | exact txout_lawful].
Qed.
Lemma body_n_lawful : lawful body_n_c.
Proof.
  apply seq_lawful; [apply vector_lawful, txin_lawful|].
  apply seq_lawful; [apply vector_lawful, txout_lawful | apply (field_lawful U32); simpl; lia].
Qed.
Lemma tx_lawful : lawful tx_c.
Proof.
  apply map_iso_lawful, seq_lawful; [apply (field_lawful I32); simpl; lia|].
  apply peek2_lawful; [exact body_w_lawful | exact body_n_lawful].
Qed.
Lemma header_lawful : lawful header_c.
Proof.
  apply map_iso_lawful. apply seq_lawful; [apply (field_lawful I32); simpl; lia|].
  apply seq_lawful; [apply raw_lawful; lia|]. apply seq_lawful; [apply raw_lawful; lia|].
  apply seq_lawful; [apply (field_lawful U32); simpl; lia|].
  apply seq_lawful; apply (field_lawful U32); simpl; lia.
Qed.
Lemma block_lawful : lawful block_c.
Proof. apply map_iso_lawful, seq_lawful; [exact header_lawful | apply vector_lawful, tx_lawful]. Qed.

(* ---- the encoders produce exactly the SPEC byte strings ---- *)
Lemma cs_eq n : varint_enc n = cs n.
Proof. reflexivity. Qed.
Lemma i_eq n v : le_enc_signed n v = i n v.
Proof.
  unfold le_enc_signed, i. destruct (Z.ltb_spec v 0); [|now rewrite le_enc_mod].
  rewrite <- (le_enc_mod n (v + _)). f_equal.
  rewrite <- (Z.mul_1_l (256 ^ Z.of_nat n)) at 1. now rewrite Z_mod_plus_full.
Qed.
Lemma enc_bytes x : enc bytes_c x = vb x.
Proof. reflexivity. Qed.
Lemma enc_outpoint o : enc outpoint_c o = wire_outpoint o.
Proof. reflexivity. Qed.
Lemma enc_txin x : enc txin_c x = wire_txin x.
Proof. reflexivity. Qed.
Lemma enc_txout o : enc txout_c o = wire_txout o.
Proof. unfold wire_txout. rewrite <- i_eq. reflexivity. Qed.
Lemma rep_enc_ext {A} (c : codec A) f l : (forall a, enc c a = f a) -> rep_enc c l = concat (map f l).
Proof. intros H. unfold rep_enc. f_equal. apply map_ext. exact H. Qed.
Lemma enc_vector {A} (c : codec A) f l : (forall a, enc c a = f a) -> enc (vector c) l = vec f l.
Proof. intros H. unfold vec. cbn [vector enc]. rewrite (rep_enc_ext c f l H). reflexivity. Qed.
Lemma enc_stack s : enc stack_c s = wire_stack s.
Proof. apply enc_vector. exact enc_bytes. Qed.

Lemma enc_tx_stripped t : has_witness t = false -> enc tx_c t = wire_tx_stripped t.
Proof.
  intros H. unfold tx_c, wire_tx_stripped. cbn [map_iso enc seq fst snd]. unfold tx_to_sum. rewrite H.
  cbn [fst snd peek2 enc body_n_c seq]. rewrite (enc_vector txin_c wire_txin _ enc_txin), (enc_vector txout_c wire_txout _ enc_txout).
  change (enc tx_version_c (tx_version t)) with (le_enc_signed 4 (tx_version t)). rewrite i_eq. reflexivity.
Qed.
Lemma enc_tx t : enc tx_c t = wire_tx t.
Proof.
  unfold wire_tx. destruct (has_witness t) eqn:H; [|now apply enc_tx_stripped].
  unfold tx_c. cbn [map_iso enc seq fst snd]. unfold tx_to_sum. rewrite H.
  cbn [fst snd peek2 enc body_w_c seq dep_rep]. rewrite (enc_vector txin_c wire_txin _ enc_txin), (enc_vector txout_c wire_txout _ enc_txout).
  rewrite (rep_enc_ext stack_c wire_stack _ enc_stack).
  change (enc tx_version_c (tx_version t)) with (le_enc_signed 4 (tx_version t)). rewrite i_eq.
  cbn [app]. rewrite <- !app_assoc. reflexivity.
Qed.
Lemma has_witness_set_nil t : has_witness (set_wit t []) = false.
Proof. reflexivity. Qed.
Lemma enc_tx_set_nil t : enc tx_c (set_wit t []) = wire_tx_stripped t.
Proof. rewrite enc_tx_stripped by apply has_witness_set_nil. reflexivity. Qed.
Lemma enc_header h : enc header_c h = wire_header h.
Proof.
  unfold wire_header. cbn [header_c map_iso enc seq fst snd raw].
  change (enc (field _ _) (h_version h)) with (le_enc_signed 4 (h_version h)). rewrite i_eq. reflexivity.
Qed.
Lemma enc_block b : enc block_c b = wire_block b.
Proof.
  unfold wire_block. cbn [block_c map_iso enc seq fst snd]. rewrite enc_header.
  rewrite (enc_vector tx_c wire_tx _ enc_tx). reflexivity.
Qed.
Lemma ser_block_stripped_eq b : ser_block_stripped b = wire_block_stripped b.
Proof.
  unfold ser_block_stripped, wire_block_stripped, vec. rewrite enc_header, cs_eq. do 3 f_equal.
  apply map_ext. exact enc_tx_set_nil.
Qed.

(* ---- SPEC ranges imply codec well-formedness ---- *)
Lemma wf_bytes_c x : wf_bytes MAX_SIZE x -> wf bytes_c x.
Proof. exact (fun H => H). Qed.
Lemma wf_outpoint_c o : wf_outpoint o -> wf outpoint_c o.
Proof. intros [H1 H2]. split; assumption. Qed.
Lemma wf_txin_c x : wf_txin MAX_SIZE x -> wf txin_c x.
Proof. intros (H1 & H2 & H3). split; [now apply wf_outpoint_c|]. split; assumption. Qed.
Lemma wf_txout_c o : wf_txout MAX_SIZE o -> wf txout_c o.
Proof. intros (H1 & H2). split; assumption. Qed.
Lemma wf_stack_c s : wf_stack MAX_SIZE s -> wf stack_c s.
Proof. intros [F L]. split; [|exact L]. eapply Forall_impl; [|exact F]. exact wf_bytes_c. Qed.

Lemma txin_enc_two x : wf_txin MAX_SIZE x -> exists a b tl, enc txin_c x = a :: b :: tl.
Proof.
  intros ((L & _) & _). rewrite enc_txin. unfold wire_txin, wire_outpoint.
  destruct (op_hash (ti_prevout x)) as [|a [|b tl]]; simpl in L; try lia. cbn [app]. eauto.
Qed.
Lemma has_witness_false_iff w : existsb (fun s : list bytes => negb (is_nil s)) w = false <-> Forall (fun s => s = []) w.
Proof.
  induction w as [|s w IH]; [split; [constructor|reflexivity]|]. cbn [existsb]. rewrite orb_false_iff, IH. split.
  - intros [H1 H2]. constructor; [|assumption]. destruct s; [reflexivity|discriminate].
  - intros H. inversion H; subst. split; [reflexivity|assumption].
Qed.

Lemma map_norm_id {A} (c : codec A) l : (forall a, norm c a = a) -> map (norm c) l = l.
Proof. intros H. rewrite <- (map_id l) at 2. apply map_ext. exact H. Qed.
Lemma norm_txin x : norm txin_c x = x.
Proof. destruct x as [[h n] s q]. reflexivity. Qed.
Lemma norm_txout o : norm txout_c o = o.
Proof. destruct o. reflexivity. Qed.
Lemma norm_stack s : norm stack_c s = s.
Proof. cbn [stack_c vector norm]. apply map_norm_id. reflexivity. Qed.

Theorem wf_tx_c t : wf_tx MAX_SIZE t -> wf tx_c t.
Proof.
  intros (Hv & Hne & Fi & Fo & Hl & Li & Lo & Fw & Hw).
  assert (Fi' : Forall (wf txin_c) (tx_vin t)) by (eapply Forall_impl; [|exact Fi]; exact wf_txin_c).
  assert (Fo' : Forall (wf txout_c) (tx_vout t)) by (eapply Forall_impl; [|exact Fo]; exact wf_txout_c).
  assert (Fw' : Forall (wf stack_c) (tx_wit t)) by (eapply Forall_impl; [|exact Fw]; exact wf_stack_c).
  unfold tx_c. cbn [map_iso wf seq]. unfold tx_to_sum. cbn [fst snd]. split; [exact Hv|].
  destruct (has_witness t) eqn:H.
  - cbn [peek2 wf body_w_c seq dep_rep fst snd]. unfold lenZ in *.
    assert (LW : length (tx_wit t) = length (tx_vin t)).
    { destruct Hw as [E|E]; [|exact E]. unfold has_witness in H. rewrite E in H. discriminate. }
    repeat split; try assumption; try apply Hl. cbn [seq norm vector fst]. now rewrite map_length.
  - cbn [peek2 wf body_n_c seq fst snd]. unfold lenZ in *. split; [repeat split; try assumption; apply Hl|].
    cbn [body_n_c enc seq vector fst snd].
    destruct (tx_vin t) as [|x vin] eqn:EV; [congruence|].
    destruct (varint_enc_head (Z.of_nat (length (x :: vin)))) as (h & tl & E & NZ); [simpl length in *; lia|].
    rewrite E. inversion Fi; subst. destruct (txin_enc_two x H2) as (a & b & tl' & E2).
    rewrite rep_enc_cons, E2. destruct tl as [|h2 tl]; cbn [app]; eauto 8.
Qed.
Theorem norm_tx t : norm tx_c t = norm_wit t.
Proof.
  unfold norm_wit, tx_c. cbn [map_iso norm seq]. unfold tx_to_sum. cbn [fst snd].
  destruct (has_witness t) eqn:H; cbn [peek2 norm body_w_c body_n_c seq dep_rep vector fst snd tx_of_sum field].
  - rewrite (map_norm_id txin_c _ norm_txin), (map_norm_id txout_c _ norm_txout), (map_norm_id stack_c _ norm_stack).
    destruct t; reflexivity.
  - rewrite (map_norm_id txin_c _ norm_txin), (map_norm_id txout_c _ norm_txout). reflexivity.
Qed.
Lemma wf_norm_wit t : wf_tx MAX_SIZE t -> wf_tx MAX_SIZE (norm_wit t).
Proof.
  intros H. unfold norm_wit. destruct (has_witness t); [exact H|].
  destruct H as (Hv & Hne & Fi & Fo & Hl & Li & Lo & Fw & Hw).
  unfold wf_tx. cbn [set_wit tx_version tx_vin tx_vout tx_wit tx_lock]. repeat (split; [assumption|]). split; [constructor|left; reflexivity].
Qed.
Lemma wf_norm_wit_nil t : wf_tx MAX_SIZE t -> wf_tx MAX_SIZE (set_wit t []).
Proof.
  intros H. destruct H as (Hv & Hne & Fi & Fo & Hl & Li & Lo & Fw & Hw).
  unfold wf_tx. cbn [set_wit tx_version tx_vin tx_vout tx_wit tx_lock]. repeat (split; [assumption|]). split; [constructor|left; reflexivity].
Qed.
Lemma wire_norm_wit t : wire_tx (norm_wit t) = wire_tx t.
Proof.
  unfold norm_wit. destruct (has_witness t) eqn:H; [reflexivity|].
  unfold wire_tx. rewrite H, has_witness_set_nil. reflexivity.
Qed.

Lemma wf_header_c h : wf_header h -> wf header_c h.
Proof. intros (H1 & H2 & H3 & H4 & H5 & H6). repeat split; try assumption; first [apply H1 | apply H4 | apply H5 | apply H6]. Qed.
Lemma norm_header h : norm header_c h = h.
Proof. destruct h. reflexivity. Qed.
Lemma wf_block_c b : wf_block MAX_SIZE b -> wf block_c b.
Proof.
  intros (H1 & H2 & H3). split; [now apply wf_header_c|]. split; [|exact H3].
  eapply Forall_impl; [|exact H2]. exact wf_tx_c.
Qed.
Definition norm_block (b : block) : block := {| b_hdr := b_hdr b; b_vtx := map norm_wit (b_vtx b) |}.
Lemma norm_block_eq b : norm block_c b = norm_block b.
Proof.
  unfold norm_block. cbn [block_c map_iso norm seq vector fst snd]. rewrite norm_header. f_equal.
  apply map_ext. exact norm_tx.
Qed.
Lemma wire_norm_block b : wire_block (norm_block b) = wire_block b.
Proof.
  unfold wire_block, norm_block, vec, lenZ. cbn [b_hdr b_vtx]. rewrite map_length, map_map. do 3 f_equal.
  apply map_ext. exact wire_norm_wit.
Qed.

(* the marker/flag form is used exactly when some witness stack is non-empty *)
Theorem marker_iff t : wf_tx MAX_SIZE t ->
  (firstn 2 (skipn 4 (wire_tx t)) = [x00; x01] <-> has_witness t = true).
Proof.
  intros W. pose proof (wf_tx_c t W) as C. unfold wire_tx. destruct (has_witness t) eqn:H.
  - split; [reflexivity|intros _]. unfold i. cbn [le_enc app skipn firstn]. reflexivity.
  - split; [|discriminate]. intros E. exfalso.
    unfold tx_c in C. cbn [map_iso wf seq] in C. unfold tx_to_sum in C. rewrite H in C. cbn [fst snd peek2 wf] in C.
    destruct C as (_ & _ & h1 & h2 & tl & E2 & NE).
    assert (E3 : wire_tx_stripped t = i 4 (tx_version t) ++ h1 :: h2 :: tl).
    { rewrite <- E2. unfold wire_tx_stripped. cbn [body_n_c enc seq fst snd].
      rewrite (enc_vector txin_c wire_txin _ enc_txin), (enc_vector txout_c wire_txout _ enc_txout). reflexivity. }
    rewrite E3 in E. unfold i in E. cbn [le_enc app skipn firstn] in E. injection E as -> ->. destruct NE; congruence.
Qed.
