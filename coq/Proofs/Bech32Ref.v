(* Proofs/Bech32Ref.v – C11: the executable reference decoder/encoder of Spec/Bech32.v
   (the oracle of the correspondence run) decides exactly the declarative BIP173
   predicates, and therefore computes the same function as the MODEL:
   * [ref_bech32_decode_iff], [ref_decode_iff], [ref_encode_iff];
   * [decode_is_ref]  decode hrp s = Ok (ref_decode hrp s);
   * [encode_is_ref]  on its domain, encode hrp ver prog = Ok (ref_encode hrp ver prog). *)
From BV Require Import Common.Base Model.Bech32 Spec.Bech32 Proofs.Bech32Poly Proofs.Bech32Bits Proofs.Bech32.

(* ---------- split_last ---------- *)
Lemma split_last_none c l : split_last c l = None <-> ~ In c l.
Proof.
  induction l as [|x l IH]; cbn [split_last]; [split; auto|].
  destruct (split_last c l) as [[a b]|] eqn:E.
  - split; [discriminate|]. intros N. exfalso. assert (~ In c l) by (intros H; apply N; right; exact H).
    apply IH in H. discriminate.
  - destruct (Z.eqb_spec x c) as [->|Ne]; split; try discriminate.
    + intros N. exfalso. apply N. left. reflexivity.
    + intros _ [H|H]; [contradiction|]. apply (proj1 IH eq_refl), H.
    + reflexivity.
Qed.
Lemma split_last_spec c l a b : split_last c l = Some (a, b) <-> l = a ++ c :: b /\ ~ In c b.
Proof.
  split.
  - revert a b. induction l as [|x l IH]; intros a b; cbn [split_last]; [discriminate|].
    destruct (split_last c l) as [[a' b']|] eqn:E.
    + intros H. injection H as <- <-. destruct (IH a' b' eq_refl) as [-> N]. split; [reflexivity|exact N].
    + destruct (Z.eqb_spec x c) as [->|Ne]; [|discriminate]. intros H. injection H as <- <-.
      split; [reflexivity|]. apply split_last_none, E.
  - intros [-> N]. induction a as [|x a IH]; cbn [app split_last].
    + rewrite (proj2 (split_last_none c b) N), Z.eqb_refl. reflexivity.
    + rewrite IH. reflexivity.
Qed.

(* ---------- characters ---------- *)
Lemma index_of_find c l : forall i, index_of c l i = if str_in c l then Some (find_from c l i) else None.
Proof.
  unfold str_in. induction l as [|x l IH]; intros i; cbn [index_of existsb find_from]; [reflexivity|].
  destruct (x =? c); cbn [orb]; [reflexivity|apply IH].
Qed.
Lemma value_of_spec c v : value_of c = Some v <-> is5 v /\ c = char_of v.
Proof.
  unfold value_of. rewrite index_of_find. fold (str_find CHARSET c). split.
  - destruct (str_in c CHARSET) eqn:E; [|discriminate]. intros H. injection H as <-.
    destruct (charset_member c E). auto.
  - intros [Hv ->]. destruct (char_of_facts v Hv) as (A & B & _). rewrite B, A. reflexivity.
Qed.
Lemma values_of_spec cs : forall vals, values_of cs = Some vals <-> Forall is5 vals /\ cs = map char_of vals.
Proof.
  induction cs as [|c cs IH]; intros vals; cbn [values_of].
  - split; [intros H; injection H as <-; auto|]. intros [_ H]. destruct vals; [reflexivity|discriminate].
  - split.
    + destruct (value_of c) as [v|] eqn:Ev; [|discriminate]. destruct (values_of cs) as [r|] eqn:Er; [|discriminate].
      intros H. injection H as <-. apply value_of_spec in Ev as [Hv ->]. destruct (proj1 (IH r) eq_refl) as [Fr ->].
      split; [constructor; assumption|reflexivity].
    + intros [F E]. destruct vals as [|v vals]; [discriminate|]. cbn [map] in E. injection E as -> ->.
      inversion F; subst. rewrite (proj2 (value_of_spec (char_of v) v)) by auto.
      rewrite (proj2 (IH vals)) by auto. reflexivity.
Qed.

Lemma forallb_printable s : forallb printableb s = true <-> Forall printable s.
Proof.
  rewrite forallb_forall, Forall_forall. split; intros H x Hx; apply printableb_spec, H, Hx.
Qed.
Lemma single_caseb_spec s : single_caseb s = true <-> single_case s.
Proof. unfold single_caseb, single_case. rewrite orb_true_iff, !zeqb_list_eq. tauto. Qed.
Lemma checksum_okb_spec hrp vals : checksum_okb hrp vals = true <-> checksum_ok hrp vals.
Proof. unfold checksum_okb, checksum_ok. apply zeqb_list_eq. Qed.

(* ---------- ref_bech32_decode ---------- *)
Theorem ref_bech32_decode_iff s hrp vals :
  ref_bech32_decode s = Some (hrp, vals) <-> bech32_valid s hrp vals.
Proof.
  unfold ref_bech32_decode, bech32_valid. split.
  - destruct (forallb printableb s && single_caseb s && (length s <=? 90)%nat) eqn:E; [|discriminate].
    apply andb_true_iff in E as [E E3]. apply andb_true_iff in E as [E1 E2].
    apply forallb_printable in E1. apply single_caseb_spec in E2. apply Nat.leb_le in E3.
    destruct (split_last SEP (lower_s s)) as [[h rest]|] eqn:Es; [|discriminate].
    apply split_last_spec in Es as [Els Nr].
    destruct h as [|h0 h]; [discriminate|]. destruct (values_of rest) as [vs|] eqn:Ev; [|discriminate].
    apply values_of_spec in Ev as [Fv ->].
    destruct ((6 <=? length vs)%nat && checksum_okb (h0 :: h) vs) eqn:E4; [|discriminate].
    apply andb_true_iff in E4 as [E4 E5]. apply Nat.leb_le in E4. apply checksum_okb_spec in E5.
    intros H. injection H as <- <-. repeat split; auto. discriminate.
  - intros (P & C & L & Hn & El & F5 & L6 & Ck).
    rewrite (proj2 (forallb_printable s) P), (proj2 (single_caseb_spec s) C), (proj2 (Nat.leb_le _ _) L). cbn [andb].
    rewrite (proj2 (split_last_spec SEP (lower_s s) hrp (map char_of vals))) by (split; [exact El|apply sep_not_in_chars, F5]).
    destruct hrp as [|h0 h]; [contradiction|].
    rewrite (proj2 (values_of_spec (map char_of vals) vals)) by auto.
    rewrite (proj2 (Nat.leb_le _ _) L6), (proj2 (checksum_okb_spec _ _) Ck). reflexivity.
Qed.

(* ---------- regroup_strict ---------- *)
Lemma chunks_concat t n : forall l, (n * t <= length l)%nat ->
  concat (chunks t n l) = firstn (n * t) l /\ Forall (fun c => length c = t) (chunks t n l) /\ length (chunks t n l) = n.
Proof.
  induction n as [|n IH]; intros l L; cbn [chunks concat]; [auto|].
  assert (Lt : (t <= length l)%nat) by nia.
  assert (Ln : (n * t <= length l - t)%nat) by nia.
  destruct (IH (skipn t l)) as (A & B & C); [rewrite skipn_length; lia|].
  repeat split.
  - rewrite A. replace (S n * t)%nat with (t + n * t)%nat by lia.
    rewrite <- (firstn_skipn t l) at 3. rewrite firstn_app, firstn_length, Nat.min_l by lia.
    rewrite firstn_firstn, Nat.min_r by lia. f_equal. f_equal. lia.
  - constructor; [rewrite firstn_length; lia|exact B].
  - cbn [length]. rewrite C. reflexivity.
Qed.
Lemma bitstring_of_chunks t cs : Forall (fun c => length c = t) cs -> bitstring t (map of_bits cs) = concat cs.
Proof.
  unfold bitstring. induction cs as [|c cs IH]; intros F; [reflexivity|].
  inversion F; subst. cbn [map concat]. rewrite bits_be_of_bits, IH by assumption. reflexivity.
Qed.

Theorem regroup_strict_spec f t vs ret : (1 <= t)%nat -> (f <= t)%nat ->
  regroup_strict f t vs = Some ret <->
  (Forall (inT t) ret /\ exists pad, bitstring f vs = bitstring t ret ++ pad /\
                                     (length pad < f)%nat /\ Forall (fun b => b = false) pad).
Proof.
  intros Ht Lft. unfold regroup_strict. set (bits := bitstring f vs). split.
  - set (n := (length bits / t)%nat).
    destruct ((length (skipn (n * t) bits) <? f)%nat && forallb negb (skipn (n * t) bits)) eqn:E; [|discriminate].
    apply andb_true_iff in E as [E1 E2]. apply Nat.ltb_lt in E1.
    intros H. injection H as <-.
    assert (Ln : (n * t <= length bits)%nat) by (unfold n; rewrite Nat.mul_comm; apply Nat.mul_div_le; lia).
    destruct (chunks_concat t n bits Ln) as (A & B & C). split.
    + apply Forall_map. eapply Forall_impl; [|exact B]. intros c Hc. unfold inT. rewrite <- Hc. apply of_bits_range.
    + exists (skipn (n * t) bits). rewrite bitstring_of_chunks by exact B. rewrite A, firstn_skipn.
      repeat split; auto. apply Forall_forall. intros b Hb. rewrite forallb_forall in E2.
      specialize (E2 b Hb). destruct b; [discriminate|reflexivity].
  - intros (F & pad & D & Lp & Zp).
    assert (LL : (length bits = t * length ret + length pad)%nat).
    { rewrite D, app_length, bitstring_length. reflexivity. }
    assert (N : (length bits / t = length ret)%nat).
    { symmetry. apply (Nat.div_unique _ _ _ (length pad)); lia. }
    rewrite N. assert (Sk : skipn (length ret * t) bits = pad).
    { rewrite D, skipn_app, skipn_all2 by (rewrite bitstring_length; lia).
      rewrite bitstring_length. replace (length ret * t - t * length ret)%nat with 0%nat by lia. reflexivity. }
    rewrite Sk. rewrite (proj2 (Nat.ltb_lt _ _) Lp).
    assert (Zb : forallb negb pad = true).
    { apply forallb_forall. intros b Hb. rewrite Forall_forall in Zp. rewrite (Zp b Hb). reflexivity. }
    rewrite Zb. cbn [andb]. rewrite D, chunks_bitstring, of_bits_map by exact F. reflexivity.
Qed.

(* ---------- ref_decode ---------- *)
Theorem ref_decode_iff hrp s ver prog :
  ref_decode hrp s = Some (ver, prog) <-> bip173_segwit hrp s ver prog.
Proof.
  unfold ref_decode. split.
  - destruct (ref_bech32_decode s) as [[h vals]|] eqn:E; [|discriminate].
    destruct (zeqb_list h hrp) eqn:Eh; [|discriminate]. apply zeqb_list_eq in Eh. subst h.
    apply ref_bech32_decode_iff in E. pose proof E as (_ & _ & _ & _ & _ & F5 & L6 & _).
    destruct (firstn (length vals - 6) vals) as [|v body] eqn:Ef; [discriminate|].
    destruct (regroup_strict 5 8 body) as [p|] eqn:Er; [|discriminate].
    apply regroup_strict_spec in Er as (F8 & pad & D & Lp & Zp); try lia.
    destruct ((2 <=? length p)%nat && (length p <=? 40)%nat && (v <=? 16) &&
              (if v =? 0 then (length p =? 20)%nat || (length p =? 32)%nat else true)) eqn:Ec; [|discriminate].
    intros H. injection H as <- <-.
    apply andb_true_iff in Ec as [Ec E4]. apply andb_true_iff in Ec as [Ec E3]. apply andb_true_iff in Ec as [E1 E2].
    apply Nat.leb_le in E1, E2. apply Z.leb_le in E3.
    destruct (firstn_skipn_6 vals L6) as [Sv Lc]. rewrite Ef in Sv.
    assert (Fv : is5 v).
    { assert (Fd : Forall is5 (v :: body)) by (rewrite <- Ef; apply Forall_firstn, F5). inversion Fd; assumption. }
    exists body, (skipn (length vals - 6) vals), pad.
    split; [change (v :: body ++ skipn (length vals - 6) vals) with ((v :: body) ++ skipn (length vals - 6) vals); rewrite <- Sv; exact E|].
    unfold is5 in Fv. repeat split; auto; try lia.
    intros ->. cbn [Z.eqb] in E4. apply orb_true_iff in E4 as [E4|E4]; apply Nat.eqb_eq in E4; auto.
  - intros (body & chk & pad & V & Lc & D & Lp & Zp & F8 & Lprog & Hver & H0).
    rewrite (proj2 (ref_bech32_decode_iff s hrp _) V).
    rewrite (proj2 (zeqb_list_eq hrp hrp) eq_refl).
    replace (length (ver :: body ++ chk) - 6)%nat with (length (ver :: body)) by (cbn [length]; rewrite app_length; lia).
    rewrite app_comm_cons, firstn_app, firstn_all, Nat.sub_diag. cbn [firstn]. rewrite app_nil_r.
    rewrite (proj2 (regroup_strict_spec 5 8 body prog ltac:(lia) ltac:(lia))) by (split; [exact F8|exists pad; auto]).
    rewrite (proj2 (Nat.leb_le _ _) (proj1 Lprog)), (proj2 (Nat.leb_le _ _) (proj2 Lprog)), (proj2 (Z.leb_le _ _) (proj2 Hver)).
    cbn [andb]. destruct (Z.eqb_spec ver 0) as [E0|N0]; [|reflexivity].
    destruct (H0 E0) as [L|L]; rewrite L; reflexivity.
Qed.

Corollary decode_is_ref hrp s : decode hrp s = Ok (ref_decode hrp s).
Proof.
  destruct (decode_total hrp s) as [[[v p]|] D]; rewrite D; f_equal.
  - symmetry. apply ref_decode_iff, decode_iff, D.
  - destruct (ref_decode hrp s) as [[v p]|] eqn:R; [|reflexivity].
    apply ref_decode_iff, decode_iff in R. congruence.
Qed.

Corollary bech32_decode_is_ref s :
  bech32_decode s = match ref_bech32_decode s with
                    | Some (h, vals) => Some (h, firstn (length vals - 6) vals)
                    | None => None
                    end.
Proof.
  destruct (ref_bech32_decode s) as [[h vals]|] eqn:R.
  - apply bech32_decode_iff. exists vals. split; [apply ref_bech32_decode_iff, R|reflexivity].
  - destruct (bech32_decode s) as [[h d]|] eqn:D; [|reflexivity].
    apply bech32_decode_iff in D as (vals & V & _). apply ref_bech32_decode_iff in V. congruence.
Qed.

(* ---------- ref_encode ---------- *)
Lemma encodableb_spec hrp ver prog : encodableb hrp ver prog = true <-> encodable hrp ver prog.
Proof.
  unfold encodableb, encodable, valid_hrp. rewrite !andb_true_iff, forallb_printable, zeqb_list_eq.
  rewrite !Nat.leb_le, !Z.leb_le, negb_true_iff.
  assert (F8 : forallb (fun v => (0 <=? v) && (v <? 256)) prog = true <-> Forall is8 prog).
  { rewrite forallb_forall, Forall_forall. unfold is8. split; intros H x Hx; specialize (H x Hx).
    - apply andb_true_iff in H as [A B]. apply Z.leb_le in A. apply Z.ltb_lt in B. lia.
    - apply andb_true_iff. rewrite Z.leb_le, Z.ltb_lt. lia. }
  rewrite F8.
  assert (V0 : (if ver =? 0 then (length prog =? 20)%nat || (length prog =? 32)%nat else true) = true <->
               (ver = 0 -> length prog = 20%nat \/ length prog = 32%nat)).
  { destruct (Z.eqb_spec ver 0) as [E|N]; [|split; [intros _ H; contradiction|reflexivity]].
    rewrite orb_true_iff, !Nat.eqb_eq. tauto. }
  rewrite V0.
  assert (Hn : match hrp with [] => true | _ :: _ => false end = false <-> hrp <> []).
  { destruct hrp; split; try discriminate; try reflexivity; intros H; contradiction. }
  rewrite Hn. tauto.
Qed.

Theorem ref_encode_iff hrp ver prog a :
  ref_encode hrp ver prog = Some a <-> (encodable hrp ver prog /\ a = spec_address hrp ver prog).
Proof.
  unfold ref_encode. destruct (encodableb hrp ver prog) eqn:E.
  - apply encodableb_spec in E. split; [intros H; injection H as <-; auto|intros [_ ->]; reflexivity].
  - split; [discriminate|]. intros [H _]. apply encodableb_spec in H. congruence.
Qed.

(* ---------- encode computes ref_encode on its whole domain ---------- *)
Lemma create_checksum_is5 hrp data : Forall is5 (bech32_create_checksum hrp data).
Proof.
  unfold bech32_create_checksum. apply Forall_map, Forall_forall. intros i _.
  change Gen.Bech32.bech32_chk_mask with (Z.ones 5). rewrite Z.land_ones by lia.
  unfold is5. change (2^5) with 32. apply Z.mod_pos_bound. lia.
Qed.
Lemma map_char_of_inj a : forall b, Forall is5 a -> Forall is5 b -> map char_of a = map char_of b -> a = b.
Proof.
  induction a as [|x a IH]; intros [|y b] Fa Fb E; try discriminate; [reflexivity|].
  cbn [map] in E. injection E as E1 E2. inversion Fa; inversion Fb; subst.
  f_equal; [apply char_of_inj; assumption|apply IH; assumption].
Qed.

Lemma app_inj_length_r {A} (a a' b b' : list A) : length b = length b' ->
  a ++ b = a' ++ b' -> a = a' /\ b = b'.
Proof.
  intros L E. apply app_inj_length; [|exact E].
  apply (f_equal (@length A)) in E. rewrite !app_length in E. lia.
Qed.

Theorem encode_is_ref hrp ver prog : is5 ver -> Forall is8 prog ->
  encode hrp ver prog = Ok (ref_encode hrp ver prog).
Proof.
  intros Hv F8. destruct (ref_encode hrp ver prog) as [a|] eqn:R.
  - apply ref_encode_iff in R as [E ->]. apply encode_spec, E.
  - (* not encodable: whatever bech32_encode builds, decode refuses it *)
    destruct (conv85 prog F8) as (c & k & Ec & Bc & Lk & Fc).
    unfold encode. rewrite Ec. cbn [bind].
    assert (Fd : Forall is5 (ver :: c)) by (constructor; assumption).
    set (chk0 := bech32_create_checksum hrp (ver :: c)).
    assert (Fv : Forall is5 ((ver :: c) ++ chk0)) by (apply Forall_app; split; [exact Fd|apply create_checksum_is5]).
    unfold bech32_encode. fold chk0. rewrite mapM_index by exact Fv. cbn [bind].
    assert (Lc0 : length chk0 = 6%nat) by reflexivity.
    assert (Ck0 : chk0 = bech32_create_checksum hrp (ver :: c)) by reflexivity. clearbody chk0.
    set (Y := map char_of ((ver :: c) ++ chk0)).
    set (s := hrp ++ [49] ++ Y).
    destruct (decode_total hrp s) as [[[v' p']|] D]; rewrite D; cbn [bind]; [exfalso|reflexivity].
    apply decode_iff in D as (body & chk & pad & V & Lc & D5 & Lp & Zp & F8' & Lprog & Hver & H0).
    destruct V as (P & _ & L90 & Hn & El & F5 & _ & _).
    assert (Ph : Forall printable hrp) by (unfold s in P; apply Forall_app in P; tauto).
    assert (Ls : lower_s s = lower_s hrp ++ SEP :: Y).
    { unfold s. unfold lower_s at 1. rewrite map_app.
      change (map to_lower ([49] ++ Y)) with (SEP :: lower_s Y).
      unfold Y. rewrite chars_lower by exact Fv. reflexivity. }
    rewrite Ls in El. unfold Y in El. apply app_inj_length in El; [|apply lower_length]. destruct El as [Eh Et].
    assert (Et' : map char_of ((ver :: c) ++ chk0) = map char_of (v' :: body ++ chk)) by congruence.
    clear Et. rename Et' into Et. apply map_char_of_inj in Et; auto.
    cbn [app] in Et. injection Et as -> Et.
    apply app_inj_length_r in Et.
    2:{ rewrite Lc0, Lc. reflexivity. }
    destruct Et as [-> ->].
    (* the program is the one we started from *)
    assert (Ep : prog = p').
    { rewrite Bc in D5.
      assert (LL : (8 * length prog + k = 8 * length p' + length pad)%nat).
      { apply (f_equal (@length bool)) in D5. rewrite !app_length, !bitstring_length, repeat_length in D5. exact D5. }
      apply app_inj_length in D5; [|rewrite !bitstring_length; lia].
      apply (bitstring_inj 8); auto; [lia|tauto]. }
    subst p'.
    assert (E : encodable hrp v' prog).
    { unfold encodable, valid_hrp. repeat split; auto; try lia.
      assert (Rc : regroup_pad 8 5 prog = body) by (apply (regroup_pad_unique 8 5 prog body k); auto; lia).
      unfold spec_address, spec_bech32. rewrite Rc, <- (create_checksum_spec hrp (v' :: body) Ph Fd).
      rewrite <- Ck0. unfold s, Y in L90. cbn [app] in L90. exact L90. }
    assert (R' : ref_encode hrp v' prog = Some (spec_address hrp v' prog)) by (apply ref_encode_iff; auto).
    congruence.
Qed.

(* ---------- length of the canonical address; version 0 ---------- *)
Lemma chunks_length t n : forall l, length (chunks t n l) = n.
Proof. induction n as [|n IH]; intros l; cbn [chunks length]; [reflexivity|]. rewrite IH. reflexivity. Qed.
Lemma regroup_pad_length_8_5 prog : length (regroup_pad 8 5 prog) = ((8 * length prog + 4) / 5)%nat.
Proof. unfold regroup_pad. rewrite map_length, chunks_length, bitstring_length. f_equal. lia. Qed.
Lemma regroup_pad_is5 prog : Forall is8 prog -> Forall is5 (regroup_pad 8 5 prog).
Proof.
  intros F8. destruct (conv85 prog F8) as (c & k & _ & Bc & Lk & Fc).
  rewrite (regroup_pad_unique 8 5 prog c k); auto; lia.
Qed.
Lemma spec_address_length hrp ver prog : Forall printable hrp -> is5 ver -> Forall is8 prog ->
  length (spec_address hrp ver prog) = (length hrp + 8 + (8 * length prog + 4) / 5)%nat.
Proof.
  intros Ph Hv F8. unfold spec_address, spec_bech32.
  assert (Fd : Forall is5 (ver :: regroup_pad 8 5 prog)) by (constructor; [exact Hv|apply regroup_pad_is5, F8]).
  destruct (created_checksum_verifies hrp _ Ph Fd) as (_ & _ & Lc).
  rewrite (create_checksum_spec hrp _ Ph Fd) in Lc.
  rewrite app_length. cbn [length]. rewrite map_length, app_length, Lc. cbn [length].
  rewrite regroup_pad_length_8_5. lia.
Qed.

(* every valid lower-case prefix (up to the length the 90-character limit leaves), version 0 *)
Theorem v0_encodable hrp prog : valid_hrp hrp -> Forall is8 prog ->
  (length prog = 20%nat /\ (length hrp <= 50)%nat) \/ (length prog = 32%nat /\ (length hrp <= 30)%nat) ->
  encodable hrp 0 prog.
Proof.
  intros Vh F8 H. pose proof Vh as (_ & Ph & _).
  unfold encodable. split; [exact Vh|]. split; [exact F8|].
  rewrite spec_address_length by (auto; unfold is5; lia).
  destruct H as [[L Lh]|[L Lh]]; rewrite L; repeat split; auto; try lia.
  - change ((8 * 20 + 4) / 5)%nat with 32%nat. lia.
  - change ((8 * 32 + 4) / 5)%nat with 52%nat. lia.
Qed.
Theorem encodable_by_length hrp ver prog : valid_hrp hrp -> Forall is8 prog ->
  (2 <= length prog <= 40)%nat -> 0 <= ver <= 16 -> (ver = 0 -> length prog = 20%nat \/ length prog = 32%nat) ->
  (length hrp + 8 + (8 * length prog + 4) / 5 <= 90)%nat -> encodable hrp ver prog.
Proof.
  intros Vh F8 L Hv H0 L90. pose proof Vh as (_ & Ph & _). unfold encodable.
  split; [exact Vh|]. split; [exact F8|]. split; [exact L|]. split; [exact Hv|]. split; [exact H0|].
  rewrite spec_address_length by (auto; unfold is5; lia). exact L90.
Qed.

(* ---------- CBech32Data ---------- *)
Lemma forallb_is8 p : Forall is8 p -> forallb (fun v => (0 <=? v) && (v <? 256)) p = true.
Proof.
  intros F. apply forallb_forall. intros v Hv. rewrite Forall_forall in F. specialize (F v Hv). unfold is8 in F.
  apply andb_true_iff. rewrite Z.leb_le, Z.ltb_lt. lia.
Qed.
Theorem cb_new_is_ref hrp s :
  cb_new hrp s = match ref_decode hrp s with
                 | Some (v, p) => Ok (v, map z2b p)
                 | None => Err Bech32Err
                 end.
Proof.
  unfold cb_new. rewrite decode_is_ref. cbn [bind].
  destruct (ref_decode hrp s) as [[v p]|] eqn:R; [|reflexivity].
  apply ref_decode_iff in R as (_ & _ & _ & _ & _ & _ & _ & _ & F8 & _ & Hv & _).
  unfold cb_from_bytes. rewrite (proj2 (Z.leb_le 0 v)), (proj2 (Z.leb_le v 16)) by lia. cbn [andb negb].
  rewrite forallb_is8 by exact F8. reflexivity.
Qed.
Lemma map_b2z_is8 bs : Forall is8 (map b2z bs).
Proof. apply Forall_map, Forall_forall. intros b _. apply b2z_range. Qed.
Lemma map_z2b_b2z bs : map z2b (map b2z bs) = bs.
Proof. rewrite map_map. rewrite <- (map_id bs) at 2. apply map_ext. apply z2b_b2z. Qed.

Theorem cb_str_spec hrp ver bs : encodable hrp ver (map b2z bs) ->
  cb_str hrp (ver, bs) = Ok (spec_address hrp ver (map b2z bs)) /\
  cb_new hrp (spec_address hrp ver (map b2z bs)) = Ok (ver, bs).
Proof.
  intros E. destruct (encode_spec hrp ver _ E) as (H1 & H2 & H3). split.
  - unfold cb_str. cbn [fst snd]. rewrite H1. reflexivity.
  - rewrite cb_new_is_ref. rewrite (proj2 (ref_decode_iff _ _ _ _) H2). rewrite map_z2b_b2z. reflexivity.
Qed.
