(* Proofs/Sighash.v – C03: RawSignatureHash (copy / blank / prune / serialise, Model/Sighash.v)
   equals Bitcoin Core's on-the-fly signature serialisation (Spec/Sighash.v) for every
   transaction, every subscript that parses, every input index (valid or not) and all 256
   hash types, including the two (HASH_ONE, error) cases; the result does not depend on the
   witness; the SignatureHash wrapper returns the digest or raises ValueError, except for a
   witness-program-shaped subscript, where it raises AssertionError (F3). *)
From BV Require Import Common.Base Common.Codec Common.PyList Common.PyBits Common.Tx
  Gen.Sighash Spec.Wire Spec.ScriptRef Spec.Script Spec.Sighash
  Model.Wire Model.Script Model.FindAndDelete Model.Bip143 Model.Sighash
  Proofs.Wire Proofs.Bip143 Proofs.ScriptIter Proofs.ScriptPred Proofs.FindAndDelete.
(* Gen/ScriptConsts.v (exported by Model/Script.v) also carries SIGHASH_*: the MODEL of this
   file reads Gen/Sighash.v, so that one is imported last *)
From BV Require Import Gen.Sighash.

(* ---------- regenerated constants ---------- *)
Lemma build_codesep : build [TOp OP_CODESEPARATOR] = Ok [xab].
Proof. reflexivity. Qed.
Lemma hash_one_eq : HASH_ONE = one32.
Proof. reflexivity. Qed.
Lemma base_eq_none ht : Z.land ht RSH_mask_none = sh_base ht.
Proof. change RSH_mask_none with 0x1f. exact (land_1f ht). Qed.
Lemma base_eq_single ht : Z.land ht RSH_mask_single = sh_base ht.
Proof. change RSH_mask_single with 0x1f. exact (land_1f ht). Qed.
Lemma anyone_eq ht : 0 <= ht < 256 -> negb (Z.land ht SIGHASH_ANYONECANPAY =? 0) = sh_anyone ht.
Proof. exact (Bip143.anyone_eq ht). Qed.
Lemma pack_ht ht : 0 <= ht < 256 -> pack (nth_fmt 0 fmt_RawSignatureHash) ht = Ok (i 4 ht).
Proof.
  intros H. apply (pack_i ht 4 _ eq_refl). unfold in_i. change (256 ^ Z.of_nat 4 / 2) with 2147483648. lia.
Qed.
Lemma wire_filler : wire_txout filler = i 8 (-1) ++ cs 0.
Proof. vm_compute. reflexivity. Qed.
Lemma ser_tx_nowit t : ser_tx true (set_wit t []) = Ok (wire_tx_stripped t).
Proof. unfold ser_tx. rewrite has_witness_set_nil. cbn [andb]. now rewrite enc_tx_set_nil. Qed.

(* ---------- Python list operations in the middle of a list ---------- *)
Lemma py_nth_mid {A} (l1 : list A) v l2 : py_nth (l1 ++ v :: l2) (Z.of_nat (length l1)) = Ok v.
Proof.
  apply py_nth_in_range.
  - unfold len. rewrite app_length. cbn [length]. lia.
  - rewrite Nat2Z.id, nth_error_app2, Nat.sub_diag by lia. reflexivity.
Qed.
Lemma py_set_mid {A} (l1 : list A) v w l2 :
  py_set (l1 ++ v :: l2) (Z.of_nat (length l1)) w = Ok (l1 ++ w :: l2).
Proof.
  unfold py_set, norm_idx, len. rewrite app_length. cbn [length].
  destruct (Z.ltb_spec (Z.of_nat (length l1)) 0); [lia|].
  destruct (Z.ltb_spec (Z.of_nat (length l1)) 0); [lia|].
  destruct (Z.leb_spec (Z.of_nat (length l1 + S (length l2))) (Z.of_nat (length l1))); [lia|].
  cbn [orb bind]. rewrite Nat2Z.id. f_equal.
  rewrite firstn_app, Nat.sub_diag, firstn_all. cbn [firstn]. rewrite app_nil_r. f_equal. f_equal.
  clear. induction l1 as [|a l1 IH]; [reflexivity|exact IH].
Qed.

(* ---------- the scratch inputs ---------- *)
(* an input other than the one being signed: script blanked, sequence kept or zeroed *)
Definition other_in (keep : bool) (y : txin) : txin :=
  {| ti_prevout := ti_prevout y; ti_script := []; ti_seq := if keep then ti_seq y else 0 |}.
(* the input being signed: the cleaned subscript as its script *)
Definition mine_in (sub : bytes) (x : txin) : txin :=
  {| ti_prevout := ti_prevout x; ti_script := sub; ti_seq := ti_seq x |}.

Lemma zero_other_gt z l : forall i k, k < i -> zero_other_seqs z l i k = map (fun y => with_seq y z) l.
Proof.
  induction l as [|y l IH]; intros i k Hk; [reflexivity|]. cbn [zero_other_seqs map].
  destruct (Z.eqb_spec i k); [lia|]. cbn [negb]. f_equal. apply IH. lia.
Qed.
Lemma zero_other_mid z l1 v l2 : forall i,
  zero_other_seqs z (l1 ++ v :: l2) i (i + Z.of_nat (length l1))
  = map (fun y => with_seq y z) l1 ++ v :: map (fun y => with_seq y z) l2.
Proof.
  induction l1 as [|y l1 IH]; intros i.
  - cbn [app length map zero_other_seqs]. replace (i + Z.of_nat 0) with i by lia. rewrite Z.eqb_refl. cbn [negb].
    f_equal. apply zero_other_gt. lia.
  - cbn [app length map zero_other_seqs]. destruct (Z.eqb_spec i (i + Z.of_nat (S (length l1)))); [lia|]. cbn [negb].
    f_equal. replace (i + Z.of_nat (S (length l1))) with ((i + 1) + Z.of_nat (length l1)) by lia. apply IH.
Qed.

(* ---------- mapi ---------- *)
Lemma mapi_app {A B} (f : nat -> A -> B) l1 : forall k l2,
  mapi f k (l1 ++ l2) = mapi f k l1 ++ mapi f (k + length l1) l2.
Proof.
  induction l1 as [|a l1 IH]; intros k l2; cbn [app mapi length]; [now rewrite Nat.add_0_r|].
  rewrite IH. replace (k + S (length l1))%nat with (S k + length l1)%nat by lia. reflexivity.
Qed.
Lemma mapi_ext_map {A B} (f : nat -> A -> B) g l : forall k,
  (forall j a, (k <= j < k + length l)%nat -> f j a = g a) -> mapi f k l = map g l.
Proof.
  induction l as [|a l IH]; intros k Hf; [reflexivity|]. cbn [mapi map length] in *.
  rewrite Hf by lia. f_equal. apply IH. intros j b Hj. apply Hf. lia.
Qed.

(* the reference per-input rule, at and away from the signed index *)
Lemma ser_input_mine sub idx ht x : ser_input sub idx ht idx x = wire_txin (mine_in sub x).
Proof. unfold ser_input. rewrite Nat.eqb_refl. reflexivity. Qed.
Lemma ser_input_other sub idx ht k y : k <> idx ->
  ser_input sub idx ht k y = wire_txin (other_in (negb (sh_none ht || sh_single ht)) y).
Proof.
  intros Hk. unfold ser_input. destruct (Nat.eqb_spec k idx); [congruence|]. cbn [orb].
  unfold wire_txin, other_in. cbn [ti_prevout ti_script ti_seq]. destruct (negb (sh_none ht || sh_single ht)); reflexivity.
Qed.
Lemma ser_inputs_split sub ht l1 x l2 :
  concat (mapi (ser_input sub (length l1) ht) 0 (l1 ++ x :: l2))
  = concat (map wire_txin (map (other_in (negb (sh_none ht || sh_single ht))) l1 ++ mine_in sub x
                           :: map (other_in (negb (sh_none ht || sh_single ht))) l2)).
Proof.
  f_equal. rewrite mapi_app. cbn [mapi Nat.add]. rewrite ser_input_mine, map_app. cbn [map]. rewrite !map_map.
  f_equal; [|f_equal]; apply mapi_ext_map; intros j a Hj; apply ser_input_other; lia.
Qed.

(* the reference per-output rule under SINGLE *)
Lemma ser_outputs_single ht v1 o v2 : sh_single ht = true ->
  concat (mapi (ser_output (length v1) ht) 0 (firstn (S (length v1)) (v1 ++ o :: v2)))
  = concat (map wire_txout (repeat filler (length v1) ++ [o])).
Proof.
  intros Sg. f_equal.
  replace (firstn (S (length v1)) (v1 ++ o :: v2)) with (v1 ++ [o]).
  2:{ change (v1 ++ o :: v2) with (v1 ++ [o] ++ v2). rewrite app_assoc. symmetry. apply firstn_app_len.
      rewrite app_length. cbn [length]. lia. }
  rewrite mapi_app, map_app. cbn [mapi map Nat.add]. f_equal.
  - rewrite (mapi_ext_map _ (fun _ => i 8 (-1) ++ cs 0)).
    + induction v1 as [|a v1 IH]; [reflexivity|]. cbn [length repeat map]. now rewrite wire_filler, IH.
    + intros j a Hj. unfold ser_output. rewrite Sg. destruct (Nat.eqb_spec j (length v1)); [lia|]. reflexivity.
  - unfold ser_output. rewrite Nat.eqb_refl, andb_false_r. reflexivity.
Qed.

(* ---------- the main theorem ---------- *)
Section P.
Variable H : bytes -> bytes.

Lemma lenZ_scratch (f g : txin -> txin) (l1 : list txin) v x l2 :
  lenZ (map f l1 ++ v :: map g l2) = lenZ (l1 ++ x :: l2).
Proof. unfold lenZ. rewrite !app_length. cbn [length]. now rewrite !map_length. Qed.

(* the tail of RawSignatureHash, from ANYONECANPAY on, for a scratch transaction whose
   inputs are  others ++ mine :: others *)
Lemma tail_eq ver lock wit vout keep sub l1 x l2 ht : 0 <= ht < 256 ->
  let txtmp := {| tx_version := ver; tx_vin := map (other_in keep) l1 ++ mine_in sub x :: map (other_in keep) l2;
                  tx_vout := vout; tx_wit := wit; tx_lock := lock |} in
  (do txtmp <- (if negb (Z.land ht SIGHASH_ANYONECANPAY =? 0)
                then do tmp <- py_nth (tx_vin txtmp) (Z.of_nat (length l1)); Ok (with_vin txtmp [tmp])
                else Ok txtmp);
   let txtmp := set_wit txtmp [] in
   do s <- ser_tx true txtmp;
   do hb <- pack (nth_fmt 0 fmt_RawSignatureHash) ht;
   Ok (H (s ++ hb), false))
  = Ok (H (i 4 ver
           ++ (if sh_anyone ht then cs 1 ++ wire_txin (mine_in sub x)
               else cs (lenZ (l1 ++ x :: l2))
                    ++ concat (map wire_txin (map (other_in keep) l1 ++ mine_in sub x :: map (other_in keep) l2)))
           ++ vec wire_txout vout ++ u 4 lock ++ i 4 ht), false).
Proof.
  intros Hh. cbv zeta. rewrite anyone_eq by exact Hh. cbn [tx_vin].
  destruct (sh_anyone ht).
  - pose proof (py_nth_mid (map (other_in keep) l1) (mine_in sub x) (map (other_in keep) l2)) as N.
    rewrite map_length in N. rewrite N. cbn [bind]. rewrite ser_tx_nowit. cbn [bind]. rewrite pack_ht by exact Hh. cbn [bind].
    unfold wire_tx_stripped, with_vin, vec. cbn [tx_version tx_vin tx_vout tx_lock map concat].
    rewrite app_nil_r. change (lenZ [mine_in sub x]) with 1. rewrite <- !app_assoc. reflexivity.
  - cbn [bind]. rewrite ser_tx_nowit. cbn [bind]. rewrite pack_ht by exact Hh. cbn [bind].
    unfold wire_tx_stripped, vec. cbn [tx_version tx_vin tx_vout tx_lock].
    rewrite (lenZ_scratch _ _ l1 _ x l2). rewrite <- !app_assoc. reflexivity.
Qed.

Theorem raw_sighash_correct script t idx ht ops :
  raw_iter script = (ops, None) -> 0 <= ht < 256 ->
  raw_sighash H script t (Z.of_nat idx) ht = Ok (legacy_sighash H script t idx ht).
Proof.
  intros R Hh. unfold raw_sighash, legacy_sighash. rewrite Z.geb_leb. unfold len.
  destruct (nth_error (tx_vin t) idx) as [x|] eqn:Ex.
  2:{ apply nth_error_None in Ex. destruct (Z.leb_spec (Z.of_nat (length (tx_vin t))) (Z.of_nat idx)); [|lia].
      now rewrite hash_one_eq. }
  assert (Li : (idx < length (tx_vin t))%nat) by (apply nth_error_Some; congruence).
  destruct (Z.leb_spec (Z.of_nat (length (tx_vin t))) (Z.of_nat idx)); [lia|].
  apply nth_error_split in Ex as (l1 & l2 & Ev & <-).
  rewrite build_codesep. cbn [bind]. rewrite (fad_model_ref_codesep script ops R). cbn [bind].
  fold (strip_codesep script). set (sub := strip_codesep script).
  destruct t as [ver vin vout wit lock]. cbn [tx_vin tx_vout tx_version tx_lock tx_wit with_vin with_vout] in *. subst vin.
  (* blanking loop, then the assignment to vin[inIdx] *)
  rewrite map_app. cbn [map]. change (with_script x []) with (other_in true x).
  change (map (fun txin : txin => with_script txin [])) with (map (other_in true)).
  pose proof (py_nth_mid (map (other_in true) l1) (other_in true x) (map (other_in true) l2)) as N1.
  pose proof (py_set_mid (map (other_in true) l1) (other_in true x) (with_script (other_in true x) sub) (map (other_in true) l2)) as N2.
  rewrite map_length in N1, N2. rewrite N1. cbn [bind]. rewrite N2. cbn [bind].
  change (with_script (other_in true x) sub) with (mine_in sub x).
  (* the zeroing loop *)
  pose proof (zero_other_mid 0 (map (other_in true) l1) (mine_in sub x) (map (other_in true) l2) 0) as Zs.
  rewrite map_length, !map_map in Zs. cbn [Z.add] in Zs.
  change (map (fun x0 : txin => with_seq (other_in true x0) 0)) with (map (other_in false)) in Zs.
  change RSH_seq_none with 0. change RSH_seq_single with 0.
  rewrite base_eq_none, base_eq_single. change SIGHASH_NONE with 2. change SIGHASH_SINGLE with 3.
  fold (sh_none ht). fold (sh_single ht).
  unfold sighash_preimage, ser_inputs, ser_outputs. cbn [tx_vin tx_vout tx_version tx_lock]. fold sub.
  rewrite ser_inputs_split, ser_input_mine.
  assert (NS : sh_none ht = true -> sh_single ht = false).
  { unfold sh_none, sh_single. intros E. apply Z.eqb_eq in E. rewrite E. reflexivity. }
  destruct (sh_none ht) eqn:En.
  - (* NONE *)
    rewrite (NS eq_refl). cbn [andb orb negb bind tx_vin with_vin with_vout tx_vout tx_version tx_lock tx_wit]. rewrite Zs.
    exact (tail_eq ver lock wit [] false sub l1 x l2 ht Hh).
  - destruct (sh_single ht) eqn:Es.
    + (* SINGLE *)
      cbn [andb orb negb]. rewrite Z.geb_leb. unfold len.
      destruct (Z.leb_spec (Z.of_nat (length vout)) (Z.of_nat (length l1))) as [Lo|Lo].
      * destruct (Nat.leb_spec (length vout) (length l1)); [|lia]. cbn [bind]. now rewrite hash_one_eq.
      * destruct (Nat.leb_spec (length vout) (length l1)); [lia|].
        destruct (nth_error vout (length l1)) as [o|] eqn:Eo; [|apply nth_error_None in Eo; lia].
        apply nth_error_split in Eo as (v1 & v2 & -> & Lv). rewrite <- Lv at 1.
        rewrite py_nth_mid. cbn [bind tx_vin with_vin with_vout tx_vout tx_version tx_lock tx_wit]. rewrite Zs, Nat2Z.id.
        etransitivity; [exact (tail_eq ver lock wit (repeat filler (length l1) ++ [o]) false sub l1 x l2 ht Hh)|].
        rewrite <- Lv. rewrite ser_outputs_single by exact Es. unfold vec.
        replace (lenZ (repeat filler (length v1) ++ [o])) with (Z.of_nat (length v1) + 1)
          by (unfold lenZ; rewrite app_length, repeat_length; cbn [length]; lia).
        rewrite <- !app_assoc. reflexivity.
    + (* ALL and every undefined base type *)
      cbn [andb orb negb bind].
      etransitivity; [exact (tail_eq ver lock wit vout true sub l1 x l2 ht Hh)|]. unfold vec. reflexivity.
Qed.

(* ---------- the witness never enters ---------- *)
Theorem legacy_sighash_wit code t w idx ht :
  legacy_sighash H code (set_wit t w) idx ht = legacy_sighash H code t idx ht.
Proof. reflexivity. Qed.

Theorem raw_sighash_wit script t w inIdx ht :
  raw_sighash H script (set_wit t w) inIdx ht = raw_sighash H script t inIdx ht.
Proof.
  unfold raw_sighash. cbn [set_wit tx_vin tx_vout tx_version tx_lock tx_wit with_vin with_vout].
  destruct (inIdx >=? len (tx_vin t)); [reflexivity|].
  destruct (build [TOp OP_CODESEPARATOR]) as [sep|]; [|reflexivity]. cbn [bind].
  destruct (find_and_delete script sep) as [sub|]; [|reflexivity]. cbn [bind].
  destruct (py_nth _ inIdx) as [txin|]; [|reflexivity]. cbn [bind].
  destruct (py_set _ inIdx _) as [vin|]; [|reflexivity]. cbn [bind tx_vin tx_vout tx_version tx_lock tx_wit].
  destruct (Z.land ht RSH_mask_none =? SIGHASH_NONE).
  { cbn [bind]. destruct (negb (Z.land ht SIGHASH_ANYONECANPAY =? 0)); cbn [tx_vin];
      [destruct (py_nth _ inIdx); reflexivity | reflexivity]. }
  destruct (Z.land ht RSH_mask_single =? SIGHASH_SINGLE).
  { destruct (inIdx >=? len (tx_vout t)); [reflexivity|].
    destruct (py_nth (tx_vout t) inIdx); [|reflexivity]. cbn [bind tx_vin].
    destruct (negb (Z.land ht SIGHASH_ANYONECANPAY =? 0)); cbn [tx_vin];
      [destruct (py_nth _ inIdx); reflexivity | reflexivity]. }
  cbn [bind]. destruct (negb (Z.land ht SIGHASH_ANYONECANPAY =? 0)); cbn [tx_vin];
    [destruct (py_nth _ inIdx); reflexivity | reflexivity].
Qed.

(* ---------- a subscript that does not parse: the CScriptInvalidError propagates ---------- *)
Theorem raw_sighash_unparsable script t idx ht ops e :
  raw_iter script = (ops, Some e) -> (idx < length (tx_vin t))%nat ->
  raw_sighash H script t (Z.of_nat idx) ht = Err e /\ is_script_err e = true.
Proof.
  intros R L. split.
  - unfold raw_sighash. rewrite Z.geb_leb. unfold len.
    destruct (Z.leb_spec (Z.of_nat (length (tx_vin t))) (Z.of_nat idx)); [lia|].
    rewrite build_codesep. cbn [bind]. now rewrite (fad_model_err script [xab] ops e R).
  - destruct (raw_iter_sound _ _ _ R) as (_ & _ & rest & _ & _ & E2). now destruct (E2 e eq_refl).
Qed.

(* ---------- the SignatureHash wrapper ---------- *)
Definition cooked_spec (code : bytes) (t : tx) (idx : nat) (ht : Z) : res bytes :=
  let r := legacy_sighash H code t idx ht in if snd r then Err ValueError else Ok (fst r).

Theorem signature_hash_correct script t idx ht ops :
  raw_iter script = (ops, None) -> 0 <= ht < 256 -> ref_is_witness script = false ->
  signature_hash H script t (Z.of_nat idx) ht = cooked_spec script t idx ht.
Proof.
  intros R Hh Wn. unfold signature_hash, cooked_spec. rewrite is_witness_scriptpubkey_spec, Wn. cbn [bind].
  rewrite (raw_sighash_correct script t idx ht ops R Hh). reflexivity.
Qed.
(* F3: a witness-program-shaped subscript trips the assert, whatever the rest *)
Theorem signature_hash_witness_shaped script t inIdx ht :
  ref_is_witness script = true -> signature_hash H script t inIdx ht = Err AssertionError.
Proof. intros W. unfold signature_hash. rewrite is_witness_scriptpubkey_spec, W. reflexivity. Qed.
End P.

(* ... and such a subscript always parses (OP_n, then one direct push), so it is inside the
   property's quantifier *)
Lemma witness_shaped_parses s : ref_is_witness s = true -> exists ops, raw_iter s = (ops, None).
Proof.
  unfold ref_is_witness. destruct (ref_witness_program s) as [[v prog]|] eqn:E; [|discriminate]. intros _.
  apply ref_witness_program_iff in E as (vb & -> & R & V). pose proof (b2z_range vb) as Rv.
  set (d1 := if b2z vb =? 0 then Some (@nil byte) else None).
  set (ops := [mk_sop (b2z vb) d1 0; mk_sop (lenZ prog) (Some prog) 1]).
  assert (B1 : sop_bytes (mk_sop (b2z vb) d1 0) = [vb]).
  { unfold sop_bytes, d1. cbn [sop_opcode sop_data]. destruct V as [[E0 _]|[E1 _]].
    - rewrite E0. cbn [Z.eqb op_bytes Z.ltb Z.compare]. rewrite <- E0, z2b_b2z. reflexivity.
    - destruct (Z.eqb_spec (b2z vb) 0); [lia|]. cbn [op_bytes]. now rewrite z2b_b2z. }
  assert (B2 : sop_bytes (mk_sop (lenZ prog) (Some prog) 1) = z2b (lenZ prog) :: prog).
  { unfold sop_bytes. cbn [sop_opcode sop_data op_bytes]. destruct (Z.ltb_spec (lenZ prog) 76); [reflexivity|lia]. }
  assert (W : Forall sop_wf ops).
  { constructor; [|constructor; [|constructor]]; unfold sop_wf, d1; cbn [sop_opcode sop_data].
    - destruct V as [[E0 _]|[E1 _]].
      + rewrite E0. cbn [Z.eqb op_wf]. change (lenZ []) with 0. lia.
      + destruct (Z.eqb_spec (b2z vb) 0); [lia|]. cbn [op_wf]. lia.
    - cbn [op_wf]. lia. }
  assert (C : consecutive 0 ops).
  { unfold ops. cbn [consecutive sop_idx]. rewrite B1. split; [reflexivity|]. split; [reflexivity|exact I]. }
  destruct (raw_iter_complete ops [] W C (or_introl eq_refl)) as (e & Rr & E1 & _).
  rewrite (E1 eq_refl), app_nil_r in Rr. exists ops. rewrite <- Rr. f_equal.
  unfold ops, ops_bytes. cbn [map concat]. rewrite B1, B2. now rewrite app_nil_r.
Qed.

(* ---------- what the cleaned subscript is ---------- *)
(* on a script that parses, removing the pattern [0xab] operation by operation drops exactly
   the operations whose OPCODE is OP_CODESEPARATOR; a byte 0xab inside push data stays *)
Lemma z2b_is_ab op : 0 <= op < 256 -> z2b op = xab -> op = 0xab.
Proof. intros R E. apply (f_equal b2z) in E. rewrite z2b_small in E by exact R. exact E. Qed.
Lemma sop_is_codesep o : sop_wf o -> bytes_eqb (sop_bytes o) [xab] = (sop_opcode o =? 0xab).
Proof.
  destruct o as [op d k]. unfold sop_wf, sop_bytes. cbn [sop_opcode sop_data]. destruct d as [d|]; cbn [op_wf op_bytes].
  - intros (R & _). destruct (Z.eqb_spec op 171); [lia|].
    destruct (bytes_eqb _ [xab]) eqn:E; [|reflexivity]. apply bytes_eqb_eq in E. exfalso.
    destruct (op <? 76); [|destruct (op =? 76); [|destruct (op =? 77)]]; injection E as E _;
      apply z2b_is_ab in E; lia.
  - intros R. destruct (Z.eqb_spec op 171) as [->|N]; [reflexivity|].
    destruct (bytes_eqb _ [xab]) eqn:E; [|reflexivity]. apply bytes_eqb_eq in E. injection E as E.
    apply z2b_is_ab in E; lia.
Qed.
Definition not_codesep (o : sop) : bool := negb (sop_opcode o =? 0xab).
Theorem strip_codesep_ops ops : Forall sop_wf ops ->
  strip_codesep (ops_bytes ops) = ops_bytes (filter not_codesep ops).
Proof.
  intros W. unfold strip_codesep. rewrite (fad_ref_ops_bytes [xab] ops one_op_codesep W).
  induction W as [|o ops Wo W IH]; [reflexivity|]. unfold fad_ops. cbn [map concat filter]. fold (fad_ops [xab] ops).
  rewrite (sop_is_codesep o Wo), IH. unfold not_codesep at 2. destruct (sop_opcode o =? 171); cbn [negb]; reflexivity.
Qed.
Corollary strip_codesep_parsed script ops : raw_iter script = (ops, None) ->
  script = ops_bytes ops /\ strip_codesep script = ops_bytes (filter not_codesep ops).
Proof.
  intros R. destruct (raw_iter_sound _ _ _ R) as (W & _ & rest & E & E1 & _).
  rewrite (E1 eq_refl), app_nil_r in E. split; [exact E|]. rewrite E at 1. now apply strip_codesep_ops.
Qed.

(* the two error cases of the reference, spelled out *)
Lemma legacy_sighash_error H code t idx ht :
  snd (legacy_sighash H code t idx ht) = true <->
  (length (tx_vin t) <= idx)%nat \/ (sh_single ht = true /\ (length (tx_vout t) <= idx)%nat).
Proof.
  unfold legacy_sighash. destruct (nth_error (tx_vin t) idx) eqn:E.
  - assert (idx < length (tx_vin t))%nat by (apply nth_error_Some; congruence).
    destruct (sh_single ht); cbn [andb]; [destruct (Nat.leb_spec (length (tx_vout t)) idx)|]; cbn [snd];
      split; intros; try discriminate; try tauto; try lia; destruct H1 as [?|[? ?]]; try discriminate; lia.
  - apply nth_error_None in E. cbn [snd]. tauto.
Qed.
