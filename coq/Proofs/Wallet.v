(* Proofs/Wallet.v – C12: addresses <-> standard scripts, on the selected chain only.
   Built on the finished developments C10 (Base58Check: check_decode = spec_check_decode,
   check_roundtrip, to_text_spec, spec_encode_decode) and C11 (Bech32: decode_is_ref,
   ref_decode_iff, encode_spec, cb_str_spec, v0_encodable, sep_not_in_chars).

   * [parse_spec]       CBitcoinAddress(s) = the reference parser, for EVERY string s and
                        every parameter record p: an address of the table or AddressErr;
   * [to_text_std]      str(addr) is the table's text;
   * [spec_parse_table] the reference parser on the text of an address of chain q, read
                        under chain p (= Spec.Wallet.spec_foreign): a Base58Check address is
                        never a Bech32 string of the chain and vice versa (first-character
                        argument of Proofs/WalletLead.v);
   * [table_ok]         the side conditions (version bytes in range and distinct, valid
                        HRP, first characters disjoint) decided by computation on the
                        chain table regenerated from /repo;
   * the state-level theorems over arbitrary SelectParams histories;
   * the pre-fix constructors (F7, F8) with their witnesses, and the F9 witness. *)
From BV Require Import Common.Base Common.Hash Gen.Core Model.Wallet Spec.Wallet
  Proofs.WalletScript Proofs.WalletLead Proofs.WalletSelect.
From BV Require Model.Base58 Model.Bech32 Spec.Base58 Spec.Bech32 Proofs.Base58Spec Proofs.Base58
  Proofs.Bech32Poly Proofs.Bech32 Proofs.Bech32Ref.

Lemma lenZ_eqb {A} (l : list A) (n : nat) : (lenZ l =? Z.of_nat n) = (length l =? n)%nat.
Proof.
  unfold lenZ. destruct (Nat.eqb_spec (length l) n) as [->|NE]; [apply Z.eqb_refl|].
  apply Z.eqb_neq. lia.
Qed.

(* ======================= CBitcoinAddress(s) = reference parser ======================= *)
Section Parse.
Variable Hc : bytes -> bytes.

Lemma check_err s e : Spec.Base58.spec_check_decode Hc s = Err e -> e = Base58Invalid \/ e = Base58Checksum.
Proof.
  unfold Spec.Base58.spec_check_decode, Spec.Base58.spec_decode.
  destruct (Spec.Base58.map_opt Spec.Base58.ord58 s); [|intros [= <-]; auto].
  destruct (Spec.Base58.check_okb Hc _); [|intros [= <-]; auto].
  destruct (Spec.Base58.body _); [intros [= <-]; auto|discriminate].
Qed.
Lemma check_ok_range s v payload : Spec.Base58.spec_check_decode Hc s = Ok (v, payload) -> 0 <= v < 256.
Proof.
  rewrite <- Proofs.Base58.check_decode_spec. intros C.
  apply Proofs.Base58.check_decode_iff in C as (k & _ & _ & _ & R). exact R.
Qed.

Theorem parse_spec p s :
  parse Hc p s = match spec_parse Hc p s with
                 | Some (k, h) => Ok (std_addr p k h)
                 | None => Err AddressErr
                 end.
Proof.
  unfold parse, bech32_new, spec_parse. rewrite Proofs.Bech32Ref.decode_is_ref. cbn [bind].
  destruct (Spec.Bech32.ref_decode (cp_hrp p) s) as [[ver prog]|] eqn:R.
  - apply Proofs.Bech32Ref.ref_decode_iff in R as (body & chk & pad & _ & _ & _ & _ & _ & F8 & _ & Hv & H0).
    unfold bech32addr_from_bytes. destruct (Z.eqb_spec ver 0) as [->|NZ]; cbn [negb]; [|reflexivity].
    unfold Model.Bech32.cb_from_bytes. cbn [Z.leb Z.compare andb negb].
    rewrite Proofs.Bech32Ref.forallb_is8 by exact F8. cbn [bind fst snd].
    change 32 with (Z.of_nat 32). change 20 with (Z.of_nat 20). rewrite !lenZ_eqb, map_length.
    destruct (length prog =? 32)%nat; [reflexivity|]. destruct (length prog =? 20)%nat; reflexivity.
  - unfold base58_new. rewrite Proofs.Base58.check_decode_spec.
    destruct (Spec.Base58.spec_check_decode Hc s) as [[v payload]|e] eqn:C.
    + pose proof (check_ok_range s v payload C) as Rv. cbn [bind fst snd].
      unfold b58addr_from_bytes, Model.Base58.from_bytes.
      rewrite (proj2 (Z.leb_le 0 v)), (proj2 (Z.leb_le v 255)) by lia. cbn [andb negb bind fst snd].
      change 20 with (Z.of_nat 20). rewrite lenZ_eqb.
      destruct (length payload =? 20)%nat; cbn [negb]; [|reflexivity].
      destruct (Z.eqb_spec v (cp_script_addr p)) as [->|N1]; [reflexivity|].
      destruct (Z.eqb_spec v (cp_pubkey_addr p)) as [->|N2]; reflexivity.
    + cbn [bind]. destruct (check_err s e C) as [-> | ->]; reflexivity.
Qed.

(* never another exception class, never another kind of object *)
Corollary parse_total p s : (exists a, parse Hc p s = Ok a) \/ parse Hc p s = Err AddressErr.
Proof. rewrite parse_spec. destruct (spec_parse Hc p s) as [[k h]|]; eauto. Qed.

(* every address the parser returns is one of the table, with a payload of the right length *)
Lemma spec_parse_len p s k h : spec_parse Hc p s = Some (k, h) -> length h = payload_len k.
Proof.
  unfold spec_parse. destruct (Spec.Bech32.ref_decode (cp_hrp p) s) as [[ver prog]|].
  - destruct (ver =? 0); [|discriminate].
    destruct (Nat.eqb_spec (length prog) 32); [intros [= <- <-]; rewrite map_length; assumption|].
    destruct (Nat.eqb_spec (length prog) 20); [intros [= <- <-]; rewrite map_length; assumption|discriminate].
  - destruct (Spec.Base58.spec_check_decode Hc s) as [[v payload]|]; [|discriminate].
    destruct (Nat.eqb_spec (length payload) 20); [|discriminate].
    destruct (v =? cp_script_addr p); [intros [= <- <-]; assumption|].
    destruct (v =? cp_pubkey_addr p); [intros [= <- <-]; assumption|discriminate].
Qed.
Corollary parsed_is_standard p s a : parse Hc p s = Ok a ->
  exists k h, a = std_addr p k h /\ length h = payload_len k /\ spec_parse Hc p s = Some (k, h).
Proof.
  rewrite parse_spec. destruct (spec_parse Hc p s) as [[k h]|] eqn:E; [|discriminate].
  intros [= <-]. exists k, h. split; [reflexivity|]. split; [eapply spec_parse_len, E|reflexivity].
Qed.

(* a valid segwit address of this chain's prefix with a witness version other than 0 is
   refused with the address error (F7: it was an AssertionError) *)
Corollary unsupported_witness_version p s ver prog :
  Spec.Bech32.bip173_segwit (cp_hrp p) s ver prog -> ver <> 0 -> parse Hc p s = Err AddressErr.
Proof.
  intros B NZ. rewrite parse_spec. unfold spec_parse.
  rewrite (proj2 (Proofs.Bech32Ref.ref_decode_iff _ _ _ _) B).
  rewrite (proj2 (Z.eqb_neq _ _) NZ). reflexivity.
Qed.
(* a Base58Check string whose payload is not 20 bytes long, or whose version byte is not
   one of the chain's two, is refused (F8: the length was not checked) *)
Corollary bad_base58_refused p s v payload :
  Spec.Bech32.ref_decode (cp_hrp p) s = None -> Spec.Base58.spec_check_decode Hc s = Ok (v, payload) ->
  length payload <> 20%nat \/ (v <> cp_script_addr p /\ v <> cp_pubkey_addr p) ->
  parse Hc p s = Err AddressErr.
Proof.
  intros R C H. rewrite parse_spec. unfold spec_parse. rewrite R, C.
  destruct (Nat.eqb_spec (length payload) 20) as [L|NL]; [|reflexivity].
  destruct H as [H|[H1 H2]]; [contradiction|].
  rewrite (proj2 (Z.eqb_neq _ _) H1), (proj2 (Z.eqb_neq _ _) H2). reflexivity.
Qed.

(* ======================= str(addr) ======================= *)
Theorem to_text_std p k h : wf_chain p -> length h = payload_len k ->
  to_text Hc p (std_addr p k h) = Ok (spec_text Hc p k h).
Proof.
  intros (R1 & R2 & _ & Vh & Lh) L. unfold to_text, std_addr. cbn [a_cls a_ver a_data].
  assert (B : forall v, 0 <= v < 256 -> Model.Base58.to_str Hc (v, h) = Ok (Spec.Base58.spec_to_text Hc v h)).
  { intros v Rv. pose proof (Proofs.Base58.to_text_spec Hc v h Rv) as T.
    unfold Model.Base58.to_text, Model.Base58.from_bytes in T.
    rewrite (proj2 (Z.leb_le 0 v)), (proj2 (Z.leb_le v 255)) in T by lia. exact T. }
  assert (S : (length h = 20%nat \/ length h = 32%nat) -> (k = KP2WPKH \/ k = KP2WSH) ->
              length h = payload_len k ->
              Model.Bech32.cb_str (cp_hrp p) (0, h) = Ok (Spec.Bech32.spec_address (cp_hrp p) 0 (map b2z h))).
  { intros Ln _ _. apply Proofs.Bech32Ref.cb_str_spec, Proofs.Bech32Ref.v0_encodable; auto.
    - apply Proofs.Bech32Ref.map_b2z_is8.
    - rewrite map_length. destruct Ln as [E|E]; [left|right]; split; auto; lia. }
  destruct k; cbn [cls_of spec_version spec_text payload_len] in *; auto.
Qed.

(* ======================= the reference parser on table texts ======================= *)
Hypothesis Hc_len : forall x, (4 <= length (Hc x))%nat.

Lemma spec_to_text_shape v h : exists t, length t = (length h + 4)%nat /\
  Spec.Base58.spec_to_text Hc v h = Spec.Base58.spec_encode (z2b v :: t).
Proof.
  exists (h ++ firstn 4 (Hc (z2b v :: h))). split; [|reflexivity].
  rewrite app_length, firstn_length_le by apply Hc_len. reflexivity.
Qed.

(* a Base58 string of 25 bytes starting with v is not a Bech32 string with prefix hrp *)
Lemma bech32_refuses_b58 hrp v t : 0 <= v < 256 -> length t = 24%nat -> hrp_disjoint v hrp = true ->
  Spec.Bech32.ref_decode hrp (Spec.Base58.spec_encode (z2b v :: t)) = None.
Proof.
  intros Rv Lt D. destruct (Spec.Bech32.ref_decode hrp _) as [[ver prog]|] eqn:R; [|reflexivity].
  apply Proofs.Bech32Ref.ref_decode_iff in R as (body & chk & pad & V & _).
  destruct V as (_ & _ & _ & _ & Hl & _).
  exfalso. eapply (no_bech32_prefix v hrp t); eauto.
Qed.

Lemma spec_parse_b58_text p v h : 0 <= v < 256 -> length h = 20%nat -> hrp_disjoint v (cp_hrp p) = true ->
  spec_parse Hc p (Spec.Base58.spec_to_text Hc v h) =
  if v =? cp_script_addr p then Some (KP2SH, h)
  else if v =? cp_pubkey_addr p then Some (KP2PKH, h) else None.
Proof.
  intros Rv L D. unfold spec_parse.
  destruct (spec_to_text_shape v h) as (t & Lt & E). rewrite E.
  rewrite bech32_refuses_b58 by (auto; lia). rewrite <- E.
  destruct (Proofs.Base58.check_roundtrip Hc Hc_len v h Rv) as (s & _ & -> & C).
  rewrite Proofs.Base58.check_decode_spec in C. rewrite C, L. reflexivity.
Qed.

(* the prefix of a Bech32 string is determined by the string *)
Lemma hrp_unique s h1 vals1 h2 vals2 :
  Spec.Bech32.bech32_valid s h1 vals1 -> Spec.Bech32.bech32_valid s h2 vals2 -> h1 = h2.
Proof.
  intros (_ & _ & _ & _ & E1 & F1 & _) (_ & _ & _ & _ & E2 & F2 & _).
  pose proof (Proofs.Bech32.sep_not_in_chars _ F1) as N1.
  pose proof (Proofs.Bech32.sep_not_in_chars _ F2) as N2.
  pose proof (proj2 (Proofs.Bech32Ref.split_last_spec Spec.Bech32.SEP _ _ _) (conj E1 N1)) as S1.
  pose proof (proj2 (Proofs.Bech32Ref.split_last_spec Spec.Bech32.SEP _ _ _) (conj E2 N2)) as S2.
  rewrite S1 in S2. injection S2 as -> _. reflexivity.
Qed.

(* a Base58Check string with a 20-byte payload is the Base58 form of 25 bytes *)
Lemma b58_address_shape s v payload : Spec.Base58.spec_check_decode Hc s = Ok (v, payload) ->
  length payload = 20%nat ->
  0 <= v < 256 /\ exists t, length t = 24%nat /\ s = Spec.Base58.spec_encode (z2b v :: t).
Proof.
  intros C L. pose proof (check_ok_range s v payload C) as Rv. split; [exact Rv|].
  rewrite <- Proofs.Base58.check_decode_spec in C.
  apply Proofs.Base58.check_decode_iff in C as (k & D & (L5 & _) & B & _).
  rewrite Proofs.Base58.decode_spec in D. apply Proofs.Base58Spec.spec_encode_decode in D.
  exists (payload ++ Spec.Base58.tail4 k). split.
  - rewrite app_length, L. unfold Spec.Base58.tail4. rewrite skipn_length. lia.
  - rewrite <- D. f_equal. rewrite app_comm_cons, <- B. unfold Spec.Base58.body, Spec.Base58.tail4.
    symmetry. apply firstn_skipn.
Qed.

Lemma spec_parse_bech32_text p q k h :
  Spec.Bech32.valid_hrp (cp_hrp q) -> (length (cp_hrp q) <= 30)%nat ->
  hrp_disjoint (cp_script_addr p) (cp_hrp q) = true -> hrp_disjoint (cp_pubkey_addr p) (cp_hrp q) = true ->
  (k = KP2WPKH \/ k = KP2WSH) -> length h = payload_len k ->
  spec_parse Hc p (Spec.Bech32.spec_address (cp_hrp q) 0 (map b2z h)) =
  if same_hrp p q then Some (k, h) else None.
Proof.
  intros Vq Lq D1 D2 K L.
  assert (Enc : Spec.Bech32.encodable (cp_hrp q) 0 (map b2z h)).
  { apply Proofs.Bech32Ref.v0_encodable; [exact Vq|apply Proofs.Bech32Ref.map_b2z_is8|].
    rewrite map_length. destruct K as [-> | ->]; cbn [payload_len] in L; [left|right]; split; auto; lia. }
  destruct (Proofs.Bech32.encode_spec _ _ _ Enc) as (_ & Seg & _).
  set (s := Spec.Bech32.spec_address (cp_hrp q) 0 (map b2z h)) in *.
  unfold spec_parse, same_hrp.
  destruct (Spec.Bech32.zeqb_list (cp_hrp p) (cp_hrp q)) eqn:Eh.
  - apply Proofs.Bech32Poly.zeqb_list_eq in Eh. rewrite Eh.
    rewrite (proj2 (Proofs.Bech32Ref.ref_decode_iff _ _ _ _) Seg). cbn [Z.eqb].
    rewrite map_length, Proofs.Bech32Ref.map_z2b_b2z.
    destruct K as [-> | ->]; cbn [payload_len] in L; rewrite L; reflexivity.
  - destruct (Spec.Bech32.ref_decode (cp_hrp p) s) as [[ver prog]|] eqn:R.
    + exfalso. apply Proofs.Bech32Ref.ref_decode_iff in R as (b1 & c1 & p1 & V1 & _).
      destruct Seg as (b2 & c2 & p2 & V2 & _).
      pose proof (hrp_unique _ _ _ _ _ V1 V2) as E. rewrite E in Eh.
      rewrite (proj2 (Proofs.Bech32Poly.zeqb_list_eq _ _) eq_refl) in Eh. discriminate.
    + destruct (Spec.Base58.spec_check_decode Hc s) as [[v payload]|e] eqn:C; [|reflexivity].
      destruct (Nat.eqb_spec (length payload) 20) as [Lp|]; [|reflexivity].
      destruct (b58_address_shape s v payload C Lp) as (Rv & t & Lt & Es).
      destruct Seg as (b2 & c2 & p2 & V2 & _). destruct V2 as (_ & _ & _ & _ & Hl & _).
      assert (X : hrp_disjoint v (cp_hrp q) = true -> False).
      { intros D. rewrite Es in Hl. eapply (no_bech32_prefix v (cp_hrp q) t); eauto. }
      destruct (Z.eqb_spec v (cp_script_addr p)) as [->|_]; [exfalso; auto|].
      destruct (Z.eqb_spec v (cp_pubkey_addr p)) as [->|_]; [exfalso; auto|reflexivity].
Qed.

(* side conditions relating the selected chain p and the chain q the text comes from *)
Definition pair_ok (p q : chain_params) : Prop :=
  hrp_disjoint (cp_pubkey_addr q) (cp_hrp p) = true /\ hrp_disjoint (cp_script_addr q) (cp_hrp p) = true /\
  hrp_disjoint (cp_pubkey_addr p) (cp_hrp q) = true /\ hrp_disjoint (cp_script_addr p) (cp_hrp q) = true.

Theorem spec_parse_table p q k h : wf_chain p -> wf_chain q -> pair_ok p q -> length h = payload_len k ->
  spec_parse Hc p (spec_text Hc q k h) = spec_foreign p q k h.
Proof.
  intros Wp (Q1 & Q2 & _ & Vq & Lq) (D1 & D2 & D3 & D4) L. unfold spec_foreign, spec_text.
  destruct k; cbn [is_base58_kind spec_version payload_len] in *.
  - apply spec_parse_b58_text; auto.
  - apply spec_parse_b58_text; auto.
  - apply spec_parse_bech32_text; auto.
  - apply spec_parse_bech32_text; auto.
Qed.
End Parse.

(* ======================= the chain table regenerated from /repo ======================= *)
Definition valid_hrpb (hrp : list Z) : bool :=
  negb (match hrp with [] => true | _ => false end) && forallb Spec.Bech32.printableb hrp &&
  Spec.Bech32.zeqb_list (Spec.Bech32.lower_s hrp) hrp.
Definition chain_okb (p : chain_params) : bool :=
  (0 <=? cp_pubkey_addr p) && (cp_pubkey_addr p <? 256) && (0 <=? cp_script_addr p) && (cp_script_addr p <? 256) &&
  negb (cp_pubkey_addr p =? cp_script_addr p) && valid_hrpb (cp_hrp p) && (length (cp_hrp p) <=? 30)%nat.
Definition pair_okb (p q : chain_params) : bool :=
  hrp_disjoint (cp_pubkey_addr q) (cp_hrp p) && hrp_disjoint (cp_script_addr q) (cp_hrp p).
(* chains that do not share both Base58 prefixes share none (no version byte of one is a
   version byte of the other) *)
Definition b58_clean (p q : chain_params) : bool :=
  same_base58 p q ||
  (negb (cp_pubkey_addr q =? cp_pubkey_addr p) && negb (cp_pubkey_addr q =? cp_script_addr p) &&
   negb (cp_script_addr q =? cp_pubkey_addr p) && negb (cp_script_addr q =? cp_script_addr p)).
Definition table_okb : bool :=
  forallb chain_okb chains &&
  forallb (fun p => forallb (fun q => pair_okb p q && b58_clean p q) chains) chains.

Lemma table_ok : table_okb = true.
Proof. vm_compute. reflexivity. Qed.

Lemma chain_okb_sound p : chain_okb p = true -> wf_chain p.
Proof.
  unfold chain_okb, valid_hrpb, wf_chain. rewrite !andb_true_iff.
  intros ((((((A1 & A2) & A3) & A4) & A5) & ((B1 & B2) & B3)) & A6).
  apply Z.leb_le in A1, A3. apply Z.ltb_lt in A2, A4. apply negb_true_iff, Z.eqb_neq in A5.
  apply Nat.leb_le in A6. apply Proofs.Bech32Ref.forallb_printable in B2.
  apply Proofs.Bech32Poly.zeqb_list_eq in B3.
  repeat split; auto. destruct (cp_hrp p); [discriminate|discriminate].
Qed.

Lemma chains_wf p : In p chains -> wf_chain p.
Proof.
  intros I. apply chain_okb_sound. pose proof table_ok as T. unfold table_okb in T.
  apply andb_true_iff in T as [T _]. rewrite forallb_forall in T. apply T, I.
Qed.
Lemma chains_pair p q : In p chains -> In q chains -> pair_ok p q /\ b58_clean p q = true.
Proof.
  intros Ip Iq. pose proof table_ok as T. unfold table_okb in T.
  apply andb_true_iff in T as [_ T]. rewrite forallb_forall in T.
  pose proof (T p Ip) as Tp. rewrite forallb_forall in Tp. pose proof (Tp q Iq) as Tpq.
  pose proof (T q Iq) as Tq. rewrite forallb_forall in Tq. pose proof (Tq p Ip) as Tqp.
  unfold pair_okb in *. rewrite !andb_true_iff in Tpq, Tqp.
  destruct Tpq as ((A1 & A2) & A3). destruct Tqp as ((B1 & B2) & _).
  unfold pair_ok. auto.
Qed.

(* which chains share prefixes: index 0..3 = mainnet, testnet, signet, regtest.
   (same Base58 prefixes, same HRP) *)
Definition share_matrix : list (list (bool * bool)) :=
  map (fun p => map (fun q => (same_base58 p q, same_hrp p q)) chains) chains.
Lemma share_matrix_value : share_matrix =
  [ [(true, true);   (false, false); (false, false); (false, false)];
    [(false, false); (true, true);   (true, true);   (true, false)];
    [(false, false); (true, true);   (true, true);   (true, false)];
    [(false, false); (true, false);  (true, false);  (true, true)] ].
Proof. vm_compute. reflexivity. Qed.

(* ======================= cross-chain: accepted iff the prefixes are shared ======================= *)
Section Cross.
Variable Hc : bytes -> bytes.
Hypothesis Hc_len : forall x, (4 <= length (Hc x))%nat.

Lemma foreign_shares p q k h : wf_chain p -> b58_clean p q = true ->
  spec_foreign p q k h = if shares p q k then Some (k, h) else None.
Proof.
  intros (_ & _ & NE & _) C. unfold spec_foreign, shares, b58_clean, same_base58 in *.
  destruct k; cbn [is_base58_kind spec_version]; try reflexivity.
  - destruct (Z.eqb_spec (cp_pubkey_addr p) (cp_pubkey_addr q)) as [E1|N1];
    destruct (Z.eqb_spec (cp_script_addr p) (cp_script_addr q)) as [E2|N2]; cbn [andb orb] in *.
    + rewrite <- E1. rewrite (proj2 (Z.eqb_neq _ _) NE), Z.eqb_refl. reflexivity.
    + rewrite !andb_true_iff, !negb_true_iff in C. destruct C as (((C1 & C2) & C3) & C4). rewrite C2, C1. reflexivity.
    + rewrite !andb_true_iff, !negb_true_iff in C. destruct C as (((C1 & C2) & C3) & C4). rewrite C2, C1. reflexivity.
    + rewrite !andb_true_iff, !negb_true_iff in C. destruct C as (((C1 & C2) & C3) & C4). rewrite C2, C1. reflexivity.
  - destruct (Z.eqb_spec (cp_pubkey_addr p) (cp_pubkey_addr q)) as [E1|N1];
    destruct (Z.eqb_spec (cp_script_addr p) (cp_script_addr q)) as [E2|N2]; cbn [andb orb] in *.
    + rewrite <- E2, Z.eqb_refl. reflexivity.
    + rewrite !andb_true_iff, !negb_true_iff in C. destruct C as (((C1 & C2) & C3) & C4). rewrite C4, C3. reflexivity.
    + rewrite !andb_true_iff, !negb_true_iff in C. destruct C as (((C1 & C2) & C3) & C4). rewrite C4, C3. reflexivity.
    + rewrite !andb_true_iff, !negb_true_iff in C. destruct C as (((C1 & C2) & C3) & C4). rewrite C4, C3. reflexivity.
Qed.

(* the text of an address of chain q, parsed while chain p is selected *)
Theorem cross_chain p q k h : In p chains -> In q chains -> length h = payload_len k ->
  parse Hc p (spec_text Hc q k h) =
  if shares p q k then Ok (std_addr p k h) else Err AddressErr.
Proof.
  intros Ip Iq L. destruct (chains_pair p q Ip Iq) as [P C].
  rewrite parse_spec, (spec_parse_table Hc Hc_len p q k h (chains_wf p Ip) (chains_wf q Iq) P L).
  rewrite (foreign_shares p q k h (chains_wf p Ip) C). destruct (shares p q k); reflexivity.
Qed.

Lemma shares_refl p k : shares p p k = true.
Proof.
  unfold shares, same_base58, same_hrp. rewrite !Z.eqb_refl.
  rewrite (proj2 (Proofs.Bech32Poly.zeqb_list_eq _ _) eq_refl). destruct k; reflexivity.
Qed.

(* ======================= one chain: the four conversions ======================= *)
Variable H160 : bytes -> bytes.

Theorem roundtrip p k h : In p chains -> length h = payload_len k ->
  let a := std_addr p k h in
  from_spk H160 p (spec_script k h) = Ok a /\
  to_text Hc p a = Ok (spec_text Hc p k h) /\
  parse Hc p (spec_text Hc p k h) = Ok a /\
  to_spk p a = Ok (spec_script k h).
Proof.
  intros Ip L. pose proof (chains_wf p Ip) as W. cbv zeta. repeat split.
  - apply from_spk_std; assumption.
  - apply to_text_std; assumption.
  - rewrite (cross_chain p p k h Ip Ip L), shares_refl. reflexivity.
  - apply to_spk_std, L.
Qed.

(* every address the parser returns converts to its script, back, and to text, back *)
Theorem parsed_roundtrip p s a : In p chains -> parse Hc p s = Ok a ->
  exists k h, a = std_addr p k h /\ length h = payload_len k /\
    to_spk p a = Ok (spec_script k h) /\ from_spk H160 p (spec_script k h) = Ok a /\
    to_text Hc p a = Ok (spec_text Hc p k h) /\ parse Hc p (spec_text Hc p k h) = Ok a.
Proof.
  intros Ip P. destruct (parsed_is_standard Hc p s a P) as (k & h & -> & L & _).
  destruct (roundtrip p k h Ip L) as (A & B & C & D). exists k, h. repeat split; assumption.
Qed.

(* one-to-one: different (kind, payload) have different scripts and different texts *)
Theorem one_to_one p k h k' h' : In p chains -> length h = payload_len k -> length h' = payload_len k' ->
  (spec_script k h = spec_script k' h' -> k = k' /\ h = h') /\
  (spec_text Hc p k h = spec_text Hc p k' h' -> k = k' /\ h = h').
Proof.
  intros Ip L L'. split; [apply spec_script_inj; assumption|].
  intros E. destruct (roundtrip p k h Ip L) as (_ & _ & A & _). destruct (roundtrip p k' h' Ip L') as (_ & _ & B & _).
  rewrite E, B in A. injection A as A1 _ A3. split; [|auto].
  rewrite <- (kind_cls k), <- (kind_cls k'), A1. reflexivity.
Qed.

(* ======================= under any history of SelectParams calls ======================= *)
Definition final (hist : list text) : pstate := fst (run_history st_init hist).

Theorem history_roundtrip hist : exists p,
  nth_error chains (Z.to_nat (spec_selected hist)) = Some p /\
  final hist = both (spec_selected hist) /\
  forall k h, length h = payload_len k ->
    let a := std_addr p k h in
    st_from_spk H160 (final hist) (spec_script k h) = Ok a /\
    st_to_text Hc (final hist) a = Ok (spec_text Hc p k h) /\
    st_parse Hc (final hist) (spec_text Hc p k h) = Ok a /\
    st_to_spk (final hist) a = Ok (spec_script k h).
Proof.
  destruct (selected_chain hist) as (p & _ & Hn & Ip & Hp). exists p.
  unfold final. rewrite run_history_spec. cbn [fst]. split; [exact Hn|]. split; [reflexivity|].
  intros k h L. unfold st_from_spk, st_to_text, st_parse, st_to_spk. rewrite Hp. cbn [bind].
  apply roundtrip; assumption.
Qed.

Theorem history_parse hist : exists p,
  nth_error chains (Z.to_nat (spec_selected hist)) = Some p /\
  (forall s, st_parse Hc (final hist) s = match spec_parse Hc p s with
                                           | Some (k, h) => Ok (std_addr p k h)
                                           | None => Err AddressErr
                                           end) /\
  (forall q k h, In q chains -> length h = payload_len k ->
     st_parse Hc (final hist) (spec_text Hc q k h) =
     if shares p q k then Ok (std_addr p k h) else Err AddressErr).
Proof.
  destruct (selected_chain hist) as (p & _ & Hn & Ip & Hp). exists p.
  unfold final. rewrite run_history_spec. cbn [fst]. split; [exact Hn|].
  unfold st_parse. rewrite Hp. cbn [bind]. split.
  - intros s. apply parse_spec.
  - intros q k h Iq L. apply cross_chain; assumption.
Qed.
End Cross.

(* ======================= the code before the fixes (F7, F8) ======================= *)
(* CBech32BitcoinAddress.from_bytes with `assert witver == 0` *)
Definition bech32addr_from_bytes_unfixed (witver : Z) (witprog : list Z) : res addr :=
  if negb (witver =? 0) then Err AssertionError else bech32addr_from_bytes witver witprog.
(* CBase58BitcoinAddress.from_bytes without the length check *)
Definition b58addr_from_bytes_unfixed (p : chain_params) (data : bytes) (nVersion : Z) : res addr :=
  do o <- Model.Base58.from_bytes data nVersion;
  if nVersion =? cp_script_addr p then Ok {| a_cls := P2SH; a_ver := fst o; a_data := snd o |}
  else if nVersion =? cp_pubkey_addr p then Ok {| a_cls := P2PKH; a_ver := fst o; a_data := snd o |}
  else Err AddressErr.
Definition parse_unfixed (Hc : bytes -> bytes) (p : chain_params) (s : text) : res addr :=
  match (do d <- Model.Bech32.decode (cp_hrp p) s;
         match d with
         | None => Err Bech32Err
         | Some (witver, data) => bech32addr_from_bytes_unfixed witver data
         end) with
  | Err Bech32Err =>
      match (do o <- Model.Base58.check_decode Hc s; b58addr_from_bytes_unfixed p (snd o) (fst o)) with
      | Err Base58Invalid | Err Base58Checksum => Err AddressErr
      | r => r
      end
  | r => r
  end.

Definition mainnet : chain_params := hd (Build_chain_params [] 0 0 [] 0 0 0 []) chains.
(* bc1pqqqsyqcyq5rqwzqfpg9scrgwpugpzysnzs23v9ccrydpk8qarc0sagmhkq : version 1, program 00..1f *)
Definition f7_text : text :=
  [98;99;49;112;113;113;113;115;121;113;99;121;113;53;114;113;119;122;113;102;112;103;57;115;99;114;103;
   119;112;117;103;112;122;121;115;110;122;115;50;51;118;57;99;99;114;121;100;112;107;56;113;97;114;99;
   48;115;97;103;109;104;107;113].
(* 111111111111111111117K4nzc : version 0, 19 zero bytes *)
Definition f8_text : text :=
  [49;49;49;49;49;49;49;49;49;49;49;49;49;49;49;49;49;49;49;49;55;75;52;110;122;99].

Lemma f7_witness : parse_unfixed sha256d mainnet f7_text = Err AssertionError /\
                   parse sha256d mainnet f7_text = Err AddressErr.
Proof. vm_compute. split; reflexivity. Qed.
Lemma f8_witness : parse_unfixed sha256d mainnet f8_text = Ok {| a_cls := P2PKH; a_ver := 0; a_data := repeat x00 19 |} /\
                   parse sha256d mainnet f8_text = Err AddressErr.
Proof. vm_compute. split; reflexivity. Qed.

(* ======================= F9: bare uncompressed pubkey ======================= *)
Definition f9_pubkey : bytes := x04 :: map (fun i => z2b (Z.of_nat i)) (seq 0 64).
Lemma f9_witness : exists p pk, In p chains /\ length pk = 65%nat /\
  from_spk hash160 p (bare_script pk) <> Ok (std_addr p KP2PKH (hash160 pk)).
Proof.
  exists mainnet, f9_pubkey. split; [left; reflexivity|]. split; [reflexivity|].
  vm_compute. discriminate.
Qed.
