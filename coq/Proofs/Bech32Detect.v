(* Proofs/Bech32Detect.v – C11: guaranteed detection of up to four substitutions.
   From linearity of polymod (Bech32Poly), the minimum-distance computation
   (Bech32Distance) and the characterisation of decode (Bech32):
   if s is a valid address for (hrp, ver, prog) and s' differs from s in 1..4 positions
   (same length), then decode hrp s' is None, or s' is s up to letter case (and then
   decodes to the same (ver, prog)).  Never a different program. *)
From BV Require Import Common.Base Model.Bech32 Spec.Bech32
  Proofs.Bech32Poly Proofs.Bech32Bits Proofs.Bech32 Proofs.Bech32Radix Proofs.Bech32Distance.

(* ---------- hamming ---------- *)
Lemma hamming_map_le (f : Z -> Z) a : forall b, (hamming (map f a) (map f b) <= hamming a b)%nat.
Proof.
  induction a as [|x a IH]; intros [|y b]; cbn [map hamming]; try lia.
  specialize (IH b). destruct (Z.eqb_spec x y) as [->|N]; [rewrite Z.eqb_refl; lia|].
  destruct (f x =? f y); lia.
Qed.
Lemma hamming_prefix p a b : hamming (p ++ a) (p ++ b) = hamming a b.
Proof. induction p as [|x p IH]; [reflexivity|]. cbn [app hamming]. rewrite Z.eqb_refl, IH. reflexivity. Qed.
Lemma hamming_chars a : forall b, Forall is5 a -> Forall is5 b ->
  (hamming a b <= hamming (map char_of a) (map char_of b))%nat.
Proof.
  induction a as [|x a IH]; intros [|y b] Fa Fb; cbn [map hamming]; try lia.
  inversion Fa; inversion Fb; subst. specialize (IH b H2 H6).
  destruct (Z.eqb_spec x y) as [->|N]; [rewrite Z.eqb_refl; lia|].
  destruct (Z.eqb_spec (char_of x) (char_of y)) as [E|_]; [|lia].
  apply char_of_inj in E; auto. contradiction.
Qed.
Lemma hamming_0_eq a : forall b, length a = length b -> hamming a b = 0%nat -> a = b.
Proof.
  induction a as [|x a IH]; intros [|y b] L H; cbn [length] in L; try discriminate; [reflexivity|].
  cbn [hamming] in H. destruct (Z.eqb_spec x y) as [->|N]; [|lia]. f_equal. apply IH; lia.
Qed.
Lemma weight_xor a : forall b, length a = length b -> weight (map2 Z.lxor a b) = hamming a b.
Proof.
  unfold weight. induction a as [|x a IH]; intros [|y b] L; cbn [length] in L; try discriminate; [reflexivity|].
  cbn [map2 filter hamming]. specialize (IH b ltac:(lia)).
  destruct (Z.eqb_spec x y) as [->|N].
  - rewrite Z.lxor_nilpotent. cbn [Z.eqb negb]. exact IH.
  - destruct (Z.eqb_spec (Z.lxor x y) 0) as [E|_]; [apply Z.lxor_eq in E; contradiction|].
    cbn [negb length]. rewrite IH. reflexivity.
Qed.

Lemma map2_app {A B C} (f : A -> B -> C) a : forall a' b b', length a = length a' ->
  map2 f (a ++ b) (a' ++ b') = map2 f a a' ++ map2 f b b'.
Proof.
  induction a as [|x a IH]; intros [|y a'] b b' L; cbn [length] in L; try discriminate; [reflexivity|].
  cbn [app map2]. f_equal. apply IH. lia.
Qed.
Lemma map2_xor_self a : map2 Z.lxor a a = repeat 0 (length a).
Proof. induction a as [|x a IH]; [reflexivity|]. cbn [map2 length repeat]. rewrite Z.lxor_nilpotent, IH. reflexivity. Qed.
Lemma map2_length {A B C} (f : A -> B -> C) a : forall b, length a = length b -> length (map2 f a b) = length a.
Proof. induction a as [|x a IH]; intros [|y b] L; cbn [length] in L; try discriminate; [reflexivity|]. cbn [map2 length]. f_equal. apply IH. lia. Qed.
Lemma map2_xor_is5 a : forall b, Forall is5 a -> Forall is5 b -> Forall is5 (map2 Z.lxor a b).
Proof.
  induction a as [|x a IH]; intros [|y b] Fa Fb; cbn [map2]; try constructor.
  - inversion Fa; inversion Fb; subst. unfold is5 in *. change 32 with (2^5). apply lxor_bound; lia.
  - inversion Fa; inversion Fb; subst. apply IH; assumption.
Qed.

(* ---------- two valid strings under the same prefix that are close are equal ---------- *)
Lemma valid_polymod s hrp vals : bech32_valid s hrp vals ->
  bech32_polymod (hrp_expand hrp ++ vals) = 1 /\ Forall printable hrp.
Proof.
  intros (P & _ & _ & _ & El & F5 & _ & Ck).
  assert (Ph : Forall printable hrp).
  { pose proof (lower_printable s P) as Q. rewrite El in Q. apply Forall_app in Q. tauto. }
  split; [|exact Ph]. apply (verify_checksum_ok hrp vals Ph F5) in Ck.
  unfold bech32_verify_checksum in Ck. rewrite hrp_expand_eq in Ck. apply Z.eqb_eq in Ck. exact Ck.
Qed.

Theorem close_valid_equal s s' hrp vals vals' :
  bech32_valid s hrp vals -> bech32_valid s' hrp vals' -> length s' = length s ->
  (hamming s s' <= 4)%nat -> vals = vals' /\ lower_s s = lower_s s'.
Proof.
  intros V V' L H.
  destruct (valid_polymod _ _ _ V) as [Pm Ph]. destruct (valid_polymod _ _ _ V') as [Pm' _].
  destruct V as (_ & _ & L90 & Hn & El & F5 & _ & _). destruct V' as (_ & _ & _ & _ & El' & F5' & _ & _).
  assert (Lv : length vals = length vals').
  { apply (f_equal (@length Z)) in El, El'. rewrite lower_length, app_length in El, El'.
    cbn [length] in El, El'. rewrite map_length in El, El'. lia. }
  assert (Hv : (hamming vals vals' <= 4)%nat).
  { eapply Nat.le_trans; [apply hamming_chars; assumption|].
    rewrite <- (hamming_prefix (hrp ++ [SEP])), <- !app_assoc. cbn [app]. rewrite <- El, <- El'.
    eapply Nat.le_trans; [apply hamming_map_le|exact H]. }
  assert (E : vals = vals').
  { destruct (Nat.eq_dec (hamming vals vals') 0) as [Z0|NZ]; [apply hamming_0_eq; assumption|].
    exfalso. set (e := map2 Z.lxor vals vals').
    apply (bch_distance e).
    - unfold e. rewrite map2_length by exact Lv.
      apply (f_equal (@length Z)) in El. rewrite lower_length, app_length in El. cbn [length] in El.
      rewrite map_length in El. destruct hrp; [contradiction|]. cbn [length] in El. lia.
    - apply map2_xor_is5; assumption.
    - unfold e. rewrite weight_xor by exact Lv. lia.
    - unfold bech32_polymod in Pm, Pm'. change Gen.Bech32.bech32_polymod_init with 1 in Pm, Pm'.
      assert (K : polymod_from (Z.lxor 1 1) (map2 Z.lxor (hrp_expand hrp ++ vals) (hrp_expand hrp ++ vals')) = Z.lxor 1 1).
      { rewrite polymod_from_xor by (rewrite !app_length; lia). rewrite Pm, Pm'. reflexivity. }
      rewrite map2_app, map2_xor_self, polymod_from_app in K by reflexivity.
      change (Z.lxor 1 1) with 0 in K. rewrite polymod_from_zeros in K. exact K. }
  split; [exact E|]. rewrite El, El', E. reflexivity.
Qed.

Theorem detect_substitutions hrp s s' ver prog :
  decode hrp s = Ok (Some (ver, prog)) -> length s' = length s -> (1 <= hamming s s' <= 4)%nat ->
  decode hrp s' = Ok None \/ (lower_s s' = lower_s s /\ decode hrp s' = Ok (Some (ver, prog))).
Proof.
  intros D L H. destruct (decode_total hrp s') as [[[ver' prog']|] D']; [right|left; exact D'].
  apply decode_iff in D as (body & chk & pad & V & Rest).
  pose proof D' as P'. apply decode_iff in P' as (body' & chk' & pad' & V' & Rest').
  destruct (close_valid_equal s s' hrp _ _ V V' L ltac:(lia)) as [Ev El].
  split; [symmetry; exact El|].
  apply decode_iff. exists body, chk, pad. split; [|exact Rest].
  destruct V' as (P1 & P2 & P3 & P4 & P5 & P6 & P7 & P8). destruct V as (_ & _ & _ & _ & Q5 & _).
  unfold bech32_valid. rewrite Ev. repeat split; auto.
Qed.

(* the form quoted by the property: rejected, or the same address up to case *)
Corollary detect_substitutions_weak hrp s s' ver prog :
  decode hrp s = Ok (Some (ver, prog)) -> length s' = length s -> (1 <= hamming s s' <= 4)%nat ->
  decode hrp s' = Ok None \/ lower_s s' = lower_s s.
Proof. intros D L H. destruct (detect_substitutions hrp s s' ver prog D L H) as [N|[E _]]; auto. Qed.
